(* Contracts of the B-spline model (Model/Spline.v): FITPACK recurrence, knot placement,
   parameter validation. *)
From Coq Require Import List QArith Qcanon ZArith Lia Bool Sorted Permutation.
From Verif Require Import Base Transforms Spline TransformsLemmas.
Import ListNotations.
Local Open Scope Qc_scope.
Local Notation length := List.length (only parsing).
Local Notation concat := List.concat (only parsing).

(* non-decreasing knot vector, stated on indices *)
Definition knots_sorted (t : list Qc) : Prop :=
  forall a b, (a <= b)%nat -> (b < length t)%nat -> nth a t 0 <= nth b t 0.

(* ------------------------------------------------------------------ *)
(* fpbspl: shape *)
Lemma bspl_stage_length t x l j i carry hh :
  length (bspl_stage t x l j i carry hh) = S (length hh).
Proof.
  revert i carry. induction hh as [|a rest IH]; intros i carry; cbn [bspl_stage length].
  - reflexivity.
  - rewrite IH. reflexivity.
Qed.

Lemma fpbspl_length t x l k : length (fpbspl t x l k) = S k.
Proof.
  induction k as [|k IH]; cbn [fpbspl].
  - reflexivity.
  - rewrite bspl_stage_length, IH. reflexivity.
Qed.

(* ------------------------------------------------------------------ *)
(* one stage preserves the sum when no division is skipped *)
Lemma bspl_stage_sum t x l j hh : forall i carry,
  (forall i', (i <= i')%nat -> (i' < i + length hh)%nat ->
              nth (l + i') t 0 <> nth (l + i' - j) t 0) ->
  qsum (bspl_stage t x l j i carry hh) = carry + qsum hh.
Proof.
  induction hh as [|a rest IH]; intros i carry Hns; cbn [bspl_stage].
  - rewrite qsum_cons, !qsum_nil. ring.
  - assert (Hne : nth (l + i) t 0 <> nth (l + i - j) t 0).
    { apply Hns; cbn [length]; lia. }
    apply qeqb_false in Hne. rewrite Hne. apply qeqb_false in Hne.
    rewrite qsum_cons, IH.
    + rewrite qsum_cons. field. intros H0. apply Hne.
      transitivity (nth (l + i) t 0 - nth (l + i - j) t 0 + nth (l + i - j) t 0); [ring|].
      rewrite H0. ring.
    + intros i' H1 H2. apply Hns; cbn [length]; lia.
Qed.

(* with t[l] < t[l+1] on a sorted knot vector the skip never fires *)
Lemma no_skip t l j i' :
  knots_sorted t -> (j <= l)%nat -> (l + j < length t)%nat ->
  nth l t 0 < nth (S l) t 0 ->
  (1 <= i')%nat -> (i' <= j)%nat ->
  nth (l + i') t 0 <> nth (l + i' - j) t 0.
Proof.
  intros Hs Hjl Hlen Hlt H1 H2 Heq.
  assert (Ha : nth (l + i' - j) t 0 <= nth l t 0) by (apply Hs; lia).
  assert (Hb : nth (S l) t 0 <= nth (l + i') t 0) by (apply Hs; lia).
  rewrite Heq in Hb.
  apply (Qclt_not_le _ _ Hlt). eapply Qcle_trans; eassumption.
Qed.

(* 4a. partition of unity of the k+1 values of the recurrence, for ALL x *)
Theorem bs_partition_unity t x l k :
  knots_sorted t -> (k <= l)%nat -> (l + k < length t)%nat ->
  nth l t 0 < nth (S l) t 0 ->
  qsum (fpbspl t x l k) = 1.
Proof.
  intros Hs. induction k as [|k IH]; intros Hkl Hlen Hlt; cbn [fpbspl].
  - rewrite qsum_cons, qsum_nil. ring.
  - rewrite bspl_stage_sum.
    + rewrite IH by (try lia; exact Hlt). ring.
    + intros i' H1 H2. rewrite fpbspl_length in H2.
      apply no_skip; try assumption; lia.
Qed.

(* ------------------------------------------------------------------ *)
(* non-negativity *)
Definition all_nonneg (l : list Qc) : Prop := Forall (fun v => 0 <= v) l.

Lemma bspl_stage_nonneg t x l j hh : forall i carry,
  all_nonneg hh -> 0 <= carry ->
  (forall i', (i <= i')%nat -> (i' < i + length hh)%nat ->
              nth (l + i' - j) t 0 <= x /\ x <= nth (l + i') t 0) ->
  all_nonneg (bspl_stage t x l j i carry hh).
Proof.
  induction hh as [|a rest IH]; intros i carry Hnn Hc Hb; cbn [bspl_stage].
  - constructor; [exact Hc | constructor].
  - inversion Hnn as [|? ? Ha Hrest]; subst.
    destruct (Hb i) as [Hlo Hhi]; [lia | cbn [length]; lia |].
    set (tli := nth (l + i) t 0) in *. set (tlj := nth (l + i - j) t 0) in *.
    assert (Hf : 0 <= (if qeqb tli tlj then 0 else a / (tli - tlj))).
    { destruct (qeqb tli tlj) eqn:E; [apply Qcle_0_0|].
      apply qeqb_false in E. apply Qcdiv_nonneg; [exact Ha|].
      apply (proj1 (Qclt_0_sub _ _)).
      assert (Hle : tlj <= tli) by (eapply Qcle_trans; eassumption).
      destruct (Qcle_lt_or_eq tlj tli Hle) as [Hlt|Heq]; [exact Hlt | congruence]. }
    constructor.
    + apply Qcplus_nonneg; [exact Hc|]. apply Qcmult_nonneg; [exact Hf|].
      apply (proj1 (Qcle_0_sub _ _)). exact Hhi.
    + apply IH.
      * exact Hrest.
      * apply Qcmult_nonneg; [exact Hf|]. apply (proj1 (Qcle_0_sub _ _)). exact Hlo.
      * intros i' H1 H2. apply Hb; cbn [length]; lia.
Qed.

(* 4b. for t[l] <= x <= t[l+1] all k+1 values are >= 0 (also when knots coincide) *)
Theorem bs_nonneg t x l k :
  knots_sorted t -> (k <= l)%nat -> (l + k < length t)%nat ->
  nth l t 0 <= x -> x <= nth (S l) t 0 ->
  all_nonneg (fpbspl t x l k).
Proof.
  intros Hs. induction k as [|k IH]; intros Hkl Hlen Hlo Hhi; cbn [fpbspl].
  - constructor; [|constructor]. unfold Qcle; cbn. discriminate.
  - apply bspl_stage_nonneg.
    + apply IH; try lia; assumption.
    + apply Qcle_0_0.
    + intros i' H1 H2. rewrite fpbspl_length in H2. split.
      * eapply Qcle_trans; [|exact Hlo]. apply Hs; lia.
      * eapply Qcle_trans; [exact Hhi|]. apply Hs; lia.
Qed.

(* ------------------------------------------------------------------ *)
(* interval search *)
Lemma find_interval_range t x lmax fuel : forall l0,
  (l0 <= lmax)%nat ->
  (l0 <= find_interval t x lmax fuel l0 /\ find_interval t x lmax fuel l0 <= lmax)%nat.
Proof.
  induction fuel as [|f IH]; intros l0 Hl; cbn [find_interval].
  - lia.
  - destruct (l0 <? lmax)%nat eqn:E; cbn [andb]; [|lia].
    apply Nat.ltb_lt in E.
    destruct (qleb (nth (S l0) t 0) x); [|lia].
    specialize (IH (S l0) E). lia.
Qed.

Lemma find_interval_lo t x lmax fuel : forall l0,
  find_interval t x lmax fuel l0 = l0 \/ nth (find_interval t x lmax fuel l0) t 0 <= x.
Proof.
  induction fuel as [|f IH]; intros l0; cbn [find_interval].
  - left; reflexivity.
  - destruct ((l0 <? lmax)%nat && qleb (nth (S l0) t 0) x) eqn:E; [|left; reflexivity].
    apply andb_true_iff in E. destruct E as [_ E]. apply qleb_true in E.
    right. destruct (IH (S l0)) as [H|H]; [rewrite H; exact E | exact H].
Qed.

Lemma find_interval_hi t x lmax fuel : forall l0,
  (l0 <= lmax)%nat -> (lmax - l0 <= fuel)%nat ->
  find_interval t x lmax fuel l0 = lmax \/ x < nth (S (find_interval t x lmax fuel l0)) t 0.
Proof.
  induction fuel as [|f IH]; intros l0 Hl Hf; cbn [find_interval].
  - left; lia.
  - destruct (l0 <? lmax)%nat eqn:E; cbn [andb].
    + apply Nat.ltb_lt in E.
      destruct (qleb (nth (S l0) t 0) x) eqn:E2.
      * apply IH; lia.
      * right. apply qleb_false. exact E2.
    + apply Nat.ltb_ge in E. left; lia.
Qed.

(* the interval used for x: always k <= l <= n-k-2; a genuine knot interval when x is inside
   the boundary knots *)
Lemma bs_interval_range t k x :
  (2 * k + 2 <= length t)%nat ->
  (k <= bs_interval t k x /\ bs_interval t k x <= length t - k - 2)%nat.
Proof. intros H. unfold bs_interval. apply find_interval_range. lia. Qed.

Lemma bs_interval_lo t k x :
  nth k t 0 <= x -> nth (bs_interval t k x) t 0 <= x.
Proof.
  intros H. unfold bs_interval.
  destruct (find_interval_lo t x (length t - k - 2) (length t - k - 2 - k) k) as [E|E].
  - rewrite E. exact H.
  - exact E.
Qed.

Lemma bs_interval_hi t k x :
  (2 * k + 2 <= length t)%nat ->
  x < nth (length t - k - 1) t 0 -> x < nth (S (bs_interval t k x)) t 0.
Proof.
  intros Hn H. unfold bs_interval.
  destruct (find_interval_hi t x (length t - k - 2) (length t - k - 2 - k) k) as [E|E];
    try lia.
  - rewrite E. replace (S (length t - k - 2)) with (length t - k - 1)%nat by lia. exact H.
  - exact E.
Qed.

Lemma bs_interval_hi_le t k x :
  (2 * k + 2 <= length t)%nat ->
  x <= nth (length t - k - 1) t 0 -> x <= nth (S (bs_interval t k x)) t 0.
Proof.
  intros Hn H. unfold bs_interval.
  destruct (find_interval_hi t x (length t - k - 2) (length t - k - 2 - k) k) as [E|E];
    try lia.
  - rewrite E. replace (S (length t - k - 2)) with (length t - k - 1)%nat by lia. exact H.
  - apply Qclt_le_weak. exact E.
Qed.

(* ------------------------------------------------------------------ *)
(* a row = the k+1 values placed in a window of zeros *)
Lemma map_nth_window (h : list Qc) : forall a,
  map (fun i => nth (i - a) h 0) (seq a (length h)) = h.
Proof.
  induction h as [|v h IH]; intros a; cbn [length seq map].
  - reflexivity.
  - rewrite Nat.sub_diag. cbn [nth]. f_equal.
    rewrite <- (IH (S a)) at 2. apply map_ext_in. intros i Hi. apply in_seq in Hi.
    replace (i - a)%nat with (S (i - S a)) by lia. reflexivity.
Qed.

Lemma window_split (g : nat -> Qc) (h : list Qc) a nb :
  (a + length h <= nb)%nat ->
  (forall i, (i < a)%nat -> g i = 0) ->
  (forall i, (a + length h <= i)%nat -> g i = 0) ->
  (forall i, (a <= i)%nat -> (i < a + length h)%nat -> g i = nth (i - a) h 0) ->
  map g (seq 0 nb) = repeat 0 a ++ h ++ repeat 0 (nb - a - length h).
Proof.
  intros Hle H1 H2 H3.
  replace nb with (a + (length h + (nb - a - length h)))%nat at 1 by lia.
  rewrite !seq_app, !map_app. cbn [plus]. f_equal; [|f_equal].
  - clear -H1. rewrite <- (seq_length a 0) at 2.
    assert (H : forall i, In i (seq 0 a) -> g i = 0) by (intros i Hi; apply in_seq in Hi; apply H1; lia).
    revert H. generalize (seq 0 a) as s. induction s as [|i s IH]; intros H; cbn; [reflexivity|].
    rewrite H by (left; reflexivity). f_equal. apply IH. intros j Hj. apply H. right; exact Hj.
  - rewrite <- (map_nth_window h a) at 2. apply map_ext_in. intros i Hi. apply in_seq in Hi.
    apply H3; lia.
  - set (m := (nb - a - length h)%nat). rewrite <- (seq_length m (a + length h)) at 2.
    assert (H : forall i, In i (seq (a + length h) m) -> g i = 0)
      by (intros i Hi; apply in_seq in Hi; apply H2; lia).
    revert H. generalize (seq (a + length h) m) as s.
    induction s as [|i s IH]; intros H; cbn; [reflexivity|].
    rewrite H by (left; reflexivity). f_equal. apply IH. intros j Hj. apply H. right; exact Hj.
Qed.

Lemma qsum_repeat0 n : qsum (repeat 0 n) = 0.
Proof. induction n as [|n IH]; cbn [repeat]; [reflexivity|]. rewrite qsum_cons, IH. ring. Qed.

Lemma bs_row_shape t k x :
  (2 * k + 2 <= length t)%nat ->
  let l := bs_interval t k x in
  bs_row t k x = repeat 0 (l - k) ++ fpbspl t x l k ++ repeat 0 (length t - (k + 1) - (l - k) - S k).
Proof.
  intros Hn l. unfold bs_row. fold l.
  pose proof (bs_interval_range t k x Hn) as [Hl1 Hl2]. fold l in Hl1, Hl2.
  rewrite <- (fpbspl_length t x l k) at 1.
  apply window_split; rewrite ?fpbspl_length.
  - lia.
  - intros i Hi. replace (l - k <=? i)%nat with false by (symmetry; apply Nat.leb_gt; lia).
    reflexivity.
  - intros i Hi. replace (i <=? l)%nat with false by (symmetry; apply Nat.leb_gt; lia).
    rewrite andb_false_r. reflexivity.
  - intros i H1 H2.
    replace (l - k <=? i)%nat with true by (symmetry; apply Nat.leb_le; lia).
    replace (i <=? l)%nat with true by (symmetry; apply Nat.leb_le; lia).
    reflexivity.
Qed.

Lemma bs_row_length t k x : length (bs_row t k x) = (length t - (k + 1))%nat.
Proof. unfold bs_row. rewrite map_length, seq_length. reflexivity. Qed.

(* every row of the full basis (intercept=True) sums to 1 whenever the knot interval chosen by
   FITPACK is non-degenerate -- including extrapolation outside the boundary knots *)
Theorem bs_row_sum1_gen t k x :
  knots_sorted t -> (2 * k + 2 <= length t)%nat ->
  nth (bs_interval t k x) t 0 < nth (S (bs_interval t k x)) t 0 ->
  qsum (bs_row t k x) = 1.
Proof.
  intros Hs Hn Hlt. pose proof (bs_interval_range t k x Hn) as [Hl1 Hl2].
  rewrite bs_row_shape by exact Hn. cbn zeta.
  rewrite !qsum_app, !qsum_repeat0, bs_partition_unity; try assumption; try lia. ring.
Qed.

(* ... in particular for every x in [t[k], t[n-k-1]) = [lower_bound, upper_bound) *)
Theorem bs_row_sum1 t k x :
  knots_sorted t -> (2 * k + 2 <= length t)%nat ->
  nth k t 0 <= x -> x < nth (length t - k - 1) t 0 ->
  qsum (bs_row t k x) = 1.
Proof.
  intros Hs Hn Hlo Hhi. apply bs_row_sum1_gen; try assumption.
  eapply Qcle_lt_trans; [apply bs_interval_lo; exact Hlo | apply bs_interval_hi; assumption].
Qed.

Lemma all_nonneg_repeat0 n : all_nonneg (repeat 0 n).
Proof. induction n; cbn [repeat]; constructor; [apply Qcle_0_0 | assumption]. Qed.

(* all basis values are >= 0 for x in [lower_bound, upper_bound] (closed) *)
Theorem bs_row_nonneg t k x :
  knots_sorted t -> (2 * k + 2 <= length t)%nat ->
  nth k t 0 <= x -> x <= nth (length t - k - 1) t 0 ->
  all_nonneg (bs_row t k x).
Proof.
  intros Hs Hn Hlo Hhi. pose proof (bs_interval_range t k x Hn) as [Hl1 Hl2].
  rewrite bs_row_shape by exact Hn. cbn zeta.
  apply Forall_app; split; [apply all_nonneg_repeat0|].
  apply Forall_app; split; [|apply all_nonneg_repeat0].
  apply bs_nonneg; try assumption; try lia.
  - apply bs_interval_lo; exact Hlo.
  - apply bs_interval_hi_le; assumption.
Qed.

(* ------------------------------------------------------------------ *)
(* sorting *)
Lemma qinsert_perm a l : Permutation (a :: l) (qinsert a l).
Proof.
  induction l as [|b r IH]; cbn [qinsert].
  - apply Permutation_refl.
  - destruct (qleb a b); [apply Permutation_refl|].
    eapply perm_trans; [apply perm_swap|]. apply perm_skip. exact IH.
Qed.

Lemma qsort_perm l : Permutation l (qsort l).
Proof.
  induction l as [|a l IH]; cbn [qsort fold_right].
  - apply perm_nil.
  - eapply perm_trans; [apply perm_skip; exact IH|]. apply qinsert_perm.
Qed.

Lemma qsort_length l : length (qsort l) = length l.
Proof. symmetry. apply Permutation_length, qsort_perm. Qed.

Lemma qinsert_sorted a l : StronglySorted Qcle l -> StronglySorted Qcle (qinsert a l).
Proof.
  induction 1 as [|b r Hr IH Hb]; cbn [qinsert].
  - constructor; constructor.
  - destruct (qleb a b) eqn:E.
    + apply qleb_true in E. constructor; [constructor; assumption|].
      constructor; [exact E|]. eapply Forall_impl; [|exact Hb].
      intros c Hc. eapply Qcle_trans; eassumption.
    + apply qleb_false in E. constructor; [exact IH|].
      eapply Permutation_Forall; [apply qinsert_perm|].
      constructor; [apply Qclt_le_weak; exact E | exact Hb].
Qed.

Lemma qsort_sorted l : StronglySorted Qcle (qsort l).
Proof.
  induction l as [|a l IH]; cbn [qsort fold_right].
  - constructor.
  - apply qinsert_sorted. exact IH.
Qed.

Lemma sorted_nth t : StronglySorted Qcle t -> knots_sorted t.
Proof.
  induction 1 as [|b r Hr IH Hb]; intros i j Hij Hj.
  - cbn in Hj. lia.
  - destruct j as [|j].
    + replace i with 0%nat by lia. apply Qcle_refl.
    + cbn [length] in Hj. destruct i as [|i]; cbn [nth].
      * rewrite Forall_forall in Hb. apply Hb. apply nth_In. lia.
      * apply IH; lia.
Qed.

Lemma sorted_perm_eq l1 : forall l2,
  StronglySorted Qcle l1 -> StronglySorted Qcle l2 -> Permutation l1 l2 -> l1 = l2.
Proof.
  induction l1 as [|a r1 IH]; intros l2 H1 H2 HP.
  - apply Permutation_nil in HP. subst. reflexivity.
  - destruct l2 as [|b r2].
    + apply Permutation_sym, Permutation_nil in HP. discriminate.
    + inversion H1 as [|? ? Hs1 Hf1]; subst. inversion H2 as [|? ? Hs2 Hf2]; subst.
      assert (Hab : a = b).
      { apply Qcle_antisym.
        - assert (Hin : In b (a :: r1)) by (eapply Permutation_in; [apply Permutation_sym; exact HP | left; reflexivity]).
          destruct Hin as [->|Hin]; [apply Qcle_refl|].
          rewrite Forall_forall in Hf1. apply Hf1. exact Hin.
        - assert (Hin : In a (b :: r2)) by (eapply Permutation_in; [exact HP | left; reflexivity]).
          destruct Hin as [->|Hin]; [apply Qcle_refl|].
          rewrite Forall_forall in Hf2. apply Hf2. exact Hin. }
      subst b. f_equal. apply IH; try assumption.
      eapply Permutation_cons_inv. exact HP.
Qed.

Lemma ssorted_app l1 l2 :
  StronglySorted Qcle l1 -> StronglySorted Qcle l2 ->
  (forall a b, In a l1 -> In b l2 -> a <= b) ->
  StronglySorted Qcle (l1 ++ l2).
Proof.
  intros H1 H2 H. induction H1 as [|a r Hr IH Ha]; cbn [app].
  - exact H2.
  - constructor.
    + apply IH. intros c d Hc Hd. apply H; [right; exact Hc | exact Hd].
    + apply Forall_app. split; [exact Ha|].
      apply Forall_forall. intros d Hd. apply H; [left; reflexivity | exact Hd].
Qed.

Lemma ssorted_repeat a n : StronglySorted Qcle (repeat a n).
Proof.
  induction n as [|n IH]; cbn [repeat]; constructor; [exact IH|].
  apply Forall_forall. intros b Hb. apply repeat_spec in Hb. subst. apply Qcle_refl.
Qed.

Lemma concat_repeat_pair_perm (lo hi : Qc) n :
  Permutation (concat (repeat [lo; hi] n)) (repeat lo n ++ repeat hi n).
Proof.
  induction n as [|n IH]; cbn [repeat List.concat app].
  - apply perm_nil.
  - apply perm_skip. apply Permutation_cons_app. exact IH.
Qed.

(* the knot vector: degree+1 copies of each boundary knot around the sorted inner knots *)
Lemma all_knots_eq lo hi n inner :
  lo <= hi -> Forall (fun v => lo <= v /\ v <= hi) inner ->
  all_knots lo hi n inner = repeat lo n ++ qsort inner ++ repeat hi n.
Proof.
  intros Hlh Hin. unfold all_knots.
  assert (Hin' : forall v, In v (qsort inner) -> lo <= v /\ v <= hi).
  { intros v Hv. rewrite Forall_forall in Hin. apply Hin.
    eapply Permutation_in; [apply Permutation_sym, qsort_perm | exact Hv]. }
  apply sorted_perm_eq.
  - apply qsort_sorted.
  - apply ssorted_app; [apply ssorted_repeat | |].
    + apply ssorted_app; [apply qsort_sorted | apply ssorted_repeat |].
      intros a b Ha Hb. apply repeat_spec in Hb. subst b. apply Hin'. exact Ha.
    + intros a b Ha Hb. apply repeat_spec in Ha. subst a.
      apply in_app_or in Hb. destruct Hb as [Hb|Hb].
      * apply Hin'. exact Hb.
      * apply repeat_spec in Hb. subst b. exact Hlh.
  - eapply perm_trans; [apply Permutation_sym, qsort_perm|].
    eapply perm_trans; [apply Permutation_app_tail, concat_repeat_pair_perm|].
    rewrite <- app_assoc. apply Permutation_app_head.
    eapply perm_trans; [apply Permutation_app_comm|].
    apply Permutation_app_tail. apply qsort_perm.
Qed.

Lemma all_knots_length lo hi n inner :
  length (all_knots lo hi n inner) = (2 * n + length inner)%nat.
Proof.
  unfold all_knots. rewrite qsort_length, app_length. f_equal.
  induction n as [|n IH]; cbn [repeat List.concat app length]; [reflexivity|].
  rewrite IH. lia.
Qed.

Lemma all_knots_sorted lo hi n inner : knots_sorted (all_knots lo hi n inner).
Proof. apply sorted_nth, qsort_sorted. Qed.

(* ------------------------------------------------------------------ *)
(* BSpline._initialize: acceptance, rejection *)
Definition bs_lo (x : list Qc) (lower : option Qc) : res Qc :=
  match lower with Some l => Ok l | None => qmin_list x end.
Definition bs_hi (x : list Qc) (upper : option Qc) : res Qc :=
  match upper with Some u => Ok u | None => qmax_list x end.
Definition n_inner_of (d degree : Z) (intercept : bool) : Z :=
  (d - (degree + 1) + (if intercept then 0 else 1))%Z.

Definition in_bounds (lo hi : Qc) (inner : list Qc) : Prop :=
  Forall (fun v => lo <= v /\ v <= hi) inner.

Lemma existsb_below_false lo inner :
  existsb (fun t => qltb t lo) inner = false <-> Forall (fun v => lo <= v) inner.
Proof.
  induction inner as [|a r IH]; cbn [existsb].
  - split; [constructor | reflexivity].
  - rewrite orb_false_iff, IH, qltb_false. split.
    + intros [H1 H2]. constructor; assumption.
    + intros H. inversion H; subst. split; assumption.
Qed.

Lemma existsb_above_false hi inner :
  existsb (fun t => qltb hi t) inner = false <-> Forall (fun v => v <= hi) inner.
Proof.
  induction inner as [|a r IH]; cbn [existsb].
  - split; [constructor | reflexivity].
  - rewrite orb_false_iff, IH, qltb_false. split.
    + intros [H1 H2]. constructor; assumption.
    + intros H. inversion H; subst. split; assumption.
Qed.

(* exact characterisation of acceptance *)
Theorem bs_init_ok_iff x df knots degree intercept lower upper p :
  bs_init x df knots degree intercept lower upper = Ok p <->
  exists inner lo hi,
    (0 <= degree)%Z /\
    bs_inner x df knots degree intercept = Ok inner /\
    bs_lo x lower = Ok lo /\ bs_hi x upper = Ok hi /\
    lo <= hi /\ in_bounds lo hi inner /\
    p = {| bs_knots := all_knots lo hi (S (Z.to_nat degree)) inner;
           bs_degree := Z.to_nat degree; bs_intercept := intercept |}.
Proof.
  unfold bs_init. fold (bs_lo x lower). fold (bs_hi x upper). split.
  - destruct (degree <? 0)%Z eqn:Ed; [discriminate|]. apply Z.ltb_ge in Ed.
    destruct (bs_inner x df knots degree intercept) as [inner|e]; cbn [bind]; [|discriminate].
    destruct (bs_lo x lower) as [lo|e]; cbn [bind]; [|discriminate].
    destruct (bs_hi x upper) as [hi|e]; cbn [bind]; [|discriminate].
    destruct (qltb hi lo) eqn:E1; [discriminate|]. apply qltb_false in E1.
    destruct (existsb (fun t => qltb t lo) inner) eqn:E2; [discriminate|].
    destruct (existsb (fun t => qltb hi t) inner) eqn:E3; [discriminate|].
    apply existsb_below_false in E2. apply existsb_above_false in E3.
    intros H. injection H as <-. exists inner, lo, hi. repeat split; try assumption; try reflexivity.
    unfold in_bounds. rewrite Forall_forall in *. intros v Hv. split; [apply E2 | apply E3]; exact Hv.
  - intros (inner & lo & hi & Hd & Hi & Hlo & Hhi & Hle & Hb & ->).
    apply Z.ltb_ge in Hd. rewrite Hd, Hi, Hlo, Hhi. cbn [bind].
    apply qltb_false in Hle. rewrite Hle.
    assert (E2 : existsb (fun t => qltb t lo) inner = false).
    { apply existsb_below_false. eapply Forall_impl; [|exact Hb]. intros v [H _]; exact H. }
    assert (E3 : existsb (fun t => qltb hi t) inner = false).
    { apply existsb_above_false. eapply Forall_impl; [|exact Hb]. intros v [_ H]; exact H. }
    rewrite E2, E3. reflexivity.
Qed.

(* 3b. the error cases (each is the corresponding `raise ValueError` of _initialize) *)
Theorem bs_rejects x df knots degree intercept lower upper :
  (* degree < 0 *)
  ((degree < 0)%Z -> bs_init x df knots degree intercept lower upper = Err EValue) /\
  (* df and knots both None *)
  (df = None -> knots = None -> bs_init x df knots degree intercept lower upper = Err EValue) /\
  (* df too small for degree / intercept *)
  (forall d, df = Some d -> (n_inner_of d degree intercept < 0)%Z ->
     bs_init x df knots degree intercept lower upper = Err EValue) /\
  (* df and knots given, wrong number of knots *)
  (forall d ks, df = Some d -> knots = Some ks -> Z.of_nat (length ks) <> n_inner_of d degree intercept ->
     bs_init x df knots degree intercept lower upper = Err EValue) /\
  (* a bound is None and the data are empty: np.min / np.max raise ValueError *)
  (forall inner, bs_inner x df knots degree intercept = Ok inner -> x = [] ->
     lower = None \/ upper = None ->
     bs_init x df knots degree intercept lower upper = Err EValue) /\
  (* lower_bound > upper_bound *)
  (forall inner lo hi, bs_inner x df knots degree intercept = Ok inner ->
     bs_lo x lower = Ok lo -> bs_hi x upper = Ok hi -> hi < lo ->
     bs_init x df knots degree intercept lower upper = Err EValue) /\
  (* some knot outside the bounds *)
  (forall inner lo hi v, bs_inner x df knots degree intercept = Ok inner ->
     bs_lo x lower = Ok lo -> bs_hi x upper = Ok hi -> In v inner -> v < lo \/ hi < v ->
     bs_init x df knots degree intercept lower upper = Err EValue).
Proof.
  unfold bs_init. fold (bs_lo x lower). fold (bs_hi x upper).
  repeat apply conj.
  - intros Hd. apply Z.ltb_lt in Hd. rewrite Hd. reflexivity.
  - intros -> ->. destruct (degree <? 0)%Z; reflexivity.
  - intros d -> Hn. destruct (degree <? 0)%Z; [reflexivity|].
    unfold bs_inner. fold (n_inner_of d degree intercept).
    apply Z.ltb_lt in Hn. rewrite Hn. reflexivity.
  - intros d ks -> -> Hn. destruct (degree <? 0)%Z; [reflexivity|].
    unfold bs_inner. fold (n_inner_of d degree intercept).
    destruct (n_inner_of d degree intercept <? 0)%Z; [reflexivity|].
    apply Z.eqb_neq in Hn. rewrite Hn. reflexivity.
  - intros inner Hi -> Hb. destruct (degree <? 0)%Z; [reflexivity|].
    rewrite Hi. cbn [bind]. destruct Hb as [-> | ->].
    + reflexivity.
    + destruct lower; reflexivity.
  - intros inner lo hi Hi Hlo Hhi Hlt. destruct (degree <? 0)%Z; [reflexivity|].
    rewrite Hi, Hlo, Hhi. cbn [bind]. apply qltb_true in Hlt. rewrite Hlt. reflexivity.
  - intros inner lo hi v Hi Hlo Hhi Hv Hout. destruct (degree <? 0)%Z; [reflexivity|].
    rewrite Hi, Hlo, Hhi. cbn [bind]. destruct (qltb hi lo); [reflexivity|].
    destruct (existsb (fun t => qltb t lo) inner) eqn:E2; [reflexivity|].
    destruct (existsb (fun t => qltb hi t) inner) eqn:E3; [reflexivity|].
    exfalso. apply existsb_below_false in E2. apply existsb_above_false in E3.
    rewrite Forall_forall in E2, E3. destruct Hout as [H|H].
    + apply (Qclt_not_le _ _ H). apply E2. exact Hv.
    + apply (Qclt_not_le _ _ H). apply E3. exact Hv.
Qed.

(* the only other error is the IndexError of np.percentile on empty data *)
Theorem bs_init_err_kinds x df knots degree intercept lower upper e :
  bs_init x df knots degree intercept lower upper = Err e ->
  e = EValue \/ (e = EIndex /\ x = [] /\ knots = None /\ df <> None).
Proof.
  unfold bs_init. destruct (degree <? 0)%Z; [intros H; injection H as <-; left; reflexivity|].
  destruct (bs_inner x df knots degree intercept) as [inner|e'] eqn:Ei; cbn [bind].
  - destruct lower as [lo|]; [|destruct x as [|x0 x']]; cbn [qmin_list bind];
      try (intros H; injection H as <-; left; reflexivity).
    all: destruct upper as [hi|]; [|try destruct x as [|x0 x']]; cbn [qmax_list bind];
      try (intros H; injection H as <-; left; reflexivity).
    all: repeat match goal with |- context [if ?c then _ else _] => destruct c end;
      intros H; try discriminate H; injection H as <-; left; reflexivity.
  - intros H; injection H as <-. unfold bs_inner in Ei.
    destruct df as [d|]; [|destruct knots; [discriminate|injection Ei as <-; left; reflexivity]].
    destruct (_ <? 0)%Z; [injection Ei as <-; left; reflexivity|].
    destruct knots as [ks|].
    + destruct (_ =? _)%Z; [discriminate|injection Ei as <-; left; reflexivity].
    + unfold quantile_knots in Ei. destruct x; [|discriminate].
      injection Ei as <-. right. repeat split. discriminate.
Qed.

(* number of inner knots *)
Lemma quantile_knots_length x m ks : quantile_knots x m = Ok ks -> length ks = m.
Proof.
  unfold quantile_knots. destruct x; [discriminate|]. intros H; injection H as <-.
  rewrite map_length, seq_length. reflexivity.
Qed.

Lemma bs_inner_length x df knots degree intercept inner :
  bs_inner x df knots degree intercept = Ok inner ->
  match df, knots with
  | Some d, _ => Z.of_nat (length inner) = n_inner_of d degree intercept
  | None, Some ks => inner = ks
  | None, None => False
  end.
Proof.
  unfold bs_inner. destruct df as [d|].
  - fold (n_inner_of d degree intercept).
    destruct (n_inner_of d degree intercept <? 0)%Z eqn:E; [discriminate|]. apply Z.ltb_ge in E.
    destruct knots as [ks|].
    + destruct (_ =? _)%Z eqn:E2; [|discriminate]. intros H; injection H as <-.
      apply Z.eqb_eq. exact E2.
    + intros H. apply quantile_knots_length in H. rewrite H. lia.
  - destruct knots; [|discriminate]. intros H; injection H as <-. reflexivity.
Qed.

(* rows actually returned by eval *)
Definition bs_out_row (p : bs_params) (x : Qc) : list Qc :=
  let r := bs_row (bs_knots p) (bs_degree p) x in if bs_intercept p then r else tl r.

Lemma bs_apply_ok p xs : xs <> [] -> bs_apply p xs = Ok (map (bs_out_row p) xs).
Proof. destruct xs; [congruence|]. reflexivity. Qed.

Lemma bs_apply_empty p : bs_apply p [] = Err EValue.
Proof. reflexivity. Qed.

(* 3a. number of columns *)
Theorem bs_ncols x df knots degree intercept lower upper p :
  bs_init x df knots degree intercept lower upper = Ok p ->
  forall y,
  Z.of_nat (length (bs_out_row p y)) =
  match df, knots with
  | Some d, _ => d
  | None, Some ks => (Z.of_nat (length ks) + degree + (if intercept then 1 else 0))%Z
  | None, None => 0%Z
  end.
Proof.
  intros H y. apply bs_init_ok_iff in H.
  destruct H as (inner & lo & hi & Hd & Hi & _ & _ & _ & _ & ->).
  apply bs_inner_length in Hi.
  assert (Hlen : forall r : list Qc, length (tl r) = (length r - 1)%nat) by (intros [|? ?]; cbn; lia).
  unfold bs_out_row; cbn [bs_knots bs_degree bs_intercept].
  destruct df as [d|]; [|destruct knots as [ks|]; [subst inner|contradiction]];
    unfold n_inner_of in *; destruct intercept;
    rewrite ?Hlen, bs_row_length, all_knots_length; lia.
Qed.

Corollary bs_apply_shape x df knots degree intercept lower upper p ys m :
  bs_init x df knots degree intercept lower upper = Ok p ->
  bs_apply p ys = Ok m ->
  length m = length ys /\
  Forall (fun row => Z.of_nat (length row) =
            match df, knots with
            | Some d, _ => d
            | None, Some ks => (Z.of_nat (length ks) + degree + (if intercept then 1 else 0))%Z
            | None, None => 0%Z
            end) m.
Proof.
  intros Hp Hm. destruct ys as [|y ys]; [discriminate|].
  rewrite bs_apply_ok in Hm by discriminate.
  assert (Hm' : m = map (bs_out_row p) (y :: ys)) by congruence. clear Hm. subst m.
  split; [apply map_length|]. apply Forall_forall. intros row Hrow.
  apply in_map_iff in Hrow. destruct Hrow as (y' & <- & _).
  eapply bs_ncols. exact Hp.
Qed.

(* ------------------------------------------------------------------ *)
(* the accepted knot vector and the boundary knots *)
Lemma nth_repeat_lt (a d : Qc) m n : (n < m)%nat -> nth n (repeat a m) d = a.
Proof.
  intros H. rewrite (nth_indep _ d a) by (rewrite repeat_length; exact H). apply nth_repeat.
Qed.

Lemma bs_init_knots x df knots degree intercept lower upper p :
  bs_init x df knots degree intercept lower upper = Ok p ->
  exists inner lo hi,
    bs_lo x lower = Ok lo /\ bs_hi x upper = Ok hi /\ lo <= hi /\ in_bounds lo hi inner /\
    bs_knots p = repeat lo (S (bs_degree p)) ++ qsort inner ++ repeat hi (S (bs_degree p)) /\
    knots_sorted (bs_knots p) /\
    (2 * bs_degree p + 2 <= length (bs_knots p))%nat /\
    nth (bs_degree p) (bs_knots p) 0 = lo /\
    nth (length (bs_knots p) - bs_degree p - 1) (bs_knots p) 0 = hi /\
    bs_intercept p = intercept.
Proof.
  intros H. apply bs_init_ok_iff in H.
  destruct H as (inner & lo & hi & Hd & Hi & Hlo & Hhi & Hle & Hb & ->).
  exists inner, lo, hi. cbn [bs_knots bs_degree bs_intercept].
  set (k := Z.to_nat degree).
  assert (Heq := all_knots_eq lo hi (S k) inner Hle Hb).
  repeat split; try assumption.
  - apply all_knots_sorted.
  - rewrite all_knots_length. lia.
  - rewrite Heq. rewrite app_nth1 by (rewrite repeat_length; lia).
    apply nth_repeat_lt. lia.
  - rewrite all_knots_length, Heq.
    rewrite app_nth2 by (rewrite repeat_length; lia).
    rewrite app_nth2 by (rewrite repeat_length, qsort_length; lia).
    apply nth_repeat_lt. rewrite repeat_length, qsort_length. lia.
Qed.

(* 4a'. intercept=True: every returned row sums to 1 for lower_bound <= y < upper_bound *)
Theorem bs_rows_sum1 x df knots degree lower upper p lo hi y :
  bs_init x df knots degree true lower upper = Ok p ->
  bs_lo x lower = Ok lo -> bs_hi x upper = Ok hi ->
  lo <= y -> y < hi ->
  qsum (bs_out_row p y) = 1.
Proof.
  intros Hp Hlo Hhi H1 H2. apply bs_init_knots in Hp.
  destruct Hp as (inner & lo' & hi' & Hlo' & Hhi' & _ & _ & _ & Hs & Hn & Hk & Hk' & Hint).
  rewrite Hlo in Hlo'. injection Hlo' as <-. rewrite Hhi in Hhi'. injection Hhi' as <-.
  unfold bs_out_row. rewrite Hint. apply bs_row_sum1; try assumption.
  - rewrite Hk. exact H1.
  - rewrite Hk'. exact H2.
Qed.

(* 4b'. every returned value is >= 0 for lower_bound <= y <= upper_bound *)
Theorem bs_rows_nonneg x df knots degree intercept lower upper p lo hi y :
  bs_init x df knots degree intercept lower upper = Ok p ->
  bs_lo x lower = Ok lo -> bs_hi x upper = Ok hi ->
  lo <= y -> y <= hi ->
  all_nonneg (bs_out_row p y).
Proof.
  intros Hp Hlo Hhi H1 H2. apply bs_init_knots in Hp.
  destruct Hp as (inner & lo' & hi' & Hlo' & Hhi' & _ & _ & _ & Hs & Hn & Hk & Hk' & Hint).
  rewrite Hlo in Hlo'. injection Hlo' as <-. rewrite Hhi in Hhi'. injection Hhi' as <-.
  assert (Hr : all_nonneg (bs_row (bs_knots p) (bs_degree p) y)).
  { apply bs_row_nonneg; try assumption.
    - rewrite Hk. exact H1.
    - rewrite Hk'. exact H2. }
  unfold bs_out_row. destruct (bs_intercept p); [exact Hr|].
  destruct (bs_row (bs_knots p) (bs_degree p) y); [exact Hr|].
  inversion Hr; assumption.
Qed.

(* 4a''. extrapolation: when lower_bound < upper_bound and all inner knots lie strictly inside,
   every row of the full basis sums to 1 for EVERY y (FITPACK extrapolates with the first /
   last polynomial piece, whose interval is non-degenerate) *)
Theorem bs_rows_sum1_all x df knots degree lower upper p lo hi inner y :
  bs_init x df knots degree true lower upper = Ok p ->
  bs_inner x df knots degree true = Ok inner ->
  bs_lo x lower = Ok lo -> bs_hi x upper = Ok hi ->
  lo < hi -> Forall (fun v => lo < v /\ v < hi) inner ->
  qsum (bs_out_row p y) = 1.
Proof.
  intros Hp Hi Hlo Hhi Hlt Hstrict.
  destruct (Qclt_le_dec y lo) as [Hy1|Hy1]; [|destruct (Qclt_le_dec y hi) as [Hy2|Hy2]].
  2: { eapply bs_rows_sum1; eassumption. }
  all: pose proof Hp as Hp0; apply bs_init_ok_iff in Hp;
    destruct Hp as (inner' & lo' & hi' & Hd & Hi' & Hlo' & Hhi' & Hle & Hb & ->);
    rewrite Hi in Hi'; injection Hi' as <-; rewrite Hlo in Hlo'; injection Hlo' as <-;
    rewrite Hhi in Hhi'; injection Hhi' as <-;
    unfold bs_out_row; cbn [bs_knots bs_degree bs_intercept];
    set (k := Z.to_nat degree); set (t := all_knots lo hi (S k) inner);
    assert (Heq : t = repeat lo (S k) ++ qsort inner ++ repeat hi (S k))
      by (apply all_knots_eq; assumption);
    assert (Hlen : length t = (2 * S k + length inner)%nat) by apply all_knots_length;
    assert (Hs : knots_sorted t) by apply all_knots_sorted;
    assert (Hstrict' : forall v, In v (qsort inner) -> lo < v /\ v < hi)
      by (intros v Hv; rewrite Forall_forall in Hstrict; apply Hstrict;
          eapply Permutation_in; [apply Permutation_sym, qsort_perm | exact Hv]);
    assert (Hk : nth k t 0 = lo)
      by (rewrite Heq, app_nth1 by (rewrite repeat_length; lia); apply nth_repeat_lt; lia);
    assert (Hk' : nth (length t - k - 1) t 0 = hi)
      by (rewrite Hlen, Heq, app_nth2 by (rewrite repeat_length; lia);
          rewrite app_nth2 by (rewrite repeat_length, qsort_length; lia);
          apply nth_repeat_lt; rewrite repeat_length, qsort_length; lia).
  - (* y < lower_bound: first interval *)
    assert (Hk1 : lo < nth (S k) t 0).
    { rewrite Heq, app_nth2 by (rewrite repeat_length; lia). rewrite repeat_length.
      replace (S k - S k)%nat with 0%nat by lia.
      assert (Hin : In (nth 0 (qsort inner ++ repeat hi (S k)) 0) (qsort inner ++ repeat hi (S k))).
      { apply nth_In. rewrite app_length, repeat_length. lia. }
      apply in_app_or in Hin. destruct Hin as [Hin|Hin].
      - apply Hstrict'. exact Hin.
      - apply repeat_spec in Hin. rewrite Hin. exact Hlt. }
    assert (Hl : bs_interval t k y = k).
    { unfold bs_interval. destruct (length t - k - 2 - k)%nat; cbn [find_interval]; [reflexivity|].
      replace (qleb (nth (S k) t 0) y) with false; [rewrite andb_false_r; reflexivity|].
      symmetry. apply qleb_false. eapply Qclt_trans; eassumption. }
    apply bs_row_sum1_gen; [exact Hs | lia |]. rewrite Hl, Hk. exact Hk1.
  - (* y >= upper_bound: last interval *)
    assert (Hn : (2 * k + 2 <= length t)%nat) by lia.
    assert (Hl : bs_interval t k y = (length t - k - 2)%nat).
    { unfold bs_interval.
      destruct (find_interval_hi t y (length t - k - 2) (length t - k - 2 - k) k) as [E|E].
      1,2: lia. 1: exact E.
      exfalso. pose proof (bs_interval_range t k y Hn) as [_ Hr]. unfold bs_interval in Hr.
      apply (Qclt_not_le _ _ E). eapply Qcle_trans; [|exact Hy2].
      rewrite <- Hk'. apply Hs; lia. }
    apply bs_row_sum1_gen; [exact Hs | exact Hn |]. rewrite Hl.
    replace (S (length t - k - 2)) with (length t - k - 1)%nat by lia. rewrite Hk'.
    rewrite Hlen, Heq, app_assoc.
    rewrite app_nth1 by (rewrite app_length, repeat_length, qsort_length; lia).
    assert (Hin : In (nth (2 * S k + length inner - k - 2) (repeat lo (S k) ++ qsort inner) 0)
                     (repeat lo (S k) ++ qsort inner)).
    { apply nth_In. rewrite app_length, repeat_length, qsort_length. lia. }
    apply in_app_or in Hin. destruct Hin as [Hin|Hin].
    + apply repeat_spec in Hin. rewrite Hin. exact Hlt.
    + apply Hstrict'. exact Hin.
Qed.

(* ------------------------------------------------------------------ *)
(* quantile knots: np.percentile with linear interpolation *)
Lemma percentile_lin_exact s num den :
  ((num * (length s - 1)) mod den = 0)%nat ->
  percentile_lin s num den = nth ((num * (length s - 1)) / den) s 0.
Proof. intros H. unfold percentile_lin. rewrite H. reflexivity. Qed.

Lemma percentile_lin_interp s num den :
  ((num * (length s - 1)) mod den <> 0)%nat ->
  let p := (num * (length s - 1))%nat in
  let a := nth (p / den) s 0 in
  let b := nth (S (p / den)) s 0 in
  let g := qofnat (p mod den) / qofnat den in
  percentile_lin s num den = a + g * (b - a).
Proof.
  intros H. cbn zeta. unfold percentile_lin.
  destruct (Nat.eqb_spec ((num * (length s - 1)) mod den) 0); [contradiction|reflexivity].
Qed.

(* ------------------------------------------------------------------ *)
(* non-vacuity: the theorems instantiated on concrete data, and the same facts by computation *)
Definition qq (n : Z) (d : positive) : Qc := Q2Qc (Qmake n d).

Lemma sorted_by_computation t : qlist_eqb (qsort t) t = true -> knots_sorted t.
Proof. intros H. apply qlist_eqb_true in H. rewrite <- H. apply sorted_nth, qsort_sorted. Qed.

(* quadratic, knots 0 0 0 1 3 4 4 4, interval l = 3 = [1,3): *)
Definition ex_t : list Qc := [qq 0 1; qq 0 1; qq 0 1; qq 1 1; qq 3 1; qq 4 1; qq 4 1; qq 4 1].

Example bs_partition_unity_ex :
  (* far outside the interval: x = 10 *)
  qsum (fpbspl ex_t (qq 10 1) 3 2) = 1 /\
  fpbspl ex_t (qq 10 1) 3 2 = [qq 49 6; qq (-62) 3; qq 27 2] /\
  (* inside: x = 5/2 *)
  fpbspl ex_t (qq 5 2) 3 2 = [qq 1 24; qq 7 12; qq 3 8] /\
  all_nonneg (fpbspl ex_t (qq 5 2) 3 2).
Proof.
  assert (Hs : knots_sorted ex_t) by (apply sorted_by_computation; vm_compute; reflexivity).
  split; [|split; [|split]].
  - apply bs_partition_unity; [exact Hs | lia | cbn; lia |].
    apply qltb_true. vm_compute. reflexivity.
  - qc_decide.
  - qc_decide.
  - apply bs_nonneg; [exact Hs | lia | cbn; lia | |]; apply qleb_true; vm_compute; reflexivity.
Qed.

(* bs(x, df=6, degree=3, intercept=True) on 7 points: 2 quantile knots *)
Definition ex_xs : list Qc := [qq 0 1; qq 1 4; qq 1 2; qq 3 4; qq 1 1; qq 3 2; qq 2 1].

Example bs_init_ex :
  exists p, bs_init ex_xs (Some 6%Z) None 3 true None None = Ok p /\
    bs_knots p = [qq 0 1; qq 0 1; qq 0 1; qq 0 1; qq 1 2; qq 1 1; qq 2 1; qq 2 1; qq 2 1; qq 2 1] /\
    bs_degree p = 3%nat /\ bs_intercept p = true /\
    (* 6 columns, rows sum to 1 inside [0,2) and are non-negative on [0,2] *)
    Z.of_nat (length (bs_out_row p (qq 5 4))) = 6%Z /\
    bs_out_row p (qq 5 4) = [qq 0 1; qq 0 1; qq 9 64; qq 33 64; qq 21 64; qq 1 64] /\
    qsum (bs_out_row p (qq 5 4)) = 1 /\
    all_nonneg (bs_out_row p (qq 2 1)) /\
    (* extrapolation: inner knots strictly inside, so rows sum to 1 also at y = 3 and y = -1 *)
    qsum (bs_out_row p (qq 3 1)) = 1 /\ qsum (bs_out_row p (qq (-1) 1)) = 1 /\
    bs_out_row p (qq 3 1) = [qq 0 1; qq 0 1; qq (-1) 3; qq 31 9; qq (-91) 9; qq 8 1].
Proof.
  destruct (bs_init ex_xs (Some 6%Z) None 3 true None None) as [p|e] eqn:Hp;
    [|vm_compute in Hp; discriminate].
  exists p. split; [reflexivity|].
  assert (Hlo : bs_lo ex_xs None = Ok (qq 0 1)) by (cbn [bs_lo]; vm_compute; reflexivity).
  assert (Hhi : bs_hi ex_xs None = Ok (qq 2 1)) by (cbn [bs_hi]; vm_compute; reflexivity).
  assert (Hin : bs_inner ex_xs (Some 6%Z) None 3 true = Ok [qq 1 2; qq 1 1])
    by (vm_compute; reflexivity).
  assert (Hcols := bs_ncols _ _ _ _ _ _ _ _ Hp (qq 5 4)). cbn beta iota in Hcols.
  assert (Hsum := bs_rows_sum1 _ _ _ _ _ _ _ _ _ (qq 5 4) Hp Hlo Hhi).
  assert (Hnn := bs_rows_nonneg _ _ _ _ _ _ _ _ _ _ (qq 2 1) Hp Hlo Hhi).
  assert (Hall := fun y => bs_rows_sum1_all _ _ _ _ _ _ _ _ _ _ y Hp Hin Hlo Hhi).
  assert (Hp' := Hp). vm_compute in Hp'. injection Hp' as Hp'. subst p.
  split; [qc_decide|]. split; [reflexivity|]. split; [reflexivity|].
  split; [exact Hcols|]. split; [qc_decide|].
  split; [apply Hsum; apply qleb_true || apply qltb_true; vm_compute; reflexivity|].
  split; [apply Hnn; apply qleb_true; vm_compute; reflexivity|].
  split; [|split].
  - apply Hall; [apply qltb_true; vm_compute; reflexivity|].
    repeat constructor; apply qltb_true; vm_compute; reflexivity.
  - apply Hall; [apply qltb_true; vm_compute; reflexivity|].
    repeat constructor; apply qltb_true; vm_compute; reflexivity.
  - qc_decide.
Qed.

(* knots given explicitly, no intercept: #knots + degree columns *)
Example bs_ncols_knots_ex :
  exists p, bs_init ex_xs None (Some [qq 1 2; qq 1 1; qq 3 2]) 2 false None None = Ok p /\
    Z.of_nat (length (bs_out_row p (qq 1 3))) = 5%Z /\
    bs_out_row p (qq 1 3) = [qq 2 3; qq 2 9; qq 0 1; qq 0 1; qq 0 1].
Proof.
  destruct (bs_init ex_xs None (Some [qq 1 2; qq 1 1; qq 3 2]) 2 false None None) as [p|e] eqn:Hp;
    [|vm_compute in Hp; discriminate].
  exists p. split; [reflexivity|].
  assert (Hcols := bs_ncols _ _ _ _ _ _ _ _ Hp (qq 1 3)). cbn in Hcols.
  split; [exact Hcols|].
  vm_compute in Hp. injection Hp as Hp. subst p. qc_decide.
Qed.

(* every error case of bs_rejects, on concrete arguments *)
Example bs_rejects_ex :
  bs_init ex_xs (Some 4%Z) None (-1) false None None = Err EValue /\
  bs_init ex_xs None None 3 false None None = Err EValue /\
  bs_init ex_xs (Some 2%Z) None 3 false None None = Err EValue /\
  bs_init ex_xs (Some 3%Z) None 3 true None None = Err EValue /\
  bs_init ex_xs (Some 5%Z) (Some [qq 1 2]) 3 false None None = Err EValue /\
  bs_init [] None (Some [qq 1 2]) 3 false None (Some (qq 1 1)) = Err EValue /\
  bs_init ex_xs None (Some [qq 1 2]) 3 false (Some (qq 1 1)) (Some (qq 0 1)) = Err EValue /\
  bs_init ex_xs None (Some [qq (-1) 2]) 3 false None None = Err EValue /\
  bs_init ex_xs None (Some [qq 5 2]) 3 false None None = Err EValue /\
  bs_init [] (Some 5%Z) None 3 false (Some (qq 0 1)) (Some (qq 1 1)) = Err EIndex /\
  (* accepted boundary cases: df exactly large enough; df = 0 with degree 0 *)
  is_ok (bs_init ex_xs (Some 3%Z) None 3 false None None) = true /\
  is_ok (bs_init ex_xs (Some 0%Z) None 0 false None None) = true.
Proof. repeat split; vm_compute; reflexivity. Qed.

(* The hypothesis y < upper_bound of bs_rows_sum1 cannot be dropped in general: with ties at the
   maximum the quantile knots coincide with the upper boundary knot, FITPACK evaluates y = max on
   a degenerate interval, every division is skipped and the row is identically 0.
   (formulae returns the same all-zero rows: bs(x, df=5, intercept=True) on this data.) *)
Example bs_degenerate_upper :
  let xs := [qq 0 1; qq 1 1; qq 1 1; qq 1 1; qq 1 1; qq 1 2; qq 1 4] in
  exists p, bs_init xs (Some 5%Z) None 3 true None None = Ok p /\
    bs_knots p = [qq 0 1; qq 0 1; qq 0 1; qq 0 1; qq 1 1; qq 1 1; qq 1 1; qq 1 1; qq 1 1] /\
    bs_out_row p (qq 1 1) = [qq 0 1; qq 0 1; qq 0 1; qq 0 1; qq 0 1] /\
    qsum (bs_out_row p (qq 1 1)) = 0.
Proof.
  cbn zeta.
  destruct (bs_init _ (Some 5%Z) None 3 true None None) as [p|e] eqn:Hp;
    [|vm_compute in Hp; discriminate].
  exists p. split; [reflexivity|]. vm_compute in Hp. injection Hp as Hp. subst p.
  repeat split; qc_decide.
Qed.

(* np.percentile([3,1,2,10], [25,50,75]) = [1.75, 2.5, 4.75] *)
Example quantile_knots_ex :
  exists ks, quantile_knots [qq 3 1; qq 1 1; qq 2 1; qq 10 1] 3 = Ok ks /\
             ks = [qq 7 4; qq 5 2; qq 19 4].
Proof. eexists. split; [reflexivity|]. qc_decide. Qed.

Print Assumptions bs_partition_unity.
Print Assumptions bs_nonneg.
Print Assumptions bs_row_sum1_gen.
Print Assumptions bs_row_sum1.
Print Assumptions bs_row_nonneg.
Print Assumptions bs_init_ok_iff.
Print Assumptions bs_rejects.
Print Assumptions bs_init_err_kinds.
Print Assumptions bs_ncols.
Print Assumptions bs_apply_shape.
Print Assumptions bs_rows_sum1.
Print Assumptions bs_rows_nonneg.
Print Assumptions bs_rows_sum1_all.
Print Assumptions bs_init_ex.
