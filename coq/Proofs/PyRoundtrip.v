(* C12 -- call arguments written as Python expressions are parsed into the tree Python builds.
   Main theorem [py_roundtrip]: for every hazard-free, well-formed Python operator tree (any
   depth, calls and keyword arguments included) the tokens of Python's minimal-parenthesis printing
   are a phrase of formulae's grammar whose abstract syntax tree resolves (CallResolver) to the
   tree itself.  By completeness of the parser the parser model returns exactly that tree. *)
From Verif Require Import Base Tokens Scanner Parser Lazy Algebra Grammar ParserSound ParserComplete PyExpr.
From Verif Require Driver.
From Coq Require Import Lia.
Local Open Scope list_scope.
Local Open Scope nat_scope.

(* ------------------------------------------------------------------------------------------ *)
(** * Induction on Python trees (nested lists) *)

Section PyInd.
  Variable P : py -> Prop.
  Hypothesis Hname : forall t, P (PyName t).
  Hypothesis Hnum : forall t, P (PyNum t).
  Hypothesis Hstr : forall t, P (PyStr t).
  Hypothesis Hconst : forall t, P (PyConst t).
  Hypothesis Hbin : forall op l r, P l -> P r -> P (PyBin op l r).
  Hypothesis Hun : forall op x, P x -> P (PyUn op x).
  Hypothesis Hcmp : forall op l r, P l -> P r -> P (PyCmp op l r).
  Hypothesis Hcall : forall f args kwargs,
    Forall P args -> Forall (fun kv => P (snd kv)) kwargs -> P (PyCall f args kwargs).

  Fixpoint py_ind' (e : py) : P e :=
    match e with
    | PyName t => Hname t
    | PyNum t => Hnum t
    | PyStr t => Hstr t
    | PyConst t => Hconst t
    | PyBin op l r => Hbin op l r (py_ind' l) (py_ind' r)
    | PyUn op x => Hun op x (py_ind' x)
    | PyCmp op l r => Hcmp op l r (py_ind' l) (py_ind' r)
    | PyCall f args kwargs =>
        Hcall f args kwargs
          ((fix go (l : list py) : Forall P l :=
              match l with [] => Forall_nil _ | x :: r => Forall_cons x (py_ind' x) (go r) end) args)
          ((fix go (l : list (token * py)) : Forall (fun kv => P (snd kv)) l :=
              match l with
              | [] => Forall_nil _
              | kv :: r => Forall_cons kv (py_ind' (snd kv)) (go r)
              end) kwargs)
    end.
End PyInd.

(* ------------------------------------------------------------------------------------------ *)
(** * The levels of formulae's grammar, indexed 0..7
      0 |   1 comparisons   2 + -   3 * /   4 :   5 **   6 unary sign   7 call / atom *)

Definition F (k : nat) (ts : list token) (a : expr) : Prop :=
  if k <=? 6 then DLev (skipn k precedence) ts a else DCall ts a.

Lemma F_step k ts a : F (S k) ts a -> F k ts a.
Proof.
  unfold F. do 7 (destruct k as [|k]; [cbn; intros H; try (apply DL_up; exact H)|]).
  - apply DL_base, DU_call. exact H.
  - cbn. auto.
Qed.

Lemma F_down j k ts a : j <= k -> F k ts a -> F j ts a.
Proof. induction 1 as [|k Hle IH]; auto. intros H. apply IH, F_step, H. Qed.

Lemma F_expr k ts a : F k ts a -> DExpr ts a.
Proof. intros H. apply DE_plain. apply (F_down 0 k); [lia|exact H]. Qed.

Lemma F_call ts a : DCall ts a -> F 7 ts a.
Proof. auto. Qed.

Lemma F_unary ts a : F 6 ts a <-> DUnary ts a.
Proof.
  unfold F. cbn. split; intros H.
  - inversion H; subst; assumption.
  - apply DL_base, H.
Qed.

Lemma F_bin k ks tl l op tr r :
  nth_error precedence k = Some ks ->
  F k tl l -> is_kind ks op = true -> tkind op <> EOF -> F (S k) tr r ->
  F k (tl ++ op :: tr) (EBinary l op r).
Proof.
  unfold F. intros Hk Hl Hop Heof Hr.
  do 6 (destruct k as [|k]; [cbn in Hk; injection Hk as <-; cbn in *; apply DL_bin; assumption|]).
  destruct k; discriminate.
Qed.

Lemma F_group k ts a : k <= 7 -> DExpr ts a -> F k (paren true ts) (EGrouping a).
Proof.
  intros Hk H. apply (F_down k 7); [assumption|]. apply F_call, DC_primary.
  unfold paren. apply DP_group; auto.
Qed.

(* the level of formulae's grammar at which a tree of Python class p is a phrase *)
Definition fidx (p : nat) : nat :=
  match p with 1 => 1 | 2 => 2 | 3 => 3 | 4 => 6 | 5 => 5 | 6 => 7 | _ => 0 end.

(* ------------------------------------------------------------------------------------------ *)
(** * CallResolver on the shapes the printer produces *)

Lemma lookup_binary_symbol k :
  is_arith k || is_cmp k = true -> lookup_kind k binary_symbols = Some (op_symbol k).
Proof. destruct k; intros H; try discriminate H; reflexivity. Qed.

Lemma lookup_unary_symbol k : is_sign k = true -> lookup_kind k unary_symbols = Some (op_symbol k).
Proof. destruct k; intros H; try discriminate H; reflexivity. Qed.

Lemma call_resolve_bin l op r ll lr :
  is_arith (tkind op) || is_cmp (tkind op) = true ->
  call_resolve l = Ok ll -> call_resolve r = Ok lr ->
  call_resolve (EBinary l op r) = Ok (LzOp (op_symbol (tkind op)) [ll; lr]).
Proof.
  intros Hk Hl Hr. cbn [call_resolve]. rewrite (lookup_binary_symbol _ Hk), Hl, Hr. reflexivity.
Qed.

Lemma call_resolve_un op r lr :
  is_sign (tkind op) = true -> call_resolve r = Ok lr ->
  call_resolve (EUnary op r) = Ok (LzOp (op_symbol (tkind op)) [lr]).
Proof.
  intros Hk Hr. cbn [call_resolve]. rewrite (lookup_unary_symbol _ Hk), Hr. reflexivity.
Qed.

(* the argument loop of CallResolver.visitCallExpr, as a function of its own *)
Fixpoint resolve_args (args : list expr) (pos : list lazy) (kw : list (string * lazy))
  : res (list lazy * list (string * lazy)) :=
  match args with
  | [] => Ok (pos, kw)
  | a :: r =>
      match a with
      | EAssign (EVariable n _) v =>
          do lv <- call_resolve v; resolve_args r pos (kw_set (lexeme n) lv kw)
      | EAssign _ _ => Err EAttr
      | _ => do la <- call_resolve a; resolve_args r (pos ++ [la]) kw
      end
  end.

Lemma call_resolve_call n lv args :
  call_resolve (ECall (EVariable n lv) args)
  = do pk <- resolve_args args [] []; Ok (LzCall (lexeme n) (fst pk) (snd pk)).
Proof. reflexivity. Qed.

Lemma resolve_args_pos a la r pos kw :
  call_resolve a = Ok la -> resolve_args (a :: r) pos kw = resolve_args r (pos ++ [la]) kw.
Proof.
  intros H. destruct a; try (cbn [resolve_args]; rewrite H; reflexivity).
  cbn in H. discriminate H.
Qed.

Lemma resolve_args_kw k lvl v lv r pos kw :
  call_resolve v = Ok lv ->
  resolve_args (EAssign (EVariable k lvl) v :: r) pos kw = resolve_args r pos (kw_set (lexeme k) lv kw).
Proof. intros H. cbn [resolve_args]. rewrite H. reflexivity. Qed.

Lemma kw_set_fresh k v l : ~ In k (map fst l) -> kw_set k v l = l ++ [(k, v)].
Proof.
  induction l as [|[k' v'] l IH]; intros H; [reflexivity|]. cbn [kw_set].
  destruct (String.eqb_spec k k') as [->|Hne].
  - exfalso. apply H. left; reflexivity.
  - cbn. rewrite IH; [reflexivity|]. intros Hin. apply H. right; exact Hin.
Qed.

(* ------------------------------------------------------------------------------------------ *)
(** * Classes of well-formed trees *)

Lemma arith_prec_cases k : is_arith k = true ->
  (arith_prec k = 2 /\ (k = PLUS \/ k = MINUS)) \/ (arith_prec k = 3 /\ (k = STAR \/ k = SLASH)) \/
  (arith_prec k = 5 /\ k = STAR_STAR).
Proof. destruct k; intros H; try discriminate H; cbn; tauto. Qed.

Lemma prec_cases e : wf e = true -> prec e = 1 \/ prec e = 2 \/ prec e = 3 \/ prec e = 4 \/ prec e = 5 \/ prec e = 6.
Proof.
  destruct e; cbn; try tauto. intros H.
  apply andb_true_iff in H as [H _]. apply andb_true_iff in H as [H _].
  destruct (arith_prec_cases _ H) as [[-> _]|[[-> _]|[-> _]]]; tauto.
Qed.

Lemma prec_pow e : wf e = true -> prec e = 5 -> is_pow e = true.
Proof.
  destruct e; cbn; try discriminate. intros H Hp.
  apply andb_true_iff in H as [H _]. apply andb_true_iff in H as [H _].
  destruct (tkind op); try discriminate; reflexivity.
Qed.

(* ------------------------------------------------------------------------------------------ *)
(** * The main induction *)

(* e is a phrase of the level its class corresponds to, and resolves to itself *)
Definition Inv (e : py) : Prop :=
  exists a, F (fidx (prec e)) (pytokens e) a /\ call_resolve a = Ok (embed e).

(* an operand printed at class n is a phrase of level [need] as soon as the unparenthesised
   classes >= n all sit at or above [need] *)
Lemma operand_ok x n need :
  Inv x -> need <= 7 -> (n <= prec x -> need <= fidx (prec x)) ->
  exists a, F need (paren (prec x <? n) (pytokens x)) a /\ call_resolve a = Ok (embed x).
Proof.
  intros (a & Ha & Hr) Hneed Hge. destruct (Nat.ltb_spec (prec x) n) as [Hlt|Hle].
  - exists (EGrouping a). split; [|exact Hr]. apply F_group; [assumption|]. eapply F_expr; eauto.
  - exists a. split; [|exact Hr]. cbn [paren]. eapply F_down; [apply Hge; assumption|exact Ha].
Qed.

Ltac split_andb :=
  repeat match goal with
  | H : _ && _ = true |- _ => apply andb_true_iff in H; destruct H
  end.

Lemma kind_eqb_refl k : kind_eqb k k = true.
Proof. apply kind_eqb_eq. reflexivity. Qed.

(* the class conditions, discharged by enumeration of the class of the operand *)
Ltac class_side x Hwf :=
  let Hc := fresh "Hc" in
  intros Hc; destruct (prec_cases x Hwf) as [Hq|[Hq|[Hq|[Hq|[Hq|Hq]]]]];
  rewrite Hq in *; cbn; try lia.

Lemma args_asts (l : list py) :
  Forall (fun x => exists a, DExpr (pytokens x) a /\ call_resolve a = Ok (embed x)) l ->
  exists asts, Forall2 (fun x a => DExpr (pytokens x) a /\ call_resolve a = Ok (embed x)) l asts.
Proof.
  induction 1 as [|x l (a & Ha) _ (asts & IH)]; [exists []; constructor|].
  exists (a :: asts). constructor; assumption.
Qed.

(* the abstract syntax tree of  k = v *)
Definition kw_ast (kv : token * py) (a : expr) : Prop :=
  exists av, a = EAssign (EVariable (fst kv) None) av /\
             DExpr (fst kv :: equal_tok :: pytokens (snd kv)) a /\
             call_resolve av = Ok (embed (snd kv)).

Lemma kwargs_asts (l : list (token * py)) :
  Forall (fun kv => exists a, kw_ast kv a) l -> exists asts, Forall2 kw_ast l asts.
Proof.
  induction 1 as [|x l (a & Ha) _ (asts & IH)]; [exists []; constructor|].
  exists (a :: asts). constructor; assumption.
Qed.

(* items of an argument list: token lists paired with their trees *)
Lemma sepcat_DArgs (items : list (list token * expr)) :
  items <> [] -> Forall (fun it => DExpr (fst it) (snd it)) items ->
  DArgs (sepcat (map fst items)) (map snd items).
Proof.
  induction items as [|[ts a] items IH]; intros Hne H; [contradiction|].
  inversion H as [|? ? Hd Hrest]; subst. destruct items as [|it items'].
  - cbn. apply DA_one. exact Hd.
  - change (sepcat (map fst ((ts, a) :: it :: items')))
      with (ts ++ comma_tok :: sepcat (map fst (it :: items'))).
    cbn [map snd]. apply DA_cons; [exact Hd|reflexivity|]. apply IH; [discriminate|exact Hrest].
Qed.

Lemma resolve_args_positional (xs : list py) (asts : list expr) rest :
  Forall2 (fun x a => DExpr (pytokens x) a /\ call_resolve a = Ok (embed x)) xs asts ->
  forall pos kw, resolve_args (asts ++ rest) pos kw = resolve_args rest (pos ++ map embed xs) kw.
Proof.
  induction 1 as [|x a xs asts [_ Hr] _ IH]; intros pos kw.
  - cbn. rewrite app_nil_r. reflexivity.
  - cbn [app]. rewrite (resolve_args_pos _ _ _ _ _ Hr), IH. cbn [map]. rewrite <- app_assoc. reflexivity.
Qed.

Definition kw_pair (kv : token * py) : string * lazy := match kv with (k, v) => (lexeme k, embed v) end.

Lemma existsb_str_In x l : existsb (String.eqb x) l = false -> ~ In x l.
Proof.
  intros H Hin. assert (existsb (String.eqb x) l = true); [|congruence].
  apply existsb_exists. exists x. split; [assumption|apply String.eqb_refl].
Qed.

Lemma resolve_args_keywords (kws : list (token * py)) (asts : list expr) :
  Forall2 kw_ast kws asts ->
  forall pos kw,
    nodup_str (map (fun kv => lexeme (fst kv)) kws) = true ->
    (forall kv, In kv kws -> ~ In (lexeme (fst kv)) (map fst kw)) ->
    resolve_args asts pos kw = Ok (pos, kw ++ map kw_pair kws).
Proof.
  induction 1 as [|[k v] a kws asts (av & -> & _ & Hr) _ IH]; intros pos kw Hnd Hfresh.
  - cbn. rewrite app_nil_r. reflexivity.
  - cbn [fst snd] in *. rewrite (resolve_args_kw _ _ _ _ _ _ _ Hr).
    cbn [map nodup_str fst] in Hnd. apply andb_true_iff in Hnd as [Hk Hnd].
    apply negb_true_iff in Hk. apply existsb_str_In in Hk.
    rewrite kw_set_fresh by (apply (Hfresh (k, v)); left; reflexivity).
    rewrite IH; [cbn [map kw_pair]; rewrite <- app_assoc; reflexivity|assumption|].
    intros kv Hin. rewrite map_app, in_app_iff. intros [H|[H|[]]].
    + apply (Hfresh kv); [right; assumption|assumption].
    + cbn in H. apply Hk. rewrite H. apply (in_map (fun kv => lexeme (fst kv))) in Hin. exact Hin.
Qed.

Lemma embed_kwargs kwargs :
  map (fun kv : token * py => let (k, v) := kv in (lexeme k, embed v)) kwargs = map kw_pair kwargs.
Proof. reflexivity. Qed.

Theorem py_inv e : no_hazard e = true -> wf e = true -> Inv e.
Proof.
  induction e as [t|t|t|t|op l r IHl IHr|op x IHx|op l r IHl IHr|f args kwargs IHargs IHkw]
    using py_ind'; intros Hh Hwf; cbn [no_hazard wf] in Hh, Hwf.
  - (* name *)
    exists (EVariable t None). split; [|reflexivity].
    apply F_call, DC_primary, DP_var. apply kind_eqb_eq. assumption.
  - (* number *)
    apply andb_true_iff in Hwf as [Hk Hwf]. unfold has_lit in *. destruct (literal t) as [v|] eqn:El; [|discriminate].
    exists (ELiteral v None). split.
    + apply F_call, DC_primary, DP_number; [left; apply kind_eqb_eq; assumption|exact El].
    + cbn. unfold tok_lit. rewrite El. reflexivity.
  - (* string *)
    apply andb_true_iff in Hwf as [Hk Hwf]. unfold has_lit in *. destruct (literal t) as [v|] eqn:El; [|discriminate].
    exists (ELiteral v (Some (lexeme t))). split.
    + apply F_call, DC_primary, DP_string; [apply kind_eqb_eq; assumption|exact El].
    + cbn. unfold tok_lit. rewrite El. reflexivity.
  - (* True / False / None *)
    apply andb_true_iff in Hwf as [Hk Hwf]. unfold has_lit in *. destruct (literal t) as [v|] eqn:El; [|discriminate].
    exists (ELiteral v None). split.
    + apply F_call, DC_primary, DP_number; [right; apply kind_eqb_eq; assumption|exact El].
    + cbn. unfold tok_lit. rewrite El. reflexivity.
  - (* binary arithmetic *)
    apply andb_true_iff in Hh as [Hh Hnp]. apply andb_true_iff in Hh as [Hhl Hhr].
    apply andb_true_iff in Hwf as [Hwf Hwr]. apply andb_true_iff in Hwf as [Hop Hwl].
    specialize (IHl Hhl Hwl). specialize (IHr Hhr Hwr).
    assert (Hsym : is_arith (tkind op) || is_cmp (tkind op) = true)
      by (apply orb_true_iff; left; assumption).
    assert (Heof : tkind op <> EOF) by (intros E; rewrite E in *; discriminate).
    destruct (arith_prec_cases _ Hop) as [[Hp Hk]|[[Hp Hk]|[Hp Hk]]].
    + (* + - *)
      assert (Hns : kind_eqb (tkind op) STAR_STAR = false) by (destruct Hk as [-> | ->]; reflexivity).
      unfold Inv. cbn [prec pytokens embed]. rewrite Hns, Hp. cbn [fidx].
      destruct (operand_ok l 2 2 IHl) as (al & Hal & Hrl); [lia|class_side l Hwl|].
      destruct (operand_ok r 3 3 IHr) as (ar & Har & Hrr); [lia|class_side r Hwr|].
      exists (EBinary al op ar). split; [|apply call_resolve_bin; assumption].
      apply (F_bin 2 [MINUS; PLUS]); try assumption; [reflexivity|].
      destruct Hk as [E|E]; unfold is_kind; rewrite E; reflexivity.
    + (* * / *)
      assert (Hns : kind_eqb (tkind op) STAR_STAR = false) by (destruct Hk as [-> | ->]; reflexivity).
      unfold Inv. cbn [prec pytokens embed]. rewrite Hns, Hp. cbn [fidx].
      destruct (operand_ok l 3 3 IHl) as (al & Hal & Hrl); [lia|class_side l Hwl|].
      destruct (operand_ok r 4 4 IHr) as (ar & Har & Hrr); [lia|class_side r Hwr|].
      exists (EBinary al op ar). split; [|apply call_resolve_bin; assumption].
      apply (F_bin 3 [STAR; SLASH]); try assumption; [reflexivity|].
      destruct Hk as [E|E]; unfold is_kind; rewrite E; reflexivity.
    + (* ** *)
      unfold Inv. cbn [prec pytokens embed]. rewrite Hk. cbn [kind_eqb arith_prec fidx].
      rewrite kind_eqb_refl.
      rewrite Hk, kind_eqb_refl in Hnp. cbn in Hnp. apply negb_true_iff in Hnp.
      destruct (operand_ok l 6 5 IHl) as (al & Hal & Hrl); [lia|class_side l Hwl|].
      destruct (operand_ok r 5 6 IHr) as (ar & Har & Hrr); [lia| |].
      { class_side r Hwr. exfalso. rewrite (prec_pow r Hwr Hq) in Hnp. discriminate. }
      exists (EBinary al op ar). split; [|rewrite <- Hk; apply call_resolve_bin; assumption].
      apply (F_bin 5 [STAR_STAR]); try assumption; [reflexivity|].
      unfold is_kind; rewrite Hk; reflexivity.
  - (* unary sign *)
    apply andb_true_iff in Hh as [Hhx Hnp]. apply andb_true_iff in Hwf as [Hop Hwx].
    specialize (IHx Hhx Hwx). apply negb_true_iff in Hnp.
    unfold Inv. cbn [prec pytokens embed fidx].
    destruct (operand_ok x 4 6 IHx) as (ax & Hax & Hrx); [lia| |].
    { class_side x Hwx. exfalso. rewrite (prec_pow x Hwx Hq) in Hnp. discriminate. }
    exists (EUnary op ax). split; [|apply call_resolve_un; assumption].
    apply F_unary. apply DU_sign.
    + unfold is_kind, unary_kinds. destruct (tkind op); try discriminate; reflexivity.
    + intros E; rewrite E in *; discriminate.
    + apply F_unary. exact Hax.
  - (* comparison *)
    apply andb_true_iff in Hh as [Hhl Hhr].
    apply andb_true_iff in Hwf as [Hwf Hwr]. apply andb_true_iff in Hwf as [Hop Hwl].
    specialize (IHl Hhl Hwl). specialize (IHr Hhr Hwr).
    assert (Hsym : is_arith (tkind op) || is_cmp (tkind op) = true)
      by (apply orb_true_iff; right; assumption).
    assert (Heof : tkind op <> EOF) by (intros E; rewrite E in *; discriminate).
    unfold Inv. cbn [prec pytokens embed fidx].
    destruct (operand_ok l 2 1 IHl) as (al & Hal & Hrl); [lia|class_side l Hwl|].
    destruct (operand_ok r 2 2 IHr) as (ar & Har & Hrr); [lia|class_side r Hwr|].
    exists (EBinary al op ar). split; [|apply call_resolve_bin; assumption].
    apply (F_bin 1 [EQUAL_EQUAL; BANG_EQUAL; LESS_EQUAL; LESS; GREATER_EQUAL; GREATER]);
      try assumption; [reflexivity|].
    unfold is_kind. destruct (tkind op); try discriminate; reflexivity.
  - (* call *)
    apply andb_true_iff in Hh as [Hha Hhk].
    apply andb_true_iff in Hwf as [Hwf Hnd]. apply andb_true_iff in Hwf as [Hwf Hwk].
    apply andb_true_iff in Hwf as [Hf Hwa]. apply kind_eqb_eq in Hf.
    (* positional arguments *)
    assert (Hpos : exists asts,
               Forall2 (fun x a => DExpr (pytokens x) a /\ call_resolve a = Ok (embed x)) args asts).
    { apply args_asts. rewrite Forall_forall in *. intros x Hx.
      rewrite forallb_forall in Hha, Hwa.
      destruct (IHargs x Hx (Hha x Hx) (Hwa x Hx)) as (a & Ha & Hr).
      exists a. split; [eapply F_expr; exact Ha|exact Hr]. }
    (* keyword arguments *)
    assert (Hkws : exists asts, Forall2 kw_ast kwargs asts).
    { apply kwargs_asts. rewrite Forall_forall in *. intros [k v] Hkv.
      rewrite forallb_forall in Hhk, Hwk.
      pose proof (Hhk (k, v) Hkv) as Hh1. pose proof (Hwk (k, v) Hkv) as Hw1. cbn beta iota in Hh1, Hw1.
      apply andb_true_iff in Hh1 as [Hhv H2]. apply andb_true_iff in Hw1 as [Hk Hwv].
      apply kind_eqb_eq in Hk.
      destruct (IHkw (k, v) Hkv Hhv Hwv) as (a & Ha & Hr). cbn [snd] in *.
      exists (EAssign (EVariable k None) a), a. cbn [fst snd]. split; [reflexivity|]. split; [|exact Hr].
      apply (DE_assign [k] k None equal_tok (pytokens v) a).
      - apply (F_down 0 7 [k]); [lia|]. apply F_call, DC_primary, DP_var. exact Hk.
      - reflexivity.
      - (* the value is at the level of + - : its class is at least ARITH (h4) *)
        apply (F_down 2 (fidx (prec v))); [|exact Ha].
        apply Nat.leb_le in H2.
        destruct (prec_cases v Hwv) as [Hp|[Hp|[Hp|[Hp|[Hp|Hp]]]]]; rewrite Hp in *; cbn; lia. }
    destruct Hpos as (pasts & Hpos). destruct Hkws as (kasts & Hkws).
    unfold Inv. cbn [prec pytokens embed fidx].
    exists (ECall (EVariable f None) (pasts ++ kasts)). split.
    + (* derivation *)
      apply F_call.
      destruct (pasts ++ kasts) as [|a0 rest] eqn:Eall.
      * (* f() *)
        apply app_eq_nil in Eall as [-> ->]. inversion Hpos; subst. inversion Hkws; subst.
        cbn. apply (DC_call0 [f]); [apply DC_primary, DP_var; exact Hf|reflexivity|reflexivity].
      * rewrite <- Eall.
        set (items := combine (map pytokens args) pasts ++
                      combine (map (fun kv : token * py => let (k, v) := kv in k :: equal_tok :: pytokens v) kwargs) kasts).
        assert (Hfst : map fst items =
                       map pytokens args ++ map (fun kv : token * py => let (k, v) := kv in k :: equal_tok :: pytokens v) kwargs).
        { unfold items. rewrite map_app. f_equal.
          - clear -Hpos. induction Hpos; cbn; [reflexivity|f_equal; assumption].
          - clear -Hkws. induction Hkws; cbn; [reflexivity|f_equal; assumption]. }
        assert (Hsnd : map snd items = pasts ++ kasts).
        { unfold items. rewrite map_app. f_equal.
          - clear -Hpos. induction Hpos; cbn; [reflexivity|f_equal; assumption].
          - clear -Hkws. induction Hkws; cbn; [reflexivity|f_equal; assumption]. }
        rewrite <- Hfst, <- Hsnd.
        apply (DC_call [f] (EVariable f None) lp_tok (sepcat (map fst items)) (map snd items) rp_tok);
          [apply DC_primary, DP_var; exact Hf|reflexivity| |reflexivity].
        apply sepcat_DArgs.
        { intros E. rewrite E in Hsnd. cbn in Hsnd. rewrite <- Hsnd in Eall. discriminate. }
        unfold items. apply Forall_app. split.
        { clear -Hpos. induction Hpos as [|x a xs asts [Hd _] _ IH]; cbn; constructor; assumption. }
        { clear -Hkws. induction Hkws as [|[k v] a xs asts (av & _ & Hd & _) _ IH]; cbn; constructor; assumption. }
    + (* resolution *)
      rewrite call_resolve_call, (resolve_args_positional args pasts kasts Hpos [] []).
      cbn [app]. rewrite (resolve_args_keywords kwargs kasts Hkws (map embed args) []);
        [reflexivity|assumption|intros kv _ []].
Qed.

(** Main theorem (C12): on hazard-free well-formed trees of any depth, the tokens Python prints are
    a phrase of formulae's grammar, and the abstract syntax tree of that phrase resolves to the
    tree itself. *)
Theorem py_roundtrip e :
  no_hazard e = true -> wf e = true ->
  exists ast, DExpr (pytokens e) ast /\ call_resolve ast = Ok (embed e).
Proof.
  intros Hh Hwf. destruct (py_inv e Hh Hwf) as (a & Ha & Hr). exists a. split; [|exact Hr].
  eapply F_expr; exact Ha.
Qed.

(* ------------------------------------------------------------------------------------------ *)
(** * Corollaries on the parser model *)

(** the bare expression followed by the end marker *)
Corollary py_roundtrip_parse e :
  no_hazard e = true -> wf e = true ->
  exists ast, parse (pytokens e ++ [eof_tok]) = Ok ast /\ call_resolve ast = Ok (embed e).
Proof.
  intros Hh Hwf. destruct (py_roundtrip e Hh Hwf) as (a & Hd & Hr). exists a. split; [|exact Hr].
  apply parse_complete_eof; [exact Hd|reflexivity].
Qed.

(* whatever tree the parser returns for the printed tokens, it resolves to the Python tree *)
Corollary py_roundtrip_parse_any e ast :
  no_hazard e = true -> wf e = true ->
  parse (pytokens e ++ [eof_tok]) = Ok ast -> call_resolve ast = Ok (embed e).
Proof.
  intros Hh Hwf Hp. destruct (py_roundtrip_parse e Hh Hwf) as (a & Ha & Hr). congruence.
Qed.

(* ... and the derivation is the only one the grammar has for these tokens *)
Corollary py_roundtrip_unique e a1 a2 :
  DExpr (pytokens e) a1 -> DExpr (pytokens e) a2 -> a1 = a2.
Proof. apply grammar_unambiguous. Qed.

(** The full formula  y ~ I(<tokens>)  as the scanner hands it to the parser (the scanner inserts
    "1 +" after the tilde): the parser returns the expected tree, whose call argument resolves to
    the Python tree; and the formula describes the model with response y, an intercept, and the
    call term I(<tree>). *)
Definition formula_tokens (y tilde : token) (ts : list token) : list token :=
  [y; tilde; one_tok; plus_tok; I_token; lp_tok] ++ ts ++ [rp_tok; eof_tok].

Definition formula_ast (y tilde : token) (arg : expr) : expr :=
  EBinary (EVariable y None) tilde
          (EBinary (ELiteral (LInt 1) None) plus_tok (ECall (EVariable I_token None) [arg])).

Lemma I_call_level ts a : DExpr ts a -> F 7 (I_token :: lp_tok :: ts ++ [rp_tok]) (ECall (EVariable I_token None) [a]).
Proof.
  intros H. apply F_call.
  apply (DC_call [I_token] (EVariable I_token None) lp_tok ts [a] rp_tok);
    [apply DC_primary, DP_var; reflexivity|reflexivity|apply DA_one; exact H|reflexivity].
Qed.

Theorem formula_parse y tilde ts a :
  tkind y = IDENTIFIER -> tkind tilde = TILDE -> DExpr ts a ->
  parse (formula_tokens y tilde ts) = Ok (formula_ast y tilde a).
Proof.
  intros Hy Ht Hd. unfold formula_tokens.
  replace ([y; tilde; one_tok; plus_tok; I_token; lp_tok] ++ ts ++ [rp_tok; eof_tok])
    with (([y] ++ tilde :: ([one_tok] ++ plus_tok :: (I_token :: lp_tok :: ts ++ [rp_tok]))) ++ [eof_tok])
    by (cbn; rewrite <- app_assoc; reflexivity).
  apply parse_complete_eof; [|reflexivity].
  apply DE_tilde; [|exact Ht|].
  - apply (F_down 0 7 [y]); [lia|]. apply F_call, DC_primary, DP_var. exact Hy.
  - change (F 2 ([one_tok] ++ plus_tok :: I_token :: lp_tok :: ts ++ [rp_tok])
              (EBinary (ELiteral (LInt 1) None) plus_tok (ECall (EVariable I_token None) [a]))).
    apply (F_bin 2 [MINUS; PLUS]); [reflexivity| |reflexivity|discriminate|].
    + apply (F_down 2 7); [lia|]. apply F_call, DC_primary.
      apply (DP_number one_tok (LInt 1)); [left; reflexivity|reflexivity].
    + apply (F_down 3 7); [lia|]. apply I_call_level. exact Hd.
Qed.

Local Open Scope string_scope.
Theorem py_roundtrip_formula y tilde e :
  tkind y = IDENTIFIER -> tkind tilde = TILDE -> no_hazard e = true -> wf e = true ->
  exists ast,
    parse (formula_tokens y tilde (pytokens e)) = Ok (formula_ast y tilde ast) /\
    call_resolve ast = Ok (embed e) /\
    describe (formula_ast y tilde ast)
    = Ok (Mod (Some [CVar (NStr (lexeme y)) None]) [CI; CT [CCall (LzCall "I" [embed e] [])]] []).
Proof.
  intros Hy Ht Hh Hwf. destruct (py_roundtrip e Hh Hwf) as (a & Hd & Hr). exists a.
  split; [apply formula_parse; assumption|]. split; [exact Hr|].
  unfold describe, formula_ast. cbn [resolve]. rewrite Ht. cbn [lookup_kind resolver_ops kind_eqb].
  assert (Hc : call_resolve (ECall (EVariable I_token None) [a]) = Ok (LzCall "I" [embed e] [])).
  { rewrite call_resolve_call. rewrite (resolve_args_pos _ _ _ _ _ Hr). reflexivity. }
  rewrite Hc. reflexivity.
Qed.
Local Close Scope string_scope.

(* ------------------------------------------------------------------------------------------ *)
(** * { ts } is I( ts ) *)

(** the two derivations; the trees are equal as soon as the token spelling I is [I_token] *)
Theorem brace_is_I lb rb i lp rp ts e :
  tkind lb = LEFT_BRACE -> tkind rb = RIGHT_BRACE ->
  tkind i = IDENTIFIER -> tkind lp = LEFT_PAREN -> tkind rp = RIGHT_PAREN ->
  DExpr ts e ->
  DPrimary (lb :: ts ++ [rb]) (ECall (EVariable I_token None) [e]) /\
  DCall (i :: lp :: ts ++ [rp]) (ECall (EVariable i None) [e]).
Proof.
  intros Hlb Hrb Hi Hlp Hrp Hd. split.
  - apply DP_brace; assumption.
  - apply (DC_call [i] (EVariable i None) lp ts [e] rp);
      [apply DC_primary, DP_var; exact Hi|exact Hlp|apply DA_one; exact Hd|exact Hrp].
Qed.

(** on the parser: both token lists parse, to the same tree *)
Theorem brace_is_I_parse lb rb lp rp ts e rest :
  tkind lb = LEFT_BRACE -> tkind rb = RIGHT_BRACE -> tkind lp = LEFT_PAREN -> tkind rp = RIGHT_PAREN ->
  DExpr ts e -> at_end rest = true ->
  parse (lb :: ts ++ rb :: rest) = Ok (ECall (EVariable I_token None) [e]) /\
  parse (I_token :: lp :: ts ++ rp :: rest) = Ok (ECall (EVariable I_token None) [e]).
Proof.
  intros Hlb Hrb Hlp Hrp Hd Hend.
  destruct (brace_is_I lb rb I_token lp rp ts e Hlb Hrb eq_refl Hlp Hrp Hd) as [H1 H2].
  split.
  - replace (lb :: ts ++ rb :: rest) with ((lb :: ts ++ [rb]) ++ rest)
      by (cbn; rewrite <- app_assoc; reflexivity).
    apply parse_complete; [|exact Hend]. apply (F_expr 7), F_call, DC_primary, H1.
  - replace (I_token :: lp :: ts ++ rp :: rest) with ((I_token :: lp :: ts ++ [rp]) ++ rest)
      by (cbn; rewrite <- app_assoc; reflexivity).
    apply parse_complete; [|exact Hend]. apply (F_expr 7), F_call, H2.
Qed.

Corollary brace_is_I_parse_eq lb rb lp rp ts e rest :
  tkind lb = LEFT_BRACE -> tkind rb = RIGHT_BRACE -> tkind lp = LEFT_PAREN -> tkind rp = RIGHT_PAREN ->
  DExpr ts e -> at_end rest = true ->
  parse (lb :: ts ++ rb :: rest) = parse (I_token :: lp :: ts ++ rp :: rest).
Proof.
  intros. destruct (brace_is_I_parse lb rb lp rp ts e rest) as [-> ->]; auto.
Qed.

(* the token the scanner produces for the text I( is I_token *)
Local Open Scope char_scope.
Lemma scan_I_is_I_token cs : scan_token "I" ("(" :: cs) = Ok (Some I_token, "(" :: cs).
Proof. reflexivity. Qed.
Lemma scan_braces cs :
  scan_token "{" cs = Ok (Some (mk LEFT_BRACE "{"), cs) /\ scan_token "}" cs = Ok (Some (mk RIGHT_BRACE "}"), cs).
Proof. split; reflexivity. Qed.
Local Close Scope char_scope.

Local Open Scope string_scope.
Definition parse_text (s : string) : res expr := do ts <- scan_noint s; parse ts.
Definition arg_tree (s : string) : res lazy := do e <- parse_text s; call_resolve e.

Example brace_is_I_scanned :
  parse_text "{x + 1}" = parse_text "I(x + 1)" /\ is_ok (parse_text "{x + 1}") = true /\
  Driver.parse_string "y ~ {x / z}" = Driver.parse_string "y ~ I(x / z)" /\
  is_ok (Driver.parse_string "y ~ {x / z}") = true.
Proof. vm_compute. repeat split. Qed.

(* ------------------------------------------------------------------------------------------ *)
(** * Non-vacuity: a deep hazard-free tree with calls and keyword arguments *)

Definition nm (s : string) : py := PyName (mk IDENTIFIER s).
Definition num (s : string) (z : Z) : py := PyNum (Tok NUMBER s (Some (LInt z))).
Definition bop (k : kind) (s : string) (l r : py) : py := PyBin (mk k s) l r.

(* the Python tree of  f((a + b) * (-c) ** 2, (a <= b) < c - (d - e), k=a - b / 2, m=g()) *)
Definition sample : py :=
  PyCall (mk IDENTIFIER "f")
    [bop STAR "*" (bop PLUS "+" (nm "a") (nm "b")) (bop STAR_STAR "**" (PyUn (mk MINUS "-") (nm "c")) (num "2" 2));
     PyCmp (mk LESS "<") (PyCmp (mk LESS_EQUAL "<=") (nm "a") (nm "b")) (bop MINUS "-" (nm "c") (bop MINUS "-" (nm "d") (nm "e")))]
    [(mk IDENTIFIER "k", bop MINUS "-" (nm "a") (bop SLASH "/" (nm "b") (num "2" 2)));
     (mk IDENTIFIER "m", PyCall (mk IDENTIFIER "g") [] [])].

Example sample_ok : no_hazard sample = true /\ wf sample = true.
Proof. split; reflexivity. Qed.

(* the printed tokens are what the scanner produces for the text Python prints *)
Example sample_tokens :
  scan_noint "f((a + b) * (-c) ** 2, (a <= b) < c - (d - e), k=a - b / 2, m=g())"
  = Ok (pytokens sample ++ [eof_tok])%list.
Proof. vm_compute. reflexivity. Qed.

Example sample_roundtrip :
  arg_tree "f((a + b) * (-c) ** 2, (a <= b) < c - (d - e), k=a - b / 2, m=g())" = Ok (embed sample).
Proof. vm_compute. reflexivity. Qed.

(* [formula_tokens] is the shape of the scanner's output for  y ~ I(...)  *)
Example formula_tokens_scanned :
  scan "y ~ I((a + b) * (-c) ** 2)"
  = Ok (formula_tokens (mk IDENTIFIER "y") (mk TILDE "~")
          (pytokens (bop STAR "*" (bop PLUS "+" (nm "a") (nm "b"))
                         (bop STAR_STAR "**" (PyUn (mk MINUS "-") (nm "c")) (num "2" 2))))).
Proof. vm_compute. reflexivity. Qed.

(* the printer against the text ast.unparse writes, on the shapes where the classes matter *)
Definition neg (e : py) : py := PyUn (mk MINUS "-") e.
Example printer_samples :
  scan_noint "2 ** (-x)" = Ok (pytokens (bop STAR_STAR "**" (num "2" 2) (neg (nm "x"))) ++ [eof_tok])%list /\
  scan_noint "--x" = Ok (pytokens (neg (neg (nm "x"))) ++ [eof_tok])%list /\
  scan_noint "a * -b" = Ok (pytokens (bop STAR "*" (nm "a") (neg (nm "b"))) ++ [eof_tok])%list /\
  scan_noint "-(a * b)" = Ok (pytokens (neg (bop STAR "*" (nm "a") (nm "b"))) ++ [eof_tok])%list /\
  scan_noint "(-a) ** b" = Ok (pytokens (bop STAR_STAR "**" (neg (nm "a")) (nm "b")) ++ [eof_tok])%list /\
  scan_noint "(2 ** x) ** 2" = Ok (pytokens (bop STAR_STAR "**" (bop STAR_STAR "**" (num "2" 2) (nm "x")) (num "2" 2)) ++ [eof_tok])%list /\
  scan_noint "a - (b - c)" = Ok (pytokens (bop MINUS "-" (nm "a") (bop MINUS "-" (nm "b") (nm "c"))) ++ [eof_tok])%list /\
  scan_noint "a - b - c" = Ok (pytokens (bop MINUS "-" (bop MINUS "-" (nm "a") (nm "b")) (nm "c")) ++ [eof_tok])%list /\
  scan_noint "a / (b * c)" = Ok (pytokens (bop SLASH "/" (nm "a") (bop STAR "*" (nm "b") (nm "c"))) ++ [eof_tok])%list /\
  scan_noint "a < (b < c)" = Ok (pytokens (PyCmp (mk LESS "<") (nm "a") (PyCmp (mk LESS "<") (nm "b") (nm "c"))) ++ [eof_tok])%list.
Proof. vm_compute. repeat split. Qed.

(* ------------------------------------------------------------------------------------------ *)
(** * Refutations: where the real grammar departs from Python (known findings) *)

(** -x ** 2  is  (-x) ** 2  for formulae; Python reads -(x ** 2) *)
Example C12_refuted_unary_pow :
  arg_tree "-x ** 2" = Ok (LzOp "**" [LzOp "-" [LzVar "x"]; LzVal (LInt 2) None]).
Proof. vm_compute. reflexivity. Qed.

Definition py_neg_pow : py := PyUn (mk MINUS "-") (bop STAR_STAR "**" (nm "x") (num "2" 2)).
Example C12_refuted_unary_pow_tree :
  wf py_neg_pow = true /\ no_hazard py_neg_pow = false /\
  scan_noint "-x ** 2" = Ok (pytokens py_neg_pow ++ [eof_tok])%list /\
  embed py_neg_pow = LzOp "-" [LzOp "**" [LzVar "x"; LzVal (LInt 2) None]] /\
  arg_tree "-x ** 2" <> Ok (embed py_neg_pow).
Proof. vm_compute. repeat split. discriminate. Qed.

(** 2 ** x ** 2  is  (2 ** x) ** 2  for formulae; Python reads 2 ** (x ** 2) *)
Example C12_refuted_pow_assoc :
  arg_tree "2 ** x ** 2"
  = Ok (LzOp "**" [LzOp "**" [LzVal (LInt 2) None; LzVar "x"]; LzVal (LInt 2) None]).
Proof. vm_compute. reflexivity. Qed.

Definition py_pow_pow : py := bop STAR_STAR "**" (num "2" 2) (bop STAR_STAR "**" (nm "x") (num "2" 2)).
Example C12_refuted_pow_assoc_tree :
  wf py_pow_pow = true /\ no_hazard py_pow_pow = false /\
  scan_noint "2 ** x ** 2" = Ok (pytokens py_pow_pow ++ [eof_tok])%list /\
  arg_tree "2 ** x ** 2" <> Ok (embed py_pow_pow).
Proof. vm_compute. repeat split. discriminate. Qed.

(** a keyword value that is a comparison is rejected (h4) *)
Example C12_kwarg_comparison_rejected :
  is_ok (parse_text "f(k=a < b)") = false /\ is_ok (parse_text "f(k=(a < b))") = true.
Proof. vm_compute. split; reflexivity. Qed.

(** the name of a call term drops the parentheses: two different trees, one name *)
Example C12_refuted_name_collision :
  exists t1 t2,
    arg_tree "I((x + z) * 2)" = Ok t1 /\ arg_tree "I(x + z * 2)" = Ok t2 /\
    lazy_eqb t1 t2 = false /\ t1 <> t2 /\
    lazy_str t1 = "I(x + z * 2)" /\ lazy_str t2 = "I(x + z * 2)".
Proof.
  eexists. eexists. split; [vm_compute; reflexivity|]. split; [vm_compute; reflexivity|].
  split; [vm_compute; reflexivity|]. split; [discriminate|]. split; vm_compute; reflexivity.
Qed.

(* the same through the driver: the two formulas describe models whose term names coincide *)
Example C12_refuted_name_collision_model :
  (do m <- Driver.describe_string "y ~ I((x + z) * 2)"; model_obs m)
  = (do m <- Driver.describe_string "y ~ I(x + z * 2)"; model_obs m) /\
  Driver.describe_string "y ~ I((x + z) * 2)" <> Driver.describe_string "y ~ I(x + z * 2)".
Proof. split; [vm_compute; reflexivity|]. vm_compute. discriminate. Qed.

(* ------------------------------------------------------------------------------------------ *)
(** * Names do not depend on whitespace *)

(* the name of the call term a token list denotes *)
Definition call_name (ts : list token) : res string :=
  do e <- parse ts; do l <- call_resolve e; Ok (lazy_str l).
Definition text_name (s : string) : res string := do ts <- scan_noint s; call_name ts.

(** the name is a function of the token list: texts with the same tokens have the same name *)
Theorem name_ws_invariant s1 s2 :
  scan_noint s1 = scan_noint s2 -> text_name s1 = text_name s2.
Proof. unfold text_name. intros ->. reflexivity. Qed.

Example name_ws_example :
  scan_noint "I( x+z *2 )" = scan_noint "I(x + z * 2)" /\ text_name "I( x+z *2 )" = Ok "I(x + z * 2)".
Proof. vm_compute. split; reflexivity. Qed.
Local Close Scope string_scope.

(** scanner level: leading whitespace is skipped *)
Definition is_ws (c : ascii) : bool := mem_ascii c whitespace.

Lemma scan_token_ws c rest : is_ws c = true -> scan_token c rest = Ok (None, rest).
Proof.
  unfold is_ws, mem_ascii, whitespace. intros H. apply existsb_exists in H as (w & Hin & Hw).
  apply Ascii.eqb_eq in Hw. subst w. cbn in Hin.
  destruct Hin as [<-|[<-|[<-|[<-|[]]]]]; reflexivity.
Qed.

Lemma scan_loop_ws c rest f : is_ws c = true -> scan_loop (S f) (c :: rest) = scan_loop f rest.
Proof.
  intros H. cbn [scan_loop]. rewrite (scan_token_ws c rest H). cbn [bind].
  destruct (scan_loop f rest); reflexivity.
Qed.

Lemma scan_loop_leading_ws ws cs f :
  forallb is_ws ws = true -> scan_loop (List.length ws + f) (ws ++ cs) = scan_loop f cs.
Proof.
  induction ws as [|c ws IH]; intros H; [reflexivity|]. cbn [forallb] in H.
  apply andb_true_iff in H as [Hc Hws]. cbn [List.length app Nat.add].
  rewrite scan_loop_ws by exact Hc. apply IH, Hws.
Qed.

Theorem scan_leading_ws b ws cs :
  forallb is_ws ws = true -> cs <> [] -> scan_chars b (ws ++ cs) = scan_chars b cs.
Proof.
  intros Hws Hne. unfold scan_chars. rewrite app_length, (scan_loop_leading_ws ws cs _ Hws).
  destruct cs as [|c cs]; [contradiction|]. destruct ws; reflexivity.
Qed.

Print Assumptions py_roundtrip.
Print Assumptions py_roundtrip_parse.
Print Assumptions py_roundtrip_formula.
Print Assumptions brace_is_I_parse.
Print Assumptions scan_leading_ws.
Print Assumptions C12_refuted_name_collision.
