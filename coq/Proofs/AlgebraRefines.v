(* The term algebra of the implementation (Model/Algebra.v) refines the Wilkinson-Rogers set
   semantics (Spec/Wilkinson.v) on the documented fragment. *)
From Verif Require Import Base Tokens Scanner Parser Lazy Algebra Wilkinson CompEq ListSet.
From Coq Require Import Lia.
Local Open Scope list_scope.

(* ================================================================== *)
(** * 1. The boolean equalities are equivalences on the values that occur *)

Definition goodt (t : term) : Prop := Forall good t.
Definition goodc (c : cterm) : Prop := match c with CT t => goodt t | _ => True end.
Definition goodg (g : gterm) : Prop := goodc (gexpr g) /\ goodc (gfactor g).
Definition goods (s : sterm) : Prop := match s with Fs f => goodt f | Icpt => True end.
Definition goodgi (g : gitem) : Prop := goods (fst g) /\ goodt (snd g).

Lemma E_comp : eqv comp_eqb good.
Proof.
  split; [exact comp_eqb_refl | exact comp_eqb_sym | exact comp_eqb_trans].
Qed.

Lemma E_term : eqv term_eqb goodt.
Proof. exact (eqv_same comp_eqb good E_comp). Qed.

Lemma E_cterm : eqv cterm_eqb goodc.
Proof.
  split.
  - intros [| |t] H; cbn; auto. apply (e_refl _ _ E_term); auto.
  - intros [| |t] [| |u] H1 H2; cbn; auto. apply (e_sym _ _ E_term); auto.
  - intros [| |t] [| |u] [| |w] H1 H2 H3; cbn; auto; try discriminate. apply (e_trans _ _ E_term); auto.
Qed.

Lemma E_gterm : eqv gterm_eqb goodg.
Proof.
  split.
  - intros [a b] [H1 H2]. unfold gterm_eqb. cbn in *. rewrite !(e_refl _ _ E_cterm); auto.
  - intros [a b] [c d] [H1 H2] [H3 H4]. unfold gterm_eqb. cbn in *. rewrite !andb_true_iff.
    intros [A B]. split; apply (e_sym _ _ E_cterm); auto.
  - intros [a b] [c d] [e f] [H1 H2] [H3 H4] [H5 H6]. unfold gterm_eqb. cbn in *. rewrite !andb_true_iff.
    intros [A B] [C D]. split; [apply (e_trans _ _ E_cterm a c e) | apply (e_trans _ _ E_cterm b d f)]; auto.
Qed.

Lemma E_sterm : eqv sterm_eqb goods.
Proof.
  split.
  - intros [|t] H; cbn; auto. apply (e_refl _ _ E_term); auto.
  - intros [|t] [|u] H1 H2; cbn; auto. apply (e_sym _ _ E_term); auto.
  - intros [|t] [|u] [|w] H1 H2 H3; cbn; auto; try discriminate. apply (e_trans _ _ E_term); auto.
Qed.

Lemma E_gitem : eqv gitem_eqb goodgi.
Proof.
  split.
  - intros [a b] [H1 H2]. unfold gitem_eqb. cbn in *.
    rewrite (e_refl _ _ E_sterm), (e_refl _ _ E_term); auto.
  - intros [a b] [c d] [H1 H2] [H3 H4]. unfold gitem_eqb. cbn in *. rewrite !andb_true_iff.
    intros [A B]. split; [apply (e_sym _ _ E_sterm) | apply (e_sym _ _ E_term)]; auto.
  - intros [a b] [c d] [e f] [H1 H2] [H3 H4] [H5 H6]. unfold gitem_eqb. cbn in *. rewrite !andb_true_iff.
    intros [A B] [C D]. split; [apply (e_trans _ _ E_sterm a c e) | apply (e_trans _ _ E_term b d f)]; auto.
Qed.

(* abbreviations *)
Notation tmem := (mem term_eqb).
Notation tequ := (equ term_eqb goodt).
Notation tnd := (nd term_eqb).

(* ---- factor sets ---- *)
Lemma term_eqb_equ : forall a b, goodt a -> goodt b -> (term_eqb a b = true <-> equ comp_eqb good a b).
Proof. intros. apply (same_equ comp_eqb good E_comp); auto. Qed.

Lemma dedup_comps_dedup : forall l acc, dedup_comps acc l = dedup comp_eqb acc l.
Proof. induction l; intros; cbn; auto. rewrite !IHl. auto. Qed.

Lemma goodt_mk_term : forall l, goodt l -> goodt (mk_term l).
Proof. intros. unfold mk_term. rewrite dedup_comps_dedup. apply Forall_dedup; auto. Qed.

Lemma mk_term_eq : forall l, goodt l -> term_eqb (mk_term l) l = true.
Proof.
  intros l H. apply term_eqb_equ; auto using goodt_mk_term. intros c Hc.
  unfold mk_term. rewrite dedup_comps_dedup, (mem_dedup comp_eqb good E_comp); auto.
Qed.

Lemma goodt_app : forall a b, goodt a -> goodt b -> goodt (a ++ b).
Proof. intros. apply Forall_app; auto. Qed.

Lemma term_eqb_app : forall a a' b b', goodt a -> goodt a' -> goodt b -> goodt b' ->
  term_eqb a a' = true -> term_eqb b b' = true -> term_eqb (a ++ b) (a' ++ b') = true.
Proof.
  intros a a' b b' Ha Ha' Hb Hb' A B. apply term_eqb_equ; auto using goodt_app.
  apply term_eqb_equ in A, B; auto. apply equ_app; auto.
Qed.

Lemma term_eqb_app_idem : forall a b, goodt a -> goodt b -> term_eqb a b = true -> term_eqb (a ++ b) a = true.
Proof.
  intros a b Ha Hb A. apply term_eqb_equ; auto using goodt_app. apply term_eqb_equ in A; auto.
  intros c Hc. rewrite mem_app, <- A; auto. apply orb_diag.
Qed.

Lemma goodt_concat : forall ts, Forall goodt ts -> goodt (List.concat ts).
Proof. induction 1; cbn; auto. - constructor. - apply goodt_app; auto. Qed.

Lemma mem_concat : forall c ts, mem comp_eqb c (List.concat ts) = existsb (fun t => mem comp_eqb c t) ts.
Proof. induction ts; cbn [List.concat existsb]; auto. rewrite mem_app, IHts. reflexivity. Qed.

(* the union of all factors only depends on the set of terms *)
Lemma concat_equ : forall ts us, Forall goodt ts -> Forall goodt us -> tequ ts us ->
  term_eqb (List.concat ts) (List.concat us) = true.
Proof.
  assert (forall ts us c, Forall goodt ts -> Forall goodt us -> tequ ts us -> good c ->
            mem comp_eqb c (List.concat ts) = true -> mem comp_eqb c (List.concat us) = true) as H.
  { intros ts us c Ht Hu Eq Hc M. rewrite mem_concat in *. apply existsb_exists in M.
    destruct M as (t & Hin & Mt). rewrite Forall_forall in Ht.
    assert (tmem t us = true) as M2 by (rewrite <- Eq; auto; apply (mem_in _ _ E_term); auto).
    apply mem_ex in M2. destruct M2 as (u & Hu' & A). apply existsb_exists. exists u. split; auto.
    rewrite Forall_forall in Hu. apply term_eqb_equ in A; auto. rewrite <- A; auto. }
  intros ts us Ht Hu Eq. apply term_eqb_equ; auto using goodt_concat. intros c Hc.
  destruct (mem comp_eqb c (List.concat ts)) eqn:A.
  - symmetry. apply (H ts us); auto.
  - destruct (mem comp_eqb c (List.concat us)) eqn:B; auto. rewrite <- A. apply (H us ts); auto.
    apply equ_sym; auto.
Qed.

(* ================================================================== *)
(** * 2. What the Model methods compute, in terms of [dedup] and [rm_all] *)

Notation cnd := (nd cterm_eqb).
Notation gnd := (nd gterm_eqb).
Definition ACT (t : term) : anyterm := AC (CT t).

Lemma commons_of_map : forall cl gl,
  flat_map (fun a => match a with AC c => [c] | AG _ => [] end) (map AC cl ++ map AG gl) = cl.
Proof.
  intros. rewrite flat_map_app.
  assert (forall l, flat_map (fun a => match a with AC c => [c] | AG _ => [] end) (map AC l) = l) as ->
    by (induction l; cbn; congruence).
  assert (forall l, flat_map (fun a => match a with AC c => [c] | AG _ => [] end) (map AG l) = []) as ->
    by (induction l; cbn; congruence).
  apply app_nil_r.
Qed.

Lemma groups_of_map : forall cl gl,
  flat_map (fun a => match a with AG g => [g] | AC _ => [] end) (map AC cl ++ map AG gl) = gl.
Proof.
  intros. rewrite flat_map_app.
  assert (forall l, flat_map (fun a => match a with AG g => [g] | AC _ => [] end) (map AC l) = []) as ->
    by (induction l; cbn; congruence).
  assert (forall l, flat_map (fun a => match a with AG g => [g] | AC _ => [] end) (map AG l) = l) as ->
    by (induction l; cbn; congruence).
  reflexivity.
Qed.

(* Model(terms..., response) *)
Lemma mk_model_spec : forall cl gl r,
  mk_model (map AC cl ++ map AG gl) r = Mod r (dedup cterm_eqb [] cl) (dedup gterm_eqb [] gl).
Proof. intros. unfold mk_model. rewrite commons_of_map, groups_of_map. reflexivity. Qed.

Lemma mk_model_commons : forall cl r, mk_model (map AC cl) r = Mod r (dedup cterm_eqb [] cl) [].
Proof. intros. rewrite <- (app_nil_r (map AC cl)). apply (mk_model_spec cl []). Qed.

Lemma mk_model_groups : forall gl r, mk_model (map AG gl) r = Mod r [] (dedup gterm_eqb [] gl).
Proof. intros. apply (mk_model_spec [] gl). Qed.

(* Model.add_terms: appends the terms that are not yet there *)
Lemma add_terms_spec : forall cl gl m, ~ In CN cl ->
  add_terms m (map AC cl ++ map AG gl) =
  Ok (Mod (resp m) (dedup cterm_eqb (commons m) cl) (dedup gterm_eqb (groups m) gl)).
Proof.
  intros cl gl. induction cl as [|c cl IH]; intros m Hn.
  - cbn [map app]. revert m Hn. induction gl as [|g gl IHg]; intros [r cs gs] _; cbn; auto.
    fold (gmem g gs). destruct (gmem g gs) eqn:M; rewrite IHg; cbn; auto.
  - cbn [map app add_terms dedup].
    assert (add_term m (AC c) = Ok (if cmem c (commons m) then m else Mod (resp m) (commons m ++ [c]) (groups m))) as ->.
    { destruct c; auto. exfalso. apply Hn. left. reflexivity. }
    cbn [bind]. fold (cmem c (commons m)). rewrite IH by (intros H; apply Hn; right; auto).
    destruct (cmem c (commons m)); reflexivity.
Qed.

Lemma add_terms_model : forall m o, ~ In CN (commons o) ->
  add_terms m (model_terms o) =
  Ok (Mod (resp m) (dedup cterm_eqb (commons m) (commons o)) (dedup gterm_eqb (groups m) (groups o))).
Proof. intros. apply add_terms_spec; auto. Qed.

(* Model.__sub__(Model): removes the terms of the other model one by one *)
Lemma model_sub_model : forall o m,
  model_sub m (VM o) = Ok (Mod (resp m) (rm_all cterm_eqb (commons o) (commons m))
                                        (rm_all gterm_eqb (groups o) (groups m))).
Proof.
  intros [ro cs gs] m. cbn [model_sub]. unfold model_terms. cbn [commons groups]. f_equal. rewrite fold_left_app.
  revert m. induction cs as [|c cs IH]; intros m.
  - cbn [map fold_left rm_all]. revert m. induction gs as [|g gs IHg]; intros [r mc mg]; cbn [map fold_left]; auto.
    cbn [groups commons resp]. unfold gmem. fold (mem gterm_eqb g mg).
    replace (if mem gterm_eqb g mg then Mod r mc (remove_first gterm_eqb g mg) else Mod r mc mg)
      with (Mod r mc (rm gterm_eqb g mg)) by (unfold rm; destruct (mem gterm_eqb g mg); auto).
    rewrite IHg. reflexivity.
  - cbn [map fold_left]. destruct m as [r mc mg]. cbn [groups commons resp]. unfold cmem. fold (mem cterm_eqb c mc).
    replace (if mem cterm_eqb c mc then Mod r (remove_first cterm_eqb c mc) mg else Mod r mc mg)
      with (Mod r (rm cterm_eqb c mc) mg) by (unfold rm; destruct (mem cterm_eqb c mc); auto).
    rewrite IH. reflexivity.
Qed.

Lemma model_sub_cterm : forall m v c,
  (v = VT (match c with CT t => t | _ => [] end) /\ (exists t, c = CT t) \/ v = VI /\ c = CI) ->
  model_sub m v = Ok (Mod (resp m) (rm cterm_eqb c (commons m)) (groups m)).
Proof.
  intros [r mc mg] v c [[-> [t ->]] | [-> ->]]; cbn [model_sub commons groups resp]; unfold cmem, rm, mem;
    destruct (existsb _ mc); reflexivity.
Qed.

Lemma model_sub_gterm : forall m g,
  model_sub m (VG g) = Ok (Mod (resp m) (commons m) (rm gterm_eqb g (groups m))).
Proof.
  intros [r mc mg] g; cbn [model_sub commons groups resp]; unfold gmem, rm, mem; destruct (existsb _ mg); reflexivity.
Qed.

(* the pairwise interactions of two lists of factor sets *)
Lemma interactions_spec : forall ls rs,
  interactions (map CT ls) (map CT rs) =
  Ok (map (fun p => ACT (mk_term (fst p ++ snd p))) (list_prod ls rs)).
Proof.
  intros. unfold interactions.
  assert (forall (l : list (term * term)),
     mapM (fun p : cterm * cterm => do a <- comps_of (fst p); do b <- comps_of (snd p); Ok (AC (CT (mk_term (a ++ b)))))
          (map (fun p => (CT (fst p), CT (snd p))) l)
     = Ok (map (fun p => ACT (mk_term (fst p ++ snd p))) l)) as H.
  { induction l as [|[a b] l IH]; cbn; auto. cbn in IH. rewrite IH. reflexivity. }
  rewrite <- H. f_equal. clear H. induction ls as [|a ls IH]; cbn; auto.
  rewrite map_app, IH. f_equal. rewrite !map_map. reflexivity.
Qed.

(* ================================================================== *)
(** * 3. Plain values: a term, or a model made of terms only *)

Definition pmodel (ts : list term) : model := Mod None (map CT ts) [].

Inductive plainv : value -> list term -> Prop :=
| PV_T t : goodt t -> plainv (VT t) [t]
| PV_M ts : Forall goodt ts -> tnd ts -> plainv (VM (pmodel ts)) ts.

Lemma plainv_good : forall v ts, plainv v ts -> Forall goodt ts /\ tnd ts.
Proof. intros v ts []; auto. repeat split; auto. Qed.

Lemma CT_eqb : forall x y, cterm_eqb (CT x) (CT y) = term_eqb x y.
Proof. reflexivity. Qed.

Lemma dedup_CT : forall l acc, dedup cterm_eqb (map CT acc) (map CT l) = map CT (dedup term_eqb acc l).
Proof. intros. apply (dedup_map term_eqb cterm_eqb CT CT_eqb). Qed.

Lemma not_CN_CT : forall ts, ~ In CN (map CT ts).
Proof. intros ts H. apply in_map_iff in H. destruct H as (x & H & _). discriminate. Qed.

Lemma map_ACT : forall l, map ACT l = map AC (map CT l).
Proof. intros. rewrite map_map. reflexivity. Qed.

Lemma mk_model_terms : forall l, mk_model (map ACT l) None = pmodel (dedup term_eqb [] l).
Proof. intros. rewrite map_ACT, mk_model_commons. unfold pmodel. f_equal. apply (dedup_CT l []). Qed.

Lemma model_terms_pmodel : forall ts, model_terms (pmodel ts) = map ACT ts.
Proof. intros. unfold model_terms, pmodel. cbn. rewrite app_nil_r, map_ACT. reflexivity. Qed.

Lemma add_terms_pmodel : forall ts l, add_terms (pmodel ts) (map ACT l) = Ok (pmodel (dedup term_eqb ts l)).
Proof.
  intros. rewrite map_ACT, <- (app_nil_r (map AC _)). change [] with (map AG []) at 1.
  rewrite add_terms_spec by apply not_CN_CT. unfold pmodel. cbn. rewrite dedup_CT. reflexivity.
Qed.

Lemma add_term_terms : forall m a, add_term m a = add_terms m [a].
Proof. intros. cbn. destruct (add_term m a); reflexivity. Qed.

Definition icross (ts us : list term) : list term :=
  map (fun p => mk_term (fst p ++ snd p)) (list_prod ts us).

Lemma interactions_terms : forall ts us, interactions (map CT ts) (map CT us) = Ok (map ACT (icross ts us)).
Proof. intros. rewrite interactions_spec. unfold icross. rewrite map_map. reflexivity. Qed.

Lemma goodt_icross : forall ts us, Forall goodt ts -> Forall goodt us -> Forall goodt (icross ts us).
Proof.
  intros ts us Ht Hu. unfold icross. rewrite Forall_forall in *. intros x H. apply in_map_iff in H.
  destruct H as ([a b] & <- & H). apply in_prod_iff in H. apply goodt_mk_term, goodt_app; [apply Ht | apply Hu]; tauto.
Qed.

Lemma single_numeric_good : forall t, goodt t -> single_numeric t = false.
Proof.
  intros [|c [|d t]] H; auto. cbn. inversion H; subst. apply good_not_numeric; auto.
Qed.

Lemma tmem_single : forall x t, tmem x [t] = term_eqb x t.
Proof. intros. cbn. apply orb_false_r. Qed.

Lemma tnd_single : forall t : term, tnd [t].
Proof. intros. cbn. auto. Qed.

Lemma plainv_pmodel_dedup : forall acc l, Forall goodt acc -> Forall goodt l -> tnd acc ->
  plainv (VM (pmodel (dedup term_eqb acc l))) (dedup term_eqb acc l).
Proof.
  intros. constructor. - apply Forall_dedup; auto. - apply (nd_dedup term_eqb goodt E_term); auto.
Qed.

Ltac tmem_simpl :=
  repeat first [ rewrite (mem_dedup term_eqb goodt E_term) by auto using Forall_dedup, goodt_icross
               | rewrite mem_app | rewrite tmem_single | rewrite mem_cons ];
  cbn [mem existsb]; rewrite ?orb_false_r.

(* ---- "+" ---- *)
Lemma v_add_plain : forall a b ts us, plainv a ts -> plainv b us ->
  exists v ws, v_add a b = Ok v /\ plainv v ws /\
               forall x, goodt x -> tmem x ws = tmem x ts || tmem x us.
Proof.
  intros a b ts us Ha Hb. destruct Ha as [t Ht | ts Ht Nt]; destruct Hb as [u Hu | us Hu Nu]; cbn [v_add].
  - destruct (term_eqb t u) eqn:A.
    + exists (VT t), [t]. repeat split; [constructor; auto|]. intros x Hx. rewrite !tmem_single.
      rewrite <- (eqb_trans_r term_eqb goodt E_term x t u); auto. rewrite orb_diag. reflexivity.
    + change [AC (CT t); AC (CT u)] with (map ACT [t; u]). rewrite mk_model_terms.
      eexists _, _. split; [reflexivity|]. split; [apply plainv_pmodel_dedup; cbn; auto|].
      intros x Hx. tmem_simpl. reflexivity.
  - change (mk_model [AC (CT t)] None) with (pmodel [t]). unfold model_add.
    rewrite model_terms_pmodel, add_terms_pmodel. cbn [bind].
    eexists _, _. split; [reflexivity|]. split; [apply plainv_pmodel_dedup; cbn; auto|].
    intros x Hx. tmem_simpl. reflexivity.
  - unfold model_add. change (AC (CT u)) with (ACT u). rewrite add_term_terms.
    change [ACT u] with (map ACT [u]). rewrite add_terms_pmodel. cbn [bind].
    eexists _, _. split; [reflexivity|]. split; [apply plainv_pmodel_dedup; cbn; auto|].
    intros x Hx. tmem_simpl. reflexivity.
  - unfold model_add. rewrite model_terms_pmodel, add_terms_pmodel. cbn [bind].
    eexists _, _. split; [reflexivity|]. split; [apply plainv_pmodel_dedup; cbn; auto|].
    intros x Hx. tmem_simpl. reflexivity.
Qed.

(* ---- "-" ---- *)
Lemma rm_all_CT : forall xs l, rm_all cterm_eqb (map CT xs) (map CT l) = map CT (rm_all term_eqb xs l).
Proof. intros. apply (rm_all_map term_eqb cterm_eqb CT CT_eqb). Qed.

Lemma anyterm_mem_pmodel : forall t us,
  existsb (anyterm_eqb (AC (CT t))) (model_terms (pmodel us)) = tmem t us.
Proof.
  intros. rewrite model_terms_pmodel. induction us; cbn; auto. rewrite IHus. reflexivity.
Qed.

Lemma v_sub_plain : forall a b ts us, plainv a ts -> plainv b us ->
  exists v ws, v_sub a b = Ok v /\ plainv v ws /\
               forall x, goodt x -> tmem x ws = tmem x ts && negb (tmem x us).
Proof.
  intros a b ts us Ha Hb. destruct Ha as [t Ht | ts Ht Nt]; destruct Hb as [u Hu | us Hu Nu]; cbn [v_sub].
  - destruct (term_eqb t u) eqn:A.
    + exists (VM (pmodel [])), []. repeat split; [constructor; cbn; auto|]. intros x Hx. rewrite !tmem_single.
      rewrite <- (eqb_trans_r term_eqb goodt E_term x t u); auto. cbn. destruct (term_eqb x t); auto.
    + exists (VT t), [t]. repeat split; [constructor; auto|]. intros x Hx. rewrite !tmem_single.
      destruct (term_eqb x t) eqn:B; auto. cbn.
      rewrite <- (eqb_trans_l term_eqb goodt E_term t x u), A; auto. apply (e_sym _ _ E_term); auto.
  - rewrite anyterm_mem_pmodel. destruct (tmem t us) eqn:A.
    + exists (VM (pmodel [])), []. repeat split; [constructor; cbn; auto|]. intros x Hx. rewrite !tmem_single.
      destruct (term_eqb x t) eqn:B; auto. cbn. rewrite (mem_eqb term_eqb goodt E_term x t us), A; auto.
    + exists (VT t), [t]. repeat split; [constructor; auto|]. intros x Hx. rewrite !tmem_single.
      destruct (term_eqb x t) eqn:B; auto. cbn. rewrite (mem_eqb term_eqb goodt E_term x t us), A; auto.
  - rewrite (model_sub_cterm _ _ (CT u)) by (left; split; eauto). cbn [bind].
    change (commons (pmodel ts)) with (map CT ts). change (rm cterm_eqb (CT u) (map CT ts)) with (rm_all cterm_eqb (map CT [u]) (map CT ts)).
    rewrite rm_all_CT. destruct (rm_all_props term_eqb goodt E_term [u] ts) as (F & N & M); auto.
    exists (VM (pmodel (rm_all term_eqb [u] ts))), (rm_all term_eqb [u] ts). repeat split; [constructor; auto|].
    intros x Hx. rewrite M, tmem_single; auto.
  - rewrite model_sub_model. cbn [bind]. change (commons (pmodel ts)) with (map CT ts).
    change (commons (pmodel us)) with (map CT us). rewrite rm_all_CT. cbn [pmodel groups rm_all fold_left resp].
    destruct (rm_all_props term_eqb goodt E_term us ts) as (F & N & M); auto.
    exists (VM (pmodel (rm_all term_eqb us ts))), (rm_all term_eqb us ts). repeat split; [constructor; auto|]. auto.
Qed.

(* ---- ":" ---- *)
Lemma icross_single_same : forall t u x, goodt t -> goodt u -> goodt x -> term_eqb t u = true ->
  tmem x (icross [t] [u]) = term_eqb x t.
Proof.
  intros t u x Ht Hu Hx A. cbn. rewrite orb_false_r. apply (eqb_trans_r term_eqb goodt E_term); auto using goodt_mk_term, goodt_app.
  apply (e_trans _ _ E_term _ (t ++ u)); auto using goodt_mk_term, goodt_app, mk_term_eq, term_eqb_app_idem.
Qed.

Lemma v_matmul_plain : forall a b ts us, plainv a ts -> plainv b us ->
  exists v ws, v_matmul a b = Ok v /\ plainv v ws /\
               forall x, goodt x -> tmem x ws = tmem x (icross ts us).
Proof.
  intros a b ts us Ha Hb. destruct Ha as [t Ht | ts Ht Nt]; destruct Hb as [u Hu | us Hu Nu]; cbn [v_matmul].
  - destruct (term_eqb t u) eqn:A.
    + exists (VT t), [t]. repeat split; [constructor; auto|]. intros x Hx.
      rewrite icross_single_same, tmem_single; auto.
    + rewrite single_numeric_good by auto. exists (VT (mk_term (t ++ u))), [mk_term (t ++ u)].
      repeat split. constructor; auto using goodt_mk_term, goodt_app.
  - change [CT t] with (map CT [t]). change (commons (pmodel us)) with (map CT us).
    rewrite interactions_terms. cbn [bind]. rewrite mk_model_terms.
    eexists _, _. split; [reflexivity|]. split; [apply plainv_pmodel_dedup; try (apply goodt_icross; auto); cbn; auto|].
    intros x Hx. tmem_simpl. reflexivity.
  - change [CT u] with (map CT [u]). change (commons (pmodel ts)) with (map CT ts).
    rewrite interactions_terms. cbn [bind]. rewrite mk_model_terms.
    eexists _, _. split; [reflexivity|]. split; [apply plainv_pmodel_dedup; try (apply goodt_icross; auto); cbn; auto|].
    intros x Hx. tmem_simpl. reflexivity.
  - change (commons (pmodel us)) with (map CT us). change (commons (pmodel ts)) with (map CT ts).
    rewrite interactions_terms. cbn [bind]. rewrite mk_model_terms.
    eexists _, _. split; [reflexivity|]. split; [apply plainv_pmodel_dedup; try (apply goodt_icross; auto); cbn; auto|].
    intros x Hx. tmem_simpl. reflexivity.
Qed.

(* ---- "*" ---- *)
Lemma cmem_CN_CT : forall l, cmem CN (map CT l) = false.
Proof. induction l; cbn; auto. Qed.

Lemma v_mul_plain : forall a b ts us, plainv a ts -> plainv b us ->
  exists v ws, v_mul a b = Ok v /\ plainv v ws /\
    forall x, goodt x -> tmem x ws = tmem x ts || tmem x us || tmem x (icross ts us).
Proof.
  intros a b ts us Ha Hb. destruct Ha as [t Ht | ts Ht Nt]; destruct Hb as [u Hu | us Hu Nu]; cbn [v_mul].
  - destruct (term_eqb t u) eqn:A.
    + exists (VT t), [t]. split; [reflexivity|]. split; [constructor; auto|]. intros x Hx.
      rewrite icross_single_same, !tmem_single; auto.
      rewrite <- (eqb_trans_r term_eqb goodt E_term x t u); auto. rewrite !orb_diag. reflexivity.
    + rewrite single_numeric_good by auto.
      change [AC (CT t); AC (CT u); AC (CT (mk_term (t ++ u)))] with (map ACT ([t] ++ [u] ++ icross [t] [u])).
      rewrite mk_model_terms. eexists _, _. split; [reflexivity|].
      assert (goodt (mk_term (t ++ u))) as G by auto using goodt_mk_term, goodt_app.
      assert (Forall goodt ([t] ++ [u] ++ icross [t] [u])) as F by (repeat constructor; auto).
      split; [apply plainv_pmodel_dedup; cbn; auto|].
      intros x Hx. rewrite (mem_dedup term_eqb goodt E_term), !mem_app; auto.
      cbn [mem existsb orb]. rewrite orb_assoc. reflexivity.
  - change [CT t] with (map CT [t]). change (commons (pmodel us)) with (map CT us).
    rewrite interactions_terms. cbn [bind]. rewrite mk_model_terms, model_terms_pmodel.
    change (AC (CT t) :: map AC (map CT us)) with (map AC (map CT (t :: us))). rewrite <- map_ACT, mk_model_terms.
    rewrite add_terms_pmodel. cbn [bind]. eexists _, _. split; [reflexivity|].
    assert (Forall goodt (icross [t] us)) by (apply goodt_icross; auto).
    split; [apply plainv_pmodel_dedup; auto using Forall_dedup; apply (nd_dedup term_eqb goodt E_term); cbn; auto|].
    intros x Hx. tmem_simpl. reflexivity.
  - rewrite single_numeric_good by auto.
    change [CT u] with (map CT [u]). change (commons (pmodel ts)) with (map CT ts).
    rewrite interactions_terms. cbn [bind]. rewrite mk_model_terms, model_terms_pmodel.
    rewrite <- map_app, <- map_ACT, mk_model_terms.
    rewrite add_terms_pmodel. cbn [bind]. eexists _, _. split; [reflexivity|].
    assert (Forall goodt (icross ts [u])) by (apply goodt_icross; auto).
    assert (Forall goodt (ts ++ [u])) by (apply Forall_app; auto).
    split; [apply plainv_pmodel_dedup; auto using Forall_dedup; apply (nd_dedup term_eqb goodt E_term); cbn; auto|].
    intros x Hx. tmem_simpl. reflexivity.
  - change (commons (pmodel us)) with (map CT us). change (commons (pmodel ts)) with (map CT ts).
    rewrite interactions_terms. cbn [bind]. rewrite mk_model_terms, model_terms_pmodel.
    rewrite <- map_app, <- map_ACT, mk_model_terms.
    rewrite add_terms_pmodel. cbn [bind]. eexists _, _. split; [reflexivity|].
    assert (Forall goodt (icross ts us)) by (apply goodt_icross; auto).
    assert (Forall goodt (ts ++ us)) by (apply Forall_app; auto).
    split; [apply plainv_pmodel_dedup; auto using Forall_dedup; apply (nd_dedup term_eqb goodt E_term); cbn; auto|].
    intros x Hx. tmem_simpl. reflexivity.
Qed.

(* ---- "/" ---- *)
Definition inest (ts us : list term) : list term := map (fun u => mk_term (List.concat ts ++ u)) us.

Lemma goodt_inest : forall ts us, Forall goodt ts -> Forall goodt us -> Forall goodt (inest ts us).
Proof.
  intros ts us Ht Hu. unfold inest. rewrite Forall_forall in *. intros x H. apply in_map_iff in H.
  destruct H as (u & <- & H). apply goodt_mk_term, goodt_app; auto. apply goodt_concat. apply Forall_forall; auto.
Qed.

Lemma common_components_pmodel : forall ts, common_components (pmodel ts) = List.concat ts.
Proof.
  intros. unfold common_components. cbn [commons pmodel].
  induction ts as [|t ts IH]; cbn [map flat_map List.concat]; auto. rewrite IH. reflexivity.
Qed.

Lemma concat_single : forall t : term, List.concat [t] = t.
Proof. intros. cbn. apply app_nil_r. Qed.

Lemma v_div_plain : forall a b ts us, plainv a ts -> plainv b us ->
  exists v ws, v_div a b = Ok v /\ plainv v ws /\
    forall x, goodt x -> tmem x ws = tmem x ts || tmem x (inest ts us).
Proof.
  intros a b ts us Ha Hb. destruct Ha as [t Ht | ts Ht Nt]; destruct Hb as [u Hu | us Hu Nu]; cbn [v_div].
  - destruct (term_eqb t u) eqn:A.
    + exists (VT t), [t]. split; [reflexivity|]. split; [constructor; auto|]. intros x Hx.
      unfold inest. rewrite concat_single. change (map _ [u]) with (icross [t] [u]).
      rewrite icross_single_same, !tmem_single; auto. rewrite orb_diag. reflexivity.
    + rewrite single_numeric_good by auto.
      change [AC (CT t); AC (CT (mk_term (t ++ u)))] with (map ACT ([t] ++ icross [t] [u])).
      rewrite mk_model_terms. eexists _, _. split; [reflexivity|].
      assert (goodt (mk_term (t ++ u))) as G by auto using goodt_mk_term, goodt_app.
      assert (Forall goodt ([t] ++ icross [t] [u])) as F by (repeat constructor; auto).
      split; [apply plainv_pmodel_dedup; cbn; auto|].
      intros x Hx. rewrite (mem_dedup term_eqb goodt E_term), !mem_app; auto.
      unfold inest. rewrite concat_single. reflexivity.
  - change [CT t] with (map CT [t]). change (commons (pmodel us)) with (map CT us).
    rewrite interactions_terms. cbn [bind]. rewrite mk_model_terms, model_terms_pmodel.
    change [AC (CT t)] with (map ACT [t]). rewrite mk_model_terms.
    rewrite add_terms_pmodel. cbn [bind]. eexists _, _. split; [reflexivity|].
    assert (Forall goodt (icross [t] us)) by (apply goodt_icross; auto).
    split; [apply plainv_pmodel_dedup; auto using Forall_dedup; apply (nd_dedup term_eqb goodt E_term); cbn; auto|].
    intros x Hx. tmem_simpl. unfold inest. rewrite concat_single. f_equal.
    unfold icross. cbn [list_prod]. rewrite app_nil_r, map_map. reflexivity.
  - rewrite common_components_pmodel. change (AC (CT ?x)) with (ACT x). rewrite add_term_terms.
    change [ACT (mk_term (List.concat ts ++ u))] with (map ACT (inest ts [u])).
    rewrite add_terms_pmodel. cbn [bind]. eexists _, _. split; [reflexivity|].
    assert (Forall goodt (inest ts [u])) by (apply goodt_inest; auto).
    split; [apply plainv_pmodel_dedup; auto|]. intros x Hx. tmem_simpl. reflexivity.
  - rewrite common_components_pmodel. change (commons (pmodel us)) with (map CT us).
    assert (flat_map (fun c => match c with CT t => [AC (CT (mk_term (List.concat ts ++ t)))] | _ => [] end) (map CT us)
            = map ACT (inest ts us)) as ->
      by (clear; induction us as [|u us IH]; cbn [map flat_map inest app]; auto; unfold inest in IH; rewrite IH; reflexivity).
    rewrite mk_model_terms, model_terms_pmodel, add_terms_pmodel. cbn [bind].
    eexists _, _. split; [reflexivity|].
    assert (Forall goodt (inest ts us)) by (apply goodt_inest; auto).
    split; [apply plainv_pmodel_dedup; auto using Forall_dedup|]. intros x Hx. tmem_simpl. reflexivity.
Qed.

(* ---- "**" ---- *)
Definition upow (f : list term -> term) (M : list term) (lo cnt : nat) : list term :=
  map f (flat_map (combinations M) (seq lo cnt)).

Definition pow_witness (M : list term) (x : term) (lo cnt : nat) : Prop :=
  exists c, Forall goodt c /\ tnd c /\ (forall y, In y c -> tmem y M = true) /\
            lo <= List.length c < lo + cnt /\ term_eqb x (List.concat c) = true.

Lemma pow_char : forall f M x lo cnt,
  (forall c, Forall goodt c -> goodt (f c) /\ term_eqb (f c) (List.concat c) = true) ->
  Forall goodt M -> tnd M -> goodt x ->
  (tmem x (upow f M lo cnt) = true <-> pow_witness M x lo cnt).
Proof.
  intros f M x lo cnt Hf HM NM Hx. unfold upow. rewrite mem_ex. split.
  - intros (y & Hy & A). apply in_map_iff in Hy. destruct Hy as (c & <- & Hc).
    apply in_flat_map in Hc. destruct Hc as (k & Hk & Hc). apply in_seq in Hk.
    destruct (comb_sub term_eqb M k c Hc) as (L & I & N).
    assert (Forall goodt c) as Gc by (rewrite Forall_forall in *; auto).
    exists c. repeat split; auto; try lia.
    + intros y Hy. apply (mem_in _ _ E_term); auto. rewrite Forall_forall in Gc; auto.
    + destruct (Hf c Gc). apply (e_trans _ _ E_term x (f c)); auto using goodt_concat.
  - intros (c & Gc & Nc & Sub & Len & A).
    destruct (comb_exists term_eqb goodt E_term M HM NM c Gc Nc Sub) as (c' & Hin & Gc' & Eq).
    exists (f c'). split.
    + apply in_map. apply in_flat_map. exists (List.length c). split; auto. apply in_seq. lia.
    + destruct (Hf c' Gc'). apply (e_trans _ _ E_term x (List.concat c)); auto using goodt_concat.
      apply (e_trans _ _ E_term _ (List.concat c')); auto using goodt_concat.
      * apply concat_equ; auto. apply equ_sym; auto.
      * apply (e_sym _ _ E_term); auto using goodt_concat.
Qed.

Lemma pow_witness_equ : forall M M' x lo cnt, tequ M M' -> pow_witness M x lo cnt -> pow_witness M' x lo cnt.
Proof.
  intros M M' x lo cnt Eq (c & Gc & Nc & Sub & Len & A). exists c. repeat split; auto; try lia.
  intros y Hy. rewrite <- Eq; auto. rewrite Forall_forall in Gc; auto.
Qed.

Lemma f_concat_ok : forall c, Forall goodt c -> goodt (List.concat c) /\ term_eqb (List.concat c) (List.concat c) = true.
Proof. intros. split; auto using goodt_concat. apply (e_refl _ _ E_term); auto using goodt_concat. Qed.

Lemma f_mkconcat_ok : forall c, Forall goodt c ->
  goodt (mk_term (List.concat c)) /\ term_eqb (mk_term (List.concat c)) (List.concat c) = true.
Proof. intros. split; auto using goodt_concat, goodt_mk_term, mk_term_eq. Qed.

Lemma power_upow : forall L n, power L n = upow (@List.concat comp) (nub fset_eqb L) 1 n.
Proof.
  intros. unfold power, upow. generalize (seq 1 n). induction l; cbn; auto.
  rewrite map_app, IHl. reflexivity.
Qed.

Lemma goodt_upow : forall f M lo cnt, (forall c, Forall goodt c -> goodt (f c)) -> Forall goodt M ->
  Forall goodt (upow f M lo cnt).
Proof.
  intros f M lo cnt Hf HM. unfold upow. rewrite Forall_forall in *. intros x H.
  apply in_map_iff in H. destruct H as (c & <- & H). apply in_flat_map in H. destruct H as (k & _ & H).
  apply Hf. apply Forall_forall. intros y Hy. apply HM. apply (comb_sub term_eqb M k c H); auto.
Qed.

(* the implementation adds the unions of 2..n terms to the model itself *)
Lemma pow_equ : forall ts L n x, Forall goodt ts -> tnd ts -> Forall goodt L -> tequ ts L -> goodt x -> 1 <= n ->
  tmem x ts || tmem x (upow (fun c => mk_term (List.concat c)) ts 2 (n - 1)) = tmem x (power L n).
Proof.
  intros ts L n x Ht Nt HL Eq Hx Hn. rewrite power_upow.
  assert (Forall goodt (nub fset_eqb L)) as HnL by (apply Forall_nub; auto).
  assert (tnd (nub fset_eqb L)) as NnL by apply nd_nub.
  assert (tequ ts (nub fset_eqb L)) as Eq'.
  { intros y Hy. rewrite Eq; auto. symmetry. apply (mem_nub term_eqb goodt E_term); auto. }
  apply eq_true_iff_eq. rewrite orb_true_iff.
  rewrite (pow_char _ ts x 2 (n - 1) f_mkconcat_ok), (pow_char _ (nub fset_eqb L) x 1 n f_concat_ok); auto.
  split.
  - intros [M | W].
    + apply mem_ex in M. destruct M as (t & Hin & A). rewrite Forall_forall in Ht.
      exists [t]. repeat split; auto; cbn [List.length]; try lia.
      * intros y [<-|[]]. rewrite <- Eq'; auto. apply (mem_in _ _ E_term); auto.
      * rewrite concat_single. auto.
    + apply (pow_witness_equ ts); auto. destruct W as (c & ? & ? & ? & ? & ?). exists c.
      split; [auto|]. split; [auto|]. split; [auto|]. split; [lia | auto].
  - intros (c & Gc & Nc & Sub & Len & A).
    destruct c as [|t [|u c]]; cbn [List.length] in Len; try lia.
    + left. rewrite concat_single in A. inversion Gc; subst.
      rewrite (mem_eqb term_eqb goodt E_term x t); auto. rewrite Eq'; auto. apply Sub. left; auto.
    + right. apply (pow_witness_equ (nub fset_eqb L)); [apply equ_sym; auto|].
      exists (t :: u :: c). split; [auto|]. split; [auto|]. split; [auto|]. split; [cbn [List.length]; lia | auto].
Qed.

Lemma upow_single : forall f (t : term) lo cnt, 2 <= lo -> upow f [t] lo cnt = [].
Proof.
  intros f t lo cnt. unfold upow. revert lo. induction cnt as [|cnt IH]; intros lo Hlo; cbn [seq flat_map]; auto.
  destruct lo as [|[|lo]]; try lia. cbn [combinations map app]. apply IH. lia.
Qed.

Lemma combinations_CT : forall ts k, combinations (map CT ts) k = map (map CT) (combinations ts k).
Proof.
  induction ts as [|t ts IH]; intros [|k]; cbn [map combinations]; auto.
  rewrite map_app, !IH, !map_map. reflexivity.
Qed.

Lemma mapM_comps_of_CT : forall c, mapM comps_of (map CT c) = Ok c.
Proof. induction c; cbn; auto. rewrite IHc. reflexivity. Qed.

Definition expo (z : Z) : value := VT [CVar (NLit (LInt z)) None].

Lemma v_pow_plain : forall a ts z, plainv a ts -> (2 <= z)%Z ->
  exists v ws, v_pow a (expo z) = Ok v /\ plainv v ws /\
    forall x, goodt x -> tmem x ws =
      tmem x ts || tmem x (upow (fun c => mk_term (List.concat c)) ts 2 (Z.to_nat z - 1)).
Proof.
  intros a ts z Ha Hz. assert ((1 <=? z)%Z = true) as Z1 by (apply Z.leb_le; lia).
  destruct Ha as [t Ht | ts Ht Nt]; unfold expo; cbn [v_pow pow_value]; rewrite Z1.
  - exists (VT t), [t]. split; [reflexivity|]. split; [constructor; auto|]. intros x Hx.
    rewrite upow_single by lia. cbn. rewrite !orb_false_r. reflexivity.
  - change (commons (pmodel ts)) with (map CT ts).
    set (combs := flat_map (fun i => combinations (map CT ts) i) (seq 2 (Z.to_nat z - 1))).
    assert (mapM (fun cs => do ts0 <- mapM comps_of cs; Ok (AC (CT (mk_term (List.concat ts0))))) combs
            = Ok (map ACT (upow (fun c => mk_term (List.concat c)) ts 2 (Z.to_nat z - 1)))) as ->.
    { unfold combs, upow. generalize (seq 2 (Z.to_nat z - 1)). induction l as [|k l IH]; cbn [flat_map map mapM]; auto.
      rewrite combinations_CT. generalize (combinations ts k). induction l0 as [|c l0 IH0]; cbn [map app mapM]; auto.
      rewrite mapM_comps_of_CT. cbn [bind]. cbn [app map] in IH0. rewrite IH0. reflexivity. }
    cbn [bind]. rewrite mk_model_terms, model_terms_pmodel, add_terms_pmodel. cbn [bind].
    eexists _, _. split; [reflexivity|].
    assert (Forall goodt (upow (fun c => mk_term (List.concat c)) ts 2 (Z.to_nat z - 1))).
    { apply goodt_upow; auto. intros. apply f_mkconcat_ok; auto. }
    split; [apply plainv_pmodel_dedup; auto using Forall_dedup|]. intros x Hx. tmem_simpl. reflexivity.
Qed.

(* ================================================================== *)
(** * 4. Expressions without intercept literals and without "|" *)

Definition Rp (v : value) (L : list fset) : Prop :=
  exists ts, plainv v ts /\ Forall goodt L /\ tequ ts L.

Lemma goodt_cross : forall L R, Forall goodt L -> Forall goodt R -> Forall goodt (cross L R).
Proof.
  intros L R HL HR. unfold cross. rewrite Forall_forall in *. intros x H. apply in_map_iff in H.
  destruct H as ([a b] & <- & H). apply in_prod_iff in H. apply goodt_app; [apply HL | apply HR]; tauto.
Qed.

Lemma cross_equ : forall ts us L R, Forall goodt ts -> Forall goodt us -> Forall goodt L -> Forall goodt R ->
  tequ ts L -> tequ us R -> tequ (icross ts us) (cross L R).
Proof.
  intros ts us L R Ht Hu HL HR E1 E2. unfold icross, cross.
  apply (equ_map2 term_eqb term_eqb goodt goodt term_eqb goodt
           (fun a b => mk_term (a ++ b)) (fun a b => a ++ b)); auto using E_term, goodt_mk_term, goodt_app.
  intros x x' y y' Hx Hx' Hy Hy' A B.
  apply (e_trans _ _ E_term _ (x ++ y)); auto using goodt_mk_term, goodt_app, mk_term_eq, term_eqb_app.
Qed.

Lemma goodt_nest : forall L R, Forall goodt L -> Forall goodt R -> Forall goodt (map (app (List.concat L)) R).
Proof.
  intros L R HL HR. rewrite Forall_forall in *. intros x H. apply in_map_iff in H.
  destruct H as (u & <- & H). apply goodt_app; auto. apply goodt_concat. apply Forall_forall; auto.
Qed.

Lemma inest_equ : forall ts us L R, Forall goodt ts -> Forall goodt us -> Forall goodt L -> Forall goodt R ->
  tequ ts L -> tequ us R -> tequ (inest ts us) (map (app (List.concat L)) R).
Proof.
  intros ts us L R Ht Hu HL HR E1 E2. unfold inest.
  apply (equ_map term_eqb goodt term_eqb goodt); auto using E_term.
  - intros. apply goodt_mk_term, goodt_app; auto using goodt_concat.
  - intros. apply goodt_app; auto using goodt_concat.
  - intros x y Hx Hy A. apply (e_trans _ _ E_term _ (List.concat ts ++ x)); auto using goodt_mk_term, goodt_app, goodt_concat, mk_term_eq.
    apply term_eqb_app; auto using goodt_concat, concat_equ.
Qed.

Lemma goodt_power : forall L n, Forall goodt L -> Forall goodt (power L n).
Proof.
  intros. rewrite power_upow. apply goodt_upow; auto using goodt_concat. apply Forall_nub; auto.
Qed.

Lemma exponent_resolve : forall e z, exponent e = Some z -> (2 <= z)%Z -> resolve e = Ok (expo z).
Proof.
  induction e; intros z H Hz; try discriminate; cbn [exponent resolve] in *; auto.
  - destruct (tkind op); try discriminate. auto.
  - destruct v; try discriminate. destruct lx; try discriminate. inversion H; subst.
    unfold lit_is. cbn [lit_eqb]. unfold z_pow10. cbn [Z.of_nat Z.pow].
    rewrite !Z.mul_1_r. destruct (Z.eqb_spec z 0); [lia|]. destruct (Z.eqb_spec z 1); [lia|]. reflexivity.
Qed.

Lemma atom_resolve : forall e c, atom e = Some c -> resolve e = Ok (VT [c]) /\ good c.
Proof.
  intros e c H. destruct e as [| | | | callee args | n level | t | v lx]; try discriminate; cbn [atom] in H.
  - cbn [resolve]. destruct (call_resolve (ECall callee args)) eqn:R; try discriminate. inversion H; subst.
    cbn [bind]. split; auto. apply (call_resolve_good _ _ R).
  - destruct level; try discriminate. inversion H; subst. cbn. auto.
  - inversion H; subst. cbn. auto.
  - destruct v; try discriminate. inversion H; subst. cbn. auto.
Qed.

Lemma Forall_app2 : forall {A} (P : A -> Prop) a b, Forall P a -> Forall P b -> Forall P (a ++ b).
Proof. intros. apply Forall_app; auto. Qed.

Lemma resolve_binary : forall l op r o, lookup_kind (tkind op) resolver_ops = Some o ->
  resolve (EBinary l op r) = do a <- resolve l; do b <- resolve r; apply_binop o a b.
Proof. intros l op r o H. cbn [resolve]. rewrite H. reflexivity. Qed.

(* ---- the operator laws, on well-formed operands ---- *)
Theorem add_law : forall a b L R, Rp a L -> Rp b R -> exists v, v_add a b = Ok v /\ Rp v (L ++ R).
Proof.
  intros a b L R (ts & Pa & GL & Ea) (us & Pb & GR & Eb).
  destruct (v_add_plain a b ts us Pa Pb) as (v & ws & -> & Pw & Mw).
  exists v. split; auto. exists ws. repeat split; auto using Forall_app2.
  intros x Hx. rewrite Mw, mem_app, Ea, Eb; auto.
Qed.

Theorem sub_law : forall a b L R, Rp a L -> Rp b R -> exists v, v_sub a b = Ok v /\ Rp v (diff fset_eqb L R).
Proof.
  intros a b L R (ts & Pa & GL & Ea) (us & Pb & GR & Eb).
  destruct (v_sub_plain a b ts us Pa Pb) as (v & ws & -> & Pw & Mw).
  exists v. split; auto. exists ws. repeat split; auto using Forall_diff.
  intros x Hx. change fset_eqb with term_eqb. rewrite Mw, (mem_diff term_eqb goodt E_term), Ea, Eb; auto.
Qed.

Theorem colon_law : forall a b L R, Rp a L -> Rp b R -> exists v, v_matmul a b = Ok v /\ Rp v (cross L R).
Proof.
  intros a b L R (ts & Pa & GL & Ea) (us & Pb & GR & Eb).
  destruct (v_matmul_plain a b ts us Pa Pb) as (v & ws & -> & Pw & Mw).
  destruct (plainv_good _ _ Pa), (plainv_good _ _ Pb).
  exists v. split; auto. exists ws. repeat split; auto using goodt_cross.
  intros x Hx. rewrite Mw, (cross_equ ts us L R); auto.
Qed.

Theorem star_law : forall a b L R, Rp a L -> Rp b R ->
  exists v, v_mul a b = Ok v /\ Rp v (L ++ R ++ cross L R).
Proof.
  intros a b L R (ts & Pa & GL & Ea) (us & Pb & GR & Eb).
  destruct (v_mul_plain a b ts us Pa Pb) as (v & ws & -> & Pw & Mw).
  destruct (plainv_good _ _ Pa), (plainv_good _ _ Pb).
  exists v. split; auto. exists ws. repeat split; auto using Forall_app2, goodt_cross.
  intros x Hx. rewrite !mem_app, Mw, Ea, Eb, (cross_equ ts us L R), orb_assoc; auto.
Qed.

Theorem slash_law : forall a b L R, Rp a L -> Rp b R ->
  exists v, v_div a b = Ok v /\ Rp v (L ++ map (app (List.concat L)) R).
Proof.
  intros a b L R (ts & Pa & GL & Ea) (us & Pb & GR & Eb).
  destruct (v_div_plain a b ts us Pa Pb) as (v & ws & -> & Pw & Mw).
  destruct (plainv_good _ _ Pa), (plainv_good _ _ Pb).
  exists v. split; auto. exists ws. repeat split; auto using Forall_app2, goodt_nest.
  intros x Hx. rewrite Mw, mem_app, Ea, (inest_equ ts us L R); auto.
Qed.

Theorem power_law : forall a L z, Rp a L -> (2 <= z)%Z ->
  exists v, v_pow a (expo z) = Ok v /\ Rp v (power L (Z.to_nat z)).
Proof.
  intros a L z (ts & Pa & GL & Ea) Hz.
  destruct (v_pow_plain a ts z Pa Hz) as (v & ws & -> & Pw & Mw).
  destruct (plainv_good _ _ Pa).
  exists v. split; auto. exists ws. repeat split; auto using goodt_power.
  intros x Hx. rewrite Mw, (pow_equ ts L); auto. lia.
Qed.

Theorem plain_refines : forall e, doc_plain e = true ->
  exists v L, resolve e = Ok v /\ factors e = Some L /\ Rp v L.
Proof.
  induction e; intros D; cbn [doc_plain] in D;
    try (match type of D with is_some (atom ?e) = true =>
           destruct (atom e) as [c|] eqn:At; [|discriminate D];
           destruct (atom_resolve _ _ At) as [Re Gc];
           exists (VT [c]), [[c]]; split; [exact Re|]; split; [cbn [factors]; rewrite At; reflexivity|];
           exists [[c]]; split; [constructor; repeat constructor; auto|];
           split; [repeat constructor; auto | apply equ_refl] end).
  - (* grouping *) cbn [resolve factors]. auto.
  - (* binary *)
    cbn [factors].
    destruct (tkind op) eqn:K; try discriminate;
      repeat (apply andb_true_iff in D; destruct D as [D ?D]);
      destruct (IHe1 D) as (a & L & E1 & FL & Ra); rewrite FL in *; clear IHe1;
      try (destruct (IHe2 D0) as (b & R & E2 & FR & Rb));
      try (destruct (IHe2 D1) as (b & R & E2 & FR & Rb)); try rewrite FR in *; clear IHe2.
    + rewrite (resolve_binary _ _ _ OpAdd), E1, E2 by (rewrite K; reflexivity). cbn [bind apply_binop lift2].
      destruct (add_law a b L R Ra Rb) as (v & -> & Rv). eauto.
    + rewrite (resolve_binary _ _ _ OpSub), E1, E2 by (rewrite K; reflexivity). cbn [bind apply_binop lift2].
      destruct (sub_law a b L R Ra Rb) as (v & -> & Rv). eauto.
    + rewrite (resolve_binary _ _ _ OpDiv), E1, E2 by (rewrite K; reflexivity). cbn [bind apply_binop lift2].
      destruct (slash_law a b L R Ra Rb) as (v & -> & Rv). eauto.
    + rewrite (resolve_binary _ _ _ OpMul), E1, E2 by (rewrite K; reflexivity). cbn [bind apply_binop lift2].
      destruct (star_law a b L R Ra Rb) as (v & -> & Rv). eauto.
    + rewrite (resolve_binary _ _ _ OpPow), E1 by (rewrite K; reflexivity).
      destruct (exponent e2) as [z|] eqn:Ex; [|discriminate]. apply Z.leb_le in D0.
      rewrite (exponent_resolve e2 z Ex D0). cbn [bind apply_binop].
      assert ((1 <=? z)%Z = true) as -> by (apply Z.leb_le; lia).
      destruct (power_law a L z Ra D0) as (v & -> & Rv). eauto.
    + rewrite (resolve_binary _ _ _ OpColon), E1, E2 by (rewrite K; reflexivity). cbn [bind apply_binop lift2].
      destruct (colon_law a b L R Ra Rb) as (v & -> & Rv). eauto.
  - (* unary *) cbn [resolve factors]. destruct (tkind op); try discriminate. auto.
Qed.

(* ================================================================== *)
(** * 5. Intercept bookkeeping: lists of common terms with markers *)

Notation cmemb := (mem cterm_eqb).
Notation gmemb := (mem gterm_eqb).

Definition emb (s : sterm) : cterm := match s with Icpt => CI | Fs f => CT f end.
Definition embg (g : gitem) : gterm := GT (emb (fst g)) (CT (snd g)).
Definition isI (s : sterm) : bool := match s with Icpt => true | _ => false end.

Lemma emb_eqb : forall a b, cterm_eqb (emb a) (emb b) = sterm_eqb a b.
Proof. intros [|a] [|b]; reflexivity. Qed.
Lemma emb_good : forall s, goods s -> goodc (emb s).
Proof. intros [|f]; auto. Qed.
Lemma embg_eqb : forall a b, gterm_eqb (embg a) (embg b) = gitem_eqb a b.
Proof. intros [a f] [b g]. unfold gterm_eqb, gitem_eqb, embg. cbn. rewrite emb_eqb. reflexivity. Qed.
Lemma embg_good : forall g, goodgi g -> goodg (embg g).
Proof. intros [s f] [H1 H2]. split; cbn; auto using emb_good. Qed.
Lemma emb_not_CN : forall s, cterm_eqb CN (emb s) = false.
Proof. intros [|f]; reflexivity. Qed.
Lemma emb_CI : forall s, cterm_eqb (emb s) CI = isI s.
Proof. intros [|f]; reflexivity. Qed.
Lemma emb_CI' : forall s, cterm_eqb CI (emb s) = isI s.
Proof. intros [|f]; reflexivity. Qed.
Lemma isI_eqb : forall s, sterm_eqb s Icpt = isI s.
Proof. intros [|f]; reflexivity. Qed.

Lemma cmemb_map_CT : forall s us, cmemb (emb s) (map CT us) = mem sterm_eqb s (map Fs us).
Proof.
  intros. induction us as [|u us IH]; cbn [map]; [reflexivity|]. rewrite !mem_cons, IH. f_equal.
  destruct s; reflexivity.
Qed.

Lemma mem_map_Fs : forall f us, mem sterm_eqb (Fs f) (map Fs us) = tmem f us.
Proof. intros. induction us as [|u us IH]; cbn [map]; [reflexivity|]. rewrite !mem_cons, IH. reflexivity. Qed.

Lemma mem_map_Fs_I : forall us, mem sterm_eqb Icpt (map Fs us) = false.
Proof. induction us; cbn; auto. Qed.

Lemma goods_map_Fs : forall L, Forall goodt L -> Forall goods (map Fs L).
Proof. induction 1; cbn; constructor; auto. Qed.

Lemma goodc_map_CT : forall L, Forall goodt L -> Forall goodc (map CT L).
Proof. induction 1; cbn; constructor; auto. Qed.

Lemma cnd_map_CT : forall ts, tnd ts -> cnd (map CT ts).
Proof.
  induction ts as [|t ts IH]; cbn; auto. intros [N1 N2]. split; auto.
  change (cmemb (CT t) (map CT ts) = false). rewrite (mem_map_emb term_eqb cterm_eqb CT CT_eqb). auto.
Qed.

(* membership of a specification term in a list of factor sets given up to set equality *)
Lemma equ_map_Fs : forall ts L s, tequ ts L -> goods s -> mem sterm_eqb s (map Fs ts) = mem sterm_eqb s (map Fs L).
Proof.
  intros ts L [|f] Eq Hs. - rewrite !mem_map_Fs_I. reflexivity. - rewrite !mem_map_Fs. apply Eq. auto.
Qed.

(* what "|" does to the common terms of its left operand *)
Definition norm (cs : list cterm) : list cterm :=
  if cmemb CN cs then rm cterm_eqb CN cs else if cmemb CI cs then cs else CI :: cs.

Lemma norm_mem : forall cs s, Forall goodc cs -> cnd cs -> goods s ->
  cmemb (emb s) (norm cs) = if cmemb CN cs then cmemb (emb s) cs else cmemb (emb s) cs || isI s.
Proof.
  intros cs s G N Hs. unfold norm. destruct (cmemb CN cs) eqn:A.
  - rewrite (mem_rm cterm_eqb goodc E_cterm) by (cbn; auto using emb_good). rewrite emb_not_CN. apply andb_true_r.
  - destruct (cmemb CI cs) eqn:B.
    + destruct s; cbn [emb isI]. * rewrite B. reflexivity. * rewrite orb_false_r. reflexivity.
    + rewrite mem_cons, emb_CI. apply orb_comm.
Qed.

Lemma norm_good : forall cs, Forall goodc cs -> Forall goodc (norm cs).
Proof.
  intros cs G. unfold norm. destruct (cmemb CN cs); [apply Forall_rm; auto|]. destruct (cmemb CI cs); auto.
  constructor; cbn; auto.
Qed.

Lemma norm_no_CN : forall cs, Forall goodc cs -> cnd cs -> cmemb CN (norm cs) = false.
Proof.
  intros cs G N. unfold norm. destruct (cmemb CN cs) eqn:A.
  - rewrite (mem_rm cterm_eqb goodc E_cterm) by (cbn; auto). cbn. apply andb_false_r.
  - destruct (cmemb CI cs); auto.
Qed.

(* ---- values on the effect side of "|" ---- *)
Definition eff_cs (v : value) : list cterm :=
  match v with VI => [CI] | VN => [CN] | VT t => [CT t] | VM m => commons m | _ => [] end.

Inductive effv : value -> Prop :=
| EV_I : effv VI
| EV_N : effv VN
| EV_T t : goodt t -> effv (VT t)
| EV_M cs : Forall goodc cs -> cnd cs -> cmemb CI cs && cmemb CN cs = false -> effv (VM (Mod None cs [])).

Definition notlit (v : value) : Prop := match v with VI | VN => False | _ => True end.

Lemma plain_eff : forall v ts, plainv v ts -> effv v /\ eff_cs v = map CT ts /\ notlit v.
Proof.
  intros v ts []; repeat split; auto; try (constructor; auto).
  - apply goodc_map_CT; auto. - apply cnd_map_CT; auto. - rewrite cmem_CN_CT. apply andb_false_r.
Qed.

Lemma effv_good : forall v, effv v -> Forall goodc (eff_cs v) /\ cnd (eff_cs v) /\
  cmemb CI (eff_cs v) && cmemb CN (eff_cs v) = false.
Proof. intros v []; cbn; repeat split; auto; constructor; cbn; auto. Qed.

Lemma cmemb_CI_CT : forall l, cmemb CI (map CT l) = false.
Proof. induction l; cbn; auto. Qed.

Ltac cmem_simpl :=
  repeat first [ rewrite (mem_dedup cterm_eqb goodc E_cterm) by auto using Forall_dedup, goodc_map_CT
               | rewrite mem_app | rewrite mem_cons ];
  cbn [mem existsb]; rewrite ?orb_false_r.

(* "+ plain" on the effect side *)
Lemma v_add_eff : forall a b us, effv a -> plainv b us ->
  exists v, v_add a b = Ok v /\ effv v /\ notlit v /\
    forall y, goodc y -> cmemb y (eff_cs v) = cmemb y (eff_cs a) || cmemb y (map CT us).
Proof.
  intros a b us Ha Pb. destruct Ha as [| |t Ht|cs G N X].
  - (* 1 + *) assert (Forall goodt us /\ tnd us) as [Gu Nu] by (apply (plainv_good b); auto).
    assert (effv (VM (Mod None (dedup cterm_eqb [CI] (map CT us)) []))) as Ev.
    { constructor. - apply Forall_dedup; auto using goodc_map_CT. constructor; cbn; auto.
      - apply (nd_dedup cterm_eqb goodc E_cterm); auto using goodc_map_CT; cbn; auto. constructor; cbn; auto.
      - rewrite (mem_dedup cterm_eqb goodc E_cterm _ _ CN); cbn; auto using goodc_map_CT.
        + change (existsb (cterm_eqb CN) (map CT us)) with (cmem CN (map CT us)). rewrite cmem_CN_CT. apply andb_false_r.
        + constructor; cbn; auto. }
    exists (VM (Mod None (dedup cterm_eqb [CI] (map CT us)) [])). split.
    + destruct Pb as [u Hu | us Hu' Nu']; cbn [v_add].
      * reflexivity.
      * change (mk_model [AC CI] None) with (Mod None [CI] []). unfold model_add.
        rewrite add_terms_model by apply not_CN_CT. reflexivity.
    + repeat split; auto. intros y Hy. cbn [eff_cs commons]. rewrite (mem_dedup cterm_eqb goodc E_cterm); auto using goodc_map_CT.
      constructor; cbn; auto.
  - (* 0 + *) assert (Forall goodt us /\ tnd us) as [Gu Nu] by (apply (plainv_good b); auto).
    assert (effv (VM (Mod None (dedup cterm_eqb [CN] (map CT us)) []))) as Ev.
    { constructor. - apply Forall_dedup; auto using goodc_map_CT. constructor; cbn; auto.
      - apply (nd_dedup cterm_eqb goodc E_cterm); auto using goodc_map_CT; cbn; auto. constructor; cbn; auto.
      - rewrite (mem_dedup cterm_eqb goodc E_cterm _ _ CI); cbn; auto using goodc_map_CT.
        + change (existsb (cterm_eqb CI) (map CT us)) with (cmemb CI (map CT us)). rewrite cmemb_CI_CT. reflexivity.
        + constructor; cbn; auto. }
    exists (VM (Mod None (dedup cterm_eqb [CN] (map CT us)) [])). split.
    + destruct Pb as [u Hu | us Hu' Nu']; cbn [v_add].
      * reflexivity.
      * change (mk_model [AC CN] None) with (Mod None [CN] []). unfold model_add.
        rewrite add_terms_model by apply not_CN_CT. reflexivity.
    + repeat split; auto. intros y Hy. cbn [eff_cs commons]. rewrite (mem_dedup cterm_eqb goodc E_cterm); auto using goodc_map_CT.
      constructor; cbn; auto.
  - (* term + *)
    destruct (v_add_plain (VT t) b [t] us (PV_T t Ht) Pb) as (v & ws & -> & Pw & Mw).
    destruct (plain_eff v ws Pw) as (Ev & Cv & Nv). exists v. repeat split; auto.
    intros [| |y] Hy; rewrite Cv; cbn [eff_cs].
    + rewrite !cmemb_CI_CT. reflexivity.
    + change (cmemb CN) with (cmem CN). rewrite !cmem_CN_CT. reflexivity.
    + change [CT t] with (map CT [t]). rewrite !(mem_map_emb term_eqb cterm_eqb CT CT_eqb). apply Mw. auto.
  - (* model + *) assert (Forall goodt us /\ tnd us) as [Gu Nu] by (apply (plainv_good b); auto).
    assert (effv (VM (Mod None (dedup cterm_eqb cs (map CT us)) []))) as Ev.
    { constructor. - apply Forall_dedup; auto using goodc_map_CT.
      - apply (nd_dedup cterm_eqb goodc E_cterm); auto using goodc_map_CT.
      - rewrite !(mem_dedup cterm_eqb goodc E_cterm); cbn; auto using goodc_map_CT.
        change (mem cterm_eqb CN (map CT us)) with (cmem CN (map CT us)).
        rewrite cmem_CN_CT, cmemb_CI_CT, !orb_false_r. auto. }
    exists (VM (Mod None (dedup cterm_eqb cs (map CT us)) [])). split.
    + destruct Pb as [u Hu | us Hu' Nu']; cbn [v_add model_add].
      * rewrite add_term_terms. change [AC (CT u)] with (map AC [CT u] ++ map AG []).
        rewrite add_terms_spec by (intros [H|[]]; discriminate). reflexivity.
      * rewrite add_terms_model by apply not_CN_CT. reflexivity.
    + repeat split; auto. intros y Hy. cbn [eff_cs commons]. rewrite (mem_dedup cterm_eqb goodc E_cterm); auto using goodc_map_CT.
Qed.

(* "- plain" on the effect side, when the running value is not a bare literal *)
Lemma v_sub_eff : forall a b us, effv a -> notlit a -> plainv b us ->
  exists v, v_sub a b = Ok v /\ effv v /\ notlit v /\
    forall y, goodc y -> cmemb y (eff_cs v) = cmemb y (eff_cs a) && negb (cmemb y (map CT us)).
Proof.
  intros a b us Ha Na Pb. destruct Ha as [| |t Ht|cs G N X]; try contradiction.
  - destruct (v_sub_plain (VT t) b [t] us (PV_T t Ht) Pb) as (v & ws & -> & Pw & Mw).
    destruct (plain_eff v ws Pw) as (Ev & Cv & Nv). exists v. repeat split; auto.
    intros [| |y] Hy; rewrite Cv; cbn [eff_cs].
    + rewrite !cmemb_CI_CT. reflexivity.
    + change (cmemb CN) with (cmem CN). rewrite !cmem_CN_CT. reflexivity.
    + change [CT t] with (map CT [t]). rewrite !(mem_map_emb term_eqb cterm_eqb CT CT_eqb). apply Mw. auto.
  - assert (Forall goodt us /\ tnd us) as [Gu Nu] by (apply (plainv_good b); auto).
    destruct (rm_all_props cterm_eqb goodc E_cterm (map CT us) cs) as (F & N' & M); auto using goodc_map_CT.
    exists (VM (Mod None (rm_all cterm_eqb (map CT us) cs) [])). split; [|split; [|split]].
    + destruct Pb as [u Hu | us Hu' Nu']; cbn [v_sub].
      * rewrite (model_sub_cterm _ _ (CT u)) by (left; split; eauto). reflexivity.
      * rewrite model_sub_model. reflexivity.
    + constructor; auto. rewrite !M; cbn; auto.
      destruct (cmemb CI cs), (cmemb CN cs); cbn in *; auto; try discriminate. rewrite andb_false_r. auto.
    + exact I.
    + intros y Hy. cbn [eff_cs commons]. auto.
Qed.

(* ---- intercept literals ---- *)
Lemma icpt_resolve : forall e b, icpt e = Some b -> resolve e = Ok (if b then VI else VN).
Proof.
  induction e; intros b H; try discriminate; cbn [icpt resolve] in *; auto.
  - destruct (tkind op); try discriminate.
    + auto.
    + destruct (icpt e) as [[|]|]; try discriminate. inversion H; subst. rewrite (IHe true); auto.
  - destruct v as [z| | | |]; try discriminate. destruct z as [|[p|p|]|]; try discriminate;
      destruct lx; try discriminate; inversion H; subst; reflexivity.
Qed.

Lemma doc_plain_not_icpt : forall e, doc_plain e = true -> icpt e = None.
Proof.
  induction e; intros D; cbn [doc_plain icpt] in *; auto.
  - destruct (tkind op); try discriminate. auto.
  - destruct v; try discriminate; auto.
Qed.

(* ---- the effect side of "|" as a whole ---- *)
Definition Reff (v : value) (C : list sterm) : Prop :=
  effv v /\ Forall goods C /\
  forall s, goods s -> cmemb (emb s) (norm (eff_cs v)) = mem sterm_eqb s C.

Definition eff_first := item plain true (Some ([Icpt], [])).

Lemma effv_norm_mem : forall v s, effv v -> goods s ->
  cmemb (emb s) (norm (eff_cs v)) =
  if cmemb CN (eff_cs v) then cmemb (emb s) (eff_cs v) else cmemb (emb s) (eff_cs v) || isI s.
Proof. intros v s Ev Hs. destruct (effv_good v Ev) as (G & N & _). apply norm_mem; auto. Qed.

Lemma eff_first_refines : forall e, is_some (icpt e) || doc_plain e = true ->
  exists v C G, resolve e = Ok v /\ eff_first e = Some (C, G) /\ Reff v C /\ (icpt e = None -> notlit v).
Proof.
  intros e D. unfold eff_first, item. destruct (icpt e) as [[|]|] eqn:Ic.
  - rewrite (icpt_resolve e true Ic). eexists _, _, _. split; [reflexivity|]. split; [reflexivity|].
    split; [|discriminate]. split; [constructor|]. split; [repeat constructor|]. intros [|f] Hs; reflexivity.
  - rewrite (icpt_resolve e false Ic). eexists _, _, _. split; [reflexivity|]. split; [reflexivity|].
    split; [|discriminate]. split; [constructor|]. split; [repeat constructor|]. intros [|f] Hs; reflexivity.
  - cbn in D. destruct (plain_refines e D) as (v & L & Re & Fe & ts & Pv & GL & Eq).
    unfold plain. rewrite Fe. cbn [option_map]; unfold cg_union, cg_diff; cbn [fst snd].
    destruct (plain_eff v ts Pv) as (Ev & Cv & Nv).
    exists v. eexists _, _. split; [exact Re|]. split; [reflexivity|]. split; [|auto].
    split; auto. split. { constructor; cbn; auto. apply goods_map_Fs; auto. }
    intros s Hs. rewrite effv_norm_mem, Cv by auto. change (cmemb CN) with (cmem CN). rewrite cmem_CN_CT.
    cbn [app]. rewrite cmemb_map_CT, mem_cons, isI_eqb, orb_comm. f_equal. apply equ_map_Fs; auto.
Qed.

Lemma goods_diff : forall C C', Forall goods C -> Forall goods (diff sterm_eqb C C').
Proof. intros. apply Forall_diff; auto. Qed.

Theorem effect_refines : forall e, doc_effect e = true ->
  exists v C G, resolve e = Ok v /\ run plain eff_first e = Some (C, G) /\ Reff v C /\ (icpt e = None -> notlit v).
Proof.
  induction e; intros D; try (apply eff_first_refines; exact D).
  cbn [doc_effect] in D. cbn [run]. destruct (tkind op) eqn:K;
    try (apply eff_first_refines; rewrite D; reflexivity).
  - (* + *) apply andb_true_iff in D. destruct D as [D1 D2].
    rewrite (resolve_binary _ _ _ OpAdd) by (rewrite K; reflexivity).
    destruct (IHe1 D1) as (a & C & G & -> & -> & (Ea & GC & Ma) & _).
    destruct (plain_refines e2 D2) as (b & L & -> & Fe & us & Pb & GL & Eq).
    cbn [bind apply_binop]. unfold item. rewrite (doc_plain_not_icpt e2 D2). unfold plain. rewrite Fe. cbn [option_map]; unfold cg_union, cg_diff; cbn [fst snd].
    destruct (v_add_eff a b us Ea Pb) as (v & -> & Ev & Nv & Mv).
    exists v. eexists _, _. split; [reflexivity|]. split; [reflexivity|]. split; [|auto].
    split; auto. split. { apply Forall_app2; auto. apply goods_map_Fs; auto. }
    intros s Hs. rewrite effv_norm_mem by auto. rewrite !Mv by (auto using emb_good; cbn; auto).
    change (cmemb CN (map CT us)) with (cmem CN (map CT us)). rewrite cmem_CN_CT, orb_false_r.
    rewrite mem_app, <- Ma, effv_norm_mem by auto. rewrite cmemb_map_CT, (equ_map_Fs us L) by auto.
    destruct (cmemb CN (eff_cs a)); auto. rewrite <- !orb_assoc. f_equal. apply orb_comm.
  - (* - *) apply andb_true_iff in D. destruct D as [D D3]. apply andb_true_iff in D. destruct D as [D1 D2].
    rewrite (resolve_binary _ _ _ OpSub) by (rewrite K; reflexivity).
    destruct (IHe1 D1) as (a & C & G & -> & -> & (Ea & GC & Ma) & Na).
    destruct (icpt e1) eqn:Ic; [discriminate|]. specialize (Na eq_refl).
    destruct (plain_refines e2 D2) as (b & L & -> & Fe & us & Pb & GL & Eq).
    cbn [bind apply_binop]. unfold item. rewrite (doc_plain_not_icpt e2 D2). unfold plain. rewrite Fe. cbn [option_map]; unfold cg_union, cg_diff; cbn [fst snd].
    destruct (v_sub_eff a b us Ea Na Pb) as (v & -> & Ev & Nv & Mv).
    exists v. eexists _, _. split; [reflexivity|]. split; [reflexivity|]. split; [|auto].
    split; auto. split. { apply goods_diff; auto. }
    intros s Hs. rewrite effv_norm_mem by auto. rewrite !Mv by (auto using emb_good; cbn; auto).
    change (cmemb CN (map CT us)) with (cmem CN (map CT us)). rewrite cmem_CN_CT. cbn [negb]. rewrite andb_true_r.
    rewrite (mem_diff sterm_eqb goods E_sterm) by auto using goods_map_Fs.
    rewrite <- Ma, effv_norm_mem by auto. rewrite cmemb_map_CT, (equ_map_Fs us L) by auto.
    destruct (cmemb CN (eff_cs a)); auto.
    destruct s as [|f]; cbn [isI]; rewrite ?orb_false_r; auto.
    rewrite mem_map_Fs_I. cbn. rewrite !orb_true_r. reflexivity.
Qed.

(* ================================================================== *)
(** * 6. "|" : group-specific terms *)

Definition mkGT (p : cterm * cterm) : gterm := GT (fst p) (snd p).
Definition gprod (cs ps : list cterm) : list gterm := map mkGT (list_prod cs ps).
Definition wfg (g : gterm) : Prop :=
  match gexpr g, gfactor g with CI, CT _ | CT _, CT _ => True | _, _ => False end.

Inductive groupv : value -> list gterm -> Prop :=
| GV_G g : goodg g -> wfg g -> groupv (VG g) [g]
| GV_M gl : Forall goodg gl -> Forall wfg gl -> gnd gl -> groupv (VM (Mod None [] gl)) gl.

Lemma gprod_cons : forall c cs ps, gprod (c :: cs) ps = map (GT c) ps ++ gprod cs ps.
Proof. intros. unfold gprod. cbn [list_prod]. rewrite map_app, map_map. reflexivity. Qed.

Lemma gprod_mem : forall a b cs ps, gmemb (GT a b) (gprod cs ps) = cmemb a cs && cmemb b ps.
Proof.
  intros. unfold gprod, mem. rewrite <- (mem_prod cterm_eqb cterm_eqb a b cs ps).
  generalize (list_prod cs ps). induction l; cbn; auto. rewrite IHl. reflexivity.
Qed.

Lemma gprod_good : forall cs us, Forall goodc cs -> Forall goodt us -> cmemb CN cs = false ->
  Forall goodg (gprod cs (map CT us)) /\ Forall wfg (gprod cs (map CT us)).
Proof.
  intros cs us G Gu X. unfold gprod. split; apply Forall_forall; intros g H; apply in_map_iff in H;
    destruct H as ([c p] & <- & H); apply in_prod_iff in H; destruct H as [H1 H2];
    apply in_map_iff in H2; destruct H2 as (u & <- & H2); rewrite Forall_forall in *.
  - split; cbn; auto.
  - unfold wfg, mkGT. cbn. destruct c; auto.
    assert (cmemb CN cs = true); [|congruence]. apply mem_ex. exists CN. auto.
Qed.

Lemma groupv_dedup : forall gl, Forall goodg gl -> Forall wfg gl ->
  groupv (VM (Mod None [] (dedup gterm_eqb [] gl))) (dedup gterm_eqb [] gl).
Proof.
  intros. constructor. - apply Forall_dedup; auto. - apply Forall_dedup; auto.
  - apply (nd_dedup gterm_eqb goodg E_gterm); cbn; auto.
Qed.

Lemma mk_model_gprod : forall (l : list (cterm * cterm)),
  mk_model (map (fun p => AG (GT (fst p) (snd p))) l) None = Mod None [] (dedup gterm_eqb [] (map mkGT l)).
Proof.
  intros. rewrite <- mk_model_groups. f_equal. rewrite map_map. reflexivity.
Qed.

(* the general branch of Model.__or__ *)
Lemma or_general : forall cs b us, plainv b us -> Forall goodc cs -> cmemb CN cs = false ->
  exists v gl,
    match b with
    | VT f => Ok (VM (mk_model (map (fun p => AG (GT (fst p) (snd p))) (list_prod cs [CT f])) None))
    | VM o => Ok (VM (mk_model (map (fun p => AG (GT (fst p) (snd p))) (list_prod cs (commons o))) None))
    | _ => Err EType
    end = Ok v /\ groupv v gl /\ forall g, goodg g -> gmemb g gl = gmemb g (gprod cs (map CT us)).
Proof.
  intros cs b us Pb G X. destruct (plainv_good b us Pb) as [Gu Nu].
  destruct (gprod_good cs us G Gu X) as [G1 G2].
  exists (VM (Mod None [] (dedup gterm_eqb [] (gprod cs (map CT us))))), (dedup gterm_eqb [] (gprod cs (map CT us))).
  split; [|split].
  - destruct Pb; rewrite mk_model_gprod; reflexivity.
  - apply groupv_dedup; auto.
  - intros g Hg. rewrite (mem_dedup gterm_eqb goodg E_gterm); auto.
Qed.

Lemma or_cterm_spec : forall c b us, plainv b us -> goodc c -> c <> CN ->
  exists v gl, or_cterm c b = Ok v /\ groupv v gl /\
    forall g, goodg g -> gmemb g gl = gmemb g (gprod (norm [c]) (map CT us)).
Proof.
  intros c b us Pb Gc Nc. destruct (plainv_good b us Pb) as [Gu Nu]. destruct c as [| |t]; [| congruence |].
  - change (norm [CI]) with [CI].
    destruct (gprod_good [CI] us) as [G1 G2]; [repeat constructor | auto | reflexivity |].
    destruct Pb as [f Hf | us Hu' Nu']; cbn [or_cterm].
    + exists (VG (GT CI (CT f))), [GT CI (CT f)]. split; [reflexivity|]. split; [|reflexivity].
      constructor; cbn; auto. split; cbn; auto.
    + exists (VM (Mod None [] (dedup gterm_eqb [] (gprod [CI] (map CT us))))), (dedup gterm_eqb [] (gprod [CI] (map CT us))).
      split; [|split].
      * rewrite gprod_cons. change (gprod [] (map CT us)) with (@nil gterm). rewrite app_nil_r.
        rewrite <- mk_model_groups. cbn [commons pmodel]. rewrite !map_map. reflexivity.
      * apply groupv_dedup; auto.
      * intros g Hg. rewrite (mem_dedup gterm_eqb goodg E_gterm); auto.
  - change (norm [CT t]) with [CI; CT t].
    destruct (gprod_good [CI; CT t] us) as [G1 G2]; [repeat constructor; auto | auto | reflexivity |].
    exists (VM (Mod None [] (dedup gterm_eqb [] (gprod [CI; CT t] (map CT us))))), (dedup gterm_eqb [] (gprod [CI; CT t] (map CT us))).
    split; [|split].
    + destruct Pb as [f Hf | us Hu' Nu']; cbn [or_cterm].
      * reflexivity.
      * rewrite !gprod_cons. change (gprod [] (map CT us)) with (@nil gterm). rewrite app_nil_r.
        rewrite <- mk_model_groups. cbn [commons pmodel]. rewrite map_app, !map_map. reflexivity.
    + apply groupv_dedup; auto.
    + intros g Hg. rewrite (mem_dedup gterm_eqb goodg E_gterm); auto.
Qed.

Lemma v_or_spec : forall a b us, effv a -> plainv b us -> norm (eff_cs a) <> [] ->
  exists v gl, v_or a b = Ok v /\ groupv v gl /\
    forall g, goodg g -> gmemb g gl = gmemb g (gprod (norm (eff_cs a)) (map CT us)).
Proof.
  intros a b us Ha Pb NE. destruct Ha as [| |t Ht|cs G N X]; cbn [v_or eff_cs] in *.
  - apply or_cterm_spec; cbn; auto. discriminate.
  - exfalso. apply NE. reflexivity.
  - apply or_cterm_spec; cbn; auto. discriminate.
  - cbn [commons]. destruct cs as [|c [|c2 rest]].
    + change (norm []) with [CI]. apply (or_general [CI] b us); auto.
    + inversion G; subst. apply or_cterm_spec; auto. intros ->. apply NE. reflexivity.
    + set (cs := c :: c2 :: rest) in *. unfold cmem. fold (cmemb CI cs) (cmemb CN cs).
      assert ((if cmemb CI cs && cmemb CN cs then remove_first cterm_eqb CN (remove_first cterm_eqb CI cs)
               else if cmemb CN cs then remove_first cterm_eqb CN cs
               else if negb (cmemb CI cs) then CI :: cs else cs) = norm cs) as ->.
      { unfold norm, rm. destruct (cmemb CI cs), (cmemb CN cs); cbn in *; auto. discriminate. }
      apply or_general; auto using norm_good, norm_no_CN.
Qed.

(* ================================================================== *)
(** * 7. The right-hand side: additive items, left to right *)

(* what an item contributes *)
Inductive itemv : value -> list cterm -> list gterm -> Prop :=
| IV_plain v ts : plainv v ts -> itemv v (map CT ts) []
| IV_group v gl : groupv v gl -> itemv v [] gl.

Lemma itemv_good : forall b ics igs, itemv b ics igs ->
  Forall goodc ics /\ ~ In CN ics /\ Forall goodg igs /\ Forall wfg igs.
Proof.
  intros b ics igs [v ts Pv | v gl Gv].
  - destruct (plainv_good v ts Pv). repeat split; auto using goodc_map_CT, not_CN_CT.
  - destruct Gv; repeat split; auto.
Qed.

(* the running value *)
Inductive topv : value -> list cterm -> list gterm -> Prop :=
| TV_I : topv VI [CI] []
| TV_M cs gs : Forall goodc cs -> cnd cs -> cmemb CN cs = false ->
               Forall goodg gs -> Forall wfg gs -> gnd gs -> topv (VM (Mod None cs gs)) cs gs.

Lemma topv_good : forall a cs gs, topv a cs gs ->
  Forall goodc cs /\ cnd cs /\ cmemb CN cs = false /\ Forall goodg gs /\ Forall wfg gs /\ gnd gs.
Proof. intros a cs gs []; repeat split; auto; repeat constructor; cbn; auto. Qed.

Lemma mem_CN_notin : forall l, ~ In CN l -> Forall goodc l -> cmemb CN l = false.
Proof.
  intros l H G. destruct (cmemb CN l) eqn:A; auto. apply mem_ex in A. destruct A as ([| |t] & Hy & B); try discriminate.
  contradiction.
Qed.

Lemma top_add_item : forall a cs gs b ics igs, topv a cs gs -> itemv b ics igs ->
  v_add a b = Ok (VM (Mod None (dedup cterm_eqb cs ics) (dedup gterm_eqb gs igs))) /\
  topv (VM (Mod None (dedup cterm_eqb cs ics) (dedup gterm_eqb gs igs)))
       (dedup cterm_eqb cs ics) (dedup gterm_eqb gs igs).
Proof.
  intros a cs gs b ics igs Ta Ib.
  destruct (topv_good a cs gs Ta) as (G1 & N1 & X1 & G2 & W2 & N2).
  destruct (itemv_good b ics igs Ib) as (G3 & X3 & G4 & W4). split.
  - destruct Ta as [|cs gs _ _ _ _ _ _]; destruct Ib as [v ts0 [t Ht | ts Ht Nt] | v gl0 [g Hg Wg | gl Hg Wg Ng]];
      cbn [v_add model_add].
    + reflexivity.
    + change (mk_model [AC CI] None) with (Mod None [CI] []). rewrite add_terms_model by apply not_CN_CT. reflexivity.
    + reflexivity.
    + change (mk_model [AC CI] None) with (Mod None [CI] []). rewrite add_terms_model by (cbn; tauto). reflexivity.
    + rewrite add_term_terms. change [AC (CT t)] with (map AC [CT t] ++ map AG []).
      rewrite add_terms_spec by (intros [H|[]]; discriminate). reflexivity.
    + rewrite add_terms_model by apply not_CN_CT. reflexivity.
    + rewrite add_term_terms. change [AG g] with (map AC [] ++ map AG [g]).
      rewrite add_terms_spec by (cbn; tauto). reflexivity.
    + rewrite add_terms_model by (cbn; tauto). reflexivity.
  - constructor; auto using Forall_dedup.
    + apply (nd_dedup cterm_eqb goodc E_cterm); auto.
    + rewrite (mem_dedup cterm_eqb goodc E_cterm); cbn; auto. rewrite X1, (mem_CN_notin ics); auto.
    + apply (nd_dedup gterm_eqb goodg E_gterm); auto.
Qed.

Lemma top_sub_item : forall cs gs b ics igs, topv (VM (Mod None cs gs)) cs gs -> itemv b ics igs ->
  v_sub (VM (Mod None cs gs)) b = Ok (VM (Mod None (rm_all cterm_eqb ics cs) (rm_all gterm_eqb igs gs))) /\
  topv (VM (Mod None (rm_all cterm_eqb ics cs) (rm_all gterm_eqb igs gs)))
       (rm_all cterm_eqb ics cs) (rm_all gterm_eqb igs gs).
Proof.
  intros cs gs b ics igs Ta Ib.
  destruct (topv_good _ cs gs Ta) as (G1 & N1 & X1 & G2 & W2 & N2).
  destruct (itemv_good b ics igs Ib) as (G3 & X3 & G4 & W4). split.
  - destruct Ib as [v ts0 [t Ht | ts Ht Nt] | v gl0 [g Hg Wg | gl Hg Wg Ng]]; cbn [v_sub].
    + rewrite (model_sub_cterm _ _ (CT t)) by (left; split; eauto). reflexivity.
    + rewrite model_sub_model. reflexivity.
    + rewrite model_sub_gterm. reflexivity.
    + rewrite model_sub_model. reflexivity.
  - destruct (rm_all_props cterm_eqb goodc E_cterm ics cs) as (F & N & M); auto.
    destruct (rm_all_props gterm_eqb goodg E_gterm igs gs) as (F' & N' & M'); auto.
    constructor; auto using Forall_rm_all. rewrite M, X1; cbn; auto.
Qed.

(* "+ 1" *)
Lemma top_add_one : forall a cs gs, topv a cs gs ->
  exists v cs', v_add a VI = Ok v /\ topv v cs' gs /\ (a <> VI -> v <> VI) /\
    forall y, goodc y -> cmemb y cs' = cmemb y cs || cterm_eqb y CI.
Proof.
  intros a cs gs Ta. destruct (topv_good a cs gs Ta) as (G1 & N1 & X1 & G2 & W2 & N2).
  destruct Ta as [|cs gs _ _ _ _ _ _].
  - exists VI, [CI]. repeat split; auto; try constructor. intros y Hy. cbn. destruct (cterm_eqb y CI); auto.
  - exists (VM (Mod None (dedup cterm_eqb cs [CI]) gs)), (dedup cterm_eqb cs [CI]). split; [|split; [|split]].
    + cbn [v_add model_add]. rewrite add_term_terms. change [AC CI] with (map AC [CI] ++ map AG []).
      rewrite add_terms_spec by (intros [H|[]]; discriminate). reflexivity.
    + assert (Forall goodc [CI]) as GI by (repeat constructor).
      constructor; auto using Forall_dedup.
      * apply (nd_dedup cterm_eqb goodc E_cterm); auto.
      * rewrite (mem_dedup cterm_eqb goodc E_cterm); cbn; auto. rewrite X1. reflexivity.
    + discriminate.
    + intros y Hy. assert (Forall goodc [CI]) as GI by (repeat constructor).
      rewrite (mem_dedup cterm_eqb goodc E_cterm); cbn; auto. rewrite orb_false_r. reflexivity.
Qed.

(* "+ 0", "+ -1", "- 1" *)
Lemma top_remove_icpt : forall a cs gs, topv a cs gs ->
  exists v cs', v_add a VN = Ok v /\ v_sub a VI = Ok v /\ topv v cs' gs /\ v <> VI /\
    forall y, goodc y -> cmemb y cs' = cmemb y cs && negb (cterm_eqb CI y).
Proof.
  intros a cs gs Ta. destruct (topv_good a cs gs Ta) as (G1 & N1 & X1 & G2 & W2 & N2).
  destruct Ta as [|cs gs _ _ _ _ _ _].
  - exists (VM (Mod None [] [])), []. repeat split; auto; try discriminate.
    + constructor; cbn; auto.
    + intros [| |y] Hy; reflexivity.
  - exists (VM (Mod None (rm cterm_eqb CI cs) gs)), (rm cterm_eqb CI cs). split; [|split; [|split; [|split]]].
    + cbn [v_add model_add]. rewrite (model_sub_cterm _ _ CI) by auto. reflexivity.
    + cbn [v_sub]. rewrite (model_sub_cterm _ _ CI) by auto. reflexivity.
    + constructor; auto using Forall_rm. * apply nd_rm; auto.
      * rewrite (mem_rm cterm_eqb goodc E_cterm); cbn; auto. rewrite X1. reflexivity.
    + discriminate.
    + intros y Hy. apply (mem_rm cterm_eqb goodc E_cterm); cbn; auto.
Qed.

(* ---- items ---- *)
Definition Ritem (b : value) (C : list sterm) (G : list gitem) : Prop :=
  exists ics igs, itemv b ics igs /\ Forall goods C /\ Forall goodgi G /\
    (forall s, goods s -> cmemb (emb s) ics = mem sterm_eqb s C) /\
    (forall gi, goodgi gi -> gmemb (embg gi) igs = mem gitem_eqb gi G).

Lemma resolve_strip : forall e, resolve (strip e) = resolve e.
Proof. induction e; cbn [strip resolve]; auto. Qed.

Lemma icpt_strip : forall e, icpt (strip e) = icpt e.
Proof. induction e; cbn [strip icpt]; auto. Qed.

Lemma doc_plain_strip : forall e, doc_plain (strip e) = doc_plain e.
Proof. induction e; cbn [strip doc_plain]; auto. Qed.

Lemma diff_map_Fs : forall L R, diff sterm_eqb (map Fs L) (map Fs R) = map Fs (diff fset_eqb L R).
Proof.
  intros. induction L as [|a L IH]; cbn [map diff filter]; auto. fold (diff sterm_eqb (map Fs L) (map Fs R)).
  fold (diff fset_eqb L R). fold (mem sterm_eqb (Fs a) (map Fs R)). rewrite mem_map_Fs.
  change (existsb (fset_eqb a) R) with (tmem a R). destruct (tmem a R); cbn [negb map]; rewrite IH; reflexivity.
Qed.

Lemma terms_plain : forall e, doc_plain e = true -> terms e = plain e.
Proof.
  induction e; intros D; cbn [doc_plain] in D; cbn [terms]; auto.
  - destruct (tkind op) eqn:K; try discriminate; auto; apply andb_true_iff in D; destruct D as [D1 D2];
      rewrite IHe1, IHe2 by auto; unfold plain; cbn [factors]; rewrite K;
      destruct (factors e1), (factors e2); cbn [lift2 option_map]; auto; unfold cg_union, cg_diff; cbn [fst snd].
    + rewrite map_app. reflexivity.
    + rewrite diff_map_Fs. reflexivity.
  - destruct (tkind op) eqn:K; try discriminate. rewrite IHe by auto. unfold plain. cbn [factors]. rewrite K. reflexivity.
Qed.

Lemma terms_strip : forall e, terms (strip e) = terms e.
Proof. induction e; cbn [strip terms]; auto. Qed.

Lemma mem_gitem_prod : forall s f (C : list sterm) (G : list fset),
  mem gitem_eqb (s, f) (list_prod C G) = mem sterm_eqb s C && tmem f G.
Proof. intros. unfold mem. rewrite <- (mem_prod sterm_eqb term_eqb s f C G). reflexivity. Qed.

(* "|" : one group-specific term per effect and per term of the grouping side *)
Theorem or_law : forall a b C G, Reff a C -> Rp b G -> C <> [] ->
  exists v, v_or a b = Ok v /\ Ritem v [] (list_prod C G).
Proof.
  intros a b C G (Ea & GC & Ma) (us & Pb & GL & Eq) NE.
  destruct (v_or_spec a b us Ea Pb) as (v & gl & -> & Gv & Mv).
  { intros Z. destruct C as [|t E]; [congruence|]. inversion GC; subst. specialize (Ma t H1).
    rewrite Z in Ma. cbn [mem existsb] in Ma. rewrite (e_refl _ _ E_sterm t H1) in Ma. discriminate. }
  exists v. split; [reflexivity|].
  exists [], gl. split; [constructor; auto|]. split; [constructor|].
  split. { apply (Forall_prod goods goodt); auto. }
  split; [reflexivity|]. intros [s f] [Hs Hf]. cbn [fst snd] in *.
  rewrite Mv by (apply (embg_good (s, f)); split; auto).
  unfold embg. cbn [fst snd]. rewrite gprod_mem, Ma, mem_gitem_prod by auto. f_equal.
  rewrite (mem_map_emb term_eqb cterm_eqb CT CT_eqb). apply Eq. auto.
Qed.

Lemma operand_refines : forall e, doc_plain e || doc_group e = true ->
  exists b C G, resolve e = Ok b /\ terms e = Some (C, G) /\ Ritem b C G /\ icpt e = None.
Proof.
  intros e D. destruct (doc_plain e) eqn:DP.
  - destruct (plain_refines e DP) as (b & L & Re & Fe & ts & Pb & GL & Eq).
    rewrite (terms_plain e DP). unfold plain. rewrite Fe. cbn [option_map].
    exists b. eexists _, _. split; [exact Re|]. split; [reflexivity|]. split; [|apply doc_plain_not_icpt; auto].
    exists (map CT ts), []. split; [constructor; auto|]. split; [apply goods_map_Fs; auto|]. split; [constructor|].
    split; [|reflexivity]. intros s Hs. rewrite cmemb_map_CT. apply equ_map_Fs; auto.
  - cbn [orb] in D. unfold doc_group in D. rewrite <- terms_strip, <- resolve_strip, <- icpt_strip.
    destruct (strip e) as [| |l op r| | | | |]; try discriminate.
    destruct (tkind op) eqn:K; try discriminate. cbn [terms]. rewrite K.
    apply andb_true_iff in D. destruct D as [D D3]. apply andb_true_iff in D. destruct D as [D1 D2].
    rewrite (resolve_binary _ _ _ OpOr) by (rewrite K; reflexivity). rewrite <- (resolve_strip l).
    unfold effects in *. fold eff_first in *.
    destruct (effect_refines (strip l) D1) as (a & C & G0 & -> & Ru & Ra & _).
    rewrite Ru in *. cbn [option_map fst] in *. destruct C as [|t E]; [discriminate|].
    destruct (plain_refines r D2) as (b & L & -> & -> & Rb).
    cbn [bind apply_binop].
    destruct (or_law a b (t :: E) L Ra Rb) as (v & -> & Rv); [discriminate|].
    exists v. eexists _, _. split; [reflexivity|]. split; [reflexivity|]. split; [exact Rv|reflexivity].
Qed.

(* ---- the running value and its specification ---- *)
Definition Rtop (v : value) (C : list sterm) (G : list gitem) : Prop :=
  exists cs gs, topv v cs gs /\ Forall goods C /\ Forall goodgi G /\
    (forall s, goods s -> cmemb (emb s) cs = mem sterm_eqb s C) /\
    (forall gi, goodgi gi -> gmemb (embg gi) gs = mem gitem_eqb gi G).

Lemma goodgi_diff : forall G G', Forall goodgi G -> Forall goodgi (diff gitem_eqb G G').
Proof. intros. apply Forall_diff; auto. Qed.

Theorem rhs_refines : forall e, doc_rhs e = true ->
  exists v C G, resolve e = Ok v /\ run terms leading_one e = Some (C, G) /\ Rtop v C G /\
                (bare e = false -> v <> VI).
Proof.
  induction e; intros D; try discriminate.
  - (* binary *)
    cbn [doc_rhs] in D. cbn [run bare].
    destruct (tkind op) eqn:K; try discriminate; apply andb_true_iff in D; destruct D as [D1 D2];
      destruct (IHe1 D1) as (a & C & G & Ra & -> & (cs & gs & Ta & GC & GG & Mc & Mg) & Ba); clear IHe1 IHe2.
    + (* + *)
      rewrite (resolve_binary _ _ _ OpAdd) by (rewrite K; reflexivity). rewrite Ra. cbn [bind].
      unfold item. cbn [fst snd]. destruct (icpt e2) as [[|]|] eqn:Ic.
      * rewrite (icpt_resolve e2 true Ic). cbn [bind apply_binop].
        destruct (top_add_one a cs gs Ta) as (v & cs' & -> & Tv & Nv & Mv).
        exists v. eexists _, _. split; [reflexivity|]. split; [reflexivity|]. split; [|auto].
        exists cs', gs. split; auto. split; [constructor; cbn; auto|]. split; auto. split; auto.
        intros s Hs. rewrite Mv, Mc, mem_cons, emb_CI, isI_eqb by auto using emb_good. apply orb_comm.
      * rewrite (icpt_resolve e2 false Ic). cbn [bind apply_binop].
        destruct (top_remove_icpt a cs gs Ta) as (v & cs' & -> & _ & Tv & Nv & Mv).
        exists v. eexists _, _. split; [reflexivity|]. split; [reflexivity|]. split; [|auto].
        exists cs', gs. split; auto. split; [apply goods_diff; auto|]. split; auto. split; auto.
        intros s Hs. rewrite Mv, Mc, (mem_diff sterm_eqb goods E_sterm) by (auto using emb_good; repeat constructor).
        rewrite emb_CI'. cbn [mem existsb]. rewrite isI_eqb, orb_false_r. reflexivity.
      * cbn [is_some orb] in D2. destruct (operand_refines e2 D2) as (b & C' & G' & -> & -> & (ics & igs & Ib & GC' & GG' & Mc' & Mg') & _).
        cbn [bind apply_binop]. destruct (top_add_item a cs gs b ics igs Ta Ib) as [-> Tv].
        destruct (topv_good a cs gs Ta) as (G1 & N1 & X1 & G2 & W2 & N2).
        destruct (itemv_good b ics igs Ib) as (G3 & X3 & G4 & W4).
        eexists _, _, _. split; [reflexivity|]. split; [reflexivity|]. split; [|discriminate].
        eexists _, _. split; [exact Tv|]. split; [apply Forall_app2; auto|]. split; [apply Forall_app2; auto|].
        split.
        -- intros s Hs. rewrite (mem_dedup cterm_eqb goodc E_cterm), mem_app, Mc, Mc' by auto using emb_good. reflexivity.
        -- intros gi Hgi. rewrite (mem_dedup gterm_eqb goodg E_gterm), mem_app, Mg, Mg' by auto using embg_good. reflexivity.
    + (* - *)
      rewrite (resolve_binary _ _ _ OpSub) by (rewrite K; reflexivity). rewrite Ra. cbn [bind].
      unfold item. cbn [fst snd]. destruct (icpt e2) as [[|]|] eqn:Ic; try discriminate.
      * rewrite (icpt_resolve e2 true Ic). cbn [bind apply_binop].
        destruct (top_remove_icpt a cs gs Ta) as (v & cs' & _ & -> & Tv & Nv & Mv).
        exists v. eexists _, _. split; [reflexivity|]. split; [reflexivity|]. split; [|auto].
        exists cs', gs. split; auto. split; [apply goods_diff; auto|]. split; auto. split; auto.
        intros s Hs. rewrite Mv, Mc, (mem_diff sterm_eqb goods E_sterm) by (auto using emb_good; repeat constructor).
        rewrite emb_CI'. cbn [mem existsb]. rewrite isI_eqb, orb_false_r. reflexivity.
      * apply andb_true_iff in D2. destruct D2 as [D2 D3]. apply negb_true_iff in D2. specialize (Ba D2).
        destruct (operand_refines e2 D3) as (b & C' & G' & -> & -> & (ics & igs & Ib & GC' & GG' & Mc' & Mg') & _).
        cbn [bind apply_binop]. destruct Ta as [|cs gs T1 T2 T3 T4 T5 T6]; [congruence|].
        assert (topv (VM (Mod None cs gs)) cs gs) as Ta by (constructor; auto).
        destruct (top_sub_item cs gs b ics igs Ta Ib) as [-> Tv].
        destruct (itemv_good b ics igs Ib) as (G3 & X3 & G4 & W4).
        destruct (rm_all_props cterm_eqb goodc E_cterm ics cs) as (_ & _ & M); auto.
        destruct (rm_all_props gterm_eqb goodg E_gterm igs gs) as (_ & _ & M'); auto.
        eexists _, _, _. split; [reflexivity|]. split; [reflexivity|]. split; [|discriminate].
        eexists _, _. split; [exact Tv|]. split; [apply goods_diff; auto|]. split; [apply goodgi_diff; auto|].
        split.
        -- intros s Hs. rewrite M, Mc, Mc', (mem_diff sterm_eqb goods E_sterm) by auto using emb_good. reflexivity.
        -- intros gi Hgi. rewrite M', Mg, Mg', (mem_diff gitem_eqb goodgi E_gitem) by auto using embg_good. reflexivity.
  - (* the leading 1 *)
    cbn [doc_rhs] in D. destruct v as [z| | | |]; try discriminate. destruct z as [|[p|p|]|]; try discriminate.
    destruct lx; try discriminate.
    exists VI, [Icpt], []. split; [reflexivity|]. split; [reflexivity|]. split; [|discriminate].
    exists [CI], []. split; [constructor|]. split; [repeat constructor|]. split; [constructor|].
    split; [|reflexivity]. intros [|f] Hs; reflexivity.
Qed.

(* ================================================================== *)
(** * 8. The abstraction of a model, and the main theorem *)

(* forget the order of the lists; NegatedIntercept stands for "no intercept" *)
Definition abs_c (c : cterm) : list sterm :=
  match c with CI => [Icpt] | CT t => [Fs t] | CN => [] end.
Definition abs_g (g : gterm) : list gitem :=
  match gexpr g, gfactor g with
  | CI, CT f => [(Icpt, f)]
  | CT t, CT f => [(Fs t, f)]
  | _, _ => []
  end.
Definition abs (m : model) : spec :=
  Spec (resp m) (flat_map abs_c (commons m)) (flat_map abs_g (groups m)).

(* every list of a produced model is duplicate-free, without NegatedIntercept, and its
   group-specific terms have the shape (1 | f) or (t | f) *)
Definition wf (m : model) : Prop :=
  cnd (commons m) /\ gnd (groups m) /\ cmem CN (commons m) = false /\ Forall wfg (groups m).

Lemma abs_commons : forall cs, cmemb CN cs = false -> Forall goodc cs ->
  Forall goods (flat_map abs_c cs) /\
  forall s, goods s -> mem sterm_eqb s (flat_map abs_c cs) = cmemb (emb s) cs.
Proof.
  induction cs as [|c cs IH]; intros X G.
  - split; [constructor|reflexivity].
  - inversion G; subst. rewrite mem_cons in X. apply orb_false_iff in X. destruct X as [X1 X2].
    destruct (IH X2 H2) as [F M]. split.
    + cbn [flat_map]. apply Forall_app2; auto. destruct c; cbn; auto.
    + intros s Hs. cbn [flat_map]. rewrite mem_app, mem_cons, M by auto. f_equal.
      destruct c; cbn in X1; try discriminate; destruct s; cbn; rewrite ?orb_false_r; reflexivity.
Qed.

Lemma abs_groups : forall gs, Forall wfg gs -> Forall goodg gs ->
  Forall goodgi (flat_map abs_g gs) /\
  forall gi, goodgi gi -> mem gitem_eqb gi (flat_map abs_g gs) = gmemb (embg gi) gs.
Proof.
  induction gs as [|g gs IH]; intros W G.
  - split; [constructor|reflexivity].
  - inversion G; subst. inversion W; subst. destruct (IH H4 H2) as [F M]. split.
    + cbn [flat_map]. apply Forall_app2; auto. destruct g as [[| |t] [| |f]]; destruct H1; cbn in *; try contradiction;
        repeat constructor; auto.
    + intros gi Hgi. cbn [flat_map]. rewrite mem_app, mem_cons, M by auto. f_equal.
      destruct g as [[| |t] [| |f]]; cbn in H3; try contradiction; destruct gi as [[|s] f'];
        unfold gterm_eqb, gitem_eqb; cbn; rewrite ?orb_false_r; reflexivity.
Qed.

Lemma top_spec_equiv : forall r cs gs C G,
  topv (VM (Mod None cs gs)) cs gs -> Forall goods C -> Forall goodgi G ->
  (forall s, goods s -> cmemb (emb s) cs = mem sterm_eqb s C) ->
  (forall gi, goodgi gi -> gmemb (embg gi) gs = mem gitem_eqb gi G) ->
  wf (Mod r cs gs) /\ spec_equiv (abs (Mod r cs gs)) (Spec r C G).
Proof.
  intros r cs gs C G Ta GC GG Mc Mg.
  destruct (topv_good _ cs gs Ta) as (G1 & N1 & X1 & G2 & W2 & N2).
  destruct (abs_commons cs X1 G1) as [F1 M1]. destruct (abs_groups gs W2 G2) as [F2 M2].
  split; [repeat split; auto|]. unfold spec_equiv, abs. cbn [s_resp s_common s_group resp commons groups].
  split; [reflexivity|]. split.
  - apply (same_equ sterm_eqb goods E_sterm); auto. intros s Hs. rewrite M1, Mc; auto.
  - apply (same_equ gitem_eqb goodgi E_gitem); auto. intros gi Hgi. rewrite M2, Mg; auto.
Qed.

Lemma topv_as_model : forall v cs gs, topv v cs gs -> topv (VM (Mod None cs gs)) cs gs.
Proof. intros v cs gs T. destruct (topv_good v cs gs T) as (? & ? & ? & ? & ? & ?). constructor; auto. Qed.

Theorem resolve_refines : forall e, documented e = true ->
  exists m s, describe e = Ok m /\ sem e = Some s /\ wf m /\ spec_equiv (abs m) s.
Proof.
  assert (forall e, doc_rhs e = true ->
    exists m s, describe e = Ok m /\ option_map (fun x => Spec None (fst x) (snd x)) (run terms leading_one e) = Some s
                /\ wf m /\ spec_equiv (abs m) s) as NoResp.
  { intros e D. destruct (rhs_refines e D) as (v & C & G & Re & -> & (cs & gs & Ta & GC & GG & Mc & Mg) & _).
    unfold describe. rewrite Re. cbn [bind option_map fst snd].
    exists (Mod None cs gs), (Spec None C G). split; [destruct Ta; reflexivity|]. split; [reflexivity|].
    apply top_spec_equiv; auto. apply (topv_as_model v); auto. }
  intros e D. destruct e as [| |l op r| | | | |]; try (apply NoResp; exact D).
  cbn [documented sem] in *. destruct (tkind op) eqn:K; try (apply NoResp; exact D).
  apply andb_true_iff in D. destruct D as [D1 D2].
  destruct (atom (strip l)) as [y|] eqn:At; [|discriminate].
  destruct (atom_resolve _ _ At) as [Rl Gy]. rewrite resolve_strip in Rl.
  destruct (rhs_refines r D2) as (v & C & G & Rr & -> & (cs & gs & Ta & GC & GG & Mc & Mg) & _).
  unfold describe. rewrite (resolve_binary _ _ _ OpTilde) by (rewrite K; reflexivity).
  rewrite Rl, Rr. cbn [bind apply_binop mk_response].
  exists (Mod (Some [y]) cs gs), (Spec (Some [y]) C G). split; [destruct Ta; reflexivity|]. split; [reflexivity|].
  apply top_spec_equiv; auto. apply (topv_as_model v); auto.
Qed.

(* the implementation accepts every documented formula *)
Corollary resolve_total_on_documented : forall e, documented e = true -> is_ok (describe e) = true.
Proof. intros e D. destruct (resolve_refines e D) as (m & s & -> & _). reflexivity. Qed.

(* and the specification gives every documented formula a meaning *)
Corollary sem_total_on_documented : forall e, documented e = true -> is_some (sem e) = true.
Proof. intros e D. destruct (resolve_refines e D) as (m & s & _ & -> & _). reflexivity. Qed.


(* every model produced for a documented formula has duplicate-free lists *)
Corollary describe_wf : forall e m, documented e = true -> describe e = Ok m -> wf m.
Proof. intros e m D H. destruct (resolve_refines e D) as (m' & s & H' & _ & W & _). congruence. Qed.

(* ================================================================== *)
(** * 9. Examples: the theorem is not vacuous, and fails outside the fragment *)

Local Open Scope string_scope.

(* the AST that the model's own scanner (which writes the implicit "1 +") and parser build *)
Definition ast (s : string) : expr :=
  match (do ts <- scan s; parse ts) with Ok e => e | Err _ => ELiteral LNone None end.

Definition show_sterm (t : sterm) : string := match t with Icpt => "1" | Fs f => term_name f end.
Definition show_spec (s : spec) : option string * list string * list string :=
  (option_map term_name (s_resp s), map show_sterm (s_common s),
   map (fun g => show_sterm (fst g) ++ "|" ++ term_name (snd g)) (s_group s)).
Definition show_model (r : res model) : option (option string * list string * list string) :=
  match r with Ok m => Some (show_spec (abs m)) | Err _ => None end.
Definition agree (e : expr) : bool :=
  match describe e, sem e with
  | Ok m, Some s => option_eqb (list_eqb comp_eqb) (resp m) (s_resp s) &&
                    same sterm_eqb (s_common (abs m)) (s_common s) && same gitem_eqb (s_group (abs m)) (s_group s)
  | _, _ => false
  end.

Definition ex1 := ast "y ~ a*b + (x|g) - a:b".
Example ex1_documented : documented ex1 = true. Proof. vm_compute. reflexivity. Qed.
Example ex1_impl : show_model (describe ex1) = Some (Some "y", ["1"; "a"; "b"], ["1|g"; "x|g"]).
Proof. vm_compute. reflexivity. Qed.
Example ex1_spec : option_map show_spec (sem ex1) = Some (Some "y", ["1"; "a"; "b"], ["1|g"; "x|g"]).
Proof. vm_compute. reflexivity. Qed.

Definition ex2 := ast "y ~ 0 + (a + b + c)**3".
Example ex2_documented : documented ex2 = true. Proof. vm_compute. reflexivity. Qed.
Example ex2_impl : show_model (describe ex2) = Some (Some "y", ["a"; "b"; "c"; "a:b"; "a:c"; "b:c"; "a:b:c"], []).
Proof. vm_compute. reflexivity. Qed.
Example ex2_spec : option_map show_spec (sem ex2) = Some (Some "y", ["a"; "b"; "c"; "a:b"; "a:c"; "b:c"; "a:b:c"], []).
Proof. vm_compute. reflexivity. Qed.

Definition ex3 := ast "y ~ (a + b)/(c:d + e) + (0 + x + z | g + h)".
Example ex3_documented : documented ex3 = true. Proof. vm_compute. reflexivity. Qed.
Example ex3_impl : show_model (describe ex3) =
  Some (Some "y", ["1"; "a"; "b"; "a:b:c:d"; "a:b:e"], ["x|g"; "x|h"; "z|g"; "z|h"]).
Proof. vm_compute. reflexivity. Qed.
Example ex3_spec : option_map show_spec (sem ex3) =
  Some (Some "y", ["1"; "a"; "b"; "a:b:c:d"; "a:b:e"], ["x|g"; "x|h"; "z|g"; "z|h"]).
Proof. vm_compute. reflexivity. Qed.

Example more_documented :
  forallb (fun s => documented (ast s) && agree (ast s))
    ["y ~ a"; "y ~ a + b - 1"; "y ~ -1 + a:b"; "y ~ a*b*c - a:b:c"; "y ~ a/b/c"; "y ~ (a + b + c + d)**3 - a:b:c";
     "f(y, 2) ~ a + g(x, k=1)*b"; "y ~ `a b`*c + 'lit'"; "y ~ (1 | g)"; "y ~ (1 + x | g:h)"; "y ~ (0 + x*z | g/h)";
     "y ~ x + (x | g) - (1 | g)"; "y ~ (x - x | g)"; "y ~ a + 1 + 0 - 1 + 1"; "a + b"; "y ~ (a + b - a)**2";
     "y ~ (a + a:b)*(a:b + a + b)"] = true.
Proof. vm_compute. reflexivity. Qed.

(* ---- outside the fragment the statement fails on the model exactly as on the real code ---- *)
(* listed finding: an intercept literal that is not the leading item of the effect side *)
Example effect_literal_refuted :
  let e := ast "y ~ (x + 0 | g)" in
  documented e = false /\ is_some (sem e) = true /\ describe e = Err EType.
Proof. vm_compute. auto. Qed.

(* listed finding: a term subtracted from a bare intercept literal; the scanner writes  y ~ 1 + 1 - a *)
Example bare_intercept_refuted :
  let e := ast "y ~ 1 - a" in
  documented e = false /\ is_some (sem e) = true /\ describe e = Err EType.
Proof. vm_compute. auto. Qed.

(* listed finding: the exponent 1 *)
Example power_one_refuted :
  let e := ast "y ~ (a + b)**1" in
  documented e = false /\ is_some (sem e) = true /\ describe e = Err EValue.
Proof. vm_compute. auto. Qed.

(* repaired defect: Model.__mul__ used to return self when both operands were equal models, so the
   interaction a:b was missing from (a + b)*(a + b); it now agrees with the specification *)
Example star_same_agrees :
  let e := ast "y ~ (a + b)*(a + b)" in
  documented e = true /\
  show_model (describe e) = Some (Some "y", ["1"; "a"; "b"; "a:b"], []) /\
  option_map show_spec (sem e) = Some (Some "y", ["1"; "a"; "b"; "a"; "b"; "a:a"; "a:b"; "b:a"; "b:b"], []) /\
  agree e = true.
Proof. vm_compute. auto. Qed.

(* NEW finding: inside a parenthesised sum a single group-specific term cannot be added to or
   subtracted from a single term, and cannot come first (Term/GroupSpecificTerm have no such overload) *)
Example nested_group_refuted :
  forallb (fun s => negb (documented (ast s)) && is_some (sem (ast s)) && negb (is_ok (describe (ast s))))
    ["y ~ (a + (1|g))"; "y ~ ((1|g) + a)"; "y ~ (a - (1|g))"] = true.
Proof. vm_compute. reflexivity. Qed.

(* ---- the statement for the whole domain of the specification minus the listed findings ---- *)
(* [documented] differs from this larger fragment in one place only, because of the finding
   above: group-specific terms are items of the top-level right-hand side only (here: also inside
   parenthesised sums). *)
Fixpoint doc_terms_full (e : expr) : bool :=
  match e with
  | EGrouping e' => doc_terms_full e'
  | EUnary op e' => match tkind op with PLUS => doc_terms_full e' | _ => false end
  | EBinary l op r =>
      match tkind op with
      | PLUS | MINUS => doc_terms_full l && doc_terms_full r
      | PIPE => doc_effect (strip l) && doc_plain r &&
                match effects l with Some (_ :: _) => true | _ => false end
      | _ => doc_plain e
      end
  | _ => doc_plain e
  end.
Fixpoint doc_rhs_full (e : expr) : bool :=
  match e with
  | ELiteral (LInt 1) None => true
  | EBinary l op r =>
      match tkind op with
      | PLUS => doc_rhs_full l && (is_some (icpt r) || doc_terms_full r)
      | MINUS => doc_rhs_full l &&
                 match icpt r with Some b => b | None => negb (bare l) && doc_terms_full r end
      | _ => false
      end
  | _ => false
  end.
Definition documented_full (e : expr) : bool :=
  match e with
  | EBinary l op r =>
      match tkind op with
      | TILDE => is_some (atom (strip l)) && doc_rhs_full r
      | _ => doc_rhs_full e
      end
  | _ => doc_rhs_full e
  end.

(* the fragment proved is contained in it *)
Lemma doc_terms_full_strip : forall e, doc_terms_full (strip e) = doc_terms_full e.
Proof. induction e; cbn [strip doc_terms_full]; auto. Qed.

Lemma doc_item_sub_full : forall e, doc_plain e || doc_group e = true -> doc_terms_full e = true.
Proof.
  intros e D. apply orb_true_iff in D. destruct D as [D|D].
  - induction e; cbn [doc_plain doc_terms_full] in *; auto.
    + destruct (tkind op) eqn:K; try discriminate;
        try exact D;
        apply andb_true_iff in D; destruct D as [D1 D2]; rewrite IHe1, IHe2 by auto; auto.
    + destruct (tkind op); try discriminate; auto.
  - unfold doc_group in D. rewrite <- doc_terms_full_strip. destruct (strip e) as [| |l op r| | | | |]; try discriminate.
    cbn [doc_terms_full]. destruct (tkind op); try discriminate. exact D.
Qed.

Lemma doc_rhs_sub_full : forall e, doc_rhs e = true -> doc_rhs_full e = true.
Proof.
  induction e; intros D; cbn [doc_rhs doc_rhs_full] in *; auto.
  destruct (tkind op); try discriminate; apply andb_true_iff in D; destruct D as [D1 D2]; rewrite IHe1 by auto; cbn [andb].
  - destruct (is_some (icpt e2)); auto. apply doc_item_sub_full; auto.
  - destruct (icpt e2); auto. apply andb_true_iff in D2. destruct D2 as [-> D2]. apply doc_item_sub_full; auto.
Qed.

Theorem documented_sub_full : forall e, documented e = true -> documented_full e = true.
Proof.
  intros e D. destruct e; try (apply doc_rhs_sub_full; exact D). cbn [documented documented_full] in *.
  destruct (tkind op); try (apply doc_rhs_sub_full; exact D).
  apply andb_true_iff in D. destruct D as [-> D]. apply doc_rhs_sub_full; auto.
Qed.

Definition C02_full_statement : Prop :=
  forall e, documented_full e = true ->
  exists m s, describe e = Ok m /\ sem e = Some s /\ wf m /\ spec_equiv (abs m) s.

(* it is false: the nested-group finding is a counterexample *)
Theorem C02_full_statement_refuted : ~ C02_full_statement.
Proof.
  intros H. destruct (H (ast "y ~ (a + (1|g))")) as (m & s & D & _); [vm_compute; reflexivity|].
  vm_compute in D. discriminate.
Qed.

(* relative to [documented_full] the theorem proved here is partial *)
Definition resolve_refines_partial := resolve_refines.

Print Assumptions resolve_refines.
Print Assumptions C02_full_statement_refuted.
