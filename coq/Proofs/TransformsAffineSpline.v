(* C14: the B-spline basis is invariant under a change of unit and origin v |-> c v + a (c > 0)
   when data, knots and bounds are transformed alike -- INCLUDING the default quantile knots and
   the default (min / max) bounds, which move with the data.  (Model/Spline.v) *)
From Coq Require Import List QArith Qcanon ZArith Lia Bool.
From Verif Require Import Base Transforms Spline TransformsLemmas TransformsSpline TransformsAffine.
Import ListNotations.
Local Open Scope Qc_scope.
Local Notation length := List.length (only parsing).

Definition rmap {A B} (g : A -> B) (r : res A) : res B :=
  match r with Ok v => Ok (g v) | Err e => Err e end.

Definition bs_params_map (g : Qc -> Qc) (p : bs_params) : bs_params :=
  {| bs_knots := map g (bs_knots p); bs_degree := bs_degree p; bs_intercept := bs_intercept p |}.

Section SplineAffine.
  Variables c a : Qc.
  Hypothesis Hc : 0 < c.
  Let f := aff c a.

  Lemma aff_le x y : x <= y <-> f x <= f y.
  Proof.
    rewrite (Qcle_0_sub x y), (Qcle_0_sub (f x) (f y)).
    replace (f y - f x) with ((y - x) * c) by (unfold f, aff; ring). split.
    - intros H. apply Qcmult_nonneg; [exact H | apply Qclt_le_weak, Hc].
    - intros H. apply (Qcmult_lt_0_le_reg_r 0 (y - x) c Hc).
      replace (0 * c) with 0 by ring. exact H.
  Qed.

  Lemma aff_inj x y : f x = f y -> x = y.
  Proof.
    intros E. apply Qcle_antisym; apply aff_le; rewrite E; apply Qcle_refl.
  Qed.

  Lemma qleb_aff x y : qleb (f x) (f y) = qleb x y.
  Proof. apply eq_true_iff_eq. rewrite !qleb_true. symmetry. apply aff_le. Qed.

  Lemma qltb_aff x y : qltb (f x) (f y) = qltb x y.
  Proof. unfold qltb. fold (qleb (f y) (f x)). fold (qleb y x). rewrite qleb_aff. reflexivity. Qed.

  Lemma qeqb_aff x y : qeqb (f x) (f y) = qeqb x y.
  Proof.
    apply eq_true_iff_eq. rewrite !qeqb_true. split; [apply aff_inj | intros ->; reflexivity].
  Qed.

  Lemma nth_map_aff n s : (n < length s)%nat -> nth n (map f s) 0 = f (nth n s 0).
  Proof.
    intros H. rewrite (nth_indep _ 0 (f 0)) by (rewrite map_length; exact H). apply map_nth.
  Qed.

  (* ---- sorting, min, max ---- *)
  Lemma qinsert_aff v l : qinsert (f v) (map f l) = map f (qinsert v l).
  Proof.
    induction l as [|b r IH]; [reflexivity|]. cbn [map qinsert]. rewrite qleb_aff.
    destruct (qleb v b); cbn [map]; [reflexivity|]. rewrite IH. reflexivity.
  Qed.

  Lemma qsort_aff l : qsort (map f l) = map f (qsort l).
  Proof.
    induction l as [|b r IH]; [reflexivity|]. cbn [map]. unfold qsort in *. cbn [fold_right].
    rewrite IH. apply qinsert_aff.
  Qed.

  Lemma qmin_aff x y : qmin (f x) (f y) = f (qmin x y).
  Proof. unfold qmin. rewrite qleb_aff. destruct (qleb x y); reflexivity. Qed.

  Lemma qmax_aff x y : qmax (f x) (f y) = f (qmax x y).
  Proof. unfold qmax. rewrite qleb_aff. destruct (qleb x y); reflexivity. Qed.

  Lemma qmin_list_aff l : qmin_list (map f l) = rmap f (qmin_list l).
  Proof.
    destruct l as [|x r]; [reflexivity|]. cbn [map qmin_list rmap]. f_equal.
    induction r as [|y r IH]; [reflexivity|]. cbn [map fold_right]. rewrite IH. apply qmin_aff.
  Qed.

  Lemma qmax_list_aff l : qmax_list (map f l) = rmap f (qmax_list l).
  Proof.
    destruct l as [|x r]; [reflexivity|]. cbn [map qmax_list rmap]. f_equal.
    induction r as [|y r IH]; [reflexivity|]. cbn [map fold_right]. rewrite IH. apply qmax_aff.
  Qed.

  (* ---- quantile knots ---- *)
  Lemma percentile_aff s num den :
    s <> [] -> (num <= den)%nat -> (0 < den)%nat ->
    percentile_lin (map f s) num den = f (percentile_lin s num den).
  Proof.
    intros Hs Hnum Hden. unfold percentile_lin. rewrite map_length.
    assert (Hlen : (0 < length s)%nat) by (destruct s; [congruence | cbn; lia]).
    set (p := (num * (length s - 1))%nat).
    assert (Hp : (p <= den * (length s - 1))%nat) by (unfold p; apply Nat.mul_le_mono_r; exact Hnum).
    assert (Hlo : (p / den <= length s - 1)%nat).
    { apply Nat.div_le_upper_bound; [lia | exact Hp]. }
    rewrite nth_map_aff by lia.
    destruct (Nat.eqb_spec (p mod den) 0) as [E|E]; [reflexivity|].
    assert (Hlo' : (S (p / den) < length s)%nat).
    { pose proof (Nat.div_mod p den ltac:(lia)) as Hdm.
      destruct (Nat.eq_dec (p / den) (length s - 1)) as [E2|E2]; [|lia].
      rewrite E2 in Hdm. lia. }
    rewrite nth_map_aff by exact Hlo'. unfold f, aff. ring.
  Qed.

  Lemma quantile_knots_aff x m :
    quantile_knots (map f x) m = rmap (map f) (quantile_knots x m).
  Proof.
    destruct x as [|x0 xr]; [reflexivity|].
    cbn [map]. unfold quantile_knots. cbn [rmap]. f_equal.
    change (f x0 :: map f xr) with (map f (x0 :: xr)). rewrite qsort_aff, map_map.
    apply map_ext_in. intros i Hi. apply in_seq in Hi. apply percentile_aff; try lia.
    intros E. apply (f_equal (@List.length Qc)) in E. rewrite qsort_length in E. discriminate E.
  Qed.

  Lemma bs_inner_aff x df knots degree intercept :
    bs_inner (map f x) df (option_map (map f) knots) degree intercept
    = rmap (map f) (bs_inner x df knots degree intercept).
  Proof.
    unfold bs_inner. destruct df as [d|]; [|destruct knots; reflexivity].
    destruct (_ <? 0)%Z; [reflexivity|].
    destruct knots as [ks|]; cbn [option_map].
    - rewrite map_length. destruct (_ =? _)%Z; reflexivity.
    - apply quantile_knots_aff.
  Qed.

  Lemma all_knots_aff lo hi n inner :
    all_knots (f lo) (f hi) n (map f inner) = map f (all_knots lo hi n inner).
  Proof.
    unfold all_knots. rewrite <- qsort_aff, map_app. f_equal. f_equal.
    induction n as [|n IH]; [reflexivity|]. cbn [repeat List.concat map app]. rewrite IH. reflexivity.
  Qed.

  Lemma existsb_aff_below lo inner :
    existsb (fun t => qltb t (f lo)) (map f inner) = existsb (fun t => qltb t lo) inner.
  Proof.
    induction inner as [|v r IH]; [reflexivity|]. cbn [map existsb]. rewrite qltb_aff, IH. reflexivity.
  Qed.

  Lemma existsb_aff_above hi inner :
    existsb (fun t => qltb (f hi) t) (map f inner) = existsb (fun t => qltb hi t) inner.
  Proof.
    induction inner as [|v r IH]; [reflexivity|]. cbn [map existsb]. rewrite qltb_aff, IH. reflexivity.
  Qed.

  (* BSpline._initialize: same verdict (same error kind), knot vector moved by f *)
  Theorem bs_init_aff x df knots degree intercept lower upper :
    bs_init (map f x) df (option_map (map f) knots) degree intercept
            (option_map f lower) (option_map f upper)
    = rmap (bs_params_map f) (bs_init x df knots degree intercept lower upper).
  Proof.
    unfold bs_init. destruct (degree <? 0)%Z; [reflexivity|].
    rewrite bs_inner_aff. destruct (bs_inner x df knots degree intercept) as [inner|e];
      cbn [rmap bind]; [|reflexivity].
    assert (Elo : match option_map f lower with Some l => Ok l | None => qmin_list (map f x) end
                  = rmap f (match lower with Some l => Ok l | None => qmin_list x end)).
    { destruct lower; [reflexivity|]. apply qmin_list_aff. }
    assert (Ehi : match option_map f upper with Some u => Ok u | None => qmax_list (map f x) end
                  = rmap f (match upper with Some u => Ok u | None => qmax_list x end)).
    { destruct upper; [reflexivity|]. apply qmax_list_aff. }
    rewrite Elo, Ehi.
    destruct (match lower with Some l => Ok l | None => qmin_list x end) as [lo|e];
      cbn [rmap bind]; [|reflexivity].
    destruct (match upper with Some u => Ok u | None => qmax_list x end) as [hi|e];
      cbn [rmap bind]; [|reflexivity].
    rewrite qltb_aff, existsb_aff_below, existsb_aff_above.
    destruct (qltb hi lo); [reflexivity|].
    destruct (existsb _ inner); [reflexivity|]. destruct (existsb _ inner); [reflexivity|].
    cbn [rmap]. unfold bs_params_map. cbn [bs_knots bs_degree bs_intercept].
    rewrite all_knots_aff. reflexivity.
  Qed.

  (* ---- FITPACK evaluation ---- *)
  Lemma find_interval_aff t x lmax fuel : forall l,
    (lmax < length t)%nat ->
    find_interval (map f t) (f x) lmax fuel l = find_interval t x lmax fuel l.
  Proof.
    induction fuel as [|fu IH]; intros l Hl; [reflexivity|]. cbn [find_interval].
    destruct (Nat.ltb_spec l lmax) as [E|E]; cbn [andb]; [|reflexivity].
    rewrite nth_map_aff by lia. rewrite qleb_aff, IH by exact Hl. reflexivity.
  Qed.

  Lemma bs_interval_aff t k x : bs_interval (map f t) k (f x) = bs_interval t k x.
  Proof.
    unfold bs_interval. rewrite map_length.
    destruct (Nat.eq_dec (length t - k - 2) 0) as [E|E].
    - rewrite E. cbn [Nat.sub find_interval]. reflexivity.
    - apply find_interval_aff. lia.
  Qed.

  Lemma bspl_stage_aff t x l j hh : forall i carry,
    (l + i + length hh <= length t)%nat ->
    bspl_stage (map f t) (f x) l j i carry hh = bspl_stage t x l j i carry hh.
  Proof.
    induction hh as [|h rest IH]; intros i carry Hl; [reflexivity|].
    cbn [length] in Hl. cbn [bspl_stage]. rewrite !nth_map_aff by lia. rewrite qeqb_aff.
    set (tli := nth (l + i) t 0). set (tlj := nth (l + i - j) t 0).
    pose proof (Qclt_neq0 c Hc) as Hc0.
    destruct (qeqb tli tlj) eqn:E.
    - replace (0 * (f tli - f x)) with (0 * (tli - x)) by ring.
      replace (0 * (f x - f tlj)) with (0 * (x - tlj)) by ring.
      rewrite IH by lia. reflexivity.
    - apply qeqb_false in E.
      assert (D : tli - tlj <> 0).
      { intros H. apply E. replace tli with (tli - tlj + tlj) by ring. rewrite H. ring. }
      assert (D' : c * tli + a - (c * tlj + a) <> 0).
      { replace (c * tli + a - (c * tlj + a)) with (c * (tli - tlj)) by ring. intros H.
        destruct (Qcmult_integral _ _ H); contradiction. }
      assert (E1 : h / (f tli - f tlj) * (f tli - f x) = h / (tli - tlj) * (tli - x)).
      { unfold f, aff. field. split; assumption. }
      assert (E2 : h / (f tli - f tlj) * (f x - f tlj) = h / (tli - tlj) * (x - tlj)).
      { unfold f, aff. field. split; assumption. }
      rewrite E1, E2, IH by lia. reflexivity.
  Qed.

  Lemma fpbspl_aff t x l k :
    (l + k < length t)%nat -> fpbspl (map f t) (f x) l k = fpbspl t x l k.
  Proof.
    induction k as [|k IH]; intros Hl; [reflexivity|]. cbn [fpbspl].
    rewrite IH by lia. apply bspl_stage_aff. rewrite fpbspl_length. lia.
  Qed.

  (* one row of the basis, for any knot vector with at least 2k+2 knots *)
  Theorem bs_row_aff t k x :
    (2 * k + 2 <= length t)%nat -> bs_row (map f t) k (f x) = bs_row t k x.
  Proof.
    intros Ht. unfold bs_row. rewrite bs_interval_aff, map_length.
    pose proof (bs_interval_range t k x Ht) as [H1 H2].
    rewrite fpbspl_aff by lia. reflexivity.
  Qed.

  Theorem bs_apply_aff p ys :
    (2 * bs_degree p + 2 <= length (bs_knots p))%nat ->
    bs_apply (bs_params_map f p) (map f ys) = bs_apply p ys.
  Proof.
    intros Ht. destruct ys as [|y0 yr]; [reflexivity|].
    cbn [map]. unfold bs_apply.
    change (f y0 :: map f yr) with (map f (y0 :: yr)). f_equal. rewrite map_map.
    apply map_ext. intros y. unfold bs_params_map. cbn [bs_knots bs_degree bs_intercept].
    rewrite bs_row_aff by exact Ht. reflexivity.
  Qed.

  (* the whole transform: initialise on data x, evaluate on data ys (ys = x: first call) *)
  Definition bs_call (x : list Qc) (df : option Z) (knots : option (list Qc)) (degree : Z)
      (intercept : bool) (lower upper : option Qc) (ys : list Qc) : res (list (list Qc)) :=
    do p <- bs_init x df knots degree intercept lower upper; bs_apply p ys.

  Theorem bs_affine x df knots degree intercept lower upper ys :
    bs_call (map f x) df (option_map (map f) knots) degree intercept
            (option_map f lower) (option_map f upper) (map f ys)
    = bs_call x df knots degree intercept lower upper ys.
  Proof.
    unfold bs_call. rewrite bs_init_aff.
    destruct (bs_init x df knots degree intercept lower upper) as [p|e] eqn:E;
      cbn [rmap bind]; [|reflexivity].
    apply bs_apply_aff.
    apply bs_init_ok_iff in E. destruct E as (inner & lo & hi & Hd & _ & _ & _ & _ & _ & ->).
    cbn [bs_knots bs_degree]. rewrite all_knots_length. lia.
  Qed.
End SplineAffine.

(* the form asked for: explicit knots and bounds *)
Corollary bs_affine_explicit c a x ks lo hi degree intercept ys :
  0 < c ->
  bs_call (map (aff c a) x) None (Some (map (aff c a) ks)) degree intercept
          (Some (aff c a lo)) (Some (aff c a hi)) (map (aff c a) ys)
  = bs_call x None (Some ks) degree intercept (Some lo) (Some hi) ys.
Proof. intros Hc. apply (bs_affine c a Hc x None (Some ks) degree intercept (Some lo) (Some hi)). Qed.

(* default quantile knots and default bounds: only the data are transformed *)
Corollary bs_affine_default c a x df degree intercept ys :
  0 < c ->
  bs_call (map (aff c a) x) (Some df) None degree intercept None None (map (aff c a) ys)
  = bs_call x (Some df) None degree intercept None None ys.
Proof. intros Hc. apply (bs_affine c a Hc x (Some df) None degree intercept None None). Qed.

(* c < 0 reverses the order of the basis functions: not invariant *)
Theorem bs_affine_neg_refuted :
  exists c a x df degree intercept ys,
    c < 0 /\
    bs_call (map (aff c a) x) (Some df) None degree intercept None None (map (aff c a) ys)
    <> bs_call x (Some df) None degree intercept None None ys.
Proof.
  exists (Q2Qc (-1)), 0, [0; 1; Q2Qc 2], 3%Z, 1%Z, true, [0].
  split; [reflexivity|]. intros H.
  apply (f_equal (fun r => match r with
                           | Ok ((v :: _) :: _) => qeqb v 1
                           | _ => false end)) in H.
  vm_compute in H. discriminate H.
Qed.

(* ---- examples ---- *)
Lemma res_mat_eq (r : res (list (list Qc))) M :
  match r with Ok m => qmat_eqb m M | Err _ => false end = true -> r = Ok M.
Proof. destruct r as [m|e]; [|discriminate]. intros H. f_equal. apply qmat_eqb_true. exact H. Qed.

Example bs_affine_ex :
  let f := aff (qq 9 5) (qq 32 1) in
  let x := [qq 0 1; qq 1 4; qq 1 2; qq 3 4; qq 1 1; qq 3 2; qq 2 1] in
  let ys := [qq 1 3; qq 2 1; qq 5 2] in
  bs_call x (Some 5%Z) None 3 false None None ys
  = Ok [[qq 14 27; qq 11 27; qq 1 27; qq 0 1; qq 0 1];
        [qq 0 1; qq 0 1; qq 0 1; qq 0 1; qq 1 1];
        (* 5/2 lies beyond the upper bound 2: extrapolation by the last polynomial piece *)
        [qq 0 1; qq (-1) 24; qq 49 72; qq (-217) 72; qq 27 8]] /\
  bs_call (map f x) (Some 5%Z) None 3 false None None (map f ys)
  = bs_call x (Some 5%Z) None 3 false None None ys.
Proof.
  cbn zeta. split.
  - apply res_mat_eq. vm_compute. reflexivity.
  - apply bs_affine_default. reflexivity.
Qed.

Print Assumptions bs_init_aff.
Print Assumptions bs_row_aff.
Print Assumptions bs_affine.
Print Assumptions bs_affine_explicit.
Print Assumptions bs_affine_default.
Print Assumptions bs_affine_neg_refuted.
