(* C09, clause "missing values in unused columns are ignored": a term that is added and then
   removed again by "-" leaves the described model UNCHANGED (the very same [model] value), so the
   variable is not used, whatever its column holds.

   1. [resolve_inv]: a general invariant of [resolve]: every component of every term of a resolved
      value satisfies any predicate that holds of the components of atoms.  Instance [resolve_rc]:
      every component is equal to itself for [comp_eqb], and no variable component is named by a
      string LITERAL (string literals are turned into plain names).
   2. [add_sub_value] / [describe_add_sub]: y ~ r + t - t  describes as  y ~ r  when t resolves to a
      single term that is not a common term of the model; [describe_add_sub_var],
      [describe_add_sub_unread] for a variable that no common term reads.
      The only right-hand sides excluded are those that resolve to a BARE group term (a hand-built
      tree  y ~ (1|g), never the parser's tree of a text, which starts with "1 +"): there
      (1|g) + z is a TypeError in the library and in the model ([bare_group_refuted]).
   3. [used_cols_add_sub], [design_add_sub]: same used columns, same design, every frame / policy.
   4. The contrast: x*z - z keeps x:z, which reads z ([star_minus_keeps]).  *)
From Verif Require Import Base Tokens Scanner Parser Lazy Algebra Coding Contrasts Frame Eval Design
  Wilkinson CompEq ListSet AlgebraRefines KeywordOrder DesignStructure FrameStructure.
From Coq Require Import Lia.
Local Close Scope Qc_scope.
Local Close Scope Q_scope.
Local Open Scope string_scope.
Local Open Scope list_scope.

(* ================================================================== *)
(** * 1. An invariant of [resolve]: where the components come from *)

Section CompInv.
Variable Q : comp -> Prop.

Definition termQ (t : term) : Prop := Forall Q t.
Definition ctermQ (c : cterm) : Prop := match c with CT t => termQ t | _ => True end.
Definition gtermQ (g : gterm) : Prop := ctermQ (gexpr g) /\ ctermQ (gfactor g).
Definition anyQ (a : anyterm) : Prop := match a with AC c => ctermQ c | AG g => gtermQ g end.
Definition modelQ (m : model) : Prop :=
  (forall t, resp m = Some t -> termQ t) /\ Forall ctermQ (commons m) /\ Forall gtermQ (groups m).
Definition valueQ (v : value) : Prop :=
  match v with
  | VT t | VR t => termQ t
  | VG g => gtermQ g
  | VM m => modelQ m
  | _ => True
  end.

Lemma dedupQ {T} (P : T -> Prop) eqb l : forall acc,
  Forall P acc -> Forall P l -> Forall P (dedup eqb acc l).
Proof.
  induction l as [|x l IH]; intros acc Ha Hl; cbn [dedup]; [exact Ha|].
  pose proof (Forall_inv Hl) as Hx. pose proof (Forall_inv_tail Hl) as Hr.
  destruct (existsb (eqb x) acc); apply IH; auto. apply Forall_app. split; [exact Ha|constructor; [exact Hx|constructor]].
Qed.

Lemma remove_firstQ {T} (P : T -> Prop) eqb x l : Forall P l -> Forall P (remove_first eqb x l).
Proof.
  induction 1 as [|y l Hy Hl IH]; cbn [remove_first]; [constructor|]. destruct (eqb x y); [exact Hl|constructor; assumption].
Qed.

Lemma mk_termQ l : termQ l -> termQ (mk_term l).
Proof. intros H. unfold mk_term. rewrite dedup_comps_dedup. apply dedupQ; [constructor|exact H]. Qed.

Lemma appQ a b : termQ a -> termQ b -> termQ (a ++ b).
Proof. intros. apply Forall_app. split; assumption. Qed.

Lemma mk_modelQ ts r :
  Forall anyQ ts -> (forall t, r = Some t -> termQ t) -> modelQ (mk_model ts r).
Proof.
  intros Hts Hr. unfold mk_model, modelQ. cbn [resp commons groups]. split; [exact Hr|]. split.
  - apply dedupQ; [constructor|].
    induction Hts as [|a ts Ha _ IH]; cbn [flat_map]; [constructor|].
    destruct a as [c|g]; cbn [app]; [constructor; [exact Ha|exact IH]|exact IH].
  - apply dedupQ; [constructor|].
    induction Hts as [|a ts Ha _ IH]; cbn [flat_map]; [constructor|].
    destruct a as [c|g]; cbn [app]; [exact IH|constructor; [exact Ha|exact IH]].
Qed.

Lemma model_termsQ m : modelQ m -> Forall anyQ (model_terms m).
Proof.
  intros (_ & Hc & Hg). unfold model_terms. apply Forall_app. split; apply Forall_map; assumption.
Qed.

Lemma add_termQ m a m' : modelQ m -> anyQ a -> add_term m a = Ok m' -> modelQ m'.
Proof.
  intros (Hr & Hc & Hg) Ha H. destruct a as [c|g]; cbn [add_term] in H.
  - destruct c; try discriminate H; injection H as <-;
      (destruct (cmem _ (commons m)); [repeat split; assumption|]);
      (split; [exact Hr|split; [|exact Hg]]); cbn [commons];
      apply Forall_app; (split; [exact Hc|constructor; [exact Ha|constructor]]).
  - injection H as <-. destruct (gmem g (groups m)); [repeat split; assumption|].
    split; [exact Hr|split; [exact Hc|]]. cbn [groups]. apply Forall_app. split; [exact Hg|constructor; [exact Ha|constructor]].
Qed.

Lemma add_termsQ l : forall m m', modelQ m -> Forall anyQ l -> add_terms m l = Ok m' -> modelQ m'.
Proof.
  induction l as [|a l IH]; intros m m' Hm Hl H; cbn [add_terms] in H; [injection H as <-; exact Hm|].
  apply bind_ok in H as (m1 & H1 & H). eapply IH; [|exact (Forall_inv_tail Hl)|exact H].
  eapply add_termQ; [exact Hm|exact (Forall_inv Hl)|exact H1].
Qed.

Lemma model_subQ m v m' : modelQ m -> model_sub m v = Ok m' -> modelQ m'.
Proof.
  intros Hm H. destruct v as [| |t|g|t|o]; cbn [model_sub] in H; try discriminate H; injection H as <-.
  - destruct Hm as (Hr & Hc & Hg). destruct (cmem CI (commons m)); [|repeat split; assumption].
    split; [exact Hr|split; [|exact Hg]]. apply remove_firstQ. exact Hc.
  - destruct Hm as (Hr & Hc & Hg). destruct (cmem (CT t) (commons m)); [|repeat split; assumption].
    split; [exact Hr|split; [|exact Hg]]. apply remove_firstQ. exact Hc.
  - destruct Hm as (Hr & Hc & Hg). destruct (gmem g (groups m)); [|repeat split; assumption].
    split; [exact Hr|split; [exact Hc|]]. apply remove_firstQ. exact Hg.
  - revert m Hm. induction (model_terms o) as [|a l IH]; intros m Hm; cbn [fold_left]; [exact Hm|].
    apply IH. destruct Hm as (Hr & Hc & Hg). destruct a as [c|g].
    + destruct (cmem c (commons m)); [|repeat split; assumption].
      split; [exact Hr|split; [|exact Hg]]. apply remove_firstQ. exact Hc.
    + destruct (gmem g (groups m)); [|repeat split; assumption].
      split; [exact Hr|split; [exact Hc|]]. apply remove_firstQ. exact Hg.
Qed.

Lemma model_addQ m v m' : modelQ m -> valueQ v -> model_add m v = Ok m' -> modelQ m'.
Proof.
  intros Hm Hv H. destruct v as [| |t|g|t|o]; unfold model_add in H.
  - eapply add_termQ; [exact Hm| |exact H]. exact I.
  - eapply model_subQ; [exact Hm|exact H].
  - eapply add_termQ; [exact Hm| |exact H]. exact Hv.
  - eapply add_termQ; [exact Hm| |exact H]. exact Hv.
  - discriminate H.
  - eapply add_termsQ; [exact Hm| |exact H]. apply model_termsQ. exact Hv.
Qed.

Lemma comps_ofQ c t : ctermQ c -> comps_of c = Ok t -> termQ t.
Proof. destruct c; cbn; intros H E; try discriminate E. injection E as <-. exact H. Qed.

Lemma interactionsQ ls rs it :
  Forall ctermQ ls -> Forall ctermQ rs -> interactions ls rs = Ok it -> Forall anyQ it.
Proof.
  intros Hl Hr H. unfold interactions in H. apply mapM_ok in H.
  assert (Hp : Forall (fun p => ctermQ (fst p) /\ ctermQ (snd p)) (list_prod ls rs)).
  { apply Forall_forall. intros [a b] Hin. apply in_prod_iff in Hin as [Ha Hb].
    rewrite Forall_forall in Hl, Hr. split; [exact (Hl a Ha)|exact (Hr b Hb)]. }
  induction H as [|p a ps its Hpa _ IH]; constructor; [|apply IH; exact (Forall_inv_tail Hp)].
  pose proof (Forall_inv Hp) as [H0 H1]. apply bind_ok in Hpa as (x & Hx & Hpa).
  apply bind_ok in Hpa as (y & Hy & Hpa). injection Hpa as <-. cbn [anyQ ctermQ].
  apply mk_termQ, appQ; [exact (comps_ofQ _ _ H0 Hx)|exact (comps_ofQ _ _ H1 Hy)].
Qed.

Lemma empty_modelQ : modelQ empty_model.
Proof. split; [discriminate|split; constructor]. Qed.

Lemma singleQ {T} (P : T -> Prop) x : P x -> Forall P [x].
Proof. intros H. constructor; [exact H|constructor]. Qed.

Ltac q_list := solve [repeat first [apply Forall_nil | apply Forall_cons]; cbn [anyQ ctermQ gtermQ gexpr gfactor];
                      first [exact I | assumption | split; first [exact I | assumption]]].
Ltac q_model := apply mk_modelQ; [q_list|first [discriminate | intros ? [= <-]; assumption]].

Lemma v_addQ a b v : valueQ a -> valueQ b -> v_add a b = Ok v -> valueQ v.
Proof.
  intros Ha Hb H. destruct a as [| |t|g|t|m]; unfold v_add in H.
  - destruct b as [| |t'|g'|t'|o]; try discriminate H;
      try (injection H as <-; cbn [valueQ]; first [exact I | apply empty_modelQ | q_model]).
    apply bind_ok in H as (m' & Hm & H). injection H as <-.
    eapply (model_addQ _ (VM o)); [|exact Hb|exact Hm]. q_model.
  - destruct b as [| |t'|g'|t'|o]; try discriminate H;
      try (injection H as <-; cbn [valueQ]; first [exact I | apply empty_modelQ | q_model]).
    apply bind_ok in H as (m' & Hm & H). injection H as <-.
    eapply (model_addQ _ (VM o)); [|exact Hb|exact Hm]. q_model.
  - destruct b as [| |t'|g'|t'|o]; try discriminate H.
    + destruct (term_eqb t t'); injection H as <-; [exact Ha|]. cbn [valueQ]. q_model.
    + apply bind_ok in H as (m' & Hm & H). injection H as <-.
      eapply (model_addQ _ (VM o)); [|exact Hb|exact Hm]. q_model.
  - discriminate H.
  - destruct b as [| |t'|g'|t'|o]; try discriminate H; injection H as <-; cbn [valueQ]; try q_model.
    destruct Hb as (_ & Hc & Hg). split; [intros ? [= <-]; exact Ha|split; assumption].
  - apply bind_ok in H as (m' & Hm & H). injection H as <-. eapply model_addQ; eassumption.
Qed.

Lemma v_subQ a b v : valueQ a -> valueQ b -> v_sub a b = Ok v -> valueQ v.
Proof.
  intros Ha Hb H. destruct a as [| |t|g|t|m]; cbn [v_sub] in H; try discriminate H.
  - destruct b as [| |t'|g'|t'|o]; try discriminate H.
    + injection H as <-. apply empty_modelQ.
    + injection H as <-. exact I.
    + destruct (cmem CI (commons o)); injection H as <-; [apply empty_modelQ|exact I].
  - destruct b as [| |t'|g'|t'|o]; try discriminate H.
    + destruct (term_eqb t t'); injection H as <-; [apply empty_modelQ|exact Ha].
    + destruct (existsb _ _); injection H as <-; [apply empty_modelQ|exact Ha].
  - apply bind_ok in H as (m' & Hm & H). injection H as <-. eapply model_subQ; eassumption.
Qed.

Lemma v_matmulQ a b v : valueQ a -> valueQ b -> v_matmul a b = Ok v -> valueQ v.
Proof.
  intros Ha Hb H. destruct a as [| |t|g|t|m]; cbn [v_matmul] in H; try discriminate H.
  - destruct b as [| |t'|g'|t'|o]; try discriminate H.
    + destruct (term_eqb t t'); [injection H as <-; exact Ha|].
      destruct (single_numeric t'); [discriminate H|]. injection H as <-. cbn [valueQ].
      apply mk_termQ, appQ; assumption.
    + apply bind_ok in H as (it & Hit & H). injection H as <-. cbn [valueQ].
      apply mk_modelQ; [|discriminate]. eapply interactionsQ; [| |exact Hit]; [apply singleQ; exact Ha|apply Hb].
  - destruct Ha as (_ & Hc & _).
    destruct b as [| |t'|g'|t'|o]; try discriminate H;
      apply bind_ok in H as (it & Hit & H); injection H as <-; cbn [valueQ];
      (apply mk_modelQ; [|discriminate]); (eapply interactionsQ; [| |exact Hit]); try exact Hc.
    + apply singleQ; exact Hb.
    + apply Hb.
Qed.

Lemma map_ACQ cs : Forall ctermQ cs -> Forall anyQ (map AC cs).
Proof. intros H. apply Forall_map. exact H. Qed.

Lemma v_mulQ a b v : valueQ a -> valueQ b -> v_mul a b = Ok v -> valueQ v.
Proof.
  intros Ha Hb H. destruct a as [| |t|g|t|m]; cbn [v_mul] in H; try discriminate H.
  - destruct b as [| |t'|g'|t'|o]; try discriminate H.
    + destruct (term_eqb t t'); [injection H as <-; exact Ha|].
      destruct (single_numeric t'); [discriminate H|]. injection H as <-. cbn [valueQ].
      apply mk_modelQ; [|discriminate]. repeat constructor; cbn [anyQ ctermQ]; auto.
      apply mk_termQ, appQ; assumption.
    + apply bind_ok in H as (it & Hit & H). apply bind_ok in H as (m' & Hm & H). injection H as <-. cbn [valueQ].
      destruct Hb as (_ & Hc & _).
      eapply add_termsQ; [| |exact Hm].
      * apply mk_modelQ; [|discriminate]. constructor; [exact Ha|apply map_ACQ; exact Hc].
      * apply model_termsQ. apply mk_modelQ; [|discriminate].
        eapply interactionsQ; [| |exact Hit]; [apply singleQ; exact Ha|exact Hc].
  - destruct Ha as (_ & Hc & _). destruct b as [| |t'|g'|t'|o]; try discriminate H.
    + destruct (single_numeric t'); [discriminate H|].
      apply bind_ok in H as (it & Hit & H). apply bind_ok in H as (m' & Hm & H). injection H as <-. cbn [valueQ].
      eapply add_termsQ; [| |exact Hm].
      * apply mk_modelQ; [|discriminate]. apply map_ACQ. apply Forall_app. split; [exact Hc|apply singleQ; exact Hb].
      * apply model_termsQ. apply mk_modelQ; [|discriminate].
        eapply interactionsQ; [| |exact Hit]; [exact Hc|apply singleQ; exact Hb].
    + apply bind_ok in H as (it & Hit & H). apply bind_ok in H as (m' & Hm & H). injection H as <-. cbn [valueQ].
      destruct Hb as (_ & Hco & _).
      eapply add_termsQ; [| |exact Hm].
      * apply mk_modelQ; [|discriminate]. apply map_ACQ. apply Forall_app. split; assumption.
      * apply model_termsQ. apply mk_modelQ; [|discriminate]. eapply interactionsQ; [| |exact Hit]; assumption.
Qed.

Lemma common_componentsQ m : Forall ctermQ (commons m) -> termQ (common_components m).
Proof.
  unfold common_components. induction 1 as [|c l Hc _ IH]; cbn [flat_map]; [constructor|].
  apply appQ; [|exact IH]. destruct c; [constructor|constructor|exact Hc].
Qed.

Lemma v_divQ a b v : valueQ a -> valueQ b -> v_div a b = Ok v -> valueQ v.
Proof.
  intros Ha Hb H. destruct a as [| |t|g|t|m]; unfold v_div in H; try discriminate H.
  - destruct b as [| |t'|g'|t'|o]; try discriminate H.
    + destruct (term_eqb t t'); [injection H as <-; exact Ha|].
      destruct (single_numeric t'); [discriminate H|]. injection H as <-. cbn [valueQ].
      apply mk_modelQ; [|discriminate]. repeat constructor; cbn [anyQ ctermQ]; auto.
      apply mk_termQ, appQ; assumption.
    + apply bind_ok in H as (it & Hit & H). apply bind_ok in H as (m' & Hm & H). injection H as <-. cbn [valueQ].
      eapply add_termsQ; [| |exact Hm].
      * apply mk_modelQ; [|discriminate]. apply singleQ. exact Ha.
      * apply model_termsQ. apply mk_modelQ; [|discriminate].
        eapply interactionsQ; [| |exact Hit]; [apply singleQ; exact Ha|apply Hb].
  - pose proof (common_componentsQ m (proj1 (proj2 Ha))) as Hcc.
    destruct b as [| |t'|g'|t'|o]; try discriminate H.
    + apply bind_ok in H as (m' & Hm & H). injection H as <-. cbn [valueQ].
      eapply add_termQ; [exact Ha| |exact Hm]. cbn [anyQ ctermQ]. apply mk_termQ, appQ; assumption.
    + apply bind_ok in H as (m' & Hm & H). injection H as <-. cbn [valueQ].
      eapply add_termsQ; [exact Ha| |exact Hm]. apply model_termsQ. apply mk_modelQ; [|discriminate].
      destruct Hb as (_ & Hco & _). clear Hm. induction Hco as [|c l Hc _ IH]; cbn [flat_map]; [constructor|].
      destruct c; cbn [app]; try exact IH. constructor; [|exact IH].
      cbn [anyQ ctermQ]. apply mk_termQ, appQ; assumption.
Qed.

Lemma combinations_incl {T} (l : list T) : forall k cs, In cs (combinations l k) -> incl cs l.
Proof.
  induction l as [|x l IH]; intros [|k] cs H; cbn [combinations] in H.
  - destruct H as [<-|[]]. intros ? [].
  - contradiction.
  - destruct H as [<-|[]]. intros ? [].
  - apply in_app_or in H as [H|H].
    + apply in_map_iff in H as (cs' & <- & H). pose proof (IH _ _ H) as I.
      intros y [<-|Hy]; [left; reflexivity|right; apply I; exact Hy].
    + pose proof (IH _ _ H) as I. intros y Hy. right. apply I. exact Hy.
Qed.

Lemma mapM_comps_ofQ cs : forall ts, Forall ctermQ cs -> mapM comps_of cs = Ok ts -> termQ (List.concat ts).
Proof.
  induction cs as [|c cs IH]; intros ts Hc H; cbn [mapM] in H.
  - injection H as <-. constructor.
  - apply bind_ok in H as (t0 & Ht0 & H). apply bind_ok in H as (ts' & Hts & H). injection H as <-.
    cbn [List.concat]. apply appQ.
    + eapply comps_ofQ; [exact (Forall_inv Hc)|exact Ht0].
    + apply IH; [exact (Forall_inv_tail Hc)|exact Hts].
Qed.

Lemma v_powQ a b v : valueQ a -> valueQ b -> v_pow a b = Ok v -> valueQ v.
Proof.
  intros Ha Hb H. destruct a as [| |t|g|t|m]; unfold v_pow in H; try discriminate H.
  - destruct b as [| |t'|g'|t'|o]; try discriminate H. destruct (pow_value t'); [|discriminate H].
    injection H as <-. exact Ha.
  - destruct b as [| |t'|g'|t'|o]; try discriminate H. destruct t' as [|c [|c' r]]; try discriminate H.
    destruct (pow_value [c]) as [z|]; [|discriminate H].
    apply bind_ok in H as (it & Hit & H). apply bind_ok in H as (m' & Hm & H). injection H as <-. cbn [valueQ].
    eapply add_termsQ; [exact Ha| |exact Hm]. apply model_termsQ. apply mk_modelQ; [|discriminate].
    destruct Ha as (_ & Hc & _). apply mapM_ok in Hit.
    assert (Hcombs : Forall (Forall ctermQ)
                            (flat_map (fun i => combinations (commons m) i) (seq 2 (Z.to_nat z - 1)))).
    { apply Forall_forall. intros cs Hin. apply in_flat_map in Hin as (i & Hi & Hin).
      pose proof (combinations_incl _ _ _ Hin) as I.
      apply Forall_forall. intros x Hx. rewrite Forall_forall in Hc. apply Hc. apply I. exact Hx. }
    clear Hm. induction Hit as [|cs a combs its Hcs _ IH]; [constructor|].
    constructor; [|apply IH; exact (Forall_inv_tail Hcombs)].
    apply bind_ok in Hcs as (ts & Hts & Hcs). injection Hcs as <-.
    cbn [anyQ ctermQ]. apply mk_termQ. eapply mapM_comps_ofQ; [exact (Forall_inv Hcombs)|exact Hts].
Qed.

Lemma or_ctermQ c b v : ctermQ c -> valueQ b -> or_cterm c b = Ok v -> valueQ v.
Proof.
  intros Hc Hb H. destruct c as [| |t]; cbn [or_cterm] in H; try discriminate H.
  - destruct b as [| |f|g'|t'|o]; try discriminate H; injection H as <-; cbn [valueQ].
    + split; [exact I|exact Hb].
    + apply mk_modelQ; [|discriminate]. destruct Hb as (_ & Hco & _). apply Forall_map.
      eapply Forall_impl; [|exact Hco]. intros p Hp. split; [exact I|exact Hp].
  - destruct b as [| |f|g'|t'|o]; try discriminate H; injection H as <-; cbn [valueQ].
    + apply mk_modelQ; [|discriminate]. repeat constructor; cbn; auto.
    + apply mk_modelQ; [|discriminate]. destruct Hb as (_ & Hco & _). apply Forall_app.
      split; apply Forall_map; (eapply Forall_impl; [|exact Hco]); intros p Hp; (split; [|exact Hp]); cbn; auto.
Qed.

Lemma gprodQ cs ps :
  Forall ctermQ cs -> Forall ctermQ ps ->
  Forall anyQ (map (fun p => AG (GT (fst p) (snd p))) (list_prod cs ps)).
Proof.
  intros Hc Hp. apply Forall_map. apply Forall_forall. intros [a b] Hin. apply in_prod_iff in Hin as [Ha Hb'].
  rewrite Forall_forall in Hc, Hp. split; cbn; auto.
Qed.

Lemma v_orQ a b v : valueQ a -> valueQ b -> v_or a b = Ok v -> valueQ v.
Proof.
  intros Ha Hb H. destruct a as [| |t|g|t|m]; unfold v_or in H; try discriminate H.
  - eapply or_ctermQ; [|exact Hb|exact H]. exact I.
  - eapply or_ctermQ; [|exact Hb|exact H]. exact Ha.
  - destruct Ha as (_ & Hc & _).
    set (cs := commons m) in *.
    assert (Hcs' : Forall ctermQ
              (if cmem CI cs && cmem CN cs then remove_first cterm_eqb CN (remove_first cterm_eqb CI cs)
               else if cmem CN cs then remove_first cterm_eqb CN cs
               else if negb (cmem CI cs) then CI :: cs else cs)).
    { destruct (cmem CI cs && cmem CN cs); [apply remove_firstQ, remove_firstQ; exact Hc|].
      destruct (cmem CN cs); [apply remove_firstQ; exact Hc|].
      destruct (negb (cmem CI cs)); [constructor; [exact I|exact Hc]|exact Hc]. }
    assert (G : forall ps, Forall ctermQ ps ->
              modelQ (mk_model (map (fun p => AG (GT (fst p) (snd p)))
                (list_prod (if cmem CI cs && cmem CN cs then remove_first cterm_eqb CN (remove_first cterm_eqb CI cs)
                            else if cmem CN cs then remove_first cterm_eqb CN cs
                            else if negb (cmem CI cs) then CI :: cs else cs) ps)) None)).
    { intros ps Hps. apply mk_modelQ; [|discriminate]. apply gprodQ; assumption. }
    clear Hcs'. destruct cs as [|c0 [|c1 cs]].
    + destruct b as [| |f|g'|t'|o]; try discriminate H; injection H as <-.
      * exact (G [CT f] (singleQ ctermQ (CT f) Hb)).
      * exact (G (commons o) (proj1 (proj2 Hb))).
    + eapply or_ctermQ; [exact (Forall_inv Hc)|exact Hb|exact H].
    + destruct b as [| |f|g'|t'|o]; try discriminate H; injection H as <-.
      * exact (G [CT f] (singleQ ctermQ (CT f) Hb)).
      * exact (G (commons o) (proj1 (proj2 Hb))).
Qed.

Lemma apply_binopQ o a b v : valueQ a -> valueQ b -> Algebra.apply_binop o a b = Ok v -> valueQ v.
Proof.
  intros Ha Hb H. destruct o; unfold Algebra.apply_binop in H.
  - apply bind_ok in H as (r & Hr & H). eapply v_addQ; [|exact Hb|exact H].
    unfold mk_response in Hr. destruct a as [| |[|c [|c' t]]| | |]; try discriminate Hr. injection Hr as <-.
    exact Ha.
  - eapply v_addQ; [exact Ha|exact Hb|exact H].
  - eapply v_subQ; [exact Ha|exact Hb|exact H].
  - eapply v_powQ; [exact Ha|exact Hb|exact H].
  - eapply v_matmulQ; [exact Ha|exact Hb|exact H].
  - eapply v_mulQ; [exact Ha|exact Hb|exact H].
  - eapply v_divQ; [exact Ha|exact Hb|exact H].
  - eapply v_orQ; [exact Ha|exact Hb|exact H].
Qed.

(* what the atoms put into a term *)
Hypothesis Q_call : forall l, lazy_ok l -> Q (CCall l).
Hypothesis Q_name : forall s lv, Q (CVar (NStr s) lv).
Hypothesis Q_lit : forall v, (forall s, v <> LStr s) -> Q (CVar (NLit v) None).

Theorem resolve_inv e : forall v, resolve e = Ok v -> valueQ v.
Proof.
  induction e as [nm IHn vl IHv|e IH|l IHl op r IHr|op r IH|callee IHc args|name level|t|lit lx];
    intros v H; cbn [resolve] in H.
  - discriminate H.
  - apply IH. exact H.
  - destruct (lookup_kind (tkind op) resolver_ops) as [o|]; [|discriminate H].
    apply bind_ok in H as (a & Ea & H). apply bind_ok in H as (b & Eb & H).
    eapply apply_binopQ; [apply IHl; exact Ea|apply IHr; exact Eb|exact H].
  - destruct (tkind op); try discriminate H.
    + apply IH. exact H.
    + apply bind_ok in H as (w & Ew & H). destruct w; try discriminate H; injection H as <-; exact I.
  - apply bind_ok in H as (l & El & H). injection H as <-. cbn [valueQ]. apply singleQ.
    apply Q_call. exact (call_resolve_good _ _ El).
  - destruct level as [[]|]; try discriminate H.
    + destruct v0; try discriminate H. injection H as <-. apply singleQ, Q_name.
    + injection H as <-. apply singleQ, Q_name.
  - injection H as <-. apply singleQ, Q_name.
  - destruct (lit_is 0 lit); [injection H as <-; exact I|].
    destruct (lit_is 1 lit); [injection H as <-; exact I|]. injection H as <-. apply singleQ.
    destruct lit; try apply Q_name; apply Q_lit; discriminate.
Qed.

Corollary describe_inv e m : describe e = Ok m -> modelQ m.
Proof.
  unfold describe. intros H. apply bind_ok in H as (v & Ev & H). pose proof (resolve_inv e v Ev) as Hv.
  destruct v; try discriminate H; injection H as <-; try exact Hv; apply mk_modelQ;
    try discriminate; apply singleQ; first [exact I | exact Hv].
Qed.
End CompInv.

(* ---- the instance: self-equal components, no string-literal names ---- *)
Definition rc (c : comp) : Prop :=
  comp_eqb c c = true /\ forall s lv, c <> CVar (NLit (LStr s)) lv.

Theorem resolve_rc e v : resolve e = Ok v -> valueQ rc v.
Proof.
  apply resolve_inv.
  - intros l Hl. split; [cbn [comp_eqb]; apply lazy_eqb_refl; exact Hl|discriminate].
  - intros s lv. split; [|discriminate]. cbn [comp_eqb vname_eqb].
    rewrite String.eqb_refl, option_string_eqb_refl. reflexivity.
  - intros v0 Hv. split.
    + cbn [comp_eqb]. replace (vname_eqb (NLit v0) (NLit v0)) with (lit_eqb v0 v0) by (destruct v0; reflexivity).
      rewrite lit_eqb_refl. reflexivity.
    + intros s lv E. injection E as E _. exact (Hv s E).
Qed.

Corollary describe_rc e m : describe e = Ok m -> modelQ rc m.
Proof.
  apply describe_inv.
  - intros l Hl. split; [cbn [comp_eqb]; apply lazy_eqb_refl; exact Hl|discriminate].
  - intros s lv. split; [|discriminate]. cbn [comp_eqb vname_eqb].
    rewrite String.eqb_refl, option_string_eqb_refl. reflexivity.
  - intros v0 Hv. split.
    + cbn [comp_eqb]. replace (vname_eqb (NLit v0) (NLit v0)) with (lit_eqb v0 v0) by (destruct v0; reflexivity).
      rewrite lit_eqb_refl. reflexivity.
    + intros s lv E. injection E as E _. exact (Hv s E).
Qed.

Lemma term_eqb_refl_rc t : termQ rc t -> term_eqb t t = true.
Proof.
  intros H. unfold term_eqb.
  assert (A : forallb (fun x => existsb (comp_eqb x) t) t = true).
  { apply forallb_forall. intros x Hx. apply existsb_exists. exists x. split; [exact Hx|].
    unfold termQ in H. rewrite Forall_forall in H. exact (proj1 (H x Hx)). }
  rewrite A. reflexivity.
Qed.

Lemma cterm_eqb_refl_rc c : ctermQ rc c -> cterm_eqb c c = true.
Proof. destruct c; cbn; auto using term_eqb_refl_rc. Qed.

Lemma gterm_eqb_refl_rc g : gtermQ rc g -> gterm_eqb g g = true.
Proof. intros [A B]. unfold gterm_eqb. rewrite !cterm_eqb_refl_rc; auto. Qed.

Lemma term_eqb_comm a b : term_eqb a b = term_eqb b a.
Proof. unfold term_eqb. apply andb_comm. Qed.

(* ================================================================== *)
(** * 2. Adding a term and removing it again *)

Lemma remove_first_snoc {T} (eqb : T -> T -> bool) x l :
  existsb (eqb x) l = false -> eqb x x = true -> remove_first eqb x (l ++ [x]) = l.
Proof.
  intros Hn Hx. induction l as [|y l IH]; cbn [app remove_first]; [rewrite Hx; reflexivity|].
  cbn [existsb] in Hn. apply orb_false_iff in Hn as [Hy Hl]. rewrite Hy, (IH Hl). reflexivity.
Qed.

Lemma mod_eta m : Mod (resp m) (commons m) (groups m) = m.
Proof. destruct m; reflexivity. Qed.

(* the model that [describe] would wrap a resolved right-hand side into; a bare group term and a
   response have none here: GroupSpecificTerm has no __add__ *)
Definition lift (v : value) : option model :=
  match v with
  | VM m => Some m
  | VI => Some (mk_model [AC CI] None)
  | VN => Some (mk_model [AC CN] None)
  | VT t => Some (mk_model [AC (CT t)] None)
  | VG _ | VR _ => None
  end.

(* r + t: the term is appended at the end ... *)
Lemma add_fresh_value vr t m :
  lift vr = Some m -> cmem (CT t) (commons m) = false ->
  v_add vr (VT t) = Ok (VM (Mod (resp m) (commons m ++ [CT t]) (groups m))).
Proof.
  intros L F. destruct vr as [| |t0|g|t0|m0]; cbn [lift] in L; try discriminate L; injection L as <-.
  - reflexivity.
  - reflexivity.
  - cbn in F. rewrite orb_false_r in F. cbn [v_add]. rewrite term_eqb_comm, F.
    unfold mk_model. cbn. rewrite F. reflexivity.
  - cbn [v_add model_add add_term bind]. rewrite F. reflexivity.
Qed.

(* ... and (r + t) - t removes exactly that last one *)
Lemma sub_last_value m t :
  cmem (CT t) (commons m) = false -> term_eqb t t = true ->
  v_sub (VM (Mod (resp m) (commons m ++ [CT t]) (groups m))) (VT t) = Ok (VM m).
Proof.
  intros F R. cbn [v_sub model_sub bind commons groups resp]. unfold cmem in *.
  rewrite existsb_app. cbn [existsb cterm_eqb]. rewrite R, orb_true_r.
  rewrite (remove_first_snoc cterm_eqb (CT t) (commons m) F R), mod_eta. reflexivity.
Qed.

Theorem add_sub_value vr t m :
  lift vr = Some m -> term_eqb t t = true -> cmem (CT t) (commons m) = false ->
  (do a <- v_add vr (VT t); v_sub a (VT t)) = Ok (VM m).
Proof.
  intros L R F. rewrite (add_fresh_value vr t m L F). cbn [bind]. apply sub_last_value; assumption.
Qed.

(* ---- the same for a whole parenthesised model: r + (a + b) - (a + b),  r + (z|g) - (z|g) ---- *)
Lemma dedup_fresh {T} (eqb : T -> T -> bool) xs : forall acc,
  (forall x, In x xs -> existsb (eqb x) acc = false) ->
  ForallOrdPairs (fun a b => eqb b a = false) xs ->
  dedup eqb acc xs = acc ++ xs.
Proof.
  induction xs as [|x xs IH]; intros acc Hf Hp; cbn [dedup]; [rewrite app_nil_r; reflexivity|].
  rewrite (Hf x (or_introl eq_refl)). inversion Hp as [|a l Hx Hp']; subst.
  rewrite IH; [rewrite <- app_assoc; reflexivity| |exact Hp'].
  intros y Hy. rewrite existsb_app. cbn [existsb]. rewrite (Hf y (or_intror Hy)).
  rewrite Forall_forall in Hx. rewrite (Hx y Hy). reflexivity.
Qed.

Lemma rm_all_fresh {T} (eqb : T -> T -> bool) xs : forall acc,
  (forall x, In x xs -> existsb (eqb x) acc = false) ->
  (forall x, In x xs -> eqb x x = true) ->
  rm_all eqb xs (acc ++ xs) = acc.
Proof.
  induction xs as [|x xs IH]; intros acc Hf Hr; cbn [rm_all fold_left]; [apply app_nil_r|].
  fold (rm_all eqb xs (rm eqb x (acc ++ x :: xs))).
  assert (E : rm eqb x (acc ++ x :: xs) = acc ++ xs).
  { unfold rm, mem. rewrite existsb_app. cbn [existsb]. rewrite (Hr x (or_introl eq_refl)), orb_true_r.
    pose proof (Hf x (or_introl eq_refl)) as Hx. clear - Hx Hr.
    induction acc as [|y acc IHa]; cbn [app remove_first].
    - rewrite (Hr x (or_introl eq_refl)). reflexivity.
    - cbn [existsb] in Hx. apply orb_false_iff in Hx as [Hy Hl]. rewrite Hy, (IHa Hl). reflexivity. }
  rewrite E. apply IH; intros y Hy; [apply Hf|apply Hr]; right; exact Hy.
Qed.

(* no term of [o] is a term of [m], and the terms of [o] are pairwise different *)
Definition fresh_for (m o : model) : Prop :=
  ~ In CN (commons o) /\
  (forall c, In c (commons o) -> cmem c (commons m) = false) /\
  ForallOrdPairs (fun a b => cterm_eqb b a = false) (commons o) /\
  (forall g, In g (groups o) -> gmem g (groups m) = false) /\
  ForallOrdPairs (fun a b => gterm_eqb b a = false) (groups o).

Theorem add_sub_model m o :
  fresh_for m o -> modelQ rc o ->
  (do a <- model_add m (VM o); model_sub a (VM o)) = Ok m.
Proof.
  intros (Hn & Hc & Hcp & Hg & Hgp) (_ & Qc & Qg). cbn [model_add].
  rewrite (add_terms_model m o Hn). cbn [bind]. rewrite model_sub_model. cbn [resp commons groups].
  rewrite (dedup_fresh cterm_eqb (commons o) (commons m) Hc Hcp),
          (dedup_fresh gterm_eqb (groups o) (groups m) Hg Hgp).
  rewrite Forall_forall in Qc, Qg.
  rewrite (rm_all_fresh cterm_eqb (commons o) (commons m) Hc (fun x Hx => cterm_eqb_refl_rc x (Qc x Hx))),
          (rm_all_fresh gterm_eqb (groups o) (groups m) Hg (fun x Hx => gterm_eqb_refl_rc x (Qg x Hx))).
  rewrite mod_eta. reflexivity.
Qed.

Lemma v_add_lift_model vr m o : lift vr = Some m ->
  v_add vr (VM o) = do m' <- model_add m (VM o); Ok (VM m').
Proof.
  intros L. destruct vr as [| |t0|g|t0|m0]; cbn [lift] in L; try discriminate L; injection L as <-; reflexivity.
Qed.

Theorem add_sub_value_model vr m o :
  lift vr = Some m -> fresh_for m o -> modelQ rc o ->
  (do a <- v_add vr (VM o); v_sub a (VM o)) = Ok (VM m).
Proof.
  intros L F Qo. rewrite (v_add_lift_model vr m o L).
  pose proof (add_sub_model m o F Qo) as H. destruct (model_add m (VM o)) as [m1|k]; [|discriminate H].
  cbn [bind v_sub] in *. rewrite H. reflexivity.
Qed.

(* ---- under a response ---- *)
Lemma tilde_shape vy vr v : Algebra.apply_binop OpTilde vy vr = Ok v ->
  (exists g ty, vr = VG g /\ v = VM (mk_model [AG g] (Some ty))) \/
  exists ml ty, lift vr = Some ml /\ v = VM (Mod (Some ty) (commons ml) (groups ml)) /\
                Algebra.apply_binop OpTilde vy (VM ml) = Ok v.
Proof.
  cbn [Algebra.apply_binop]. intros H. destruct (mk_response vy) as [w|k] eqn:Ew; [|discriminate H].
  cbn [bind] in *. unfold mk_response in Ew. destruct vy as [| |[|c [|c' t]]| | |]; try discriminate Ew.
  injection Ew as <-. destruct vr as [| |t0|g|t0|m0]; cbn [v_add] in H; try discriminate H; injection H as <-.
  - right. exists (mk_model [AC CI] None), [c]. repeat split.
  - right. exists (mk_model [AC (CT t0)] None), [c]. repeat split.
  - left. exists g, [c]. split; reflexivity.
  - right. exists m0, [c]. repeat split.
Qed.

Lemma tilde_kind tl : tkind tl = TILDE -> lookup_kind (tkind tl) resolver_ops = Some OpTilde.
Proof. intros ->. reflexivity. Qed.
Lemma plus_kind pl : tkind pl = PLUS -> lookup_kind (tkind pl) resolver_ops = Some OpAdd.
Proof. intros ->. reflexivity. Qed.
Lemma minus_kind mi : tkind mi = MINUS -> lookup_kind (tkind mi) resolver_ops = Some OpSub.
Proof. intros ->. reflexivity. Qed.

Lemma describe_tilde_inv y tl r m : tkind tl = TILDE -> describe (EBinary y tl r) = Ok m ->
  exists vy vr, resolve y = Ok vy /\ resolve r = Ok vr /\ Algebra.apply_binop OpTilde vy vr = Ok (VM m).
Proof.
  intros Htl H. unfold describe in H. rewrite (resolve_binary _ _ _ _ (tilde_kind tl Htl)) in H.
  destruct (resolve y) as [vy|] eqn:Ey; [|discriminate H]. destruct (resolve r) as [vr|] eqn:Er; [|discriminate H].
  cbn [bind] in H. destruct (Algebra.apply_binop OpTilde vy vr) as [v|] eqn:Ea; [|discriminate H].
  cbn [bind] in H. exists vy, vr. repeat split; auto.
  destruct (tilde_shape _ _ _ Ea) as [(g & ty & _ & ->)|(ml & ty & _ & -> & _)]; injection H as <-; exact Ea.
Qed.

(* THE THEOREM: y ~ r + t - t  describes as  y ~ r  (the same model value), when t resolves to one
   term that is not a common term of the model.  [r] is any right-hand side except a bare group term. *)
Theorem describe_add_sub y tl r pl te mi m t :
  tkind tl = TILDE -> tkind pl = PLUS -> tkind mi = MINUS ->
  describe (EBinary y tl r) = Ok m ->
  (forall g, resolve r <> Ok (VG g)) ->
  resolve te = Ok (VT t) ->
  cmem (CT t) (commons m) = false ->
  describe (EBinary y tl (EBinary (EBinary r pl te) mi te)) = Ok m.
Proof.
  intros Htl Hpl Hmi D NG Et F.
  destruct (describe_tilde_inv y tl r m Htl D) as (vy & vr & Ey & Er & Ea).
  destruct (tilde_shape _ _ _ Ea) as [(g & ty & -> & _)|(ml & ty & L & Em & Ea')]; [exfalso; exact (NG g Er)|].
  injection Em as Em. assert (Hc : commons m = commons ml) by (rewrite Em; reflexivity).
  pose proof (resolve_rc te _ Et) as Qt. cbn [valueQ] in Qt.
  unfold describe. rewrite (resolve_binary _ _ _ _ (tilde_kind tl Htl)), Ey. cbn [bind].
  rewrite (resolve_binary _ _ _ _ (minus_kind mi Hmi)), (resolve_binary _ _ _ _ (plus_kind pl Hpl)), Er, Et.
  cbn [bind Algebra.apply_binop].
  rewrite Hc in F. rewrite (add_fresh_value vr t ml L F). cbn [bind].
  rewrite (sub_last_value ml t F (term_eqb_refl_rc t Qt)). cbn [bind].
  change (Algebra.apply_binop OpTilde vy (VM ml)) with (do r0 <- mk_response vy; v_add r0 (VM ml)) in Ea'.
  rewrite Ea'. reflexivity.
Qed.

(* a right-hand side that is itself a sum (the parser's tree of every text: the scanner writes the
   implicit "1 +") never resolves to a bare group term *)
Lemma v_add_not_group a b g : v_add a b <> Ok (VG g).
Proof.
  destruct a as [| |t| |t|m]; cbn [v_add]; try discriminate;
    destruct b as [| |t'|g'|t'|o]; try discriminate.
  - destruct (model_add _ _); discriminate.
  - destruct (model_add _ _); discriminate.
  - destruct (term_eqb t t'); discriminate.
  - destruct (model_add _ _); discriminate.
  - all: destruct (model_add _ _); discriminate.
Qed.

Lemma sum_not_group l pl r g : tkind pl = PLUS -> resolve (EBinary l pl r) <> Ok (VG g).
Proof.
  intros Hpl H. rewrite (resolve_binary _ _ _ _ (plus_kind pl Hpl)) in H.
  apply bind_ok in H as (a & _ & H). apply bind_ok in H as (b & _ & H). exact (v_add_not_group a b g H).
Qed.

Corollary describe_add_sub_sum y tl l p0 r0 pl te mi m t :
  tkind tl = TILDE -> tkind p0 = PLUS -> tkind pl = PLUS -> tkind mi = MINUS ->
  describe (EBinary y tl (EBinary l p0 r0)) = Ok m ->
  resolve te = Ok (VT t) ->
  cmem (CT t) (commons m) = false ->
  describe (EBinary y tl (EBinary (EBinary (EBinary l p0 r0) pl te) mi te)) = Ok m.
Proof.
  intros Htl Hp0 Hpl Hmi D Et F. eapply describe_add_sub; eauto. intros g. apply sum_not_group. exact Hp0.
Qed.

(* the same with a parenthesised model in place of the term: r + (a + b) - (a + b), r + (z|g) - (z|g) *)
Theorem describe_add_sub_model y tl r pl te mi m o :
  tkind tl = TILDE -> tkind pl = PLUS -> tkind mi = MINUS ->
  describe (EBinary y tl r) = Ok m ->
  (forall g, resolve r <> Ok (VG g)) ->
  resolve te = Ok (VM o) ->
  fresh_for m o ->
  describe (EBinary y tl (EBinary (EBinary r pl te) mi te)) = Ok m.
Proof.
  intros Htl Hpl Hmi D NG Et F.
  destruct (describe_tilde_inv y tl r m Htl D) as (vy & vr & Ey & Er & Ea).
  destruct (tilde_shape _ _ _ Ea) as [(g & ty & -> & _)|(ml & ty & L & Em & Ea')]; [exfalso; exact (NG g Er)|].
  injection Em as Em.
  assert (F' : fresh_for ml o) by (unfold fresh_for in *; rewrite Em in F; exact F).
  pose proof (resolve_rc te _ Et) as Qo. cbn [valueQ] in Qo.
  unfold describe. rewrite (resolve_binary _ _ _ _ (tilde_kind tl Htl)), Ey. cbn [bind].
  rewrite (resolve_binary _ _ _ _ (minus_kind mi Hmi)), (resolve_binary _ _ _ _ (plus_kind pl Hpl)), Er, Et.
  cbn [bind Algebra.apply_binop].
  pose proof (add_sub_value_model vr ml o L F' Qo) as H.
  destruct (v_add vr (VM o)) as [a|]; [|discriminate H]. cbn [bind] in *. rewrite H. cbn [bind].
  change (Algebra.apply_binop OpTilde vy (VM ml)) with (do r0 <- mk_response vy; v_add r0 (VM ml)) in Ea'.
  rewrite Ea'. reflexivity.
Qed.

(* ---- "no term of the model reads v" is enough ---- *)
Definition common_vars (m : model) : list string := flat_map cterm_vars (commons m).

Lemma common_vars_model_vars m v : In v (common_vars m) -> In v (model_vars m).
Proof. intros H. unfold model_vars. apply in_or_app. left. exact H. Qed.

(* a term with a plain-variable component v is not a common term of a described model none of whose
   common terms reads v *)
Lemma unread_not_member m t v lv :
  modelQ rc m -> In (CVar (NStr v) lv) t -> ~ In v (common_vars m) ->
  cmem (CT t) (commons m) = false.
Proof.
  intros (_ & Qc & _) Hin Hv. destruct (cmem (CT t) (commons m)) eqn:E; [exfalso|reflexivity].
  unfold cmem in E. apply existsb_exists in E as (c & Hc & E). destruct c as [| |t']; try discriminate E.
  cbn [cterm_eqb] in E. unfold term_eqb in E. apply andb_true_iff in E as [E _].
  rewrite forallb_forall in E. specialize (E _ Hin). apply existsb_exists in E as (c' & Hc' & E).
  rewrite Forall_forall in Qc. pose proof (Qc _ Hc) as Qt. cbn [ctermQ] in Qt. unfold termQ in Qt.
  rewrite Forall_forall in Qt. destruct (Qt _ Hc') as [_ Hns].
  apply Hv. unfold common_vars. apply in_flat_map. exists (CT t'). split; [exact Hc|].
  cbn [cterm_vars]. unfold term_vars. apply in_flat_map. exists c'. split; [exact Hc'|].
  destruct c' as [n' l'|l']; [|discriminate E]. cbn [comp_eqb] in E. apply andb_true_iff in E as [E _].
  destruct n' as [s'|v']; cbn [vname_eqb] in E.
  - apply String.eqb_eq in E as <-. left. reflexivity.
  - destruct v'; try discriminate E. exfalso. exact (Hns _ _ eq_refl).
Qed.

Definition evar (n : token) : expr := EVariable n None.
Definition cvar (s : string) : comp := CVar (NStr s) None.

Lemma resolve_evar n : resolve (evar n) = Ok (VT [cvar (lexeme n)]).
Proof. reflexivity. Qed.

(* y ~ r + v - v  for a variable v that no common term reads *)
Theorem describe_add_sub_var y tl r pl n mi m :
  tkind tl = TILDE -> tkind pl = PLUS -> tkind mi = MINUS ->
  describe (EBinary y tl r) = Ok m ->
  (forall g, resolve r <> Ok (VG g)) ->
  ~ In (lexeme n) (common_vars m) ->
  describe (EBinary y tl (EBinary (EBinary r pl (evar n)) mi (evar n))) = Ok m.
Proof.
  intros Htl Hpl Hmi D NG Hv. eapply describe_add_sub; eauto using resolve_evar.
  eapply unread_not_member; [exact (describe_rc _ _ D)|left; reflexivity|exact Hv].
Qed.

(* y ~ r + v:f - v:f  (f any operand that resolves to one term) *)
Lemma resolve_colon_var n co f t : tkind co = COLON ->
  resolve (EBinary (evar n) co f) = Ok (VT t) -> In (cvar (lexeme n)) t.
Proof.
  intros Hco H. assert (K : lookup_kind (tkind co) resolver_ops = Some OpColon) by (rewrite Hco; reflexivity).
  rewrite (resolve_binary _ _ _ _ K), resolve_evar in H. cbn [bind] in H.
  apply bind_ok in H as (b & _ & H). cbn [Algebra.apply_binop v_matmul] in H.
  destruct b as [| |t'|g'|t'|o]; try discriminate H.
  - destruct (term_eqb _ t'); [injection H as <-; left; reflexivity|].
    destruct (single_numeric t'); [discriminate H|]. injection H as <-.
    unfold mk_term. rewrite dedup_comps_dedup. cbn [app].
    destruct (dedup_first_stays comp_eqb (cvar (lexeme n)) t') as (r & ->). left. reflexivity.
  - destruct (interactions _ _); discriminate H.
Qed.

Theorem describe_add_sub_interaction y tl r pl n co f mi m :
  tkind tl = TILDE -> tkind pl = PLUS -> tkind mi = MINUS -> tkind co = COLON ->
  describe (EBinary y tl r) = Ok m ->
  (forall g, resolve r <> Ok (VG g)) ->
  (exists t, resolve (EBinary (evar n) co f) = Ok (VT t)) ->
  ~ In (lexeme n) (common_vars m) ->
  let te := EBinary (evar n) co f in
  describe (EBinary y tl (EBinary (EBinary r pl te) mi te)) = Ok m.
Proof.
  intros Htl Hpl Hmi Hco D NG [t Et] Hv te. eapply describe_add_sub; eauto.
  eapply unread_not_member; [exact (describe_rc _ _ D)|exact (resolve_colon_var n co f t Hco Et)|exact Hv].
Qed.

(* ================================================================== *)
(** * 3. Consequences for the data: same used columns, same design, any frame, any policy *)

Section Consequences.
Variables (y r te : expr) (tl pl mi : token) (m : model) (t : term).
Hypothesis Htl : tkind tl = TILDE.
Hypothesis Hpl : tkind pl = PLUS.
Hypothesis Hmi : tkind mi = MINUS.
Hypothesis D : describe (EBinary y tl r) = Ok m.
Hypothesis NG : forall g, resolve r <> Ok (VG g).
Hypothesis Et : resolve te = Ok (VT t).
Hypothesis F : cmem (CT t) (commons m) = false.

Let e0 := EBinary y tl r.
Let e1 := EBinary y tl (EBinary (EBinary r pl te) mi te).

Theorem used_cols_add_sub : forall data m0 m1, describe e0 = Ok m0 -> describe e1 = Ok m1 ->
  used_cols data m1 = used_cols data m0 /\ incomplete_mask data m1 = incomplete_mask data m0 /\
  forall na, prepare_data data m1 na = prepare_data data m0 na.
Proof.
  intros data m0 m1 H0 H1. unfold e0 in H0. unfold e1 in H1.
  rewrite (describe_add_sub y tl r pl te mi m t Htl Hpl Hmi D NG Et F) in H1. rewrite D in H0.
  injection H0 as <-. injection H1 as <-. auto.
Qed.

Theorem design_add_sub : forall cx data na, design_matrices cx e1 data na = design_matrices cx e0 data na.
Proof.
  intros cx data na. unfold design_matrices, e0, e1.
  rewrite (describe_add_sub y tl r pl te mi m t Htl Hpl Hmi D NG Et F), D. reflexivity.
Qed.
End Consequences.

(* whatever column v holds: the design of  y ~ r + v - v  does not see it (v read nowhere in y ~ r) *)
Lemma design_unused_column cx e m kv0 a b k c na :
  describe e = Ok m -> existsb (String.eqb k) (model_vars m) = false ->
  design_matrices cx e (kv0 :: a ++ (k, c) :: b) na = design_matrices cx e (kv0 :: a ++ b) na.
Proof.
  intros D Hk. unfold design_matrices. rewrite D. cbn [bind].
  rewrite (unused_column_insert kv0 a b k c m na Hk). reflexivity.
Qed.

Theorem design_add_sub_var_any_column cx y tl r pl n mi m kv0 a b c c' na :
  tkind tl = TILDE -> tkind pl = PLUS -> tkind mi = MINUS ->
  describe (EBinary y tl r) = Ok m ->
  (forall g, resolve r <> Ok (VG g)) ->
  ~ In (lexeme n) (model_vars m) ->
  let e1 := EBinary y tl (EBinary (EBinary r pl (evar n)) mi (evar n)) in
  design_matrices cx e1 (kv0 :: a ++ (lexeme n, c) :: b) na =
  design_matrices cx e1 (kv0 :: a ++ (lexeme n, c') :: b) na.
Proof.
  intros Htl Hpl Hmi D NG Hv e1.
  assert (D1 : describe e1 = Ok m).
  { apply describe_add_sub_var; auto. intros H. apply Hv, common_vars_model_vars, H. }
  assert (Hk : existsb (String.eqb (lexeme n)) (model_vars m) = false).
  { destruct (existsb _ _) eqn:E; [|reflexivity]. exfalso. apply Hv.
    apply existsb_exists in E as (x & Hx & E). apply String.eqb_eq in E as ->. exact Hx. }
  rewrite !(design_unused_column cx e1 m kv0 a b (lexeme n) _ na D1 Hk). reflexivity.
Qed.

(* ---- the excluded right-hand side: a bare group term (hand-built tree only) ---- *)
Definition tok (k : kind) (s : string) : token := mk k s.
Definition idt (s : string) : expr := evar (tok IDENTIFIER s).

Theorem bare_group_refuted :
  exists y tl r pl te mi m t,
    tkind tl = TILDE /\ tkind pl = PLUS /\ tkind mi = MINUS /\
    describe (EBinary y tl r) = Ok m /\ resolve te = Ok (VT t) /\ cmem (CT t) (commons m) = false /\
    (exists g, resolve r = Ok (VG g)) /\
    describe (EBinary y tl (EBinary (EBinary r pl te) mi te)) = Err EType.
Proof.
  exists (idt "y"), (tok TILDE "~"),
         (EGrouping (EBinary (ELiteral (LInt 1) None) (tok PIPE "|") (idt "g"))),
         (tok PLUS "+"), (idt "z"), (tok MINUS "-").
  eexists. eexists. do 3 (split; [reflexivity|]). split; [vm_compute; reflexivity|].
  split; [vm_compute; reflexivity|]. split; [vm_compute; reflexivity|].
  split; [eexists; vm_compute; reflexivity|]. vm_compute. reflexivity.
Qed.

(* ================================================================== *)
(** * 4. The contrast: x*z - z still uses z *)

(* the general reason: a variable read by a term that is still there is used *)
Theorem remaining_term_reads m t v :
  In (CT t) (commons m) -> In v (term_vars t) ->
  In v (model_vars m) /\
  forall data c, In (v, c) data -> In (v, c) (used_cols data m).
Proof.
  intros Ht Hv.
  assert (Hm : In v (model_vars m)).
  { apply common_vars_model_vars. unfold common_vars. apply in_flat_map. exists (CT t). split; [exact Ht|exact Hv]. }
  split; [exact Hm|]. intros data c Hin. unfold used_cols. apply filter_In. split; [exact Hin|].
  unfold used_in. apply existsb_exists. exists v. split; [exact Hm|]. cbn [fst]. apply String.eqb_refl.
Qed.

Theorem star_minus_keeps yn tl x st z mi :
  tkind tl = TILDE -> tkind st = STAR -> tkind mi = MINUS -> lexeme x <> lexeme z ->
  let e := EBinary (evar yn) tl (EBinary (EBinary (evar x) st (evar z)) mi (evar z)) in
  let m := Mod (Some [cvar (lexeme yn)]) [CT [cvar (lexeme x)]; CT [cvar (lexeme x); cvar (lexeme z)]] [] in
  describe e = Ok m /\ In (lexeme z) (model_vars m) /\
  forall data c, In (lexeme z, c) data -> In (lexeme z, c) (used_cols data m).
Proof.
  intros Htl Hst Hmi Hne e m.
  assert (D : describe e = Ok m).
  { unfold e, m, describe. rewrite (resolve_binary _ _ _ _ (tilde_kind tl Htl)), resolve_evar. cbn [bind].
    rewrite (resolve_binary _ _ _ _ (minus_kind mi Hmi)).
    assert (K : lookup_kind (tkind st) resolver_ops = Some OpMul) by (rewrite Hst; reflexivity).
    rewrite (resolve_binary _ _ _ _ K), !resolve_evar.
    generalize (lexeme yn) (lexeme x) (lexeme z) Hne. intros sy sx sz Hxz.
    assert (E1 : String.eqb sx sz = false) by (apply String.eqb_neq; exact Hxz).
    assert (E2 : String.eqb sz sx = false) by (apply String.eqb_neq; congruence).
    unfold cvar.
    do 8 (unfold term_eqb, mk_model, cmem, mk_term;
          cbn [Algebra.apply_binop v_mul v_sub bind term_eqb forallb existsb single_numeric is_numeric_name
               mk_model flat_map app dedup cterm_eqb mk_term dedup_comps model_sub cmem remove_first
               commons groups resp orb andb comp_eqb vname_eqb option_eqb mk_response v_add negb];
          rewrite ?E1, ?E2, ?String.eqb_refl).
    reflexivity. }
  split; [exact D|].
  apply (remaining_term_reads m [cvar (lexeme x); cvar (lexeme z)] (lexeme z)).
  - right. left. reflexivity.
  - cbn. right. left. reflexivity.
Qed.

(* ================================================================== *)
(** * 5. Examples on texts (the model's own scanner and parser) *)

Example text_var : describe (ast "y ~ x + z - z") = describe (ast "y ~ x")
  /\ names "y ~ x + z - z" = Some (Some "y", ["Intercept"; "x"], []).
Proof. split; vm_compute; reflexivity. Qed.

Example text_interaction : describe (ast "y ~ x + g + z:g - z:g") = describe (ast "y ~ x + g")
  /\ names "y ~ x + g + z:g - z:g" = Some (Some "y", ["Intercept"; "x"; "g"], []).
Proof. split; vm_compute; reflexivity. Qed.

(* (z|g) stands for the two group terms 1|g and z|g; "- (z|g)" removes both, so the later "- (1|g)"
   finds nothing to remove (no error); removing only (1|g) leaves z|g, which reads z *)
Example text_group : describe (ast "y ~ x + (z|g) - (z|g) - (1|g)") = describe (ast "y ~ x")
  /\ describe (ast "y ~ x + (z|g) - (z|g)") = describe (ast "y ~ x")
  /\ names "y ~ x + (z|g)" = Some (Some "y", ["Intercept"; "x"], ["1|g"; "z|g"])
  /\ names "y ~ x + (z|g) - (1|g)" = Some (Some "y", ["Intercept"; "x"], ["z|g"]).
Proof. split; [|split; [|split]]; vm_compute; reflexivity. Qed.

(* the theorems apply to these parse trees: their premises hold *)
Example theorem_applies_var :
  exists y tl r pl n mi m,
    ast "y ~ x + z - z" = EBinary y tl (EBinary (EBinary r pl (evar n)) mi (evar n)) /\
    tkind tl = TILDE /\ tkind pl = PLUS /\ tkind mi = MINUS /\
    describe (EBinary y tl r) = Ok m /\ (forall g, resolve r <> Ok (VG g)) /\
    ~ In (lexeme n) (model_vars m) /\ lexeme n = "z".
Proof.
  do 7 eexists. split; [vm_compute; reflexivity|]. do 3 (split; [reflexivity|]).
  split; [vm_compute; reflexivity|]. split; [intros g; apply sum_not_group; reflexivity|].
  split; [|reflexivity]. cbn. intros [H|[H|[]]]; discriminate H.
Qed.

Example theorem_applies_group :
  exists y tl r pl te mi m o,
    ast "y ~ x + (z|g) - (z|g)" = EBinary y tl (EBinary (EBinary r pl te) mi te) /\
    tkind tl = TILDE /\ tkind pl = PLUS /\ tkind mi = MINUS /\
    describe (EBinary y tl r) = Ok m /\ (forall g, resolve r <> Ok (VG g)) /\
    resolve te = Ok (VM o) /\ fresh_for m o /\ List.length (groups o) = 2%nat.
Proof.
  do 8 eexists. split; [vm_compute; reflexivity|]. do 3 (split; [reflexivity|]).
  split; [vm_compute; reflexivity|]. split; [intros g; apply sum_not_group; reflexivity|].
  split; [vm_compute; reflexivity|]. split; [|reflexivity].
  unfold fresh_for. cbn [commons groups]. split; [intros []|]. split; [intros c []|].
  split; [constructor|]. split; [intros g [<-|[<-|[]]]; reflexivity|]. repeat constructor.
Qed.

(* a frame whose column z is entirely missing *)
Definition qc (z : Z) : cell := Some (qz z).
Definition frame_z_missing : frame :=
  [("y", ColNum false [qc 1; qc 2; qc 3]); ("x", ColNum false [qc 4; qc 5; qc 7]);
   ("z", ColNum false [None; None; None])].
Definition model_of (s : string) : model := match describe (ast s) with Ok m => m | Err _ => empty_model end.

Example missing_z_ignored :
  forall na, prepare_data frame_z_missing (model_of "y ~ x + z - z") na =
             Ok [("y", ColNum false [qc 1; qc 2; qc 3]); ("x", ColNum false [qc 4; qc 5; qc 7])].
Proof. intros []; vm_compute; reflexivity. Qed.

Example star_minus_text :
  names "y ~ x*z - z" = Some (Some "y", ["Intercept"; "x"; "x:z"], []) /\
  In "z" (model_vars (model_of "y ~ x*z - z")) /\
  prepare_data frame_z_missing (model_of "y ~ x*z - z") NaError = Err EValue /\
  prepare_data frame_z_missing (model_of "y ~ x*z - z") NaDrop =
    Ok [("y", ColNum false []); ("x", ColNum false []); ("z", ColNum false [])].
Proof. split; [|split; [|split]]; try (vm_compute; reflexivity). vm_compute. tauto. Qed.

Print Assumptions resolve_inv.
Print Assumptions resolve_rc.
Print Assumptions add_sub_value.
Print Assumptions add_sub_value_model.
Print Assumptions describe_add_sub.
Print Assumptions describe_add_sub_sum.
Print Assumptions describe_add_sub_model.
Print Assumptions describe_add_sub_var.
Print Assumptions describe_add_sub_interaction.
Print Assumptions used_cols_add_sub.
Print Assumptions design_add_sub.
Print Assumptions design_add_sub_var_any_column.
Print Assumptions bare_group_refuted.
Print Assumptions remaining_term_reads.
Print Assumptions star_minus_keeps.
