(* C13, "contrast codings honour their options": a coded factor coded AGAIN.

   formulae/transforms.py:
       def C(data, contrast=None, levels=None):
           if isinstance(data, CategoricalBox):
               if contrast is None: contrast = data.contrast
               if levels is None:   levels = data.levels
               data = data.data
           return CategoricalBox(data, contrast, levels)
   The two fall-backs are INDEPENDENT.  This file proves, on the model (Model/Eval.v [call_function] "C"):
     1. the re-boxing laws (per-option override, idempotence, composition of any number of re-boxings),
     2. the design component of a nested call is the component of the flat call up to its NAME,
     3. validation is applied to the merged options,
     4. the "merged fall-back" reading (inherit only when BOTH options are absent) is refuted. *)
From Verif Require Import Base Tokens Lazy Algebra Coding Contrasts Frame Eval Design.
From Verif Require Import DesignStructure DesignCoding DesignSum FrameStructure HelpersProofs CodingOptions.
From Coq Require Import Lia Permutation Sorted.
Local Close Scope Qc_scope.
Local Close Scope Q_scope.
Local Open Scope string_scope.
Local Open Scope list_scope.
Local Open Scope nat_scope.

(* ------------------------------------------------------------------------------------------ *)
(** * 1. Re-boxing laws *)

(* an option of the outer call overrides the option of the inner box; an absent one inherits *)
Definition merge {T} (outer inner : option T) : option T :=
  match outer with Some _ => outer | None => inner end.

Lemma merge_None_l {T} (i : option T) : merge None i = i.
Proof. reflexivity. Qed.
Lemma merge_None_r {T} (o : option T) : merge o None = o.
Proof. destruct o; reflexivity. Qed.
Lemma merge_Some {T} (x : T) i : merge (Some x) i = Some x.
Proof. reflexivity. Qed.
Lemma merge_assoc {T} (a b c : option T) : merge a (merge b c) = merge (merge a b) c.
Proof. destruct a, b; reflexivity. Qed.
(* the levels a box is given are the merge of levels= and the declared order of the column *)
Lemma box_levels_merge o lv : box_levels o lv = merge lv o.
Proof. destruct o, lv; reflexivity. Qed.
Lemma box_levels_None lv : box_levels None lv = lv.
Proof. destruct lv; reflexivity. Qed.

(** C on the DECODED options (contrast: None / Some encoding; levels: None / Some list). *)
Definition Cbox (x : pyval) (c : option encoding) (lv : option (list string)) : res pyval :=
  match x with
  | PBox num d c0 lv0 => mk_box num None d (merge c c0) (merge lv lv0)
  | _ => box_of x c lv
  end.

Lemma C_sem_Cbox x e l :
  C_sem x e l = (do c <- as_encoding e; do lv <- as_levels l; Cbox x c lv).
Proof.
  unfold C_sem, Cbox. destruct (as_encoding e) as [c|]; [|reflexivity]. cbn [bind].
  destruct (as_levels l) as [lv|]; [|reflexivity]. cbn [bind].
  destruct x; reflexivity.
Qed.

(* T and S of a series are Cbox with the Treatment / Sum instance *)
Lemma T_sem_Cbox x r l :
  not_box x -> T_sem x r l = (do o <- as_label r; do lv <- as_levels l; Cbox x (Some (Treatment o)) lv).
Proof.
  intros Hx. unfold T_sem, Cbox. destruct (as_label r); [|reflexivity]. cbn [bind].
  destruct (as_levels l); [|reflexivity]. cbn [bind]. destruct x; try contradiction; reflexivity.
Qed.
Lemma S_sem_Cbox x r l :
  not_box x -> S_sem x r l = (do o <- as_label r; do lv <- as_levels l; Cbox x (Some (Sum o)) lv).
Proof.
  intros Hx. unfold S_sem, Cbox. destruct (as_label r); [|reflexivity]. cbn [bind].
  destruct (as_levels l); [|reflexivity]. cbn [bind]. destruct x; try contradiction; reflexivity.
Qed.

(** THE RE-BOXING LAW (four cases in one): C(box(d, ci, li), co, lo) is the box
      (d,  co if given else ci,  lo if given else li),
    refused (ValueError) exactly when the resulting levels are given and are not, as a set, the values
    present in d.  Whatever way the arguments are passed ([C_call_shapes]). *)
Theorem rebox_law num d ci li co lo :
  Cbox (PBox num d ci li) co lo = mk_box num None d (merge co ci) (merge lo li) /\
  (levels_valid (merge lo li) d ->
   Cbox (PBox num d ci li) co lo = Ok (PBox num d (merge co ci) (merge lo li))) /\
  (~ levels_valid (merge lo li) d -> Cbox (PBox num d ci li) co lo = Err EValue).
Proof.
  split; [reflexivity|]. cbn [Cbox].
  destruct (mk_box_spec num None d (merge co ci) (merge lo li)) as [H1 H2].
  rewrite box_levels_None in H1, H2. split; assumption.
Qed.

(* the same on the arguments as Python values, and as calls *)
Corollary rebox_law_call cx num d ci li e l co lo :
  as_encoding e = Ok co -> as_levels l = Ok lo ->
  let b := PBox num d ci li in
  let r := mk_box num None d (merge co ci) (merge lo li) in
  C_sem b e l = r /\
  call_function cx "C" [b; e; l] [] = r /\
  call_function cx "C" [b; e] [("levels", l)] = r /\
  call_function cx "C" [b] [("contrast", e); ("levels", l)] = r /\
  call_function cx "C" [b] [("levels", l); ("contrast", e)] = r /\
  call_function cx "C" [] [("data", b); ("contrast", e); ("levels", l)] = r.
Proof.
  intros He Hl b r.
  assert (H : C_sem b e l = r) by (rewrite C_sem_Cbox, He, Hl; reflexivity).
  destruct (C_call_shapes cx b e l) as (_ & _ & -> & -> & _ & _ & -> & -> & ->). auto 10.
Qed.
(* an option that is not passed is None *)
Corollary rebox_law_call_absent cx num d ci li e l co lo :
  as_encoding e = Ok co -> as_levels l = Ok lo ->
  let b := PBox num d ci li in
  call_function cx "C" [b] [] = mk_box num None d ci li /\
  call_function cx "C" [b; e] [] = mk_box num None d (merge co ci) li /\
  call_function cx "C" [b] [("contrast", e)] = mk_box num None d (merge co ci) li /\
  call_function cx "C" [b] [("levels", l)] = mk_box num None d ci (merge lo li).
Proof.
  intros He Hl b.
  destruct (C_call_shapes cx b e l) as (-> & -> & _ & _ & -> & -> & _).
  rewrite !C_sem_Cbox, He, Hl. repeat split; reflexivity.
Qed.

(* a box is well formed when its levels (if any) are, as a set, the values present; every box made by
   C / T / S is *)
Definition wf_box (v : pyval) : Prop :=
  match v with PBox _ d _ lv => levels_valid lv d | _ => False end.

Lemma mk_box_wf num o d c lv v : mk_box num o d c lv = Ok v -> wf_box v.
Proof. intros H. apply mk_box_ok_iff in H as [Hv ->]. exact Hv. Qed.

Lemma Cbox_wf x c lv v : Cbox x c lv = Ok v -> wf_box v.
Proof.
  unfold Cbox, box_of. destruct x; intros H; try (apply bind_ok in H as (ss & _ & H));
    eapply mk_box_wf; exact H.
Qed.

Lemma Cbox_ok_box x c lv v : Cbox x c lv = Ok v -> exists num d, v = PBox num d
    (match x with PBox _ _ c0 _ => merge c c0 | _ => c end)
    (match x with PBox _ _ _ l0 => merge lv l0
             | PStrs o _ => merge lv o | _ => lv end).
Proof.
  unfold Cbox, box_of. intros H.
  destruct x as [[|] ?|?|o xs|? ?|?|?| |?|?|?|num d c0 l0|? ?|? ? ?]; try discriminate H;
    cbn [series_strings bind fst snd] in H; apply mk_box_ok_iff in H as [_ ->].
  - do 2 eexists. reflexivity.
  - do 2 eexists. rewrite box_levels_merge. reflexivity.
  - do 2 eexists. rewrite box_levels_None. reflexivity.
Qed.

(** IDEMPOTENCE: C(box) = box for every well-formed box; in particular C(C(x, c, lv)) = C(x, c, lv),
    C(T(x, r, lv)) = T(x, r, lv), C(S(x, o, lv)) = S(x, o, lv). *)
Theorem rebox_idem v : is_box v -> wf_box v -> Cbox v None None = Ok v.
Proof.
  destruct v; try contradiction. intros _ Hw. cbn [wf_box] in Hw.
  destruct (rebox_law data_num data contrast levels None None) as (_ & H & _). exact (H Hw).
Qed.

Corollary C_of_C x c lv : (do b <- Cbox x c lv; Cbox b None None) = Cbox x c lv.
Proof.
  destruct (Cbox x c lv) as [b|] eqn:E; [|reflexivity]. cbn [bind]. apply rebox_idem.
  - destruct (Cbox_ok_box _ _ _ _ E) as (num & d & ->). exact I.
  - exact (Cbox_wf _ _ _ _ E).
Qed.

(* (a box that is NOT well formed -- none is ever produced by the calls -- is refused by C) *)
Example rebox_ill_formed_refused :
  Cbox (PBox false [Some "a"] None (Some ["b"])) None None = Err EValue.
Proof. reflexivity. Qed.

(** COMPOSITION: if the inner call C(x, c1, l1) is accepted with value b, then
      C(b, c2, l2) = C(x, c2 or else c1, l2 or else l1)
    -- x a series (strings with or without a declared order, integers) or itself a box. *)
Theorem rebox_compose x c1 l1 b c2 l2 :
  Cbox x c1 l1 = Ok b -> Cbox b c2 l2 = Cbox x (merge c2 c1) (merge l2 l1).
Proof.
  intros H. unfold Cbox in H |- *. unfold box_of in *.
  destruct x as [[|] ?|?|o xs|? ?|?|?| |?|?|?|num d c0 l0|? ?|? ? ?]; try discriminate H;
    cbn [series_strings bind fst snd] in *; apply mk_box_ok_iff in H as [_ ->].
  - unfold mk_box. reflexivity.
  - unfold mk_box. rewrite box_levels_merge. destruct o, l1, l2; reflexivity.
  - rewrite box_levels_None, !merge_assoc. reflexivity.
Qed.

(* unconditionally: the nested call is the flat call, provided the inner call is accepted *)
Corollary rebox_compose_bind x c1 l1 c2 l2 :
  (do b <- Cbox x c1 l1; Cbox b c2 l2) = (do _ <- Cbox x c1 l1; Cbox x (merge c2 c1) (merge l2 l1)).
Proof.
  destruct (Cbox x c1 l1) as [b|] eqn:E; [|reflexivity]. cbn [bind]. eapply rebox_compose; exact E.
Qed.

(** "ASSOCIATIVITY": C(C(C(x, a1), a2), a3) = C(x, merged options), later options overriding earlier
    ones, option by option -- and so on for any number of re-boxings. *)
Theorem rebox_compose3 x c1 l1 b1 c2 l2 b2 c3 l3 :
  Cbox x c1 l1 = Ok b1 -> Cbox b1 c2 l2 = Ok b2 ->
  Cbox b2 c3 l3 = Cbox x (merge c3 (merge c2 c1)) (merge l3 (merge l2 l1)).
Proof.
  intros H1 H2. rewrite (rebox_compose x c1 l1 b1 c2 l2 H1) in H2.
  exact (rebox_compose x _ _ b2 c3 l3 H2).
Qed.

(* any chain of re-boxings: fold the option pairs, the LAST one given wins *)
Fixpoint rebox_chain (v : pyval) (opts : list (option encoding * option (list string))) : res pyval :=
  match opts with
  | [] => Ok v
  | (c, l) :: r => do b <- Cbox v c l; rebox_chain b r
  end.
Definition merged_options (c : option encoding) (l : option (list string))
           (opts : list (option encoding * option (list string))) :=
  fold_left (fun acc o => (merge (fst o) (fst acc), merge (snd o) (snd acc))) opts (c, l).

Theorem rebox_chain_merged opts : forall x c1 l1 b,
  rebox_chain x ((c1, l1) :: opts) = Ok b ->
  Cbox x (fst (merged_options c1 l1 opts)) (snd (merged_options c1 l1 opts)) = Ok b.
Proof.
  induction opts as [|[c2 l2] opts IH]; intros x c1 l1 b H.
  - cbn [rebox_chain] in H. apply bind_ok in H as (b' & H & E). injection E as <-. exact H.
  - cbn [rebox_chain] in H. apply bind_ok in H as (b1 & H1 & H).
    unfold merged_options. cbn [fold_left fst snd]. apply IH.
    cbn [rebox_chain]. rewrite <- (rebox_compose x c1 l1 b1 c2 l2 H1). exact H.
Qed.

(** The shapes named in the task, for a series x whose first boxing is accepted. *)
Theorem rebox_shapes x :
  (* C(C(x, levels=lv), Sum): levels lv, Sum coding *)
  (forall lv b, Cbox x None (Some lv) = Ok b ->
     Cbox b (Some (Sum None)) None = Cbox x (Some (Sum None)) (Some lv)) /\
  (* C(T(x, r), levels=lv): Treatment reference r, levels lv *)
  (forall r lv b, Cbox x (Some (Treatment r)) None = Ok b ->
     Cbox b None (Some lv) = Cbox x (Some (Treatment r)) (Some lv)) /\
  (* C(S(x, o), levels=lv): Sum omitting o, levels lv *)
  (forall o lv b, Cbox x (Some (Sum o)) None = Ok b ->
     Cbox b None (Some lv) = Cbox x (Some (Sum o)) (Some lv)) /\
  (* C(C(x, enc), levels=lv) for any encoding *)
  (forall enc lv b, Cbox x (Some enc) None = Ok b ->
     Cbox b None (Some lv) = Cbox x (Some enc) (Some lv)) /\
  (* C(C(x, c, l)) = C(x, c, l) *)
  (forall c l b, Cbox x c l = Ok b -> Cbox b None None = Ok b) /\
  (* an outer option overrides the inner one *)
  (forall c1 l1 c2 l2 b, Cbox x c1 l1 = Ok b ->
     Cbox b (Some c2) (Some l2) = Cbox x (Some c2) (Some l2)).
Proof.
  repeat split; intros.
  - erewrite rebox_compose by eassumption. reflexivity.
  - erewrite rebox_compose by eassumption. reflexivity.
  - erewrite rebox_compose by eassumption. reflexivity.
  - erewrite rebox_compose by eassumption. reflexivity.
  - erewrite rebox_compose by eassumption. rewrite merge_None_l. cbn [merge]. assumption.
  - erewrite rebox_compose by eassumption. reflexivity.
Qed.

(** The same for x a column of strings without a declared order, with the results spelt out. *)
Theorem rebox_shapes_strs xs lv :
  let x := PStrs None xs in
  levels_valid (Some lv) xs ->
  (do b <- Cbox x None (Some lv); Cbox b (Some (Sum None)) None)
    = Ok (PBox false xs (Some (Sum None)) (Some lv)) /\
  (forall r, (do b <- Cbox x (Some (Treatment r)) None; Cbox b None (Some lv))
    = Ok (PBox false xs (Some (Treatment r)) (Some lv))) /\
  (forall o, (do b <- Cbox x (Some (Sum o)) None; Cbox b None (Some lv))
    = Ok (PBox false xs (Some (Sum o)) (Some lv))) /\
  (do b <- Cbox x None None; Cbox b None None) = Ok (PBox false xs None None).
Proof.
  intros x Hv. unfold x. cbn [Cbox]. rewrite !box_of_strs.
  assert (Hs : forall num c, mk_box num None xs c (Some lv) = Ok (PBox num xs c (Some lv))).
  { intros num c. destruct (mk_box_spec num None xs c (Some lv)) as [-> _]; [reflexivity|exact Hv]. }
  assert (Hn : forall num c, mk_box num None xs c None = Ok (PBox num xs c None)) by reflexivity.
  rewrite Hs. cbn [bind Cbox merge]. rewrite Hs. split; [reflexivity|].
  split; [|split]; intros; rewrite ?box_of_strs, Hn; cbn [bind Cbox merge]; [apply Hs|apply Hs|apply Hn].
Qed.

(** What composition does NOT say: an inner call that is refused makes the nested call fail even when
    the flat call with the merged options is fine (the inner levels= are validated before being
    overridden). *)
Example rebox_inner_refusal_not_masked :
  let x := PStrs None [Some "a"; Some "b"] in
  (do b <- Cbox x None (Some ["a"]); Cbox b None (Some ["b"; "a"])) = Err EValue /\
  Cbox x (merge None None) (merge (Some ["b"; "a"]) (Some ["a"]))
  = Ok (PBox false [Some "a"; Some "b"] None (Some ["b"; "a"])).
Proof. split; reflexivity. Qed.

(* ------------------------------------------------------------------------------------------ *)
(** * 2. From nested call TERMS to the design component *)

Definition CTS := ["C"; "T"; "S"].

(** The value of a call C / T / S with stateless arguments: the function of the values of its arguments. *)
Lemma value_CTS E f args kw :
  In f CTS -> forallb stateless args = true -> forallb (fun kv => stateless (snd kv)) kw = true ->
  value E (LzCall f args kw) =
  (do pos <- mapM (value E) args; do kws <- mapM (kwvalue E) kw; call_function E f pos kws).
Proof.
  intros Hf Ha Hk.
  assert (Hs : existsb (String.eqb f) stateful_names = false)
    by (destruct Hf as [<-|[<-|[<-|[]]]]; reflexivity).
  assert (Hkn : negb (known_callee f) = false)
    by (destruct Hf as [<-|[<-|[<-|[]]]]; reflexivity).
  assert (Hpa : Forall (pure_at E) args).
  { apply (forallb_Forall stateless); [|assumption]. apply Forall_forall. intros a _. apply stateless_pure. }
  assert (Hpk : Forall (fun kv => pure_at E (snd kv)) kw).
  { apply (forallb_Forall (fun kv => stateless (snd kv))); [|assumption].
    apply Forall_forall. intros a _. apply stateless_pure. }
  unfold value at 1. rewrite (eval_call_pure E [] f args kw Hs Hpa Hpk), Hkn.
  destruct (mapM (value E) args) as [pos|]; [|reflexivity]. cbn [bind].
  destruct (mapM (kwvalue E) kw) as [kws|]; [|reflexivity]. cbn [bind].
  destruct (call_function E f pos kws); reflexivity.
Qed.

Lemma stateless_CTS f args kw :
  In f CTS -> forallb stateless args = true -> forallb (fun kv => stateless (snd kv)) kw = true ->
  stateless (LzCall f args kw) = true.
Proof.
  intros Hf Ha Hk. cbn [stateless]. rewrite Ha, Hk.
  destruct Hf as [<-|[<-|[<-|[]]]]; reflexivity.
Qed.

(* the component built from a value under a name *)
Definition fin (resp : bool) (spans : bool) (nrows : nat) (lz : lazy) (v : pyval) : res dcomp :=
  set_data_comp (TC (lazy_str lz) (CCall lz) KCategoric v [] resp None) spans nrows.

(* typing + coding a component *)
Definition run (cx : dctx) (data : frame) (resp spans : bool) (nrows : nat) (lz : lazy) : res dcomp :=
  do t <- set_type_comp cx data resp (CCall lz); set_data_comp t spans nrows.

(** The design component of a call C / T / S depends on the call only through its VALUE (a box) and its
    NAME (the text of the call). *)
Theorem run_value cx data resp f args kw spans nrows :
  In f CTS -> forallb stateless args = true -> forallb (fun kv => stateless (snd kv)) kw = true ->
  let E := ECtx data (d_extra cx) (d_sqrt cx) true in
  let lz := LzCall f args kw in
  run cx data resp spans nrows lz = (do v <- value E lz; fin resp spans nrows lz v).
Proof.
  intros Hf Ha Hk E lz. unfold run, lz.
  rewrite (CTS_design_component cx data resp f args kw spans nrows Hf Ha Hk). fold E.
  rewrite (value_CTS E f args kw Hf Ha Hk).
  destruct (mapM (value E) args); [|reflexivity]. cbn [bind].
  destruct (mapM (kwvalue E) kw); [|reflexivity]. cbn [bind].
  destruct (call_function E f _ _); reflexivity.
Qed.

(** Same box, other name: the component is the same except for its typed component (name, source) and
    the PREFIX of its labels. *)
Definition retag (t : tcomp) (dc : dcomp) : dcomp :=
  DC t (dc_levels dc) (dc_contrast dc) (dc_rows dc)
     (match dc_contrast dc with
      | Some cm => Some (map (comp_label t) (clabels cm))
      | None => dc_labels dc end)
     (dc_spans dc).
Definition res_map {A B} (f : A -> B) (r : res A) : res B :=
  match r with Ok a => Ok (f a) | Err k => Err k end.

Theorem same_box_other_name t1 t2 spans nrows :
  tc_kind t1 = KCategoric -> tc_kind t2 = KCategoric -> is_box (tc_value t1) ->
  tc_value t2 = tc_value t1 ->
  set_data_comp t2 spans nrows = res_map (retag t2) (set_data_comp t1 spans nrows).
Proof.
  intros K1 K2 Hb Hv. destruct (tc_value t1) as [| | | | | | | | | |num d enc lv| |] eqn:V1; try contradiction.
  rewrite (set_data_comp_box t1 spans nrows num d enc lv K1 V1),
          (set_data_comp_box t2 spans nrows num d enc lv K2 Hv). cbv zeta.
  destruct (negb (dupfree _)); [reflexivity|].
  destruct (code _ spans _) as [cm|]; reflexivity.
Qed.

(* what retag keeps *)
Lemma retag_keeps t dc :
  dc_levels (retag t dc) = dc_levels dc /\ dc_contrast (retag t dc) = dc_contrast dc /\
  dc_rows (retag t dc) = dc_rows dc /\ dc_spans (retag t dc) = dc_spans dc /\ dc_t (retag t dc) = t.
Proof. repeat split. Qed.

(** Two calls (C / T / S, stateless arguments) with the same value -- the same box or the same error --
    give the same design component up to the name: levels, contrast matrix, rows and coding mode are
    equal; the labels are name[l] over the same l; an error is the same error. *)
Theorem design_up_to_name cx data resp f1 args1 kw1 f2 args2 kw2 spans nrows :
  In f1 CTS -> forallb stateless args1 = true -> forallb (fun kv => stateless (snd kv)) kw1 = true ->
  In f2 CTS -> forallb stateless args2 = true -> forallb (fun kv => stateless (snd kv)) kw2 = true ->
  let E := ECtx data (d_extra cx) (d_sqrt cx) true in
  let lz1 := LzCall f1 args1 kw1 in
  let lz2 := LzCall f2 args2 kw2 in
  value E lz1 = value E lz2 ->
  run cx data resp spans nrows lz1 =
  res_map (fun dc => retag (TC (lazy_str lz1) (CCall lz1) KCategoric (tc_value (dc_t dc)) [] resp None) dc)
          (run cx data resp spans nrows lz2).
Proof.
  intros Hf1 Ha1 Hk1 Hf2 Ha2 Hk2 E lz1 lz2 Hv.
  pose proof (run_value cx data resp f1 args1 kw1 spans nrows Hf1 Ha1 Hk1) as R1.
  pose proof (run_value cx data resp f2 args2 kw2 spans nrows Hf2 Ha2 Hk2) as R2.
  cbv zeta in R1, R2. fold E lz1 in R1. fold E lz2 in R2. rewrite R1, R2, Hv. clear R1 R2.
  destruct (value E lz2) as [v|k] eqn:E2; [|reflexivity]. cbn [bind]. unfold fin.
  assert (Hb : is_box v).
  { unfold lz2 in E2. rewrite (value_CTS E f2 args2 kw2 Hf2 Ha2 Hk2) in E2.
    apply bind_ok in E2 as (pos & _ & E2). apply bind_ok in E2 as (kws & _ & E2).
    exact (CTS_is_box E f2 pos kws v Hf2 E2). }
  set (t1 := TC (lazy_str lz1) (CCall lz1) KCategoric v [] resp None).
  set (t2 := TC (lazy_str lz2) (CCall lz2) KCategoric v [] resp None).
  rewrite (same_box_other_name t2 t1 spans nrows eq_refl eq_refl Hb eq_refl).
  destruct v as [| | | | | | | | | |num d enc lv| |]; try contradiction.
  rewrite (set_data_comp_box t2 spans nrows num d enc lv eq_refl eq_refl). cbv zeta.
  destruct (negb (dupfree _)); [reflexivity|].
  destruct (code _ spans _) as [cm|]; reflexivity.
Qed.

(* ------------------------------------------------------------------------------------------ *)
(** ** Values of flat and of nested calls *)

Lemma Cbox_not_box x c lv : not_box x -> Cbox x c lv = box_of x c lv.
Proof. destruct x; try contradiction; reflexivity. Qed.
Lemma series_not_box x r : series_strings x = Ok r -> not_box x.
Proof. destruct x; try discriminate; intros _; exact I. Qed.

Lemma call_sem3 E f x va l :
  In f CTS ->
  call_function E f [x] [] = sem3 f x PNoneV PNoneV /\
  call_function E f [x; va] [] = sem3 f x va PNoneV /\
  call_function E f [x; va] [("levels", l)] = sem3 f x va l /\
  call_function E f [x] [("levels", l)] = sem3 f x PNoneV l /\
  call_function E f [x; va; l] [] = sem3 f x va l.
Proof.
  intros Hf. destruct Hf as [<-|[<-|[<-|[]]]]; cbn [sem3 String.eqb Ascii.eqb Bool.eqb].
  - destruct (C_call_shapes E x va l) as (-> & -> & -> & -> & -> & _). auto.
  - destruct (T_call_shapes E x va l) as (-> & -> & -> & -> & -> & _). auto.
  - destruct (S_call_shapes E x va l) as (-> & -> & -> & -> & -> & _). auto.
Qed.

Lemma sem3_Cbox f x va l enc lv :
  In f CTS -> not_box x -> second_arg_encoding f va = Ok enc -> as_levels l = Ok lv ->
  sem3 f x va l = Cbox x enc lv.
Proof.
  intros Hf Hx He Hl. rewrite (sem3_series f x va l Hf Hx), He, Hl. cbn [bind].
  symmetry. apply Cbox_not_box. exact Hx.
Qed.

(** The value of a FLAT call f(x, a), f(x, a, levels=lv), f(x, a, lv), f(x), f(x, levels=lv) over a
    column x: Cbox of the column with the encoding the second argument stands for. *)
Theorem value_flat E f xn col :
  In f CTS -> assoc xn (e_data E) = Some col ->
  let x := col_value col in
  (forall a va enc, stateless a = true -> value E a = Ok va -> second_arg_encoding f va = Ok enc ->
     value E (LzCall f [LzVar xn; a] []) = Cbox x enc None /\
     forall lvn l, lookup_name E lvn = Ok (PStrList l) ->
       value E (LzCall f [LzVar xn; a] [("levels", LzVar lvn)]) = Cbox x enc (Some l) /\
       value E (LzCall f [LzVar xn; a; LzVar lvn] []) = Cbox x enc (Some l)) /\
  (forall enc, second_arg_encoding f PNoneV = Ok enc ->
     value E (LzCall f [LzVar xn] []) = Cbox x enc None /\
     forall lvn l, lookup_name E lvn = Ok (PStrList l) ->
       value E (LzCall f [LzVar xn] [("levels", LzVar lvn)]) = Cbox x enc (Some l)).
Proof.
  intros Hf Hcol x.
  assert (Hlk : lookup_name E xn = Ok x) by (apply lookup_column; exact Hcol).
  assert (Hx : not_box x) by apply col_value_not_box.
  split.
  - intros a va enc Ha Hva Henc. split; [|intros lvn l Hl; split].
    + rewrite value_CTS; [|assumption|cbn [forallb stateless]; rewrite Ha; reflexivity|reflexivity].
      cbn [mapM]. rewrite value_var, Hlk, Hva. cbn [bind].
      destruct (call_sem3 E f x va PNoneV Hf) as (_ & -> & _).
      apply sem3_Cbox; auto.
    + rewrite value_CTS; [|assumption|cbn [forallb stateless]; rewrite Ha; reflexivity|reflexivity].
      cbn [mapM]. unfold kwvalue. cbn [fst snd]. rewrite !value_var, Hlk, Hva, Hl. cbn [bind].
      destruct (call_sem3 E f x va (PStrList l) Hf) as (_ & _ & -> & _).
      apply sem3_Cbox; auto.
    + rewrite value_CTS; [|assumption|cbn [forallb stateless]; rewrite Ha; reflexivity|reflexivity].
      cbn [mapM]. rewrite !value_var, Hlk, Hva, Hl. cbn [bind].
      destruct (call_sem3 E f x va (PStrList l) Hf) as (_ & _ & _ & _ & ->).
      apply sem3_Cbox; auto.
  - intros enc Henc. split; [|intros lvn l Hl].
    + rewrite value_CTS; [|assumption|reflexivity|reflexivity].
      cbn [mapM]. rewrite value_var, Hlk. cbn [bind].
      destruct (call_sem3 E f x PNoneV PNoneV Hf) as (-> & _).
      apply sem3_Cbox; auto.
    + rewrite value_CTS; [|assumption|reflexivity|reflexivity].
      cbn [mapM]. unfold kwvalue. cbn [fst snd]. rewrite !value_var, Hlk, Hl. cbn [bind].
      destruct (call_sem3 E f x PNoneV (PStrList l) Hf) as (_ & _ & _ & -> & _).
      apply sem3_Cbox; auto.
Qed.

(* the instances Treatment(r), Sum(o) with any stateless argument, and the bare classes *)
Lemma value_enc_call E a va o :
  stateless a = true -> value E a = Ok va -> as_label va = Ok o ->
  value E (LzCall "Treatment" [a] []) = Ok (PEnc (Treatment o)) /\
  value E (LzCall "Sum" [a] []) = Ok (PEnc (Sum o)) /\
  stateless (LzCall "Treatment" [a] []) = true /\ stateless (LzCall "Sum" [a] []) = true.
Proof.
  intros Ha Hva Ho.
  assert (Hp : pure_at E a) by (apply stateless_pure; exact Ha).
  assert (Hpa : Forall (pure_at E) [a]) by (constructor; [exact Hp|constructor]).
  split; [|split; [|split; cbn [stateless forallb]; rewrite Ha; reflexivity]].
  - unfold value. rewrite (eval_call_pure E [] "Treatment" [a] [] eq_refl Hpa (Forall_nil _)).
    change (negb (known_callee "Treatment")) with false. cbn [mapM]. rewrite Hva. cbn [bind].
    rewrite Treatment_call, Ho. reflexivity.
  - unfold value. rewrite (eval_call_pure E [] "Sum" [a] [] eq_refl Hpa (Forall_nil _)).
    change (negb (known_callee "Sum")) with false. cbn [mapM]. rewrite Hva. cbn [bind].
    rewrite Sum_call, Ho. reflexivity.
Qed.

(** The value of a NESTED call C(inner, ...): whatever the inner call is, as long as it is stateless and
    its value is that of boxing some x with options (c1, l1); the remaining arguments are passed in any
    way that binds (contrast, levels) to (e2, l2). *)
Theorem value_nested E inner rest kw x c1 l1 pos' kws e2 l2 c2 lo2 :
  stateless inner = true -> forallb stateless rest = true ->
  forallb (fun kv => stateless (snd kv)) kw = true ->
  value E inner = Cbox x c1 l1 ->
  mapM (value E) rest = Ok pos' -> mapM (kwvalue E) kw = Ok kws ->
  (forall b, call_function E "C" (b :: pos') kws = C_sem b e2 l2) ->
  as_encoding e2 = Ok c2 -> as_levels l2 = Ok lo2 ->
  value E (LzCall "C" (inner :: rest) kw)
  = (do _ <- Cbox x c1 l1; Cbox x (merge c2 c1) (merge lo2 l1)).
Proof.
  intros Hi Hr Hk Hin Hpos Hkws Hcall He Hl.
  rewrite value_CTS; [|left; reflexivity|cbn [forallb]; rewrite Hi, Hr; reflexivity|exact Hk].
  cbn [mapM]. rewrite Hin, Hpos, Hkws. rewrite <- rebox_compose_bind.
  destruct (Cbox x c1 l1) as [b|]; [|reflexivity]. cbn [bind].
  rewrite Hcall, C_sem_Cbox, He, Hl. reflexivity.
Qed.

(* the ways of passing the outer options that occur in practice *)
Lemma outer_shapes E e l :
  (forall b, call_function E "C" (b :: []) [] = C_sem b PNoneV PNoneV) /\
  (forall b, call_function E "C" (b :: [e]) [] = C_sem b e PNoneV) /\
  (forall b, call_function E "C" (b :: [e; l]) [] = C_sem b e l) /\
  (forall b, call_function E "C" (b :: [e]) [("levels", l)] = C_sem b e l) /\
  (forall b, call_function E "C" (b :: []) [("levels", l)] = C_sem b PNoneV l) /\
  (forall b, call_function E "C" (b :: []) [("contrast", e)] = C_sem b e PNoneV) /\
  (forall b, call_function E "C" (b :: []) [("contrast", e); ("levels", l)] = C_sem b e l) /\
  (forall b, call_function E "C" (b :: []) [("levels", l); ("contrast", e)] = C_sem b e l).
Proof. repeat split; intros b; rewrite call_C; reflexivity. Qed.

(* ------------------------------------------------------------------------------------------ *)
(** ** The design component of a nested call *)

Lemma levels_valid_em lvo d : levels_valid lvo d \/ ~ levels_valid lvo d.
Proof.
  pose proof (levels_valid_dec lvo d) as Hd.
  destruct (match lvo with Some l => same_set l (present d) | None => true end);
    [left; apply Hd; reflexivity|right; intros Hv; apply Hd in Hv; discriminate].
Qed.

(* the conclusion of CodingOptions.call_component: a run that behaves as the flat call with declared
   order o, encoding enc and levels= lv, under the name [name] *)
Definition coded_as (r : res dcomp) (name : string) (num : bool) (o : option (list string))
           (d : list (option string)) (enc : option encoding) (lv : option (list string))
           (spans : bool) : Prop :=
  let e := box_comp_encoding enc in
  let lvs := call_levels num o d lv in
  (levels_valid (box_levels o lv) d -> NoDup lvs -> option_ok e spans lvs ->
   exists dc cm,
     r = Ok dc /\
     tc_value (dc_t dc) = PBox num d enc (box_levels o lv) /\
     dc_levels dc = lvs /\ dc_contrast dc = Some cm /\ code e spans lvs = Ok cm /\
     clabels cm = contrast_labels e spans lvs /\
     dc_labels dc = Some (map (fun l => (name ++ "[" ++ l ++ "]")%string) (contrast_labels e spans lvs)) /\
     (entries_premise e spans lvs -> dc_rows dc = map (ocoded_row e spans lvs) d)) /\
  (~ (levels_valid (box_levels o lv) d /\ NoDup lvs /\ option_ok e spans lvs) -> r = Err EValue).

(** GENERAL FORM.  C(inner, ...outer options...) where inner is any stateless call whose value is the
    boxing of a series x with options (c1, l1), the outer options being (c2, lo2):
      - if the inner call is refused (its own levels are not the values present), so is the nested one;
      - otherwise the component is that of the FLAT call with the merged options
        (c2 or else c1, lo2 or else l1), validation included, under the name of the nested call. *)
Theorem nested_design cx data resp inner rest kw spans nrows x num o d c1 l1 pos' kws e2 l2 c2 lo2 :
  let E := ECtx data (d_extra cx) (d_sqrt cx) true in
  stateless inner = true -> forallb stateless rest = true ->
  forallb (fun kv => stateless (snd kv)) kw = true ->
  value E inner = Cbox x c1 l1 -> series_strings x = Ok (num, o, d) ->
  mapM (value E) rest = Ok pos' -> mapM (kwvalue E) kw = Ok kws ->
  (forall b, call_function E "C" (b :: pos') kws = C_sem b e2 l2) ->
  as_encoding e2 = Ok c2 -> as_levels l2 = Ok lo2 ->
  let lz := LzCall "C" (inner :: rest) kw in
  (levels_valid (box_levels o l1) d ->
   coded_as (run cx data resp spans nrows lz) (lazy_str lz) num o d (merge c2 c1) (merge lo2 l1) spans) /\
  (~ levels_valid (box_levels o l1) d -> run cx data resp spans nrows lz = Err EValue).
Proof.
  intros E Hi Hr Hk Hin Hx Hpos Hkws Hcall He Hl lz.
  assert (Hrun : run cx data resp spans nrows lz =
                 (do _ <- Cbox x c1 l1; do v <- box_of x (merge c2 c1) (merge lo2 l1);
                  fin resp spans nrows lz v)).
  { pose proof (run_value cx data resp "C" (inner :: rest) kw spans nrows) as R. cbv zeta in R.
    fold E lz in R. rewrite R;
      [|left; reflexivity|cbn [forallb]; rewrite Hi, Hr; reflexivity|exact Hk].
    unfold lz. rewrite (value_nested E inner rest kw x c1 l1 pos' kws e2 l2 c2 lo2); try assumption.
    rewrite !(Cbox_not_box x) by (eapply series_not_box; exact Hx).
    destruct (box_of x c1 l1); reflexivity. }
  rewrite Hrun, (Cbox_not_box x) by (eapply series_not_box; exact Hx).
  rewrite (box_of_series x c1 l1 num o d Hx).
  destruct (mk_box_spec num o d c1 l1) as [Hok Hbad]. split.
  - intros Hv. rewrite (Hok Hv). cbn [bind].
    exact (call_component x num o d (merge c2 c1) (merge lo2 l1) (lazy_str lz) (CCall lz) resp spans nrows Hx).
  - intros Hn. rewrite (Hbad Hn). reflexivity.
Qed.

(** SHAPE A.  C(f(q, a), levels=lv) for f among C, T, S over a column q -- e.g. C(T(q, 'b'), levels=lv),
    C(S(q, 'b'), levels=lv), C(C(q, Sum), levels=lv): the encoding of the inner call, the levels of the
    outer call.  (The inner call has no levels=, so it is refused only for an ordered column with an
    unused declared category: hypothesis [levels_valid o d], vacuous for plain strings / integers.) *)
Theorem nested_levels_over_coded cx data resp f xn col a va enc lvn l num o d spans nrows :
  In f CTS -> stateless a = true ->
  let E := ECtx data (d_extra cx) (d_sqrt cx) true in
  assoc xn data = Some col -> series_strings (col_value col) = Ok (num, o, d) ->
  value E a = Ok va -> second_arg_encoding f va = Ok enc ->
  lookup_name E lvn = Ok (PStrList l) ->
  levels_valid o d ->
  let lz := LzCall "C" [LzCall f [LzVar xn; a] []] [("levels", LzVar lvn)] in
  let e := box_comp_encoding enc in
  (levels_valid (Some l) d -> NoDup l -> option_ok e spans l ->
   exists dc cm,
     run cx data resp spans nrows lz = Ok dc /\ tc_value (dc_t dc) = PBox num d enc (Some l) /\
     dc_levels dc = l /\ dc_contrast dc = Some cm /\ code e spans l = Ok cm /\
     clabels cm = contrast_labels e spans l /\
     dc_labels dc = Some (map (fun s => (lazy_str lz ++ "[" ++ s ++ "]")%string) (contrast_labels e spans l)) /\
     (entries_premise e spans l -> dc_rows dc = map (ocoded_row e spans l) d)) /\
  (~ (levels_valid (Some l) d /\ NoDup l /\ option_ok e spans l) ->
   run cx data resp spans nrows lz = Err EValue).
Proof.
  intros Hf Ha E Hcol Hx Hva Henc Hl Hv lz e.
  destruct (value_flat E f xn col Hf Hcol) as [V _].
  destruct (V a va enc Ha Hva Henc) as [Vin _].
  destruct (outer_shapes E PNoneV (PStrList l)) as (_ & _ & _ & _ & Hcall & _).
  destruct (nested_design cx data resp (LzCall f [LzVar xn; a] []) [] [("levels", LzVar lvn)] spans nrows
              (col_value col) num o d enc None [] [("levels", PStrList l)] PNoneV (PStrList l) None (Some l))
    as [N _]; try assumption; try reflexivity.
  - apply stateless_CTS; [assumption|cbn [forallb stateless]; rewrite Ha; reflexivity|reflexivity].
  - cbn [mapM]. unfold kwvalue. cbn [fst snd]. fold E. rewrite value_var, Hl. reflexivity.
  - rewrite box_levels_merge in N. cbn [merge] in N. specialize (N Hv).
    unfold coded_as in N. rewrite box_levels_merge in N. cbn [merge call_levels] in N.
    exact N.
Qed.

(** SHAPE B.  C(f(q, levels=lv), a) for f among C, T, S -- e.g. C(C(q, levels=lv), Sum),
    C(C(q, levels=lv), Treatment('b')), C(T(q, levels=lv), Sum('a')): the levels of the inner call, the
    encoding of the outer call when it gives one (else the inner one).  No side hypothesis. *)
Theorem nested_coded_over_levels cx data resp f xn col a va enc0 c2 lvn l num o d spans nrows :
  In f CTS -> stateless a = true ->
  let E := ECtx data (d_extra cx) (d_sqrt cx) true in
  assoc xn data = Some col -> series_strings (col_value col) = Ok (num, o, d) ->
  second_arg_encoding f PNoneV = Ok enc0 ->
  value E a = Ok va -> as_encoding va = Ok c2 ->
  lookup_name E lvn = Ok (PStrList l) ->
  let lz := LzCall "C" [LzCall f [LzVar xn] [("levels", LzVar lvn)]; a] [] in
  let e := box_comp_encoding (merge c2 enc0) in
  (levels_valid (Some l) d -> NoDup l -> option_ok e spans l ->
   exists dc cm,
     run cx data resp spans nrows lz = Ok dc /\ tc_value (dc_t dc) = PBox num d (merge c2 enc0) (Some l) /\
     dc_levels dc = l /\ dc_contrast dc = Some cm /\ code e spans l = Ok cm /\
     clabels cm = contrast_labels e spans l /\
     dc_labels dc = Some (map (fun s => (lazy_str lz ++ "[" ++ s ++ "]")%string) (contrast_labels e spans l)) /\
     (entries_premise e spans l -> dc_rows dc = map (ocoded_row e spans l) d)) /\
  (~ (levels_valid (Some l) d /\ NoDup l /\ option_ok e spans l) ->
   run cx data resp spans nrows lz = Err EValue).
Proof.
  intros Hf Ha E Hcol Hx Henc0 Hva Hc2 Hl lz e.
  destruct (value_flat E f xn col Hf Hcol) as [_ V].
  destruct (V enc0 Henc0) as [_ V']. specialize (V' lvn l Hl).
  destruct (outer_shapes E va PNoneV) as (_ & Hcall & _).
  destruct (nested_design cx data resp (LzCall f [LzVar xn] [("levels", LzVar lvn)]) [a] [] spans nrows
              (col_value col) num o d enc0 (Some l) [va] [] va PNoneV c2 None)
    as [N Nbad]; try assumption; try reflexivity.
  - apply stateless_CTS; [assumption|reflexivity|reflexivity].
  - cbn [forallb]. rewrite Ha. reflexivity.
  - cbn [mapM]. fold E. rewrite Hva. reflexivity.
  - fold E lz in N, Nbad. rewrite box_levels_merge in N, Nbad. cbn [merge] in N, Nbad.
    destruct (levels_valid_em (Some l) d) as [Hv|Hv].
    + specialize (N Hv). unfold coded_as in N. rewrite box_levels_merge in N. cbn [merge call_levels] in N.
      exact N.
    + split; [intros Hv'; contradiction|intros _; exact (Nbad Hv)].
Qed.

(** C(C(x)) is C(x), C(T(x, r)) is T(x, r), ...: wrapping an accepted call in a bare C changes the NAME
    only; in general C(inner) for any call inner among C, T, S with stateless arguments. *)
Theorem bare_C_wrapper cx data resp f args kw spans nrows :
  In f CTS -> forallb stateless args = true -> forallb (fun kv => stateless (snd kv)) kw = true ->
  let inner := LzCall f args kw in
  let lz := LzCall "C" [inner] [] in
  run cx data resp spans nrows lz =
  res_map (fun dc => retag (TC (lazy_str lz) (CCall lz) KCategoric (tc_value (dc_t dc)) [] resp None) dc)
          (run cx data resp spans nrows inner).
Proof.
  intros Hf Ha Hk inner lz.
  apply (design_up_to_name cx data resp "C" [inner] [] f args kw spans nrows); try assumption;
    try reflexivity; [left; reflexivity| |].
  - cbn [forallb]. unfold inner. rewrite (stateless_CTS f args kw Hf Ha Hk). reflexivity.
  - set (E := ECtx data (d_extra cx) (d_sqrt cx) true).
    rewrite (value_CTS E "C" [inner] []); [|left; reflexivity| |reflexivity].
    2:{ cbn [forallb]. unfold inner. rewrite (stateless_CTS f args kw Hf Ha Hk). reflexivity. }
    cbn [mapM]. unfold inner. destruct (value E (LzCall f args kw)) as [v|] eqn:Ev; [|reflexivity]. cbn [bind].
    destruct (outer_shapes E PNoneV PNoneV) as (-> & _).
    rewrite C_sem_Cbox. cbn [as_encoding as_levels bind].
    rewrite (value_CTS E f args kw Hf Ha Hk) in Ev.
    apply bind_ok in Ev as (pos & _ & Ev). apply bind_ok in Ev as (kws & _ & Ev).
    pose proof (CTS_is_box E f pos kws v Hf Ev) as Hb.
    apply rebox_idem; [exact Hb|].
    (* every box made by C / T / S is well formed *)
    destruct Hf as [<-|[<-|[<-|[]]]];
      [rewrite call_C in Ev|rewrite call_T in Ev|rewrite call_S in Ev]; unfold with_sig3 in Ev;
      (destruct (negb (check_kw _ kws)); [discriminate|]);
      apply bind_ok in Ev as (b & _ & Ev);
      match type of Ev with (if ?c then _ else _) = _ => destruct c; [|discriminate] end.
    + rewrite C_sem_Cbox in Ev. apply bind_ok in Ev as (c & _ & Ev). apply bind_ok in Ev as (l & _ & Ev).
      exact (Cbox_wf _ _ _ _ Ev).
    + unfold T_sem, box_of in Ev. apply bind_ok in Ev as (c & _ & Ev). apply bind_ok in Ev as (l & _ & Ev).
      apply bind_ok in Ev as (ss & _ & Ev). exact (mk_box_wf _ _ _ _ _ _ Ev).
    + unfold S_sem, box_of in Ev. apply bind_ok in Ev as (c & _ & Ev). apply bind_ok in Ev as (l & _ & Ev).
      apply bind_ok in Ev as (ss & _ & Ev). exact (mk_box_wf _ _ _ _ _ _ Ev).
Qed.

(* ------------------------------------------------------------------------------------------ *)
(** ** Nested = flat, up to the name *)

Lemma Cbox_series x num o d c lv :
  series_strings x = Ok (num, o, d) -> Cbox x c lv = mk_box num o d c lv.
Proof.
  intros Hx. rewrite (Cbox_not_box x) by (eapply series_not_box; exact Hx). apply box_of_series. exact Hx.
Qed.

(* an accepted inner call can be dropped; an inner call with the same levels is refused exactly when
   the flat call is *)
Lemma seq_accepted x num o d c1 l1 (r : res pyval) :
  series_strings x = Ok (num, o, d) -> levels_valid (box_levels o l1) d ->
  (do _ <- Cbox x c1 l1; r) = r.
Proof.
  intros Hx Hv. rewrite (Cbox_series x num o d c1 l1 Hx).
  destruct (mk_box_spec num o d c1 l1) as [-> _]; [reflexivity|exact Hv].
Qed.
Lemma seq_same_levels x num o d c1 c2 lv :
  series_strings x = Ok (num, o, d) ->
  (do _ <- Cbox x c1 lv; Cbox x c2 lv) = Cbox x c2 lv.
Proof.
  intros Hx. rewrite !(Cbox_series x num o d _ lv Hx).
  destruct (mk_box_spec num o d c1 lv) as [H1 H1']. destruct (mk_box_spec num o d c2 lv) as [H2 H2'].
  destruct (levels_valid_em (box_levels o lv) d) as [Hv|Hv].
  - rewrite (H1 Hv). reflexivity.
  - rewrite (H1' Hv), (H2' Hv). reflexivity.
Qed.

(* the only things that differ between the two runs *)
Definition renamed_to (lz : lazy) (resp : bool) (r : res dcomp) : res dcomp :=
  res_map (fun dc => retag (TC (lazy_str lz) (CCall lz) KCategoric (tc_value (dc_t dc)) [] resp None) dc) r.

(** SHAPE A: the design of C(f1(q, a1), levels=lv) is the design of the flat f2(q, a2, levels=lv) whenever
    (f1, a1) and (f2, a2) stand for the same encoding -- e.g.
        C(T(q, 'b'), levels=lv)  ~  C(q, Treatment('b'), levels=lv)  ~  T(q, 'b', levels=lv)
        C(S(q, 'b'), levels=lv)  ~  C(q, Sum('b'), levels=lv)        ~  S(q, 'b', levels=lv)
        C(C(q, Sum), levels=lv)  ~  C(q, Sum, levels=lv)
    up to [renamed_to]: same levels, contrast, rows, coding mode and box; the typed component carries the
    other name / source, and the labels the other prefix. *)
Theorem nested_A_is_flat cx data resp f1 a1 va1 f2 a2 va2 enc xn col lvn l num o d spans nrows :
  In f1 CTS -> stateless a1 = true -> In f2 CTS -> stateless a2 = true ->
  let E := ECtx data (d_extra cx) (d_sqrt cx) true in
  assoc xn data = Some col -> series_strings (col_value col) = Ok (num, o, d) ->
  value E a1 = Ok va1 -> second_arg_encoding f1 va1 = Ok enc ->
  value E a2 = Ok va2 -> second_arg_encoding f2 va2 = Ok enc ->
  lookup_name E lvn = Ok (PStrList l) ->
  levels_valid o d ->
  let nested := LzCall "C" [LzCall f1 [LzVar xn; a1] []] [("levels", LzVar lvn)] in
  let flat := LzCall f2 [LzVar xn; a2] [("levels", LzVar lvn)] in
  run cx data resp spans nrows nested = renamed_to nested resp (run cx data resp spans nrows flat).
Proof.
  intros Hf1 Ha1 Hf2 Ha2 E Hcol Hx Hva1 He1 Hva2 He2 Hl Hv nested flat.
  assert (Si : stateless (LzCall f1 [LzVar xn; a1] []) = true).
  { apply stateless_CTS; [assumption|cbn [forallb stateless]; rewrite Ha1; reflexivity|reflexivity]. }
  apply (design_up_to_name cx data resp "C" [LzCall f1 [LzVar xn; a1] []] [("levels", LzVar lvn)]
           f2 [LzVar xn; a2] [("levels", LzVar lvn)] spans nrows); try assumption; try reflexivity.
  - left; reflexivity.
  - cbn [forallb]. rewrite Si. reflexivity.
  - cbn [forallb stateless]. rewrite Ha2. reflexivity.
  - fold E.
    destruct (value_flat E f1 xn col Hf1 Hcol) as [V1 _]. destruct (V1 a1 va1 enc Ha1 Hva1 He1) as [Vin _].
    destruct (value_flat E f2 xn col Hf2 Hcol) as [V2 _]. destruct (V2 a2 va2 enc Ha2 Hva2 He2) as [_ V2'].
    destruct (V2' lvn l Hl) as [-> _].
    destruct (outer_shapes E PNoneV (PStrList l)) as (_ & _ & _ & _ & Hcall & _).
    rewrite (value_nested E _ [] [("levels", LzVar lvn)] (col_value col) enc None [] [("levels", PStrList l)]
               PNoneV (PStrList l) None (Some l) Si eq_refl eq_refl Vin eq_refl); [| |exact Hcall|reflexivity|reflexivity].
    + cbn [merge]. apply (seq_accepted _ num o d); [exact Hx|]. rewrite box_levels_merge. exact Hv.
    + cbn [mapM]. unfold kwvalue. cbn [fst snd]. rewrite value_var, Hl. reflexivity.
Qed.

(** SHAPE B: the design of C(f1(q, levels=lv), a1) is the design of the flat f2(q, a2, levels=lv) whenever
    a1 over the default of f1 and (f2, a2) stand for the same encoding -- e.g.
        C(C(q, levels=lv), Sum)  ~  C(q, Sum, levels=lv)  ~  S(q, None, levels=lv)
        C(T(q, levels=lv), Sum('a'))  ~  S(q, 'a', levels=lv)
    No side hypothesis: a refused inner call is a refused flat call. *)
Theorem nested_B_is_flat cx data resp f1 enc0 a1 va1 c1 f2 a2 va2 xn col lvn l num o d spans nrows :
  In f1 CTS -> stateless a1 = true -> In f2 CTS -> stateless a2 = true ->
  let E := ECtx data (d_extra cx) (d_sqrt cx) true in
  assoc xn data = Some col -> series_strings (col_value col) = Ok (num, o, d) ->
  second_arg_encoding f1 PNoneV = Ok enc0 ->
  value E a1 = Ok va1 -> as_encoding va1 = Ok c1 ->
  value E a2 = Ok va2 -> second_arg_encoding f2 va2 = Ok (merge c1 enc0) ->
  lookup_name E lvn = Ok (PStrList l) ->
  let nested := LzCall "C" [LzCall f1 [LzVar xn] [("levels", LzVar lvn)]; a1] [] in
  let flat := LzCall f2 [LzVar xn; a2] [("levels", LzVar lvn)] in
  run cx data resp spans nrows nested = renamed_to nested resp (run cx data resp spans nrows flat).
Proof.
  intros Hf1 Ha1 Hf2 Ha2 E Hcol Hx He0 Hva1 Hc1 Hva2 He2 Hl nested flat.
  assert (Si : stateless (LzCall f1 [LzVar xn] [("levels", LzVar lvn)]) = true).
  { apply stateless_CTS; [assumption|reflexivity|reflexivity]. }
  apply (design_up_to_name cx data resp "C" [LzCall f1 [LzVar xn] [("levels", LzVar lvn)]; a1] []
           f2 [LzVar xn; a2] [("levels", LzVar lvn)] spans nrows); try assumption; try reflexivity.
  - left; reflexivity.
  - cbn [forallb]. rewrite Si, Ha1. reflexivity.
  - cbn [forallb stateless]. rewrite Ha2. reflexivity.
  - fold E.
    destruct (value_flat E f1 xn col Hf1 Hcol) as [_ V1]. destruct (V1 enc0 He0) as [_ V1'].
    specialize (V1' lvn l Hl).
    destruct (value_flat E f2 xn col Hf2 Hcol) as [V2 _]. destruct (V2 a2 va2 _ Ha2 Hva2 He2) as [_ V2'].
    destruct (V2' lvn l Hl) as [-> _].
    destruct (outer_shapes E va1 PNoneV) as (_ & Hcall & _).
    rewrite (value_nested E _ [a1] [] (col_value col) enc0 (Some l) [va1] [] va1 PNoneV c1 None
               Si); [| | |exact V1'| |reflexivity|exact Hcall|exact Hc1|reflexivity].
    + cbn [merge]. exact (seq_same_levels _ num o d _ _ _ Hx).
    + cbn [forallb]. rewrite Ha1. reflexivity.
    + reflexivity.
    + cbn [mapM]. rewrite Hva1. reflexivity.
Qed.

(** What the columns ARE under reduced Treatment coding with reference r among the levels lv (e.g.
    C(T(q, r), levels=lv) in a model with intercept): one column per level of lv other than r, in the
    order of lv; the column of level l holds the indicator [value = l]; a row whose value is the
    reference r (or is missing) is zero. *)
Theorem treatment_reduced_columns r lv :
  contrast_labels (Treatment (Some r)) false lv = without r lv /\
  (forall l, In l (without r lv) <-> In l lv /\ l <> r) /\
  (forall ox, ocoded_row (Treatment (Some r)) false lv ox = map (oind ox) (without r lv)) /\
  (forall ox, combine (without r lv) (ocoded_row (Treatment (Some r)) false lv ox)
              = map (fun l => (l, oind ox l)) (without r lv)) /\
  ocoded_row (Treatment (Some r)) false lv (Some r) = repeat (zcell 0) (List.length (without r lv)) /\
  ocoded_row (Treatment (Some r)) false lv None = repeat (zcell 0) (List.length (without r lv)).
Proof.
  split; [reflexivity|]. split.
  { intros l. unfold without. rewrite filter_In, negb_true_iff, String.eqb_neq. tauto. }
  split; [reflexivity|]. split.
  { intros ox. exact (ocoded_row_entries (Treatment (Some r)) false lv ox). }
  cbn [ocoded_row kept_levels left_out treatment_reference].
  split.
  - assert (H : forall ls, (forall l, In l ls -> l <> r) ->
                           map (oind (Some r)) ls = repeat (zcell 0) (List.length ls)).
    { induction ls as [|a ls IH]; intros Hn; [reflexivity|]. cbn [map List.length repeat oind].
      rewrite <- IH by (intros l Hl; apply Hn; right; exact Hl). f_equal.
      unfold ind. destruct (String.eqb_spec r a) as [->|_]; [|reflexivity].
      exfalso. apply (Hn a); [left; reflexivity|reflexivity]. }
    apply H. intros l Hl. unfold without in Hl. apply filter_In in Hl as [_ Hl].
    apply negb_true_iff, String.eqb_neq in Hl. exact Hl.
  - induction (without r lv) as [|a ls IH]; [reflexivity|]. cbn [map List.length repeat oind]. f_equal. exact IH.
Qed.

(* ------------------------------------------------------------------------------------------ *)
(** * 3. Validation is applied to the MERGED options *)

Lemma accept_em lvo d l e spans :
  (levels_valid lvo d /\ NoDup l /\ option_ok e spans l) \/ ~ (levels_valid lvo d /\ NoDup l /\ option_ok e spans l).
Proof.
  destruct (levels_valid_em lvo d); destruct (NoDup_str_dec l); destruct (option_ok_dec e spans l); tauto.
Qed.

(** SHAPE A, e.g. C(T(q, 'zz'), levels=lv): accepted exactly when lv is, as a set, the values present, does
    not repeat an entry, and the level named by the INNER call (when consulted) is among the OUTER levels lv
    -- exactly the condition of the un-nested call f(q, a, levels=lv); every refusal is a ValueError.  And
    when the inner call itself is refused (only possible for an ordered column with an unused declared
    category) the nested call is refused with ValueError too. *)
Theorem nested_A_accepted_iff cx data resp f xn col a va enc lvn l num o d spans nrows :
  In f CTS -> stateless a = true ->
  let E := ECtx data (d_extra cx) (d_sqrt cx) true in
  assoc xn data = Some col -> series_strings (col_value col) = Ok (num, o, d) ->
  value E a = Ok va -> second_arg_encoding f va = Ok enc ->
  lookup_name E lvn = Ok (PStrList l) ->
  let nested := LzCall "C" [LzCall f [LzVar xn; a] []] [("levels", LzVar lvn)] in
  let flat := LzCall f [LzVar xn; a] [("levels", LzVar lvn)] in
  let e := box_comp_encoding enc in
  (levels_valid o d ->
   ((exists dc, run cx data resp spans nrows nested = Ok dc)
      <-> levels_valid (Some l) d /\ NoDup l /\ option_ok e spans l) /\
   ((exists dc, run cx data resp spans nrows nested = Ok dc)
      <-> (exists dc, run cx data resp spans nrows flat = Ok dc))) /\
  (~ levels_valid o d -> run cx data resp spans nrows nested = Err EValue) /\
  (forall k, run cx data resp spans nrows nested = Err k -> k = EValue).
Proof.
  intros Hf Ha E Hcol Hx Hva Henc Hl nested flat e.
  pose proof (CTS_levels_design cx data resp f xn col a lvn l va enc num o d spans nrows Hf Ha Hcol Hx Hva Henc Hl)
    as [Fok Fbad].
  fold flat e in Fok, Fbad. change (do t <- set_type_comp cx data resp (CCall flat); set_data_comp t spans nrows)
    with (run cx data resp spans nrows flat) in Fok, Fbad.
  assert (Hbad : ~ levels_valid o d -> run cx data resp spans nrows nested = Err EValue).
  { intros Hn.
    destruct (value_flat E f xn col Hf Hcol) as [V _]. destruct (V a va enc Ha Hva Henc) as [Vin _].
    destruct (outer_shapes E PNoneV (PStrList l)) as (_ & _ & _ & _ & Hcall & _).
    destruct (nested_design cx data resp (LzCall f [LzVar xn; a] []) [] [("levels", LzVar lvn)] spans nrows
                (col_value col) num o d enc None [] [("levels", PStrList l)] PNoneV (PStrList l) None (Some l))
      as [_ N]; try assumption; try reflexivity.
    - apply stateless_CTS; [assumption|cbn [forallb stateless]; rewrite Ha; reflexivity|reflexivity].
    - cbn [mapM]. unfold kwvalue. cbn [fst snd]. fold E. rewrite value_var, Hl. reflexivity.
    - apply N. rewrite box_levels_merge. exact Hn. }
  split; [|split; [exact Hbad|]].
  - intros Hv.
    pose proof (nested_levels_over_coded cx data resp f xn col a va enc lvn l num o d spans nrows
                  Hf Ha Hcol Hx Hva Henc Hl Hv) as [Nok Nbad].
    fold nested e in Nok, Nbad.
    assert (I1 : (exists dc, run cx data resp spans nrows nested = Ok dc)
                 <-> levels_valid (Some l) d /\ NoDup l /\ option_ok e spans l).
    { split.
      - intros (dc & Hdc). destruct (accept_em (Some l) d l e spans) as [D|D]; [exact D|].
        rewrite (Nbad D) in Hdc. discriminate.
      - intros (H1 & H2 & H3). destruct (Nok H1 H2 H3) as (dc & _ & Hdc & _). eauto. }
    split; [exact I1|]. rewrite I1. split.
    + intros (H1 & H2 & H3). destruct (Fok H1 H2 H3) as (dc & _ & Hdc & _). eauto.
    + intros (dc & Hdc). destruct (accept_em (Some l) d l e spans) as [D|D]; [exact D|].
      rewrite (Fbad D) in Hdc. discriminate.
  - intros k Hk. destruct (levels_valid_em o d) as [Hv|Hv]; [|rewrite (Hbad Hv) in Hk; congruence].
    pose proof (nested_levels_over_coded cx data resp f xn col a va enc lvn l num o d spans nrows
                  Hf Ha Hcol Hx Hva Henc Hl Hv) as [Nok Nbad].
    fold nested e in Nok, Nbad.
    destruct (accept_em (Some l) d l e spans) as [(H1 & H2 & H3)|D].
    + destruct (Nok H1 H2 H3) as (dc & _ & Hdc & _). congruence.
    + rewrite (Nbad D) in Hk. congruence.
Qed.

(** For a column of plain strings: C(T(q, r), levels=lv) in a model with intercept (reduced coding) is
    accepted iff lv is a PERMUTATION of the sorted distinct values and r is in lv; C(S(q, r), levels=lv)
    likewise under either coding. *)
Corollary nested_reference_checked_against_outer_levels cx data resp xn xs a r lvn l nrows :
  stateless a = true ->
  let E := ECtx data (d_extra cx) (d_sqrt cx) true in
  assoc xn data = Some (ColStr None xs) -> value E a = Ok (PStr r) ->
  lookup_name E lvn = Ok (PStrList l) ->
  let nT := LzCall "C" [LzCall "T" [LzVar xn; a] []] [("levels", LzVar lvn)] in
  let nS := LzCall "C" [LzCall "S" [LzVar xn; a] []] [("levels", LzVar lvn)] in
  ((exists dc, run cx data resp false nrows nT = Ok dc)
     <-> Permutation l (sort_levels false (present xs)) /\ In r l) /\
  (forall spans, (exists dc, run cx data resp spans nrows nS = Ok dc)
     <-> Permutation l (sort_levels false (present xs)) /\ In r l) /\
  (~ In r l -> run cx data resp false nrows nT = Err EValue /\
               forall spans, run cx data resp spans nrows nS = Err EValue).
Proof.
  intros Ha E Hcol Hva Hl nT nS.
  assert (Hv : levels_valid None xs) by apply unordered_levels_valid.
  pose proof (fun f Hf enc He spans =>
    nested_A_accepted_iff cx data resp f xn (ColStr None xs) a (PStr r) enc lvn l false None xs spans nrows
      Hf Ha Hcol eq_refl Hva He Hl) as N. cbv zeta in N.
  assert (NT := fun spans => N "T" (or_intror (or_introl eq_refl)) (Some (Treatment (Some r))) eq_refl spans).
  assert (NS := fun spans => N "S" (or_intror (or_intror (or_introl eq_refl))) (Some (Sum (Some r))) eq_refl spans).
  clear N. fold nT in NT. fold nS in NS.
  assert (OT : option_ok (Treatment (Some r)) false l <-> In r l).
  { unfold option_ok. cbn [option_level consults_reference negb]. split; auto. }
  assert (OS : forall spans, option_ok (Sum (Some r)) spans l <-> In r l).
  { intros spans. unfold option_ok. cbn [option_level consults_reference]. split; auto. }
  split; [|split].
  - destruct (NT false) as [A _]. destruct (A Hv) as [I _]. rewrite I. cbn [box_comp_encoding].
    rewrite OT, <- levels_accept_perm_str. tauto.
  - intros spans. destruct (NS spans) as [A _]. destruct (A Hv) as [I _]. rewrite I. cbn [box_comp_encoding].
    rewrite OS, <- levels_accept_perm_str. tauto.
  - intros Hn. split; [|intros spans].
    + destruct (NT false) as [A [_ K]]. destruct (A Hv) as [I _].
      destruct (run cx data resp false nrows nT) as [dc|k] eqn:R.
      * exfalso. destruct I as [I _]. destruct I as (_ & _ & Ho); [eauto|]. apply Hn. apply (proj1 OT). exact Ho.
      * rewrite (K k eq_refl). reflexivity.
    + destruct (NS spans) as [A [_ K]]. destruct (A Hv) as [I _].
      destruct (run cx data resp spans nrows nS) as [dc|k] eqn:R.
      * exfalso. destruct I as [I _]. destruct I as (_ & _ & Ho); [eauto|]. apply Hn. apply (proj1 (OS spans)). exact Ho.
      * rewrite (K k eq_refl). reflexivity.
Qed.

(* ------------------------------------------------------------------------------------------ *)
(** * 4. The merged fall-back reading is refuted *)

(* the WRONG rule: inherit from the inner box only when BOTH options are absent
     if isinstance(data, CategoricalBox):
         if contrast is None and levels is None: contrast = data.contrast; levels = data.levels
         data = data.data *)
Definition C_sem_merged (x e l : pyval) : res pyval :=
  do c <- as_encoding e;
  do lv <- as_levels l;
  match x with
  | PBox num d c0 lv0 =>
      match c, lv with
      | None, None => mk_box num None d c0 lv0
      | _, _ => mk_box num None d c lv
      end
  | _ => box_of x c lv
  end.

(* the two rules agree when the data is no box, when both options are given and when neither is *)
Lemma C_sem_merged_agrees x e l :
  not_box x \/ (e = PNoneV /\ l = PNoneV) \/
  (exists c lv, as_encoding e = Ok (Some c) /\ as_levels l = Ok (Some lv)) ->
  C_sem_merged x e l = C_sem x e l.
Proof.
  intros [Hx|[[-> ->]|(c & lv & He & Hl)]]; unfold C_sem_merged, C_sem.
  - destruct (as_encoding e); [|reflexivity]. destruct (as_levels l); [|reflexivity]. cbn [bind].
    destruct x; try contradiction; reflexivity.
  - cbn [as_encoding as_levels bind]. destruct x; reflexivity.
  - rewrite He, Hl. cbn [bind]. destruct x; reflexivity.
Qed.

(* ------------------------------------------------------------------------------------------ *)
(** * 5. Examples (by computation) on a 6-row frame, q in {a, b, c}, lv = [c; a; b] *)

Module Examples.
  Definition q (z : Z) : cell := Some (qz z).
  Definition qcol : list (option string) := [Some "b"; Some "c"; Some "a"; Some "c"; Some "a"; Some "b"].
  Definition data : frame :=
    [("y", ColNum true [q 1; q 2; q 3; q 4; q 5; q 6]); ("q", ColStr None qcol)].
  Definition cx : dctx :=
    DCtx [("lv", PStrList ["c"; "a"; "b"]); ("bad", PStrList ["a"; "b"])] (fun r => r).
  Definition E : ectx := ECtx data (d_extra cx) (d_sqrt cx) true.
  Definition view (r : res dcomp) :=
    match r with
    | Ok dc => Ok (dc_levels dc, match dc_contrast dc with Some cm => clabels cm | None => [] end,
                   dc_labels dc, map (map cshow) (dc_rows dc))
    | Err k => Err k
    end.
  (* a string literal with its source text *)
  Definition str (s : string) : lazy := LzVal (LStr s) (Some (String.append "'" (String.append s "'"))).
  Definition runq (lz : lazy) (spans : bool) := view (run cx data false spans 6 lz).
  Definition lvkw : list (string * lazy) := [("levels", LzVar "lv")].

  (* C(T(q, 'b'), levels=lv): levels lv, reference b -- columns c, a in the order of lv; the rows with
     value b are zero.  The flat call differs in the prefix of the labels only. *)
  Example C_of_T_levels :
    runq (LzCall "C" [LzCall "T" [LzVar "q"; str "b"] []] lvkw) false
    = Ok (["c"; "a"; "b"], ["c"; "a"],
          Some ["C(T(q, 'b'), levels=lv)[c]"; "C(T(q, 'b'), levels=lv)[a]"],
          [["0"; "0"]; ["1"; "0"]; ["0"; "1"]; ["1"; "0"]; ["0"; "1"]; ["0"; "0"]]) /\
    runq (LzCall "C" [LzVar "q"; LzCall "Treatment" [str "b"] []] lvkw) false
    = Ok (["c"; "a"; "b"], ["c"; "a"],
          Some ["C(q, Treatment('b'), levels=lv)[c]"; "C(q, Treatment('b'), levels=lv)[a]"],
          [["0"; "0"]; ["1"; "0"]; ["0"; "1"]; ["1"; "0"]; ["0"; "1"]; ["0"; "0"]]).
  Proof. split; vm_compute; reflexivity. Qed.

  Example C_of_S_levels :
    runq (LzCall "C" [LzCall "S" [LzVar "q"; str "a"] []] lvkw) false
    = Ok (["c"; "a"; "b"], ["c"; "b"],
          Some ["C(S(q, 'a'), levels=lv)[c]"; "C(S(q, 'a'), levels=lv)[b]"],
          [["0"; "1"]; ["1"; "0"]; ["-1"; "-1"]; ["1"; "0"]; ["-1"; "-1"]; ["0"; "1"]]).
  Proof. vm_compute. reflexivity. Qed.

  (* C(C(q, levels=lv), Sum) and C(C(q, Sum), levels=lv): levels lv, Sum omitting the LAST of lv (b) *)
  Example C_levels_then_Sum :
    runq (LzCall "C" [LzCall "C" [LzVar "q"] lvkw; LzVar "Sum"] []) false
    = Ok (["c"; "a"; "b"], ["c"; "a"],
          Some ["C(C(q, levels=lv), Sum)[c]"; "C(C(q, levels=lv), Sum)[a]"],
          [["-1"; "-1"]; ["1"; "0"]; ["0"; "1"]; ["1"; "0"]; ["0"; "1"]; ["-1"; "-1"]]) /\
    runq (LzCall "C" [LzCall "C" [LzVar "q"; LzVar "Sum"] []] lvkw) false
    = Ok (["c"; "a"; "b"], ["c"; "a"],
          Some ["C(C(q, Sum), levels=lv)[c]"; "C(C(q, Sum), levels=lv)[a]"],
          [["-1"; "-1"]; ["1"; "0"]; ["0"; "1"]; ["1"; "0"]; ["0"; "1"]; ["-1"; "-1"]]).
  Proof. split; vm_compute; reflexivity. Qed.

  (* C(C(q)) is C(q) under another name; three levels of nesting: the last option given wins, per option *)
  Example C_of_C_and_triple :
    runq (LzCall "C" [LzCall "C" [LzVar "q"] []] []) false
    = Ok (["a"; "b"; "c"], ["b"; "c"], Some ["C(C(q))[b]"; "C(C(q))[c]"],
          [["1"; "0"]; ["0"; "1"]; ["0"; "0"]; ["0"; "1"]; ["0"; "0"]; ["1"; "0"]]) /\
    runq (LzCall "C" [LzCall "C" [LzCall "C" [LzVar "q"] lvkw; LzVar "Sum"] [];
                      LzCall "Treatment" [str "a"] []] []) false
    = Ok (["c"; "a"; "b"], ["c"; "b"],
          Some ["C(C(C(q, levels=lv), Sum), Treatment('a'))[c]";
                "C(C(C(q, levels=lv), Sum), Treatment('a'))[b]"],
          [["0"; "1"]; ["1"; "0"]; ["0"; "0"]; ["1"; "0"]; ["0"; "0"]; ["0"; "1"]]).
  Proof. split; vm_compute; reflexivity. Qed.

  (* validation on the merged options: an unknown reference (reduced coding), outer levels that are not the
     values, inner levels that are not the values (not masked by the outer ones); T of a box is refused *)
  Example refusals :
    runq (LzCall "C" [LzCall "T" [LzVar "q"; str "zz"] []] lvkw) false = Err EValue /\
    runq (LzCall "C" [LzCall "T" [LzVar "q"; str "b"] []] [("levels", LzVar "bad")]) false = Err EValue /\
    runq (LzCall "C" [LzCall "C" [LzVar "q"] [("levels", LzVar "bad")]] lvkw) false = Err EValue /\
    runq (LzCall "T" [LzCall "T" [LzVar "q"; str "b"] []] []) false = Err EValue.
  Proof. repeat split; vm_compute; reflexivity. Qed.
  (* (under full-rank Treatment coding the reference is never consulted: CodingOptions) *)
  Example unknown_reference_full :
    runq (LzCall "C" [LzCall "T" [LzVar "q"; str "zz"] []] lvkw) true
    = Ok (["c"; "a"; "b"], ["c"; "a"; "b"],
          Some ["C(T(q, 'zz'), levels=lv)[c]"; "C(T(q, 'zz'), levels=lv)[a]"; "C(T(q, 'zz'), levels=lv)[b]"],
          [["0"; "0"; "1"]; ["1"; "0"; "0"]; ["0"; "1"; "0"]; ["1"; "0"; "0"]; ["0"; "1"; "0"]; ["0"; "0"; "1"]]).
  Proof. vm_compute. reflexivity. Qed.

  (* the hypotheses of [nested_levels_over_coded] / [nested_A_is_flat] / [nested_B_is_flat] are satisfiable *)
  Example shape_A_instance :
    let nested := LzCall "C" [LzCall "T" [LzVar "q"; str "b"] []] lvkw in
    let flat := LzCall "C" [LzVar "q"; LzCall "Treatment" [str "b"] []] lvkw in
    (exists dc cm,
       run cx data false false 6 nested = Ok dc /\
       tc_value (dc_t dc) = PBox false qcol (Some (Treatment (Some "b"))) (Some ["c"; "a"; "b"]) /\
       dc_levels dc = ["c"; "a"; "b"] /\ dc_contrast dc = Some cm /\ clabels cm = ["c"; "a"] /\
       dc_rows dc = map (ocoded_row (Treatment (Some "b")) false ["c"; "a"; "b"]) qcol) /\
    run cx data false false 6 nested = renamed_to nested false (run cx data false false 6 flat).
  Proof.
    intros nested flat. split.
    - destruct (nested_levels_over_coded cx data false "T" "q" (ColStr None qcol) (str "b") (PStr "b")
                  (Some (Treatment (Some "b"))) "lv" ["c"; "a"; "b"] false None qcol false 6)
        as [H _]; try reflexivity.
      + right; left; reflexivity.
      + apply unordered_levels_valid.
      + destruct H as (dc & cm & Hrun & Hv & Hlv & Hc & _ & Hl & _ & Hrows).
        * intros l' El s. injection El as <-. simpl. intuition (try discriminate; try congruence).
        * repeat constructor; simpl; intuition discriminate.
        * intros _. right; right; left; reflexivity.
        * exists dc, cm. repeat (split; [assumption|]). apply Hrows. exact I.
    - apply (nested_A_is_flat cx data false "T" (str "b") (PStr "b") "C" (LzCall "Treatment" [str "b"] [])
               (PEnc (Treatment (Some "b"))) (Some (Treatment (Some "b"))) "q" (ColStr None qcol) "lv"
               ["c"; "a"; "b"] false None qcol false 6); try reflexivity.
      + right; left; reflexivity.
      + left; reflexivity.
      + apply unordered_levels_valid.
  Qed.

  Example shape_B_instance :
    let nested := LzCall "C" [LzCall "C" [LzVar "q"] lvkw; LzVar "Sum"] [] in
    let flat := LzCall "C" [LzVar "q"; LzVar "Sum"] lvkw in
    run cx data false false 6 nested = renamed_to nested false (run cx data false false 6 flat).
  Proof.
    intros nested flat.
    apply (nested_B_is_flat cx data false "C" None (LzVar "Sum") (PEncClass true) (Some (Sum None))
             "C" (LzVar "Sum") (PEncClass true) "q" (ColStr None qcol) "lv" ["c"; "a"; "b"] false None qcol
             false 6); try reflexivity; left; reflexivity.
  Qed.

  (** REFUTED: the merged fall-back.  On C(C(q, levels=lv), Sum) the model keeps the levels lv of the inner
      box; the merged rule would drop them (levels sorted: a, b, c).  On C(T(q, 'b'), levels=lv) the model
      keeps the reference b; the merged rule would drop the whole coding (default Treatment, reference =
      first of lv = c). *)
  Definition inner1 : lazy := LzCall "C" [LzVar "q"] lvkw.
  Definition inner2 : lazy := LzCall "T" [LzVar "q"; str "b"] [].
  Definition dlevels (name : lazy) (v : res pyval) : res (list string * list string) :=
    do b <- v; do dc <- fin false false 6 name b;
    Ok (dc_levels dc, match dc_contrast dc with Some cm => clabels cm | None => [] end).

  Theorem merged_fallback_refuted :
    (exists x e l, C_sem x e l <> C_sem_merged x e l) /\
    (exists b, value E inner1 = Ok b /\
       let lz := LzCall "C" [inner1; LzVar "Sum"] [] in
       value E lz = C_sem b (PEncClass true) PNoneV /\
       C_sem b (PEncClass true) PNoneV = Ok (PBox false qcol (Some (Sum None)) (Some ["c"; "a"; "b"])) /\
       C_sem_merged b (PEncClass true) PNoneV = Ok (PBox false qcol (Some (Sum None)) None) /\
       dlevels lz (C_sem b (PEncClass true) PNoneV) = Ok (["c"; "a"; "b"], ["c"; "a"]) /\
       dlevels lz (C_sem_merged b (PEncClass true) PNoneV) = Ok (["a"; "b"; "c"], ["a"; "b"])) /\
    (exists b, value E inner2 = Ok b /\
       let lz := LzCall "C" [inner2] lvkw in
       value E lz = C_sem b PNoneV (PStrList ["c"; "a"; "b"]) /\
       C_sem b PNoneV (PStrList ["c"; "a"; "b"])
         = Ok (PBox false qcol (Some (Treatment (Some "b"))) (Some ["c"; "a"; "b"])) /\
       C_sem_merged b PNoneV (PStrList ["c"; "a"; "b"]) = Ok (PBox false qcol None (Some ["c"; "a"; "b"])) /\
       dlevels lz (C_sem b PNoneV (PStrList ["c"; "a"; "b"])) = Ok (["c"; "a"; "b"], ["c"; "a"]) /\
       dlevels lz (C_sem_merged b PNoneV (PStrList ["c"; "a"; "b"])) = Ok (["c"; "a"; "b"], ["a"; "b"])).
  Proof.
    split; [|split].
    - exists (PBox false qcol None (Some ["c"; "a"; "b"])), (PEncClass true), PNoneV.
      vm_compute. discriminate.
    - eexists. split; [vm_compute; reflexivity|]. cbv zeta. repeat split; vm_compute; reflexivity.
    - eexists. split; [vm_compute; reflexivity|]. cbv zeta. repeat split; vm_compute; reflexivity.
  Qed.
End Examples.

(* from the formula text: scanner, parser, algebra, typing, coding *)
From Verif Require Driver.
Module Pipeline.
  Import Examples.
  Definition design_of (s : string) :=
    do e <- Driver.parse_string s;
    do ds <- design_matrices cx e data NaDrop;
    Ok (map dt_labels (ds_common ds), map (fun t => map (map cshow) (dt_rows t)) (ds_common ds)).

  Example formula_nested :
    design_of "y ~ C(T(q, 'b'), levels=lv)"
    = Ok ([Some ["Intercept"]; Some ["C(T(q, 'b'), levels=lv)[c]"; "C(T(q, 'b'), levels=lv)[a]"]],
          [[["1"]; ["1"]; ["1"]; ["1"]; ["1"]; ["1"]];
           [["0"; "0"]; ["1"; "0"]; ["0"; "1"]; ["1"; "0"]; ["0"; "1"]; ["0"; "0"]]]) /\
    design_of "y ~ C(q, Treatment('b'), levels=lv)"
    = Ok ([Some ["Intercept"]; Some ["C(q, Treatment('b'), levels=lv)[c]"; "C(q, Treatment('b'), levels=lv)[a]"]],
          [[["1"]; ["1"]; ["1"]; ["1"]; ["1"]; ["1"]];
           [["0"; "0"]; ["1"; "0"]; ["0"; "1"]; ["1"; "0"]; ["0"; "1"]; ["0"; "0"]]]) /\
    design_of "y ~ 0 + C(C(q, levels=lv), Sum)"
    = Ok ([Some ["C(C(q, levels=lv), Sum)[mean]"; "C(C(q, levels=lv), Sum)[c]"; "C(C(q, levels=lv), Sum)[a]"]],
          [[["1"; "-1"; "-1"]; ["1"; "1"; "0"]; ["1"; "0"; "1"]; ["1"; "1"; "0"]; ["1"; "0"; "1"];
            ["1"; "-1"; "-1"]]]) /\
    design_of "y ~ C(T(q, 'zz'), levels=lv)" = Err EValue.
  Proof. repeat split; vm_compute; reflexivity. Qed.
End Pipeline.

Print Assumptions rebox_law.
Print Assumptions rebox_law_call.
Print Assumptions rebox_law_call_absent.
Print Assumptions rebox_idem.
Print Assumptions C_of_C.
Print Assumptions rebox_compose.
Print Assumptions rebox_compose_bind.
Print Assumptions rebox_compose3.
Print Assumptions rebox_chain_merged.
Print Assumptions rebox_shapes.
Print Assumptions rebox_shapes_strs.
Print Assumptions run_value.
Print Assumptions same_box_other_name.
Print Assumptions design_up_to_name.
Print Assumptions value_flat.
Print Assumptions value_nested.
Print Assumptions nested_design.
Print Assumptions nested_levels_over_coded.
Print Assumptions nested_coded_over_levels.
Print Assumptions bare_C_wrapper.
Print Assumptions nested_A_is_flat.
Print Assumptions nested_B_is_flat.
Print Assumptions treatment_reduced_columns.
Print Assumptions nested_A_accepted_iff.
Print Assumptions nested_reference_checked_against_outer_levels.
Print Assumptions C_sem_merged_agrees.
Print Assumptions Examples.shape_A_instance.
Print Assumptions Examples.shape_B_instance.
Print Assumptions Examples.merged_fallback_refuted.
Print Assumptions Pipeline.formula_nested.
