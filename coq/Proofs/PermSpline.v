(* Property C08, row order, for the fitted parameters of poly and bs (G3).
   Kernel lemmas: [poly_fit_perm] (alpha and norms2 are sums over the data),
   [qsort_perm_eq], [qmin_list_perm], [qmax_list_perm], [quantile_knots_perm], [bs_init_perm].
   Call level: [call_spline_refit] -- training bs / poly on a permuted argument records the same
   parameters and returns the permuted basis matrix. *)
From Verif Require Import Base Tokens Lazy Algebra Coding Contrasts Frame Eval Design.
From Verif Require Import DesignStructure DesignCoding FrameStructure Unseen PermKernel Prediction PredictionGroups.
From Verif Require Transforms Spline Poly TransformsLemmas.
From Coq Require Import Lia Permutation QArith Qcanon.
Local Close Scope Qc_scope.
Local Close Scope Q_scope.
Local Open Scope string_scope.
Local Open Scope list_scope.
Local Open Scope nat_scope.

(* ------------------------------------------------------------------------------------------ *)
(** * poly *)

Lemma tqsum_perm l l' : Permutation l l' -> Transforms.qsum l = Transforms.qsum l'.
Proof.
  induction 1 as [|x l l' _ IH|x y l|l l' l'' _ IH1 _ IH2]; simpl.
  - reflexivity.
  - rewrite IH. reflexivity.
  - ring.
  - congruence.
Qed.

Lemma poly_fit_loop_perm steps : forall first nprev pts pts',
  Permutation pts pts' ->
  Poly.poly_fit_loop steps first nprev pts = Poly.poly_fit_loop steps first nprev pts'.
Proof.
  induction steps as [|s IH]; intros first nprev pts pts' P; simpl.
  - rewrite (tqsum_perm _ _ (Permutation_map _ P)). reflexivity.
  - rewrite (tqsum_perm _ _ (Permutation_map (fun p => (snd p * snd p)%Qc) P)).
    rewrite (tqsum_perm _ _ (Permutation_map (fun p => (fst (fst p) * (snd p * snd p))%Qc) P)).
    erewrite IH; [reflexivity|]. apply Permutation_map. exact P.
Qed.

(** The recurrence coefficients of the orthogonal polynomials do not depend on the order of the
    data. *)
Theorem poly_fit_perm xs xs' degree :
  Permutation xs xs' -> Poly.poly_fit xs degree = Poly.poly_fit xs' degree.
Proof.
  intros P. unfold Poly.poly_fit.
  rewrite (poly_fit_loop_perm degree true 1%Qc _ _ (Permutation_map (fun x => (x, 0%Qc, 1%Qc)) P)).
  reflexivity.
Qed.

(* ------------------------------------------------------------------------------------------ *)
(** * bs *)

Lemma qleb_le a b : Transforms.qleb a b = true <-> (a <= b)%Qc.
Proof. unfold Transforms.qleb. apply Qle_bool_iff. Qed.

Lemma qleb_total a b : Transforms.qleb a b = false -> Transforms.qleb b a = true.
Proof.
  intros H. apply qleb_le. destruct (Qclt_le_dec b a) as [Hlt|Hle].
  - apply Qclt_le_weak. exact Hlt.
  - apply qleb_le in Hle. congruence.
Qed.

Lemma qleb_trans a b c :
  Transforms.qleb a b = true -> Transforms.qleb b c = true -> Transforms.qleb a c = true.
Proof. rewrite !qleb_le. apply Qcle_trans. Qed.

Lemma qleb_antisym a b : Transforms.qleb a b = true -> Transforms.qleb b a = true -> a = b.
Proof. rewrite !qleb_le. apply Qcle_antisym. Qed.

Lemma qleb_refl a : Transforms.qleb a a = true.
Proof. apply qleb_le. apply Qcle_refl. Qed.

Lemma qinsert_insert a l : Spline.qinsert a l = insert_sorted Qc Transforms.qleb a l.
Proof. induction l as [|b l IH]; simpl; [reflexivity|]. rewrite IH. reflexivity. Qed.

Lemma qsort_isort l : Spline.qsort l = isort Transforms.qleb l.
Proof.
  unfold Spline.qsort, isort. induction l as [|a l IH]; simpl; [reflexivity|].
  rewrite IH. apply qinsert_insert.
Qed.

Theorem qsort_perm_eq l l' : Permutation l l' -> Spline.qsort l = Spline.qsort l'.
Proof.
  intros P. rewrite !qsort_isort.
  apply (isort_perm_eq Qc Transforms.qleb qleb_total qleb_trans qleb_antisym). exact P.
Qed.

(* the least element *)
Lemma fold_qmin_spec r : forall a,
  In (fold_right Spline.qmin a r) (a :: r) /\
  Forall (fun x => Transforms.qleb (fold_right Spline.qmin a r) x = true) (a :: r).
Proof.
  induction r as [|b r IH]; intros a; simpl.
  - split; [left; reflexivity|]. constructor; [apply qleb_refl|constructor].
  - destruct (IH a) as [Hin Hle]. set (m := fold_right Spline.qmin a r) in *.
    unfold Spline.qmin. destruct (Transforms.qleb b m) eqn:E.
    + split; [right; left; reflexivity|].
      inversion Hle as [|? ? Ha Hr]; subst.
      constructor; [eapply qleb_trans; eassumption|].
      constructor; [apply qleb_refl|].
      eapply Forall_impl; [|exact Hr]. intros x Hx. eapply qleb_trans; eassumption.
    + split; [destruct Hin as [Hin|Hin]; [left; exact Hin|right; right; exact Hin]|].
      inversion Hle as [|? ? Ha Hr]; subst.
      constructor; [exact Ha|]. constructor; [apply qleb_total; exact E|exact Hr].
Qed.

Lemma fold_qmax_spec r : forall a,
  In (fold_right Spline.qmax a r) (a :: r) /\
  Forall (fun x => Transforms.qleb x (fold_right Spline.qmax a r) = true) (a :: r).
Proof.
  induction r as [|b r IH]; intros a; simpl.
  - split; [left; reflexivity|]. constructor; [apply qleb_refl|constructor].
  - destruct (IH a) as [Hin Hle]. set (m := fold_right Spline.qmax a r) in *.
    unfold Spline.qmax. destruct (Transforms.qleb b m) eqn:E.
    + split; [destruct Hin as [Hin|Hin]; [left; exact Hin|right; right; exact Hin]|].
      inversion Hle as [|? ? Ha Hr]; subst.
      constructor; [exact Ha|]. constructor; [exact E|exact Hr].
    + split; [right; left; reflexivity|].
      pose proof (qleb_total _ _ E) as E'.
      inversion Hle as [|? ? Ha Hr]; subst.
      constructor; [eapply qleb_trans; eassumption|].
      constructor; [apply qleb_refl|].
      eapply Forall_impl; [|exact Hr]. intros x Hx. cbv beta in Hx. apply (qleb_trans _ m); assumption.
Qed.

Theorem qmin_list_perm l l' : Permutation l l' -> Spline.qmin_list l = Spline.qmin_list l'.
Proof.
  intros P. destruct l as [|a r]; destruct l' as [|a' r'].
  - reflexivity.
  - apply Permutation_nil in P. discriminate P.
  - apply Permutation_sym, Permutation_nil in P. discriminate P.
  - unfold Spline.qmin_list. f_equal.
    destruct (fold_qmin_spec r a) as [I1 L1]. destruct (fold_qmin_spec r' a') as [I2 L2].
    rewrite Forall_forall in L1, L2. apply qleb_antisym.
    + apply L1. apply (Permutation_in _ (Permutation_sym P)). exact I2.
    + apply L2. apply (Permutation_in _ P). exact I1.
Qed.

Theorem qmax_list_perm l l' : Permutation l l' -> Spline.qmax_list l = Spline.qmax_list l'.
Proof.
  intros P. destruct l as [|a r]; destruct l' as [|a' r'].
  - reflexivity.
  - apply Permutation_nil in P. discriminate P.
  - apply Permutation_sym, Permutation_nil in P. discriminate P.
  - unfold Spline.qmax_list. f_equal.
    destruct (fold_qmax_spec r a) as [I1 L1]. destruct (fold_qmax_spec r' a') as [I2 L2].
    rewrite Forall_forall in L1, L2. apply qleb_antisym.
    + apply L2. apply (Permutation_in _ P). exact I1.
    + apply L1. apply (Permutation_in _ (Permutation_sym P)). exact I2.
Qed.

Theorem quantile_knots_perm x x' m :
  Permutation x x' -> Spline.quantile_knots x m = Spline.quantile_knots x' m.
Proof.
  intros P. unfold Spline.quantile_knots. rewrite (qsort_perm_eq _ _ P).
  destruct x as [|a r]; destruct x' as [|a' r']; try reflexivity.
  - apply Permutation_nil in P. discriminate P.
  - apply Permutation_sym, Permutation_nil in P. discriminate P.
Qed.

(** The knot vector of the spline basis (bounds = min and max of the data, inner knots =
    percentiles of the sorted data) does not depend on the order of the data. *)
Theorem bs_init_perm x x' df knots degree intercept lower upper :
  Permutation x x' ->
  Spline.bs_init x df knots degree intercept lower upper
  = Spline.bs_init x' df knots degree intercept lower upper.
Proof.
  intros P. unfold Spline.bs_init, Spline.bs_inner.
  rewrite (qmin_list_perm _ _ P), (qmax_list_perm _ _ P).
  destruct df as [d|]; [|reflexivity].
  destruct knots as [ks|]; [reflexivity|].
  rewrite (quantile_knots_perm _ _ _ P). reflexivity.
Qed.

(* ------------------------------------------------------------------------------------------ *)
(** * Call level: training bs / poly on a permuted argument *)

Section SplineRefit.
  Variable sel : forall T : Type, list T -> list T.
  Hypothesis sel_map : forall (S T : Type) (f : S -> T) (l : list S), sel T (map f l) = map f (sel S l).
  Hypothesis sel_In : forall (T : Type) (x : T) (l : list T), In x (sel T l) -> In x l.
  Variable n : nat.
  Hypothesis sel_perm : forall (T : Type) (l : list T), List.length l = n -> Permutation (sel T l) l.

  Lemma opt_int_sel v : opt_int (val_sel sel v) = opt_int v.
  Proof. destruct v; reflexivity. Qed.
  Lemma opt_num_sel v : opt_num (val_sel sel v) = opt_num v.
  Proof. destruct v; reflexivity. Qed.

  (* the scalar arguments of the spline calls are read the same way *)
  Lemma knots_arg_sel v :
    match val_sel sel v with PNoneV => Ok tt | _ => Err EUnsupported end
    = match v with PNoneV => Ok tt | _ => Err EUnsupported end.
  Proof. destruct v; reflexivity. Qed.

  Lemma degree_arg_sel (o : option pyval) :
    match option_map (val_sel sel) o with
    | None => Ok 3%Z
    | Some (PNumber true q) => Ok (Qnum (this q))
    | Some _ => Err EValue end
    = match o with
      | None => Ok 3%Z
      | Some (PNumber true q) => Ok (Qnum (this q))
      | Some _ => Err EValue end.
  Proof. destruct o as [[]|]; reflexivity. Qed.

  Lemma bool_arg_sel (o : option pyval) :
    match option_map (val_sel sel) o with
    | None => Ok false | Some (PBoolean x) => Ok x | Some _ => Err EUnsupported end
    = match o with None => Ok false | Some (PBoolean x) => Ok x | Some _ => Err EUnsupported end.
  Proof. destruct o as [[]|]; reflexivity. Qed.

  Lemma pdegree_arg_sel (o : option pyval) :
    match option_map (val_sel sel) o with
    | None => Ok 1%nat
    | Some (PNumber true q) =>
        if (0 <? Qnum (this q))%Z then Ok (Z.to_nat (Qnum (this q))) else Err EUnsupported
    | Some _ => Err EUnsupported end
    = match o with
      | None => Ok 1%nat
      | Some (PNumber true q) =>
          if (0 <? Qnum (this q))%Z then Ok (Z.to_nat (Qnum (this q))) else Err EUnsupported
      | Some _ => Err EUnsupported end.
  Proof. destruct o as [[]|]; reflexivity. Qed.

  (** Training the spline / polynomial basis on a permuted argument estimates the same
      parameters (knots; recurrence coefficients) and returns the permuted basis matrix. *)
  Theorem call_spline_refit d dP ex sq name st pos kw v st1 rec :
    In name spline_callees ->
    Forall (good n) pos -> Forall (fun kv => good n (snd kv)) kw ->
    call_stateful (ECtx d ex sq true) name st pos kw = Ok (v, st1, rec) ->
    forall st', call_stateful (ECtx dP ex sq true) name st' (map (val_sel sel) pos) (map (kv_sel sel) kw)
                = Ok (val_sel sel v, st', rec).
  Proof.
    intros Hin Gp Gk H st'. rewrite (call_stateful_spline _ _ _ _ _ Hin) in H.
    rewrite (call_stateful_spline _ _ _ _ _ Hin).
    destruct Hin as [<-|[<-|[]]]; unfold call_spline in H |- *.
    - (* bs *)
      rewrite String.eqb_refl in H. rewrite String.eqb_refl. cbn [e_fit e_sqrt] in H |- *. rewrite check_kw_sel.
      destruct (negb (check_kw _ kw)); [discriminate H|].
      apply bind_ok in H as (b & Hb & H). rewrite (bind_args_sel sel _ _ _ _ Hb). cbn [bind].
      pose proof (arg_good n "x" b (bind_args_Forall (good n) _ _ _ _ Hb Gp Gk)) as Gx.
      rewrite !arg_sel, !assoc_kv_sel.
      destruct (arg "x" b) as [i xs| | | | | | | | | | | |] eqn:Ex; try discriminate H.
      cbn [val_sel good] in *.
      destruct (all_some xs) as [l|] eqn:El; [|discriminate H].
      rewrite (all_some_sel sel sel_map _ _ El).
      rewrite opt_int_sel, knots_arg_sel, degree_arg_sel, bool_arg_sel, !opt_num_sel.
      apply bind_ok in H as (df & Hdf & H). rewrite Hdf. cbn [bind].
      apply bind_ok in H as (kk & Hkk & H). rewrite Hkk. cbn [bind].
      apply bind_ok in H as (deg & Hdeg & H). rewrite Hdeg. cbn [bind].
      apply bind_ok in H as (ic & Hic & H). rewrite Hic. cbn [bind].
      apply bind_ok in H as (lo & Hlo & H). rewrite Hlo. cbn [bind].
      apply bind_ok in H as (hi & Hhi & H). rewrite Hhi. cbn [bind].
      apply bind_ok in H as (p & Hp & H). apply bind_ok in H as (rows & Hr & H). injection H as <- <- <-.
      assert (Ll : List.length l = n) by (rewrite (all_some_length _ _ El); exact Gx).
      pose proof (sel_perm _ l Ll) as P.
      rewrite (bs_init_perm _ _ df None deg ic lo hi P), Hp. cbn [bind].
      assert (Hne : sel Qc l <> []).
      { intros E. rewrite E in P. apply Permutation_nil in P. subst l. unfold Spline.bs_apply in Hr. discriminate Hr. }
      destruct (bs_apply_sel sel sel_map _ _ _ Hr Hne) as (Hr' & _). rewrite Hr'. cbn [bind].
      rewrite (qrows_sel sel sel_map). reflexivity.
    - (* poly *)
      change (String.eqb "poly" "bs") with false in H. change (String.eqb "poly" "bs") with false.
      cbn iota in H |- *. cbn [e_fit e_sqrt] in H |- *.
      rewrite check_kw_sel.
      destruct (negb (check_kw _ kw)); [discriminate H|].
      apply bind_ok in H as (b & Hb & H). rewrite (bind_args_sel sel _ _ _ _ Hb). cbn [bind].
      pose proof (arg_good n "x" b (bind_args_Forall (good n) _ _ _ _ Hb Gp Gk)) as Gx.
      rewrite !arg_sel, !assoc_kv_sel.
      destruct (arg "x" b) as [i xs| | | | | | | | | | | |] eqn:Ex; try discriminate H.
      cbn [val_sel good] in *.
      destruct (all_some xs) as [l|] eqn:El; [|discriminate H].
      rewrite (all_some_sel sel sel_map _ _ El).
      rewrite pdegree_arg_sel, bool_arg_sel.
      apply bind_ok in H as (deg & Hdeg & H). rewrite Hdeg. cbn [bind].
      apply bind_ok in H as (raw & Hraw & H). rewrite Hraw. cbn [bind].
      apply bind_ok in H as (rows & Hr & H). injection H as <- <- <-.
      assert (Ll : List.length l = n) by (rewrite (all_some_length _ _ El); exact Gx).
      rewrite (poly_fit_perm _ _ deg (sel_perm _ l Ll)).
      destruct (poly_eval_sel sel sel_map _ _ _ _ _ _ Hr) as (Hr' & _). rewrite Hr'. cbn [bind].
      rewrite (qrows_sel sel sel_map). reflexivity.
  Qed.
End SplineRefit.

(* ------------------------------------------------------------------------------------------ *)
(** * Lifting: perm_rows for the fragment with bs and poly *)

Lemma spline_refit_ok sel n extra :
  (forall (S T : Type) (f : S -> T) (l : list S), sel T (map f l) = map f (sel S l)) ->
  (forall (T : Type) (l : list T), List.length l = n -> Permutation (sel T l) l) ->
  extra_allowed extra -> extra_refit_ok sel n extra.
Proof.
  intros Hmap Hperm Hext c Hc d dP ex sq st pos kw v st1 rec Gp Gk H st'.
  apply (call_spline_refit sel Hmap n Hperm d dP ex sq c st pos kw v st1 rec (Hext c Hc) Gp Gk H st').
Qed.

(** Call trees of [rowwise_safe_bs]: training again on the permuted frame records the same
    parameters (means, deviations, knots, recurrence coefficients) and computes the permuted
    values. *)
Theorem eval_lazy_perm_bs idx D ex sq l v st1 rec :
  frame_wf D -> frame_unordered D -> frame_rows D <> 0 ->
  (forall k w, assoc k ex = Some w -> is_scalar w = true) ->
  Permutation idx (seq 0 (frame_rows D)) ->
  rowwise_safe_bs l = true ->
  eval_lazy (ECtx D ex sq true) [] l = Ok (v, st1, rec) ->
  eval_lazy (ECtx (frame_pick idx D) ex sq true) [] l = Ok (val_sel (sel_pick idx) v, [], rec).
Proof.
  intros Hwf Hun Hn Hex P Hs H.
  pose (HP := fun (T : Type) (l : list T) (L : List.length l = frame_rows D) =>
                pick_perm idx l (eq_ind_r (fun k => Permutation idx (seq 0 k)) P L)).
  apply (eval_lazy_refit (sel_pick idx) (fun S T f l => pick_map f idx l)
           (fun S T a b L => pick_combine idx a b L) (fun T x l => pick_In idx x l)
           ["poly"; "bs"] extra_poly_bs_allowed (frame_rows D) HP
           (spline_refit_ok _ _ _ (fun S T f l => pick_map f idx l) HP extra_poly_bs_allowed)
           (fun _ => eq_ind_r (fun k => k <> 0) Hn (seln_pick_perm idx _ P))
           D Hwf Hun ex Hex sq l Hs [] v st1 rec H []).
Qed.

(** Whole designs with bs and poly: common terms, response and group-specific terms. *)
Theorem perm_rows_groups_bs idx D ex sq m ds :
  frame_wf D -> frame_unordered D -> frame_rows D <> 0 ->
  (forall k w, assoc k ex = Some w -> is_scalar w = true) ->
  Permutation idx (seq 0 (frame_rows D)) ->
  (forall t, In (CT t) (commons m) -> Forall (comp_safe ["poly"; "bs"]) t) ->
  (forall t, resp m = Some t -> Forall (comp_safe ["poly"; "bs"]) t) ->
  (forall g, In g (groups m) -> gsafe ["poly"; "bs"] g) ->
  eval_model (DCtx ex sq) D m = Ok ds ->
  eval_model (DCtx ex sq) (frame_pick idx D) m = Ok (design_sel_groups (sel_pick idx) (frame_rows D) ds) /\
  ds_nrows (design_sel_groups (sel_pick idx) (frame_rows D) ds) = frame_rows D.
Proof.
  intros Hwf Hun Hn Hex P.
  pose (HP := fun (T : Type) (l : list T) (L : List.length l = frame_rows D) =>
                pick_perm idx l (eq_ind_r (fun k => Permutation idx (seq 0 k)) P L)).
  apply (perm_rows_groups_gen ["poly"; "bs"] idx D ex sq m ds extra_poly_bs_allowed
           (spline_refit_ok _ _ _ (fun S T f l => pick_map f idx l) HP extra_poly_bs_allowed)
           (fun _ => Hn) Hwf Hun Hex P).
Qed.
