(* Keyword order on TEXTS, for all names: the text
       y ~ f(x, a=va, b=vb) + f(x, b=vb, a=va)
   with any identifiers y f x a b (a <> b) and any integer literals va vb goes through the model's
   scanner, parser and resolver to a model with exactly one call term, spelled as the first call. *)
From Verif Require Import Base Tokens Scanner Parser Lazy Algebra Driver Wilkinson CompEq ListSet AlgebraRefines.
From Verif Require Import ScannerProofs FrontEnd FormulaText KeywordOrder.
From Coq Require Import Lia Permutation.
Local Open Scope string_scope.

(* a valid identifier / integer literal = a lexeme of the scanner's alphabet (ScannerProofs.wf_lexeme) *)
Definition ident_ok (s : string) : Prop := wf_lexeme (tokI s) = true.
Definition tokN (s : string) (z : Z) : token := Tok NUMBER s (Some (LInt z)).
Definition int_ok (s : string) (z : Z) : Prop := wf_lexeme (tokN s z) = true.

Example ident_ok_ex : ident_ok "h" /\ ident_ok "x_1" /\ ident_ok "np.log" /\ int_ok "12" 12 /\ int_ok "007" 7.
Proof. repeat split; vm_compute; reflexivity. Qed.
Example ident_ok_neg : wf_lexeme (tokI "1x") = false /\ wf_lexeme (tokI "True") = false /\ wf_lexeme (tokI "") = false.
Proof. repeat split; vm_compute; reflexivity. Qed.

Definition call_text (f x a va b vb : string) : string :=
  f ++ "(" ++ x ++ ", " ++ a ++ "=" ++ va ++ ", " ++ b ++ "=" ++ vb ++ ")".
Definition call_toks (f x a va b vb : string) (za zb : Z) : list token :=
  [tokI f; mk LEFT_PAREN "("; tokI x; mk COMMA ","; tokI a; mk EQUAL "="; tokN va za; mk COMMA ",";
   tokI b; mk EQUAL "="; tokN vb zb; mk RIGHT_PAREN ")"].
(* the gaps in front of each token of a call (the first one is supplied by the context) *)
Definition call_gaps : list chars := [[]; []; []; [" "%char]; []; []; []; [" "%char]; []; []; []].

Lemma digit_not_equal c : is_digit c = true -> (c =? "=")%char = false.
Proof.
  intros H. destruct (Ascii.eqb_spec c "="%char) as [->|]; [vm_compute in H; discriminate | reflexivity].
Qed.

Lemma int_ok_head s z : int_ok s z ->
  exists c ds, list_ascii_of_string s = (c :: ds)%list /\ (c =? "=")%char = false.
Proof.
  unfold int_ok, wf_lexeme, tokN, lx. cbn [tkind literal lexeme]. intros H.
  destruct (list_ascii_of_string s) as [|c ds]; [discriminate|].
  apply andb_true_iff in H. destruct H as [H _]. apply andb_true_iff in H. destruct H as [H _].
  exists c, ds. split; [reflexivity | apply digit_not_equal; exact H].
Qed.

Section Text.
  Variables y f x a b va vb : string.
  Variables za zb : Z.
  Hypothesis Hy : ident_ok y.
  Hypothesis Hf : ident_ok f.
  Hypothesis Hx : ident_ok x.
  Hypothesis Ha : ident_ok a.
  Hypothesis Hb : ident_ok b.
  Hypothesis Hva : int_ok va za.
  Hypothesis Hvb : int_ok vb zb.
  Hypothesis Hab : a <> b.

  (* the operator between the two calls, with the gaps around it *)
  Variables (op : token) (g1 g2 : chars).

  Definition text2 : string :=
    y ++ " ~ " ++ call_text f x a va b vb ++ str g1 ++ lexeme op ++ str g2 ++ call_text f x b vb a va.
  Definition toks2 : list token :=
    tokI y :: mk TILDE "~" :: call_toks f x a va b vb za zb ++ op :: call_toks f x b vb a va zb za.
  Definition gaps2 : list chars :=
    [] :: [" "%char] :: [" "%char] :: call_gaps ++ g1 :: g2 :: call_gaps ++ [[]].

  Lemma lx_tokI s : lx (tokI s) = chars_of s. Proof. reflexivity. Qed.
  Lemma lx_tokN s z : lx (tokN s z) = chars_of s. Proof. reflexivity. Qed.
  Lemma chars_of_str cs : chars_of (str cs) = cs.
  Proof. apply list_ascii_of_string_of_list_ascii. Qed.

  Lemma text2_render : chars_of text2 = render toks2 gaps2.
  Proof.
    unfold text2, call_text, toks2, gaps2, call_toks, call_gaps.
    repeat rewrite chars_of_app. rewrite !chars_of_str.
    cbn [render app]. rewrite !lx_tokI, !lx_tokN.
    change (lx op) with (chars_of (lexeme op)).
    cbn [lx mk lexeme chars_of list_ascii_of_string app].
    repeat (rewrite <- app_assoc; cbn [app]). reflexivity.
  Qed.

  Hypothesis Hg1 : forallb ws_char g1 = true.
  Hypothesis Hg2 : forallb ws_char g2 = true.
  Hypothesis Hop_wf : wf_lexeme op = true.
  Hypothesis Hop_follow : forall r, can_follow op r = true.
  Hypothesis Hop_nt : is_tilde op = false.

  Lemma toks2_wf : WellFormed toks2.
  Proof.
    unfold WellFormed, toks2, call_toks. cbn [forallb app].
    unfold ident_ok, int_ok in *. rewrite Hy, Hf, Hx, Ha, Hb, Hva, Hvb, Hop_wf. reflexivity.
  Qed.

  Lemma toks2_valid_ws : valid_ws toks2 gaps2.
  Proof.
    split; [reflexivity|]. unfold gaps2, call_gaps. cbn [app forallb]. rewrite Hg1, Hg2. reflexivity.
  Qed.

  Lemma toks2_separated : separated toks2 gaps2 = true.
  Proof.
    destruct (int_ok_head _ _ Hva) as (ca & dsa & Ea & Na).
    destruct (int_ok_head _ _ Hvb) as (cb & dsb & Eb & Nb).
    unfold toks2, gaps2, call_toks, call_gaps. cbn [app].
    cbn [separated]. rewrite Hop_follow.
    cbn [render app can_follow tkind mk tokI tokN next_is lx lexeme list_ascii_of_string literal tl].
    rewrite Ea, Eb. cbn [app next_is]. rewrite Na, Nb.
    vm_compute. reflexivity.
  Qed.

  Lemma toks2_renders : Renders text2 toks2.
  Proof. exists gaps2. split; [apply text2_render | split; [apply toks2_valid_ws | apply toks2_separated]]. Qed.

  Lemma text2_nonempty : text2 <> "".
  Proof.
    unfold text2. unfold ident_ok in Hy. destruct y; [vm_compute in Hy; discriminate | discriminate].
  Qed.


  Lemma toks2_one_tilde : tilde_count toks2 = 1%nat.
  Proof.
    unfold tilde_count, toks2.
    change (tokI y :: mk TILDE "~" :: call_toks f x a va b vb za zb ++ op :: call_toks f x b vb a va zb za)%list
      with ((tokI y :: mk TILDE "~" :: call_toks f x a va b vb za zb) ++ op :: call_toks f x b vb a va zb za)%list.
    rewrite filter_app. cbn [filter]. rewrite Hop_nt. rewrite app_length. reflexivity.
  Qed.

  Theorem front_end_text2 :
    front_end text2 =
    parse (tokI y :: mk TILDE "~" :: one_tok :: plus_tok ::
           call_toks f x a va b vb za zb ++ op :: call_toks f x b vb a va zb za ++ [eof_tok]).
  Proof.
    rewrite (front_end_rendering text2 toks2 toks2_wf toks2_renders text2_nonempty)
      by (unfold OneTilde; rewrite toks2_one_tilde; lia).
    reflexivity.
  Qed.
End Text.

Definition call_lz (f x a b : string) (za zb : Z) : lazy :=
  LzCall f [LzVar x] [(a, LzVal (LInt za) None); (b, LzVal (LInt zb) None)].

Section Instances.
  Variables y f x a b va vb : string.
  Variables za zb : Z.
  Hypothesis Hy : ident_ok y.
  Hypothesis Hf : ident_ok f.
  Hypothesis Hx : ident_ok x.
  Hypothesis Ha : ident_ok a.
  Hypothesis Hb : ident_ok b.
  Hypothesis Hva : int_ok va za.
  Hypothesis Hvb : int_ok vb zb.
  Hypothesis Hab : a <> b.

  Let pos := [EVariable (tokI x) None].
  Let kws := [kwI a za; kwI b zb].
  Let kws' := [kwI b zb; kwI a za].

  Lemma inst_pos : Forall2 (fun e l => call_resolve e = Ok l) pos [LzVar x].
  Proof. repeat constructor. Qed.
  Lemma inst_kws : Forall kw_resolves kws.
  Proof. repeat constructor. Qed.
  Lemma inst_names : NoDup (map kw_name kws).
  Proof.
    cbn. constructor; [intros [H|[]]; apply Hab; symmetry; exact H | constructor; [intros [] | constructor]].
  Qed.
  Lemma inst_perm : Permutation kws kws'.
  Proof. apply perm_swap. Qed.

  Ltac through_front_end opk ops :=
    unfold describe_string; change parse_string with front_end;
    match goal with |- bind (front_end ?s) _ = _ =>
      change s with (text2 y f x a b va vb (mk opk ops) [" "%char] [" "%char])
    end;
    rewrite (front_end_text2 y f x a b va vb za zb Hy Hf Hx Ha Hb Hva Hvb (mk opk ops) [" "%char] [" "%char])
      by (try reflexivity; intros; reflexivity).

  (* y ~ f(x, a=va, b=vb) + f(x, b=vb, a=va) : the intercept and ONE call term, the first spelling *)
  Theorem text_family_add :
    describe_string (y ++ " ~ " ++ call_text f x a va b vb ++ " + " ++ call_text f x b vb a va) =
    Ok (Mod (Some [CVar (NStr y) None]) [CI; CT [CCall (call_lz f x a b za zb)]] []).
  Proof.
    through_front_end PLUS "+".
    match goal with |- bind (parse ?ts) _ = _ =>
      assert (P : parse ts =
        Ok (EBinary (EVariable (tokI y) None) (mk TILDE "~")
              (EBinary (EBinary (ELiteral (LInt 1) None) plus_tok (call_expr (tokI f) None pos kws))
                       (mk PLUS "+") (call_expr (tokI f) None pos kws'))))
        by (vm_compute; reflexivity);
      rewrite P
    end.
    cbn [bind].
    exact (family_formula_add (tokI f) None None pos [LzVar x] kws kws' inst_pos inst_kws inst_names inst_perm
             (tokI y) (mk TILDE "~") plus_tok (mk PLUS "+") eq_refl eq_refl eq_refl).
  Qed.

  (* y ~ f(x, a=va, b=vb) - f(x, b=vb, a=va) : only the intercept *)
  Theorem text_family_sub :
    describe_string (y ++ " ~ " ++ call_text f x a va b vb ++ " - " ++ call_text f x b vb a va) =
    Ok (Mod (Some [CVar (NStr y) None]) [CI] []).
  Proof.
    through_front_end MINUS "-".
    match goal with |- bind (parse ?ts) _ = _ =>
      assert (P : parse ts =
        Ok (EBinary (EVariable (tokI y) None) (mk TILDE "~")
              (EBinary (EBinary (ELiteral (LInt 1) None) plus_tok (call_expr (tokI f) None pos kws))
                       (mk MINUS "-") (call_expr (tokI f) None pos kws'))))
        by (vm_compute; reflexivity);
      rewrite P
    end.
    cbn [bind].
    exact (family_formula_sub (tokI f) None None pos [LzVar x] kws kws' inst_pos inst_kws inst_names inst_perm
             (tokI y) (mk TILDE "~") plus_tok eq_refl eq_refl (mk MINUS "-") eq_refl).
  Qed.

  (* y ~ f(x, a=va, b=vb) : f(x, b=vb, a=va) : one factor *)
  Theorem text_family_colon :
    describe_string (y ++ " ~ " ++ call_text f x a va b vb ++ " : " ++ call_text f x b vb a va) =
    Ok (Mod (Some [CVar (NStr y) None]) [CI; CT [CCall (call_lz f x a b za zb)]] []).
  Proof.
    through_front_end COLON ":".
    match goal with |- bind (parse ?ts) _ = _ =>
      assert (P : parse ts =
        Ok (EBinary (EVariable (tokI y) None) (mk TILDE "~")
              (EBinary (ELiteral (LInt 1) None) plus_tok
                 (EBinary (call_expr (tokI f) None pos kws) (mk COLON ":") (call_expr (tokI f) None pos kws')))))
        by (vm_compute; reflexivity);
      rewrite P
    end.
    cbn [bind].
    exact (family_formula_colon (tokI f) None None pos [LzVar x] kws kws' inst_pos inst_kws inst_names inst_perm
             (tokI y) (mk TILDE "~") plus_tok eq_refl eq_refl (mk COLON ":") eq_refl).
  Qed.

  (* the name the correspondence sees: the FIRST spelling, integers printed canonically *)
  Lemma call_lz_name :
    lazy_str (call_lz f x a b za zb) =
    f ++ "(" ++ (x ++ ", " ++ (a ++ "=" ++ zshow za) ++ ", " ++ (b ++ "=" ++ zshow zb)) ++ ")".
  Proof. reflexivity. Qed.
End Instances.

Example text_family_instance :
  describe_string "resp ~ np.f(x1, lo=0, hi=10) + np.f(x1, hi=10, lo=0)" =
  Ok (Mod (Some [CVar (NStr "resp") None]) [CI; CT [CCall (call_lz "np.f" "x1" "lo" "hi" 0 10)]] []).
Proof.
  apply (text_family_add "resp" "np.f" "x1" "lo" "hi" "0" "10" 0 10); try (vm_compute; reflexivity).
  discriminate.
Qed.

Print Assumptions front_end_text2.
Print Assumptions text_family_add.
Print Assumptions text_family_sub.
Print Assumptions text_family_colon.
