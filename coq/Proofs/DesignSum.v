(* Structural theorems about the design-matrix model, continued (C04, Sum-coded part):
   B'. a Sum-coded categorical component holds, in the column labelled name[l], the contrast value
       "1 if the value of the row is l, -1 if it is the omitted level, 0 otherwise", preceded under
       full coding by a column name[mean] that is 1 on every row whose value is a level;
   A'. terms made of numeric, Treatment-coded and Sum-coded components: labelled rows multiply, and
       every entry is the product of what the pieces of its label denote. *)
From Verif Require Import Base Tokens Lazy Algebra Coding Contrasts Frame Eval Design DesignStructure DesignCoding.
From Coq Require Import Lia Permutation.
Local Close Scope Qc_scope.
Local Close Scope Q_scope.
Local Open Scope string_scope.
Local Open Scope list_scope.
Local Open Scope nat_scope.

(* ------------------------------------------------------------------------------------------ *)
(** * Lists: leaving one level out *)

(* the levels without the level o *)
Definition without (o : string) (lv : list string) : list string :=
  filter (fun l => negb (String.eqb l o)) lv.

Lemma lift_neq r j : lift r j <> r.
Proof. unfold lift. destruct (Nat.ltb_spec j r); lia. Qed.

Lemma filter_id {T} (p : T -> bool) l : (forall x, In x l -> p x = true) -> filter p l = l.
Proof.
  induction l as [|x l IH]; intros H; simpl; [reflexivity|].
  rewrite H by (left; reflexivity). f_equal. apply IH. intros; apply H; right; assumption.
Qed.

(** In a duplicate-free list, dropping position r is dropping the level found there. *)
Lemma drop_nth_without lv : forall r, NoDup lv -> r < List.length lv ->
  drop_nth r lv = without (nth r lv "") lv.
Proof.
  induction lv as [|x lv IH]; intros r Hnd Hr; simpl in Hr; [lia|].
  inversion Hnd as [|? ? Hx Hnd']; subst. destruct r as [|r]; cbn [drop_nth nth without filter].
  - rewrite String.eqb_refl. cbn [negb]. symmetry. apply filter_id. intros y Hy.
    destruct (String.eqb_spec y x); [subst; contradiction|reflexivity].
  - assert (Hr' : r < List.length lv) by lia.
    destruct (String.eqb_spec x (nth r lv "")) as [E|_].
    + exfalso. apply Hx. rewrite E. apply nth_In. assumption.
    + cbn [negb]. f_equal. apply IH; assumption.
Qed.

Lemma last_nth {T} (l : list T) d : last l d = nth (List.length l - 1) l d.
Proof.
  induction l as [|x l IH]; [reflexivity|]. destruct l as [|y l]; [reflexivity|].
  change (last (x :: y :: l) d) with (last (y :: l) d). rewrite IH. simpl. rewrite Nat.sub_0_r. reflexivity.
Qed.

(* ------------------------------------------------------------------------------------------ *)
(** * B'. Sum coding holds contrast values *)

(* the omitted level: the given one, or the LAST level when none is given *)
Definition sum_omitted (omit : option string) (lv : list string) : string :=
  match omit with Some o => o | None => last lv "" end.

(* what the column of level l denotes on a row whose value is x, o being the omitted level *)
Definition sumc (o x l : string) : cell :=
  if String.eqb x l then zcell 1 else if String.eqb x o then zcell (-1) else zcell 0.
(* the same for a possibly missing value: a missing value gives 0 *)
Definition osumc (o : string) (ox : option string) (l : string) : cell :=
  match ox with Some x => sumc o x l | None => zcell 0 end.

(* what the column [mean] holds: 1 on every row whose value is one of the levels (a missing value
   or a value that is no level is coded by the zero row, [mean] included) *)
Definition meanc (lv : list string) (x : string) : cell :=
  if existsb (String.eqb x) lv then zcell 1 else zcell 0.
Definition omeanc (lv : list string) (ox : option string) : cell :=
  match ox with Some x => meanc lv x | None => zcell 0 end.

Lemma existsb_eqb_In x lv : existsb (String.eqb x) lv = true <-> In x lv.
Proof.
  rewrite existsb_exists. split.
  - intros (y & Hy & E). apply String.eqb_eq in E. subst. assumption.
  - intros H. exists x. split; [assumption|apply String.eqb_refl].
Qed.

Lemma meanc_level lv x : In x lv -> meanc lv x = zcell 1.
Proof. intros H. unfold meanc. rewrite (proj2 (existsb_eqb_In x lv) H). reflexivity. Qed.

Lemma ref_index_sum_lt omit lv r :
  ref_index (Sum omit) lv = Ok r -> 0 < List.length lv -> r < List.length lv.
Proof.
  destruct omit as [s|]; simpl; intros H Hn.
  - destruct (index_of s lv) as [k|] eqn:E; [|discriminate]. injection H as <-.
    apply (index_of_Some _ _ _ "" E).
  - injection H as <-. lia.
Qed.

Lemma ref_index_sum_omitted omit lv r :
  ref_index (Sum omit) lv = Ok r -> nth r lv "" = sum_omitted omit lv.
Proof.
  destruct omit as [s|]; simpl; intros H.
  - destruct (index_of s lv) as [k|] eqn:E; [|discriminate]. injection H as <-.
    apply (index_of_Some _ _ _ "" E).
  - injection H as <-. symmetry. apply last_nth.
Qed.

(* a given omitted level is a level *)
Lemma ref_index_sum_some_nonempty o lv r : ref_index (Sum (Some o)) lv = Ok r -> lv <> [].
Proof. intros H E. subst lv. discriminate H. Qed.

(** The reduced Sum matrix, row of the value x: under each kept level l the contrast value. *)
Lemma sum_reduced_coding_row lv r x :
  NoDup lv -> r < List.length lv ->
  code_row (build (List.length lv) (List.length lv - 1) (sum_entry r)) (List.length lv - 1) (index_of x lv)
  = map (sumc (nth r lv "") x) (drop_nth r lv).
Proof.
  intros Hnd Hr. rewrite (drop_nth_seq lv "" r Hr). rewrite map_map.
  destruct (index_of x lv) as [k|] eqn:E; unfold code_row.
  - destruct (index_of_Some _ _ _ "" E) as [Hk Hx].
    rewrite build_nth by assumption. rewrite map_map. apply map_ext_in. intros j Hj.
    apply in_seq in Hj. unfold sum_entry, sumc.
    assert (Hl : lift r j < List.length lv) by (apply lift_lt; lia).
    pose proof (lift_neq r j) as Hne.
    destruct (String.eqb_spec x (nth (lift r j) lv "")) as [Heq|Hneq].
    + (* x is the level of the column *)
      assert (k = lift r j).
      { rewrite <- Hx in Heq. apply (proj1 (NoDup_nth lv "") Hnd); auto. }
      subst k. destruct (Nat.eqb_spec (lift r j) r); [contradiction|].
      rewrite Nat.eqb_refl. reflexivity.
    + destruct (Nat.eqb_spec k r) as [->|Hkr].
      * rewrite Hx, String.eqb_refl. reflexivity.
      * destruct (Nat.eqb_spec k (lift r j)) as [->|_]; [congruence|].
        destruct (String.eqb_spec x (nth r lv "")) as [Heq|]; [|reflexivity].
        exfalso. apply Hkr. rewrite <- Hx in Heq. apply (proj1 (NoDup_nth lv "") Hnd); auto.
  - apply index_of_None in E. symmetry.
    rewrite <- (seq_length (List.length lv - 1) 0) at 2. apply map_const_repeat.
    intros j Hj. apply in_seq in Hj. unfold sumc.
    destruct (String.eqb_spec x (nth (lift r j) lv "")) as [Heq|_].
    + exfalso. apply E. rewrite Heq. apply nth_In. apply lift_lt. lia.
    + destruct (String.eqb_spec x (nth r lv "")) as [Heq|_]; [|reflexivity].
      exfalso. apply E. rewrite Heq. apply nth_In. assumption.
Qed.

(** The full Sum matrix: the column [mean] in front of the reduced row. *)
Lemma sum_full_coding_row lv r x :
  0 < List.length lv ->
  code_row (build (List.length lv) (List.length lv) (sumfull_entry r)) (List.length lv) (index_of x lv)
  = meanc lv x ::
    code_row (build (List.length lv) (List.length lv - 1) (sum_entry r)) (List.length lv - 1) (index_of x lv).
Proof.
  intros Hn. unfold meanc.
  destruct (index_of x lv) as [k|] eqn:E; unfold code_row.
  - destruct (index_of_Some _ _ _ "" E) as [Hk Hx].
    assert (Hin : In x lv) by (rewrite <- Hx; apply nth_In; assumption).
    rewrite (proj2 (existsb_eqb_In x lv) Hin).
    rewrite !build_nth by assumption.
    replace (List.length lv) with (S (List.length lv - 1)) at 1 by lia.
    cbn [seq map]. f_equal. rewrite <- seq_shift, !map_map. reflexivity.
  - apply index_of_None in E.
    destruct (existsb (String.eqb x) lv) eqn:Ex; [apply existsb_eqb_In in Ex; contradiction|].
    replace (List.length lv) with (S (List.length lv - 1)) at 1 by lia. reflexivity.
Qed.

(* labels and row of a Sum coding over the levels lv with kept levels [kept] *)
Definition sum_labels (spans : bool) (kept : list string) : list string :=
  if spans then "mean" :: kept else kept.
Definition sum_row (spans : bool) (lv : list string) (o : string) (x : string) (kept : list string)
  : list cell :=
  if spans then meanc lv x :: map (sumc o x) kept else map (sumc o x) kept.
Definition osum_row (spans : bool) (lv : list string) (o : string) (ox : option string)
           (kept : list string) : list cell :=
  if spans then omeanc lv ox :: map (osumc o ox) kept else map (osumc o ox) kept.

(** Sum coding, on [code]: whatever the value x of a row, the coded row holds under the label l of
    a kept level the contrast value of x (1 if x = l, -1 if x is the omitted level, 0 otherwise);
    the kept levels are the levels without the omitted one (the given one, or the last one);
    under full coding a first column [mean] holds 1 (0 when x is no level at all).
    The premise on non-empty levels is only needed under full coding with no given level: there
    the matrix of zero levels has no column while the labels are ["mean"]. *)
Theorem sum_code_row omit spans lv cm x :
  NoDup lv -> code (Sum omit) spans lv = Ok cm -> (spans = true -> lv <> []) ->
  let o := sum_omitted omit lv in
  clabels cm = sum_labels spans (without o lv) /\
  code_row (cmatrix cm) (contrast_width cm) (index_of x lv) = sum_row spans lv o x (without o lv) /\
  (lv <> [] -> In o lv).
Proof.
  intros Hnd H Hne o.
  assert (Hr : exists r, ref_index (Sum omit) lv = Ok r /\
                         cm = if spans
                              then Contrast (build (List.length lv) (List.length lv) (sumfull_entry r))
                                            ("mean" :: drop_nth r lv)
                              else Contrast (build (List.length lv) (List.length lv - 1) (sum_entry r))
                                            (drop_nth r lv)).
  { destruct spans; simpl in H.
    - apply bind_ok in H as (r & Hr & H). injection H as <-. eauto.
    - unfold code_without_intercept in H. apply bind_ok in H as (r & Hr & H). injection H as <-. eauto. }
  destruct Hr as (r & Hr & ->).
  pose proof (ref_index_sum_omitted _ _ _ Hr) as Ho. fold o in Ho.
  destruct lv as [|l0 lv'] eqn:Elv.
  - (* no levels at all: only reduced coding with no given level gets here *)
    destruct spans; [exfalso; apply Hne; reflexivity|].
    cbn. split; [destruct r; reflexivity|]. split; [destruct r; reflexivity|]. intros C; contradiction.
  - rewrite <- Elv in *. assert (Hn : 0 < List.length lv) by (rewrite Elv; simpl; lia).
    pose proof (ref_index_sum_lt _ _ _ Hr Hn) as Hlt.
    pose proof (drop_nth_without lv r Hnd Hlt) as Hd. rewrite Ho in Hd.
    assert (Hin : In o lv) by (rewrite <- Ho; apply nth_In; assumption).
    destruct spans; cbn [cmatrix clabels sum_labels sum_row]; rewrite build_width by assumption.
    + split; [rewrite Hd; reflexivity|]. split; [|auto].
      rewrite sum_full_coding_row by assumption. f_equal.
      rewrite sum_reduced_coding_row by assumption. rewrite Ho, Hd. reflexivity.
    + split; [exact Hd|]. split; [|auto].
      rewrite sum_reduced_coding_row by assumption. rewrite Ho, Hd. reflexivity.
Qed.

(* the statement of the task for a level x at position k, on the entry functions: reduced ... *)
Corollary sum_reduced_row lv r x k :
  NoDup lv -> r < List.length lv -> index_of x lv = Some k ->
  combine (drop_nth r lv)
          (map zcell (nth k (build (List.length lv) (List.length lv - 1) (sum_entry r))
                            (repeat 0%Z (List.length lv - 1))))
  = map (fun l => (l, sumc (nth r lv "") x l)) (drop_nth r lv).
Proof.
  intros Hnd Hr E. pose proof (sum_reduced_coding_row lv r x Hnd Hr) as H.
  rewrite E in H. unfold code_row in H. rewrite H. apply combine_map_r.
Qed.

(* ... and full coding: [mean] holds 1, the other columns are the reduced ones *)
Corollary sum_full_row lv r x k :
  NoDup lv -> r < List.length lv -> index_of x lv = Some k ->
  combine ("mean" :: drop_nth r lv)
          (map zcell (nth k (build (List.length lv) (List.length lv) (sumfull_entry r))
                            (repeat 0%Z (List.length lv))))
  = ("mean", zcell 1) :: map (fun l => (l, sumc (nth r lv "") x l)) (drop_nth r lv).
Proof.
  intros Hnd Hr E. assert (Hn : 0 < List.length lv) by lia.
  pose proof (sum_full_coding_row lv r x Hn) as H.
  pose proof (sum_reduced_coding_row lv r x Hnd Hr) as H'.
  rewrite E in H, H'. unfold code_row in H, H'. rewrite H, H'. cbn [combine]. f_equal.
  - destruct (index_of_Some _ _ _ "" E) as [Hk Hx]. rewrite meanc_level; [reflexivity|].
    rewrite <- Hx. apply nth_In. assumption.
  - apply combine_map_r.
Qed.

(* the sign convention, spelled out on the three cases *)
Lemma sumc_cases o x l :
  l <> o ->
  (x = l -> sumc o x l = zcell 1) /\
  (x = o -> sumc o x l = zcell (-1)) /\
  (x <> l -> x <> o -> sumc o x l = zcell 0).
Proof.
  intros Hlo. unfold sumc. repeat split.
  - intros ->. rewrite String.eqb_refl. reflexivity.
  - intros ->. destruct (String.eqb_spec o l); [congruence|]. rewrite String.eqb_refl. reflexivity.
  - intros H1 H2. destruct (String.eqb_spec x l); [contradiction|].
    destruct (String.eqb_spec x o); [contradiction|reflexivity].
Qed.

Lemma without_In o lv l : In l (without o lv) <-> In l lv /\ l <> o.
Proof.
  unfold without. rewrite filter_In. split; intros [H1 H2]; split; auto.
  - destruct (String.eqb_spec l o); [discriminate|assumption].
  - destruct (String.eqb_spec l o); [contradiction|reflexivity].
Qed.

(* ------------------------------------------------------------------------------------------ *)
(** ** On [set_data_comp] *)

(* the levels a categoric component is coded over: declared, or the sorted values present *)
Definition comp_levels (t : tcomp) : list string :=
  match tc_value t with
  | PBox num d _ lv => match lv with Some l => l | None => sort_levels num (present d) end
  | v => match categoric_data v with
         | Ok nd => match snd (fst nd) with
                    | Some cs => cs
                    | None => sort_levels (fst (fst nd)) (present (snd nd))
                    end
         | Err _ => []
         end
  end.

Lemma set_data_comp_levels t spans nrows dc :
  tc_kind t = KCategoric -> set_data_comp t spans nrows = Ok dc -> dc_levels dc = comp_levels t.
Proof.
  unfold set_data_comp, comp_levels. intros Hk H. rewrite Hk in H.
  destruct (tc_value t) as [isint xs|rows|o xs|? ?|?|?| |?|?|?|num d enc lv|? ?|? ? ?] eqn:Ev;
    try discriminate H.
  - destruct isint; [|discriminate H]. cbn [categoric_data bind fst snd] in H |- *.
    match type of H with (if ?c then _ else _) = _ => destruct c; [discriminate H|] end.
    destruct (tc_response t), (tc_reference t);
      first [ injection H as <-; reflexivity
            | apply bind_ok in H as (cm' & Hcode & H); injection H as <-; reflexivity ].
  - cbn [categoric_data bind fst snd] in H |- *.
    match type of H with (if ?c then _ else _) = _ => destruct c; [discriminate H|] end.
    destruct (tc_response t), (tc_reference t);
      first [ injection H as <-; reflexivity
            | apply bind_ok in H as (cm' & Hcode & H); injection H as <-; reflexivity ].
  - match type of H with (if ?c then _ else _) = _ => destruct c; [discriminate H|] end. apply bind_ok in H as (cm' & Hcode & H). injection H as <-. reflexivity.
Qed.

Lemma set_data_comp_spans t spans nrows dc :
  set_data_comp t spans nrows = Ok dc -> dc_spans dc = spans /\ dc_t dc = t.
Proof.
  unfold set_data_comp. intros H.
  destruct (tc_kind t).
  - destruct (tc_value t); try discriminate H; injection H as <-; split; reflexivity.
  - destruct (tc_value t) as [isint xs|rows|o xs|? ?|?|?| |?|?|?|num d enc lv|? ?|? ? ?] eqn:Ev;
      try discriminate H.
    + destruct isint; [|discriminate H]. cbn [categoric_data bind fst snd] in H.
      match type of H with (if ?c then _ else _) = _ => destruct c; [discriminate H|] end.
      destruct (tc_response t), (tc_reference t);
        first [ injection H as <-; split; reflexivity
              | apply bind_ok in H as (cm' & Hcode & H); injection H as <-; split; reflexivity ].
    + cbn [categoric_data bind fst snd] in H.
      match type of H with (if ?c then _ else _) = _ => destruct c; [discriminate H|] end.
      destruct (tc_response t), (tc_reference t);
        first [ injection H as <-; split; reflexivity
              | apply bind_ok in H as (cm' & Hcode & H); injection H as <-; split; reflexivity ].
    + match type of H with (if ?c then _ else _) = _ => destruct c; [discriminate H|] end. apply bind_ok in H as (cm' & Hcode & H). injection H as <-. split; reflexivity.
  - destruct (tc_response t); [discriminate H|].
    destruct (tc_value t) as [| | | | | | | | | | |[q|] xs|]; try discriminate H;
      injection H as <-; split; reflexivity.
  - destruct (negb (tc_response t)); [discriminate H|].
    destruct (tc_value t); try discriminate H; injection H as <-; split; reflexivity.
Qed.

(** A Sum-coded categoric component, on [set_data_comp] (shape as for Treatment): the labels are
    [name[l]] for the levels l without the omitted one, preceded by [name[mean]] under full
    coding; the matrix is, row by row, the contrast values of the row's value. *)
Theorem set_data_comp_sum t spans nrows dc cm omit :
  tc_kind t = KCategoric -> set_data_comp t spans nrows = Ok dc -> dc_contrast dc = Some cm ->
  comp_encoding t = Sum omit -> NoDup (dc_levels dc) -> (spans = true -> dc_levels dc <> []) ->
  exists num o d,
    let lv := dc_levels dc in
    let om := sum_omitted omit lv in
    categoric_data (tc_value t) = Ok (num, o, d) /\
    clabels cm = sum_labels spans (without om lv) /\
    dc_labels dc = Some (map (comp_label t) (sum_labels spans (without om lv))) /\
    dc_rows dc = map (fun ox => osum_row spans lv om ox (without om lv)) d /\
    (lv <> [] -> In om lv).
Proof.
  intros Hk H Hc He Hnd Hne.
  destruct (set_data_comp_categoric t spans nrows dc cm Hk H Hc) as (num & o & d & Hd & Hcode & Hrows & Hlabs & _).
  rewrite He in Hcode. exists num, o, d. cbv zeta.
  set (lv := dc_levels dc) in *. set (om := sum_omitted omit lv) in *.
  destruct (sum_code_row omit spans lv cm "" Hnd Hcode Hne) as (Hcl & Hrow0 & Hin).
  fold om in Hcl, Hrow0, Hin.
  split; [assumption|]. split; [assumption|]. split; [rewrite Hlabs, Hcl; reflexivity|].
  split; [|assumption].
  rewrite Hrows, code_rows_map. unfold level_codes. rewrite map_map. apply map_ext. intros [x|].
  - destruct (sum_code_row omit spans lv cm x Hnd Hcode Hne) as (_ & Hrow & _). fold om in Hrow.
    rewrite Hrow. unfold sum_row, osum_row. destruct spans; reflexivity.
  - (* a missing value: the zero row, as wide as any other row *)
    cbn [code_row].
    assert (L : contrast_width cm = List.length (sum_row spans lv om "" (without om lv))).
    { rewrite <- Hrow0. destruct (index_of "" lv) as [k|] eqn:E; cbn [code_row].
      - clear Hrow0. destruct lv as [|l0 lv'] eqn:Elv; [discriminate E|]. rewrite <- Elv in *.
        assert (Hn : 0 < List.length lv) by (rewrite Elv; simpl; lia).
        destruct (index_of_Some _ _ _ "" E) as [Hlt _].
        destruct spans; simpl in Hcode.
        + apply bind_ok in Hcode as (r & _ & Hcode). injection Hcode as <-.
          rewrite build_width by assumption. cbn [cmatrix].
          rewrite build_nth, !map_length, seq_length by assumption. reflexivity.
        + unfold code_without_intercept in Hcode. apply bind_ok in Hcode as (r & _ & Hcode).
          injection Hcode as <-. rewrite build_width by assumption. cbn [cmatrix].
          rewrite build_nth, !map_length, seq_length by assumption. reflexivity.
      - rewrite repeat_length. reflexivity. }
    rewrite L. unfold sum_row, osum_row. destruct spans; cbn [List.length repeat omeanc]; [f_equal|];
      rewrite map_length; symmetry; apply map_const_repeat; reflexivity.
Qed.

(** Every column holds what its label says (reduced coding): on row i, whose value is x, the label
    [name[l]] is paired with the contrast value of x for the kept level l. *)
Corollary set_data_comp_sum_lrow t spans nrows dc cm omit :
  tc_kind t = KCategoric -> set_data_comp t spans nrows = Ok dc -> dc_contrast dc = Some cm ->
  comp_encoding t = Sum omit -> NoDup (dc_levels dc) -> (spans = true -> dc_levels dc <> []) ->
  exists num o d,
    let lv := dc_levels dc in
    let om := sum_omitted omit lv in
    categoric_data (tc_value t) = Ok (num, o, d) /\
    forall i ox, nth_error d i = Some ox ->
      comp_lrow i dc
      = (if spans then [(comp_label t "mean", omeanc lv ox)] else [])
        ++ map (fun l => (comp_label t l, osumc om ox l)) (without om lv).
Proof.
  intros Hk H Hc He Hnd Hne.
  destruct (set_data_comp_sum t spans nrows dc cm omit Hk H Hc He Hnd Hne)
    as (num & o & d & Hd & _ & Hlabs & Hrows & _).
  exists num, o, d. intros lv om. split; [assumption|]. intros i ox Hi.
  unfold comp_lrow, dc_labs. rewrite Hlabs, Hrows. fold lv om.
  assert (Hlt : i < List.length d) by (apply nth_error_Some; congruence).
  set (F := fun ox => osum_row spans lv om ox (without om lv)).
  rewrite (nth_indep _ [] (F None)) by (rewrite map_length; assumption).
  rewrite map_nth. unfold F. rewrite (nth_error_nth _ _ _ Hi).
  assert (R : combine (map (comp_label t) (without om lv)) (map (osumc om ox) (without om lv))
              = map (fun l => (comp_label t l, osumc om ox l)) (without om lv)).
  { rewrite combine_map. rewrite <- (map_id (without om lv)) at 2.
    rewrite combine_map_r, map_map. reflexivity. }
  unfold sum_labels, osum_row. destruct spans; cbn [map combine app]; rewrite R; reflexivity.
Qed.

Corollary set_data_comp_sum_wf t spans nrows dc cm omit :
  tc_kind t = KCategoric -> set_data_comp t spans nrows = Ok dc -> dc_contrast dc = Some cm ->
  comp_encoding t = Sum omit -> NoDup (dc_levels dc) -> (spans = true -> dc_levels dc <> []) ->
  dcomp_wf dc.
Proof.
  intros Hk H Hc He Hnd Hne.
  destruct (set_data_comp_sum t spans nrows dc cm omit Hk H Hc He Hnd Hne)
    as (num & o & d & Hd & _ & Hlabs & Hrows & _).
  eexists. split; [eassumption|]. rewrite Hrows. apply Forall_forall. intros r Hr.
  apply in_map_iff in Hr as (ox & <- & _). unfold osum_row, sum_labels.
  destruct spans; cbn [List.length map]; rewrite !map_length; reflexivity.
Qed.

(** The premise on non-empty levels cannot be dropped: full Sum coding of a box whose only value
    is missing has the label [x[mean]] and rows without any column. *)
Definition ds_tc_empty_sum : tcomp :=
  TC "x" (CVar (NStr "x") None) KCategoric (PBox false [None] (Some (Sum None)) None) [] false None.
Example sum_full_no_levels_refuted :
  exists dc, set_data_comp ds_tc_empty_sum true 1 = Ok dc /\
             dc_labels dc = Some ["x[mean]"] /\ dc_rows dc = [[]] /\ ~ dcomp_wf dc.
Proof.
  eexists. split; [vm_compute; reflexivity|]. cbn [dc_labels dc_rows]. split; [reflexivity|].
  split; [reflexivity|]. intros (labs & Hl & Hr). injection Hl as <-.
  inversion Hr as [|? ? Hlen _]; subst. discriminate Hlen.
Qed.

(* ------------------------------------------------------------------------------------------ *)
(** * A'. Terms made of coded components *)

(* a numeric series, or a Treatment- or Sum-coded categoric predictor whose declared levels (if
   any) are duplicate-free; a Sum coding with no given level needs at least one level *)
Definition coded_comp (t : tcomp) : Prop :=
  (tc_kind t = KNumeric /\ exists isint xs, tc_value t = PSeries isint xs) \/
  (tc_kind t = KCategoric /\ tc_response t = false /\
   (forall l, declared_levels t = Some l -> NoDup l) /\
   ((exists ref, comp_encoding t = Treatment ref) \/
    (exists omit, comp_encoding t = Sum omit /\ (omit = None -> comp_levels t <> [])))).

Lemma plain_comp_coded t : plain_comp t -> coded_comp t.
Proof.
  intros [H|(Hk & Hr & He & Hd)]; [left; exact H|]. right. repeat split; auto.
Qed.

Lemma sum_levels_nonempty t spans nrows dc cm omit :
  tc_kind t = KCategoric -> set_data_comp t spans nrows = Ok dc -> dc_contrast dc = Some cm ->
  comp_encoding t = Sum omit -> (omit = None -> comp_levels t <> []) -> dc_levels dc <> [].
Proof.
  intros Hk H Hc He Hne.
  destruct omit as [o|].
  - destruct (set_data_comp_categoric t spans nrows dc cm Hk H Hc) as (_ & _ & _ & _ & Hcode & _).
    rewrite He in Hcode. intros E. rewrite E in Hcode.
    destruct spans; cbn in Hcode; discriminate Hcode.
  - rewrite (set_data_comp_levels t spans nrows dc Hk H). auto.
Qed.

Theorem coded_comp_wf t spans nrows dc :
  coded_comp t -> set_data_comp t spans nrows = Ok dc -> dcomp_wf dc.
Proof.
  intros [(Hk & isint & xs & Hv)|(Hk & Hr & Hdecl & [(ref & He)|(omit & He & Hne)])] H.
  - apply (set_data_comp_numeric_wf t spans nrows dc isint xs Hk Hv H).
  - destruct (set_data_comp_contrast t spans nrows dc Hk Hr H) as (cm & Hcm).
    apply (set_data_comp_treatment_wf t spans nrows dc cm ref Hk H Hcm He).
    apply (set_data_comp_levels_NoDup t spans nrows dc Hk H Hdecl).
  - destruct (set_data_comp_contrast t spans nrows dc Hk Hr H) as (cm & Hcm).
    apply (set_data_comp_sum_wf t spans nrows dc cm omit Hk H Hcm He).
    + apply (set_data_comp_levels_NoDup t spans nrows dc Hk H Hdecl).
    + intros _. apply (sum_levels_nonempty t spans nrows dc cm omit Hk H Hcm He Hne).
Qed.

(** For a term made of coded components (numeric, Treatment or Sum) no well-formedness hypothesis
    is left: the labelled row of the term is the labelled product, left factor slowest, of the
    labelled rows of the components. *)
Theorem set_data_term_coded_lrow nrows name cs s dt :
  Forall coded_comp cs ->
  set_data_term nrows (TTTerm name cs) s = Ok dt ->
  exists d0 rest labs,
    dt_comps dt = d0 :: rest /\ dt_labels dt = Some labs /\
    forall i, Forall (fun d => i < List.length (dc_rows d)) (dt_comps dt) ->
      combine labs (nth i (dt_rows dt) [])
      = fold_left (lprod ":") (map (comp_lrow i) rest) (comp_lrow i d0)
      /\ List.length labs = List.length (nth i (dt_rows dt) []).
Proof.
  intros Hcoded H. apply (set_data_term_lrow nrows name cs s dt H).
  pose proof (set_data_term_comps _ _ _ _ _ H) as Hds. apply mapM_ok in Hds.
  clear H. induction Hds as [|c d cs ds Hcd _ IH]; constructor.
  - inversion Hcoded; subst. eapply coded_comp_wf; eauto.
  - inversion Hcoded; subst. apply IH; assumption.
Qed.

(* ------------------------------------------------------------------------------------------ *)
(** * Closed form: what the pieces of a label denote *)

(* one column of a component *)
Inductive piece :=
| PcNumeric                        (* the column of a numeric component, label [name] *)
| PcIndicator (l : string)         (* [name[l]] under Treatment coding *)
| PcContrast (o l : string)        (* [name[l]] under Sum coding with omitted level o *)
| PcMean (lv : list string).       (* [name[mean]] under full Sum coding over the levels lv *)

(* the value of a component on one data row *)
Inductive datum := DNum (c : cell) | DCat (ox : option string).

(** The value a label piece denotes on a data row: the numeric value / the indicator [x = l] /
    the contrast value (1 if x = l, -1 if x = o, 0 otherwise) / 1 for [mean] (on a level). *)
Definition denote_piece (p : piece) (v : datum) : cell :=
  match p, v with
  | PcNumeric, DNum c => c
  | PcIndicator l, DCat ox => oind ox l
  | PcContrast o l, DCat ox => osumc o ox l
  | PcMean lv, DCat ox => omeanc lv ox
  | _, _ => None
  end.

Definition piece_label (name : string) (p : piece) : string :=
  match p with
  | PcNumeric => name
  | PcIndicator l => name ++ "[" ++ l ++ "]"
  | PcContrast _ l => name ++ "[" ++ l ++ "]"
  | PcMean _ => name ++ "[mean]"
  end.

(* the level a Treatment coding leaves out: the given one, or the FIRST level *)
Definition treatment_reference (ref : option string) (lv : list string) : string :=
  match ref with Some r => r | None => hd "" lv end.

(* the columns of a component, from its type, its data and the flag it is coded with *)
Definition comp_pieces (t : tcomp) (spans : bool) : list piece :=
  match tc_kind t with
  | KNumeric => [PcNumeric]
  | _ =>
      let lv := comp_levels t in
      match comp_encoding t with
      | Treatment ref =>
          map PcIndicator (if spans then lv else without (treatment_reference ref lv) lv)
      | Sum omit =>
          let o := sum_omitted omit lv in
          (if spans then [PcMean lv] else []) ++ map (PcContrast o) (without o lv)
      end
  end.

(* the value of a component on row i *)
Definition comp_datum (t : tcomp) (i : nat) : datum :=
  match tc_kind t with
  | KNumeric => DNum (match tc_value t with PSeries _ xs => nth i xs None | _ => None end)
  | _ => DCat (match categoric_data (tc_value t) with Ok nd => nth i (snd nd) None | Err _ => None end)
  end.

(* the number of data rows of a component *)
Definition comp_nrows (t : tcomp) : nat :=
  match tc_kind t with
  | KNumeric => match tc_value t with PSeries _ xs => List.length xs | _ => 0 end
  | _ => match categoric_data (tc_value t) with Ok nd => List.length (snd nd) | Err _ => 0 end
  end.

(* label and denoted value of one piece of component t on row i *)
Definition lpiece (t : tcomp) (i : nat) (p : piece) : string * cell :=
  (piece_label (tc_name t) p, denote_piece p (comp_datum t i)).

Lemma ref_index_treatment_reference ref lv r :
  ref_index (Treatment ref) lv = Ok r -> nth r lv "" = treatment_reference ref lv.
Proof.
  destruct ref as [s|]; simpl; intros H.
  - destruct (index_of s lv) as [k|] eqn:E; [|discriminate]. injection H as <-.
    apply (index_of_Some _ _ _ "" E).
  - injection H as <-. destruct lv; reflexivity.
Qed.

(** A coded component has one matrix row per data row. *)
Lemma coded_comp_nrows t spans nrows dc :
  coded_comp t -> set_data_comp t spans nrows = Ok dc -> List.length (dc_rows dc) = comp_nrows t.
Proof.
  intros [(Hk & isint & xs & Hv)|(Hk & Hr & Hdecl & Henc)] H.
  - destruct (set_data_comp_numeric_wf t _ _ dc isint xs Hk Hv H) as (_ & Hrows & _).
    unfold comp_nrows. rewrite Hk, Hv, Hrows, map_length. reflexivity.
  - destruct (set_data_comp_contrast t _ _ dc Hk Hr H) as (cm & Hcm).
    destruct (set_data_comp_categoric t _ _ dc cm Hk H Hcm) as (num & o & dd & Hd & _ & Hrows & _).
    unfold comp_nrows. rewrite Hk, Hd. cbn [snd].
    rewrite Hrows. unfold code_rows, level_codes. rewrite !map_length. reflexivity.
Qed.

(** The labelled row of a coded component, piece by piece. *)
Theorem coded_comp_lrow t spans nrows dc i :
  coded_comp t -> set_data_comp t spans nrows = Ok dc -> i < comp_nrows t ->
  comp_lrow i dc = map (lpiece t i) (comp_pieces t spans).
Proof.
  intros Hcoded H Hi. pose proof (coded_comp_nrows t spans nrows dc Hcoded H) as Hlen.
  unfold comp_nrows in Hlen, Hi.
  destruct Hcoded as [(Hk & isint & xs & Hv)|(Hk & Hr & Hdecl & Henc)].
  - (* numeric *)
    destruct (set_data_comp_numeric_wf t spans nrows dc isint xs Hk Hv H) as (_ & Hrows & Hlabs).
    unfold comp_lrow, dc_labs, comp_pieces, lpiece, comp_datum. rewrite Hk, Hv in *. rewrite Hlabs, Hrows.
    set (F := fun x : cell => [x]).
    rewrite (nth_indep _ [] (F None)) by (rewrite map_length; assumption).
    rewrite map_nth. reflexivity.
  - destruct (set_data_comp_contrast t spans nrows dc Hk Hr H) as (cm & Hcm).
    pose proof (set_data_comp_levels_NoDup t spans nrows dc Hk H Hdecl) as Hnd.
    pose proof (set_data_comp_levels t spans nrows dc Hk H) as Hlv.
    destruct Henc as [(ref & He)|(omit & He & Hne)].
    + (* Treatment *)
      destruct (set_data_comp_treatment_lrow t spans nrows dc cm ref Hk H Hcm He Hnd)
        as (num & o & d & Hd & Hrow).
      destruct (set_data_comp_treatment t spans nrows dc cm ref Hk H Hcm He Hnd)
        as (num' & o' & d' & Hd' & _ & Hrows & Hfull & Hred).
      rewrite Hd in Hd'. injection Hd' as <- <- <-.
      rewrite Hk, Hd in Hi. cbn [snd] in Hi.
      destruct (nth_error d i) as [ox|] eqn:Ei; [|apply nth_error_None in Ei; lia].
      rewrite (Hrow i ox Ei). unfold comp_pieces, lpiece, comp_datum. rewrite Hk, He, Hd. cbn [snd].
      rewrite (nth_error_nth _ _ None Ei). rewrite map_map.
      assert (Hk' : clabels cm = if spans then comp_levels t
                                 else without (treatment_reference ref (comp_levels t)) (comp_levels t)).
      { destruct spans.
        - rewrite Hfull by reflexivity. exact Hlv.
        - destruct (Hred eq_refl) as (r & Hri & ->). rewrite Hlv in *.
          destruct (comp_levels t) as [|l0 lv'] eqn:Elv; [destruct r; reflexivity|]. rewrite <- Elv in *.
          assert (Hn : 0 < List.length (comp_levels t)) by (rewrite Elv; simpl; lia).
          rewrite (drop_nth_without _ r Hnd (ref_index_treatment_lt _ _ _ Hri Hn)).
          rewrite (ref_index_treatment_reference _ _ _ Hri). reflexivity. }
      rewrite Hk'. reflexivity.
    + (* Sum *)
      assert (Hne' : spans = true -> dc_levels dc <> [])
        by (intros _; apply (sum_levels_nonempty t spans nrows dc cm omit Hk H Hcm He Hne)).
      destruct (set_data_comp_sum_lrow t spans nrows dc cm omit Hk H Hcm He Hnd Hne')
        as (num & o & d & Hd & Hrow).
      rewrite Hk, Hd in Hi. cbn [snd] in Hi.
      destruct (nth_error d i) as [ox|] eqn:Ei; [|apply nth_error_None in Ei; lia].
      rewrite (Hrow i ox Ei). unfold comp_pieces, lpiece, comp_datum. rewrite Hk, He, Hd. cbn [snd].
      rewrite (nth_error_nth _ _ None Ei). rewrite Hlv. rewrite map_app, map_map.
      destruct spans; reflexivity.
Qed.

(** The labelled row of a term of coded components is the labelled product of the components'
    piecewise descriptions: nothing of the model is left on the right-hand side but the types and
    the data of the components. *)
Theorem set_data_term_coded_denote nrows name c0 crest s dt i :
  Forall coded_comp (c0 :: crest) ->
  set_data_term nrows (TTTerm name (c0 :: crest)) s = Ok dt ->
  Forall (fun c => i < comp_nrows c) (c0 :: crest) ->
  let sp c := spans_for s (tc_name c) in
  exists labs,
    dt_labels dt = Some labs /\
    combine labs (nth i (dt_rows dt) [])
    = fold_left (lprod ":") (map (fun c => map (lpiece c i) (comp_pieces c (sp c))) crest)
                (map (lpiece c0 i) (comp_pieces c0 (sp c0))) /\
    List.length labs = List.length (nth i (dt_rows dt) []).
Proof.
  intros Hcoded H Hi sp.
  destruct (set_data_term_coded_lrow nrows name (c0 :: crest) s dt Hcoded H)
    as (d0 & rest & labs & Hcomps & Hlabs & Hrow).
  pose proof (set_data_term_comps _ _ _ _ _ H) as Hds. apply mapM_ok in Hds. rewrite Hcomps in Hds.
  exists labs. split; [assumption|].
  (* every component has row i, and its labelled row is the piecewise one *)
  assert (Hall : Forall2 (fun c d => i < List.length (dc_rows d) /\
                                     comp_lrow i d = map (lpiece c i) (comp_pieces c (sp c)))
                         (c0 :: crest) (d0 :: rest)).
  { clear - Hcoded Hi Hds. induction Hds as [|c d cs ds Hcd _ IH]; constructor.
    - inversion Hcoded; inversion Hi; subst. split.
      + erewrite coded_comp_nrows; eauto.
      + eapply coded_comp_lrow; eauto.
    - inversion Hcoded; inversion Hi; subst. apply IH; assumption. }
  assert (Hrows_i : Forall (fun d => i < List.length (dc_rows d)) (dt_comps dt)).
  { rewrite Hcomps. clear - Hall. induction Hall as [|c d cs ds [Hd _] _ IH]; constructor; assumption. }
  destruct (Hrow i Hrows_i) as [Hc Hl]. split; [|assumption]. rewrite Hc.
  inversion Hall as [|? ? ? ? [_ H0] Hrest]; subst. rewrite H0. f_equal.
  clear - Hrest. induction Hrest as [|c d cs ds [_ Hd] _ IH]; simpl; [reflexivity|].
  rewrite Hd, IH. reflexivity.
Qed.

(* the two halves of a product of labelled entries *)
Lemma fold_lmul_split sep ps : forall p0,
  fold_left (lmul sep) ps p0
  = (fold_left (fun a b => (a ++ sep ++ b)%string) (map fst ps) (fst p0),
     fold_left cmul (map snd ps) (snd p0)).
Proof.
  induction ps as [|p ps IH]; intros p0; simpl; [destruct p0; reflexivity|].
  rewrite IH. reflexivity.
Qed.

Lemma nth_error_combine {S T} (a : list S) (b : list T) j x y :
  nth_error (combine a b) j = Some (x, y) -> nth_error a j = Some x /\ nth_error b j = Some y.
Proof.
  revert b j; induction a as [|a0 a IH]; intros b j H; [destruct j; discriminate H|].
  destruct b as [|b0 b]; [destruct j; discriminate H|].
  destruct j as [|j]; simpl in *; [injection H as -> ->; auto|]. apply IH; assumption.
Qed.

(** Closed form, entry by entry: pick one piece in every component; at the mixed-radix column
    index of the picks (left factor slowest), the label of the term is the picks' labels joined
    by ":" and the entry on row i is the product of what the picked pieces denote on row i. *)
Theorem set_data_term_coded_entry nrows name c0 crest s dt i j0 js p0 ps :
  Forall coded_comp (c0 :: crest) ->
  set_data_term nrows (TTTerm name (c0 :: crest)) s = Ok dt ->
  Forall (fun c => i < comp_nrows c) (c0 :: crest) ->
  let sp c := spans_for s (tc_name c) in
  nth_error (comp_pieces c0 (sp c0)) j0 = Some p0 ->
  Forall2 (fun jc p => nth_error (comp_pieces (snd jc) (sp (snd jc))) (fst jc) = Some p)
          (combine js crest) ps ->
  List.length js = List.length crest ->
  let j := mixed_index j0 js (map (fun c => List.length (comp_pieces c (sp c))) crest) in
  exists labs,
    dt_labels dt = Some labs /\
    nth_error labs j
    = Some (fold_left (fun a b => (a ++ ":" ++ b)%string)
                      (map (fun cp => piece_label (tc_name (fst cp)) (snd cp)) (combine crest ps))
                      (piece_label (tc_name c0) p0)) /\
    nth_error (nth i (dt_rows dt) []) j
    = Some (fold_left cmul
                      (map (fun cp => denote_piece (snd cp) (comp_datum (fst cp) i)) (combine crest ps))
                      (denote_piece p0 (comp_datum c0 i))).
Proof.
  intros Hcoded H Hi sp H0 Hps Hlen j.
  destruct (set_data_term_coded_denote nrows name c0 crest s dt i Hcoded H Hi) as (labs & Hlabs & Hc & _).
  fold sp in Hc. exists labs. split; [assumption|].
  set (cols := map (fun c => map (lpiece c i) (comp_pieces c (sp c))) crest) in *.
  assert (E : nth_error (combine labs (nth i (dt_rows dt) [])) j
              = Some (fold_left (lmul ":") (map (fun cp => lpiece (fst cp) i (snd cp)) (combine crest ps))
                                (lpiece c0 i p0))).
  { rewrite Hc. unfold j.
    replace (map (fun c => List.length (comp_pieces c (sp c))) crest) with (map (@List.length _) cols)
      by (unfold cols; rewrite map_map; apply map_ext; intros; apply map_length).
    apply lprod_fold_nth_error.
    - apply map_nth_error. assumption.
    - unfold cols. clear - Hps Hlen. revert js ps Hps Hlen.
      induction crest as [|c crest IH]; intros js ps Hps Hlen.
      + destruct js; [|discriminate]. inversion Hps; subst. constructor.
      + destruct js as [|j1 js]; [discriminate|]. simpl in Hps.
        inversion Hps as [|? p ? ps' Hj Hr]; subst. simpl. constructor.
        * simpl. apply map_nth_error. exact Hj.
        * apply IH; [assumption|simpl in Hlen; lia].
    - unfold cols. rewrite map_length. assumption. }
  rewrite fold_lmul_split in E. apply nth_error_combine in E as [E1 E2].
  rewrite !map_map in E1, E2. cbn [lpiece fst snd] in E1, E2. split; assumption.
Qed.

(** ... and every column of the term arises from exactly such a choice of pieces. *)
Theorem set_data_term_coded_entry_onto nrows name c0 crest s dt i j :
  Forall coded_comp (c0 :: crest) ->
  set_data_term nrows (TTTerm name (c0 :: crest)) s = Ok dt ->
  Forall (fun c => i < comp_nrows c) (c0 :: crest) ->
  let sp c := spans_for s (tc_name c) in
  j < List.length (nth i (dt_rows dt) []) ->
  exists j0 js,
    j0 < List.length (comp_pieces c0 (sp c0)) /\
    Forall2 (fun j c => j < List.length (comp_pieces c (sp c))) js crest /\
    j = mixed_index j0 js (map (fun c => List.length (comp_pieces c (sp c))) crest).
Proof.
  intros Hcoded H Hi sp Hj.
  destruct (set_data_term_coded_denote nrows name c0 crest s dt i Hcoded H Hi) as (labs & Hlabs & Hc & Hl).
  fold sp in Hc.
  set (cols := map (fun c => map (lpiece c i) (comp_pieces c (sp c))) crest) in *.
  assert (Hj' : j < List.length (fold_left (lprod ":") cols (map (lpiece c0 i) (comp_pieces c0 (sp c0))))).
  { unfold cols, sp. rewrite <- Hc, combine_length, Hl. lia. }
  destruct (lprod_fold_index_onto ":" cols _ j Hj') as (j0 & js & H0 & Hjs & E).
  exists j0, js. rewrite map_length in H0. split; [assumption|]. split.
  - unfold cols in Hjs. clear - Hjs. remember (map _ crest) as l eqn:El. revert crest El.
    induction Hjs as [|a c js l Ha _ IH]; intros [|c' crest] El; try discriminate; constructor.
    + simpl in El. injection El as -> _. rewrite map_length in Ha. assumption.
    + simpl in El. injection El as _ El. apply IH; assumption.
  - rewrite E. f_equal. unfold cols. rewrite map_map. apply map_ext. intros; apply map_length.
Qed.

(* ------------------------------------------------------------------------------------------ *)
(** * A concrete instance: numeric x, Treatment-coded f, Sum-coded C(h, Sum) *)

Definition ds_q (z : Z) : cell := Some (qz z).
Definition ds_tc_x : tcomp :=
  TC "x" (CVar (NStr "x") None) KNumeric (PSeries true [ds_q 2; ds_q 3; ds_q 5; ds_q 7]) [] false None.
Definition ds_tc_f : tcomp :=
  TC "f" (CVar (NStr "f") None) KCategoric (PStrs None [Some "b"; Some "a"; Some "b"; Some "c"]) [] false None.
Definition ds_tc_h : tcomp :=
  TC "h" (CVar (NStr "h") None) KCategoric
     (PBox false [Some "u"; Some "w"; Some "v"; Some "w"] (Some (Sum None)) None) [] false None.
Definition ds_tc_k : tcomp :=
  TC "k" (CVar (NStr "k") None) KCategoric
     (PBox false [Some "u"; Some "w"; Some "v"; Some "w"] (Some (Sum (Some "u"))) None) [] false None.

Lemma ds_example_coded : Forall coded_comp [ds_tc_h; ds_tc_x; ds_tc_f; ds_tc_k].
Proof.
  apply Forall_cons; [|apply Forall_cons; [|apply Forall_cons; [|apply Forall_cons; [|apply Forall_nil]]]].
  - right. repeat split; [discriminate|]. right. exists None. split; [reflexivity|]. intros _. discriminate.
  - left. split; [reflexivity|]. do 2 eexists; reflexivity.
  - right. repeat split; [discriminate|]. left. exists None. reflexivity.
  - right. repeat split; [discriminate|]. right. exists (Some "u"). split; [reflexivity|]. discriminate.
Qed.

(* h is coded in full (mean, u, v; w omitted), f reduced (b, c), k reduced with u omitted (v, w) *)
Example coded_term_pieces :
  comp_pieces ds_tc_h true = [PcMean ["u"; "v"; "w"]; PcContrast "w" "u"; PcContrast "w" "v"] /\
  comp_pieces ds_tc_x false = [PcNumeric] /\
  comp_pieces ds_tc_f false = [PcIndicator "b"; PcIndicator "c"] /\
  comp_pieces ds_tc_k false = [PcContrast "u" "v"; PcContrast "u" "w"].
Proof. repeat split; vm_compute; reflexivity. Qed.

Example coded_term_instance :
  exists dt,
    set_data_term 4 (TTTerm "h:x:f:k" [ds_tc_h; ds_tc_x; ds_tc_f; ds_tc_k]) (SpDict [("h", true)]) = Ok dt /\
    dt_labels dt
    = Some ["h[mean]:x:f[b]:k[v]"; "h[mean]:x:f[b]:k[w]"; "h[mean]:x:f[c]:k[v]"; "h[mean]:x:f[c]:k[w]";
            "h[u]:x:f[b]:k[v]"; "h[u]:x:f[b]:k[w]"; "h[u]:x:f[c]:k[v]"; "h[u]:x:f[c]:k[w]";
            "h[v]:x:f[b]:k[v]"; "h[v]:x:f[b]:k[w]"; "h[v]:x:f[c]:k[v]"; "h[v]:x:f[c]:k[w]"] /\
    map (map cshow) (dt_rows dt)
    = [["-2"; "-2"; "0"; "0"; "-2"; "-2"; "0"; "0"; "0"; "0"; "0"; "0"];
       ["0"; "0"; "0"; "0"; "0"; "0"; "0"; "0"; "0"; "0"; "0"; "0"];
       ["5"; "0"; "0"; "0"; "0"; "0"; "0"; "0"; "5"; "0"; "0"; "0"];
       ["0"; "0"; "0"; "7"; "0"; "0"; "0"; "-7"; "0"; "0"; "0"; "-7"]].
Proof. eexists. split; [vm_compute; reflexivity|]. split; vm_compute; reflexivity. Qed.

(* the closed form applied: row 3 (h = w, x = 7, f = c, k = w), pieces h[u], x, f[c], k[w]:
   column ((1 * 1 + 0) * 2 + 1) * 2 + 1 = 7 holds (-1) * 7 * 1 * 1 *)
Example coded_term_entry_instance :
  exists dt labs,
    set_data_term 4 (TTTerm "h:x:f:k" [ds_tc_h; ds_tc_x; ds_tc_f; ds_tc_k]) (SpDict [("h", true)]) = Ok dt /\
    dt_labels dt = Some labs /\
    nth_error labs 7 = Some "h[u]:x:f[c]:k[w]" /\
    nth_error (nth 3 (dt_rows dt) []) 7
    = Some (cmul (cmul (cmul (osumc "w" (Some "w") "u") (ds_q 7)) (oind (Some "c") "c")) (osumc "u" (Some "w") "w")) /\
    cmul (cmul (cmul (osumc "w" (Some "w") "u") (ds_q 7)) (oind (Some "c") "c")) (osumc "u" (Some "w") "w")
    = ds_q (-7).
Proof.
  destruct coded_term_instance as (dt & Hdt & _).
  destruct (set_data_term_coded_entry 4 "h:x:f:k" ds_tc_h [ds_tc_x; ds_tc_f; ds_tc_k] (SpDict [("h", true)]) dt 3
              1 [0; 1; 1] (PcContrast "w" "u") [PcNumeric; PcIndicator "c"; PcContrast "u" "w"]
              ds_example_coded Hdt)
    as (labs & Hlabs & Hl & Hv).
  - repeat constructor.
  - reflexivity.
  - repeat constructor.
  - reflexivity.
  - exists dt, labs. split; [assumption|]. split; [assumption|]. split; [exact Hl|]. split; [exact Hv|].
    vm_compute. reflexivity.
Qed.

Print Assumptions sum_code_row.
Print Assumptions set_data_comp_sum.
Print Assumptions set_data_comp_sum_lrow.
Print Assumptions set_data_comp_sum_wf.
Print Assumptions coded_comp_wf.
Print Assumptions set_data_term_coded_lrow.
Print Assumptions coded_comp_lrow.
Print Assumptions set_data_term_coded_denote.
Print Assumptions set_data_term_coded_entry.
Print Assumptions set_data_term_coded_entry_onto.
