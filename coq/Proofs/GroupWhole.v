(* C04 for the WHOLE group-specific matrix of a design:

     "a group-specific label  e|g[l]  denotes the column e on the rows of group l and 0 elsewhere;
      labels and columns are in the same order and equal in number".

   Proofs/DesignWhole.v does this for the common matrix ([design_columns], [common_labels],
   [common_matrix], [denote_slabel]).  Here the same for [group_matrix ds] (PredictionGroups.v: the
   blocks [dg_rows] of the group-specific terms side by side, in term order) and [group_labels ds]
   (DesignWhole.v: the concatenation of the terms' labels).

   A column of the group-specific matrix gets a structured label [glabel] = (effect, group cell):
   two structured labels of DesignWhole.v; the effect is a column of the effect term ([] for the
   intercept, printed "1"), the group cell is a column of the grouping factor coded in full (one
   (component, piece) pair per component of the factor).  It prints as  effect|cell  and denotes,
   on observation i, (what the effect denotes on i) * (what the cell denotes on i).

   1. [eval_model_group_whole], [design_matrices_group_whole]: labels = map print columns, one row
      per observation, row i = map (denote . i) columns; hence [design_matrices_group_column]
      (column j IS the denotation of label j) and [design_matrices_group_label_count].
   2. Column order ([gterm_columns_nth], [group_columns_app]): terms in order; within a term the
      group cell varies slowest, the effect column fastest.
   3. Row alignment ([design_matrices_row_aligned]): response, common matrix and group matrix all
      have [ds_nrows] rows, for every accepted design and every na_action (no support hypothesis).
   4. The cell of a Treatment-coded grouping factor is an indicator ([cell_indicator]), so the entry
      is the effect value on the rows of the cell and [nanzero] of it elsewhere
      ([denote_glabel_cell]): 0, except that NaN stays NaN (NaN * 0 = NaN, [cmul]).  Without NaN in
      the effect: exactly 0 ([denote_glabel_cell_clean]).  [group_zero_elsewhere_refuted]: under
      na_action="pass" the reading "0 elsewhere" is false.
   5. [group_design_supported]: the support hypothesis read off the values of the components.
   6. Examples by vm_compute on  y ~ x + (x|g) + (0 + f|g:h);  [group_width_no_rows_refuted]: a design
      whose observations were all dropped has labels but a matrix of width 0. *)
From Verif Require Import Base Tokens Lazy Algebra Coding Contrasts Frame Eval Design Driver.
From Verif Require Import DesignStructure DesignCoding DesignSum FrameStructure HelpersProofs.
From Verif Require Import Prediction PredictionGroups Containers CodingOptions ResponseProofs DesignMatrixComp.
From Verif Require Import DesignWhole.
From Coq Require Import Lia.
Local Close Scope Qc_scope.
Local Close Scope Q_scope.
Local Open Scope string_scope.
Local Open Scope list_scope.
Local Open Scope nat_scope.

(* ------------------------------------------------------------------------------------------ *)
(** * 1. Structured labels of the group-specific columns *)

(* (effect column, group cell) *)
Definition glabel := (slabel * slabel)%type.

(* the effect part: the intercept is printed "1" (not "Intercept") *)
Definition print_effect (e : slabel) : string :=
  match e with [] => "1" | _ => print_slabel e end.

(* e|g[l], e|g[l]:h[m] *)
Definition print_glabel (gl : glabel) : string :=
  (print_effect (fst gl) ++ "|" ++ print_slabel (snd gl))%string.

(** THE denotation: on observation i the column holds what the effect denotes there times what the
    group cell denotes there (for a Treatment-coded grouping factor: 1 if the observation is in
    the cell, 0 otherwise, see [cell_indicator]). *)
Definition denote_glabel (gl : glabel) (i : nat) : cell :=
  cmul (denote_slabel (fst gl) i) (denote_slabel (snd gl) i).

Definition gdenote (n : nat) (gl : glabel) : list cell := map (denote_glabel gl) (seq 0 n).

(* the columns of a list of components multiplied together, left factor slowest *)
Definition comps_columns (ds : list dcomp) : list slabel :=
  match ds with
  | [] => [[]]
  | d0 :: rest => fold_left step_cols rest (map (fun cp => [cp]) (comp_cols d0))
  end.

Lemma dterm_columns_comps t : dterm_columns t = comps_columns (dt_comps t).
Proof. reflexivity. Qed.

(* the cells of the grouping factor of a term *)
Definition gcell_columns (g : dgterm) : list slabel :=
  match dg_factor g with [] => [] | fs => comps_columns fs end.

(* the columns of a group-specific term: the cell varies slowest, the effect column fastest *)
Definition gterm_columns (g : dgterm) : list glabel :=
  flat_map (fun gc => map (fun e => (e, gc)) (dterm_columns (dg_expr g))) (gcell_columns g).

(* the columns of the group-specific matrix: the terms in order *)
Definition group_columns (ds : design) : list glabel := flat_map gterm_columns (ds_group ds).

(* ------------------------------------------------------------------------------------------ *)
(** * 2. A product of coded components (no [set_data_term] involved: the grouping factor is not a
      term of the model, and [set_data_term] could refuse it) *)

Lemma cmul_comm a b : cmul a b = cmul b a.
Proof. destruct a as [x|], b as [y|]; simpl; try reflexivity. f_equal. apply Qcmult_comm. Qed.

Lemma fold_step_cols_nonnil rest : forall acc, Forall nonnil acc -> Forall nonnil (fold_left step_cols rest acc).
Proof.
  induction rest as [|d rest IH]; intros acc H; cbn [fold_left]; [exact H|]. apply IH, step_cols_nonnil.
Qed.

Lemma comps_columns_nonnil ds : ds <> [] -> Forall nonnil (comps_columns ds).
Proof.
  destruct ds as [|d0 rest]; [congruence|]. intros _. cbn [comps_columns]. apply fold_step_cols_nonnil.
  apply Forall_map, Forall_forall. intros cp _. discriminate.
Qed.

(* what each built component is, in terms of its own columns *)
Lemma built_comps_cols n (sp : tcomp -> bool) cs ds :
  Forall coded_comp' cs ->
  Forall2 (fun c d => set_data_comp c (sp c) n = Ok d) cs ds ->
  Forall (fun d => dc_labels d = Some (map plab (comp_cols d)) /\ dcomp_wf d) ds.
Proof.
  intros Hc H. induction H as [|c d cs ds Hd _ IH]; constructor.
  - destruct (set_data_comp_spans _ _ _ _ Hd) as [Hs Ht]. split.
    + rewrite (coded_comp'_labels c _ n d (Forall_inv Hc) Hd). unfold comp_cols.
      rewrite Ht, Hs, map_map. reflexivity.
    + eapply coded_comp'_wf; [exact (Forall_inv Hc)|exact Hd].
  - apply IH. exact (Forall_inv_tail Hc).
Qed.

(** The labels of a product of coded components are the printed structured labels. *)
Lemma comps_labels_spec n (sp : tcomp -> bool) cs ds :
  Forall coded_comp' cs ->
  Forall2 (fun c d => set_data_comp c (sp c) n = Ok d) cs ds -> ds <> [] ->
  label_product (map dc_labs ds) ":" = map print_slabel (comps_columns ds).
Proof.
  intros Hc H Hne. pose proof (built_comps_cols n sp cs ds Hc H) as Hl.
  destruct ds as [|d0 rest]; [congruence|]. cbn [comps_columns map].
  rewrite label_product_cons.
  rewrite fold_step_cols_labels by (apply Forall_map, Forall_forall; intros; discriminate).
  f_equal.
  - pose proof (Forall_inv_tail Hl) as Hr. clear -Hr.
    induction Hr as [|d ds [Hd _] _ IH]; cbn [map]; [reflexivity|]. rewrite IH. f_equal.
    unfold dc_labs. rewrite Hd. reflexivity.
  - rewrite map_map. unfold dc_labs. rewrite (proj1 (Forall_inv Hl)). apply map_ext. intros cp. reflexivity.
Qed.

(** Row i of a product of coded components holds the denotations of the structured labels. *)
Lemma comps_rows_spec n (sp : tcomp -> bool) cs ds i :
  Forall coded_comp' cs ->
  Forall2 (fun c d => set_data_comp c (sp c) n = Ok d) cs ds -> ds <> [] ->
  Forall (fun c => i < comp_nrows' n c) cs ->
  nth i (factor_rows ds) [] = map (fun l => denote_slabel l i) (comps_columns ds).
Proof.
  intros Hc H Hne Hi. pose proof (built_comps_cols n sp cs ds Hc H) as Hl.
  assert (Hall : Forall (fun d => i < List.length (dc_rows d) /\
                                  comp_lrow i d = map (lfac i) (comp_cols d)) ds).
  { clear Hl Hne. induction H as [|c d cs ds Hd _ IH]; constructor.
    - destruct (set_data_comp_spans _ _ _ _ Hd) as [Hs Ht]. split.
      + rewrite (coded_comp'_nrows c _ n d (Forall_inv Hc) Hd). exact (Forall_inv Hi).
      + rewrite (coded_comp'_lrow c _ n d i (Forall_inv Hc) Hd (Forall_inv Hi)).
        unfold comp_cols. rewrite Ht, Hs, map_map. reflexivity.
    - apply IH; [exact (Forall_inv_tail Hc)|exact (Forall_inv_tail Hi)]. }
  destruct ds as [|d0 rest]; [congruence|]. clear Hne.
  assert (Hlen : forall d, In d (d0 :: rest) -> List.length (dc_labs d) = List.length (nth i (dc_rows d) [])).
  { intros d Hin. rewrite Forall_forall in Hl, Hall. apply dcomp_wf_row; [exact (proj2 (Hl d Hin))|exact (proj1 (Hall d Hin))]. }
  assert (H0 : List.length (dc_labs d0) = List.length (nth i (dc_rows d0) [])) by (apply Hlen; left; reflexivity).
  assert (Hr : Forall2 (fun l x => List.length l = List.length x)
                       (map dc_labs rest) (map (fun d => nth i (dc_rows d) []) rest)).
  { assert (Hin : Forall (fun d => List.length (dc_labs d) = List.length (nth i (dc_rows d) [])) rest).
    { apply Forall_forall. intros d Hd. apply Hlen. right; exact Hd. }
    clear -Hin. induction Hin as [|d l Hd _ IH]; cbn [map]; constructor; assumption. }
  cbn [factor_rows]. rewrite (fold_rows_kron_nth (map dc_rows rest) (dc_rows d0) i), map_map.
  pose proof (combine_kron_fold ":" _ _ _ _ H0 Hr) as E. rewrite zip_with_map in E.
  pose proof (label_product_length_fold ":" _ _ _ _ H0 Hr) as L.
  assert (E' : combine (label_product (dc_labs d0 :: map dc_labs rest) ":")
                       (fold_left row_kron (map (fun d => nth i (dc_rows d) []) rest) (nth i (dc_rows d0) []))
               = map (lcol i) (comps_columns (d0 :: rest))).
  { rewrite E. cbn [comps_columns].
    rewrite fold_step_cols by (apply Forall_map, Forall_forall; intros; discriminate).
    change (combine (dc_labs d0) (nth i (dc_rows d0) [])) with (comp_lrow i d0).
    rewrite (proj2 (Forall_inv Hall)). rewrite (map_map (fun cp => [cp]) (lcol i)).
    f_equal. pose proof (Forall_inv_tail Hall) as Hrest. clear -Hrest.
    induction Hrest as [|d ds [_ Hd] _ IH]; cbn [map]; [reflexivity|]. rewrite <- IH. f_equal.
    exact Hd. }
  destruct (combine_eq_map _ _ _ _ L E') as [_ E3]. exact E3.
Qed.

(* ------------------------------------------------------------------------------------------ *)
(** * 3. One group-specific term *)

Lemma row_kron_maps {A B} (f : A -> cell) (g : B -> cell) xs ys :
  row_kron (map f xs) (map g ys)
  = map (fun p => cmul (g (fst p)) (f (snd p))) (flat_map (fun x => map (fun y => (y, x)) ys) xs).
Proof.
  unfold row_kron. induction xs as [|x xs IH]; [reflexivity|]. cbn [map flat_map].
  rewrite map_app, IH. f_equal. rewrite !map_map. apply map_ext. intros y. apply cmul_comm.
Qed.

Lemma glabels_maps (ecols fcols : list slabel) :
  flat_map (fun gr => map (fun lv => (lv ++ "|" ++ gr)%string) (map print_effect ecols)) (map print_slabel fcols)
  = map print_glabel (flat_map (fun gc => map (fun e => (e, gc)) ecols) fcols).
Proof.
  induction fcols as [|gc fcols IH]; [reflexivity|]. cbn [map flat_map]. rewrite map_app, IH. f_equal.
  rewrite !map_map. reflexivity.
Qed.

Lemma print_effect_nonnil ls : Forall nonnil ls -> map print_effect ls = map print_slabel ls.
Proof.
  induction 1 as [|l ls Hl _ IH]; [reflexivity|]. cbn [map]. rewrite IH. f_equal.
  destruct l; [exfalso; apply Hl; reflexivity|reflexivity].
Qed.

(* what [eval_model] builds for a group-specific term: an effect typed on the frame, a non-empty
   grouping factor whose components are typed on the frame and then forced to be categoric *)
Definition dgterm_made (cx : dctx) (D : frame) (n : nat) (dg : dgterm) : Prop :=
  exists tg flag,
    tterm_all (typed_on cx D) (tg_expr tg) /\ tterm_named (tg_expr tg) /\
    Forall (fun c => exists c0, typed_on cx D c0 /\ c = force_categoric c0) (tg_factor tg) /\
    tg_factor tg <> [] /\
    set_data_gterm n tg flag = Ok dg.

(* the components of the effect and of the grouping factor are coded ones; a component of the
   grouping factor is categoric, hence a Treatment- or Sum-coded factor ([factor_comp_coded]) *)
Definition supported_gterm (g : dgterm) : Prop :=
  Forall (fun d => coded_comp' (dc_t d)) (dt_comps (dg_expr g)) /\
  Forall (fun d => coded_comp' (dc_t d)) (dg_factor g).

Definition supported_group_design (ds : design) : Prop := Forall supported_gterm (ds_group ds).

Lemma factor_comp_coded t :
  tc_kind t = KCategoric -> coded_comp' t ->
  tc_response t = false /\ (forall l, declared_levels t = Some l -> NoDup l) /\
  ((exists ref, comp_encoding t = Treatment ref) \/
   (exists omit, comp_encoding t = Sum omit /\ (omit = None -> comp_levels t <> []))).
Proof.
  intros Hk [[(Hk' & _)|(_ & H)]|[(Hk' & _)|(Hk' & _)]]; first [exact H|congruence].
Qed.

Theorem dgterm_made_columns cx D n dg :
  rect n D -> extras_shape n cx -> dgterm_made cx D n dg -> supported_gterm dg ->
  dg_labels dg = map print_glabel (gterm_columns dg) /\
  List.length (dg_rows dg) = n /\
  forall i, i < n -> nth i (dg_rows dg) [] = map (fun gl => denote_glabel gl i) (gterm_columns dg).
Proof.
  intros HD Hex (tg & flag & Hty & Hnm & Hfty & Hfne & H) [Hse Hsf].
  destruct (set_data_gterm_inv _ _ _ _ H) as (He & Hfs & _ & Hrows & levels & Hlev & Hlabs).
  (* shapes *)
  assert (She : tterm_all (fun c => vshape n (tc_value c)) (tg_expr tg)).
  { destruct (tg_expr tg) as [|name cs]; [exact I|]. simpl in *. eapply Forall_impl; [|exact Hty].
    intros c (src & Hc). eapply set_type_comp_shape; eassumption. }
  assert (Shf : Forall (fun c => vshape n (tc_value c)) (tg_factor tg)).
  { eapply Forall_impl; [|exact Hfty]. intros c (c0 & (src & Hc) & ->). cbn [force_categoric tc_value].
    eapply set_type_comp_shape; eassumption. }
  destruct (set_data_gterm_shape n tg flag dg She Shf Hfne H) as (L & _).
  (* the effect *)
  assert (Hmade : dterm_made cx D n (dg_expr dg)).
  { exists (tg_expr tg), (SpBool flag). split; [exact Hty|]. split; [exact Hnm|exact He]. }
  destruct (dterm_made_columns cx D n (dg_expr dg) HD Hex Hmade Hse) as (El & _ & Re).
  assert (Elev : levels = map print_effect (dterm_columns (dg_expr dg))).
  { destruct (tg_expr tg) as [|name cs] eqn:Ee.
    - simpl in He. injection He as He. rewrite <- He in *. cbn [dt_kind dt_labels] in Hlev.
      rewrite String.eqb_refl in Hlev. injection Hlev as <-. reflexivity.
    - destruct (set_data_term_inv _ _ _ _ _ He) as (d0 & rest & _ & Hc & _ & Hk).
      rewrite Hk, El in Hlev. injection Hlev as <-.
      assert (Hnn : Forall nonnil (dterm_columns (dg_expr dg))).
      { rewrite dterm_columns_comps. apply comps_columns_nonnil. rewrite Hc. discriminate. }
      symmetry. apply print_effect_nonnil. exact Hnn. }
  (* the grouping factor *)
  pose proof (mapM_ok _ _ _ Hfs) as Hf2.
  assert (Hfc : Forall coded_comp' (tg_factor tg)).
  { clear -Hf2 Hsf. induction Hf2 as [|c d cs ds Hd _ IH]; constructor.
    - destruct (set_data_comp_spans _ _ _ _ Hd) as [_ Ht]. rewrite <- Ht. exact (Forall_inv Hsf).
    - apply IH. exact (Forall_inv_tail Hsf). }
  assert (Hfn : Forall (fun c => comp_nrows' n c = n) (tg_factor tg)).
  { clear -Hf2 Hfc Shf. induction Hf2 as [|c d cs ds Hd _ IH]; constructor.
    - rewrite <- (coded_comp'_nrows c _ n d (Forall_inv Hfc) Hd).
      apply (set_data_comp_rows n c _ d (Forall_inv Shf) Hd).
    - apply IH; [exact (Forall_inv_tail Shf)|exact (Forall_inv_tail Hfc)]. }
  assert (Hdne : dg_factor dg <> []).
  { intros E. rewrite E in Hf2. inversion Hf2 as [E1 E2|]. congruence. }
  assert (Ecell : gcell_columns dg = comps_columns (dg_factor dg)).
  { unfold gcell_columns. destruct (dg_factor dg); [congruence|reflexivity]. }
  pose proof (comps_labels_spec n (fun _ => true) _ _ Hfc Hf2 Hdne) as Fl.
  split; [|split; [exact L|]].
  - rewrite Hlabs, Fl, Elev. unfold gterm_columns. rewrite Ecell. apply glabels_maps.
  - intros i Hi. rewrite Hrows, rows_kron_nth, (Re i Hi).
    rewrite (comps_rows_spec n (fun _ => true) _ _ i Hfc Hf2 Hdne).
    + unfold gterm_columns. rewrite Ecell.
      exact (row_kron_maps (fun l => denote_slabel l i) (fun l => denote_slabel l i) _ _).
    + eapply Forall_impl; [|exact Hfn]. cbn beta. intros c ->. exact Hi.
Qed.

(* ------------------------------------------------------------------------------------------ *)
(** * 4. What [eval_model] builds: every group-specific term comes from [set_data_gterm] *)

Lemma eval_model_group_made cx D m ds :
  groups_nonempty m -> eval_model cx D m = Ok ds ->
  Forall (dgterm_made cx D (frame_rows D)) (ds_group ds).
Proof.
  intros Hg H. unfold eval_model in H. set (n := frame_rows D) in *.
  apply bind_ok in H as (tcs & _ & H). apply bind_ok in H as (tgs & Htgs & H).
  apply bind_ok in H as (enc1 & _ & H). apply bind_ok in H as (tcs2 & _ & H).
  apply bind_ok in H as (enc2 & _ & H). apply bind_ok in H as (dcs & _ & H).
  apply bind_ok in H as (dgs & Hdgs & H). apply bind_ok in H as (r & _ & H). injection H as <-.
  cbn [ds_group]. apply fold_dict_set_all.
  apply mapM_ok in Hdgs. apply mapM_ok in Htgs.
  pose proof (Forall2_combine_flip _ _ _ Htgs) as Hty.
  apply (Forall2_Forall_r _ _ _ _ Hdgs). intros [tg g] dg Hin Hd.
  rewrite Forall_forall in Hty. specialize (Hty _ Hin). apply in_combine_r in Hin.
  cbn [fst snd] in *. unfold set_type_gterm in Hty.
  destruct (gfactor g) as [| |f] eqn:Ef; try discriminate Hty.
  apply bind_ok in Hty as (fs & Hfs & Hty). apply bind_ok in Hty as (e & He & Hty).
  apply bind_ok in Hty as (nm & _ & Hty). injection Hty as <-.
  pose proof (Hg g f Hin Ef) as Hne.
  eexists _, _. split; [|split; [|split; [|split; [|exact Hd]]]]; cbn [tg_expr tg_factor].
  - destruct (gexpr g) as [| |t]; [injection He as <-; exact I|discriminate He|].
    eapply set_type_term_typed. exact He.
  - destruct (gexpr g) as [| |t]; [injection He as <-; exact I|discriminate He|].
    eapply set_type_term_named. exact He.
  - apply Forall_map. apply mapM_ok in Hfs. clear -Hfs.
    induction Hfs as [|c tc cs tcs' Hc _ IH]; constructor; [|exact IH].
    exists tc. split; [exists c; exact Hc|reflexivity].
  - apply mapM_length in Hfs. intros E. apply map_eq_nil in E. subst fs.
    destruct f; [congruence|discriminate Hfs].
Qed.

(* ------------------------------------------------------------------------------------------ *)
(** * 5. The whole group-specific matrix *)

Lemma hstack_blocks_rows {T G} n (gs : list G) (rows : G -> list (list cell)) (cols : G -> list T)
      (den : T -> nat -> cell) :
  Forall (fun g => List.length (rows g) = n /\
                   forall i, i < n -> nth i (rows g) [] = map (fun l => den l i) (cols g)) gs ->
  List.length (hstack (map rows gs) n) = n /\
  forall i, i < n -> nth i (hstack (map rows gs) n) [] = map (fun l => den l i) (flat_map cols gs).
Proof.
  intros H. split.
  - apply hstack_length. apply Forall_map. eapply Forall_impl; [|exact H]. intros t [L _]. exact L.
  - intros i Hi. rewrite hstack_nth.
    + induction H as [|t ts [_ Ht] _ IH]; [reflexivity|]. cbn [map flat_map List.concat].
      rewrite map_app, IH, (Ht i Hi). reflexivity.
    + exact Hi.
    + apply Forall_map. eapply Forall_impl; [|exact H]. intros t [L _]. cbn beta. lia.
Qed.

(** THE WHOLE GROUP-SPECIFIC MATRIX.  For a design [eval_model] builds on a rectangular frame: the
    flattened label list is the list of the printed structured labels, the matrix has one row per
    observation, and row i is the list of the denotations of the structured labels on observation
    i -- same order, same number. *)
Theorem eval_model_group_whole cx D m ds :
  frame_wf D -> extras_shape (frame_rows D) cx -> groups_nonempty m ->
  eval_model cx D m = Ok ds -> supported_group_design ds ->
  group_labels ds = map print_glabel (group_columns ds) /\
  List.length (group_matrix ds) = ds_nrows ds /\
  forall i, i < ds_nrows ds ->
    nth i (group_matrix ds) [] = map (fun gl => denote_glabel gl i) (group_columns ds).
Proof.
  intros HD Hex Hg H Hsup. pose proof (eval_model_nrows _ _ _ _ H) as N.
  pose proof (eval_model_group_made _ _ _ _ Hg H) as Hmade. unfold frame_wf in HD.
  set (n := frame_rows D) in *.
  assert (Hall : Forall (fun g => dg_labels g = map print_glabel (gterm_columns g) /\
                                  List.length (dg_rows g) = n /\
                                  forall i, i < n -> nth i (dg_rows g) []
                                                     = map (fun gl => denote_glabel gl i) (gterm_columns g))
                        (ds_group ds)).
  { unfold supported_group_design in Hsup. rewrite Forall_forall in *. intros g Hin.
    apply (dgterm_made_columns cx D n g HD Hex (Hmade g Hin) (Hsup g Hin)). }
  split.
  - unfold group_labels, group_columns. clear -Hall.
    induction Hall as [|t ts (Hl & _) _ IH]; [reflexivity|]. cbn [flat_map]. rewrite map_app, <- IH.
    f_equal. exact Hl.
  - unfold group_matrix, group_columns. rewrite N.
    apply (hstack_blocks_rows n (ds_group ds) dg_rows gterm_columns denote_glabel).
    eapply Forall_impl; [|exact Hall]. intros t (_ & L & R). split; assumption.
Qed.

(* column j of the matrix is the denotation of structured label j *)
Lemma gmatrix_column_denote j rows n (cols : list glabel) gl :
  List.length rows = n ->
  (forall i, i < n -> nth i rows [] = map (fun l => denote_glabel l i) cols) ->
  nth_error cols j = Some gl ->
  matrix_column j rows = gdenote n gl.
Proof.
  intros L Hr Hj. unfold matrix_column, gdenote. rewrite <- (map_nth_seq rows []) at 1. rewrite L, map_map.
  apply map_ext_in. intros i Hi. apply in_seq in Hi. rewrite (Hr i) by lia.
  apply nth_error_nth. rewrite (map_nth_error _ _ _ Hj). reflexivity.
Qed.

(** ** Through [design_matrices]: the frame is the retained rows of the used columns *)

Theorem design_matrices_group_whole cx e data na ds :
  frame_wf data -> scalar_extras cx -> design_matrices cx e data na = Ok ds -> supported_group_design ds ->
  group_labels ds = map print_glabel (group_columns ds) /\
  List.length (group_matrix ds) = ds_nrows ds /\
  forall i, i < ds_nrows ds ->
    nth i (group_matrix ds) [] = map (fun gl => denote_glabel gl i) (group_columns ds).
Proof.
  intros Hwf Hex H Hsup. destruct (design_matrices_eval _ _ _ _ _ H) as (m & d & Hm & Hd & He).
  destruct (prepare_data_wf _ _ _ _ Hwf Hd) as [W _].
  apply (eval_model_group_whole cx (model_frame data d) m ds W (scalar_extras_shape _ _ Hex)
           (describe_groups_nonempty _ _ Hm) He Hsup).
Qed.

(** Column by column: column j carries the printed form of structured label j and IS its
    denotation. *)
Corollary design_matrices_group_column cx e data na ds j gl :
  frame_wf data -> scalar_extras cx -> design_matrices cx e data na = Ok ds -> supported_group_design ds ->
  nth_error (group_columns ds) j = Some gl ->
  nth_error (group_labels ds) j = Some (print_glabel gl) /\
  matrix_column j (group_matrix ds) = gdenote (ds_nrows ds) gl.
Proof.
  intros Hwf Hex H Hsup Hj. destruct (design_matrices_group_whole cx e data na ds Hwf Hex H Hsup) as (Hl & L & Hr).
  split.
  - rewrite Hl. apply map_nth_error. exact Hj.
  - eapply gmatrix_column_denote; eassumption.
Qed.

(** Labels and columns are equal in number: on every row, and as the width of the matrix. *)
Corollary design_matrices_group_label_count cx e data na ds :
  frame_wf data -> scalar_extras cx -> design_matrices cx e data na = Ok ds -> supported_group_design ds ->
  List.length (group_labels ds) = List.length (group_columns ds) /\
  (forall i, i < ds_nrows ds -> List.length (group_labels ds) = List.length (nth i (group_matrix ds) [])) /\
  (ds_nrows ds <> 0 -> width (group_matrix ds) = List.length (group_labels ds)).
Proof.
  intros Hwf Hex H Hsup. destruct (design_matrices_group_whole cx e data na ds Hwf Hex H Hsup) as (Hl & L & Hr).
  assert (G : forall i, i < ds_nrows ds ->
                List.length (group_labels ds) = List.length (nth i (group_matrix ds) [])).
  { intros i Hi. rewrite Hl, (Hr i Hi), !map_length. reflexivity. }
  split; [rewrite Hl; apply map_length|]. split; [exact G|]. intros Hn. rewrite (G 0) by lia.
  destruct (group_matrix ds) as [|r rows]; [simpl in L; lia|reflexivity].
Qed.

(* ------------------------------------------------------------------------------------------ *)
(** * 6. Row alignment: response, common matrix and group-specific matrix *)

(** Every accepted design, every na_action, no support hypothesis: the three matrices have the
    same number of rows, [ds_nrows ds] = the number of rows the missing-value policy retains. *)
Theorem design_matrices_row_aligned cx e data na ds :
  frame_wf data -> scalar_extras cx -> design_matrices cx e data na = Ok ds ->
  List.length (group_matrix ds) = ds_nrows ds /\
  List.length (common_matrix ds) = ds_nrows ds /\
  (forall r, ds_response ds = Some r -> List.length (dt_rows r) = ds_nrows ds) /\
  Forall (fun g => List.length (dg_rows g) = ds_nrows ds) (ds_group ds) /\
  exists m, describe e = Ok m /\ ds_nrows ds = retained data m na.
Proof.
  intros Hwf Hex H. destruct (design_matrices_containers cx e data na ds Hwf Hex H) as (m & Hm & N & S).
  destruct (design_row_counts ds S) as (Hr & _ & Hg & Lc & Lg).
  split; [exact Lg|]. split; [exact Lc|]. split; [exact Hr|]. split; [exact Hg|]. exists m. auto.
Qed.

Corollary design_matrices_rows_equal cx e data na ds r :
  frame_wf data -> scalar_extras cx -> design_matrices cx e data na = Ok ds -> ds_response ds = Some r ->
  List.length (group_matrix ds) = List.length (common_matrix ds) /\
  List.length (common_matrix ds) = List.length (dt_rows r).
Proof.
  intros Hwf Hex H Hr. destruct (design_matrices_row_aligned cx e data na ds Hwf Hex H) as (A & B & C & _).
  rewrite A, B, (C r Hr). split; reflexivity.
Qed.

(* ------------------------------------------------------------------------------------------ *)
(** * 7. Column order *)

Lemma group_columns_app ds g gs : ds_group ds = g :: gs ->
  group_columns ds = gterm_columns g ++ flat_map gterm_columns gs.
Proof. intros E. unfold group_columns. rewrite E. reflexivity. Qed.

Lemma nth_error_flat_map_pair {A B} (ys : list B) y jy : forall (xs : list A) jx x,
  nth_error xs jx = Some x -> nth_error ys jy = Some y ->
  nth_error (flat_map (fun a => map (fun b => (b, a)) ys) xs) (jx * List.length ys + jy) = Some (y, x).
Proof.
  induction xs as [|a xs IH]; intros jx x Hx Hy; [destruct jx; discriminate Hx|].
  assert (Ly : jy < List.length ys) by (apply nth_error_Some; congruence).
  cbn [flat_map]. destruct jx as [|jx].
  - injection Hx as ->. rewrite nth_error_app1 by (rewrite map_length; exact Ly).
    cbn [Nat.mul Nat.add]. apply (map_nth_error (fun b => (b, x))). exact Hy.
  - rewrite nth_error_app2 by (rewrite map_length; simpl; lia). rewrite map_length.
    replace (S jx * List.length ys + jy - List.length ys) with (jx * List.length ys + jy) by (simpl; lia).
    apply IH; assumption.
Qed.

(** Within a term: the column of cell number jc and effect column number je sits at position
    jc * (number of effect columns) + je -- the cell varies slowest, the effect fastest. *)
Theorem gterm_columns_nth g jc je gc e :
  nth_error (gcell_columns g) jc = Some gc -> nth_error (dterm_columns (dg_expr g)) je = Some e ->
  nth_error (gterm_columns g) (jc * List.length (dterm_columns (dg_expr g)) + je) = Some (e, gc).
Proof. intros Hc He. unfold gterm_columns. apply nth_error_flat_map_pair; assumption. Qed.

Lemma gterm_columns_length g :
  List.length (gterm_columns g) = List.length (gcell_columns g) * List.length (dterm_columns (dg_expr g)).
Proof. unfold gterm_columns. apply length_flat_map_const. intros; apply map_length. Qed.

(* ------------------------------------------------------------------------------------------ *)
(** * 8. The components of a built group-specific term *)

Lemma dgterm_made_comps cx D n dg :
  dgterm_made cx D n dg ->
  Forall (fun d => typed_on cx D (dc_t d) /\ set_data_comp (dc_t d) (dc_spans d) n = Ok d)
         (dt_comps (dg_expr dg)) /\
  Forall (fun d => (exists c0, typed_on cx D c0 /\ dc_t d = force_categoric c0) /\
                   dc_spans d = true /\ set_data_comp (dc_t d) true n = Ok d)
         (dg_factor dg).
Proof.
  intros (tg & flag & Hty & _ & Hfty & _ & H).
  destruct (set_data_gterm_inv _ _ _ _ H) as (He & Hfs & _). split.
  - destruct (tg_expr tg) as [|name cs].
    + simpl in He. injection He as He. rewrite <- He. constructor.
    + pose proof (set_data_term_comps_t _ _ _ _ _ He) as Hds. simpl in Hty. clear He.
      induction Hds as [|c d cs' ds' (Hd & Ht & Hs) _ IH]; constructor.
      * rewrite Ht, Hs. split; [exact (Forall_inv Hty)|exact Hd].
      * apply IH. exact (Forall_inv_tail Hty).
  - apply mapM_ok in Hfs. clear -Hfs Hfty.
    induction Hfs as [|c d cs ds Hd _ IH]; constructor.
    + destruct (set_data_comp_spans _ _ _ _ Hd) as [Hs Ht]. rewrite Ht.
      split; [exact (Forall_inv Hfty)|]. split; [exact Hs|exact Hd].
    + apply IH. exact (Forall_inv_tail Hfty).
Qed.

(** ** The support hypothesis, from the values of the components *)

(* a component of a grouping factor: typed on the frame, forced to be categoric, coded in full *)
Lemma built_factor_supported cx D n c0 d :
  typed_on cx D c0 -> set_data_comp (force_categoric c0) true n = Ok d ->
  value_ok (force_categoric c0) -> coded_comp' (force_categoric c0).
Proof.
  intros (c & Hc) Hd Hv. set (t := force_categoric c0) in *.
  assert (Hk : tc_kind t = KCategoric) by reflexivity.
  assert (Hr : tc_response t = false) by (apply (set_type_comp_response _ _ _ _ _ Hc)).
  left. right. split; [exact Hk|]. split; [exact Hr|]. unfold value_ok in Hv. split.
  - intros l Hl. unfold declared_levels in Hl.
    destruct (tc_value t) as [isint xs|rows|o xs|? ?|?|?| |?|?|?|num bd enc lv|? ?|? ? ?] eqn:Ev;
      try discriminate Hl.
    + subst o. exact Hv.
    + subst lv. pose proof (set_data_comp_box_levels_NoDup t true n d num bd enc (Some l) Hk Ev Hd) as Hn.
      rewrite (box_component_levels t true n d num bd enc (Some l) Hk Ev Hd) in Hn. exact Hn.
  - unfold comp_encoding.
    destruct (tc_value t) as [isint xs|rows|o xs|? ?|?|?| |?|?|?|num bd enc lv|? ?|? ? ?] eqn:Ev;
      try (left; eexists; reflexivity).
    destruct enc as [[ref|omit]|]; [left; eexists; reflexivity| |left; eexists; reflexivity].
    right. exists omit. split; [reflexivity|]. intros ->. exact Hv.
Qed.

(** Every group-specific term [eval_model] builds on a rectangular frame is supported, the three
    corner cases of [value_ok] apart (a matrix-valued call without a column, an ordered Categorical
    whose declared categories repeat an entry, Sum coding without a single level). *)
Theorem group_design_supported cx D m ds :
  frame_wf D -> extras_shape (frame_rows D) cx -> groups_nonempty m -> eval_model cx D m = Ok ds ->
  Forall (fun d => value_ok (dc_t d)) (group_comps ds) -> supported_group_design ds.
Proof.
  intros HD Hex Hg H Hv. pose proof (eval_model_group_made _ _ _ _ Hg H) as Hmade.
  unfold supported_group_design. rewrite Forall_forall in *. intros g Hin.
  destruct (dgterm_made_comps _ _ _ _ (Hmade g Hin)) as [He Hf].
  assert (Hvg : forall d, In d (dt_comps (dg_expr g) ++ dg_factor g) -> value_ok (dc_t d)).
  { intros d Hd. apply Hv. unfold group_comps. apply in_flat_map. exists g. split; assumption. }
  split; apply Forall_forall; intros d Hd.
  - rewrite Forall_forall in He. destruct (He d Hd) as [Hty Hsd].
    apply (built_comp_supported cx D _ _ _ d HD Hex Hty Hsd). apply Hvg. apply in_or_app. left; exact Hd.
  - rewrite Forall_forall in Hf. destruct (Hf d Hd) as ((c0 & Hty & Ht) & _ & Hsd).
    rewrite Ht in *. apply (built_factor_supported cx D _ c0 d Hty Hsd). rewrite <- Ht.
    apply Hvg. apply in_or_app. right; exact Hd.
Qed.

Corollary design_matrices_group_supported cx e data na ds :
  frame_wf data -> scalar_extras cx -> design_matrices cx e data na = Ok ds ->
  Forall (fun d => value_ok (dc_t d)) (group_comps ds) -> supported_group_design ds.
Proof.
  intros Hwf Hex H Hv. destruct (design_matrices_eval _ _ _ _ _ H) as (m & d & Hm & Hd & He).
  destruct (prepare_data_wf _ _ _ _ Hwf Hd) as [W _].
  exact (group_design_supported cx _ m ds W (scalar_extras_shape _ _ Hex) (describe_groups_nonempty _ _ Hm) He Hv).
Qed.

(* ------------------------------------------------------------------------------------------ *)
(** * 9. The group cell as an indicator; the NaN convention *)

(* the value of a categoric component on observation i *)
Definition cat_value (t : tcomp) (i : nat) : option string :=
  match categoric_data (tc_value t) with Ok nd => nth i (snd nd) None | Err _ => None end.

Definition piece_level (p : piece') : option string :=
  match p with Old (PcIndicator l) => Some l | _ => None end.

(* a cell of a Treatment-coded (in full) grouping factor: one level per component *)
Definition indicator_cell (gc : slabel) : Prop :=
  Forall (fun cp => tc_kind (fst cp) = KCategoric /\ exists l, snd cp = Old (PcIndicator l)) gc.

(* observation i is in the cell: every component of the factor has the level of the cell there *)
Definition in_cell (gc : slabel) (i : nat) : bool :=
  forallb (fun cp => match cat_value (fst cp) i, piece_level (snd cp) with
                     | Some x, Some l => String.eqb x l
                     | _, _ => false
                     end) gc.

Definition bcell (b : bool) : cell := if b then zcell 1 else zcell 0.

Lemma pden_indicator i cp :
  tc_kind (fst cp) = KCategoric -> (exists l, snd cp = Old (PcIndicator l)) ->
  pden i cp = bcell (in_cell [cp] i).
Proof.
  destruct cp as [t p]. cbn [fst snd]. intros Hk (l & ->).
  unfold pden, in_cell. cbn [fst snd forallb piece_level].
  unfold comp_datum'. rewrite Hk. unfold comp_datum. rewrite Hk. cbn [denote_piece' denote_piece].
  unfold cat_value. destruct (categoric_data (tc_value t)) as [nd|]; [|reflexivity].
  destruct (nth i (snd nd) None) as [x|]; [|reflexivity]. cbn [oind]. unfold ind.
  rewrite andb_true_r. destruct (String.eqb x l); reflexivity.
Qed.

Lemma cmul_bcell a b : cmul (bcell a) (bcell b) = bcell (a && b).
Proof. destruct a; cbn [bcell andb]; [apply cmul_one|]. rewrite cmul_zero. destruct b; reflexivity. Qed.

Lemma fold_cmul_indicator i r : forall b,
  indicator_cell r -> fold_left cmul (map (pden i) r) (bcell b) = bcell (b && in_cell r i).
Proof.
  induction r as [|cp r IH]; intros b Hr; cbn [map fold_left].
  - cbn [in_cell forallb]. rewrite andb_true_r. reflexivity.
  - destruct (Forall_inv Hr) as [Hk Hl]. rewrite (pden_indicator i cp Hk Hl), cmul_bcell.
    rewrite (IH _ (Forall_inv_tail Hr)). f_equal. unfold in_cell. cbn [forallb].
    rewrite andb_true_r, andb_assoc. reflexivity.
Qed.

(** The cell of a Treatment-coded grouping factor denotes the indicator "observation i is in the
    cell": always 0 or 1, never NaN (a missing value of the factor is in no cell). *)
Theorem cell_indicator (gc : slabel) i :
  gc <> [] -> indicator_cell gc -> denote_slabel gc i = bcell (in_cell gc i).
Proof.
  destruct gc as [|cp r]; [congruence|]. intros _ H. cbn [denote_slabel].
  destruct (Forall_inv H) as [Hk Hl]. rewrite (pden_indicator i cp Hk Hl).
  rewrite (fold_cmul_indicator i r _ (Forall_inv_tail H)). f_equal. unfold in_cell. cbn [forallb].
  rewrite andb_true_r. reflexivity.
Qed.

(** THE LABEL  e|g[l]: on the rows of the cell the column holds the effect column e; elsewhere it
    holds e * 0, which is 0 -- except that NaN * 0 = NaN ([cmul], as numpy): [nanzero]. *)
Theorem denote_glabel_cell (gl : glabel) i :
  snd gl <> [] -> indicator_cell (snd gl) ->
  denote_glabel gl i = if in_cell (snd gl) i then denote_slabel (fst gl) i
                       else nanzero (denote_slabel (fst gl) i).
Proof.
  intros Hne H. unfold denote_glabel. rewrite (cell_indicator _ i Hne H), cmul_comm.
  destruct (in_cell (snd gl) i); cbn [bcell]; [apply cmul_one|apply cmul_zero].
Qed.

(** ... so with no NaN in the effect cell: the effect on the rows of the cell, 0 elsewhere. *)
Corollary denote_glabel_cell_clean (gl : glabel) i :
  snd gl <> [] -> indicator_cell (snd gl) -> denote_slabel (fst gl) i <> None ->
  denote_glabel gl i = if in_cell (snd gl) i then denote_slabel (fst gl) i else zcell 0.
Proof.
  intros Hne H Hc. rewrite (denote_glabel_cell gl i Hne H).
  destruct (in_cell (snd gl) i); [reflexivity|]. destruct (denote_slabel (fst gl) i); [reflexivity|congruence].
Qed.

(** ... and with NaN in the effect cell the entry is NaN in EVERY group block of that row. *)
Corollary denote_glabel_nan (gl : glabel) i :
  denote_slabel (fst gl) i = None -> denote_glabel gl i = None.
Proof. intros E. unfold denote_glabel. rewrite E. reflexivity. Qed.

(** Which cells there are.  The grouping factors of a term are Treatment-coded (plain columns, or
    C(g) / C(g, Treatment)): *)
Definition treatment_factors (g : dgterm) : Prop :=
  Forall (fun d => exists ref, comp_encoding (dc_t d) = Treatment ref) (dg_factor g).

Lemma comps_columns_Forall (P : scomp -> Prop) ds :
  Forall (fun d => Forall P (comp_cols d)) ds -> Forall (Forall P) (comps_columns ds).
Proof. intros H. exact (dterm_columns_Forall P (DT "" "" ds [] None) H). Qed.

(* the cells of a full Treatment coding: every level *)
Lemma treatment_factor_cols d :
  tc_kind (dc_t d) = KCategoric -> dc_spans d = true -> (exists ref, comp_encoding (dc_t d) = Treatment ref) ->
  comp_cols d = map (fun l => (dc_t d, Old (PcIndicator l))) (comp_levels (dc_t d)).
Proof.
  intros Hk Hs (ref & He). unfold comp_cols, comp_pieces'. rewrite Hk, Hs.
  unfold comp_pieces. rewrite Hk, He. rewrite !map_map. reflexivity.
Qed.

(** then every cell of the term is an indicator cell, whatever the effect. *)
Theorem gcell_columns_indicator cx D n dg :
  dgterm_made cx D n dg -> treatment_factors dg ->
  Forall (fun gc => gc <> [] /\ indicator_cell gc) (gcell_columns dg).
Proof.
  intros Hmade Htr. destruct (dgterm_made_comps _ _ _ _ Hmade) as [_ Hf].
  unfold gcell_columns. destruct (dg_factor dg) as [|f0 frest] eqn:Ef; [constructor|]. rewrite <- Ef in *.
  assert (Hne : dg_factor dg <> []) by (rewrite Ef; discriminate).
  pose proof (comps_columns_nonnil _ Hne) as N.
  assert (I : Forall indicator_cell (comps_columns (dg_factor dg))).
  { apply comps_columns_Forall. unfold treatment_factors in Htr. rewrite Forall_forall in *.
    intros d Hd. destruct (Hf d Hd) as ((c0 & _ & Ht) & Hs & _).
    assert (Hk : tc_kind (dc_t d) = KCategoric) by (rewrite Ht; reflexivity).
    rewrite (treatment_factor_cols d Hk Hs (Htr d Hd)). apply Forall_map. apply Forall_forall.
    intros l _. cbn [fst snd]. split; [exact Hk|eauto]. }
  rewrite Forall_forall in *. intros gc Hgc. split; [apply N; exact Hgc|apply I; exact Hgc].
Qed.

(* a single Treatment-coded grouping factor: one cell per level, in level order *)
Theorem gcell_columns_single cx D n dg fd :
  dgterm_made cx D n dg -> treatment_factors dg -> dg_factor dg = [fd] ->
  gcell_columns dg = map (fun l => [(dc_t fd, Old (PcIndicator l))]) (dc_levels fd) /\
  forall l i, in_cell [(dc_t fd, Old (PcIndicator l))] i
              = match cat_value (dc_t fd) i with Some x => String.eqb x l | None => false end.
Proof.
  intros Hmade Htr Ef. destruct (dgterm_made_comps _ _ _ _ Hmade) as [_ Hf].
  unfold treatment_factors in Htr. rewrite Ef in *.
  destruct (Forall_inv Hf) as ((c0 & _ & Ht) & Hs & Hd).
  assert (Hk : tc_kind (dc_t fd) = KCategoric) by (rewrite Ht; reflexivity). split.
  - unfold gcell_columns. rewrite Ef. cbn [comps_columns fold_left].
    rewrite (treatment_factor_cols fd Hk Hs (Forall_inv Htr)), map_map.
    rewrite (set_data_comp_levels _ _ _ _ Hk Hd). reflexivity.
  - intros l i. unfold in_cell. cbn [forallb fst snd piece_level]. rewrite andb_true_r. reflexivity.
Qed.

(** The whole matrix, entry by entry, for Treatment-coded grouping factors: *)
Theorem design_matrices_group_entry cx e data na ds j gl i :
  frame_wf data -> scalar_extras cx -> design_matrices cx e data na = Ok ds ->
  supported_group_design ds -> Forall treatment_factors (ds_group ds) ->
  nth_error (group_columns ds) j = Some gl -> i < ds_nrows ds ->
  nth_error (group_labels ds) j = Some (print_glabel gl) /\
  nth j (nth i (group_matrix ds) []) None
  = if in_cell (snd gl) i then denote_slabel (fst gl) i else nanzero (denote_slabel (fst gl) i).
Proof.
  intros Hwf Hex H Hsup Htr Hj Hi.
  destruct (design_matrices_group_whole cx e data na ds Hwf Hex H Hsup) as (Hl & L & Hr).
  split; [rewrite Hl; apply map_nth_error; exact Hj|].
  rewrite (Hr i Hi).
  transitivity (denote_glabel gl i);
    [apply nth_error_nth; apply (map_nth_error (fun gl0 => denote_glabel gl0 i)); exact Hj|].
  destruct (design_matrices_eval _ _ _ _ _ H) as (m & d & Hm & Hd & He).
  pose proof (eval_model_group_made _ _ _ _ (describe_groups_nonempty _ _ Hm) He) as Hmade.
  assert (Hc : snd gl <> [] /\ indicator_cell (snd gl)).
  { apply nth_error_In in Hj. unfold group_columns in Hj. apply in_flat_map in Hj as (g & Hg & Hj).
    unfold gterm_columns in Hj. apply in_flat_map in Hj as (gc & Hgc & Hj).
    apply in_map_iff in Hj as (e0 & <- & _). cbn [snd].
    rewrite Forall_forall in Hmade, Htr.
    pose proof (gcell_columns_indicator _ _ _ g (Hmade g Hg) (Htr g Hg)) as HI.
    rewrite Forall_forall in HI. exact (HI gc Hgc). }
  apply denote_glabel_cell; [exact (proj1 Hc)|exact (proj2 Hc)].
Qed.

(* ------------------------------------------------------------------------------------------ *)
(** * 10. Examples (all by vm_compute): the hypotheses hold of a concrete input, the model's labels
      and rows equal the theorem's right-hand side; the refuted reading *)

Module GroupWholeExamples.
  Import WholeExamples.

  (* six observations, the third one without x; g has the levels u, v and h the levels p, q *)
  Definition gD : frame :=
    [("y", ColNum false [qc 1; qc 2; qc 3; qc 4; qc 5; qc 6]);
     ("x", ColNum true [qc 2; qc 4; None; qc 8; qc 10; qc 12]);
     ("f", ColStr None [Some "b"; Some "a"; Some "b"; Some "a"; Some "b"; Some "a"]);
     ("g", ColStr None [Some "u"; Some "v"; Some "u"; Some "v"; Some "u"; Some "v"]);
     ("h", ColStr None [Some "p"; Some "p"; Some "q"; Some "q"; Some "q"; Some "p"])].
  Lemma gD_wf : frame_wf gD.
  Proof. repeat constructor. Qed.
  Definition g_e : expr := Eval vm_compute in parsed "y ~ x + (x|g) + (0 + f|g:h)".
  Lemma g_parsed : parse_string "y ~ x + (x|g) + (0 + f|g:h)" = Ok g_e.
  Proof. vm_compute. reflexivity. Qed.

  (** ** A. na_action = "drop": five observations *)
  Definition g_ds : design := Eval vm_compute in built g_e gD.
  Lemma g_built : design_matrices ex_cx g_e gD NaDrop = Ok g_ds.
  Proof. vm_compute. reflexivity. Qed.
  Lemma g_supported : supported_group_design g_ds.
  Proof.
    apply (design_matrices_group_supported _ _ _ _ _ gD_wf ex_cx_scalar g_built).
    vm_compute. repeat constructor.
  Qed.
  Lemma g_treatment : Forall treatment_factors (ds_group g_ds).
  Proof. repeat constructor; eexists; reflexivity. Qed.

  (* the theorem applies ... *)
  Example g_whole :
    group_labels g_ds = map print_glabel (group_columns g_ds) /\
    List.length (group_matrix g_ds) = 5 /\
    forall i, i < 5 -> nth i (group_matrix g_ds) [] = map (fun gl => denote_glabel gl i) (group_columns g_ds).
  Proof. exact (design_matrices_group_whole _ _ _ _ _ gD_wf ex_cx_scalar g_built g_supported). Qed.

  (* ... and this is what it says: (x|g) is (1|g) + (x|g); the terms in order; within  f|g:h  the
     cell g:h varies slowest (g slower than h), the effect column f[a], f[b] fastest *)
  Definition show_slabel (l : slabel) : list (string * string) := show_flabel (source_label l).
  Definition show_glabel (gl : glabel) := (show_slabel (fst gl), show_slabel (snd gl)).

  Example g_values :
    map dg_name (ds_group g_ds) = ["1|g"; "x|g"; "f|g:h"] /\
    group_labels g_ds
    = ["1|g[u]"; "1|g[v]"; "x|g[u]"; "x|g[v]";
       "f[a]|g[u]:h[p]"; "f[b]|g[u]:h[p]"; "f[a]|g[u]:h[q]"; "f[b]|g[u]:h[q]";
       "f[a]|g[v]:h[p]"; "f[b]|g[v]:h[p]"; "f[a]|g[v]:h[q]"; "f[b]|g[v]:h[q]"] /\
    map print_glabel (group_columns g_ds) = group_labels g_ds /\
    map show_glabel (group_columns g_ds)
    = [([], [("g", "=u")]); ([], [("g", "=v")]);
       ([("x", "value")], [("g", "=u")]); ([("x", "value")], [("g", "=v")]);
       ([("f", "=a")], [("g", "=u"); ("h", "=p")]); ([("f", "=b")], [("g", "=u"); ("h", "=p")]);
       ([("f", "=a")], [("g", "=u"); ("h", "=q")]); ([("f", "=b")], [("g", "=u"); ("h", "=q")]);
       ([("f", "=a")], [("g", "=v"); ("h", "=p")]); ([("f", "=b")], [("g", "=v"); ("h", "=p")]);
       ([("f", "=a")], [("g", "=v"); ("h", "=q")]); ([("f", "=b")], [("g", "=v"); ("h", "=q")])] /\
    shows (group_matrix g_ds)
    = [["1"; "0"; "2"; "0";    "0"; "1"; "0"; "0"; "0"; "0"; "0"; "0"];
       ["0"; "1"; "0"; "4";    "0"; "0"; "0"; "0"; "1"; "0"; "0"; "0"];
       ["0"; "1"; "0"; "8";    "0"; "0"; "0"; "0"; "0"; "0"; "1"; "0"];
       ["1"; "0"; "10"; "0";   "0"; "0"; "0"; "1"; "0"; "0"; "0"; "0"];
       ["0"; "1"; "0"; "12";   "0"; "0"; "0"; "0"; "1"; "0"; "0"; "0"]] /\
    map (fun i => map (fun gl => denote_glabel gl i) (group_columns g_ds)) (seq 0 5) = group_matrix g_ds /\
    map (fun gl => map cshow (gdenote 5 gl)) (group_columns g_ds)
    = [["1"; "0"; "0"; "1"; "0"]; ["0"; "1"; "1"; "0"; "1"];
       ["2"; "0"; "0"; "10"; "0"]; ["0"; "4"; "8"; "0"; "12"];
       ["0"; "0"; "0"; "0"; "0"]; ["1"; "0"; "0"; "0"; "0"]; ["0"; "0"; "0"; "0"; "0"]; ["0"; "0"; "0"; "1"; "0"];
       ["0"; "1"; "0"; "0"; "1"]; ["0"; "0"; "0"; "0"; "0"]; ["0"; "0"; "1"; "0"; "0"]; ["0"; "0"; "0"; "0"; "0"]] /\
    (* who is in the cell g = u, h = q: the fourth retained observation only *)
    map (in_cell (snd (nth 7 (group_columns g_ds) ([], [])))) (seq 0 5) = [false; false; false; true; false].
  Proof. repeat split; vm_compute; reflexivity. Qed.

  (* column 7, f[b]|g[u]:h[q], through the column theorem *)
  Example g_column :
    exists gl,
      nth_error (group_columns g_ds) 7 = Some gl /\
      show_glabel gl = ([("f", "=b")], [("g", "=u"); ("h", "=q")]) /\
      nth_error (group_labels g_ds) 7 = Some (print_glabel gl) /\ print_glabel gl = "f[b]|g[u]:h[q]" /\
      matrix_column 7 (group_matrix g_ds) = gdenote 5 gl /\
      map cshow (gdenote 5 gl) = ["0"; "0"; "0"; "1"; "0"].
  Proof.
    destruct (nth_error (group_columns g_ds) 7) as [gl|] eqn:E; [|discriminate E].
    destruct (design_matrices_group_column _ _ _ _ _ 7 gl gD_wf ex_cx_scalar g_built g_supported E) as [H1 H2].
    exists gl. split; [reflexivity|]. vm_compute in E. injection E as <-.
    split; [vm_compute; reflexivity|]. split; [exact H1|]. split; [vm_compute; reflexivity|].
    split; [exact H2|]. vm_compute. reflexivity.
  Qed.

  (* position inside the term  f|g:h : cell number 1 (g = u, h = q), effect column number 1 (f[b]):
     1 * 2 + 1 = 3, i.e. column 4 + 3 of the matrix *)
  Example g_order :
    exists g gc e,
      nth_error (ds_group g_ds) 2 = Some g /\ nth_error (gcell_columns g) 1 = Some gc /\
      nth_error (dterm_columns (dg_expr g)) 1 = Some e /\ List.length (dterm_columns (dg_expr g)) = 2 /\
      nth_error (gterm_columns g) (1 * 2 + 1) = Some (e, gc) /\
      nth_error (group_columns g_ds) (4 + (1 * 2 + 1)) = Some (e, gc).
  Proof.
    eexists _, _, _. split; [vm_compute; reflexivity|].
    split; [vm_compute; reflexivity|]. split; [vm_compute; reflexivity|]. split; [vm_compute; reflexivity|].
    split; [|vm_compute; reflexivity].
    match goal with |- nth_error (gterm_columns ?g) _ = Some (?e, ?gc) =>
      exact (gterm_columns_nth g 1 1 gc e ltac:(vm_compute; reflexivity) ltac:(vm_compute; reflexivity)) end.
  Qed.

  (* row alignment *)
  Example g_aligned :
    List.length (group_matrix g_ds) = 5 /\ List.length (common_matrix g_ds) = 5 /\
    (forall r, ds_response g_ds = Some r -> List.length (dt_rows r) = 5).
  Proof.
    destruct (design_matrices_row_aligned _ _ _ _ _ gD_wf ex_cx_scalar g_built) as (A & B & C & _).
    exact (conj A (conj B C)).
  Qed.

  (** ** B. na_action = "pass": six observations, NaN in x on the third one *)
  Definition gp_ds : design :=
    Eval vm_compute in match design_matrices ex_cx g_e gD NaPass with Ok d => d | Err _ => design0 end.
  Lemma gp_built : design_matrices ex_cx g_e gD NaPass = Ok gp_ds.
  Proof. vm_compute. reflexivity. Qed.
  Lemma gp_supported : supported_group_design gp_ds.
  Proof.
    apply (design_matrices_group_supported _ _ _ _ _ gD_wf ex_cx_scalar gp_built).
    vm_compute. repeat constructor.
  Qed.
  Lemma gp_treatment : Forall treatment_factors (ds_group gp_ds).
  Proof. repeat constructor; eexists; reflexivity. Qed.

  Example gp_whole :
    group_labels gp_ds = map print_glabel (group_columns gp_ds) /\
    List.length (group_matrix gp_ds) = 6 /\
    forall i, i < 6 -> nth i (group_matrix gp_ds) [] = map (fun gl => denote_glabel gl i) (group_columns gp_ds).
  Proof. exact (design_matrices_group_whole _ _ _ _ _ gD_wf ex_cx_scalar gp_built gp_supported). Qed.

  Example gp_values :
    shows (group_matrix gp_ds)
    = [["1"; "0"; "2"; "0";     "0"; "1"; "0"; "0"; "0"; "0"; "0"; "0"];
       ["0"; "1"; "0"; "4";     "0"; "0"; "0"; "0"; "1"; "0"; "0"; "0"];
       ["1"; "0"; "nan"; "nan"; "0"; "0"; "0"; "1"; "0"; "0"; "0"; "0"];
       ["0"; "1"; "0"; "8";     "0"; "0"; "0"; "0"; "0"; "0"; "1"; "0"];
       ["1"; "0"; "10"; "0";    "0"; "0"; "0"; "1"; "0"; "0"; "0"; "0"];
       ["0"; "1"; "0"; "12";    "0"; "0"; "0"; "0"; "1"; "0"; "0"; "0"]] /\
    map (fun i => map (fun gl => denote_glabel gl i) (group_columns gp_ds)) (seq 0 6) = group_matrix gp_ds.
  Proof. repeat split; vm_compute; reflexivity. Qed.

  (** THE READING "0 ELSEWHERE" IS FALSE under na_action="pass": the third observation is in group u,
      not in group v, yet the column x|g[v] holds NaN there, not 0 (x is NaN and NaN * 0 = NaN);
      the exact statement is [design_matrices_group_entry]: [nanzero] of the effect value. *)
  Theorem group_zero_elsewhere_refuted :
    exists e data ds j gl i,
      parse_string "y ~ x + (x|g) + (0 + f|g:h)" = Ok e /\ frame_wf data /\
      design_matrices ex_cx e data NaPass = Ok ds /\ supported_group_design ds /\
      Forall treatment_factors (ds_group ds) /\
      nth_error (group_columns ds) j = Some gl /\ nth_error (group_labels ds) j = Some "x|g[v]" /\
      i < ds_nrows ds /\ in_cell (snd gl) i = false /\
      nth j (nth i (group_matrix ds) []) None = None /\
      nth j (nth i (group_matrix ds) []) None <> zcell 0 /\
      nth j (nth i (group_matrix ds) []) None = nanzero (denote_slabel (fst gl) i).
  Proof.
    destruct (nth_error (group_columns gp_ds) 3) as [gl|] eqn:E; [|discriminate E].
    exists g_e, gD, gp_ds, 3, gl, 2.
    split; [exact g_parsed|]. split; [exact gD_wf|]. split; [exact gp_built|]. split; [exact gp_supported|].
    split; [exact gp_treatment|]. split; [exact E|]. split; [reflexivity|]. split; [vm_compute; lia|].
    assert (Hi : 2 < ds_nrows gp_ds) by (vm_compute; lia).
    destruct (design_matrices_group_entry _ _ _ _ _ 3 gl 2 gD_wf ex_cx_scalar gp_built gp_supported
                gp_treatment E Hi) as [_ H2].
    vm_compute in E. injection E as <-.
    split; [vm_compute; reflexivity|]. split; [vm_compute; reflexivity|].
    split; [vm_compute; discriminate|]. rewrite H2. vm_compute. reflexivity.
  Qed.
  (** THE CLAUSE "number of labels = width of the matrix" NEEDS A ROW: when na_action="drop" drops
      every observation the model still returns a design; an ordered Categorical keeps its declared
      levels, so there are four labels, while the matrix has no row, hence width 0.  (Row by row
      the clause holds vacuously: [design_matrices_group_label_count].) *)
  Definition gD0 : frame :=
    [("y", ColNum false [qc 1; qc 2]); ("x", ColNum true [None; None]);
     ("g", ColStr (Some ["u"; "v"]) [Some "u"; Some "v"])].
  Theorem group_width_no_rows_refuted :
    exists e ds,
      parse_string "y ~ (x|g)" = Ok e /\ frame_wf gD0 /\
      design_matrices ex_cx e gD0 NaDrop = Ok ds /\ supported_group_design ds /\
      ds_nrows ds = 0 /\ group_labels ds = ["1|g[u]"; "1|g[v]"; "x|g[u]"; "x|g[v]"] /\
      group_labels ds = map print_glabel (group_columns ds) /\
      group_matrix ds = [] /\ width (group_matrix ds) <> List.length (group_labels ds).
  Proof.
    pose (e := parsed "y ~ (x|g)"). pose (ds := built e gD0). exists e, ds.
    assert (W : frame_wf gD0) by (repeat constructor).
    assert (B : design_matrices ex_cx e gD0 NaDrop = Ok ds) by (vm_compute; reflexivity).
    split; [vm_compute; reflexivity|]. split; [exact W|]. split; [exact B|].
    split; [apply (design_matrices_group_supported _ _ _ _ _ W ex_cx_scalar B); vm_compute;
            repeat constructor; simpl; intuition discriminate|].
    split; [vm_compute; reflexivity|]. split; [vm_compute; reflexivity|]. split; [vm_compute; reflexivity|].
    split; [vm_compute; reflexivity|]. vm_compute. discriminate.
  Qed.
End GroupWholeExamples.

Print Assumptions dgterm_made_columns.
Print Assumptions eval_model_group_whole.
Print Assumptions design_matrices_group_whole.
Print Assumptions design_matrices_group_column.
Print Assumptions design_matrices_group_label_count.
Print Assumptions design_matrices_row_aligned.
Print Assumptions design_matrices_rows_equal.
Print Assumptions gterm_columns_nth.
Print Assumptions group_design_supported.
Print Assumptions design_matrices_group_supported.
Print Assumptions cell_indicator.
Print Assumptions denote_glabel_cell.
Print Assumptions denote_glabel_cell_clean.
Print Assumptions gcell_columns_indicator.
Print Assumptions gcell_columns_single.
Print Assumptions design_matrices_group_entry.
Print Assumptions GroupWholeExamples.g_whole.
Print Assumptions GroupWholeExamples.g_values.
Print Assumptions GroupWholeExamples.g_column.
Print Assumptions GroupWholeExamples.g_order.
Print Assumptions GroupWholeExamples.gp_values.
Print Assumptions GroupWholeExamples.group_zero_elsewhere_refuted.
Print Assumptions GroupWholeExamples.group_width_no_rows_refuted.
