(* Lemmas on sums / lengths of lists of rationals shared by the transform proofs. *)
From Coq Require Import List QArith Qcanon ZArith Lia Bool.
From Verif Require Import Transforms.
Import ListNotations.
Local Open Scope Qc_scope.

Lemma qofZ_plus a b : qofZ (a + b) = qofZ a + qofZ b.
Proof.
  apply Qc_is_canon. unfold qofZ, Qcplus, Q2Qc; cbn [this].
  rewrite !Qred_correct, inject_Z_plus. apply Qeq_refl.
Qed.

Lemma qofZ_0 : qofZ 0 = 0.
Proof. apply Qc_is_canon. reflexivity. Qed.

Lemma qofZ_1 : qofZ 1 = 1.
Proof. apply Qc_is_canon. reflexivity. Qed.

Lemma qofZ_eq0 z : qofZ z = 0 -> z = 0%Z.
Proof.
  unfold qofZ. change 0 with (Q2Qc 0%Q). intros H. apply Q2Qc_eq_iff in H.
  unfold Qeq in H. cbn in H. lia.
Qed.

Lemma qofZ_nonneg z : (0 <= z)%Z -> 0 <= qofZ z.
Proof.
  intros H. unfold Qcle, qofZ. change (this 0) with 0%Q. cbn [this Q2Qc].
  rewrite Qred_correct. unfold Qle, inject_Z; cbn [Qnum Qden]. lia.
Qed.

Lemma qofZ_pos z : (0 < z)%Z -> 0 < qofZ z.
Proof.
  intros H. unfold Qclt, qofZ. change (this 0) with 0%Q. cbn [this Q2Qc].
  rewrite Qred_correct. unfold Qlt, inject_Z; cbn [Qnum Qden]. lia.
Qed.

Lemma qofnat_S n : qofnat (S n) = 1 + qofnat n.
Proof.
  unfold qofnat. rewrite Nat2Z.inj_succ, <- Z.add_1_l, qofZ_plus, qofZ_1. reflexivity.
Qed.

Lemma qofnat_0 : qofnat 0 = 0.
Proof. apply qofZ_0. Qed.

Lemma qofnat_eq0 n : qofnat n = 0 -> n = 0%nat.
Proof. intros H. apply qofZ_eq0 in H. lia. Qed.

Lemma qlen_nil : qlen [] = 0.
Proof. apply qofnat_0. Qed.

Lemma qlen_cons x l : qlen (x :: l) = 1 + qlen l.
Proof. unfold qlen. cbn [length]. apply qofnat_S. Qed.

Lemma qlen_map {A} (f : A -> Qc) (g : A -> Qc) l : qlen (map f l) = qlen (map g l).
Proof. unfold qlen. rewrite !map_length. reflexivity. Qed.

Lemma qlen_map_id (f : Qc -> Qc) l : qlen (map f l) = qlen l.
Proof. unfold qlen. rewrite map_length. reflexivity. Qed.

Lemma qlen_nonzero l : l <> [] -> qlen l <> 0.
Proof.
  intros Hne H. apply qofnat_eq0 in H. destruct l; [congruence | discriminate].
Qed.

Lemma qsum_nil : qsum [] = 0.
Proof. reflexivity. Qed.

Lemma qsum_cons x l : qsum (x :: l) = x + qsum l.
Proof. reflexivity. Qed.

Lemma qsum_app l1 l2 : qsum (l1 ++ l2) = qsum l1 + qsum l2.
Proof.
  induction l1 as [|a l1 IH]; cbn [app].
  - rewrite qsum_nil. ring.
  - rewrite !qsum_cons, IH. ring.
Qed.

Lemma qsum_map_add {A} (f g : A -> Qc) l :
  qsum (map (fun x => f x + g x) l) = qsum (map f l) + qsum (map g l).
Proof.
  induction l as [|a l IH]; cbn [map].
  - rewrite !qsum_nil. ring.
  - rewrite !qsum_cons, IH. ring.
Qed.

Lemma qsum_map_sub {A} (f g : A -> Qc) l :
  qsum (map (fun x => f x - g x) l) = qsum (map f l) - qsum (map g l).
Proof.
  induction l as [|a l IH]; cbn [map].
  - rewrite !qsum_nil. ring.
  - rewrite !qsum_cons, IH. ring.
Qed.

Lemma qsum_map_scale {A} (c : Qc) (f : A -> Qc) l :
  qsum (map (fun x => c * f x) l) = c * qsum (map f l).
Proof.
  induction l as [|a l IH]; cbn [map].
  - rewrite !qsum_nil. ring.
  - rewrite !qsum_cons, IH. ring.
Qed.

Lemma qsum_map_const {A} (c : Qc) (l : list A) :
  qsum (map (fun _ => c) l) = qofnat (length l) * c.
Proof.
  induction l as [|a l IH]; cbn [map length].
  - rewrite qsum_nil, qofnat_0. ring.
  - rewrite qsum_cons, IH, qofnat_S. ring.
Qed.

Lemma qsum_map_ext {A} (f g : A -> Qc) l :
  (forall x, In x l -> f x = g x) -> qsum (map f l) = qsum (map g l).
Proof. intros H. f_equal. apply map_ext_in. exact H. Qed.

Lemma qsum_map_zero {A} (f : A -> Qc) l :
  (forall x, In x l -> f x = 0) -> qsum (map f l) = 0.
Proof.
  induction l as [|a l IH]; intros H; cbn [map].
  - reflexivity.
  - rewrite qsum_cons, H by (left; reflexivity). rewrite IH; [ring|].
    intros x Hx. apply H. right. exact Hx.
Qed.

Lemma qsum_id l : qsum (map (fun x => x) l) = qsum l.
Proof. rewrite map_id. reflexivity. Qed.

Lemma qsum_nonneg l : Forall (fun x => 0 <= x) l -> 0 <= qsum l.
Proof.
  induction 1 as [|a l Ha _ IH].
  - unfold Qcle; cbn. apply Qle_refl.
  - rewrite qsum_cons. replace 0 with (0 + 0) by ring. apply Qcplus_le_compat; assumption.
Qed.

(* comparisons *)
Lemma qeqb_true a b : qeqb a b = true <-> a = b.
Proof.
  unfold qeqb. rewrite Qeq_bool_iff. split.
  - apply Qc_is_canon.
  - intros ->. reflexivity.
Qed.

Lemma qeqb_false a b : qeqb a b = false <-> a <> b.
Proof.
  rewrite <- qeqb_true. destruct (qeqb a b); split; congruence.
Qed.

Lemma qleb_true a b : qleb a b = true <-> a <= b.
Proof. unfold qleb, Qcle. apply Qle_bool_iff. Qed.

Lemma qleb_false a b : qleb a b = false <-> b < a.
Proof.
  split.
  - intros H. apply Qcnot_le_lt. intros Hle. apply qleb_true in Hle. congruence.
  - intros H. destruct (qleb a b) eqn:E; [|reflexivity].
    apply qleb_true in E. apply Qcle_not_lt in E. contradiction.
Qed.

Lemma qltb_true a b : qltb a b = true <-> a < b.
Proof.
  unfold qltb. fold (qleb b a). rewrite negb_true_iff. apply qleb_false.
Qed.

Lemma qltb_false a b : qltb a b = false <-> b <= a.
Proof.
  unfold qltb. fold (qleb b a). rewrite negb_false_iff. apply qleb_true.
Qed.

(* deciding equalities of concrete rationals / lists / matrices by computation
   (vm_compute cannot close `a = b` on Qc directly: the canonicity proofs differ syntactically) *)
Fixpoint qlist_eqb (l1 l2 : list Qc) : bool :=
  match l1, l2 with
  | [], [] => true
  | a :: r1, b :: r2 => qeqb a b && qlist_eqb r1 r2
  | _, _ => false
  end.

Lemma qlist_eqb_true l1 l2 : qlist_eqb l1 l2 = true -> l1 = l2.
Proof.
  revert l2. induction l1 as [|a r1 IH]; intros [|b r2] H; cbn in H; try discriminate.
  - reflexivity.
  - apply andb_true_iff in H. destruct H as [H1 H2].
    apply qeqb_true in H1. subst b. f_equal. apply IH. exact H2.
Qed.

Fixpoint qmat_eqb (m1 m2 : list (list Qc)) : bool :=
  match m1, m2 with
  | [], [] => true
  | a :: r1, b :: r2 => qlist_eqb a b && qmat_eqb r1 r2
  | _, _ => false
  end.

Lemma qmat_eqb_true m1 m2 : qmat_eqb m1 m2 = true -> m1 = m2.
Proof.
  revert m2. induction m1 as [|a r1 IH]; intros [|b r2] H; cbn in H; try discriminate.
  - reflexivity.
  - apply andb_true_iff in H. destruct H as [H1 H2].
    apply qlist_eqb_true in H1. subst b. f_equal. apply IH. exact H2.
Qed.

Ltac qc_decide :=
  match goal with
  | |- @eq Qc _ _ => apply qeqb_true; vm_compute; reflexivity
  | |- @eq (list Qc) _ _ => apply qlist_eqb_true; vm_compute; reflexivity
  | |- @eq (list (list Qc)) _ _ => apply qmat_eqb_true; vm_compute; reflexivity
  | |- _ <> _ => let H := fresh in intros H; apply qeqb_true in H; vm_compute in H; discriminate H
  end.

(* order lemmas on Qc *)
Lemma Qcle_0_sub a b : a <= b <-> 0 <= b - a.
Proof. unfold Qcminus. apply Qcle_minus_iff. Qed.

Lemma Qclt_0_sub a b : a < b <-> 0 < b - a.
Proof. unfold Qcminus. apply Qclt_minus_iff. Qed.

Lemma Qcmult_nonneg a b : 0 <= a -> 0 <= b -> 0 <= a * b.
Proof.
  intros Ha Hb. replace 0 with (0 * b) by ring. apply Qcmult_le_compat_r; assumption.
Qed.

Lemma Qcinv_pos a : 0 < a -> 0 < / a.
Proof.
  unfold Qclt, Qcinv. change (this 0) with 0%Q. cbn [this Q2Qc]. rewrite Qred_correct.
  apply Qinv_lt_0_compat.
Qed.

Lemma Qcdiv_nonneg a b : 0 <= a -> 0 < b -> 0 <= a / b.
Proof.
  intros Ha Hb. unfold Qcdiv. apply Qcmult_nonneg; [exact Ha|].
  apply Qclt_le_weak, Qcinv_pos, Hb.
Qed.

Lemma Qcplus_nonneg a b : 0 <= a -> 0 <= b -> 0 <= a + b.
Proof.
  intros Ha Hb. replace 0 with (0 + 0) by ring. apply Qcplus_le_compat; assumption.
Qed.

Lemma Qcle_0_0 : 0 <= 0.
Proof. apply Qcle_refl. Qed.
