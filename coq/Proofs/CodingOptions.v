(* C13, clause "contrast codings honour their options" (reference / omitted level / levels= order)
   and C04, clause "levels of unordered data are sorted while declared orders are respected".

   Everything is stated on the executable model:
     Eval.call_function "C" / "T" / "S"  (formulae/transforms.py C, T, S  ->  CategoricalBox),
     Eval.mk_box                         (CategoricalBox.__init__ and its levels setter),
     Design.set_type_comp / set_data_comp (Call.set_type / Call.set_data),
     Coding.code / ref_index             (Treatment / Sum .code_with(out)_intercept).

   Contents
     1. sorting: [sort_levels] is THE strictly increasing list of the distinct values
        (strings: lexicographic by character code; numbers: numeric order);
     2. the levels validation of the box: accepted iff SET equality with the values present
        (the box itself accepts duplicates in levels=, missing values are ignored), otherwise
        ValueError; a repeated level is refused later, by set_data (pd.Categorical: "Categorical
        categories must be unique"), see 5;
     3. the values of the calls C / T / S for every way of passing the arguments, and the aliases
        T(x, r, lv) = C(x, Treatment(r), lv), S(x, o, lv) = C(x, Sum(o), lv);
     4. the options on [code]: which level is left out, when the call is refused, the labels;
     5. end to end through set_type_comp + set_data_comp: levels, labels, contrast labels, entries;
     6. examples (a permutation passed as levels=, numeric levels via C(k), an ordered categorical)
        and the refuted readings. *)
From Verif Require Import Base Tokens Lazy Algebra Coding Contrasts Frame Eval Design.
From Verif Require Import DesignStructure DesignCoding DesignSum FrameStructure HelpersProofs.
From Coq Require Import Lia Permutation Sorted OrderedTypeEx.
Local Close Scope Qc_scope.
Local Close Scope Q_scope.
Local Open Scope string_scope.
Local Open Scope list_scope.
Local Open Scope nat_scope.

(* ------------------------------------------------------------------------------------------ *)
(** * 1. Sorting: the sorted distinct values *)

Section StrictSorted.
  Context {T : Type} (lt : T -> T -> Prop).
  Hypothesis lt_irrefl : forall a, ~ lt a a.
  Hypothesis lt_trans : forall a b c, lt a b -> lt b c -> lt a c.

  (** Two strictly increasing lists with the same elements are the same list. *)
  Lemma strict_sorted_unique l1 : forall l2,
    StronglySorted lt l1 -> StronglySorted lt l2 -> (forall x, In x l1 <-> In x l2) -> l1 = l2.
  Proof.
    induction l1 as [|h1 t1 IH]; intros [|h2 t2] S1 S2 E.
    - reflexivity.
    - exfalso. apply (proj2 (E h2)). left; reflexivity.
    - exfalso. apply (proj1 (E h1)). left; reflexivity.
    - apply StronglySorted_inv in S1 as [S1 A1]. apply StronglySorted_inv in S2 as [S2 A2].
      rewrite Forall_forall in A1, A2.
      assert (Hh : h1 = h2).
      { destruct (proj1 (E h1) (or_introl eq_refl)) as [->|H1]; [reflexivity|].
        destruct (proj2 (E h2) (or_introl eq_refl)) as [->|H2]; [reflexivity|].
        exfalso. apply (lt_irrefl h1). eapply lt_trans; [apply A1; exact H2|apply A2; exact H1]. }
      subst h2. f_equal. apply IH; [assumption|assumption|].
      intros x. split; intros Hx.
      + destruct (proj1 (E x) (or_intror Hx)) as [<-|H]; [|assumption].
        exfalso. apply (lt_irrefl h1). apply A1. assumption.
      + destruct (proj2 (E x) (or_intror Hx)) as [<-|H]; [|assumption].
        exfalso. apply (lt_irrefl h1). apply A2. assumption.
  Qed.
End StrictSorted.

Lemma sorted_strengthen {T} (R Q : T -> T -> Prop) l :
  (forall a b, In a l -> In b l -> R a b -> a <> b -> Q a b) ->
  StronglySorted R l -> NoDup l -> StronglySorted Q l.
Proof.
  intros H S. induction S as [|a l S IH A]; intros Hnd; [constructor|].
  inversion Hnd as [|? ? Ha Hnd']; subst. constructor.
  - apply IH; [|assumption]. intros x y Hx Hy. apply H; right; assumption.
  - rewrite Forall_forall in *. intros b Hb. apply H; [left; reflexivity|right; assumption|auto|].
    intros ->. contradiction.
Qed.

Lemma nodup_by_In_iff {T} (eqb : T -> T -> bool) l y :
  (forall a b, eqb a b = true <-> a = b) -> In y (nodup_by eqb l) <-> In y l.
Proof.
  intros Heq. split; [apply nodup_by_In|].
  induction l as [|x l IH]; simpl; [tauto|]. intros [<-|H].
  - destruct (existsb (eqb x) l) eqn:E; [|left; reflexivity].
    apply IH. apply existsb_exists in E as (z & Hz & Hxz). apply Heq in Hxz. subst. assumption.
  - destruct (existsb (eqb x) l); [|right]; auto.
Qed.

Definition str_lt : string -> string -> Prop := String_as_OT.lt.

Lemma str_lt_irrefl a : ~ str_lt a a.
Proof. intros H. apply (String_as_OT.lt_not_eq _ _ H). reflexivity. Qed.

(** Strings without a declared order: [sort_levels false l] is strictly increasing for the
    lexicographic order (by character code, [String_as_OT.lt]) and has exactly the elements of l;
    it is the only such list. *)
Theorem sort_levels_str_spec l :
  StronglySorted str_lt (sort_levels false l) /\ forall x, In x (sort_levels false l) <-> In x l.
Proof.
  unfold sort_levels, sorted_unique_str. split.
  - apply (sorted_strengthen (fun a b => str_leb a b = true)).
    + intros a b _ _ Hab Hne. apply str_leb_iff in Hab as [H|H]; [exact H|contradiction].
    + apply isort_sorted; [exact str_leb_total|exact str_leb_trans].
    + apply (sort_levels_NoDup false l).
  - intros x. split; intros H.
    + eapply nodup_by_In. eapply Permutation_in; [apply isort_perm|exact H].
    + eapply Permutation_in; [apply Permutation_sym, isort_perm|].
      apply nodup_by_In_iff; [exact String.eqb_eq|exact H].
Qed.

Theorem sort_levels_str_unique l s :
  StronglySorted str_lt s -> (forall x, In x s <-> In x l) -> s = sort_levels false l.
Proof.
  intros Hs He. destruct (sort_levels_str_spec l) as [Hs' He'].
  apply (strict_sorted_unique str_lt str_lt_irrefl String_as_OT.lt_trans); auto.
  intros x. rewrite He, He'. reflexivity.
Qed.

(* the integers the decimal strings of l denote *)
Definition level_ints (l : list string) : list Z :=
  flat_map (fun s => match zread s with Some z => [z] | None => [] end) l.

Lemma level_ints_In l z : In z (level_ints l) <-> exists s, In s l /\ zread s = Some z.
Proof.
  unfold level_ints. rewrite in_flat_map. split; intros (s & Hs & H); exists s; split; auto.
  - destruct (zread s) as [z'|]; simpl in H; [|contradiction]. destruct H as [->|[]]. reflexivity.
  - rewrite H. left; reflexivity.
Qed.

Lemma Z_leb_total a b : Z.leb a b = true \/ Z.leb b a = true.
Proof. destruct (Z.leb_spec a b); [left; reflexivity|right; apply Z.leb_le; lia]. Qed.
Lemma Z_leb_trans a b c : Z.leb a b = true -> Z.leb b c = true -> Z.leb a c = true.
Proof. rewrite !Z.leb_le. lia. Qed.

(** Numeric data: [sort_levels true l] is the list of decimal strings of a strictly increasing
    (numeric order) list of integers, which has exactly the integers the strings of l denote. *)
Theorem sort_levels_num_spec l :
  exists zs, sort_levels true l = map zshow zs /\ StronglySorted Z.lt zs /\
             forall z, In z zs <-> In z (level_ints l).
Proof.
  unfold sort_levels. fold (level_ints l).
  exists (isort Z.leb (nodup_by Z.eqb (level_ints l))). split; [reflexivity|]. split.
  - apply (sorted_strengthen (fun a b => Z.leb a b = true)).
    + intros a b _ _ Hab Hne. apply Z.leb_le in Hab. lia.
    + apply isort_sorted; [exact Z_leb_total|exact Z_leb_trans].
    + eapply Permutation_NoDup; [apply Permutation_sym, isort_perm|].
      apply nodup_by_NoDup. exact Z.eqb_eq.
  - intros z. split; intros H.
    + eapply nodup_by_In. eapply Permutation_in; [apply isort_perm|exact H].
    + eapply Permutation_in; [apply Permutation_sym, isort_perm|].
      apply nodup_by_In_iff; [exact Z.eqb_eq|exact H].
Qed.

Theorem sort_levels_num_unique l zs :
  StronglySorted Z.lt zs -> (forall z, In z zs <-> In z (level_ints l)) ->
  sort_levels true l = map zshow zs.
Proof.
  intros Hs He. destruct (sort_levels_num_spec l) as (zs' & -> & Hs' & He'). f_equal.
  apply (strict_sorted_unique Z.lt Z.lt_irrefl Z.lt_trans); auto.
  intros x. rewrite He, He'. reflexivity.
Qed.

(* the strings of an integer series: what [series_strings] / [categoric_data] make of it *)
Definition int_strings (xs : list cell) : list (option string) :=
  map (fun c => match c with Some q => Some (int_label q) | None => None end) xs.
(* the integers of the cells that are not missing *)
Definition cell_ints (xs : list cell) : list Z :=
  flat_map (fun c => match c with Some q => [Qnum (this q)] | None => [] end) xs.

Lemma level_ints_int_strings xs : level_ints (present (int_strings xs)) = cell_ints xs.
Proof.
  unfold level_ints, present, int_strings, cell_ints.
  induction xs as [|[q|] xs IH]; simpl; [reflexivity| |exact IH].
  unfold int_label. rewrite zread_zshow. simpl. f_equal. exact IH.
Qed.

(** For an integer column k (as in C(k)): the levels are the decimal strings of the distinct
    integers of the column in increasing NUMERIC order (so "10" comes after "9"). *)
Corollary sort_levels_ints xs :
  exists zs, sort_levels true (present (int_strings xs)) = map zshow zs /\
             StronglySorted Z.lt zs /\ forall z, In z zs <-> In z (cell_ints xs).
Proof.
  destruct (sort_levels_num_spec (present (int_strings xs))) as (zs & H1 & H2 & H3).
  exists zs. rewrite <- level_ints_int_strings. auto.
Qed.

(* both sorts keep exactly the values present *)
Lemma sort_levels_In_str l x : In x (sort_levels false l) <-> In x l.
Proof. apply sort_levels_str_spec. Qed.

Lemma sort_levels_In_ints xs x :
  In x (sort_levels true (present (int_strings xs))) <-> In x (present (int_strings xs)).
Proof.
  destruct (sort_levels_ints xs) as (zs & -> & _ & He). rewrite in_map_iff. split.
  - intros (z & <- & Hz). apply He in Hz. unfold cell_ints in Hz. apply in_flat_map in Hz as ([q|] & Hq & Hz);
      simpl in Hz; [|contradiction]. destruct Hz as [<-|[]].
    apply present_In. unfold int_strings. apply in_map_iff. exists (Some q). auto.
  - intros H. apply present_In in H. unfold int_strings in H. apply in_map_iff in H as ([q|] & Hq & Hin);
      [|discriminate]. injection Hq as <-. exists (Qnum (this q)). split; [reflexivity|].
    apply He. unfold cell_ints. apply in_flat_map. exists (Some q). split; [assumption|left; reflexivity].
Qed.

(* ------------------------------------------------------------------------------------------ *)
(** * 2. The levels validation of CategoricalBox *)

Lemma same_set_iff a b : same_set a b = true <-> (forall x, In x a <-> In x b).
Proof.
  unfold same_set. rewrite andb_true_iff, !forallb_forall. split.
  - intros [H1 H2] x. split; intros Hx.
    + apply existsb_eqb_In. apply H1. assumption.
    + apply existsb_eqb_In. apply H2. assumption.
  - intros H. split; intros x Hx; apply existsb_eqb_In; apply H; assumption.
Qed.

(* the levels a box is given: levels= when passed, else the categories of an ORDERED column *)
Definition box_levels (ordered levels : option (list string)) : option (list string) :=
  match ordered, levels with Some cats, None => Some cats | _, _ => levels end.

(* the validation: as SETS, the levels are the values present (missing values do not count) *)
Definition levels_valid (lvo : option (list string)) (d : list (option string)) : Prop :=
  forall l, lvo = Some l -> forall s, In s l <-> In (Some s) d.

Lemma levels_valid_dec lvo d :
  (match lvo with Some l => same_set l (present d) | None => true end) = true <-> levels_valid lvo d.
Proof.
  unfold levels_valid. destruct lvo as [l|].
  - rewrite same_set_iff. split.
    + intros H l' E s. injection E as <-. rewrite H. apply present_In.
    + intros H s. rewrite (H l eq_refl). symmetry. apply present_In.
  - split; [intros _ l E; discriminate|reflexivity].
Qed.

(** CategoricalBox(data, contrast, levels): the box keeps the data, the contrast and the levels it
    is given (levels=, else the categories of an ordered column, else nothing); it is refused with
    ValueError exactly when levels are given and differ, AS A SET, from the values present. *)
Theorem mk_box_spec num o d c lv :
  (levels_valid (box_levels o lv) d -> mk_box num o d c lv = Ok (PBox num d c (box_levels o lv))) /\
  (~ levels_valid (box_levels o lv) d -> mk_box num o d c lv = Err EValue).
Proof.
  unfold mk_box. fold (box_levels o lv).
  pose proof (levels_valid_dec (box_levels o lv) d) as Hd.
  destruct (box_levels o lv) as [l|].
  - destruct (same_set l (present d)).
    + split; [reflexivity|]. intros Hn. exfalso. apply Hn, Hd. reflexivity.
    + split; [|reflexivity]. intros Hv. apply Hd in Hv. discriminate.
  - split; [reflexivity|]. intros Hn. exfalso. apply Hn, Hd. reflexivity.
Qed.

Corollary mk_box_ok_iff num o d c lv v :
  mk_box num o d c lv = Ok v <-> levels_valid (box_levels o lv) d /\ v = PBox num d c (box_levels o lv).
Proof.
  destruct (mk_box_spec num o d c lv) as [H1 H2]. split.
  - intros H. assert (Hv : levels_valid (box_levels o lv) d).
    { pose proof (levels_valid_dec (box_levels o lv) d) as Hd. apply Hd.
      destruct (match box_levels o lv with Some l => same_set l (present d) | None => true end) eqn:E;
        [reflexivity|].
      rewrite H2 in H; [discriminate|]. intros Hv. apply Hd in Hv. discriminate. }
    split; [assumption|]. rewrite (H1 Hv) in H. congruence.
  - intros [Hv ->]. auto.
Qed.

Corollary mk_box_err_iff num o d c lv k :
  mk_box num o d c lv = Err k <-> ~ levels_valid (box_levels o lv) d /\ k = EValue.
Proof.
  destruct (mk_box_spec num o d c lv) as [H1 H2]. split.
  - intros H. assert (Hn : ~ levels_valid (box_levels o lv) d).
    { intros Hv. rewrite (H1 Hv) in H. discriminate. }
    split; [assumption|]. rewrite (H2 Hn) in H. congruence.
  - intros [Hn ->]. auto.
Qed.

(** For duplicate-free levels the validation is "a permutation of the distinct values". *)
Theorem levels_valid_perm_str l d :
  NoDup l -> (levels_valid (Some l) d <-> Permutation l (sort_levels false (present d))).
Proof.
  intros Hnd. unfold levels_valid. split.
  - intros H. apply NoDup_Permutation; [assumption|apply sort_levels_NoDup|].
    intros s. rewrite (H l eq_refl), sort_levels_In_str. symmetry. apply present_In.
  - intros H l' E s. injection E as <-. rewrite <- present_In, <- (sort_levels_In_str (present d)). split; intros Hs.
    + exact (Permutation_in s H Hs).
    + exact (Permutation_in s (Permutation_sym H) Hs).
Qed.

Theorem levels_valid_perm_ints l xs :
  NoDup l ->
  (levels_valid (Some l) (int_strings xs) <-> Permutation l (sort_levels true (present (int_strings xs)))).
Proof.
  intros Hnd. unfold levels_valid. split.
  - intros H. apply NoDup_Permutation; [assumption|apply sort_levels_NoDup|].
    intros s. rewrite (H l eq_refl), sort_levels_In_ints. symmetry. apply present_In.
  - intros H l' E s. injection E as <-. rewrite <- present_In, <- (sort_levels_In_ints xs). split; intros Hs.
    + exact (Permutation_in s H Hs).
    + exact (Permutation_in s (Permutation_sym H) Hs).
Qed.

(** ... but duplicate-freeness is NOT checked BY THE BOX: levels=["a"; "b"; "a"] is accepted for
    data a, b (CategoricalBox only compares sets).  The repetition is refused one step later, when
    the component is coded ([levels_duplicates_component_refused] below, section 5). *)
Example levels_duplicates_box_accepted :
  exists l d, ~ Permutation l (sort_levels false (present d)) /\ ~ NoDup l /\
              mk_box false None d None (Some l) = Ok (PBox false d None (Some l)).
Proof.
  exists ["a"; "b"; "a"], [Some "b"; Some "a"]. split; [|split; [|reflexivity]].
  - intros H. apply Permutation_length in H. discriminate H.
  - intros H. inversion H as [|? ? Hin _]; subst. apply Hin. right; left; reflexivity.
Qed.

(** Missing values are ignored by the validation (they are no level and need none). *)
Example levels_missing_ignored :
  mk_box false None [Some "b"; None; Some "a"] None (Some ["a"; "b"])
  = Ok (PBox false [Some "b"; None; Some "a"] None (Some ["a"; "b"])).
Proof. reflexivity. Qed.

(** An ordered column brings its categories as levels, and they are validated like levels=:
    C(x) of an ordered categorical with an UNUSED category is refused. *)
Example ordered_unused_category_refused :
  mk_box false (Some ["lo"; "mid"; "hi"]) [Some "hi"; Some "lo"] None None = Err EValue.
Proof. reflexivity. Qed.

(* ------------------------------------------------------------------------------------------ *)
(** * 3. The calls C, T, S *)

(* the box made from a series (a string / categorical column, or an integer column) *)
Definition box_of (x : pyval) (c : option encoding) (lv : option (list string)) : res pyval :=
  do s <- series_strings x; mk_box (fst (fst s)) (snd (fst s)) (snd s) c lv.

(* C(data, contrast, levels) on the bound arguments; C of a box re-boxes it, keeping what is not
   overridden *)
Definition C_sem (x e l : pyval) : res pyval :=
  do c <- as_encoding e;
  do lv <- as_levels l;
  match x with
  | PBox num d c0 lv0 =>
      mk_box num None d (match c with None => c0 | _ => c end) (match lv with None => lv0 | _ => lv end)
  | _ => box_of x c lv
  end.
(* T(data, ref, levels) and S(data, omit, levels) *)
Definition T_sem (x r l : pyval) : res pyval :=
  do o <- as_label r; do lv <- as_levels l; box_of x (Some (Treatment o)) lv.
Definition S_sem (x o l : pyval) : res pyval :=
  do o' <- as_label o; do lv <- as_levels l; box_of x (Some (Sum o')) lv.

(* the signature wrapper of [call_function] for the three-parameter functions whose first
   parameter is required *)
Definition with_sig3 (params : list string) (pos : list pyval) (kw : list (string * pyval))
           (k : pyval -> pyval -> pyval -> res pyval) : res pyval :=
  if negb (check_kw params kw) then Err EType
  else do b <- bind_args params pos kw;
       if forallb (fun p => existsb (fun x => String.eqb (fst x) p) b) (firstn 1 params)
       then k (arg (nth 0 params "") b) (arg (nth 1 params "") b) (arg (nth 2 params "") b)
       else Err EType.

(** Whatever the way the arguments are passed: either Python's argument binding fails
    (TypeError) or the call is the function above of the bound arguments, an argument that is
    not passed being None. *)
Theorem call_C cx pos kw :
  call_function cx "C" pos kw = with_sig3 ["data"; "contrast"; "levels"] pos kw C_sem.
Proof.
  unfold with_sig3, C_sem, box_of. cbn [nth firstn].
  change (call_function cx "C" pos kw) with
    (if negb (check_kw ["data"; "contrast"; "levels"] kw) then Err EType
     else do b <- bind_args ["data"; "contrast"; "levels"] pos kw;
          if forallb (fun p => existsb (fun x => String.eqb (fst x) p) b) ["data"]
          then do c <- as_encoding (arg "contrast" b);
               do lv <- as_levels (arg "levels" b);
               match arg "data" b with
               | PBox num d c0 lv0 =>
                   mk_box num None d (match c with None => c0 | _ => c end)
                          (match lv with None => lv0 | _ => lv end)
               | v => do s <- series_strings v; mk_box (fst (fst s)) (snd (fst s)) (snd s) c lv
               end
          else Err EType).
  destruct (negb _); [reflexivity|]. destruct (bind_args _ pos kw) as [b|]; [|reflexivity].
  cbn [bind]. destruct (forallb _ _); [|reflexivity].
  destruct (as_encoding _); [|reflexivity]. destruct (as_levels _); [|reflexivity].
  cbn [bind]. destruct (arg "data" b); reflexivity.
Qed.
Theorem call_T cx pos kw :
  call_function cx "T" pos kw = with_sig3 ["data"; "ref"; "levels"] pos kw T_sem.
Proof. reflexivity. Qed.
Theorem call_S cx pos kw :
  call_function cx "S" pos kw = with_sig3 ["data"; "omit"; "levels"] pos kw S_sem.
Proof. reflexivity. Qed.

(** The usual ways of passing the arguments, positional and keyword. *)
Theorem C_call_shapes cx x e l :
  call_function cx "C" [x] [] = C_sem x PNoneV PNoneV /\
  call_function cx "C" [x; e] [] = C_sem x e PNoneV /\
  call_function cx "C" [x; e; l] [] = C_sem x e l /\
  call_function cx "C" [x; e] [("levels", l)] = C_sem x e l /\
  call_function cx "C" [x] [("levels", l)] = C_sem x PNoneV l /\
  call_function cx "C" [x] [("contrast", e)] = C_sem x e PNoneV /\
  call_function cx "C" [x] [("contrast", e); ("levels", l)] = C_sem x e l /\
  call_function cx "C" [x] [("levels", l); ("contrast", e)] = C_sem x e l /\
  call_function cx "C" [] [("data", x); ("contrast", e); ("levels", l)] = C_sem x e l.
Proof. rewrite !call_C. repeat split; reflexivity. Qed.

Theorem T_call_shapes cx x r l :
  call_function cx "T" [x] [] = T_sem x PNoneV PNoneV /\
  call_function cx "T" [x; r] [] = T_sem x r PNoneV /\
  call_function cx "T" [x; r; l] [] = T_sem x r l /\
  call_function cx "T" [x; r] [("levels", l)] = T_sem x r l /\
  call_function cx "T" [x] [("levels", l)] = T_sem x PNoneV l /\
  call_function cx "T" [x] [("ref", r)] = T_sem x r PNoneV /\
  call_function cx "T" [x] [("ref", r); ("levels", l)] = T_sem x r l /\
  call_function cx "T" [x] [("levels", l); ("ref", r)] = T_sem x r l /\
  call_function cx "T" [] [("data", x); ("ref", r); ("levels", l)] = T_sem x r l.
Proof. repeat split; reflexivity. Qed.

Theorem S_call_shapes cx x o l :
  call_function cx "S" [x] [] = S_sem x PNoneV PNoneV /\
  call_function cx "S" [x; o] [] = S_sem x o PNoneV /\
  call_function cx "S" [x; o; l] [] = S_sem x o l /\
  call_function cx "S" [x; o] [("levels", l)] = S_sem x o l /\
  call_function cx "S" [x] [("levels", l)] = S_sem x PNoneV l /\
  call_function cx "S" [x] [("omit", o)] = S_sem x o PNoneV /\
  call_function cx "S" [x] [("omit", o); ("levels", l)] = S_sem x o l /\
  call_function cx "S" [x] [("levels", l); ("omit", o)] = S_sem x o l /\
  call_function cx "S" [] [("data", x); ("omit", o); ("levels", l)] = S_sem x o l.
Proof. repeat split; reflexivity. Qed.

(* too many arguments, an unknown keyword, an argument passed twice, no data: TypeError *)
Example C_call_binding_errors cx x e l z :
  call_function cx "C" [x; e; l; z] [] = Err EType /\
  call_function cx "C" [x] [("level", l)] = Err EType /\
  call_function cx "C" [x; e] [("contrast", e)] = Err EType /\
  call_function cx "C" [] [("levels", l)] = Err EType.
Proof. rewrite !call_C. repeat split; reflexivity. Qed.

(** ** Aliases: T(x, r, lv) = C(x, Treatment(r), lv) and S(x, o, lv) = C(x, Sum(o), lv) *)

(* the instances Treatment(r) and Sum(o) *)
Lemma Treatment_call cx r :
  call_function cx "Treatment" [r] [] = (do o <- as_label r; Ok (PEnc (Treatment o))).
Proof. reflexivity. Qed.
Lemma Sum_call cx o :
  call_function cx "Sum" [o] [] = (do o' <- as_label o; Ok (PEnc (Sum o'))).
Proof. reflexivity. Qed.

(** On the bound arguments, for every data argument that is not already a box, every second and
    every third argument (accepted or refused: the error is the same too). *)
Theorem T_sem_is_C_sem cx x r l :
  not_box x -> T_sem x r l = (do e <- call_function cx "Treatment" [r] []; C_sem x e l).
Proof.
  intros Hx. rewrite Treatment_call. unfold T_sem, C_sem.
  destruct (as_label r) as [o|k]; [|reflexivity]. cbn [bind as_encoding].
  destruct (as_levels l) as [lv|k]; [|reflexivity]. cbn [bind].
  destruct x; try contradiction; reflexivity.
Qed.

Theorem S_sem_is_C_sem cx x o l :
  not_box x -> S_sem x o l = (do e <- call_function cx "Sum" [o] []; C_sem x e l).
Proof.
  intros Hx. rewrite Sum_call. unfold S_sem, C_sem.
  destruct (as_label o) as [o'|k]; [|reflexivity]. cbn [bind as_encoding].
  destruct (as_levels l) as [lv|k]; [|reflexivity]. cbn [bind].
  destruct x; try contradiction; reflexivity.
Qed.

(** As calls: levels passed by position and by keyword, reference passed by position and by
    keyword. *)
Theorem T_is_C_Treatment_levels_all cx x r l :
  not_box x ->
  let C' pos kw := do e <- call_function cx "Treatment" [r] []; call_function cx "C" (pos e) (kw e) in
  call_function cx "T" [x; r; l] [] = C' (fun e => [x; e; l]) (fun _ => []) /\
  call_function cx "T" [x; r] [("levels", l)] = C' (fun e => [x; e]) (fun _ => [("levels", l)]) /\
  call_function cx "T" [x] [("ref", r); ("levels", l)]
    = C' (fun _ => [x]) (fun e => [("contrast", e); ("levels", l)]) /\
  call_function cx "T" [x] [("levels", l); ("ref", r)]
    = C' (fun _ => [x]) (fun e => [("levels", l); ("contrast", e)]).
Proof.
  intros Hx C'. pose proof (T_sem_is_C_sem cx x r l Hx) as H.
  destruct (T_call_shapes cx x r l) as (_ & _ & -> & -> & _ & _ & -> & -> & _).
  unfold C'. rewrite H. destruct (call_function cx "Treatment" [r] []) as [e|k]; [|auto].
  cbn [bind]. destruct (C_call_shapes cx x e l) as (_ & _ & -> & -> & _ & _ & -> & -> & _). auto.
Qed.

Theorem S_is_C_Sum_levels_all cx x o l :
  not_box x ->
  let C' pos kw := do e <- call_function cx "Sum" [o] []; call_function cx "C" (pos e) (kw e) in
  call_function cx "S" [x; o; l] [] = C' (fun e => [x; e; l]) (fun _ => []) /\
  call_function cx "S" [x; o] [("levels", l)] = C' (fun e => [x; e]) (fun _ => [("levels", l)]) /\
  call_function cx "S" [x] [("omit", o); ("levels", l)]
    = C' (fun _ => [x]) (fun e => [("contrast", e); ("levels", l)]) /\
  call_function cx "S" [x] [("levels", l); ("omit", o)]
    = C' (fun _ => [x]) (fun e => [("levels", l); ("contrast", e)]).
Proof.
  intros Hx C'. pose proof (S_sem_is_C_sem cx x o l Hx) as H.
  destruct (S_call_shapes cx x o l) as (_ & _ & -> & -> & _ & _ & -> & -> & _).
  unfold C'. rewrite H. destruct (call_function cx "Sum" [o] []) as [e|k]; [|auto].
  cbn [bind]. destruct (C_call_shapes cx x e l) as (_ & _ & -> & -> & _ & _ & -> & -> & _). auto.
Qed.

(* without a reference: T(x, levels=lv) = C(x, Treatment(), levels=lv) = C(x, Treatment, levels=lv) *)
Theorem T_default_is_C_Treatment_levels cx x l :
  not_box x ->
  call_function cx "T" [x] [("levels", l)] = C_sem x (PEnc (Treatment None)) l /\
  call_function cx "T" [x] [("levels", l)] = C_sem x (PEncClass false) l /\
  call_function cx "S" [x] [("levels", l)] = C_sem x (PEnc (Sum None)) l /\
  call_function cx "S" [x] [("levels", l)] = C_sem x (PEncClass true) l.
Proof.
  intros Hx. destruct (T_call_shapes cx x PNoneV l) as (_ & _ & _ & _ & -> & _).
  destruct (S_call_shapes cx x PNoneV l) as (_ & _ & _ & _ & -> & _).
  unfold T_sem, S_sem, C_sem. cbn [as_label as_encoding bind].
  destruct (as_levels l); cbn [bind]; [|auto]. destruct x; try contradiction; auto.
Qed.

(** The alias does NOT extend to data that is already a box: C re-boxes, T and S refuse. *)
Example T_of_box_refuted cx :
  let b := PBox false [Some "a"; Some "b"] None None in
  call_function cx "T" [b; PStr "b"] [] = Err EValue /\
  call_function cx "C" [b; PEnc (Treatment (Some "b"))] []
  = Ok (PBox false [Some "a"; Some "b"] (Some (Treatment (Some "b"))) None).
Proof. split; reflexivity. Qed.

(** ** The value of the calls *)

Lemma series_strings_spec x :
  series_strings x =
  match x with
  | PStrs o xs => Ok (false, o, xs)
  | PSeries true xs => Ok (true, None, int_strings xs)
  | PSeries false _ => Err EUnsupported
  | _ => Err EValue
  end.
Proof. destruct x as [[|] ?|?|? ?|? ?|?|?| |?|?|?|? ? ? ?|? ?|? ? ?]; reflexivity. Qed.

Theorem box_of_series x c lv num o d :
  series_strings x = Ok (num, o, d) -> box_of x c lv = mk_box num o d c lv.
Proof. intros H. unfold box_of. rewrite H. reflexivity. Qed.

(** C / T / S of a string (or categorical) column, and of an integer column. *)
Corollary box_of_strs o xs c lv : box_of (PStrs o xs) c lv = mk_box false o xs c lv.
Proof. reflexivity. Qed.
Corollary box_of_ints xs c lv : box_of (PSeries true xs) c lv = mk_box true None (int_strings xs) c lv.
Proof. reflexivity. Qed.
(* a float column is outside the model, anything else is a ValueError *)
Corollary box_of_floats xs c lv : box_of (PSeries false xs) c lv = Err EUnsupported.
Proof. reflexivity. Qed.

(* the three calls only ever produce boxes *)
Definition is_box (v : pyval) : Prop := match v with PBox _ _ _ _ => True | _ => False end.

Lemma mk_box_is_box num o d c lv v : mk_box num o d c lv = Ok v -> is_box v.
Proof. intros H. apply mk_box_ok_iff in H as [_ ->]. exact I. Qed.

Lemma box_of_is_box x c lv v : box_of x c lv = Ok v -> is_box v.
Proof.
  unfold box_of. intros H. apply bind_ok in H as (s & _ & H). eapply mk_box_is_box; eauto.
Qed.

Lemma CTS_is_box cx f pos kw v :
  In f ["C"; "T"; "S"] -> call_function cx f pos kw = Ok v -> is_box v.
Proof.
  intros [<-|[<-|[<-|[]]]]; [rewrite call_C|rewrite call_T|rewrite call_S]; unfold with_sig3;
    (destruct (negb (check_kw _ kw)); [discriminate|]); intros H;
    apply bind_ok in H as (b & _ & H);
    (destruct (forallb _ _); [|discriminate]).
  - unfold C_sem in H. apply bind_ok in H as (c & _ & H). apply bind_ok in H as (lv & _ & H).
    destruct (arg _ b); try (eapply box_of_is_box; exact H). eapply mk_box_is_box; exact H.
  - unfold T_sem in H. apply bind_ok in H as (c & _ & H). apply bind_ok in H as (lv & _ & H).
    eapply box_of_is_box; exact H.
  - unfold S_sem in H. apply bind_ok in H as (c & _ & H). apply bind_ok in H as (lv & _ & H).
    eapply box_of_is_box; exact H.
Qed.

(* ------------------------------------------------------------------------------------------ *)
(** ** From the call term to the typed component ([set_type_comp]) *)

(* call terms none of whose sub-calls is a stateful transform (center, scale, standardize, bs,
   poly): their evaluation neither reads nor records transform parameters *)
Fixpoint stateless (l : lazy) : bool :=
  match l with
  | LzOp _ args => forallb stateless args
  | LzVar _ | LzVal _ _ => true
  | LzCall c args kw =>
      negb (existsb (String.eqb c) stateful_names) && forallb stateless args
      && forallb (fun kv => stateless (snd kv)) kw
  end.

(* the value of a call tree *)
Definition value (cx : ectx) (l : lazy) : res pyval := do r <- eval_lazy cx [] l; Ok (fst (fst r)).
Definition kwvalue (cx : ectx) (kv : string * lazy) : res (string * pyval) :=
  do v <- value cx (snd kv); Ok (fst kv, v).

Definition pure_at (cx : ectx) (l : lazy) : Prop :=
  forall st, eval_lazy cx st l = (do v <- value cx l; Ok (v, st, [])).

Lemma pure_at_ok cx l v : pure_at cx l -> value cx l = Ok v -> forall st, eval_lazy cx st l = Ok (v, st, []).
Proof. intros Hp Hv st. rewrite (Hp st), Hv. reflexivity. Qed.
Lemma pure_at_err cx l k : pure_at cx l -> value cx l = Err k -> forall st, eval_lazy cx st l = Err k.
Proof. intros Hp Hv st. rewrite (Hp st), Hv. reflexivity. Qed.

Lemma eval_args_pure cx args :
  Forall (pure_at cx) args -> forall st vals rec,
  eval_args (eval_lazy cx) args st vals rec = (do vs <- mapM (value cx) args; Ok (vals ++ vs, st, rec)).
Proof.
  induction 1 as [|a args Ha _ IH]; intros st vals rec; cbn [eval_args mapM].
  - cbn [bind]. rewrite app_nil_r. reflexivity.
  - destruct (value cx a) as [v|k] eqn:E.
    + rewrite (pure_at_ok _ _ _ Ha E). cbn [bind fst snd]. rewrite IH.
      destruct (mapM (value cx) args) as [vs|]; [|reflexivity]. cbn [bind].
      rewrite <- app_assoc, app_nil_r. reflexivity.
    + rewrite (pure_at_err _ _ _ Ha E). reflexivity.
Qed.

Lemma eval_kwargs_pure cx (kw : list (string * lazy)) :
  Forall (fun kv => pure_at cx (snd kv)) kw -> forall st vals rec,
  eval_kwargs (eval_lazy cx) kw st vals rec = (do vs <- mapM (kwvalue cx) kw; Ok (vals ++ vs, st, rec)).
Proof.
  induction 1 as [|[k a] kw Ha _ IH]; intros st vals rec; cbn [eval_kwargs mapM].
  - cbn [bind]. rewrite app_nil_r. reflexivity.
  - unfold kwvalue at 1. cbn [fst snd] in *. destruct (value cx a) as [v|e] eqn:E.
    + rewrite (pure_at_ok _ _ _ Ha E). cbn [bind fst snd]. rewrite IH.
      destruct (mapM (kwvalue cx) kw) as [vs|]; [|reflexivity]. cbn [bind].
      rewrite <- app_assoc, app_nil_r. reflexivity.
    + rewrite (pure_at_err _ _ _ Ha E). reflexivity.
Qed.

(* a call of a plain function whose arguments are pure *)
Lemma eval_call_pure cx st c args kw :
  existsb (String.eqb c) stateful_names = false ->
  Forall (pure_at cx) args -> Forall (fun kv => pure_at cx (snd kv)) kw ->
  eval_lazy cx st (LzCall c args kw) =
  if negb (known_callee c) then
    (match assoc c (e_extra cx) with Some _ => Err EUnsupported | None => Err EKey end)
  else
    do pos <- mapM (value cx) args; do kws <- mapM (kwvalue cx) kw;
    do v <- call_function cx c pos kws; Ok (v, st, []).
Proof.
  intros Hs Ha Hk. rewrite eval_lazy_call. destruct (negb (known_callee c)); [reflexivity|].
  rewrite (eval_args_pure cx args Ha). destruct (mapM (value cx) args) as [pos|]; [|reflexivity].
  cbn [bind fst snd app]. rewrite (eval_kwargs_pure cx kw Hk).
  destruct (mapM (kwvalue cx) kw) as [kws|]; [|reflexivity].
  cbn [bind fst snd app]. rewrite Hs. reflexivity.
Qed.

Lemma forallb_Forall {T} (p : T -> bool) (P : T -> Prop) l :
  Forall (fun x => p x = true -> P x) l -> forallb p l = true -> Forall P l.
Proof.
  induction 1 as [|x l Hx _ IH]; intros H; [constructor|].
  simpl in H. apply andb_true_iff in H as [H1 H2]. constructor; auto.
Qed.

(** A stateless call tree evaluates to its value, passes the state through and records nothing. *)
Theorem stateless_pure cx l : stateless l = true -> pure_at cx l.
Proof.
  induction l as [sym args IH|n|v lx|c args kw IHa IHk] using lazy_ind'; intros Hs.
  - cbn [stateless] in Hs. pose proof (forallb_Forall _ _ _ IH Hs) as Hp. clear IH Hs.
    intros st. unfold value.
    destruct args as [|a [|b [|c r]]]; try reflexivity.
    + inversion Hp as [|? ? Ha _]; subst. cbn [eval_lazy].
      destruct (value cx a) as [va|k] eqn:E.
      * rewrite !(pure_at_ok _ _ _ Ha E). cbn [bind fst snd].
        destruct (apply_unop sym va); reflexivity.
      * rewrite !(pure_at_err _ _ _ Ha E). reflexivity.
    + inversion Hp as [|? ? Ha Hp']; subst. inversion Hp' as [|? ? Hb _]; subst. cbn [eval_lazy].
      destruct (value cx a) as [va|k] eqn:E.
      * rewrite !(pure_at_ok _ _ _ Ha E). cbn [bind fst snd].
        destruct (value cx b) as [vb|k] eqn:E2.
        -- rewrite !(pure_at_ok _ _ _ Hb E2). cbn [bind fst snd].
           destruct (apply_binop sym va vb); reflexivity.
        -- rewrite !(pure_at_err _ _ _ Hb E2). reflexivity.
      * rewrite !(pure_at_err _ _ _ Ha E). reflexivity.
  - intros st. unfold value. cbn [eval_lazy]. destruct (lookup_name cx n); reflexivity.
  - intros st. reflexivity.
  - cbn [stateless] in Hs. apply andb_true_iff in Hs as [Hs Hk]. apply andb_true_iff in Hs as [Hs Ha].
    apply negb_true_iff in Hs.
    pose proof (forallb_Forall _ _ _ IHa Ha) as Hpa.
    pose proof (forallb_Forall (fun kv => stateless (snd kv)) (fun kv => pure_at cx (snd kv)) _ IHk Hk) as Hpk.
    intros st. unfold value. rewrite !(eval_call_pure cx _ c args kw Hs Hpa Hpk).
    destruct (negb (known_callee c)); [destruct (assoc c (e_extra cx)); reflexivity|].
    destruct (mapM (value cx) args); [|reflexivity]. cbn [bind].
    destruct (mapM (kwvalue cx) kw); [|reflexivity]. cbn [bind].
    destruct (call_function cx c _ _); reflexivity.
Qed.

(* values of the argument forms that occur in practice *)
Lemma value_var cx n : value cx (LzVar n) = lookup_name cx n.
Proof. unfold value. cbn [eval_lazy]. destruct (lookup_name cx n); reflexivity. Qed.
Lemma value_lit cx v lx : value cx (LzVal v lx) = Ok (lit_value v).
Proof. reflexivity. Qed.
Lemma lookup_column cx n c : assoc n (e_data cx) = Some c -> lookup_name cx n = Ok (col_value c).
Proof. intros H. unfold lookup_name. rewrite H. reflexivity. Qed.
(* a name of the caller's namespace (for instance a list of levels) *)
Lemma lookup_extra cx n v :
  assoc n (e_data cx) = None -> builtin_value n = None -> known_callee n = false ->
  assoc n (e_extra cx) = Some v -> lookup_name cx n = Ok v.
Proof.
  intros H1 H2 H3 H4. unfold lookup_name. unfold known_callee in H3. rewrite H1, H2, H3, H4. reflexivity.
Qed.
(* Treatment, Sum as classes, Treatment("r"), Sum("o") as instances (names not shadowed by columns) *)
Lemma value_enc_forms cx r lx :
  assoc "Treatment" (e_data cx) = None -> assoc "Sum" (e_data cx) = None ->
  value cx (LzVar "Treatment") = Ok (PEncClass false) /\
  value cx (LzVar "Sum") = Ok (PEncClass true) /\
  value cx (LzCall "Treatment" [] []) = Ok (PEnc (Treatment None)) /\
  value cx (LzCall "Sum" [] []) = Ok (PEnc (Sum None)) /\
  value cx (LzCall "Treatment" [LzVal (LStr r) lx] []) = Ok (PEnc (Treatment (Some r))) /\
  value cx (LzCall "Sum" [LzVal (LStr r) lx] []) = Ok (PEnc (Sum (Some r))) /\
  value cx (LzCall "Treatment" [] [("reference", LzVal (LStr r) lx)]) = Ok (PEnc (Treatment (Some r))) /\
  value cx (LzCall "Sum" [] [("omit", LzVal (LStr r) lx)]) = Ok (PEnc (Sum (Some r))).
Proof.
  intros H1 H2. rewrite !value_var. unfold lookup_name. rewrite H1, H2. repeat split; reflexivity.
Qed.

(** The typed component of a call C(...), T(...) or S(...) with stateless arguments: the arguments
    are evaluated (positional ones first), the function is applied, and the component is
    categoric, named by the text of the call, with the box as its value and no transform state. *)
Theorem CTS_set_type cx data resp f args kw :
  In f ["C"; "T"; "S"] ->
  forallb stateless args = true -> forallb (fun kv => stateless (snd kv)) kw = true ->
  let E := ECtx data (d_extra cx) (d_sqrt cx) true in
  set_type_comp cx data resp (CCall (LzCall f args kw)) =
  (do pos <- mapM (value E) args; do kws <- mapM (kwvalue E) kw;
   do v <- call_function E f pos kws;
   Ok (TC (lazy_str (LzCall f args kw)) (CCall (LzCall f args kw)) KCategoric v [] resp None)).
Proof.
  intros Hf Ha Hk E. unfold set_type_comp. fold E.
  assert (Hs : existsb (String.eqb f) stateful_names = false)
    by (destruct Hf as [<-|[<-|[<-|[]]]]; reflexivity).
  assert (Hkn : negb (known_callee f) = false)
    by (destruct Hf as [<-|[<-|[<-|[]]]]; reflexivity).
  assert (Hpa : Forall (pure_at E) args).
  { apply (forallb_Forall stateless); [|assumption]. apply Forall_forall. intros a _. apply stateless_pure. }
  assert (Hpk : Forall (fun kv => pure_at E (snd kv)) kw).
  { apply (forallb_Forall (fun kv => stateless (snd kv))); [|assumption].
    apply Forall_forall. intros a _. apply stateless_pure. }
  rewrite (eval_call_pure E [] f args kw Hs Hpa Hpk), Hkn.
  destruct (mapM (value E) args) as [pos|]; [|reflexivity]. cbn [bind].
  destruct (mapM (kwvalue E) kw) as [kws|]; [|reflexivity]. cbn [bind].
  destruct (call_function E f pos kws) as [v|] eqn:Ec; [|reflexivity]. cbn [bind fst snd].
  pose proof (CTS_is_box E f pos kws v Hf Ec) as Hb. destruct v; try contradiction. reflexivity.
Qed.

(* ------------------------------------------------------------------------------------------ *)
(** * 4. The options of the codings, on [code] *)

(* the level an encoding names *)
Definition option_level (enc : encoding) : option string :=
  match enc with Treatment r => r | Sum o => o end.

(* the level that is left out: the named one; by default the FIRST level for Treatment and the
   LAST level for Sum *)
Definition left_out (enc : encoding) (lv : list string) : string :=
  match enc with
  | Treatment ref => treatment_reference ref lv
  | Sum omit => sum_omitted omit lv
  end.

Example left_out_defaults lv :
  left_out (Treatment None) lv = hd "" lv /\ left_out (Sum None) lv = last lv "" /\
  forall s, left_out (Treatment (Some s)) lv = s /\ left_out (Sum (Some s)) lv = s.
Proof. repeat split. Qed.

(* is the reference consulted at all?  Treatment.code_with_intercept is the identity matrix and
   never looks at the reference *)
Definition consults_reference (enc : encoding) (spans : bool) : bool :=
  match enc with Treatment _ => negb spans | Sum _ => true end.

(* the coding is accepted: a named level that is consulted must be a level *)
Definition option_ok (enc : encoding) (spans : bool) (lv : list string) : Prop :=
  match option_level enc with
  | Some s => consults_reference enc spans = true -> In s lv
  | None => True
  end.

(** [ref_index]: the position of the named level (its first occurrence), ValueError when it is
    not a level; the defaults are position 0 and the last position and are never refused. *)
Theorem ref_index_spec enc lv :
  match option_level enc with
  | Some s => (In s lv -> exists k, ref_index enc lv = Ok k /\ index_of s lv = Some k /\
                                    k < List.length lv /\ nth k lv "" = s) /\
              (~ In s lv -> ref_index enc lv = Err EValue)
  | None => ref_index enc lv = Ok (match enc with Treatment _ => 0 | Sum _ => List.length lv - 1 end)
  end.
Proof.
  assert (G : forall s, (In s lv -> exists k, match index_of s lv with Some k => Ok k | None => Err EValue end = Ok k /\
                                      index_of s lv = Some k /\ k < List.length lv /\ nth k lv "" = s) /\
                        (~ In s lv -> match index_of s lv with Some k => Ok k | None => @Err nat EValue end = Err EValue)).
  { intros s. destruct (index_of s lv) as [k|] eqn:E.
    - destruct (index_of_Some _ _ _ "" E) as [Hk Hx]. split.
      + intros _. exists k. auto.
      + intros Hn. exfalso. apply Hn. rewrite <- Hx. apply nth_In. assumption.
    - apply index_of_None in E. split; [contradiction|reflexivity]. }
  destruct enc as [[s|]|[s|]]; cbn [option_level ref_index]; auto.
Qed.

Lemma ref_index_left_out enc lv k : ref_index enc lv = Ok k -> nth k lv "" = left_out enc lv.
Proof.
  destruct enc; intros H; [apply ref_index_treatment_reference|apply ref_index_sum_omitted]; assumption.
Qed.

(** When is a coding refused?  Exactly when it names a level that is not one of the levels AND
    consults it; the error is ValueError. *)
Theorem code_accept_iff enc spans lv :
  (option_ok enc spans lv -> exists cm, code enc spans lv = Ok cm) /\
  (~ option_ok enc spans lv -> code enc spans lv = Err EValue).
Proof.
  pose proof (ref_index_spec enc lv) as R. unfold option_ok.
  destruct enc as [[s|]|[s|]]; cbn [option_level consults_reference] in *; destruct spans;
    cbn [code code_with_intercept negb]; unfold code_without_intercept; cbn [bind].
  - split; [intros _; eexists; reflexivity|]. intros H. exfalso. apply H. discriminate.
  - destruct R as [R1 R2]. split.
    + intros H. destruct (R1 (H eq_refl)) as (k & -> & _). cbn [bind]. eexists; reflexivity.
    + intros H. rewrite R2; [reflexivity|]. auto.
  - split; [intros _; eexists; reflexivity|]. intros H. exfalso. apply H. exact I.
  - split; [intros _; eexists; reflexivity|]. intros H. exfalso. apply H. exact I.
  - destruct R as [R1 R2]. split.
    + intros H. destruct (R1 (H eq_refl)) as (k & -> & _). cbn [bind]. eexists; reflexivity.
    + intros H. rewrite R2; [reflexivity|]. auto.
  - destruct R as [R1 R2]. split.
    + intros H. destruct (R1 (H eq_refl)) as (k & -> & _). cbn [bind]. eexists; reflexivity.
    + intros H. rewrite R2; [reflexivity|]. auto.
  - split; [intros _; eexists; reflexivity|]. intros H. exfalso. apply H. exact I.
  - split; [intros _; eexists; reflexivity|]. intros H. exfalso. apply H. exact I.
Qed.

(* the four readings of the task, spelled out *)
Corollary treatment_reference_refused r lv :
  (code (Treatment (Some r)) false lv = Err EValue <-> ~ In r lv) /\
  (forall cm, code (Treatment (Some r)) false lv = Ok cm -> In r lv).
Proof.
  destruct (code_accept_iff (Treatment (Some r)) false lv) as [H1 H2]. unfold option_ok in *.
  cbn [option_level consults_reference negb] in *.
  assert (D : In r lv \/ ~ In r lv) by (destruct (in_dec string_dec r lv); auto).
  split.
  - split.
    + intros E Hin. destruct (H1 (fun _ => Hin)) as (cm & Hcm). congruence.
    + intros Hn. apply H2. intros H. apply Hn. apply H. reflexivity.
  - intros cm E. destruct D as [Hin|Hn]; [assumption|].
    rewrite H2 in E; [discriminate|]. intros H. apply Hn. apply H. reflexivity.
Qed.

Corollary sum_omit_refused o spans lv :
  (code (Sum (Some o)) spans lv = Err EValue <-> ~ In o lv) /\
  (forall cm, code (Sum (Some o)) spans lv = Ok cm -> In o lv).
Proof.
  destruct (code_accept_iff (Sum (Some o)) spans lv) as [H1 H2]. unfold option_ok in *.
  cbn [option_level consults_reference] in *.
  assert (D : In o lv \/ ~ In o lv) by (destruct (in_dec string_dec o lv); auto).
  split.
  - split.
    + intros E Hin. destruct (H1 (fun _ => Hin)) as (cm & Hcm). congruence.
    + intros Hn. apply H2. intros H. apply Hn. apply H. reflexivity.
  - intros cm E. destruct D as [Hin|Hn]; [assumption|].
    rewrite H2 in E; [discriminate|]. intros H. apply Hn. apply H. reflexivity.
Qed.

Corollary default_option_never_refused spans lv :
  (exists cm, code (Treatment None) spans lv = Ok cm) /\ (exists cm, code (Sum None) spans lv = Ok cm).
Proof.
  split; [apply (code_accept_iff (Treatment None) spans lv)|apply (code_accept_iff (Sum None) spans lv)];
    exact I.
Qed.

(** "T(x, r) is refused iff r is not a level" is FALSE under full-rank coding: the identity matrix
    of Treatment.code_with_intercept never consults the reference. *)
Theorem treatment_bad_reference_full_refuted :
  exists r lv cm, ~ In r lv /\ code (Treatment (Some r)) true lv = Ok cm /\ clabels cm = lv.
Proof.
  exists "zzz", ["a"; "b"]. eexists. split; [|split; reflexivity].
  intros [H|[H|[]]]; discriminate H.
Qed.

(* the levels that get a column, and the labels of the contrast *)
Definition kept_levels (enc : encoding) (spans : bool) (lv : list string) : list string :=
  match enc with
  | Treatment _ => if spans then lv else without (left_out enc lv) lv
  | Sum _ => without (left_out enc lv) lv
  end.
Definition contrast_labels (enc : encoding) (spans : bool) (lv : list string) : list string :=
  match enc with
  | Treatment _ => kept_levels enc spans lv
  | Sum _ => if spans then "mean" :: kept_levels enc spans lv else kept_levels enc spans lv
  end.

(** Labels, in general (levels= may repeat a level): the position found by [ref_index] is dropped. *)
Theorem code_labels_pos enc spans lv cm :
  code enc spans lv = Ok cm ->
  match enc, spans with
  | Treatment _, true => clabels cm = lv
  | Treatment _, false => exists k, ref_index enc lv = Ok k /\ clabels cm = drop_nth k lv
  | Sum _, true => exists k, ref_index enc lv = Ok k /\ clabels cm = "mean" :: drop_nth k lv
  | Sum _, false => exists k, ref_index enc lv = Ok k /\ clabels cm = drop_nth k lv
  end.
Proof.
  destruct enc, spans; cbn [code code_with_intercept]; unfold code_without_intercept; intros H.
  - injection H as <-. reflexivity.
  - apply bind_ok in H as (k & Hk & H). injection H as <-. eauto.
  - apply bind_ok in H as (k & Hk & H). injection H as <-. eauto.
  - apply bind_ok in H as (k & Hk & H). injection H as <-. eauto.
Qed.

Lemma drop_nth_left_out enc lv k :
  NoDup lv -> ref_index enc lv = Ok k -> drop_nth k lv = without (left_out enc lv) lv.
Proof.
  intros Hnd Hk. destruct lv as [|l0 lv'] eqn:E; [destruct k; reflexivity|]. rewrite <- E in *.
  assert (Hn : 0 < List.length lv) by (rewrite E; simpl; lia).
  assert (Hlt : k < List.length lv)
    by (destruct enc; [eapply ref_index_treatment_lt|eapply ref_index_sum_lt]; eauto).
  rewrite (drop_nth_without lv k Hnd Hlt), (ref_index_left_out enc lv k Hk). reflexivity.
Qed.

(** Labels, for duplicate-free levels: the levels without the level left out, in level order;
    all levels under full Treatment coding; "mean" in front under full Sum coding. *)
Theorem code_labels enc spans lv cm :
  NoDup lv -> code enc spans lv = Ok cm -> clabels cm = contrast_labels enc spans lv.
Proof.
  intros Hnd H. pose proof (code_labels_pos enc spans lv cm H) as P.
  unfold contrast_labels, kept_levels. destruct enc, spans.
  - exact P.
  - destruct P as (k & Hk & ->). apply drop_nth_left_out; assumption.
  - destruct P as (k & Hk & ->). f_equal. apply drop_nth_left_out; assumption.
  - destruct P as (k & Hk & ->). apply drop_nth_left_out; assumption.
Qed.

(* the kept levels are the levels other than the one left out, in level order *)
Lemma kept_levels_In enc spans lv l :
  In l (kept_levels enc spans lv) <->
  In l lv /\ (consults_reference enc spans = true -> l <> left_out enc lv).
Proof.
  unfold kept_levels. destruct enc, spans; cbn [consults_reference negb]; rewrite ?without_In;
    intuition congruence.
Qed.

Lemma without_sublist o lv : exists keep, without o lv = select keep lv /\ List.length keep = List.length lv.
Proof.
  unfold without. induction lv as [|x lv (keep & IH & Hl)]; [exists []; auto|].
  exists (negb (String.eqb x o) :: keep). cbn [filter select List.length].
  destruct (negb (String.eqb x o)); rewrite IH, Hl; auto.
Qed.

(** The entries: the coded row of a value x (a level or not). *)
Definition coded_row (enc : encoding) (spans : bool) (lv : list string) (x : string) : list cell :=
  match enc with
  | Treatment _ => map (ind x) (kept_levels enc spans lv)
  | Sum _ => sum_row spans lv (left_out enc lv) x (kept_levels enc spans lv)
  end.

(* only a full Sum coding needs a level to exist: with no level at all its matrix has no column
   while its labels are ["mean"] (DesignSum.sum_full_no_levels_refuted) *)
Definition entries_premise (enc : encoding) (spans : bool) (lv : list string) : Prop :=
  match enc with Sum _ => spans = true -> lv <> [] | Treatment _ => True end.

Theorem code_entries enc spans lv cm x :
  NoDup lv -> code enc spans lv = Ok cm -> entries_premise enc spans lv ->
  code_row (cmatrix cm) (contrast_width cm) (index_of x lv) = coded_row enc spans lv x.
Proof.
  intros Hnd H Hne. pose proof (code_labels enc spans lv cm Hnd H) as Hl.
  destruct enc as [ref|omit]; unfold coded_row; cbn [entries_premise] in Hne.
  - destruct (treatment_code_row ref spans lv cm x Hnd H) as (-> & _). rewrite Hl. reflexivity.
  - destruct (sum_code_row omit spans lv cm x Hnd H Hne) as (_ & -> & _). reflexivity.
Qed.

(* ------------------------------------------------------------------------------------------ *)
(** * 5. End to end: [set_type_comp] + [set_data_comp] *)

(* the levels of a box: levels= / the declared order when there is one, else the sorted values *)
Definition box_comp_levels (num : bool) (d : list (option string)) (lvo : option (list string))
  : list string :=
  match lvo with Some l => l | None => sort_levels num (present d) end.
(* the encoding of a box: Treatment() when none is given *)
Definition box_comp_encoding (enc : option encoding) : encoding :=
  match enc with Some e => e | None => Treatment None end.

(* the coded row of a possibly missing value: a missing value is coded by zeros *)
Definition ocoded_row (enc : encoding) (spans : bool) (lv : list string) (ox : option string)
  : list cell :=
  match enc with
  | Treatment _ => map (oind ox) (kept_levels enc spans lv)
  | Sum _ => osum_row spans lv (left_out enc lv) ox (kept_levels enc spans lv)
  end.

Lemma ocoded_row_Some enc spans lv x : ocoded_row enc spans lv (Some x) = coded_row enc spans lv x.
Proof. destruct enc, spans; reflexivity. Qed.

(** The levels of a box are duplicate-free when levels= (or the declared order) is; the sorted
    distinct values always are. *)
Lemma box_comp_levels_NoDup num d lvo :
  (forall l, lvo = Some l -> NoDup l) -> NoDup (box_comp_levels num d lvo).
Proof. intros H. destruct lvo as [l|]; [apply H; reflexivity|apply sort_levels_NoDup]. Qed.

Lemma box_comp_levels_None_NoDup num d : NoDup (box_comp_levels num d None).
Proof. apply sort_levels_NoDup. Qed.

Lemma option_ok_dec e spans lv : option_ok e spans lv \/ ~ option_ok e spans lv.
Proof.
  unfold option_ok. destruct (option_level e) as [s|]; [|left; exact I].
  destruct (consults_reference e spans).
  - destruct (in_dec string_dec s lv) as [H|H]; [left; intros _; exact H|right; intros H'; apply H, H'; reflexivity].
  - left. discriminate.
Qed.

(** A component whose value is a box, on [set_data_comp]: it is accepted exactly when its levels
    are duplicate-free (pd.Categorical refuses repeated categories) and the option of its encoding
    is acceptable for its levels (otherwise ValueError), and then
      - its levels are levels= in the given order / the sorted distinct values,
      - its contrast labels are the kept levels (with "mean" in front under full Sum coding),
      - its labels are name[l] for the contrast labels l,
      - row i is the coded row of the i-th value.
    Only the entries of a full Sum coding need a further premise: at least one level
    ([entries_premise]). *)
Theorem box_component t spans nrows num d enc lvo :
  tc_kind t = KCategoric -> tc_value t = PBox num d enc lvo ->
  let e := box_comp_encoding enc in
  let lv := box_comp_levels num d lvo in
  (NoDup lv -> option_ok e spans lv ->
   exists dc cm,
     set_data_comp t spans nrows = Ok dc /\
     dc_t dc = t /\ dc_spans dc = spans /\ dc_levels dc = lv /\
     dc_contrast dc = Some cm /\ code e spans lv = Ok cm /\
     List.length (dc_rows dc) = List.length d /\
     clabels cm = contrast_labels e spans lv /\
     dc_labels dc = Some (map (comp_label t) (contrast_labels e spans lv)) /\
     (entries_premise e spans lv -> dc_rows dc = map (ocoded_row e spans lv) d)) /\
  (~ (NoDup lv /\ option_ok e spans lv) -> set_data_comp t spans nrows = Err EValue).
Proof.
  intros Hk Hv e lv.
  assert (Hset : set_data_comp t spans nrows =
                 if negb (dupfree lv) then Err EValue else
                 (do cm <- code e spans lv;
                  Ok (DC t lv (Some cm) (code_rows (cmatrix cm) (contrast_width cm) (level_codes lv d))
                         (Some (map (comp_label t) (clabels cm))) spans))).
  { exact (set_data_comp_box t spans nrows num d enc lvo Hk Hv). }
  destruct (code_accept_iff e spans lv) as [Hok Hbad]. split.
  - intros Hnd Ho. destruct (Hok Ho) as (cm & Hcm).
    rewrite Hset, (proj2 (dupfree_iff lv) Hnd), Hcm. cbn [negb bind].
    eexists. exists cm. split; [reflexivity|]. cbn [dc_t dc_spans dc_levels dc_contrast dc_rows dc_labels].
    repeat (split; [reflexivity|]). split.
    { unfold code_rows, level_codes. rewrite !map_length. reflexivity. }
    pose proof (code_labels e spans lv cm Hnd Hcm) as Hl.
    split; [assumption|]. split; [rewrite Hl; reflexivity|].
    intros Hne. rewrite code_rows_map. unfold level_codes. rewrite map_map. apply map_ext. intros [x|].
    + rewrite ocoded_row_Some. apply code_entries; assumption.
    + (* a missing value: zeros, as many as any other row has *)
      cbn [code_row].
      assert (W : contrast_width cm = List.length (coded_row e spans lv "")).
      { rewrite <- (code_entries e spans lv cm "" Hnd Hcm Hne).
        destruct (index_of "" lv) as [k|] eqn:E; cbn [code_row]; [|rewrite repeat_length; reflexivity].
        destruct lv as [|l0 lv'] eqn:Elv; [discriminate E|]. fold lv in Elv. rewrite <- Elv in *.
        assert (Hn : 0 < List.length lv) by (rewrite Elv; simpl; lia).
        destruct (index_of_Some _ _ _ "" E) as [Hlt _].
        destruct e, spans; cbn [code code_with_intercept] in Hcm; unfold code_without_intercept in Hcm;
          try (apply bind_ok in Hcm as (r & _ & Hcm)); injection Hcm as <-;
          rewrite build_width by assumption; cbn [cmatrix];
          rewrite build_nth, !map_length, seq_length by assumption; reflexivity. }
      rewrite W. unfold coded_row, ocoded_row, sum_row, osum_row.
      destruct e, spans; cbn [List.length repeat omeanc]; rewrite ?map_length; try f_equal;
        symmetry; apply map_const_repeat; reflexivity.
  - intros Hn. rewrite Hset. destruct (dupfree lv) eqn:Ed; [|reflexivity]. cbn [negb].
    rewrite Hbad; [reflexivity|]. intros Ho. apply Hn. split; [apply dupfree_iff; exact Ed|exact Ho].
Qed.

(** The two directions read as an equivalence: acceptance is exactly "duplicate-free levels and an
    acceptable option"; every refusal is a ValueError. *)
Corollary box_component_ok_iff t spans nrows num d enc lvo :
  tc_kind t = KCategoric -> tc_value t = PBox num d enc lvo ->
  let e := box_comp_encoding enc in
  let lv := box_comp_levels num d lvo in
  ((exists dc, set_data_comp t spans nrows = Ok dc) <-> NoDup lv /\ option_ok e spans lv) /\
  (forall k, set_data_comp t spans nrows = Err k -> k = EValue).
Proof.
  intros Hk Hv e lv. destruct (box_component t spans nrows num d enc lvo Hk Hv) as [Bok Bbad].
  fold e lv in Bok, Bbad.
  assert (D : (NoDup lv /\ option_ok e spans lv) \/ ~ (NoDup lv /\ option_ok e spans lv)).
  { destruct (NoDup_str_dec lv); destruct (option_ok_dec e spans lv); tauto. }
  split.
  - split.
    + intros (dc & Hdc). destruct D as [D|D]; [exact D|]. rewrite (Bbad D) in Hdc. discriminate.
    + intros [Hnd Ho]. destruct (Bok Hnd Ho) as (dc & _ & Hdc & _). eauto.
  - intros k Hk'. destruct D as [[Hnd Ho]|D].
    + destruct (Bok Hnd Ho) as (dc & _ & Hdc & _). congruence.
    + rewrite (Bbad D) in Hk'. congruence.
Qed.

(** A repeated level is refused, whatever the encoding and the coding. *)
Corollary box_duplicate_levels_refused t spans nrows num d enc l :
  tc_kind t = KCategoric -> tc_value t = PBox num d enc (Some l) -> ~ NoDup l ->
  set_data_comp t spans nrows = Err EValue.
Proof.
  intros Hk Hv Hn. apply (box_component t spans nrows num d enc (Some l) Hk Hv).
  intros [Hnd _]. exact (Hn Hnd).
Qed.

(** Without levels= (and without a declared order) the levels are the sorted distinct values, which
    never repeat: the acceptance condition is the one on the option alone. *)
Corollary box_component_sorted t spans nrows num d enc :
  tc_kind t = KCategoric -> tc_value t = PBox num d enc None ->
  let e := box_comp_encoding enc in
  let lv := sort_levels num (present d) in
  (option_ok e spans lv ->
   exists dc cm,
     set_data_comp t spans nrows = Ok dc /\
     dc_t dc = t /\ dc_spans dc = spans /\ dc_levels dc = lv /\
     dc_contrast dc = Some cm /\ code e spans lv = Ok cm /\
     List.length (dc_rows dc) = List.length d /\
     clabels cm = contrast_labels e spans lv /\
     dc_labels dc = Some (map (comp_label t) (contrast_labels e spans lv)) /\
     (entries_premise e spans lv -> dc_rows dc = map (ocoded_row e spans lv) d)) /\
  (~ option_ok e spans lv -> set_data_comp t spans nrows = Err EValue).
Proof.
  intros Hk Hv e lv. destruct (box_component t spans nrows num d enc None Hk Hv) as [Bok Bbad].
  pose proof (sort_levels_NoDup num (present d)) as Hnd. split.
  - intros Ho. exact (Bok Hnd Ho).
  - intros Hn. apply Bbad. intros [_ Ho]. exact (Hn Ho).
Qed.

(** What "the coded row" says, entry by entry.  Treatment: under the label of a kept level l the
    indicator [x = l]; Sum: under l the value 1 if x = l, -1 if x is the omitted level, 0 otherwise,
    and under "mean" the value 1 (0 for a value that is no level / missing). *)
Theorem ocoded_row_entries enc spans lv ox :
  combine (contrast_labels enc spans lv) (ocoded_row enc spans lv ox)
  = match enc with
    | Treatment _ => map (fun l => (l, oind ox l)) (kept_levels enc spans lv)
    | Sum _ => (if spans then [("mean", omeanc lv ox)] else [])
               ++ map (fun l => (l, osumc (left_out enc lv) ox l)) (kept_levels enc spans lv)
    end.
Proof.
  unfold contrast_labels, ocoded_row, osum_row.
  destruct enc, spans; cbn [combine app]; try f_equal; apply combine_map_r.
Qed.

(** ** Levels: C04 "levels of unordered data are sorted while declared orders are respected" *)

(* 1. a box, i.e. a call C / T / S *)
Theorem box_component_levels t spans nrows dc num d enc lvo :
  tc_kind t = KCategoric -> tc_value t = PBox num d enc lvo ->
  set_data_comp t spans nrows = Ok dc ->
  dc_levels dc = match lvo with Some l => l | None => sort_levels num (present d) end.
Proof.
  intros Hk Hv H. rewrite (set_data_comp_levels t spans nrows dc Hk H). unfold comp_levels.
  rewrite Hv. reflexivity.
Qed.

(* 2. a plain categorical column: the declared order of an ordered categorical, else sorted *)
Theorem column_component_levels t spans nrows dc o xs :
  tc_kind t = KCategoric -> tc_value t = PStrs o xs ->
  set_data_comp t spans nrows = Ok dc ->
  dc_levels dc = match o with Some cats => cats | None => sort_levels false (present xs) end.
Proof.
  intros Hk Hv H. rewrite (set_data_comp_levels t spans nrows dc Hk H). unfold comp_levels.
  rewrite Hv. reflexivity.
Qed.

(* 3. an integer column forced categoric (a grouping factor): numeric order *)
Theorem int_component_levels t spans nrows dc xs :
  tc_kind t = KCategoric -> tc_value t = PSeries true xs ->
  set_data_comp t spans nrows = Ok dc ->
  dc_levels dc = sort_levels true (present (int_strings xs)).
Proof.
  intros Hk Hv H. rewrite (set_data_comp_levels t spans nrows dc Hk H). unfold comp_levels.
  rewrite Hv. reflexivity.
Qed.

(** ** From the arguments of the call to the design component *)

(* the levels as a function of the values, the declared order and levels= *)
Definition call_levels (num : bool) (ordered : option (list string)) (d : list (option string))
           (lv : option (list string)) : list string :=
  match lv with
  | Some l => l
  | None => match ordered with Some cats => cats | None => sort_levels num (present d) end
  end.

Lemma call_levels_box num o d lv :
  box_comp_levels num d (box_levels o lv) = call_levels num o d lv.
Proof. destruct o, lv; reflexivity. Qed.

(** The whole chain, for a series x (strings with an optional declared order, or integers), an
    optional encoding and optional levels=:
      box_of x enc lv  >>=  (component with that value)  >>=  set_data_comp
    is accepted iff (a) the given levels are, as a set, the values present, (b) the levels do not
    repeat an entry and (c) the option of the encoding is acceptable; all refusals are ValueError.
    When accepted, everything is the closed-form function of (values, declared order, encoding,
    levels=, spans). *)
Theorem call_component x num o d enc lv name src resp spans nrows :
  series_strings x = Ok (num, o, d) ->
  let e := box_comp_encoding enc in
  let lvs := call_levels num o d lv in
  let run := do v <- box_of x enc lv;
             set_data_comp (TC name src KCategoric v [] resp None) spans nrows in
  (levels_valid (box_levels o lv) d -> NoDup lvs -> option_ok e spans lvs ->
   exists dc cm,
     run = Ok dc /\
     tc_value (dc_t dc) = PBox num d enc (box_levels o lv) /\
     dc_levels dc = lvs /\ dc_contrast dc = Some cm /\ code e spans lvs = Ok cm /\
     clabels cm = contrast_labels e spans lvs /\
     dc_labels dc = Some (map (fun l => (name ++ "[" ++ l ++ "]")%string) (contrast_labels e spans lvs)) /\
     (entries_premise e spans lvs -> dc_rows dc = map (ocoded_row e spans lvs) d)) /\
  (~ (levels_valid (box_levels o lv) d /\ NoDup lvs /\ option_ok e spans lvs) -> run = Err EValue).
Proof.
  intros Hx e lvs run. unfold run. rewrite (box_of_series x enc lv num o d Hx).
  destruct (mk_box_spec num o d enc lv) as [Hok Hbad].
  set (t := TC name src KCategoric (PBox num d enc (box_levels o lv)) [] resp None).
  destruct (box_component t spans nrows num d enc (box_levels o lv) eq_refl eq_refl) as [Bok Bbad].
  fold e in Bok, Bbad. rewrite call_levels_box in Bok, Bbad. fold lvs in Bok, Bbad.
  split.
  - intros Hv Hnd Ho. rewrite (Hok Hv). cbn [bind]. fold t.
    destruct (Bok Hnd Ho) as (dc & cm & Hset & Ht & _ & Hlv & Hc & Hcode & _ & Hrest).
    exists dc, cm. split; [assumption|]. rewrite Ht. split; [reflexivity|].
    split; [assumption|]. split; [assumption|]. split; [assumption|]. exact Hrest.
  - intros Hn. assert (D : levels_valid (box_levels o lv) d \/ ~ levels_valid (box_levels o lv) d).
    { pose proof (levels_valid_dec (box_levels o lv) d) as Hd.
      destruct (match box_levels o lv with Some l => same_set l (present d) | None => true end);
        [left; apply Hd; reflexivity|right; intros Hv; apply Hd in Hv; discriminate]. }
    destruct D as [Hv|Hv]; [|rewrite (Hbad Hv); reflexivity].
    rewrite (Hok Hv). cbn [bind]. fold t. apply Bbad. intros [Hnd Ho]. apply Hn. auto.
Qed.

(** Without levels= and without a declared order nothing can repeat: the sorted distinct values
    are the levels, and only the option of the encoding can be refused. *)
Corollary call_component_sorted x num d enc name src resp spans nrows :
  series_strings x = Ok (num, None, d) ->
  let e := box_comp_encoding enc in
  let lvs := sort_levels num (present d) in
  let run := do v <- box_of x enc None;
             set_data_comp (TC name src KCategoric v [] resp None) spans nrows in
  (option_ok e spans lvs ->
   exists dc cm,
     run = Ok dc /\
     tc_value (dc_t dc) = PBox num d enc None /\
     dc_levels dc = lvs /\ dc_contrast dc = Some cm /\ code e spans lvs = Ok cm /\
     clabels cm = contrast_labels e spans lvs /\
     dc_labels dc = Some (map (fun l => (name ++ "[" ++ l ++ "]")%string) (contrast_labels e spans lvs)) /\
     (entries_premise e spans lvs -> dc_rows dc = map (ocoded_row e spans lvs) d)) /\
  (~ option_ok e spans lvs -> run = Err EValue).
Proof.
  intros Hx e lvs run.
  destruct (call_component x num None d enc None name src resp spans nrows Hx) as [Cok Cbad].
  pose proof (sort_levels_NoDup num (present d)) as Hnd.
  assert (Hv : levels_valid (box_levels None None) d) by (intros l E; discriminate E).
  split.
  - intros Ho. exact (Cok Hv Hnd Ho).
  - intros Hn. apply Cbad. intros (_ & _ & Ho). exact (Hn Ho).
Qed.

(** Defaults under levels=: the reference of T(x, levels=lv) is the first element of lv, the
    omitted level of S(x, levels=lv) is its last element. *)
Corollary levels_set_defaults num o d l :
  left_out (Treatment None) (call_levels num o d (Some l)) = hd "" l /\
  left_out (Sum None) (call_levels num o d (Some l)) = last l "".
Proof. split; reflexivity. Qed.

(** ... and without levels=: the smallest value (the first declared category of an ordered
    column) and the largest value (the last declared category). *)
Corollary levels_unset_defaults num o d :
  left_out (Treatment None) (call_levels num o d None)
  = hd "" (match o with Some cats => cats | None => sort_levels num (present d) end) /\
  left_out (Sum None) (call_levels num o d None)
  = last (match o with Some cats => cats | None => sort_levels num (present d) end) "".
Proof. split; reflexivity. Qed.

(** ** From the call TERM to the design component *)

Definition sem3 (f : string) : pyval -> pyval -> pyval -> res pyval :=
  if String.eqb f "C" then C_sem else if String.eqb f "T" then T_sem else S_sem.

(** Any call C / T / S with stateless arguments: typing and coding the component is applying the
    function to the values of the arguments and coding the resulting box. *)
Theorem CTS_design_component cx data resp f args kw spans nrows :
  In f ["C"; "T"; "S"] ->
  forallb stateless args = true -> forallb (fun kv => stateless (snd kv)) kw = true ->
  let E := ECtx data (d_extra cx) (d_sqrt cx) true in
  let lz := LzCall f args kw in
  (do t <- set_type_comp cx data resp (CCall lz); set_data_comp t spans nrows) =
  (do pos <- mapM (value E) args; do kws <- mapM (kwvalue E) kw;
   do v <- call_function E f pos kws;
   set_data_comp (TC (lazy_str lz) (CCall lz) KCategoric v [] resp None) spans nrows).
Proof.
  intros Hf Ha Hk E lz. unfold lz. rewrite (CTS_set_type cx data resp f args kw Hf Ha Hk). fold E.
  destruct (mapM (value E) args); [|reflexivity]. cbn [bind].
  destruct (mapM (kwvalue E) kw); [|reflexivity]. cbn [bind].
  destruct (call_function E f _ _); reflexivity.
Qed.

(** The forms f(x), f(x, a), f(x, a, levels=lv), f(x, levels=lv), f(x, a, lv) over a column named
    xn, a second argument a (a reference / omitted level for T and S, an encoding for C) and a
    variable lvn holding the levels. *)
Theorem CTS_design_forms cx data resp f xn a lvn spans nrows :
  In f ["C"; "T"; "S"] -> stateless a = true ->
  let E := ECtx data (d_extra cx) (d_sqrt cx) true in
  let run lz := do t <- set_type_comp cx data resp (CCall lz); set_data_comp t spans nrows in
  let fin lz v := set_data_comp (TC (lazy_str lz) (CCall lz) KCategoric v [] resp None) spans nrows in
  (let lz := LzCall f [LzVar xn] [] in
   run lz = (do x <- lookup_name E xn; do v <- sem3 f x PNoneV PNoneV; fin lz v)) /\
  (let lz := LzCall f [LzVar xn; a] [] in
   run lz = (do x <- lookup_name E xn; do va <- value E a; do v <- sem3 f x va PNoneV; fin lz v)) /\
  (let lz := LzCall f [LzVar xn; a] [("levels", LzVar lvn)] in
   run lz = (do x <- lookup_name E xn; do va <- value E a; do l <- lookup_name E lvn;
             do v <- sem3 f x va l; fin lz v)) /\
  (let lz := LzCall f [LzVar xn] [("levels", LzVar lvn)] in
   run lz = (do x <- lookup_name E xn; do l <- lookup_name E lvn; do v <- sem3 f x PNoneV l; fin lz v)) /\
  (let lz := LzCall f [LzVar xn; a; LzVar lvn] [] in
   run lz = (do x <- lookup_name E xn; do va <- value E a; do l <- lookup_name E lvn;
             do v <- sem3 f x va l; fin lz v)).
Proof.
  intros Hf Ha E run fin.
  assert (Hsem : forall x va l,
    call_function E f [x] [] = sem3 f x PNoneV PNoneV /\
    call_function E f [x; va] [] = sem3 f x va PNoneV /\
    call_function E f [x; va] [("levels", l)] = sem3 f x va l /\
    call_function E f [x] [("levels", l)] = sem3 f x PNoneV l /\
    call_function E f [x; va; l] [] = sem3 f x va l).
  { intros x va l. destruct Hf as [<-|[<-|[<-|[]]]]; cbn [sem3 String.eqb Ascii.eqb Bool.eqb].
    - destruct (C_call_shapes E x va l) as (-> & -> & -> & -> & -> & _). auto.
    - destruct (T_call_shapes E x va l) as (-> & -> & -> & -> & -> & _). auto.
    - destruct (S_call_shapes E x va l) as (-> & -> & -> & -> & -> & _). auto. }
  unfold run. repeat split; cbv zeta;
    (rewrite CTS_design_component; [|assumption|cbn [forallb stateless]; rewrite ?Ha; reflexivity|reflexivity]);
    fold E; cbn [mapM]; unfold kwvalue; cbn [fst snd]; rewrite ?value_var;
    destruct (lookup_name E xn) as [x|]; try reflexivity; cbn [bind].
  - destruct (Hsem x PNoneV PNoneV) as (-> & _). reflexivity.
  - destruct (value E a) as [va|]; [|reflexivity]. cbn [bind].
    destruct (Hsem x va PNoneV) as (_ & -> & _). reflexivity.
  - destruct (value E a) as [va|]; [|reflexivity]. cbn [bind].
    destruct (lookup_name E lvn) as [l|]; [|reflexivity]. cbn [bind].
    destruct (Hsem x va l) as (_ & _ & -> & _). reflexivity.
  - destruct (lookup_name E lvn) as [l|]; [|reflexivity]. cbn [bind].
    destruct (Hsem x PNoneV l) as (_ & _ & _ & -> & _). reflexivity.
  - destruct (value E a) as [va|]; [|reflexivity]. cbn [bind].
    destruct (lookup_name E lvn) as [l|]; [|reflexivity]. cbn [bind].
    destruct (Hsem x va l) as (_ & _ & _ & _ & ->). reflexivity.
Qed.

(* the encoding the second argument stands for: an encoding for C, the reference of a Treatment
   for T, the omitted level of a Sum for S *)
Definition second_arg_encoding (f : string) (va : pyval) : res (option encoding) :=
  if String.eqb f "C" then as_encoding va
  else if String.eqb f "T" then (do r <- as_label va; Ok (Some (Treatment r)))
  else (do o <- as_label va; Ok (Some (Sum o))).

Lemma sem3_series f x va l :
  In f ["C"; "T"; "S"] -> not_box x ->
  sem3 f x va l = (do enc <- second_arg_encoding f va; do lv <- as_levels l; box_of x enc lv).
Proof.
  intros [<-|[<-|[<-|[]]]] Hx; unfold sem3, second_arg_encoding; cbn [String.eqb Ascii.eqb Bool.eqb].
  - unfold C_sem. destruct (as_encoding va); [|reflexivity]. cbn [bind].
    destruct (as_levels l); [|reflexivity]. cbn [bind]. destruct x; try contradiction; reflexivity.
  - unfold T_sem. destruct (as_label va); reflexivity.
  - unfold S_sem. destruct (as_label va); reflexivity.
Qed.

Lemma col_value_not_box c : not_box (col_value c).
Proof. destruct c; exact I. Qed.

(** FLAGSHIP 1: f(x, a, levels=lv) for f among C, T, S, over a column x of the frame, lv a
    variable holding a list of levels.  Refused (ValueError) unless lv is, as a set, the values
    present in x, lv does not repeat an entry (so: lv is a PERMUTATION of the distinct values,
    [levels_accept_perm_str], [levels_accept_perm_ints]) and the named reference / omitted level (when consulted) is in lv.
    Otherwise:
    the levels are lv in the given order; the level left out is the named one, by default the
    first element of lv (Treatment) / the last (Sum); labels and entries follow. *)
Theorem CTS_levels_design cx data resp f xn col a lvn l va enc num o d spans nrows :
  In f ["C"; "T"; "S"] -> stateless a = true ->
  let E := ECtx data (d_extra cx) (d_sqrt cx) true in
  assoc xn data = Some col -> series_strings (col_value col) = Ok (num, o, d) ->
  value E a = Ok va -> second_arg_encoding f va = Ok enc ->
  lookup_name E lvn = Ok (PStrList l) ->
  let lz := LzCall f [LzVar xn; a] [("levels", LzVar lvn)] in
  let run := do t <- set_type_comp cx data resp (CCall lz); set_data_comp t spans nrows in
  let e := box_comp_encoding enc in
  (levels_valid (Some l) d -> NoDup l -> option_ok e spans l ->
   exists dc cm,
     run = Ok dc /\ tc_value (dc_t dc) = PBox num d enc (Some l) /\
     dc_levels dc = l /\ dc_contrast dc = Some cm /\ code e spans l = Ok cm /\
     clabels cm = contrast_labels e spans l /\
     dc_labels dc = Some (map (fun s => (lazy_str lz ++ "[" ++ s ++ "]")%string) (contrast_labels e spans l)) /\
     (entries_premise e spans l -> dc_rows dc = map (ocoded_row e spans l) d)) /\
  (~ (levels_valid (Some l) d /\ NoDup l /\ option_ok e spans l) -> run = Err EValue).
Proof.
  intros Hf Ha E Hcol Hx Hva Henc Hl lz run e.
  destruct (CTS_design_forms cx data resp f xn a lvn spans nrows Hf Ha) as (_ & _ & H & _).
  cbv zeta in H. fold E lz in H. fold run in H.
  assert (Hlk : lookup_name E xn = Ok (col_value col)) by (apply lookup_column; exact Hcol).
  rewrite Hlk, Hva, Hl in H. cbn [bind] in H.
  rewrite (sem3_series f _ va _ Hf (col_value_not_box col)), Henc in H. cbn [bind as_levels] in H.
  pose proof (call_component (col_value col) num o d enc (Some l) (lazy_str lz) (CCall lz) resp spans nrows Hx) as C.
  cbv zeta in C. fold e in C. rewrite <- H in C.
  replace (box_levels o (Some l)) with (Some l) in C by (destruct o; reflexivity).
  exact C.
Qed.

(** FLAGSHIP 2: f(x, a) without levels=.  The levels are the declared categories of an ORDERED
    column in their declared order (they must all occur, and must not repeat -- which no pandas
    Categorical does), else the sorted distinct values (for which both conditions are automatic:
    [CTS_design_unordered]). *)
Theorem CTS_design cx data resp f xn col a va enc num o d spans nrows :
  In f ["C"; "T"; "S"] -> stateless a = true ->
  let E := ECtx data (d_extra cx) (d_sqrt cx) true in
  assoc xn data = Some col -> series_strings (col_value col) = Ok (num, o, d) ->
  value E a = Ok va -> second_arg_encoding f va = Ok enc ->
  let lz := LzCall f [LzVar xn; a] [] in
  let run := do t <- set_type_comp cx data resp (CCall lz); set_data_comp t spans nrows in
  let e := box_comp_encoding enc in
  let lvs := match o with Some cats => cats | None => sort_levels num (present d) end in
  (levels_valid o d -> NoDup lvs -> option_ok e spans lvs ->
   exists dc cm,
     run = Ok dc /\ tc_value (dc_t dc) = PBox num d enc o /\
     dc_levels dc = lvs /\ dc_contrast dc = Some cm /\ code e spans lvs = Ok cm /\
     clabels cm = contrast_labels e spans lvs /\
     dc_labels dc = Some (map (fun s => (lazy_str lz ++ "[" ++ s ++ "]")%string) (contrast_labels e spans lvs)) /\
     (entries_premise e spans lvs -> dc_rows dc = map (ocoded_row e spans lvs) d)) /\
  (~ (levels_valid o d /\ NoDup lvs /\ option_ok e spans lvs) -> run = Err EValue).
Proof.
  intros Hf Ha E Hcol Hx Hva Henc lz run e lvs.
  destruct (CTS_design_forms cx data resp f xn a "" spans nrows Hf Ha) as (_ & H & _).
  cbv zeta in H. fold E lz in H. fold run in H.
  assert (Hlk : lookup_name E xn = Ok (col_value col)) by (apply lookup_column; exact Hcol).
  rewrite Hlk, Hva in H. cbn [bind] in H.
  rewrite (sem3_series f _ va _ Hf (col_value_not_box col)), Henc in H. cbn [bind as_levels] in H.
  pose proof (call_component (col_value col) num o d enc None (lazy_str lz) (CCall lz) resp spans nrows Hx) as C.
  cbv zeta in C. fold e in C. rewrite <- H in C.
  replace (box_levels o None) with o in C by (destruct o; reflexivity).
  exact C.
Qed.

(* without a declared order the validation is vacuous and the levels are duplicate-free *)
Corollary unordered_levels_valid d : levels_valid None d.
Proof. intros l E. discriminate E. Qed.

(** FLAGSHIP 2 for a column WITHOUT a declared order (plain strings, integers): the levels are the
    sorted distinct values, the validation and the duplicate check are automatic; only the option
    of the encoding can be refused. *)
Corollary CTS_design_unordered cx data resp f xn col a va enc num d spans nrows :
  In f ["C"; "T"; "S"] -> stateless a = true ->
  let E := ECtx data (d_extra cx) (d_sqrt cx) true in
  assoc xn data = Some col -> series_strings (col_value col) = Ok (num, None, d) ->
  value E a = Ok va -> second_arg_encoding f va = Ok enc ->
  let lz := LzCall f [LzVar xn; a] [] in
  let run := do t <- set_type_comp cx data resp (CCall lz); set_data_comp t spans nrows in
  let e := box_comp_encoding enc in
  let lvs := sort_levels num (present d) in
  (option_ok e spans lvs ->
   exists dc cm,
     run = Ok dc /\ tc_value (dc_t dc) = PBox num d enc None /\
     dc_levels dc = lvs /\ dc_contrast dc = Some cm /\ code e spans lvs = Ok cm /\
     clabels cm = contrast_labels e spans lvs /\
     dc_labels dc = Some (map (fun s => (lazy_str lz ++ "[" ++ s ++ "]")%string) (contrast_labels e spans lvs)) /\
     (entries_premise e spans lvs -> dc_rows dc = map (ocoded_row e spans lvs) d)) /\
  (~ option_ok e spans lvs -> run = Err EValue).
Proof.
  intros Hf Ha E Hcol Hx Hva Henc lz run e lvs.
  destruct (CTS_design cx data resp f xn col a va enc num None d spans nrows Hf Ha Hcol Hx Hva Henc)
    as [Cok Cbad].
  pose proof (sort_levels_NoDup num (present d)) as Hnd. split.
  - intros Ho. exact (Cok (unordered_levels_valid d) Hnd Ho).
  - intros Hn. apply Cbad. intros (_ & _ & Ho). exact (Hn Ho).
Qed.

(** The acceptance condition of FLAGSHIP 1 on the levels, for string and for integer columns:
    "same set and no repetition" is "a permutation of the sorted distinct values". *)
Theorem levels_accept_perm_str l d :
  levels_valid (Some l) d /\ NoDup l <-> Permutation l (sort_levels false (present d)).
Proof.
  split.
  - intros [Hv Hnd]. apply (levels_valid_perm_str l d Hnd). exact Hv.
  - intros H. assert (Hnd : NoDup l).
    { eapply Permutation_NoDup; [apply Permutation_sym; exact H|apply sort_levels_NoDup]. }
    split; [|exact Hnd]. apply (levels_valid_perm_str l d Hnd). exact H.
Qed.

Theorem levels_accept_perm_ints l xs :
  levels_valid (Some l) (int_strings xs) /\ NoDup l
  <-> Permutation l (sort_levels true (present (int_strings xs))).
Proof.
  split.
  - intros [Hv Hnd]. apply (levels_valid_perm_ints l xs Hnd). exact Hv.
  - intros H. assert (Hnd : NoDup l).
    { eapply Permutation_NoDup; [apply Permutation_sym; exact H|apply sort_levels_NoDup]. }
    split; [|exact Hnd]. apply (levels_valid_perm_ints l xs Hnd). exact H.
Qed.

(** The box accepts a repeated level, the component built from it is refused: end to end through
    [set_type_comp] + [set_data_comp] on a concrete frame, C(x, levels=dup) with
    dup = ["a"; "b"; "a"] over a column x holding b, a. *)
Theorem levels_duplicates_component_refused :
  exists cx data lz t num d enc l,
    set_type_comp cx data false (CCall lz) = Ok t /\
    tc_kind t = KCategoric /\ tc_value t = PBox num d enc (Some l) /\
    levels_valid (Some l) d /\ ~ NoDup l /\
    forall spans nrows, set_data_comp t spans nrows = Err EValue.
Proof.
  exists (DCtx [("dup", PStrList ["a"; "b"; "a"])] (fun r => r)),
         [("x", ColStr None [Some "b"; Some "a"])],
         (LzCall "C" [LzVar "x"] [("levels", LzVar "dup")]).
  eexists. exists false, [Some "b"; Some "a"], None, ["a"; "b"; "a"].
  split; [vm_compute; reflexivity|]. split; [reflexivity|]. split; [reflexivity|].
  assert (Hn : ~ NoDup ["a"; "b"; "a"]).
  { intros H. inversion H as [|? ? Hin _]; subst. apply Hin. right; left; reflexivity. }
  split; [|split; [exact Hn|]].
  - intros l' E s. injection E as <-. simpl. intuition (try discriminate; try congruence).
  - intros spans nrows.
    eapply (box_duplicate_levels_refused _ spans nrows false _ None ["a"; "b"; "a"]);
      [reflexivity|reflexivity|exact Hn].
Qed.

(* ------------------------------------------------------------------------------------------ *)
(** * 6. Examples (all by computation) *)

Module Examples.
  Definition q (z : Z) : cell := Some (qz z).
  (* x: strings; k: integers (10 sorts after 9); g: an ordered categorical lo < mid < hi;
     u: an ordered categorical with an unused category *)
  Definition data : frame :=
    [("x", ColStr None [Some "b"; Some "c"; Some "a"; Some "c"]);
     ("k", ColNum true [q 10; q 9; q 2; q 10]);
     ("g", ColStr (Some ["lo"; "mid"; "hi"]) [Some "hi"; Some "lo"; Some "mid"; Some "lo"]);
     ("u", ColStr (Some ["lo"; "mid"; "hi"]) [Some "hi"; Some "lo"; Some "hi"; Some "lo"])].
  (* lv: a permutation of the values of x; bad: not the values of x; dup: with a repetition;
     klv: a permutation of the values of k *)
  Definition cx : dctx :=
    DCtx [("lv", PStrList ["c"; "a"; "b"]); ("bad", PStrList ["a"; "b"]);
          ("dup", PStrList ["a"; "b"; "a"; "c"]); ("klv", PStrList ["9"; "10"; "2"])] (fun r => r).

  Definition run (lz : lazy) (spans : bool) : res dcomp :=
    do t <- set_type_comp cx data false (CCall lz); set_data_comp t spans 4.
  (* levels, contrast labels, labels and rows of the result *)
  Definition view (r : res dcomp) :=
    match r with
    | Ok dc => Ok (dc_levels dc, match dc_contrast dc with Some cm => clabels cm | None => [] end,
                   dc_labels dc, map (map cshow) (dc_rows dc))
    | Err k => Err k
    end.
  Definition str (s : string) : lazy := LzVal (LStr s) None.

  (* a permutation passed as levels=: the levels are lv in the given order; the default reference
     is its first element "c", the default omitted level its last element "b" *)
  Example C_levels_permutation :
    view (run (LzCall "C" [LzVar "x"] [("levels", LzVar "lv")]) false)
    = Ok (["c"; "a"; "b"], ["a"; "b"],
          Some ["C(x, levels=lv)[a]"; "C(x, levels=lv)[b]"],
          [["0"; "1"]; ["0"; "0"]; ["1"; "0"]; ["0"; "0"]]).
  Proof. vm_compute. reflexivity. Qed.

  Example S_levels_permutation :
    view (run (LzCall "S" [LzVar "x"] [("levels", LzVar "lv")]) false)
    = Ok (["c"; "a"; "b"], ["c"; "a"],
          Some ["S(x, levels=lv)[c]"; "S(x, levels=lv)[a]"],
          [["-1"; "-1"]; ["1"; "0"]; ["0"; "1"]; ["1"; "0"]]).
  Proof. vm_compute. reflexivity. Qed.

  Example S_levels_permutation_full :
    view (run (LzCall "S" [LzVar "x"] [("levels", LzVar "lv")]) true)
    = Ok (["c"; "a"; "b"], ["mean"; "c"; "a"],
          Some ["S(x, levels=lv)[mean]"; "S(x, levels=lv)[c]"; "S(x, levels=lv)[a]"],
          [["1"; "-1"; "-1"]; ["1"; "1"; "0"]; ["1"; "0"; "1"]; ["1"; "1"; "0"]]).
  Proof. vm_compute. reflexivity. Qed.

  (* a named reference with levels=, positional and keyword, and the alias *)
  Example T_levels_reference :
    view (run (LzCall "T" [LzVar "x"; str "a"] [("levels", LzVar "lv")]) false)
    = Ok (["c"; "a"; "b"], ["c"; "b"],
          Some ["T(x, a, levels=lv)[c]"; "T(x, a, levels=lv)[b]"],
          [["0"; "1"]; ["1"; "0"]; ["0"; "0"]; ["1"; "0"]]) /\
    view (run (LzCall "T" [LzVar "x"; str "a"; LzVar "lv"] []) false)
    = Ok (["c"; "a"; "b"], ["c"; "b"],
          Some ["T(x, a, lv)[c]"; "T(x, a, lv)[b]"],
          [["0"; "1"]; ["1"; "0"]; ["0"; "0"]; ["1"; "0"]]) /\
    view (run (LzCall "C" [LzVar "x"; LzCall "Treatment" [str "a"] []; LzVar "lv"] []) false)
    = Ok (["c"; "a"; "b"], ["c"; "b"],
          Some ["C(x, Treatment(a), lv)[c]"; "C(x, Treatment(a), lv)[b]"],
          [["0"; "1"]; ["1"; "0"]; ["0"; "0"]; ["1"; "0"]]).
  Proof. repeat split; vm_compute; reflexivity. Qed.

  (* without levels=: sorted, reference "a" (first), omitted "c" (last) *)
  Example C_sorted :
    view (run (LzCall "C" [LzVar "x"] []) false)
    = Ok (["a"; "b"; "c"], ["b"; "c"], Some ["C(x)[b]"; "C(x)[c]"],
          [["1"; "0"]; ["0"; "1"]; ["0"; "0"]; ["0"; "1"]]) /\
    view (run (LzCall "S" [LzVar "x"] []) false)
    = Ok (["a"; "b"; "c"], ["a"; "b"], Some ["S(x)[a]"; "S(x)[b]"],
          [["0"; "1"]; ["-1"; "-1"]; ["1"; "0"]; ["-1"; "-1"]]).
  Proof. split; vm_compute; reflexivity. Qed.

  (* numeric levels via C(k): 2 < 9 < 10 (as strings "10" < "2" < "9") *)
  Example C_numeric :
    view (run (LzCall "C" [LzVar "k"] []) false)
    = Ok (["2"; "9"; "10"], ["9"; "10"], Some ["C(k)[9]"; "C(k)[10]"],
          [["0"; "1"]; ["1"; "0"]; ["0"; "0"]; ["0"; "1"]]) /\
    sort_levels false ["10"; "9"; "2"; "10"] = ["10"; "2"; "9"].
  Proof. split; vm_compute; reflexivity. Qed.

  (* numeric levels, reference given as a number, and levels= for numbers *)
  Example T_numeric_reference :
    view (run (LzCall "T" [LzVar "k"; LzVal (LInt 9) None] []) false)
    = Ok (["2"; "9"; "10"], ["2"; "10"], Some ["T(k, 9)[2]"; "T(k, 9)[10]"],
          [["0"; "1"]; ["0"; "0"]; ["1"; "0"]; ["0"; "1"]]) /\
    view (run (LzCall "S" [LzVar "k"] [("levels", LzVar "klv")]) false)
    = Ok (["9"; "10"; "2"], ["9"; "10"], Some ["S(k, levels=klv)[9]"; "S(k, levels=klv)[10]"],
          [["0"; "1"]; ["1"; "0"]; ["-1"; "-1"]; ["0"; "1"]]).
  Proof. split; vm_compute; reflexivity. Qed.

  (* an ordered categorical: the declared order lo < mid < hi, not the sorted one hi < lo < mid *)
  Example C_ordered :
    view (run (LzCall "C" [LzVar "g"] []) false)
    = Ok (["lo"; "mid"; "hi"], ["mid"; "hi"], Some ["C(g)[mid]"; "C(g)[hi]"],
          [["0"; "1"]; ["0"; "0"]; ["1"; "0"]; ["0"; "0"]]) /\
    view (run (LzCall "S" [LzVar "g"] []) false)
    = Ok (["lo"; "mid"; "hi"], ["lo"; "mid"], Some ["S(g)[lo]"; "S(g)[mid]"],
          [["-1"; "-1"]; ["1"; "0"]; ["0"; "1"]; ["1"; "0"]]) /\
    sort_levels false ["hi"; "lo"; "mid"; "lo"] = ["hi"; "lo"; "mid"].
  Proof. repeat split; vm_compute; reflexivity. Qed.

  (* the plain column g (no call): declared order too *)
  Example plain_ordered :
    view (do t <- set_type_comp cx data false (CVar (NStr "g") None); set_data_comp t false 4)
    = Ok (["lo"; "mid"; "hi"], ["mid"; "hi"], Some ["g[mid]"; "g[hi]"],
          [["0"; "1"]; ["0"; "0"]; ["1"; "0"]; ["0"; "0"]]).
  Proof. vm_compute. reflexivity. Qed.

  (* refusals: levels that are not the values present; an ordered column with an unused
     category (as a plain column it is accepted and keeps the unused level); an unknown
     reference under reduced coding / an unknown omitted level under either coding *)
  Example refusals :
    run (LzCall "C" [LzVar "x"] [("levels", LzVar "bad")]) false = Err EValue /\
    run (LzCall "C" [LzVar "u"] []) false = Err EValue /\
    view (do t <- set_type_comp cx data false (CVar (NStr "u") None); set_data_comp t false 4)
    = Ok (["lo"; "mid"; "hi"], ["mid"; "hi"], Some ["u[mid]"; "u[hi]"],
          [["0"; "1"]; ["0"; "0"]; ["0"; "1"]; ["0"; "0"]]) /\
    run (LzCall "T" [LzVar "x"; str "zzz"] []) false = Err EValue /\
    run (LzCall "S" [LzVar "x"; str "zzz"] []) false = Err EValue /\
    run (LzCall "S" [LzVar "x"; str "zzz"] []) true = Err EValue.
  Proof. repeat split; vm_compute; reflexivity. Qed.

  (** REFUTED: an unknown reference is not refused under full-rank coding. *)
  Example unknown_reference_full_accepted :
    view (run (LzCall "T" [LzVar "x"; str "zzz"] []) true)
    = Ok (["a"; "b"; "c"], ["a"; "b"; "c"], Some ["T(x, zzz)[a]"; "T(x, zzz)[b]"; "T(x, zzz)[c]"],
          [["0"; "1"; "0"]; ["0"; "0"; "1"]; ["1"; "0"; "0"]; ["0"; "0"; "1"]]).
  Proof. vm_compute. reflexivity. Qed.

  (** levels= with a repeated level: the box is made (typing succeeds), coding the component is
      refused under either coding (pd.Categorical: "Categorical categories must be unique"). *)
  Example duplicate_levels_refused :
    (exists t, set_type_comp cx data false (CCall (LzCall "C" [LzVar "x"; LzVar "Treatment"; LzVar "dup"] []))
               = Ok t /\
               tc_value t = PBox false [Some "b"; Some "c"; Some "a"; Some "c"] (Some (Treatment None))
                                 (Some ["a"; "b"; "a"; "c"])) /\
    run (LzCall "C" [LzVar "x"; LzVar "Treatment"; LzVar "dup"] []) true = Err EValue /\
    run (LzCall "C" [LzVar "x"; LzVar "Treatment"; LzVar "dup"] []) false = Err EValue /\
    run (LzCall "S" [LzVar "x"] [("levels", LzVar "dup")]) false = Err EValue.
  Proof. split; [eexists; split; vm_compute; reflexivity|]. repeat split; vm_compute; reflexivity. Qed.

  (* the hypotheses of FLAGSHIP 1 are satisfiable, and its conclusion on the instance
     S(x, "a", levels=lv): omitted "a", kept c, b in the order of lv *)
  Example flagship1_instance :
    exists dc cm,
      run (LzCall "S" [LzVar "x"; str "a"] [("levels", LzVar "lv")]) false = Ok dc /\
      dc_levels dc = ["c"; "a"; "b"] /\ dc_contrast dc = Some cm /\
      clabels cm = ["c"; "b"] /\
      dc_rows dc = map (ocoded_row (Sum (Some "a")) false ["c"; "a"; "b"])
                       [Some "b"; Some "c"; Some "a"; Some "c"].
  Proof.
    destruct (CTS_levels_design cx data false "S" "x" (ColStr None [Some "b"; Some "c"; Some "a"; Some "c"])
                (str "a") "lv" ["c"; "a"; "b"] (PStr "a") (Some (Sum (Some "a"))) false None
                [Some "b"; Some "c"; Some "a"; Some "c"] false 4)
      as [H _]; try reflexivity.
    - right; right; left; reflexivity.
    - destruct H as (dc & cm & Hrun & _ & Hlv & Hc & _ & Hrest).
      + intros l' E s. injection E as <-. simpl. intuition (try discriminate; try congruence).
      + repeat constructor; simpl; intuition discriminate.
      + intros _. right; left; reflexivity.
      + exists dc, cm. destruct Hrest as (Hl & _ & Hrows).
        split; [exact Hrun|]. split; [exact Hlv|]. split; [exact Hc|]. split; [exact Hl|].
        apply Hrows. intro H. discriminate H.
  Qed.
End Examples.

(* the whole pipeline, from the formula text: scanner, parser, algebra, typing, coding *)
From Verif Require Driver.
Module Pipeline.
  Import Examples.
  Definition ydata : frame := ("y", ColNum true [q 1; q 2; q 3; q 4]) :: data.
  Definition labels_of (s : string) : res (list (option (list string))) :=
    do e <- Driver.parse_string s;
    do ds <- design_matrices cx e ydata NaDrop;
    Ok (map dt_labels (ds_common ds)).

  Example formula_levels :
    labels_of "y ~ C(x, levels=lv) + S(k) + T(g, 'mid')"
    = Ok [Some ["Intercept"]; Some ["C(x, levels=lv)[a]"; "C(x, levels=lv)[b]"];
          Some ["S(k)[2]"; "S(k)[9]"]; Some ["T(g, 'mid')[lo]"; "T(g, 'mid')[hi]"]].
  Proof. vm_compute. reflexivity. Qed.

  (* without intercept the first factor is coded in full *)
  Example formula_levels_full :
    labels_of "y ~ 0 + S(x, levels=lv)"
    = Ok [Some ["S(x, levels=lv)[mean]"; "S(x, levels=lv)[c]"; "S(x, levels=lv)[a]"]].
  Proof. vm_compute. reflexivity. Qed.
End Pipeline.

(** The defaults without any hypothesis on the levels: Treatment drops the FIRST level, Sum the
    LAST one (so with levels=lv: [tl lv] and [removelast lv]). *)
Lemma drop_nth_last {T} (l : list T) : drop_nth (List.length l - 1) l = removelast l.
Proof.
  induction l as [|x l IH]; [reflexivity|]. destruct l as [|y l]; [reflexivity|].
  replace (List.length (x :: y :: l) - 1) with (S (List.length (y :: l) - 1)) by (simpl; lia).
  cbn [drop_nth]. rewrite IH. reflexivity.
Qed.

Theorem default_reduced_labels lv :
  (exists cm, code (Treatment None) false lv = Ok cm /\ clabels cm = tl lv) /\
  (exists cm, code (Sum None) false lv = Ok cm /\ clabels cm = removelast lv) /\
  (exists cm, code (Treatment None) true lv = Ok cm /\ clabels cm = lv) /\
  (exists cm, code (Sum None) true lv = Ok cm /\ clabels cm = "mean" :: removelast lv).
Proof.
  repeat split; eexists; (split; [reflexivity|]); cbn [clabels]; try reflexivity;
    try (destruct lv; reflexivity); rewrite drop_nth_last; reflexivity.
Qed.

(* C of a box keeps the levels and the contrast that are not overridden *)
Example C_rebox cx :
  call_function cx "C" [PBox false [Some "b"; Some "a"] (Some (Sum None)) (Some ["b"; "a"])] []
  = Ok (PBox false [Some "b"; Some "a"] (Some (Sum None)) (Some ["b"; "a"])) /\
  call_function cx "C" [PBox false [Some "b"; Some "a"] (Some (Sum None)) (Some ["b"; "a"]);
                        PEncClass false] []
  = Ok (PBox false [Some "b"; Some "a"] (Some (Treatment None)) (Some ["b"; "a"])) /\
  call_function cx "C" [PBox false [Some "b"; Some "a"] (Some (Sum None)) (Some ["b"; "a"])]
                       [("levels", PStrList ["a"; "b"])]
  = Ok (PBox false [Some "b"; Some "a"] (Some (Sum None)) (Some ["a"; "b"])).
Proof. rewrite !call_C. repeat split; reflexivity. Qed.

Print Assumptions default_reduced_labels.
Print Assumptions sort_levels_str_spec.
Print Assumptions sort_levels_str_unique.
Print Assumptions sort_levels_num_spec.
Print Assumptions sort_levels_num_unique.
Print Assumptions sort_levels_ints.
Print Assumptions mk_box_spec.
Print Assumptions levels_valid_perm_str.
Print Assumptions levels_valid_perm_ints.
Print Assumptions levels_duplicates_box_accepted.
Print Assumptions levels_duplicates_component_refused.
Print Assumptions levels_accept_perm_str.
Print Assumptions levels_accept_perm_ints.
Print Assumptions call_C.
Print Assumptions call_T.
Print Assumptions call_S.
Print Assumptions T_sem_is_C_sem.
Print Assumptions S_sem_is_C_sem.
Print Assumptions T_is_C_Treatment_levels_all.
Print Assumptions S_is_C_Sum_levels_all.
Print Assumptions stateless_pure.
Print Assumptions CTS_set_type.
Print Assumptions ref_index_spec.
Print Assumptions code_accept_iff.
Print Assumptions treatment_bad_reference_full_refuted.
Print Assumptions code_labels_pos.
Print Assumptions code_labels.
Print Assumptions code_entries.
Print Assumptions box_component.
Print Assumptions box_component_ok_iff.
Print Assumptions box_duplicate_levels_refused.
Print Assumptions box_component_sorted.
Print Assumptions ocoded_row_entries.
Print Assumptions box_component_levels.
Print Assumptions column_component_levels.
Print Assumptions call_component.
Print Assumptions call_component_sorted.
Print Assumptions CTS_design_component.
Print Assumptions CTS_design_forms.
Print Assumptions CTS_levels_design.
Print Assumptions CTS_design.
Print Assumptions CTS_design_unordered.
