(* C15 -- "the predictor matrices do not depend on which response is named".

   Three parts of the state could make the predictors depend on the response:
   (1) the order of evaluation / a shared state: [eval_model] evaluates the common terms, the
       group-specific terms and the response inside one monadic chain.  [eval_model_split] shows
       the chain factors through [eval_predictors], a function that does not receive the response
       at all, followed by [eval_resp]; nothing flows from the response to the predictors.
   (2) the parameters of stateful transforms: every component is typed by [set_type_comp] with an
       empty input state and its recorded parameters are stored in the component itself
       ([tc_state]); the equalities below are equalities of the whole [dterm]/[dgterm] records, so
       they include the memorised parameters of every predictor component.
   (3) the data the terms are evaluated on: [prepare_data] restricts the frame to the columns
       named in the model -- response included -- and, under "drop", removes the rows in which one
       of those columns (response included) is missing.  This is the only real channel; it is
       closed by the hypothesis that both models retain the same rows ([retained]).  The theorems
       [response_indep_model] / [response_indep_formula] show that this hypothesis suffices, and
       [drop_rows_needed] shows that without it the predictors do differ. *)
From Verif Require Import Base Tokens Lazy Algebra Coding Contrasts Frame Eval Design.
From Verif Require Import DesignStructure FrameStructure ResponseProofs.
From Verif Require Driver.
From Coq Require Import Lia Permutation.
Local Close Scope Qc_scope.
Local Close Scope Q_scope.
Local Open Scope string_scope.
Local Open Scope list_scope.
Local Open Scope nat_scope.

(* ------------------------------------------------------------------------------------------ *)
(** * 1. [eval_model] = predictors, then response *)

(* the part of [eval_model] that builds the common and the group-specific terms: it receives the
   lists of terms, not the model, so it cannot look at the response *)
Definition eval_predictors (cx : dctx) (data : frame) (cs : list cterm) (gs : list gterm)
  : res (list dterm * list dgterm) :=
  let n := frame_rows data in
  do tcs <- mapM (type_common cx data) cs;
  do tgs <- mapM (set_type_gterm cx data) gs;
  do enc1 <- encoding_bools (map term_kind_info tcs);
  do tcs2 <- add_extra_terms cx data enc1 tcs;
  do enc2 <- encoding_bools (map term_kind_info tcs2);
  do dcs <- mapM (fun t => do s <- common_spans enc2 t; set_data_term n t s) tcs2;
  do dgs <- mapM (fun p => set_data_gterm n (fst p) (group_spans gs (snd p))) (combine tgs gs);
  Ok (map snd (fold_left (fun acc t => dict_set (dt_name t) t acc) dcs []),
      map snd (fold_left (fun acc g => dict_set (dg_name g) g acc) dgs [])).

Definition eval_resp (cx : dctx) (data : frame) (r : option term) : res (option dterm) :=
  match r with
  | None => Ok None
  | Some t => do d <- eval_response cx data t (frame_rows data); Ok (Some d)
  end.

Theorem eval_model_split cx data m :
  eval_model cx data m =
  do p <- eval_predictors cx data (commons m) (groups m);
  do r <- eval_resp cx data (resp m);
  Ok (Design (frame_rows data) r (fst p) (snd p)).
Proof.
  unfold eval_model, eval_predictors.
  destruct (mapM (type_common cx data) (commons m)) as [tcs|]; [|reflexivity]. cbn [bind].
  destruct (mapM (set_type_gterm cx data) (groups m)) as [tgs|]; [|reflexivity]. cbn [bind].
  destruct (encoding_bools (map term_kind_info tcs)) as [enc1|]; [|reflexivity]. cbn [bind].
  destruct (add_extra_terms cx data enc1 tcs) as [tcs2|]; [|reflexivity]. cbn [bind].
  destruct (encoding_bools (map term_kind_info tcs2)) as [enc2|]; [|reflexivity]. cbn [bind].
  destruct (mapM _ tcs2) as [dcs|]; [|reflexivity]. cbn [bind].
  destruct (mapM _ (combine tgs (groups m))) as [dgs|]; [|reflexivity]. cbn [bind fst snd].
  destruct (resp m) as [t|]; [|reflexivity]. unfold eval_resp, eval_response.
  destruct (set_type_term cx data true t) as [ty|]; [|reflexivity]. cbn [bind].
  destruct (set_data_term (frame_rows data) ty (SpBool true)); reflexivity.
Qed.

(* the predictor part of a design *)
Definition same_predictors (D1 D2 : design) : Prop :=
  ds_nrows D1 = ds_nrows D2 /\ ds_common D1 = ds_common D2 /\ ds_group D1 = ds_group D2.

Definition strip_response (m : model) : model := Mod None (commons m) (groups m).
Definition strip_design (D : design) : design := Design (ds_nrows D) None (ds_common D) (ds_group D).

Lemma eval_model_predictors cx data m D :
  eval_model cx data m = Ok D ->
  eval_predictors cx data (commons m) (groups m) = Ok (ds_common D, ds_group D) /\
  ds_nrows D = frame_rows data.
Proof.
  rewrite eval_model_split. intros H. apply bind_ok in H as ([dc dg] & Hp & H).
  apply bind_ok in H as (r & _ & H). injection H as <-. rewrite Hp. split; reflexivity.
Qed.

(** On one and the same frame, the predictors are a function of the common and group terms. *)
Theorem eval_model_response_indep cx data m1 m2 D1 D2 :
  commons m1 = commons m2 -> groups m1 = groups m2 ->
  eval_model cx data m1 = Ok D1 -> eval_model cx data m2 = Ok D2 -> same_predictors D1 D2.
Proof.
  intros Hc Hg H1 H2. apply eval_model_predictors in H1 as [P1 N1], H2 as [P2 N2].
  rewrite Hc, Hg in P1. rewrite P1 in P2. injection P2 as E1 E2.
  unfold same_predictors. rewrite N1, N2. auto.
Qed.

(** Removing the response from a model that builds gives a model that builds, with the same
    predictors and no response. *)
Theorem eval_model_strip cx data m D :
  eval_model cx data m = Ok D -> eval_model cx data (strip_response m) = Ok (strip_design D).
Proof.
  intros H. apply eval_model_predictors in H as [P N].
  rewrite eval_model_split. cbn [strip_response commons groups resp]. rewrite P.
  cbn [bind eval_resp fst snd]. unfold strip_design. rewrite N. reflexivity.
Qed.

(* a failure of the predictors is the failure of the model, whatever the response *)
Theorem eval_model_predictors_fail cx data m k :
  eval_predictors cx data (commons m) (groups m) = Err k -> eval_model cx data m = Err k.
Proof. intros H. rewrite eval_model_split, H. reflexivity. Qed.

(* ------------------------------------------------------------------------------------------ *)
(** * 2. The predictors only read the columns their own variables name *)

(* the names a call tree looks up ([lazy_vars] without the "" that stands for a literal) *)
Fixpoint lazy_reads (l : lazy) : list string :=
  match l with
  | LzVar n => [n]
  | LzVal _ _ => []
  | LzOp _ args => flat_map lazy_reads args
  | LzCall _ args kwargs => flat_map lazy_reads args ++ flat_map (fun kv => lazy_reads (snd kv)) kwargs
  end.

Definition comp_reads (c : comp) : list string :=
  match c with
  | CVar (NStr n) _ => [n]
  | CVar (NLit _) _ => []
  | CCall l => lazy_reads l
  end.
Definition term_reads (t : term) : list string := flat_map comp_reads t.
Definition cterm_reads (c : cterm) : list string := match c with CT t => term_reads t | _ => [] end.
Definition pred_reads (cs : list cterm) (gs : list gterm) : list string :=
  flat_map cterm_reads cs ++ flat_map (fun g => cterm_reads (gexpr g) ++ cterm_reads (gfactor g)) gs.

Lemma flat_map_incl {A B} (f g : A -> list B) l :
  (forall a, In a l -> incl (f a) (g a)) -> incl (flat_map f l) (flat_map g l).
Proof.
  intros H x Hx. apply in_flat_map in Hx as (a & Ha & Hx). apply in_flat_map. exists a.
  split; [assumption|]. exact (H a Ha x Hx).
Qed.

Lemma lazy_reads_vars l : incl (lazy_reads l) (lazy_vars l).
Proof.
  induction l as [sym args IH|n|v lx|c args kw IHa IHk] using lazy_ind'; cbn [lazy_reads lazy_vars].
  - apply flat_map_incl. rewrite Forall_forall in IH. exact IH.
  - apply incl_refl.
  - intros x [].
  - apply incl_app_app; apply flat_map_incl.
    + rewrite Forall_forall in IHa. exact IHa.
    + rewrite Forall_forall in IHk. exact IHk.
Qed.

Lemma comp_reads_vars c : incl (comp_reads c) (comp_vars c).
Proof. destruct c as [[n|v] lvl|l]; simpl; [apply incl_refl|apply incl_refl|apply lazy_reads_vars]. Qed.
Lemma term_reads_vars t : incl (term_reads t) (term_vars t).
Proof. apply flat_map_incl. intros; apply comp_reads_vars. Qed.
Lemma cterm_reads_vars c : incl (cterm_reads c) (cterm_vars c).
Proof. destruct c; simpl; [apply incl_refl|apply incl_refl|apply term_reads_vars]. Qed.

Lemma pred_reads_vars m : incl (pred_reads (commons m) (groups m)) (model_vars m).
Proof.
  unfold pred_reads, model_vars. intros x Hx. apply in_app_or in Hx as [Hx|Hx].
  - apply in_or_app. left. revert x Hx. apply flat_map_incl. intros; apply cterm_reads_vars.
  - apply in_or_app. right. apply in_or_app. left. revert x Hx. apply flat_map_incl.
    intros g _. apply incl_app_app; apply cterm_reads_vars.
Qed.

Lemma eval_lazy_reads_ext d1 d2 ex sq fit l :
  (forall k, In k (lazy_reads l) -> assoc k d1 = assoc k d2) ->
  forall st, eval_lazy (ECtx d1 ex sq fit) st l = eval_lazy (ECtx d2 ex sq fit) st l.
Proof.
  induction l as [sym args IH|n|v lx|c args kw IHa IHk] using lazy_ind'; intros Ha st.
  - assert (IH' : Forall (fun a => forall st, eval_lazy (ECtx d1 ex sq fit) st a
                                              = eval_lazy (ECtx d2 ex sq fit) st a) args).
    { rewrite Forall_forall in *. intros a Hin. apply IH; [assumption|].
      intros k Hk. apply Ha. simpl. apply in_flat_map. exists a. auto. }
    destruct args as [|a [|b [|c r]]]; try reflexivity.
    + inversion IH' as [|? ? Ha1 _]; subst. cbn [eval_lazy]. rewrite Ha1. reflexivity.
    + inversion IH' as [|? ? Ha1 IH'']; subst. inversion IH'' as [|? ? Hb1 _]; subst.
      cbn [eval_lazy]. rewrite Ha1. destruct (eval_lazy (ECtx d2 ex sq fit) st a); [|reflexivity].
      cbn [bind]. rewrite Hb1. reflexivity.
  - cbn [eval_lazy]. unfold lookup_name. cbn [e_data e_extra]. rewrite Ha by (left; reflexivity).
    reflexivity.
  - reflexivity.
  - assert (IHa' : Forall (fun a => forall st, eval_lazy (ECtx d1 ex sq fit) st a
                                               = eval_lazy (ECtx d2 ex sq fit) st a) args).
    { rewrite Forall_forall in *. intros a Hin. apply IHa; [assumption|].
      intros k Hk. apply Ha. simpl. apply in_or_app. left. apply in_flat_map. exists a. auto. }
    assert (IHk' : Forall (fun kv : string * lazy =>
                             forall st, eval_lazy (ECtx d1 ex sq fit) st (snd kv)
                                        = eval_lazy (ECtx d2 ex sq fit) st (snd kv)) kw).
    { rewrite Forall_forall in *. intros kv Hin. apply IHk; [assumption|].
      intros k Hk. apply Ha. simpl. apply in_or_app. right. apply in_flat_map. exists kv. auto. }
    rewrite !eval_lazy_call. cbn [e_extra].
    rewrite (eval_args_ext _ _ _ IHa').
    destruct (negb (known_callee c)); [reflexivity|].
    destruct (eval_args (eval_lazy (ECtx d2 ex sq fit)) args st [] []) as [ra|]; [|reflexivity].
    cbn [bind]. rewrite (eval_kwargs_ext _ _ _ IHk'). reflexivity.
Qed.

Lemma set_type_comp_reads_ext cx d1 d2 r c :
  (forall k, In k (comp_reads c) -> assoc k d1 = assoc k d2) ->
  set_type_comp cx d1 r c = set_type_comp cx d2 r c.
Proof.
  intros Ha. destruct c as [[name|v] lvl|lz]; simpl in *;
    [rewrite Ha by (left; reflexivity); reflexivity|reflexivity|].
  rewrite (eval_lazy_reads_ext d1 d2 _ _ _ lz Ha). reflexivity.
Qed.

Lemma set_type_comps_reads_ext cx d1 d2 r t :
  (forall k, In k (term_reads t) -> assoc k d1 = assoc k d2) ->
  mapM (set_type_comp cx d1 r) t = mapM (set_type_comp cx d2 r) t.
Proof.
  intros Ha. apply mapM_ext_in. intros c Hc. apply set_type_comp_reads_ext.
  intros k Hk. apply Ha. unfold term_reads. apply in_flat_map. exists c. auto.
Qed.

Lemma set_type_term_reads_ext cx d1 d2 r t :
  (forall k, In k (term_reads t) -> assoc k d1 = assoc k d2) ->
  set_type_term cx d1 r t = set_type_term cx d2 r t.
Proof. intros Ha. unfold set_type_term. rewrite (set_type_comps_reads_ext cx d1 d2 r t Ha). reflexivity. Qed.

(** [eval_predictors] reads the columns named by the variables of the common and group terms, and
    the row count; nothing else of the frame -- in particular not the response column. *)
Theorem eval_predictors_reads_ext cx d1 d2 cs gs :
  (forall k, In k (pred_reads cs gs) -> assoc k d1 = assoc k d2) -> frame_rows d1 = frame_rows d2 ->
  eval_predictors cx d1 cs gs = eval_predictors cx d2 cs gs.
Proof.
  intros Ha Hr. unfold eval_predictors. rewrite Hr.
  assert (Hc : forall c, In c cs -> forall k, In k (cterm_reads c) -> assoc k d1 = assoc k d2).
  { intros c Hc k Hk. apply Ha. unfold pred_reads. apply in_or_app. left.
    apply in_flat_map. exists c. auto. }
  assert (Hg : forall g, In g gs ->
                         forall k, In k (cterm_reads (gexpr g) ++ cterm_reads (gfactor g)) -> assoc k d1 = assoc k d2).
  { intros g Hg k Hk. apply Ha. unfold pred_reads. apply in_or_app. right.
    apply in_flat_map. exists g. auto. }
  rewrite (mapM_ext_in (type_common cx d1) (type_common cx d2)).
  2:{ intros [| |t] Hin; simpl; try reflexivity. apply set_type_term_reads_ext. exact (Hc _ Hin). }
  rewrite (mapM_ext_in (set_type_gterm cx d1) (set_type_gterm cx d2)).
  2:{ intros g Hin. specialize (Hg g Hin). unfold set_type_gterm.
      destruct (gfactor g) as [| |f]; try reflexivity.
      rewrite (set_type_comps_reads_ext cx d1 d2 false f)
        by (intros k Hk; apply Hg; apply in_or_app; right; exact Hk).
      destruct (gexpr g) as [| |t]; try reflexivity.
      rewrite (set_type_term_reads_ext cx d1 d2 false t)
        by (intros k Hk; apply Hg; apply in_or_app; left; exact Hk).
      reflexivity. }
  destruct (mapM (type_common cx d2) cs) as [tcs|]; [|reflexivity]. cbn [bind].
  destruct (mapM (set_type_gterm cx d2) gs) as [tgs|]; [|reflexivity]. cbn [bind].
  destruct (encoding_bools _) as [enc1|]; [|reflexivity]. cbn [bind].
  rewrite (add_extra_terms_frame_ext cx d1 d2). reflexivity.
Qed.

(* ------------------------------------------------------------------------------------------ *)
(** * 3. The frame [design_matrices] hands to [eval_model] *)

Definition dummy_frame (n : nat) : frame := [("", ColNum true (repeat None n))].
Definition fix_empty (n : nat) (d : frame) : frame := match d with [] => dummy_frame n | _ => d end.

(* [design_matrices] from the model description on *)
Definition design_of_model (cx : dctx) (m : model) (data : frame) (na : na_action) : res design :=
  do d <- prepare_data data m na; eval_model cx (fix_empty (frame_rows data) d) m.

Lemma design_matrices_of_model cx e data na :
  design_matrices cx e data na = do m <- describe e; design_of_model cx m data na.
Proof. reflexivity. Qed.

(** The rows the missing-value policy retains: under "drop" the rows in which every column the
    model names (response included) is present; under "pass" and "error" every row. *)
Definition retained (data : frame) (m : model) (na : na_action) : list bool :=
  match na with
  | NaDrop => complete_mask data m
  | _ => repeat true (frame_rows data)
  end.

Lemma map_negb_repeat_false n : map negb (repeat false n) = repeat true n.
Proof. induction n; simpl; congruence. Qed.

Lemma frame_select_repeat_true n d : rect n d -> frame_select (repeat true n) d = d.
Proof.
  intros H. rewrite <- map_negb_repeat_false. apply frame_select_all; [apply anyb_repeat_false|].
  rewrite repeat_length. exact H.
Qed.

Lemma count_true_repeat_true n : count_true (repeat true n) = n.
Proof. induction n; simpl; congruence. Qed.

(** Whenever [prepare_data] succeeds, its result is the used columns restricted to the retained
    rows. *)
Theorem prepare_data_retained data m na p :
  frame_wf data -> prepare_data data m na = Ok p ->
  p = frame_select (retained data m na) (used_cols data m).
Proof.
  intros Hwf H. rewrite prepare_data_unfold in H.
  destruct (frame_rows data =? 0); [discriminate|].
  pose proof (used_cols_rect _ _ m Hwf) as Hu.
  assert (Hall : used_cols data m = frame_select (repeat true (frame_rows data)) (used_cols data m))
    by (symmetry; apply frame_select_repeat_true; exact Hu).
  destruct (anyb (incomplete_mask data m)) eqn:E.
  - destruct na; try discriminate; injection H as <-; [reflexivity|exact Hall].
  - injection H as <-. destruct na; try exact Hall. cbn [retained]. unfold complete_mask.
    symmetry. apply frame_select_all; [exact E|]. rewrite incomplete_mask_length by exact Hwf. exact Hu.
Qed.

Lemma retained_length data m na : frame_wf data -> List.length (retained data m na) = frame_rows data.
Proof.
  intros Hwf. destruct na; cbn [retained]; try apply repeat_length. apply complete_mask_length. exact Hwf.
Qed.

Lemma retained_no_columns data m na :
  used_cols data m = [] -> retained data m na = repeat true (frame_rows data).
Proof.
  intros E. destruct na; try reflexivity. cbn [retained]. unfold complete_mask, incomplete_mask.
  rewrite E. cbn [map or_rows]. apply map_negb_repeat_false.
Qed.

Lemma assoc_frame_select k keep d : assoc k (frame_select keep d) = option_map (col_select keep) (assoc k d).
Proof.
  induction d as [|[k' c] d IH]; [reflexivity|]. cbn [frame_select map fst snd assoc].
  destruct (String.eqb k k'); [reflexivity|exact IH].
Qed.

Lemma used_cols_nil_assoc data m k : used_cols data m = [] -> In k (model_vars m) -> assoc k data = None.
Proof. intros E Hk. rewrite <- (assoc_used_cols k data m Hk), E. reflexivity. Qed.

(* a variable of the model finds in the prepared frame its column of the original frame,
   restricted to the retained rows *)
Lemma prepared_assoc n keep data m k :
  In k (model_vars m) -> k <> "" ->
  assoc k (fix_empty n (frame_select keep (used_cols data m))) = option_map (col_select keep) (assoc k data).
Proof.
  intros Hk Hne. destruct (used_cols data m) as [|kv u] eqn:E.
  - cbn [frame_select map fix_empty dummy_frame assoc].
    apply String.eqb_neq in Hne. rewrite Hne. rewrite (used_cols_nil_assoc data m k E Hk). reflexivity.
  - cbn [frame_select map fix_empty]. change (assoc k (frame_select keep (kv :: u)) = option_map (col_select keep) (assoc k data)).
    rewrite assoc_frame_select, <- E, (assoc_used_cols k data m Hk). reflexivity.
Qed.

Lemma prepared_rows keep data m :
  frame_wf data -> List.length keep = frame_rows data ->
  (used_cols data m = [] -> keep = repeat true (frame_rows data)) ->
  frame_rows (fix_empty (frame_rows data) (frame_select keep (used_cols data m))) = count_true keep.
Proof.
  intros Hwf Hl Hnil. pose proof (used_cols_rect _ _ m Hwf) as Hu.
  destruct (used_cols data m) as [|kv u] eqn:E.
  - rewrite (Hnil eq_refl). cbn. rewrite repeat_length, count_true_repeat_true. reflexivity.
  - assert (Hne : kv :: u <> []) by discriminate.
    pose proof (frame_rows_rect _ _ Hu Hne) as Hr.
    change (fix_empty (frame_rows data) (frame_select keep (kv :: u))) with (frame_select keep (kv :: u)).
    apply frame_select_rows; [unfold frame_wf; rewrite Hr; exact Hu|exact Hne|congruence].
Qed.

(* the two prepared frames of models with the same predictors look alike to the predictors *)
Lemma prepared_predictors_eq cx data keep m1 m2 :
  frame_wf data ->
  commons m1 = commons m2 -> groups m1 = groups m2 ->
  ~ In "" (pred_reads (commons m1) (groups m1)) ->
  List.length keep = frame_rows data ->
  (used_cols data m1 = [] -> keep = repeat true (frame_rows data)) ->
  (used_cols data m2 = [] -> keep = repeat true (frame_rows data)) ->
  let Q1 := fix_empty (frame_rows data) (frame_select keep (used_cols data m1)) in
  let Q2 := fix_empty (frame_rows data) (frame_select keep (used_cols data m2)) in
  frame_rows Q1 = frame_rows Q2 /\
  eval_predictors cx Q1 (commons m1) (groups m1) = eval_predictors cx Q2 (commons m1) (groups m1).
Proof.
  intros Hwf Hc Hg Hemp Hlen Hn1 Hn2 Q1 Q2.
  assert (Hrows : frame_rows Q1 = frame_rows Q2).
  { unfold Q1, Q2. rewrite !prepared_rows; try assumption; reflexivity. }
  split; [exact Hrows|].
  apply eval_predictors_reads_ext; [|exact Hrows].
  intros k Hk. assert (Hne : k <> "") by (intros ->; exact (Hemp Hk)).
  unfold Q1, Q2. rewrite !prepared_assoc; try assumption; try reflexivity.
  - rewrite Hc, Hg in Hk. apply (pred_reads_vars m2). exact Hk.
  - apply (pred_reads_vars m1). exact Hk.
Qed.

(* ------------------------------------------------------------------------------------------ *)
(** * 4. The predictors do not depend on the response *)

(** Two model descriptions with the same common and group-specific terms -- they may differ in the
    response, or one may have none -- evaluated on the same rectangular frame under the same
    missing-value policy: if the policy retains the same rows for both and both designs build,
    the row count, the common terms and the group-specific terms are equal (as records: names,
    kinds, labels, rows, levels, contrasts and memorised transform parameters).

    [""] is the name of the placeholder column [design_matrices] invents when the model names no
    column of the frame; a predictor variable of that name (no formula text produces one) could
    read it, see [empty_name_needed]. *)
Theorem response_indep_model cx data na m1 m2 D1 D2 :
  frame_wf data ->
  commons m1 = commons m2 -> groups m1 = groups m2 ->
  ~ In "" (pred_reads (commons m1) (groups m1)) ->
  retained data m1 na = retained data m2 na ->
  design_of_model cx m1 data na = Ok D1 -> design_of_model cx m2 data na = Ok D2 ->
  same_predictors D1 D2.
Proof.
  intros Hwf Hc Hg Hemp Hret H1 H2. unfold design_of_model in H1, H2.
  apply bind_ok in H1 as (p1 & P1 & H1). apply bind_ok in H2 as (p2 & P2 & H2).
  apply (prepare_data_retained _ _ _ _ Hwf) in P1, P2. subst p1 p2. rewrite <- Hret in H2.
  apply eval_model_predictors in H1 as [E1 N1], H2 as [E2 N2].
  rewrite <- Hc, <- Hg in E2.
  destruct (prepared_predictors_eq cx data (retained data m1 na) m1 m2 Hwf Hc Hg Hemp) as [Hrows Hext].
  - apply retained_length; exact Hwf.
  - apply retained_no_columns.
  - intros E. rewrite Hret. apply retained_no_columns. exact E.
  - rewrite Hext, E2 in E1. injection E1 as Ec Eg.
    unfold same_predictors. rewrite N1, N2, Hrows. auto.
Qed.

(** "pass" and "error" retain every row: no hypothesis on the data is needed. *)
Corollary response_indep_keep_all cx data na m1 m2 D1 D2 :
  na <> NaDrop ->
  frame_wf data ->
  commons m1 = commons m2 -> groups m1 = groups m2 ->
  ~ In "" (pred_reads (commons m1) (groups m1)) ->
  design_of_model cx m1 data na = Ok D1 -> design_of_model cx m2 data na = Ok D2 ->
  same_predictors D1 D2.
Proof.
  intros Hna Hwf Hc Hg Hemp. apply response_indep_model; try assumption.
  destruct na; [congruence|reflexivity|reflexivity].
Qed.

(** A design that builds with a response also builds without it, with the same predictors,
    provided dropping the response does not change the retained rows. *)
Lemma strip_used_in m kv : used_in (strip_response m) kv = true -> used_in m kv = true.
Proof.
  unfold used_in. intros H. apply existsb_exists in H as (k & Hk & E). apply existsb_exists.
  exists k. split; [|exact E]. unfold model_vars in *. cbn [strip_response commons groups resp] in Hk.
  apply in_app_or in Hk as [Hk|Hk]; apply in_or_app; [left; exact Hk|right].
  apply in_app_or in Hk as [Hk|[]]. apply in_or_app. left. exact Hk.
Qed.

Lemma strip_mask_any data m :
  frame_wf data ->
  anyb (incomplete_mask data (strip_response m)) = true -> anyb (incomplete_mask data m) = true.
Proof.
  intros Hwf. unfold incomplete_mask.
  rewrite !(anyb_or_rows _ _ (mask_cols_length _ _ _ Hwf)), !existsb_map'.
  intros H. apply existsb_exists in H as (kv & Hin & Hm). apply existsb_exists. exists kv.
  split; [|exact Hm]. unfold used_cols in *. apply filter_In in Hin as [Hin Hu]. apply filter_In.
  split; [exact Hin|apply strip_used_in; exact Hu].
Qed.

Theorem design_strip_response cx data na m D :
  frame_wf data ->
  ~ In "" (pred_reads (commons m) (groups m)) ->
  retained data m na = retained data (strip_response m) na ->
  design_of_model cx m data na = Ok D ->
  design_of_model cx (strip_response m) data na = Ok (strip_design D).
Proof.
  intros Hwf Hemp Hret H. unfold design_of_model in *.
  apply bind_ok in H as (p & P & H).
  assert (P0 : exists p0, prepare_data data (strip_response m) na = Ok p0).
  { rewrite prepare_data_unfold in *. destruct (frame_rows data =? 0); [discriminate|].
    destruct (anyb (incomplete_mask data (strip_response m))) eqn:E0; [|eauto].
    destruct na; eauto. rewrite (strip_mask_any data m Hwf E0) in P. discriminate. }
  destruct P0 as (p0 & P0). rewrite P0. cbn [bind].
  apply (prepare_data_retained _ _ _ _ Hwf) in P, P0. subst p p0. rewrite <- Hret.
  apply eval_model_predictors in H as [E N].
  destruct (prepared_predictors_eq cx data (retained data m na) m (strip_response m) Hwf eq_refl eq_refl Hemp)
    as [Hrows Hext].
  - apply retained_length; exact Hwf.
  - apply retained_no_columns.
  - intros E'. rewrite Hret. apply retained_no_columns. exact E'.
  - rewrite eval_model_split. cbn [strip_response commons groups resp].
    rewrite <- Hext, E. cbn [bind eval_resp fst snd]. unfold strip_design. rewrite N, Hrows. reflexivity.
Qed.

(* ------------------------------------------------------------------------------------------ *)
(** * 5. "drop": when do two responses retain the same rows? *)

Lemma or_rows_nth cols n i :
  Forall (fun c => List.length c = n) cols -> i < n ->
  nth i (or_rows cols n) false = existsb (fun c => nth i c false) cols.
Proof.
  induction 1 as [|c cols Hc Hcs IH]; intros Hi; cbn [or_rows existsb].
  - apply nth_repeat.
  - rewrite (zip_with_nth orb c (or_rows cols n) i false false false).
    + rewrite IH by exact Hi. reflexivity.
    + rewrite Hc. exact Hi.
    + rewrite or_rows_length by exact Hcs. exact Hi.
Qed.

Lemma ble_nth a b i : Forall2 ble a b -> nth i a false = true -> nth i b false = true.
Proof.
  intros H. revert i. induction H as [|x y a b Hxy _ IH]; intros i; destruct i; simpl; auto.
Qed.

Lemma ble_none a b : anyb a = false -> List.length a = List.length b -> Forall2 ble a b.
Proof.
  revert b. induction a as [|x a IH]; intros [|y b] Ha Hl; simpl in *; try discriminate; constructor.
  - destruct x; [discriminate|]. intros E; discriminate.
  - apply IH; [|lia]. destruct x; [discriminate|exact Ha].
Qed.

(* adding, to the columns that make the mask, columns that are missing only where one of the
   others already is, does not change the mask *)
Lemma or_rows_filter_dominated {A} (f g : A -> bool) (miss : A -> list bool) l n :
  (forall x, g x = true -> f x = true) ->
  Forall (fun x => List.length (miss x) = n) l ->
  (forall x, In x l -> f x = true -> g x = false ->
             Forall2 ble (miss x) (or_rows (map miss (filter g l)) n)) ->
  or_rows (map miss (filter f l)) n = or_rows (map miss (filter g l)) n.
Proof.
  intros Hgf Hlen Hdom.
  assert (HL : forall h : A -> bool, Forall (fun c => List.length c = n) (map miss (filter h l))).
  { intros h. apply Forall_map. rewrite Forall_forall in *. intros x Hx.
    apply filter_In in Hx as [Hx _]. auto. }
  apply (nth_ext _ _ false false).
  - rewrite !or_rows_length by apply HL. reflexivity.
  - rewrite or_rows_length by apply HL. intros i Hi.
    rewrite !or_rows_nth by (try apply HL; exact Hi).
    apply Bool.eq_true_iff_eq. rewrite !existsb_exists. split.
    + intros (c & Hc & Hci). apply in_map_iff in Hc as (x & <- & Hx). apply filter_In in Hx as [Hx Hfx].
      destruct (g x) eqn:Egx.
      * exists (miss x). split; [|exact Hci]. apply in_map, filter_In. auto.
      * pose proof (ble_nth _ _ i (Hdom x Hx Hfx Egx) Hci) as Hb.
        rewrite or_rows_nth in Hb by (try apply HL; exact Hi). apply existsb_exists in Hb. exact Hb.
    + intros (c & Hc & Hci). apply in_map_iff in Hc as (x & <- & Hx). apply filter_In in Hx as [Hx Hgx].
      exists (miss x). split; [|exact Hci]. apply in_map, filter_In. auto.
Qed.

(* the variables of the response *)
Definition resp_vars (m : model) : list string :=
  match resp m with Some t => term_vars t | None => [] end.

(** The hypothesis of the task, in its weakest natural form: every column the response names is
    missing only in rows where some predictor column is missing too -- in other words the response
    is observed wherever the predictors are complete. *)
Definition response_observed (data : frame) (m : model) : Prop :=
  forall k c, In k (resp_vars m) -> In (k, c) data ->
              Forall2 ble (col_missing c) (incomplete_mask data (strip_response m)).

(* in particular: the response columns have no missing value at all *)
Definition response_complete (data : frame) (m : model) : Prop :=
  forall k c, In k (resp_vars m) -> In (k, c) data -> has_missing c = false.

Lemma response_complete_observed data m :
  frame_wf data -> response_complete data m -> response_observed data m.
Proof.
  intros Hwf H k c Hk Hin. apply ble_none; [exact (H k c Hk Hin)|].
  rewrite col_missing_length, incomplete_mask_length by exact Hwf.
  unfold frame_wf, rect in Hwf. rewrite Forall_forall in Hwf. exact (Hwf _ Hin).
Qed.

Lemma used_not_stripped m kv :
  used_in m kv = true -> used_in (strip_response m) kv = false -> In (fst kv) (resp_vars m).
Proof.
  unfold used_in. intros H H0. apply existsb_exists in H as (k & Hk & E). apply String.eqb_eq in E. subst k.
  unfold model_vars in Hk. apply in_app_or in Hk as [Hk|Hk].
  - exfalso. assert (X : existsb (String.eqb (fst kv)) (model_vars (strip_response m)) = true); [|congruence].
    apply existsb_exists. exists (fst kv). split; [|apply String.eqb_refl].
    unfold model_vars. apply in_or_app. left. exact Hk.
  - apply in_app_or in Hk as [Hk|Hk]; [|exact Hk].
    exfalso. assert (X : existsb (String.eqb (fst kv)) (model_vars (strip_response m)) = true); [|congruence].
    apply existsb_exists. exists (fst kv). split; [|apply String.eqb_refl].
    unfold model_vars. apply in_or_app. right. apply in_or_app. left. exact Hk.
Qed.

(** Then the response does not take part in the mask. *)
Theorem observed_mask data m :
  frame_wf data -> response_observed data m ->
  incomplete_mask data m = incomplete_mask data (strip_response m).
Proof.
  intros Hwf Hobs. unfold incomplete_mask, used_cols.
  apply (or_rows_filter_dominated (used_in m) (used_in (strip_response m))
                                  (fun kv => col_missing (snd kv)) data (frame_rows data)).
  - apply strip_used_in.
  - unfold frame_wf, rect in Hwf. eapply Forall_impl; [|exact Hwf]. intros kv H. cbn beta.
    rewrite col_missing_length. exact H.
  - intros [k c] Hin Hu H0. apply (Hobs k c); [|exact Hin].
    exact (used_not_stripped m (k, c) Hu H0).
Qed.

Corollary observed_retained data m na :
  frame_wf data -> response_observed data m ->
  retained data m na = retained data (strip_response m) na.
Proof.
  intros Hwf Hobs. destruct na; try reflexivity. cbn [retained]. unfold complete_mask.
  rewrite (observed_mask data m Hwf Hobs). reflexivity.
Qed.

(** The theorem of the task.  Two models that differ only in the response, any missing-value
    policy, each response observed wherever the predictors are complete (e.g. complete response
    columns): the designs have the same predictors.  A model without response satisfies
    [response_observed] vacuously, so this covers "with response" against "without response". *)
Theorem response_indep_observed cx data na m1 m2 D1 D2 :
  frame_wf data ->
  commons m1 = commons m2 -> groups m1 = groups m2 ->
  ~ In "" (pred_reads (commons m1) (groups m1)) ->
  response_observed data m1 -> response_observed data m2 ->
  design_of_model cx m1 data na = Ok D1 -> design_of_model cx m2 data na = Ok D2 ->
  same_predictors D1 D2.
Proof.
  intros Hwf Hc Hg Hemp O1 O2. apply response_indep_model; try assumption.
  rewrite (observed_retained data m1 na Hwf O1), (observed_retained data m2 na Hwf O2).
  unfold strip_response. rewrite Hc, Hg. reflexivity.
Qed.

Lemma no_response_observed data m : resp m = None -> response_observed data m.
Proof. intros E k c Hk. unfold resp_vars in Hk. rewrite E in Hk. destruct Hk. Qed.

(** Without a response against with an observed response. *)
Corollary response_indep_none cx data na m0 m D0 D :
  frame_wf data ->
  resp m0 = None -> commons m0 = commons m -> groups m0 = groups m ->
  ~ In "" (pred_reads (commons m0) (groups m0)) ->
  response_observed data m ->
  design_of_model cx m0 data na = Ok D0 -> design_of_model cx m data na = Ok D ->
  same_predictors D0 D.
Proof.
  intros Hwf Hr Hc Hg Hemp Hobs. apply response_indep_observed; try assumption.
  apply no_response_observed. exact Hr.
Qed.

(* ... and the design without the response need not be assumed to build *)
Corollary design_strip_observed cx data na m D :
  frame_wf data ->
  ~ In "" (pred_reads (commons m) (groups m)) ->
  response_observed data m ->
  design_of_model cx m data na = Ok D ->
  design_of_model cx (strip_response m) data na = Ok (strip_design D).
Proof.
  intros Hwf Hemp Hobs. apply design_strip_response; try assumption.
  apply observed_retained; assumption.
Qed.

(* ------------------------------------------------------------------------------------------ *)
(** * 6. Formula texts:  lhs ~ rhs *)

(* the predictors a right-hand side value contributes when a response is put in front of it *)
Definition rhs_terms (b : value) : option (list cterm * list gterm) :=
  match b with
  | VM o => Some (commons o, groups o)
  | VT t => Some ([CT t], [])
  | VG g => Some ([], [g])
  | VI => Some ([CI], [])
  | _ => None
  end.

Lemma describe_tilde_rhs l op r m :
  tkind op = TILDE -> describe (EBinary l op r) = Ok m ->
  exists b, resolve r = Ok b /\ rhs_terms b = Some (commons m, groups m).
Proof.
  intros Hop H. unfold describe in H. apply bind_ok in H as (v & Hv & H).
  simpl in Hv. rewrite Hop in Hv. simpl in Hv.
  apply bind_ok in Hv as (a & Ha & Hv). apply bind_ok in Hv as (b & Hb & Hv).
  apply bind_ok in Hv as (rr & Hr & Hv). apply response_single_term in Hr as (c & -> & ->).
  exists b. split; [exact Hb|]. clear Hb.
  destruct b; simpl in Hv; try discriminate; injection Hv as <-; injection H as <-; reflexivity.
Qed.

(** The predictors of  lhs ~ rhs  are those of rhs: two formulas with the same right-hand side
    have the same common and group-specific terms ... *)
Theorem tilde_predictors l1 l2 op r m1 m2 :
  tkind op = TILDE ->
  describe (EBinary l1 op r) = Ok m1 -> describe (EBinary l2 op r) = Ok m2 ->
  commons m1 = commons m2 /\ groups m1 = groups m2.
Proof.
  intros Hop H1 H2.
  apply (describe_tilde_rhs _ _ _ _ Hop) in H1 as (b1 & R1 & T1), H2 as (b2 & R2 & T2).
  rewrite R1 in R2. injection R2 as <-. rewrite T1 in T2. injection T2 as -> ->. auto.
Qed.

(** ... and they are the terms of the formula  rhs  alone. *)
Theorem tilde_predictors_rhs l op r m m0 :
  tkind op = TILDE ->
  describe (EBinary l op r) = Ok m -> describe r = Ok m0 ->
  commons m0 = commons m /\ groups m0 = groups m.
Proof.
  intros Hop H H0. apply (describe_tilde_rhs _ _ _ _ Hop) in H as (b & R & T).
  unfold describe in H0. rewrite R in H0. cbn [bind] in H0.
  destruct b; simpl in T; try discriminate; injection T as <- <-; injection H0 as <-; auto.
Qed.

(** The theorem on formulas: two formulas  l1 ~ r  and  l2 ~ r , same frame, same policy; each
    response observed wherever the predictors are complete; both designs build.  Then the common
    and the group-specific terms (and the number of rows) are the same. *)
Theorem response_indep_formula cx l1 l2 op r data na m1 m2 D1 D2 :
  tkind op = TILDE -> frame_wf data ->
  describe (EBinary l1 op r) = Ok m1 -> describe (EBinary l2 op r) = Ok m2 ->
  ~ In "" (pred_reads (commons m1) (groups m1)) ->
  response_observed data m1 -> response_observed data m2 ->
  design_matrices cx (EBinary l1 op r) data na = Ok D1 ->
  design_matrices cx (EBinary l2 op r) data na = Ok D2 ->
  same_predictors D1 D2.
Proof.
  intros Hop Hwf M1 M2 Hemp O1 O2 H1 H2. rewrite design_matrices_of_model in H1, H2.
  rewrite M1 in H1. rewrite M2 in H2. cbn [bind] in H1, H2.
  destruct (tilde_predictors _ _ _ _ _ _ Hop M1 M2) as [Hc Hg].
  exact (response_indep_observed cx data na m1 m2 D1 D2 Hwf Hc Hg Hemp O1 O2 H1 H2).
Qed.

(* the same with the hypothesis "the same rows are retained" instead of "observed" *)
Theorem response_indep_formula_retained cx l1 l2 op r data na m1 m2 D1 D2 :
  tkind op = TILDE -> frame_wf data ->
  describe (EBinary l1 op r) = Ok m1 -> describe (EBinary l2 op r) = Ok m2 ->
  ~ In "" (pred_reads (commons m1) (groups m1)) ->
  retained data m1 na = retained data m2 na ->
  design_matrices cx (EBinary l1 op r) data na = Ok D1 ->
  design_matrices cx (EBinary l2 op r) data na = Ok D2 ->
  same_predictors D1 D2.
Proof.
  intros Hop Hwf M1 M2 Hemp Hret H1 H2. rewrite design_matrices_of_model in H1, H2.
  rewrite M1 in H1. rewrite M2 in H2. cbn [bind] in H1, H2.
  destruct (tilde_predictors _ _ _ _ _ _ Hop M1 M2) as [Hc Hg].
  exact (response_indep_model cx data na m1 m2 D1 D2 Hwf Hc Hg Hemp Hret H1 H2).
Qed.

(** A formula without response,  r , against  l ~ r  with an observed response. *)
Theorem response_indep_formula_none cx l op r data na m0 m D0 D :
  tkind op = TILDE -> frame_wf data -> tilde_free r = true ->
  describe r = Ok m0 -> describe (EBinary l op r) = Ok m ->
  ~ In "" (pred_reads (commons m0) (groups m0)) ->
  response_observed data m ->
  design_matrices cx r data na = Ok D0 ->
  design_matrices cx (EBinary l op r) data na = Ok D ->
  same_predictors D0 D /\ ds_response D0 = None.
Proof.
  intros Hop Hwf Hfree M0 M Hemp Hobs H0 H. rewrite design_matrices_of_model in H0, H.
  rewrite M0 in H0. rewrite M in H. cbn [bind] in H0, H.
  destruct (tilde_predictors_rhs _ _ _ _ _ Hop M M0) as [Hc Hg].
  pose proof (no_response r m0 Hfree M0) as Hr.
  split; [exact (response_indep_none cx data na m0 m D0 D Hwf Hr Hc Hg Hemp Hobs H0 H)|].
  unfold design_of_model in H0. apply bind_ok in H0 as (p & _ & H0).
  exact (eval_model_no_response _ _ _ _ H0 Hr).
Qed.

(** ... where the design of  r  alone need not be assumed: it builds whenever  l ~ r  does. *)
Theorem formula_without_response_builds cx l op r data na m0 m D :
  tkind op = TILDE -> frame_wf data -> tilde_free r = true ->
  describe r = Ok m0 -> describe (EBinary l op r) = Ok m ->
  ~ In "" (pred_reads (commons m) (groups m)) ->
  response_observed data m ->
  design_matrices cx (EBinary l op r) data na = Ok D ->
  design_matrices cx r data na = Ok (strip_design D).
Proof.
  intros Hop Hwf Hfree M0 M Hemp Hobs H. rewrite design_matrices_of_model in *.
  rewrite M in H. rewrite M0. cbn [bind] in *.
  destruct (tilde_predictors_rhs _ _ _ _ _ Hop M M0) as [Hc Hg].
  pose proof (no_response r m0 Hfree M0) as Hr.
  assert (E : m0 = strip_response m).
  { destruct m0 as [r0 c0 g0]. cbn in Hr, Hc, Hg. subst. reflexivity. }
  rewrite E. apply design_strip_observed; assumption.
Qed.

(* ------------------------------------------------------------------------------------------ *)
(** * 7. Non-vacuity, and the hypotheses are needed *)

Module ResponseIndepExamples.
  Definition qq (z : Z) : cell := Some (qz z).
  Definition ex_cx : dctx := DCtx [] (fun q => q).
  (* z is missing only in the row where the predictor x is missing; w is missing in row 0, where
     the predictors are complete *)
  Definition ex_data : frame :=
    [("y", ColNum true [qq 1; qq 2; qq 3; qq 4; qq 5]);
     ("z", ColStr None [Some "u"; Some "v"; None; Some "u"; Some "v"]);
     ("w", ColNum true [None; qq 2; qq 3; qq 4; qq 5]);
     ("x", ColNum true [qq 10; qq 20; None; qq 40; qq 50]);
     ("f", ColStr None [Some "a"; Some "b"; Some "a"; Some "b"; Some "a"]);
     ("g", ColStr None [Some "s"; Some "s"; Some "t"; Some "t"; Some "s"])].
  Definition gete (s : string) : expr :=
    match Driver.parse_string s with Ok e => e | Err _ => ELiteral LNone None end.
  Definition e_rhs : expr := Eval vm_compute in gete "center(x) + f + (1|g)".
  Definition tilde : token := Tok TILDE "~" None.
  Definition var (s : string) : expr := EVariable (Tok IDENTIFIER s None) None.
  Definition e_y : expr := EBinary (var "y") tilde e_rhs.
  Definition e_z : expr := EBinary (var "z") tilde e_rhs.
  Definition e_w : expr := EBinary (var "w") tilde e_rhs.

  Example e_y_parsed : Driver.parse_string "y ~ center(x) + f + (1|g)" = Ok e_y /\
                       Driver.parse_string "z ~ center(x) + f + (1|g)" = Ok e_z /\
                       Driver.parse_string "w ~ center(x) + f + (1|g)" = Ok e_w /\
                       tilde_free e_rhs = true.
  Proof. repeat split; vm_compute; reflexivity. Qed.

  Definition m_of (e : expr) : model := match describe e with Ok m => m | Err _ => empty_model end.

  Lemma ex_wf : frame_wf ex_data.
  Proof. repeat constructor. Qed.

  Lemma ex_observed_y : response_observed ex_data (m_of e_y).
  Proof.
    apply response_complete_observed; [exact ex_wf|]. intros k c [<-|[]] Hin.
    repeat (destruct Hin as [Hin|Hin]); inversion Hin; subst; reflexivity.
  Qed.

  (* z is NOT complete, but observed wherever the predictors are *)
  Lemma ex_observed_z : response_observed ex_data (m_of e_z) /\ ~ response_complete ex_data (m_of e_z).
  Proof.
    split.
    - intros k c [<-|[]] Hin.
      repeat (destruct Hin as [Hin|Hin]); inversion Hin; subst.
      vm_compute. repeat constructor; intros H; exact H.
    - intros H. specialize (H "z" _ (or_introl eq_refl) (or_intror (or_introl eq_refl))). discriminate H.
  Qed.

  Lemma ex_no_empty_name e : In e [e_y; e_z; e_w] ->
    ~ In "" (pred_reads (commons (m_of e)) (groups (m_of e))).
  Proof.
    intros [<-|[<-|[<-|[]]]]; vm_compute; intros H;
      repeat (destruct H as [H|H]; [discriminate H|]); exact H.
  Qed.

  (** the hypotheses of [response_indep_formula] hold for  y ~ ...  and  z ~ ...  under "drop",
      both designs build, and a row is dropped: the conclusion follows from the theorem *)
  Example ex_response_indep :
    exists D1 D2,
      design_matrices ex_cx e_y ex_data NaDrop = Ok D1 /\
      design_matrices ex_cx e_z ex_data NaDrop = Ok D2 /\
      ds_nrows D1 = 4 /\ map dt_name (ds_common D1) = ["Intercept"; "center(x)"; "f"] /\
      map dg_name (ds_group D1) = ["1|g"] /\ ds_response D1 <> ds_response D2 /\
      same_predictors D1 D2.
  Proof.
    destruct (design_matrices ex_cx e_y ex_data NaDrop) as [D1|] eqn:E1; [|vm_compute in E1; discriminate E1].
    destruct (design_matrices ex_cx e_z ex_data NaDrop) as [D2|] eqn:E2; [|vm_compute in E2; discriminate E2].
    exists D1, D2. split; [reflexivity|]. split; [reflexivity|].
    assert (S : same_predictors D1 D2).
    { apply (response_indep_formula ex_cx (var "y") (var "z") tilde e_rhs ex_data NaDrop (m_of e_y) (m_of e_z));
        try assumption; try reflexivity.
      - exact ex_wf.
      - apply (ex_no_empty_name e_y). left; reflexivity.
      - exact ex_observed_y.
      - exact (proj1 ex_observed_z). }
    vm_compute in E1. injection E1 as <-. vm_compute in E2. injection E2 as <-.
    repeat split; try reflexivity; try exact (proj1 S); try exact (proj1 (proj2 S)); try exact (proj2 (proj2 S)).
    intros H. discriminate H.
  Qed.

  (** without a response: the design of the right-hand side alone builds and has the predictors of
      the design with the response z *)
  Example ex_without_response :
    exists D, design_matrices ex_cx e_z ex_data NaDrop = Ok D /\
              design_matrices ex_cx e_rhs ex_data NaDrop = Ok (strip_design D).
  Proof.
    destruct (design_matrices ex_cx e_z ex_data NaDrop) as [D|] eqn:E; [|vm_compute in E; discriminate E].
    exists D. split; [reflexivity|].
    apply (formula_without_response_builds ex_cx (var "z") tilde e_rhs ex_data NaDrop (m_of e_rhs) (m_of e_z));
      try reflexivity; try assumption.
    - exact ex_wf.
    - apply (ex_no_empty_name e_z). right; left; reflexivity.
    - exact (proj1 ex_observed_z).
  Qed.

  Definition show_param (p : tparam) : string :=
    match p with TPCenter m => cshow m | _ => "?" end.

  (** The hypothesis on the retained rows is needed:  w  is missing in a row where the predictors
      are complete, "drop" removes that row, and every predictor changes -- the number of rows, the
      rows of each term and the mean that center(x) memorises. *)
  Theorem drop_rows_needed :
    exists D1 D2,
      design_matrices ex_cx e_y ex_data NaDrop = Ok D1 /\
      design_matrices ex_cx e_w ex_data NaDrop = Ok D2 /\
      ds_nrows D1 = 4 /\ ds_nrows D2 = 3 /\
      ~ same_predictors D1 D2 /\
      map (fun t => map (fun c => map show_param (tc_state (dc_t c))) (dt_comps t)) (ds_common D1)
      = [[]; [["30"]]; [[]]] /\
      map (fun t => map (fun c => map show_param (tc_state (dc_t c))) (dt_comps t)) (ds_common D2)
      = [[]; [["110/3"]]; [[]]].
  Proof.
    destruct (design_matrices ex_cx e_y ex_data NaDrop) as [D1|] eqn:E1; [|vm_compute in E1; discriminate E1].
    destruct (design_matrices ex_cx e_w ex_data NaDrop) as [D2|] eqn:E2; [|vm_compute in E2; discriminate E2].
    exists D1, D2. split; [reflexivity|]. split; [reflexivity|].
    vm_compute in E1. injection E1 as <-. vm_compute in E2. injection E2 as <-.
    split; [reflexivity|]. split; [reflexivity|]. split; [intros [H _]; discriminate H|].
    split; vm_compute; reflexivity.
  Qed.

  (* under "pass" the same two formulas do have the same predictors *)
  Example ex_pass :
    forall D1 D2, design_matrices ex_cx e_y ex_data NaPass = Ok D1 ->
                  design_matrices ex_cx e_w ex_data NaPass = Ok D2 -> same_predictors D1 D2.
  Proof.
    intros D1 D2 H1 H2. rewrite design_matrices_of_model in H1, H2.
    change (describe e_y) with (Ok (m_of e_y)) in H1. change (describe e_w) with (Ok (m_of e_w)) in H2.
    cbn [bind] in H1, H2.
    apply (response_indep_keep_all ex_cx ex_data NaPass (m_of e_y) (m_of e_w)); try assumption;
      try reflexivity; [discriminate|exact ex_wf|].
    apply (ex_no_empty_name e_y). left; reflexivity.
  Qed.

  (** A rectangular frame is needed: the number of rows is read from the first used column, and
      the first used column may be the response. *)
  Definition ragged : frame :=
    [("y", ColNum true [qq 1; qq 2; qq 3]); ("x", ColNum true [qq 1; qq 2]); ("w", ColNum true [qq 5; qq 6])].
  Definition e_x : expr := Eval vm_compute in gete "x".
  Theorem rectangular_needed :
    exists D1 D2,
      design_matrices ex_cx (EBinary (var "y") tilde e_x) ragged NaDrop = Ok D1 /\
      design_matrices ex_cx (EBinary (var "w") tilde e_x) ragged NaDrop = Ok D2 /\
      ds_nrows D1 = 3 /\ ds_nrows D2 = 2 /\ ~ frame_wf ragged.
  Proof.
    do 2 eexists. split; [vm_compute; reflexivity|]. split; [vm_compute; reflexivity|].
    split; [reflexivity|]. split; [reflexivity|].
    intros H. inversion H as [|? ? _ H']. inversion H' as [|? ? E _]. discriminate E.
  Qed.

  (** The placeholder column: a model that names no column of the frame is evaluated on a frame
      holding one all-missing column named "".  A variable named "" reads that column when there
      is no response, and the caller's namespace when a response column exists. *)
  Definition m_a : model := Mod None [CT [CCall (LzCall "offset" [LzVar ""] [])]] [].
  Definition m_b : model := Mod (Some [CVar (NStr "y") None]) (commons m_a) (groups m_a).
  Theorem empty_name_needed :
    exists cx data D1 D2,
      frame_wf data /\ response_observed data m_a /\ response_observed data m_b /\
      design_of_model cx m_a data NaPass = Ok D1 /\ design_of_model cx m_b data NaPass = Ok D2 /\
      map dt_rows (ds_common D1) = [[[None]; [None]]] /\
      map dt_rows (ds_common D2) = [[[qq 3]; [qq 3]]].
  Proof.
    exists (DCtx [("", PNumber true (qz 3))] (fun q => q)), [("y", ColNum true [qq 1; qq 2])].
    do 2 eexists. split; [repeat constructor|]. split; [apply no_response_observed; reflexivity|].
    split.
    - apply response_complete_observed; [repeat constructor|].
      intros k c [<-|[]] [Hin|[]]. injection Hin as <-. reflexivity.
    - split; [vm_compute; reflexivity|]. split; [vm_compute; reflexivity|]. split; reflexivity.
  Qed.
End ResponseIndepExamples.

Print Assumptions eval_model_split.
Print Assumptions eval_model_response_indep.
Print Assumptions eval_model_strip.
Print Assumptions eval_predictors_reads_ext.
Print Assumptions prepare_data_retained.
Print Assumptions response_indep_model.
Print Assumptions response_indep_keep_all.
Print Assumptions design_strip_response.
Print Assumptions observed_mask.
Print Assumptions response_indep_observed.
Print Assumptions response_indep_none.
Print Assumptions tilde_predictors.
Print Assumptions tilde_predictors_rhs.
Print Assumptions response_indep_formula.
Print Assumptions response_indep_formula_retained.
Print Assumptions response_indep_formula_none.
Print Assumptions formula_without_response_builds.
Print Assumptions ResponseIndepExamples.ex_response_indep.
Print Assumptions ResponseIndepExamples.drop_rows_needed.
Print Assumptions ResponseIndepExamples.rectangular_needed.
Print Assumptions ResponseIndepExamples.empty_name_needed.
