(* C16 at the level of WHOLE designs -- [design_matrices] and the prediction entry point
   [new_common] the driver uses (Driver.run_cmd "newdata" calls [new_common] and [new_group] only;
   the model has no prediction of the response: what exists is [new_term] applied to the response
   term of a design, see section 3).

   1. ENGINE.  A single-component term [c] whose component is not categoric (offset(..),
      binary(..), I(..), any numeric call or variable), appended to the common terms of a model:
      [eval_predictors_append] / [eval_model_append] / [design_append]: the design is the design
      without the term plus ONE term, nothing else moves (the encodings of the other terms, the
      extra terms, the group-specific terms and the response are untouched), and
      [new_common_append]: at prediction the matrix is the matrix without the term with the
      block of the term glued to its right.
   2. offset(v), offset(constant) in  y ~ rhs + offset(..)   (training, prediction, missing values)
   3. prop / p / proportion as the response
   4. binary / B as the response and as a predictor
   5. I(e) and {e}
   Every theorem is followed by an [Example] that discharges its hypotheses on a concrete frame. *)
From Verif Require Import Base Tokens Lazy Algebra Coding Contrasts Frame Eval Design.
From Verif Require Import DesignStructure FrameStructure ResponseProofs ResponseIndep HelpersProofs HelpersPrediction.
From Verif Require Driver CompEq.
From Coq Require Import Lia.
Local Close Scope Qc_scope.
Local Close Scope Q_scope.
Local Open Scope string_scope.
Local Open Scope list_scope.
Local Open Scope nat_scope.

(* ------------------------------------------------------------------------------------------ *)
(** * 0. Small lemmas *)

Lemma hd_bind_assoc {A B C} (r : res A) (f : A -> res B) (g : B -> res C) :
  bind (bind r f) g = bind r (fun a => bind (f a) g).
Proof. destruct r; reflexivity. Qed.

Lemma mapM_app_eq {A B} (f : A -> res B) l l' :
  mapM f (l ++ l') = do ys <- mapM f l; do ys' <- mapM f l'; Ok (ys ++ ys').
Proof.
  induction l as [|x l IH]; cbn [mapM app bind].
  - destruct (mapM f l'); reflexivity.
  - destruct (f x); cbn [bind]; [|reflexivity]. rewrite IH.
    destruct (mapM f l); cbn [bind]; [|reflexivity]. destruct (mapM f l'); reflexivity.
Qed.

Lemma fold_left_ext_in {A B} (f g : A -> B -> A) l : forall a,
  (forall acc x, In x l -> f acc x = g acc x) -> fold_left f l a = fold_left g l a.
Proof.
  induction l as [|x l IH]; intros a H; cbn [fold_left]; [reflexivity|].
  rewrite (H a x (or_introl eq_refl)). apply IH. intros acc y Hy. apply H. right. exact Hy.
Qed.

Lemma fold_left_inv_in {A B} (P : A -> Prop) (f : A -> B -> A) l : forall a,
  P a -> (forall acc x, In x l -> P acc -> P (f acc x)) -> P (fold_left f l a).
Proof.
  induction l as [|x l IH]; intros a Ha H; cbn [fold_left]; [exact Ha|].
  apply IH; [apply H; [left; reflexivity|exact Ha]|]. intros acc y Hy. apply H. right. exact Hy.
Qed.

Lemma hd_dict_set_fresh {V} k (v : V) d : ~ In k (map fst d) -> dict_set k v d = d ++ [(k, v)].
Proof.
  induction d as [|[k' v'] d IH]; cbn [dict_set map fst In app]; intros H; [reflexivity|].
  destruct (String.eqb_spec k k') as [->|Hne]; [exfalso; apply H; left; reflexivity|].
  rewrite IH; [reflexivity|]. intros Hin. apply H. right. exact Hin.
Qed.

Lemma hd_dict_set_keys {V} k (v : V) d x :
  In x (map fst (dict_set k v d)) -> x = k \/ In x (map fst d).
Proof.
  induction d as [|[k' v'] d IH]; cbn [dict_set map fst In]; [intros [<-|[]]; auto|].
  destruct (String.eqb_spec k k') as [->|Hne]; cbn [map fst In]; [tauto|].
  intros [<-|H]; [auto|]. destruct (IH H); auto.
Qed.

Lemma hd_dict_set_In {V} k (v : V) d kv : In kv (dict_set k v d) -> kv = (k, v) \/ In kv d.
Proof.
  induction d as [|[k' v'] d IH]; cbn [dict_set In]; [intros [<-|[]]; auto|].
  destruct (String.eqb k k'); cbn [In]; [intros [<-|H]; auto|].
  intros [<-|H]; [auto|]. destruct (IH H); auto.
Qed.

Lemma dict_get_Some_key {V} k (v : V) d : dict_get k d = Some v -> In k (map fst d).
Proof.
  induction d as [|[k' v'] d IH]; cbn [dict_get map fst In]; [discriminate|].
  destruct (String.eqb_spec k k') as [->|Hne]; [auto|]. intros H. right. exact (IH H).
Qed.

Lemma dict_get_None_fresh {V} k (d : list (string * V)) : ~ In k (map fst d) -> dict_get k d = None.
Proof.
  intros H. destruct (dict_get k d) as [v|] eqn:E; [|reflexivity].
  exfalso. apply H. exact (dict_get_Some_key _ _ _ E).
Qed.

Lemma dict_get_snoc_ne {V} k n (x : V) d : k <> n -> dict_get k (d ++ [(n, x)]) = dict_get k d.
Proof.
  intros Hne. induction d as [|[k' v'] d IH]; cbn [app dict_get].
  - apply String.eqb_neq in Hne. rewrite Hne. reflexivity.
  - destruct (String.eqb k k'); [reflexivity|exact IH].
Qed.

(* ------------------------------------------------------------------------------------------ *)
(** * 1. The engine: one more non-categoric main term *)

(** ** names without ":" *)

Fixpoint has_colon (s : string) : bool :=
  match s with
  | EmptyString => false
  | String c r => Ascii.eqb c ":"%char || has_colon r
  end.

Lemma has_colon_app a b : has_colon (a ++ b)%string = has_colon a || has_colon b.
Proof. induction a as [|c a IH]; cbn [append has_colon]; [reflexivity|]. rewrite IH, orb_assoc. reflexivity. Qed.

(* a name without ":" that is the ":"-concatenation of a list of names is the only name of the list *)
Lemma concat_colon_single n l :
  has_colon n = false -> n <> "" -> concat_with ":" l = n -> l = [n].
Proof.
  intros Hc Hne E. destruct l as [|x [|y r]].
  - cbn in E. congruence.
  - cbn in E. congruence.
  - exfalso. change (concat_with ":" (x :: y :: r)) with (x ++ ":" ++ concat_with ":" (y :: r))%string in E.
    rewrite <- E, has_colon_app in Hc. cbn in Hc. rewrite orb_true_r in Hc. discriminate.
Qed.

(** ** what [_get_encoding_groups] sees, with one more main term at the end *)

Definition numeric_part (comps : list (string * ckind)) : string :=
  concat_with ":" (map fst (filter (fun c => ckind_eqb (snd c) KNumeric) comps)).

(* [n] is neither the name of the term nor the name of its numeric part *)
Definition tinfo_avoid (n : string) (ti : tinfo) : Prop :=
  tinfo_name ti <> n /\ match ti with TInter _ comps => numeric_part comps <> n | _ => True end.

Definition is_intercept (t : tinfo) : bool := match t with TIntercept => true | _ => false end.

Lemma intercept_first_snoc ts n k :
  intercept_first (ts ++ [TMain n k]) = intercept_first ts ++ [TMain n k].
Proof.
  unfold intercept_first. rewrite existsb_app, filter_app. cbn [existsb filter]. rewrite orb_false_r.
  destruct (existsb _ ts); reflexivity.
Qed.

Lemma intercept_first_In ts x : In x (intercept_first ts) -> In x ts.
Proof.
  unfold intercept_first. destruct (existsb _ ts) eqn:E; [|auto].
  intros [<-|H].
  - apply existsb_exists in E as (y & Hy & Hm). destruct y; try discriminate. exact Hy.
  - apply filter_In in H as [H _]. exact H.
Qed.

Lemma components_dict_In l kv : In kv (components_dict l) -> In (snd kv) l /\ fst kv = tinfo_name (snd kv).
Proof.
  unfold components_dict.
  apply (fold_left_inv_in (fun d => In kv d -> In (snd kv) l /\ fst kv = tinfo_name (snd kv))).
  - intros [].
  - intros acc x Hx IH H. apply hd_dict_set_In in H as [->|H]; [split; [exact Hx|reflexivity]|auto].
Qed.

Lemma components_dict_keys l k : In k (map fst (components_dict l)) -> In k (map tinfo_name l).
Proof.
  intros H. apply in_map_iff in H as (kv & <- & Hkv). apply components_dict_In in Hkv as [Hin ->].
  apply in_map. exact Hin.
Qed.

Lemma components_dict_snoc l n k :
  ~ In n (map tinfo_name l) ->
  components_dict (l ++ [TMain n k]) = components_dict l ++ [(n, TMain n k)].
Proof.
  intros H. unfold components_dict. rewrite fold_left_app. cbn [fold_left tinfo_name].
  apply hd_dict_set_fresh. intros Hin. apply H. exact (components_dict_keys _ _ Hin).
Qed.

Lemma categoric_group_snoc d n k :
  k <> KCategoric -> categoric_group (d ++ [(n, TMain n k)]) = categoric_group d.
Proof.
  intros Hk. unfold categoric_group. rewrite fold_left_app. cbn [fold_left snd].
  destruct k; try reflexivity. congruence.
Qed.

(* the step function of [numeric_groups], by name *)
Definition ng_step (d : list (string * tinfo))
           (acc : list (list string * list (string * list factor))) (kv : string * tinfo)
  : list (list string * list (string * list factor)) :=
  match snd kv with
  | TInter n comps =>
      let cat := map fst (filter (fun c => ckind_eqb (snd c) KCategoric) comps) in
      let num := map fst (filter (fun c => ckind_eqb (snd c) KNumeric) comps) in
      match cat, num with
      | _ :: _, _ :: _ =>
          let numeric_part := concat_with ":" num in
          let acc1 :=
            match index_where (fun g => str_set_eqb (fst g) num) acc 0 with
            | Some _ => acc
            | None => (acc ++ [(num, [])])%list
            end in
          map (fun g =>
                 if str_set_eqb (fst g) num then
                   let g1 := match dict_get numeric_part d with
                             | Some _ => dict_set numeric_part [] (snd g)
                             | None => snd g end in
                   (fst g, dict_set (fst kv) cat g1)
                 else g) acc1
      | _, _ => acc
      end
  | _ => acc
  end.

Lemma numeric_groups_step d : numeric_groups d = fold_left (ng_step d) d [].
Proof. reflexivity. Qed.

Lemma ng_step_snoc d n x acc kv :
  match snd kv with TInter _ comps => numeric_part comps <> n | _ => True end ->
  ng_step (d ++ [(n, x)]) acc kv = ng_step d acc kv.
Proof.
  intros H. unfold ng_step. destruct (snd kv) as [|nm k|nm comps]; try reflexivity.
  unfold numeric_part in H.
  destruct (map fst (filter (fun c => ckind_eqb (snd c) KCategoric) comps)) as [|c0 cat]; [reflexivity|].
  destruct (map fst (filter (fun c => ckind_eqb (snd c) KNumeric) comps)) as [|n0 num]; [reflexivity|].
  cbv zeta. rewrite (dict_get_snoc_ne _ n x d H). reflexivity.
Qed.

Lemma numeric_groups_snoc d n k :
  (forall kv, In kv d -> match snd kv with TInter _ comps => numeric_part comps <> n | _ => True end) ->
  numeric_groups (d ++ [(n, TMain n k)]) = numeric_groups d.
Proof.
  intros H. rewrite !numeric_groups_step, fold_left_app. cbn [fold_left].
  unfold ng_step at 1. cbn [snd].
  apply fold_left_ext_in. intros acc kv Hin. apply ng_step_snoc. exact (H kv Hin).
Qed.

Theorem encoding_groups_snoc ts n k :
  k <> KCategoric -> ~ In n (map tinfo_name ts) -> Forall (tinfo_avoid n) ts ->
  encoding_groups (ts ++ [TMain n k]) = encoding_groups ts.
Proof.
  intros Hk Hn Hav. unfold encoding_groups. rewrite intercept_first_snoc.
  assert (Hn' : ~ In n (map tinfo_name (intercept_first ts))).
  { intros H. apply in_map_iff in H as (x & <- & Hx). apply Hn. apply in_map. exact (intercept_first_In _ _ Hx). }
  rewrite (components_dict_snoc _ _ _ Hn'), (categoric_group_snoc _ _ _ Hk), numeric_groups_snoc; [reflexivity|].
  intros kv Hin. apply components_dict_In in Hin as [Hin _]. apply intercept_first_In in Hin.
  rewrite Forall_forall in Hav. exact (proj2 (Hav _ Hin)).
Qed.

Corollary encoding_bools_snoc ts n k :
  k <> KCategoric -> ~ In n (map tinfo_name ts) -> Forall (tinfo_avoid n) ts ->
  encoding_bools (ts ++ [TMain n k]) = encoding_bools ts.
Proof. intros Hk Hn Hav. unfold encoding_bools. rewrite (encoding_groups_snoc _ _ _ Hk Hn Hav). reflexivity. Qed.

(** ** the keys of [encoding_bools] are names of terms *)

Lemma pick_contrasts_loop_keys g : forall used acc r x,
  pick_contrasts_loop g used acc = Ok r -> In x (map fst r) -> In x (map fst acc) \/ In x (map fst g).
Proof.
  induction g as [|[nm comps] g IH]; intros used acc r x H Hx; cbn [pick_contrasts_loop] in H.
  - injection H as <-. left. exact Hx.
  - apply bind_ok in H as (cu & _ & H). destruct (IH _ _ _ x H Hx) as [Ha|Hg].
    + apply hd_dict_set_keys in Ha as [->|Ha]; [right; left; reflexivity|left; exact Ha].
    + right. right. exact Hg.
Qed.

Lemma categoric_group_keys d x : In x (map fst (categoric_group d)) -> In x (map fst d).
Proof.
  unfold categoric_group.
  apply (fold_left_inv_in (fun acc => In x (map fst acc) -> In x (map fst d))).
  - intros [].
  - intros acc kv Hkv IH H.
    assert (Hset : forall v, In x (map fst (dict_set (fst kv) v acc)) -> In x (map fst d)).
    { intros v Hv. apply hd_dict_set_keys in Hv as [->|Hv]; [apply in_map; exact Hkv|auto]. }
    destruct (snd kv) as [|nm k|nm comps].
    + exact (Hset _ H).
    + destruct k; auto. exact (Hset _ H).
    + destruct (forallb _ comps); [exact (Hset _ H)|auto].
Qed.

Lemma numeric_groups_keys d g x :
  In g (numeric_groups d) -> In x (map fst (snd g)) -> In x (map fst d).
Proof.
  rewrite numeric_groups_step. revert g x.
  apply (fold_left_inv_in (fun acc => forall g x, In g acc -> In x (map fst (snd g)) -> In x (map fst d))).
  - intros g x [].
  - intros acc kv Hkv IH g x Hg Hx. unfold ng_step in Hg.
    destruct (snd kv) as [|nm k|nm comps]; try exact (IH g x Hg Hx).
    destruct (map fst (filter (fun c => ckind_eqb (snd c) KCategoric) comps)) as [|c0 cat]; [exact (IH g x Hg Hx)|].
    destruct (map fst (filter (fun c => ckind_eqb (snd c) KNumeric) comps)) as [|n0 num]; [exact (IH g x Hg Hx)|].
    cbv zeta in Hg. apply in_map_iff in Hg as (g0 & Eg & Hg0).
    assert (IH0 : forall y, In y (map fst (snd g0)) -> In y (map fst d)).
    { intros y Hy. destruct (index_where _ acc 0).
      - exact (IH g0 y Hg0 Hy).
      - apply in_app_or in Hg0 as [Hg0|[<-|[]]]; [exact (IH g0 y Hg0 Hy)|destruct Hy]. }
    destruct (str_set_eqb (fst g0) (n0 :: num)); [|subst g0; exact (IH0 x Hx)].
    subst g. cbn [snd] in Hx. apply hd_dict_set_keys in Hx as [->|Hx]; [apply in_map; exact Hkv|].
    destruct (dict_get (concat_with ":" (n0 :: num)) d) eqn:Eg; [|exact (IH0 x Hx)].
    apply hd_dict_set_keys in Hx as [->|Hx]; [exact (dict_get_Some_key _ _ _ Eg)|exact (IH0 x Hx)].
Qed.

Lemma encoding_bools_keys ts enc x :
  encoding_bools ts = Ok enc -> In x (map fst enc) -> In x (map tinfo_name ts).
Proof.
  unfold encoding_bools. intros H Hx. apply bind_ok in H as (per & Hper & H). injection H as <-.
  set (d := components_dict (intercept_first ts)) in *.
  assert (Hd : forall y, In y (map fst d) -> In y (map tinfo_name ts)).
  { intros y Hy. apply components_dict_keys in Hy. apply in_map_iff in Hy as (t & <- & Ht).
    apply in_map. exact (intercept_first_In _ _ Ht). }
  assert (Hgroups : forall g, In g (encoding_groups ts) -> forall y, In y (map fst g) -> In y (map fst d)).
  { unfold encoding_groups. fold d. intros g [<-|Hg] y Hy.
    - exact (categoric_group_keys _ _ Hy).
    - apply in_map_iff in Hg as (g0 & <- & Hg0). exact (numeric_groups_keys _ _ _ Hg0 Hy). }
  assert (Hper' : forall p, In p per -> forall y, In y (map fst p) -> In y (map fst d)).
  { apply mapM_ok in Hper. clear -Hper Hgroups. induction Hper as [|g p gs ps Hgp _ IH]; intros q Hq y Hy; [destruct Hq|].
    destruct Hq as [<-|Hq].
    - unfold pick_contrasts in Hgp. destruct (pick_contrasts_loop_keys _ _ _ _ y Hgp Hy) as [[]|Hg].
      exact (Hgroups g (or_introl eq_refl) y Hg).
    - apply (IH (fun g' Hg' => Hgroups g' (or_intror Hg')) q Hq y Hy). }
  apply Hd. revert Hx.
  apply (fold_left_inv_in (fun acc => In x (map fst acc) -> In x (map fst d))).
  - intros [].
  - intros acc p Hp IH.
    apply (fold_left_inv_in (fun a => In x (map fst a) -> In x (map fst d))); [exact IH|].
    intros a kv Hkv IHa Ha. apply hd_dict_set_keys in Ha as [->|Ha]; [|auto].
    apply (Hper' p Hp). apply in_map. exact Hkv.
Qed.

(** ** typed terms whose component names avoid [n] *)

Definition tterm_avoid (n : string) (t : tterm) : Prop :=
  match t with
  | TTIntercept => True
  | TTTerm nm cs => nm = concat_with ":" (map tc_name cs) /\ Forall (fun c => tc_name c <> n) cs
  end.

Definition cterm_avoid (n : string) (c : cterm) : Prop :=
  match c with CT t => Forall (fun k => comp_name k <> n) t | _ => True end.

(* the same as a boolean, for examples *)
Definition cterms_avoidb (n : string) (cs : list cterm) : bool :=
  forallb (fun c => match c with
                    | CT t => forallb (fun k => negb (String.eqb (comp_name k) n)) t
                    | _ => true end) cs.

Lemma cterms_avoidb_ok n cs : cterms_avoidb n cs = true -> Forall (cterm_avoid n) cs.
Proof.
  unfold cterms_avoidb. rewrite forallb_forall, Forall_forall. intros H c Hc. specialize (H c Hc).
  destruct c as [| |t]; cbn; try exact I. rewrite forallb_forall in H. apply Forall_forall.
  intros k Hk E. specialize (H k Hk). rewrite E, String.eqb_refl in H. discriminate.
Qed.

Lemma tinfo_name_kind_info t : tinfo_name (term_kind_info t) = tterm_name t.
Proof. destruct t as [|nm [|c [|c' cs]]]; reflexivity. Qed.

Lemma hd_set_type_comp_name cx data r c tc : set_type_comp cx data r c = Ok tc -> tc_name tc = comp_name c.
Proof.
  unfold set_type_comp. destruct c as [[name|v] lvl|lz]; intros H.
  - destruct (assoc name data); [|discriminate]. injection H as <-. reflexivity.
  - discriminate.
  - apply bind_ok in H as (rr & _ & H). apply bind_ok in H as (k & _ & H). injection H as <-. reflexivity.
Qed.

Lemma tterm_avoid_name n t :
  has_colon n = false -> n <> "" -> n <> "Intercept" -> tterm_avoid n t -> tterm_name t <> n.
Proof.
  intros Hc Hne Hi Ht. destruct t as [|nm cs]; cbn [tterm_name]; [congruence|].
  destruct Ht as [-> Hall]. intros E. apply (concat_colon_single _ _ Hc Hne) in E.
  destruct cs as [|c [|c' cs]]; cbn in E; try discriminate. injection E as E.
  inversion Hall; subst. congruence.
Qed.

Lemma tterm_avoid_info n t :
  has_colon n = false -> n <> "" -> n <> "Intercept" -> tterm_avoid n t -> tinfo_avoid n (term_kind_info t).
Proof.
  intros Hc Hne Hi Ht. split; [rewrite tinfo_name_kind_info; exact (tterm_avoid_name _ _ Hc Hne Hi Ht)|].
  destruct t as [|nm cs]; [exact I|]. destruct Ht as [_ Hall].
  assert (Hnum : numeric_part (map (fun c => (tc_name c, tc_kind c)) cs) <> n).
  { unfold numeric_part. intros E. apply (concat_colon_single _ _ Hc Hne) in E.
    assert (Hin : In n (map fst (filter (fun c => ckind_eqb (snd c) KNumeric) (map (fun c => (tc_name c, tc_kind c)) cs))))
      by (rewrite E; left; reflexivity).
    apply in_map_iff in Hin as ([a b] & Ea & Hin). cbn [fst] in Ea. subst a.
    apply filter_In in Hin as [Hin _]. apply in_map_iff in Hin as (c & Ec & Hin). injection Ec as Ec _.
    rewrite Forall_forall in Hall. exact (Hall c Hin Ec). }
  destruct cs as [|c [|c' cs]]; cbn [term_kind_info]; try exact I; exact Hnum.
Qed.

Lemma mapM_set_type_comp_names cx d r tm tcs :
  mapM (set_type_comp cx d r) tm = Ok tcs -> map tc_name tcs = map comp_name tm.
Proof.
  intros H. apply mapM_ok in H. induction H as [|k tc tm tcs Hk _ IH]; [reflexivity|].
  cbn [map]. rewrite IH, (hd_set_type_comp_name _ _ _ _ _ Hk). reflexivity.
Qed.

Lemma type_common_avoid cx d n c t :
  cterm_avoid n c -> type_common cx d c = Ok t -> tterm_avoid n t.
Proof.
  destruct c as [| |tm]; cbn [type_common cterm_avoid]; intros Hav H; try discriminate.
  - injection H as <-. exact I.
  - unfold set_type_term in H. apply bind_ok in H as (tcs & Htcs & H). injection H as <-.
    pose proof (mapM_set_type_comp_names _ _ _ _ _ Htcs) as Hn.
    cbn [tterm_avoid]. unfold term_name. rewrite Hn. split; [reflexivity|].
    apply mapM_ok in Htcs. induction Htcs as [|k tc tm tcs Hk _ IH]; [constructor|].
    inversion Hav as [|? ? Hk0 Hav']; subst. cbn [map] in Hn. injection Hn as Hn1 Hn2.
    constructor; [rewrite Hn1; exact Hk0|exact (IH Hav' Hn2)].
Qed.

Lemma Forall_filter_hd {T} (P : T -> Prop) f l : Forall P l -> Forall P (filter f l).
Proof. rewrite !Forall_forall. intros H x Hx. apply filter_In in Hx as [Hx _]. auto. Qed.

Lemma add_extra_terms_avoid cx data enc n ts : forall ts',
  Forall (tterm_avoid n) ts -> add_extra_terms cx data enc ts = Ok ts' -> Forall (tterm_avoid n) ts'.
Proof.
  induction ts as [|t ts IH]; intros ts' Ht H; cbn [add_extra_terms] in H.
  - injection H as <-. constructor.
  - inversion Ht as [|? ? Ht0 Hts]; subst.
    apply bind_ok in H as (r' & Hr & H). specialize (IH r' Hts Hr).
    assert (Hplain : Forall (tterm_avoid n) (t :: r')) by (constructor; assumption).
    destruct (dict_get (tterm_name t) enc) as [[|s1 [|s2 more]]|]; try (injection H as <-; exact Hplain).
    apply bind_ok in H as (ex & Hex & H). injection H as <-.
    apply Forall_app. split; [|exact Hplain].
    eapply mapM_Forall; [|exact Hex]. intros sub e _ He. unfold extra_term in He.
    destruct t as [|nm cs]; [discriminate|]. injection He as <-. cbn in Ht0 |- *.
    split; [reflexivity|]. apply Forall_app. split; apply Forall_filter_hd; exact (proj2 Ht0).
Qed.

Lemma add_extra_terms_snoc cx data enc ts t :
  dict_get (tterm_name t) enc = None ->
  add_extra_terms cx data enc (ts ++ [t]) = do r <- add_extra_terms cx data enc ts; Ok (r ++ [t]).
Proof.
  intros Hn. induction ts as [|a ts IH]; cbn [app add_extra_terms bind].
  - rewrite Hn. reflexivity.
  - rewrite IH. destruct (add_extra_terms cx data enc ts) as [r|]; cbn [bind]; [|reflexivity].
    destruct (dict_get (tterm_name a) enc) as [[|s1 [|s2 more]]|]; cbn [bind]; try reflexivity.
    destruct (mapM _ _) as [ex|]; cbn [bind]; [|reflexivity]. rewrite <- app_assoc. reflexivity.
Qed.

Lemma set_data_term_name nrows t s dt : set_data_term nrows t s = Ok dt -> dt_name dt = tterm_name t.
Proof.
  destruct t as [|nm cs]; cbn [set_data_term tterm_name]; intros H.
  - injection H as <-. reflexivity.
  - apply bind_ok in H as (ds & _ & H). destruct ds as [|d [|d' rest]]; [discriminate|injection H as <-; reflexivity|].
    apply bind_ok in H as (labs & _ & H). destruct (existsb _ labs); [discriminate|]. injection H as <-. reflexivity.
Qed.

Lemma fold_dict_set_keys {V} (key : V -> string) (l : list V) x :
  In x (map fst (fold_left (fun acc t => dict_set (key t) t acc) l [])) -> In x (map key l).
Proof.
  apply (fold_left_inv_in (fun acc => In x (map fst acc) -> In x (map key l))).
  - intros [].
  - intros acc t Ht IH H. apply hd_dict_set_keys in H as [->|H]; [apply in_map; exact Ht|auto].
Qed.

(** ** the theorem on [eval_predictors] *)

(* the one term a single non-categoric component makes *)
Definition single_dterm (tc : tcomp) (dc : dcomp) : dterm :=
  DT (tc_name tc) (kind_string (tc_kind tc)) [dc] (dc_rows dc) (dc_labels dc).

(* the hypotheses on the name [n] of the new term: no ":" in it, not empty, not "Intercept", and no
   component of the other common terms bears it *)
Definition name_fresh (n : string) (cs : list cterm) : Prop :=
  has_colon n = false /\ n <> "" /\ n <> "Intercept" /\ Forall (cterm_avoid n) cs.

Theorem eval_predictors_append cx d cs gs c tc dc :
  name_fresh (comp_name c) cs ->
  set_type_comp cx d false c = Ok tc -> tc_kind tc <> KCategoric ->
  set_data_comp tc false (frame_rows d) = Ok dc ->
  eval_predictors cx d (cs ++ [CT [c]]) gs =
  do p <- eval_predictors cx d cs gs; Ok (fst p ++ [single_dterm tc dc], snd p).
Proof.
  intros (Hc & Hne & Hi & Hav) Hty Hk Hdata. set (n := comp_name c) in *.
  pose proof (hd_set_type_comp_name _ _ _ _ _ Hty) as Hname. fold n in Hname.
  unfold eval_predictors. rewrite mapM_app_eq.
  destruct (mapM (type_common cx d) cs) as [tcs|] eqn:Etcs; cbn [bind]; [|reflexivity].
  cbn [mapM type_common]. unfold set_type_term at 1. cbn [mapM]. rewrite Hty. cbn [bind].
  change (term_name [c]) with n.
  destruct (mapM (set_type_gterm cx d) gs) as [tgs|]; cbn [bind]; [|reflexivity].
  assert (A1 : Forall (tterm_avoid n) tcs).
  { eapply mapM_Forall; [|exact Etcs]. intros c0 t0 Hin Ht0. rewrite Forall_forall in Hav.
    exact (type_common_avoid _ _ _ _ _ (Hav c0 Hin) Ht0). }
  assert (Names : forall ts, Forall (tterm_avoid n) ts ->
            ~ In n (map tinfo_name (map term_kind_info ts)) /\ Forall (tinfo_avoid n) (map term_kind_info ts)).
  { intros ts Hts. split.
    - rewrite map_map. intros Hin. apply in_map_iff in Hin as (t & E & Ht). rewrite tinfo_name_kind_info in E.
      rewrite Forall_forall in Hts. exact (tterm_avoid_name _ _ Hc Hne Hi (Hts t Ht) E).
    - apply Forall_map. eapply Forall_impl; [|exact Hts]. intros t. apply tterm_avoid_info; assumption. }
  rewrite map_app. cbn [map term_kind_info].
  destruct (Names tcs A1) as [N1 F1]. rewrite (encoding_bools_snoc _ _ _ Hk N1 F1).
  destruct (encoding_bools (map term_kind_info tcs)) as [enc1|] eqn:E1; cbn [bind]; [|reflexivity].
  rewrite add_extra_terms_snoc.
  2:{ cbn [tterm_name]. apply dict_get_None_fresh. intros Hin. apply N1. exact (encoding_bools_keys _ _ _ E1 Hin). }
  rewrite hd_bind_assoc.
  destruct (add_extra_terms cx d enc1 tcs) as [tcs2|] eqn:E2; cbn [bind]; [|reflexivity].
  pose proof (add_extra_terms_avoid _ _ _ _ _ _ A1 E2) as A2.
  rewrite map_app. cbn [map term_kind_info].
  destruct (Names tcs2 A2) as [N2 F2]. rewrite (encoding_bools_snoc _ _ _ Hk N2 F2).
  destruct (encoding_bools (map term_kind_info tcs2)) as [enc2|] eqn:E3; cbn [bind]; [|reflexivity].
  rewrite mapM_app_eq.
  destruct (mapM _ tcs2) as [dcs|] eqn:Edcs; cbn [bind]; [|reflexivity].
  cbn [mapM]. unfold common_spans at 1. cbn [tterm_name].
  rewrite (dict_get_None_fresh n enc2)
    by (intros Hin; apply N2; exact (encoding_bools_keys _ _ _ E3 Hin)).
  cbn [bind set_data_term mapM spans_for]. rewrite Hdata. cbn [bind].
  rewrite (set_data_comp_t _ _ _ _ Hdata).
  destruct (mapM _ (combine tgs gs)) as [dgs|]; cbn [bind]; [|reflexivity].
  cbn [fst snd]. f_equal. f_equal.
  rewrite fold_left_app. cbn [fold_left dt_name].
  rewrite hd_dict_set_fresh.
  - rewrite map_app. unfold single_dterm. rewrite Hname. reflexivity.
  - intros Hin. apply fold_dict_set_keys in Hin. apply N2. rewrite map_map.
    apply in_map_iff in Hin as (dt & E & Hdt). apply mapM_ok in Edcs.
    clear -E Hdt Edcs. induction Edcs as [|t dt0 ts dts Ht _ IH]; [destruct Hdt|].
    apply bind_ok in Ht as (s & _ & Ht). apply set_data_term_name in Ht.
    destruct Hdt as [<-|Hdt].
    + left. rewrite tinfo_name_kind_info, <- Ht. exact E.
    + right. exact (IH Hdt).
Qed.

(** ** the same on [eval_model], on [design_matrices] (via [design_of_model]) and on [new_common] *)

Definition add_common (D : design) (t : dterm) : design :=
  Design (ds_nrows D) (ds_response D) (ds_common D ++ [t]) (ds_group D).

Theorem eval_model_append cx d r cs gs c tc dc :
  name_fresh (comp_name c) cs ->
  set_type_comp cx d false c = Ok tc -> tc_kind tc <> KCategoric ->
  set_data_comp tc false (frame_rows d) = Ok dc ->
  eval_model cx d (Mod r (cs ++ [CT [c]]) gs) =
  do D0 <- eval_model cx d (Mod r cs gs); Ok (add_common D0 (single_dterm tc dc)).
Proof.
  intros Hf Hty Hk Hdata. rewrite !eval_model_split. cbn [commons groups resp].
  rewrite (eval_predictors_append cx d cs gs c tc dc Hf Hty Hk Hdata).
  destruct (eval_predictors cx d cs gs) as [[dcs dgs]|]; cbn [bind fst snd]; [|reflexivity].
  destruct (eval_resp cx d r); reflexivity.
Qed.

(* a refusal of the new component alone: the model is refused *)
Theorem eval_model_append_refused cx d r cs gs c k :
  set_type_comp cx d false c = Err k ->
  is_ok (eval_model cx d (Mod r (cs ++ [CT [c]]) gs)) = false.
Proof.
  intros Hty. unfold eval_model. cbn [commons]. rewrite mapM_app_eq.
  destruct (mapM (type_common cx d) cs); cbn [bind]; [|reflexivity].
  cbn [mapM type_common]. unfold set_type_term. cbn [mapM]. rewrite Hty. reflexivity.
Qed.

(* when nothing has to be dropped (or under "pass"), [design_of_model] is [eval_model] on the frame
   as given -- the model-level form of [design_matrices_eval_model] *)
Lemma design_of_model_eval cx m D na :
  frame_wf D -> frame_rows D <> 0 -> used_cols D m <> [] ->
  na = NaPass \/ anyb (incomplete_mask D m) = false ->
  design_of_model cx m D na = eval_model cx D m.
Proof.
  intros Hwf Hn Hu Hna. unfold design_of_model.
  assert (P : prepare_data D m na = Ok (used_cols D m)).
  { rewrite prepare_data_unfold. apply Nat.eqb_neq in Hn. rewrite Hn.
    destruct Hna as [-> | ->]; [destruct (anyb _); reflexivity|reflexivity]. }
  rewrite P. cbn [bind]. destruct (used_cols D m) as [|kv u] eqn:Eu; [congruence|].
  cbn [fix_empty]. rewrite <- Eu. apply eval_model_vars_ext.
  - intros k Hk. apply assoc_used_cols. assumption.
  - apply frame_rows_rect; [apply used_cols_rect; exact Hwf|congruence].
Qed.

(* the model-level form of [design_drop_is_filter] *)
Lemma design_of_model_drop_filter cx m D na :
  frame_wf D -> frame_rows D <> 0 -> count_true (complete_mask D m) <> 0 ->
  design_of_model cx m (frame_select (complete_mask D m) D) na = design_of_model cx m D NaDrop.
Proof.
  intros Hwf Hn Hc. unfold design_of_model.
  rewrite (drop_then_any _ _ na Hwf Hn Hc), (drop_is_filter _ _ Hwf Hn). cbn [bind].
  destruct (used_cols D m) as [|kv u] eqn:Eu; [|reflexivity].
  cbn [frame_select map fix_empty].
  rewrite (frame_select_rows _ _ Hwf (frame_rows_nonempty _ Hn) (complete_mask_length _ m Hwf)).
  unfold complete_mask, incomplete_mask. rewrite Eu. cbn [map or_rows].
  rewrite count_true_all by apply anyb_repeat_false. rewrite repeat_length. reflexivity.
Qed.

(* fewer variables, fewer incomplete rows *)
Lemma incomplete_mask_anyb D m :
  frame_wf D ->
  anyb (incomplete_mask D m) = existsb (fun kv => has_missing (snd kv)) (used_cols D m).
Proof.
  intros Hwf. unfold incomplete_mask. rewrite (anyb_or_rows _ _ (mask_cols_length _ _ m Hwf)).
  rewrite existsb_map'. reflexivity.
Qed.

Lemma incomplete_mask_mono D m0 m1 :
  frame_wf D -> incl (model_vars m0) (model_vars m1) ->
  anyb (incomplete_mask D m1) = false -> anyb (incomplete_mask D m0) = false.
Proof.
  intros Hwf Hincl H1. rewrite (incomplete_mask_anyb D m1 Hwf) in H1. rewrite (incomplete_mask_anyb D m0 Hwf).
  apply not_true_is_false. intros H0. apply existsb_exists in H0 as (kv & Hin & Hm).
  assert (E : existsb (fun kv => has_missing (snd kv)) (used_cols D m1) = true); [|congruence].
  apply existsb_exists. exists kv. split; [|exact Hm]. unfold used_cols in *.
  apply filter_In in Hin as [Hin Hu]. apply filter_In. split; [exact Hin|].
  unfold used_in in *. apply existsb_exists in Hu as (k & Hk & E). apply existsb_exists. exists k.
  split; [apply Hincl; exact Hk|exact E].
Qed.

Lemma model_vars_append r cs gs t :
  incl (model_vars (Mod r cs gs)) (model_vars (Mod r (cs ++ [CT t]) gs)).
Proof.
  unfold model_vars. cbn [commons groups resp]. rewrite flat_map_app. intros x Hx.
  apply in_app_or in Hx as [Hx|Hx]; apply in_or_app; [left; apply in_or_app; left; exact Hx|right; exact Hx].
Qed.

Lemma used_cols_mono D m0 m1 :
  incl (model_vars m0) (model_vars m1) -> used_cols D m0 <> [] -> used_cols D m1 <> [].
Proof.
  intros Hincl H0 H1. destruct (used_cols D m0) as [|kv u] eqn:E0; [congruence|].
  assert (Hin : In kv (used_cols D m1)); [|rewrite H1 in Hin; destruct Hin].
  assert (Hkv : In kv (used_cols D m0)) by (rewrite E0; left; reflexivity).
  unfold used_cols in *. apply filter_In in Hkv as [Hin Hu]. apply filter_In. split; [exact Hin|].
  unfold used_in in *. apply existsb_exists in Hu as (k & Hk & E). apply existsb_exists. exists k.
  split; [apply Hincl; exact Hk|exact E].
Qed.

(** The design of a model with one more single-component, non-categoric common term at the end,
    on a frame from which nothing has to be dropped (or under "pass"): the design without the
    term, plus that term. *)
Theorem design_append cx D na r cs gs c tc dc :
  frame_wf D -> frame_rows D <> 0 -> used_cols D (Mod r cs gs) <> [] ->
  na = NaPass \/ anyb (incomplete_mask D (Mod r (cs ++ [CT [c]]) gs)) = false ->
  name_fresh (comp_name c) cs ->
  set_type_comp cx D false c = Ok tc -> tc_kind tc <> KCategoric ->
  set_data_comp tc false (frame_rows D) = Ok dc ->
  design_of_model cx (Mod r (cs ++ [CT [c]]) gs) D na =
  do D0 <- design_of_model cx (Mod r cs gs) D na; Ok (add_common D0 (single_dterm tc dc)).
Proof.
  intros Hwf Hn Hu Hna Hf Hty Hk Hdata.
  pose proof (model_vars_append r cs gs [c]) as Hincl.
  rewrite (design_of_model_eval cx (Mod r (cs ++ [CT [c]]) gs) D na Hwf Hn (used_cols_mono _ _ _ Hincl Hu) Hna).
  rewrite (design_of_model_eval cx (Mod r cs gs) D na Hwf Hn Hu).
  - exact (eval_model_append cx D r cs gs c tc dc Hf Hty Hk Hdata).
  - destruct Hna as [->|Hm]; [left; reflexivity|right]. exact (incomplete_mask_mono _ _ _ Hwf Hincl Hm).
Qed.

(** Prediction: the matrix of the common terms of a design with one more term is the matrix
    without it, with the block of the new term glued to the right of every row. *)
Definition glue (a b : list (list cell)) : list (list cell) := zip_with (fun x y => x ++ y) a b.

Theorem new_common_append cx mode D0 t data :
  new_common cx mode (add_common D0 t) data =
  do r0 <- new_common cx mode D0 data;
  do p <- new_term cx mode data t;
  Ok (NewRes (glue (nr_rows r0) (fst p)) (nr_warned r0 || snd p)).
Proof.
  unfold new_common, add_common. cbn [ds_common]. rewrite mapM_app_eq.
  destruct (mapM (new_term cx mode data) (ds_common D0)) as [parts|]; cbn [bind]; [|reflexivity].
  cbn [mapM]. destruct (new_term cx mode data t) as [p|]; cbn [bind]; [|reflexivity].
  cbn [nr_rows nr_warned]. f_equal. f_equal.
  - unfold hstack, glue. rewrite map_app, fold_left_app. reflexivity.
  - rewrite existsb_app. cbn [existsb]. rewrite orb_false_r. reflexivity.
Qed.

(* the response of a design plays no part in [new_common] (nor in [new_group]) *)
Theorem new_common_ignores_response cx mode D1 D2 data :
  ds_common D1 = ds_common D2 -> new_common cx mode D1 data = new_common cx mode D2 data.
Proof. unfold new_common. intros ->. reflexivity. Qed.

(* consequences of an equation  X1 = do D0 <- X0; Ok (f D0) *)
Lemma bind_ok_iff {A B} (x : res A) (f : A -> B) y :
  (do a <- x; Ok (f a)) = Ok y <-> exists a, x = Ok a /\ y = f a.
Proof.
  destruct x as [a|k]; cbn [bind]; split.
  - intros H. injection H as <-. exists a. auto.
  - intros (a' & E & ->). injection E as <-. reflexivity.
  - discriminate.
  - intros (a' & E & _). discriminate.
Qed.

Lemma bind_is_ok {A B} (x : res A) (f : A -> B) : is_ok (do a <- x; Ok (f a)) = is_ok x.
Proof. destruct x; reflexivity. Qed.

(* ------------------------------------------------------------------------------------------ *)
(** * 2. Formulas  lhs ~ rhs + term *)

(* expressions: a call of a name, a variable *)
Definition ecall (f : token) (args : list expr) : expr := ECall (EVariable f None) args.
Definition evar (t : token) : expr := EVariable t None.

(* a right-hand side that can take one more term by "+": an intercept, a term or a model.  (A
   lone group-specific term cannot: GroupSpecificTerm has no __add__, see [offset_after_group_refuted];
   the texts the scanner produces always start their right-hand side with "1 +", a model.) *)
Definition rhs_main (b : value) : option (list cterm * list gterm) :=
  match b with
  | VM o => Some (commons o, groups o)
  | VT t => Some ([CT t], [])
  | VI => Some ([CI], [])
  | _ => None
  end.

Lemma term_eqb_sym a b : term_eqb a b = term_eqb b a.
Proof. unfold term_eqb. apply andb_comm. Qed.

Lemma v_add_term b t cs gs :
  rhs_main b = Some (cs, gs) -> cmem (CT t) cs = false ->
  exists m', v_add b (VT t) = Ok (VM m') /\ commons m' = cs ++ [CT t] /\ groups m' = gs.
Proof.
  intros Hb Hm. destruct b as [| |t'|g|t'|o]; cbn [rhs_main] in Hb; try discriminate; injection Hb as <- <-.
  - eexists. split; [reflexivity|]. cbn. repeat split.
  - cbn [cmem existsb cterm_eqb] in Hm. rewrite orb_false_r in Hm.
    cbn [v_add]. rewrite term_eqb_sym, Hm. eexists. split; [reflexivity|].
    cbn. rewrite Hm. cbn. repeat split.
  - cbn [v_add model_add add_term bind]. rewrite Hm. eexists. split; [reflexivity|]. repeat split.
Qed.

(* the term is already there: "+" changes nothing *)
Lemma v_add_term_present b t cs gs :
  rhs_main b = Some (cs, gs) -> cmem (CT t) cs = true -> v_add b (VT t) = Ok b.
Proof.
  intros Hb Hm. destruct b as [| |t'|g|t'|o]; cbn [rhs_main] in Hb; try discriminate; injection Hb as <- <-.
  - cbn in Hm. discriminate.
  - cbn [cmem existsb cterm_eqb] in Hm. rewrite orb_false_r in Hm.
    cbn [v_add]. rewrite term_eqb_sym, Hm. reflexivity.
  - cbn [v_add model_add add_term bind]. rewrite Hm. reflexivity.
Qed.

Lemma rhs_main_terms b cs gs : rhs_main b = Some (cs, gs) -> rhs_terms b = Some (cs, gs).
Proof. destruct b; cbn; intros H; try discriminate; exact H. Qed.

(* lhs ~ rhs: the single component of lhs is the response, the terms of rhs are the predictors
   ([rhs_terms] of ResponseIndep: an intercept, a term, a group-specific term or a model) *)
Lemma describe_tilde l op r cy b cs gs :
  tkind op = TILDE -> resolve l = Ok (VT [cy]) -> resolve r = Ok b -> rhs_terms b = Some (cs, gs) ->
  describe (EBinary l op r) = Ok (Mod (Some [cy]) cs gs).
Proof.
  intros Hop Hl Hr Hb. unfold describe. cbn [resolve]. rewrite Hop. cbn [lookup_kind resolver_ops kind_eqb].
  cbn. rewrite Hl, Hr. cbn [bind apply_binop mk_response].
  destruct b as [| |t'|g|t'|o]; cbn [rhs_terms] in Hb; try discriminate; injection Hb as <- <-; reflexivity.
Qed.

(** lhs ~ rhs + x, where x is a term that rhs does not hold yet: the model of lhs ~ rhs with the
    term of x appended to its common terms.  (If rhs holds the term already, "+ x" is a no-op.) *)
Theorem describe_plus_term l tl r pl x cy b cs gs t :
  tkind tl = TILDE -> tkind pl = PLUS ->
  resolve l = Ok (VT [cy]) -> resolve r = Ok b -> rhs_main b = Some (cs, gs) ->
  resolve x = Ok (VT t) ->
  describe (EBinary l tl r) = Ok (Mod (Some [cy]) cs gs) /\
  describe (EBinary l tl (EBinary r pl x)) =
    Ok (Mod (Some [cy]) (if cmem (CT t) cs then cs else cs ++ [CT t]) gs).
Proof.
  intros Htl Hpl Hl Hr Hb Hx. split; [exact (describe_tilde _ _ _ _ _ _ _ Htl Hl Hr (rhs_main_terms _ _ _ Hb))|].
  destruct (cmem (CT t) cs) eqn:Hm.
  - apply (describe_tilde _ _ _ _ b _ _ Htl Hl); [|exact (rhs_main_terms _ _ _ Hb)].
    cbn [resolve]. rewrite Hpl. cbn [lookup_kind resolver_ops kind_eqb]. cbn. rewrite Hr, Hx. cbn [bind apply_binop].
    exact (v_add_term_present _ _ _ _ Hb Hm).
  - destruct (v_add_term _ _ _ _ Hb Hm) as (m' & Hadd & Hc & Hg).
    apply (describe_tilde _ _ _ _ (VM m') _ _ Htl Hl); [|cbn [rhs_terms]; rewrite Hc, Hg; reflexivity].
    cbn [resolve]. rewrite Hpl. cbn [lookup_kind resolver_ops kind_eqb]. cbn. rewrite Hr, Hx. cbn [bind apply_binop].
    exact Hadd.
Qed.

(* name(arg, ...) with variable and literal arguments resolves to the call term one expects *)
Lemma resolve_ecall_var f x :
  resolve (ecall f [evar x]) = Ok (VT [CCall (LzCall (lexeme f) [LzVar (lexeme x)] [])]).
Proof. reflexivity. Qed.
Lemma resolve_ecall_lit f v lx :
  resolve (ecall f [ELiteral v lx]) = Ok (VT [CCall (LzCall (lexeme f) [LzVal v lx] [])]).
Proof. reflexivity. Qed.
Lemma resolve_ecall_var_var f x y :
  resolve (ecall f [evar x; evar y]) = Ok (VT [CCall (LzCall (lexeme f) [LzVar (lexeme x); LzVar (lexeme y)] [])]).
Proof. reflexivity. Qed.
Lemma resolve_ecall_var_lit f x v lx :
  resolve (ecall f [evar x; ELiteral v lx]) = Ok (VT [CCall (LzCall (lexeme f) [LzVar (lexeme x); LzVal v lx] [])]).
Proof. reflexivity. Qed.

(** The general theorem on formulas: appending a single-component non-categoric term with "+". *)
Theorem formula_append cx D na l tl r pl x cy b cs gs c tc dc :
  tkind tl = TILDE -> tkind pl = PLUS ->
  resolve l = Ok (VT [cy]) -> resolve r = Ok b -> rhs_main b = Some (cs, gs) ->
  resolve x = Ok (VT [c]) -> cmem (CT [c]) cs = false -> name_fresh (comp_name c) cs ->
  frame_wf D -> frame_rows D <> 0 -> used_cols D (Mod (Some [cy]) cs gs) <> [] ->
  na = NaPass \/ anyb (incomplete_mask D (Mod (Some [cy]) (cs ++ [CT [c]]) gs)) = false ->
  set_type_comp cx D false c = Ok tc -> tc_kind tc <> KCategoric ->
  set_data_comp tc false (frame_rows D) = Ok dc ->
  design_matrices cx (EBinary l tl (EBinary r pl x)) D na =
  do D0 <- design_matrices cx (EBinary l tl r) D na; Ok (add_common D0 (single_dterm tc dc)).
Proof.
  intros Htl Hpl Hl Hr Hb Hx Hm Hf Hwf Hn Hu Hna Hty Hk Hdata.
  destruct (describe_plus_term l tl r pl x cy b cs gs [c] Htl Hpl Hl Hr Hb Hx) as [M0 M1].
  rewrite Hm in M1. rewrite !design_matrices_of_model, M0, M1. cbn [bind].
  exact (design_append cx D na (Some [cy]) cs gs c tc dc Hwf Hn Hu Hna Hf Hty Hk Hdata).
Qed.

(* the term is refused: so is the formula *)
Theorem formula_append_refused cx D na l tl r pl x cy b cs gs c k :
  tkind tl = TILDE -> tkind pl = PLUS ->
  resolve l = Ok (VT [cy]) -> resolve r = Ok b -> rhs_main b = Some (cs, gs) ->
  resolve x = Ok (VT [c]) -> cmem (CT [c]) cs = false ->
  frame_wf D -> frame_rows D <> 0 -> used_cols D (Mod (Some [cy]) (cs ++ [CT [c]]) gs) <> [] ->
  na = NaPass \/ anyb (incomplete_mask D (Mod (Some [cy]) (cs ++ [CT [c]]) gs)) = false ->
  set_type_comp cx D false c = Err k ->
  is_ok (design_matrices cx (EBinary l tl (EBinary r pl x)) D na) = false.
Proof.
  intros Htl Hpl Hl Hr Hb Hx Hm Hwf Hn Hu Hna Hty.
  destruct (describe_plus_term l tl r pl x cy b cs gs [c] Htl Hpl Hl Hr Hb Hx) as [_ M1].
  rewrite Hm in M1. rewrite design_matrices_of_model, M1. cbn [bind].
  rewrite (design_of_model_eval cx _ D na Hwf Hn Hu Hna).
  exact (eval_model_append_refused cx D (Some [cy]) cs gs c k Hty).
Qed.

(* ------------------------------------------------------------------------------------------ *)
(** * 2a. offset(v) and offset(constant) as the last term of a formula *)

Definition offset_comp (a : lazy) : comp := CCall (LzCall "offset" [a] []).
Definition offset_name (a : lazy) : string := lazy_str (LzCall "offset" [a] []).
Definition offset_tcomp (a : lazy) (o : option Qc) (xs : list cell) : tcomp :=
  TC (offset_name a) (offset_comp a) KOffset (POffset o xs) [] false None.
(* the column: the values as they are, or the constant once per row *)
Definition offset_rows (nrows : nat) (o : option Qc) (xs : list cell) : list (list cell) :=
  match o with None => col1 xs | Some q => repeat [Some q] nrows end.
Definition offset_dcomp (a : lazy) (o : option Qc) (xs : list cell) (nrows : nat) : dcomp :=
  DC (offset_tcomp a o xs) [] None (offset_rows nrows o xs) (Some [offset_name a]) false.
(* the term: kind "offset", one component, one column labelled offset(..) *)
Definition offset_dterm (a : lazy) (o : option Qc) (xs : list cell) (nrows : nat) : dterm :=
  DT (offset_name a) "offset" [offset_dcomp a o xs nrows] (offset_rows nrows o xs) (Some [offset_name a]).

Lemma offset_name_eq a : offset_name a = ("offset(" ++ lazy_str a ++ ")")%string.
Proof. reflexivity. Qed.

Lemma offset_var_typed cx D v i xs :
  assoc v D = Some (ColNum i xs) ->
  set_type_comp cx D false (offset_comp (LzVar v)) = Ok (offset_tcomp (LzVar v) None xs).
Proof. intros H. unfold offset_comp, set_type_comp. cbn. unfold lookup_name. cbn. rewrite H. reflexivity. Qed.

Lemma offset_lit_typed cx D lv lx i q :
  lit_value lv = PNumber i q ->
  set_type_comp cx D false (offset_comp (LzVal lv lx)) = Ok (offset_tcomp (LzVal lv lx) (Some q) []).
Proof. intros H. unfold offset_comp, set_type_comp. cbn. rewrite H. reflexivity. Qed.

(* offset of a string column is refused *)
Lemma offset_str_refused cx D v o xs :
  assoc v D = Some (ColStr o xs) -> set_type_comp cx D false (offset_comp (LzVar v)) = Err EValue.
Proof. intros H. unfold offset_comp, set_type_comp. cbn. unfold lookup_name. cbn. rewrite H. reflexivity. Qed.

Lemma offset_set_data a o xs n : set_data_comp (offset_tcomp a o xs) false n = Ok (offset_dcomp a o xs n).
Proof. destruct o; reflexivity. Qed.

Lemma offset_single a o xs n : single_dterm (offset_tcomp a o xs) (offset_dcomp a o xs n) = offset_dterm a o xs n.
Proof. reflexivity. Qed.

Lemma offset_name_fresh a cs :
  has_colon (lazy_str a) = false -> Forall (cterm_avoid (offset_name a)) cs -> name_fresh (offset_name a) cs.
Proof.
  intros Hc Hav. unfold name_fresh. rewrite offset_name_eq. repeat split.
  - rewrite !has_colon_app, Hc. reflexivity.
  - discriminate.
  - discriminate.
  - exact Hav.
Qed.

(* a common term equal (Term.__eq__) to the term offset(v) has a component named offset(v) *)
Lemma lazy_eqb_offset_var v l' : lazy_eqb (LzCall "offset" [LzVar v] []) l' = true -> l' = LzCall "offset" [LzVar v] [].
Proof.
  destruct l' as [s a|n|lv lx|c a k]; cbn [lazy_eqb]; try discriminate. intros H.
  apply andb_true_iff in H as [H Hk]. apply andb_true_iff in H as [H Hl]. apply andb_true_iff in H as [Hc Ha].
  apply String.eqb_eq in Hc. subst c.
  destruct k; [|discriminate]. destruct a as [|p [|p' a]]; try discriminate.
  - apply andb_true_iff in Ha as [Hp _]. destruct p; cbn [lazy_eqb] in Hp; try discriminate.
    apply String.eqb_eq in Hp. subst. reflexivity.
  - apply andb_true_iff in Ha as [_ Ha]. discriminate.
Qed.

Lemma offset_var_not_member v cs :
  Forall (cterm_avoid (offset_name (LzVar v))) cs -> cmem (CT [offset_comp (LzVar v)]) cs = false.
Proof.
  intros Hav. apply not_true_is_false. intros H. unfold cmem in H. apply existsb_exists in H as (c & Hc & E).
  rewrite Forall_forall in Hav. specialize (Hav c Hc). destruct c as [| |t]; cbn [cterm_eqb] in E; try discriminate.
  unfold term_eqb in E. apply andb_true_iff in E as [E _]. cbn [forallb] in E. rewrite andb_true_r in E.
  apply existsb_exists in E as (k & Hk & E). cbn [cterm_avoid] in Hav. rewrite Forall_forall in Hav.
  apply (Hav k Hk). destruct k as [nm lvl|l']; cbn [offset_comp comp_eqb] in E; [discriminate|].
  apply lazy_eqb_offset_var in E. subst l'. reflexivity.
Qed.

Section OffsetFormula.
  Variables (cx : dctx) (D : frame) (na : na_action).
  Variables (l r : expr) (tl pl f : token) (cy : comp) (b : value) (cs : list cterm) (gs : list gterm).
  Hypothesis Htl : tkind tl = TILDE.
  Hypothesis Hpl : tkind pl = PLUS.
  Hypothesis Hf : lexeme f = "offset".
  Hypothesis Hl : resolve l = Ok (VT [cy]).
  Hypothesis Hr : resolve r = Ok b.
  Hypothesis Hb : rhs_main b = Some (cs, gs).
  Hypothesis Hwf : frame_wf D.
  Hypothesis Hn : frame_rows D <> 0.
  Hypothesis Hu : used_cols D (Mod (Some [cy]) cs gs) <> [].

  (** offset(v), v a numeric column of the frame: with every used column complete (or under
      "pass"), the design of  lhs ~ rhs + offset(v)  is the design of  lhs ~ rhs  plus one term of
      kind "offset" whose single column is the column v, row for row.  As an equation between
      results: the one is accepted exactly when the other is, with the same error otherwise. *)
  Theorem offset_var_design x v i xs :
    lexeme x = v -> assoc v D = Some (ColNum i xs) ->
    has_colon v = false -> Forall (cterm_avoid (offset_name (LzVar v))) cs ->
    na = NaPass \/ anyb (incomplete_mask D (Mod (Some [cy]) (cs ++ [CT [offset_comp (LzVar v)]]) gs)) = false ->
    design_matrices cx (EBinary l tl (EBinary r pl (ecall f [evar x]))) D na =
    do D0 <- design_matrices cx (EBinary l tl r) D na;
    Ok (add_common D0 (offset_dterm (LzVar v) None xs (frame_rows D))).
  Proof.
    intros Hx Hv Hc Hav Hna.
    rewrite <- offset_single.
    apply (formula_append cx D na l tl r pl _ cy b cs gs (offset_comp (LzVar v))); try assumption.
    - rewrite resolve_ecall_var, Hf, Hx. reflexivity.
    - exact (offset_var_not_member v cs Hav).
    - exact (offset_name_fresh (LzVar v) cs Hc Hav).
    - exact (offset_var_typed cx D v i xs Hv).
    - discriminate.
    - apply offset_set_data.
  Qed.

  Corollary offset_var_design_iff x v i xs D1 :
    lexeme x = v -> assoc v D = Some (ColNum i xs) ->
    has_colon v = false -> Forall (cterm_avoid (offset_name (LzVar v))) cs ->
    na = NaPass \/ anyb (incomplete_mask D (Mod (Some [cy]) (cs ++ [CT [offset_comp (LzVar v)]]) gs)) = false ->
    (design_matrices cx (EBinary l tl (EBinary r pl (ecall f [evar x]))) D na = Ok D1 <->
     exists D0, design_matrices cx (EBinary l tl r) D na = Ok D0 /\
                D1 = add_common D0 (offset_dterm (LzVar v) None xs (frame_rows D))).
  Proof.
    intros Hx Hv Hc Hav Hna. rewrite (offset_var_design x v i xs Hx Hv Hc Hav Hna). apply bind_ok_iff.
  Qed.

  (** offset(constant): one column holding the constant once per row of the frame *)
  Theorem offset_const_design lv lx i q :
    lit_value lv = PNumber i q ->
    cmem (CT [offset_comp (LzVal lv lx)]) cs = false ->
    has_colon (lazy_str (LzVal lv lx)) = false -> Forall (cterm_avoid (offset_name (LzVal lv lx))) cs ->
    na = NaPass \/ anyb (incomplete_mask D (Mod (Some [cy]) (cs ++ [CT [offset_comp (LzVal lv lx)]]) gs)) = false ->
    design_matrices cx (EBinary l tl (EBinary r pl (ecall f [ELiteral lv lx]))) D na =
    do D0 <- design_matrices cx (EBinary l tl r) D na;
    Ok (add_common D0 (offset_dterm (LzVal lv lx) (Some q) [] (frame_rows D))).
  Proof.
    intros Hv Hm Hc Hav Hna.
    rewrite <- offset_single.
    apply (formula_append cx D na l tl r pl _ cy b cs gs (offset_comp (LzVal lv lx))); try assumption.
    - rewrite resolve_ecall_lit, Hf. reflexivity.
    - exact (offset_name_fresh _ cs Hc Hav).
    - exact (offset_lit_typed cx D lv lx i q Hv).
    - discriminate.
    - apply offset_set_data.
  Qed.

  (* the constant column has one row per row of the frame *)
  Lemma offset_const_rows a q xs n : List.length (dt_rows (offset_dterm a (Some q) xs n)) = n.
  Proof. cbn. apply repeat_length. Qed.

  (** offset of a string column: refused *)
  Theorem offset_str_design_refused x v o xs :
    lexeme x = v -> assoc v D = Some (ColStr o xs) ->
    cmem (CT [offset_comp (LzVar v)]) cs = false ->
    na = NaPass \/ anyb (incomplete_mask D (Mod (Some [cy]) (cs ++ [CT [offset_comp (LzVar v)]]) gs)) = false ->
    is_ok (design_matrices cx (EBinary l tl (EBinary r pl (ecall f [evar x]))) D na) = false.
  Proof.
    intros Hx Hv Hm Hna.
    apply (formula_append_refused cx D na l tl r pl _ cy b cs gs (offset_comp (LzVar v)) EValue); try assumption.
    - rewrite resolve_ecall_var, Hf, Hx. reflexivity.
    - exact (used_cols_mono _ _ _ (model_vars_append _ _ _ _) Hu).
    - exact (offset_str_refused cx D v o xs Hv).
  Qed.
End OffsetFormula.

(** ** offset at prediction, on [new_common] *)

Lemma offset_var_new_term cx mode new v xs n i' xs' :
  assoc v new = Some (ColNum i' xs') ->
  new_term cx mode new (offset_dterm (LzVar v) None xs n) = Ok (col1 xs', false).
Proof.
  intros H. unfold new_term, offset_dterm. cbn [dt_kind dt_comps String.eqb Ascii.eqb Bool.eqb mapM].
  cbn. unfold lookup_name. cbn. rewrite H. reflexivity.
Qed.

Lemma offset_const_new_term cx mode new a q xs n :
  new_term cx mode new (offset_dterm a (Some q) xs n) = Ok (repeat [Some q] (frame_rows new), false).
Proof. reflexivity. Qed.

(* the new frame lacks v, and nothing else is called v: KeyError; v is a string column: ValueError *)
Lemma offset_var_new_term_missing cx mode new v xs n :
  assoc v new = None -> assoc v (d_extra cx) = None -> builtin_value v = None -> known_callee v = false ->
  new_term cx mode new (offset_dterm (LzVar v) None xs n) = Err EKey.
Proof.
  intros H Hx Hb Hk. unfold new_term, offset_dterm. cbn [dt_kind dt_comps].
  change (String.eqb "offset" "intercept") with false. cbn [mapM]. unfold new_comp.
  cbn [dc_t offset_dcomp tc_src offset_tcomp offset_comp tc_kind tc_value tc_state].
  rewrite (eval_call1 _ _ "offset" (LzVar v) (proj1 offset_known) (proj2 offset_known)).
  cbn [eval_lazy]. unfold lookup_name. cbn [e_data e_extra]. rewrite H, Hb.
  unfold known_callee in Hk. rewrite Hk, Hx. reflexivity.
Qed.

Lemma offset_var_new_term_str cx mode new v xs n o ys :
  assoc v new = Some (ColStr o ys) ->
  new_term cx mode new (offset_dterm (LzVar v) None xs n) = Err EValue.
Proof. intros H. unfold new_term, offset_dterm. cbn. unfold lookup_name. cbn. rewrite H. reflexivity. Qed.

(** The design  D0 + offset(v)  evaluated on a new frame that holds a numeric column v: the matrix
    of D0 on the new frame -- the other terms are what they are without the offset -- with the
    column v OF THE NEW FRAME glued to the right; the training values [xs] play no part. *)
Theorem offset_var_new_common cx mode D0 v xs n new i' xs' :
  assoc v new = Some (ColNum i' xs') ->
  new_common cx mode (add_common D0 (offset_dterm (LzVar v) None xs n)) new =
  do r0 <- new_common cx mode D0 new; Ok (NewRes (glue (nr_rows r0) (col1 xs')) (nr_warned r0)).
Proof.
  intros H. rewrite new_common_append, (offset_var_new_term cx mode new v xs n i' xs' H).
  destruct (new_common cx mode D0 new) as [r0|]; cbn [bind fst snd]; [|reflexivity].
  rewrite orb_false_r. reflexivity.
Qed.

(** ... and offset(constant): the constant, once per row of the NEW frame. *)
Theorem offset_const_new_common cx mode D0 a q xs n new :
  new_common cx mode (add_common D0 (offset_dterm a (Some q) xs n)) new =
  do r0 <- new_common cx mode D0 new;
  Ok (NewRes (glue (nr_rows r0) (repeat [Some q] (frame_rows new))) (nr_warned r0)).
Proof.
  rewrite new_common_append, offset_const_new_term.
  destruct (new_common cx mode D0 new) as [r0|]; cbn [bind fst snd]; [|reflexivity].
  rewrite orb_false_r. reflexivity.
Qed.

(* row i of the glued matrix: row i of the matrix without the offset, then cell i of the column *)
Lemma glue_col1_nth a xs i :
  i < List.length a -> i < List.length xs ->
  nth i (glue a (col1 xs)) [] = nth i a [] ++ [nth i xs None].
Proof.
  intros Ha Hx. unfold glue. rewrite (zip_with_nth _ a (col1 xs) i [] [None] []); [|exact Ha|unfold col1; rewrite map_length; exact Hx].
  f_equal. unfold col1. change [None] with ((fun x : cell => [x]) None). apply map_nth.
Qed.

(** ** missing values in v under "drop" *)

(** Under "drop" the rows where v -- or any other variable of the formula -- is missing are removed
    first; on the remaining rows the statement is the one above: the design of  lhs ~ rhs  ON THOSE
    ROWS, plus the column v restricted to those rows. *)
Theorem offset_var_design_drop cx D l r tl pl f cy b cs gs x v i xs :
  tkind tl = TILDE -> tkind pl = PLUS -> lexeme f = "offset" ->
  resolve l = Ok (VT [cy]) -> resolve r = Ok b -> rhs_main b = Some (cs, gs) ->
  frame_wf D -> frame_rows D <> 0 -> used_cols D (Mod (Some [cy]) cs gs) <> [] ->
  lexeme x = v -> assoc v D = Some (ColNum i xs) ->
  has_colon v = false -> Forall (cterm_avoid (offset_name (LzVar v))) cs ->
  let keep := complete_mask D (Mod (Some [cy]) (cs ++ [CT [offset_comp (LzVar v)]]) gs) in
  count_true keep <> 0 ->
  design_matrices cx (EBinary l tl (EBinary r pl (ecall f [evar x]))) D NaDrop =
  do D0 <- design_matrices cx (EBinary l tl r) (frame_select keep D) NaDrop;
  Ok (add_common D0 (offset_dterm (LzVar v) None (select keep xs) (count_true keep))).
Proof.
  intros Htl Hpl Hf Hl Hr Hb Hwf Hn Hu Hx Hv Hc Hav keep Hk.
  set (m1 := Mod (Some [cy]) (cs ++ [CT [offset_comp (LzVar v)]]) gs) in *.
  assert (M1 : describe (EBinary l tl (EBinary r pl (ecall f [evar x]))) = Ok m1).
  { destruct (describe_plus_term l tl r pl (ecall f [evar x]) cy b cs gs [offset_comp (LzVar v)] Htl Hpl Hl Hr Hb) as [_ M].
    - rewrite resolve_ecall_var, Hf, Hx. reflexivity.
    - rewrite (offset_var_not_member v cs Hav) in M. exact M. }
  rewrite <- (design_drop_is_filter cx _ D m1 NaDrop M1 Hwf Hn Hk). fold keep.
  pose proof (frame_rows_nonempty _ Hn) as Hne.
  pose proof (complete_mask_length _ m1 Hwf) as Hlen. fold keep in Hlen.
  pose proof (frame_select_rows keep D Hwf Hne Hlen) as Hrows.
  rewrite <- Hrows.
  apply (offset_var_design cx (frame_select keep D) NaDrop l r tl pl f cy b cs gs Htl Hpl Hf Hl Hr Hb) with (i := i); try assumption.
  - apply frame_select_wf; assumption.
  - rewrite Hrows. exact Hk.
  - rewrite used_cols_select. destruct (used_cols D (Mod (Some [cy]) cs gs)); [congruence|discriminate].
  - rewrite assoc_frame_select, Hv. reflexivity.
  - right. exact (incomplete_mask_after_drop D m1 Hwf Hn).
Qed.

(** Under "error" a missing value in v is refused. *)
Theorem offset_var_design_error cx D l r tl pl f cy b cs gs x v i xs :
  tkind tl = TILDE -> tkind pl = PLUS -> lexeme f = "offset" ->
  resolve l = Ok (VT [cy]) -> resolve r = Ok b -> rhs_main b = Some (cs, gs) ->
  frame_wf D -> frame_rows D <> 0 ->
  lexeme x = v -> In (v, ColNum i xs) D -> existsb (fun c => match c with None => true | _ => false end) xs = true ->
  Forall (cterm_avoid (offset_name (LzVar v))) cs ->
  design_matrices cx (EBinary l tl (EBinary r pl (ecall f [evar x]))) D NaError = Err EValue.
Proof.
  intros Htl Hpl Hf Hl Hr Hb Hwf Hn Hx Hv Hmiss Hav.
  set (m1 := Mod (Some [cy]) (cs ++ [CT [offset_comp (LzVar v)]]) gs) in *.
  assert (M1 : describe (EBinary l tl (EBinary r pl (ecall f [evar x]))) = Ok m1).
  { destruct (describe_plus_term l tl r pl (ecall f [evar x]) cy b cs gs [offset_comp (LzVar v)] Htl Hpl Hl Hr Hb) as [_ M].
    - rewrite resolve_ecall_var, Hf, Hx. reflexivity.
    - rewrite (offset_var_not_member v cs Hav) in M. exact M. }
  unfold design_matrices. rewrite M1. cbn [bind].
  replace (prepare_data D m1 NaError) with (@Err frame EValue); [reflexivity|]. symmetry.
  apply (proj1 (error_iff D m1 Hwf Hn)). exists (v, ColNum i xs). split.
  - unfold used_cols. apply filter_In. split; [exact Hv|]. unfold used_in. cbn [fst].
    apply existsb_exists. exists v. split; [|apply String.eqb_refl].
    unfold m1, model_vars. cbn [commons]. apply in_or_app. left. rewrite flat_map_app. apply in_or_app. right.
    cbn. left. reflexivity.
  - unfold has_missing. cbn [snd col_missing]. rewrite existsb_map'. exact Hmiss.
Qed.

(** ** examples: the hypotheses hold of concrete formulas and frames; where they fail, so does the conclusion *)

Module OffsetExamples.
  Definition qq (z : Z) : cell := Some (qz z).
  Definition cx0 : dctx := DCtx [] (fun q => q).
  Definition gete (s : string) : expr :=
    match Driver.parse_string s with Ok e => e | Err _ => ELiteral LNone None end.
  Definition id (s : string) : token := mk IDENTIFIER s.
  Definition tilde_t : token := mk TILDE "~".
  Definition plus_t : token := mk PLUS "+".
  Definition lhs : expr := evar (id "y").
  (* what the scanner and the parser make of "x + g" behind "~": 1 + x + g *)
  Definition rhs : expr :=
    EBinary (EBinary (ELiteral (LInt 1) None) plus_t (evar (id "x"))) plus_t (evar (id "g")).
  Definition e0 : expr := EBinary lhs tilde_t rhs.
  Definition e1 : expr := EBinary lhs tilde_t (EBinary rhs plus_t (ecall (id "offset") [evar (id "v")])).
  Definition e3 : expr := EBinary lhs tilde_t (EBinary rhs plus_t (ecall (id "offset") [ELiteral (LInt 3) None])).

  Example e0_parsed : Driver.parse_string "y ~ x + g" = Ok e0.
  Proof. vm_compute. reflexivity. Qed.
  Example e1_parsed : Driver.parse_string "y ~ x + g + offset(v)" = Ok e1.
  Proof. vm_compute. reflexivity. Qed.
  Example e3_parsed : Driver.parse_string "y ~ x + g + offset(3)" = Ok e3.
  Proof. vm_compute. reflexivity. Qed.

  Definition train : frame :=
    [("y", ColNum true [qq 1; qq 2; qq 3; qq 4]); ("x", ColNum true [qq 4; qq 5; qq 6; qq 7]);
     ("g", ColStr None [Some "a"; Some "b"; Some "a"; Some "c"]);
     ("v", ColNum true [qq 7; qq 8; qq 9; qq 10]); ("unused", ColNum false [None; None; None; None])].
  (* two rows, other values, no y *)
  Definition new : frame :=
    [("x", ColNum true [qq 1; qq 0]); ("g", ColStr None [Some "c"; Some "a"]); ("v", ColNum true [qq 50; qq 60])].
  (* v is missing in the second row *)
  Definition train_na : frame :=
    [("y", ColNum true [qq 1; qq 2; qq 3; qq 4]); ("x", ColNum true [qq 4; qq 5; qq 6; qq 7]);
     ("g", ColStr None [Some "a"; Some "b"; Some "a"; Some "c"]);
     ("v", ColNum true [qq 7; None; qq 9; qq 10])].

  Lemma train_wf : frame_wf train. Proof. unfold frame_wf, rect. repeat constructor. Qed.
  Lemma train_na_wf : frame_wf train_na. Proof. unfold frame_wf, rect. repeat constructor. Qed.

  (* discharges the hypotheses of the theorems on concrete data *)
  Ltac ex_solve :=
    first [ reflexivity | exact train_wf | exact train_na_wf
          | (vm_compute; reflexivity) | (vm_compute; discriminate)
          | (apply cterms_avoidb_ok; vm_compute; reflexivity)
          | (right; vm_compute; reflexivity) ].

  (* [offset_var_design] applies: every hypothesis is discharged by computation *)
  Example offset_var_design_ex :
    design_matrices cx0 e1 train NaDrop =
    do D0 <- design_matrices cx0 e0 train NaDrop;
    Ok (add_common D0 (offset_dterm (LzVar "v") None [qq 7; qq 8; qq 9; qq 10] 4)).
  Proof.
    eapply (offset_var_design cx0 train NaDrop lhs rhs tilde_t plus_t (id "offset")) with (i := true);
      ex_solve.
  Qed.

  (* ... and both sides are accepted designs: four common terms, the last one the offset *)
  Example offset_var_design_ex_ok :
    exists D1, design_matrices cx0 e1 train NaDrop = Ok D1 /\
      map dt_name (ds_common D1) = ["Intercept"; "x"; "g"; "offset(v)"] /\
      map dt_kind (ds_common D1) = ["intercept"; "numeric"; "categoric"; "offset"].
  Proof. eexists. split; [vm_compute; reflexivity|]. split; reflexivity. Qed.

  Example offset_const_design_ex :
    design_matrices cx0 e3 train NaDrop =
    do D0 <- design_matrices cx0 e0 train NaDrop;
    Ok (add_common D0 (offset_dterm (LzVal (LInt 3) None) (Some (qz 3)) [] 4)).
  Proof.
    eapply (offset_const_design cx0 train NaDrop lhs rhs tilde_t plus_t (id "offset")) with (i := true);
      ex_solve.
  Qed.

  Example offset_const_column :
    dt_rows (offset_dterm (LzVal (LInt 3) None) (Some (qz 3)) [] 4) = [[qq 3]; [qq 3]; [qq 3]; [qq 3]].
  Proof. reflexivity. Qed.

  (* prediction: the last column is v of the NEW frame (50, 60), not of the training frame *)
  Example offset_var_new_common_ex :
    exists D1, design_matrices cx0 e1 train NaDrop = Ok D1 /\
      match new_common cx0 UError D1 new with
      | Ok r => map (map cshow) (nr_rows r) | Err _ => [] end
      = [["1"; "1"; "0"; "1"; "50"]; ["1"; "0"; "0"; "0"; "60"]].
  Proof. eexists. split; [vm_compute; reflexivity|]. vm_compute. reflexivity. Qed.

  Example offset_const_new_common_ex :
    exists D1, design_matrices cx0 e3 train NaDrop = Ok D1 /\
      match new_common cx0 UError D1 new with
      | Ok r => map (map cshow) (nr_rows r) | Err _ => [] end
      = [["1"; "1"; "0"; "1"; "3"]; ["1"; "0"; "0"; "0"; "3"]].
  Proof. eexists. split; [vm_compute; reflexivity|]. vm_compute. reflexivity. Qed.

  (* "drop" with a missing value in v: the design of  y ~ x + g  on rows 1, 3, 4 plus v on those rows *)
  Example offset_var_design_drop_ex :
    design_matrices cx0 e1 train_na NaDrop =
    do D0 <- design_matrices cx0 e0 (frame_select [true; false; true; true] train_na) NaDrop;
    Ok (add_common D0 (offset_dterm (LzVar "v") None [qq 7; qq 9; qq 10] 3)).
  Proof.
    apply (offset_var_design_drop cx0 train_na lhs rhs tilde_t plus_t (id "offset") (CVar (NStr "y") None)
             (VM (Mod None [CI; CT [CVar (NStr "x") None]; CT [CVar (NStr "g") None]] []))
             [CI; CT [CVar (NStr "x") None]; CT [CVar (NStr "g") None]] [] (id "v") "v" true
             [qq 7; None; qq 9; qq 10]); ex_solve.
  Qed.

  Example offset_var_design_error_ex : design_matrices cx0 e1 train_na NaError = Err EValue.
  Proof. vm_compute. reflexivity. Qed.

  (** A lone group-specific term cannot take "+ offset(v)" (GroupSpecificTerm has no __add__): the
      hypothesis [rhs_main b = Some _] of the theorems is needed.  Only reachable on syntax trees:
      the scanner puts "1 +" behind "~", and  1 + (1|g)  is a model. *)
  Definition grp : expr := EGrouping (EBinary (ELiteral (LInt 1) None) (mk PIPE "|") (evar (id "g"))).
  Example offset_after_group_refuted :
    is_ok (design_matrices cx0 (EBinary lhs tilde_t grp) train NaDrop) = true /\
    design_matrices cx0 (EBinary lhs tilde_t (EBinary grp plus_t (ecall (id "offset") [evar (id "v")]))) train NaDrop
    = Err EType.
  Proof. split; vm_compute; reflexivity. Qed.

  (** The name of the new term must be fresh ([name_fresh]).  With a column whose NAME is
      "offset(v)": (a) the term `offset(v)` is overwritten by the offset term (one term is lost);
      (b) the interaction g:`offset(v)` changes its coding from 3 columns to 2, because its numeric
      part now has the name of a term of the model -- the other terms are NOT what they are
      without the offset. *)
  Definition clash : frame :=
    [("y", ColNum true [qq 1; qq 2; qq 3; qq 4]);
     ("g", ColStr None [Some "a"; Some "b"; Some "a"; Some "c"]);
     ("v", ColNum true [qq 7; qq 8; qq 9; qq 10]); ("offset(v)", ColNum true [qq 1; qq 1; qq 2; qq 2])].
  Definition names_widths (r : res design) : list (string * nat) :=
    match r with Ok D => map (fun t => (dt_name t, width (dt_rows t))) (ds_common D) | Err _ => [] end.
  Example name_fresh_needed_overwrite :
    names_widths (design_matrices cx0 (gete "y ~ `offset(v)`") clash NaDrop) = [("Intercept", 1); ("offset(v)", 1)] /\
    names_widths (design_matrices cx0 (gete "y ~ `offset(v)` + offset(v)") clash NaDrop)
      = [("Intercept", 1); ("offset(v)", 1)].
  Proof. split; vm_compute; reflexivity. Qed.
  Example name_fresh_needed_coding :
    names_widths (design_matrices cx0 (gete "y ~ g:`offset(v)`") clash NaDrop) = [("Intercept", 1); ("g:offset(v)", 3)] /\
    names_widths (design_matrices cx0 (gete "y ~ g:`offset(v)` + offset(v)") clash NaDrop)
      = [("Intercept", 1); ("g:offset(v)", 2); ("offset(v)", 1)].
  Proof. split; vm_compute; reflexivity. Qed.
End OffsetExamples.

(* ------------------------------------------------------------------------------------------ *)
(** * 3. prop / p / proportion as the response of a formula *)

Definition prop_callees : list string := ["p"; "prop"; "proportion"].

(** ** 3a. the response  callee(s, n) ~ rhs , s and n numeric columns; also a constant n *)

(* [a2] is the second argument: [LzVar n], or a literal *)
Definition prop_comp (callee s : string) (a2 : lazy) : comp := CCall (LzCall callee [LzVar s; a2] []).
Definition prop_name (callee s : string) (a2 : lazy) : string := lazy_str (LzCall callee [LzVar s; a2] []).
Definition prop_tcomp (callee s : string) (a2 : lazy) (ss ts : list cell) (o : option Qc) : tcomp :=
  TC (prop_name callee s a2) (prop_comp callee s a2) KProportion (PProp ss ts o) [] true None.
Definition prop_rows (ss ts : list cell) : list (list cell) := zip_with (fun a b => [a; b]) ss ts.
Definition prop_dcomp callee s a2 ss ts o : dcomp :=
  DC (prop_tcomp callee s a2 ss ts o) [] None (prop_rows ss ts) None true.
(* kind "proportion", two columns (successes, trials), no labels *)
Definition prop_dterm callee s a2 ss ts o : dterm :=
  DT (prop_name callee s a2) "proportion" [prop_dcomp callee s a2 ss ts o] (prop_rows ss ts) None.

Lemma prop_name_eq callee s n : prop_name callee s (LzVar n) = (callee ++ "(" ++ (s ++ ", " ++ n) ++ ")")%string.
Proof. reflexivity. Qed.

(* the validation, spelled out: integers, and successes <= trials row by row; NOT "0 <= successes" *)
Lemma prop_ok_iff sl tl :
  prop_ok sl tl = true <->
  Forall (fun q => is_integer q = true) sl /\ Forall (fun q => is_integer q = true) tl /\
  Forall (fun p => (fst p <= snd p)%Qc) (combine sl tl).
Proof.
  unfold prop_ok. rewrite !andb_true_iff, !forallb_forall, !Forall_forall. split.
  - intros [[H1 H2] H3]. repeat split; auto. intros p Hp. apply qc_leb_le. exact (H3 p Hp).
  - intros (H1 & H2 & H3). repeat split; auto. intros p Hp. apply qc_leb_le. exact (H3 p Hp).
Qed.

Lemma prop_eval_resp_var cx d callee s n i j ss ts sl tl :
  In callee prop_callees ->
  assoc s d = Some (ColNum i ss) -> assoc n d = Some (ColNum j ts) ->
  all_some ss = Some sl -> all_some ts = Some tl ->
  eval_resp cx d (Some [prop_comp callee s (LzVar n)]) =
  if prop_ok sl tl then Ok (Some (prop_dterm callee s (LzVar n) ss ts None)) else Err EValue.
Proof.
  intros Hc Hs Hn Hsl Htl. destruct (prop_known callee Hc) as [K1 K2].
  unfold eval_resp, eval_response, set_type_term, prop_comp. cbn [mapM set_type_comp].
  rewrite (eval_call2 _ _ callee (LzVar s) (LzVar n) K1 K2).
  cbn [eval_lazy]. unfold lookup_name. cbn [e_data]. rewrite Hs. cbn [bind fst snd col_value]. rewrite Hn.
  cbn [bind fst snd col_value].
  rewrite (prop_spec _ callee i j ss ts sl tl Hc Hsl Htl). destruct (prop_ok sl tl); reflexivity.
Qed.

Lemma prop_eval_resp_const cx d callee s z lx i ss sl :
  In callee prop_callees ->
  assoc s d = Some (ColNum i ss) -> all_some ss = Some sl ->
  eval_resp cx d (Some [prop_comp callee s (LzVal (LInt z) lx)]) =
  if prop_ok sl (repeat (qz z) (List.length ss))
  then Ok (Some (prop_dterm callee s (LzVal (LInt z) lx) ss (repeat (Some (qz z)) (List.length ss)) (Some (qz z))))
  else Err EValue.
Proof.
  intros Hc Hs Hsl. destruct (prop_known callee Hc) as [K1 K2].
  unfold eval_resp, eval_response, set_type_term, prop_comp. cbn [mapM set_type_comp].
  rewrite (eval_call2 _ _ callee (LzVar s) (LzVal (LInt z) lx) K1 K2).
  cbn [eval_lazy]. unfold lookup_name. cbn [e_data]. rewrite Hs. cbn [bind fst snd col_value lit_value].
  rewrite (prop_constant_trials _ callee i ss sl (qz z) Hc Hsl).
  destruct (prop_ok sl _); reflexivity.
Qed.

Lemma assoc_used_nonempty k (c : column) D m : assoc k D = Some c -> In k (model_vars m) -> used_cols D m <> [].
Proof.
  intros Ha Hk E. pose proof (assoc_used_cols k D m Hk) as H. rewrite E, Ha in H. discriminate.
Qed.

Section PropFormula.
  Variables (cx : dctx) (D : frame) (na : na_action).
  Variables (r : expr) (tl f xs_tok : token) (b : value) (cs : list cterm) (gs : list gterm).
  Hypothesis Htl : tkind tl = TILDE.
  Hypothesis Hf : In (lexeme f) prop_callees.
  Hypothesis Hr : resolve r = Ok b.
  Hypothesis Hb : rhs_terms b = Some (cs, gs).
  Hypothesis Hwf : frame_wf D.
  Hypothesis Hn : frame_rows D <> 0.

  (** callee(s, n) ~ rhs  on a frame whose used columns are complete (or under "pass" with s and n
      complete): the design is accepted exactly when the predictors of rhs are and every success
      and every trial is an integer with success <= trial; the response is then the two-column
      term (s, n); the predictors are those of rhs. *)
  Theorem prop_design xn i j ss ts sl tls :
    let s := lexeme xs_tok in let n := lexeme xn in
    assoc s D = Some (ColNum i ss) -> assoc n D = Some (ColNum j ts) ->
    all_some ss = Some sl -> all_some ts = Some tls ->
    na = NaPass \/ anyb (incomplete_mask D (Mod (Some [prop_comp (lexeme f) s (LzVar n)]) cs gs)) = false ->
    design_matrices cx (EBinary (ecall f [evar xs_tok; evar xn]) tl r) D na =
    do p <- eval_predictors cx D cs gs;
    if prop_ok sl tls
    then Ok (Design (frame_rows D) (Some (prop_dterm (lexeme f) s (LzVar n) ss ts None)) (fst p) (snd p))
    else Err EValue.
  Proof.
    intros s n Hs Hnn Hsl Htl' Hna.
    rewrite design_matrices_of_model,
      (describe_tilde _ _ _ _ _ _ _ Htl (resolve_ecall_var_var f xs_tok xn) Hr Hb). cbn [bind].
    fold s n. fold (prop_comp (lexeme f) s (LzVar n)).
    rewrite (design_of_model_eval cx _ D na Hwf Hn); [| |exact Hna].
    - rewrite eval_model_split. cbn [commons groups resp].
      rewrite (prop_eval_resp_var cx D (lexeme f) s n i j ss ts sl tls Hf Hs Hnn Hsl Htl').
      destruct (eval_predictors cx D cs gs) as [p|]; cbn [bind]; [|reflexivity].
      destruct (prop_ok sl tls); reflexivity.
    - apply (assoc_used_nonempty s _ D _ Hs). unfold model_vars. cbn [resp]. apply in_or_app. right.
      apply in_or_app. right. cbn. left. reflexivity.
  Qed.

  (* acceptance, as a boolean equation *)
  Corollary prop_design_accepted xn i j ss ts sl tls :
    let s := lexeme xs_tok in let n := lexeme xn in
    assoc s D = Some (ColNum i ss) -> assoc n D = Some (ColNum j ts) ->
    all_some ss = Some sl -> all_some ts = Some tls ->
    na = NaPass \/ anyb (incomplete_mask D (Mod (Some [prop_comp (lexeme f) s (LzVar n)]) cs gs)) = false ->
    is_ok (design_matrices cx (EBinary (ecall f [evar xs_tok; evar xn]) tl r) D na) =
    is_ok (eval_predictors cx D cs gs) && prop_ok sl tls.
  Proof.
    intros s n Hs Hnn Hsl Htl' Hna. rewrite (prop_design xn i j ss ts sl tls Hs Hnn Hsl Htl' Hna).
    destruct (eval_predictors cx D cs gs); cbn [bind is_ok andb]; [|reflexivity]. destruct (prop_ok sl tls); reflexivity.
  Qed.

  (** a constant number of trials:  callee(s, 5) ~ rhs *)
  Theorem prop_design_const z lx i ss sl :
    let s := lexeme xs_tok in
    assoc s D = Some (ColNum i ss) -> all_some ss = Some sl ->
    na = NaPass \/ anyb (incomplete_mask D (Mod (Some [prop_comp (lexeme f) s (LzVal (LInt z) lx)]) cs gs)) = false ->
    design_matrices cx (EBinary (ecall f [evar xs_tok; ELiteral (LInt z) lx]) tl r) D na =
    do p <- eval_predictors cx D cs gs;
    if prop_ok sl (repeat (qz z) (List.length ss))
    then Ok (Design (frame_rows D)
               (Some (prop_dterm (lexeme f) s (LzVal (LInt z) lx) ss (repeat (Some (qz z)) (List.length ss)) (Some (qz z))))
               (fst p) (snd p))
    else Err EValue.
  Proof.
    intros s Hs Hsl Hna.
    rewrite design_matrices_of_model,
      (describe_tilde _ _ _ _ _ _ _ Htl (resolve_ecall_var_lit f xs_tok (LInt z) lx) Hr Hb). cbn [bind].
    fold s. fold (prop_comp (lexeme f) s (LzVal (LInt z) lx)).
    rewrite (design_of_model_eval cx _ D na Hwf Hn); [| |exact Hna].
    - rewrite eval_model_split. cbn [commons groups resp].
      rewrite (prop_eval_resp_const cx D (lexeme f) s z lx i ss sl Hf Hs Hsl).
      destruct (eval_predictors cx D cs gs) as [p|]; cbn [bind]; [|reflexivity].
      destruct (prop_ok sl _); reflexivity.
    - apply (assoc_used_nonempty s _ D _ Hs). unfold model_vars. cbn [resp]. apply in_or_app. right.
      apply in_or_app. right. cbn. left. reflexivity.
  Qed.
End PropFormula.

(** ** 3b. the response term on a new frame: the trials of the new frame *)

(** The model has no prediction of the response (Driver "newdata" calls [new_common] and
    [new_group]; [new_common_ignores_response]).  What [new_term] returns for the response term of
    the design above: the column n OF THE NEW FRAME; the successes are not consulted (the new frame
    need not hold s) and nothing is validated again. *)
Theorem prop_response_new_term cx mode new callee s n ss ts k xs' :
  assoc n new = Some (ColNum k xs') ->
  new_term cx mode new (prop_dterm callee s (LzVar n) ss ts None) = Ok (col1 xs', false).
Proof.
  intros H. eapply new_term_single; [reflexivity|reflexivity|].
  apply (prop_new_variable cx mode new _ callee (LzVar s) n [] ss ts k xs'); try reflexivity. exact H.
Qed.

Theorem prop_response_new_term_missing cx mode new callee s n ss ts :
  assoc n new = None ->
  new_term cx mode new (prop_dterm callee s (LzVar n) ss ts None) = Err EKey.
Proof.
  intros H. unfold new_term. cbn [prop_dterm dt_kind dt_comps].
  change (String.eqb "proportion" "intercept") with false. cbn [mapM].
  rewrite (prop_new_missing cx mode new _ callee (LzVar s) n [] ss ts); try reflexivity. exact H.
Qed.

Theorem prop_response_new_term_const cx mode new callee s a2 ss ts q :
  new_term cx mode new (prop_dterm callee s a2 ss ts (Some q)) = Ok (repeat [Some q] (frame_rows new), false).
Proof. reflexivity. Qed.

(** ** 3c. the three spellings p / prop / proportion give the same design, up to the spelled name *)

(* the response term and its component carry the text of the call as their name (and the call
   tree as their source): [retag_*] replace exactly these *)
Definition retag_tcomp (nm : string) (src : comp) (t : tcomp) : tcomp :=
  TC nm src (tc_kind t) (tc_value t) (tc_state t) (tc_response t) (tc_reference t).
Definition retag_dcomp (nm : string) (src : comp) (d : dcomp) : dcomp :=
  DC (retag_tcomp nm src (dc_t d)) (dc_levels d) (dc_contrast d) (dc_rows d) (dc_labels d) (dc_spans d).
Definition retag_dterm (nm : string) (src : comp) (t : dterm) : dterm :=
  DT nm (dt_kind t) (map (retag_dcomp nm src) (dt_comps t)) (dt_rows t) (dt_labels t).
Definition retag_response (nm : string) (src : comp) (D : design) : design :=
  Design (ds_nrows D) (option_map (retag_dterm nm src) (ds_response D)) (ds_common D) (ds_group D).

Lemma prop_alias_eval c1 c2 ecx st args kw :
  In c1 prop_callees -> In c2 prop_callees ->
  eval_lazy ecx st (LzCall c1 args kw) = eval_lazy ecx st (LzCall c2 args kw).
Proof. intros [<-|[<-|[<-|[]]]] [<-|[<-|[<-|[]]]]; reflexivity. Qed.

Lemma call_function_prop_value cx c pos kw v :
  In c prop_callees -> call_function cx c pos kw = Ok v -> exists ss ts o, v = PProp ss ts o.
Proof.
  intros Hc H.
  assert (E : call_function cx c = call_function cx "proportion") by (destruct Hc as [<-|[<-|[<-|[]]]]; reflexivity).
  rewrite E in H. clear E Hc. unfold call_function in H.
  cbn [String.eqb Ascii.eqb Bool.eqb orb andb] in H.
  destruct (negb (check_kw _ kw)); [discriminate|].
  apply bind_ok in H as (bnd & _ & H). destruct (forallb _ _); [|discriminate].
  destruct (arg "successes" bnd); try discriminate.
  apply bind_ok in H as (trs & _ & H).
  destruct (all_some xs); [|discriminate]. destruct (all_some (fst trs)); [|discriminate].
  repeat (match type of H with (if ?c then _ else _) = _ => destruct c; [discriminate|] end).
  injection H as <-. eauto.
Qed.

Lemma eval_lazy_prop_value ecx st c args kw v st' rec :
  In c prop_callees -> eval_lazy ecx st (LzCall c args kw) = Ok (v, st', rec) -> exists ss ts o, v = PProp ss ts o.
Proof.
  intros Hc H. destruct (prop_known c Hc) as [K1 K2]. rewrite eval_lazy_call, K1, K2 in H. cbn [negb] in H.
  apply bind_ok in H as (ra & _ & H). apply bind_ok in H as (rk & _ & H). apply bind_ok in H as (w & Hw & H).
  injection H as <- _ _. exact (call_function_prop_value _ _ _ _ _ Hc Hw).
Qed.

(* the typed response component of one spelling is the one of the other, retagged; it is a proportion *)
Lemma prop_alias_set_type cx d r c1 c2 args kw :
  In c1 prop_callees -> In c2 prop_callees ->
  set_type_comp cx d r (CCall (LzCall c2 args kw)) =
  do t <- set_type_comp cx d r (CCall (LzCall c1 args kw));
  Ok (retag_tcomp (lazy_str (LzCall c2 args kw)) (CCall (LzCall c2 args kw)) t).
Proof.
  intros H1 H2. unfold set_type_comp. rewrite (prop_alias_eval c2 c1 _ _ args kw H2 H1).
  destruct (eval_lazy _ [] (LzCall c1 args kw)) as [[[v st'] rec]|]; cbn [bind fst snd]; [|reflexivity].
  destruct v; reflexivity.
Qed.

Lemma prop_set_type_kind cx d r c args kw t :
  In c prop_callees -> set_type_comp cx d r (CCall (LzCall c args kw)) = Ok t -> tc_kind t = KProportion.
Proof.
  intros Hc H. unfold set_type_comp in H. apply bind_ok in H as ([[v st'] rec] & Hev & H).
  destruct (eval_lazy_prop_value _ _ _ _ _ _ _ _ Hc Hev) as (ss & ts & o & ->). cbn in H. injection H as <-. reflexivity.
Qed.

Lemma set_data_comp_retag_prop t nm src spans n :
  tc_kind t = KProportion ->
  set_data_comp (retag_tcomp nm src t) spans n = do d <- set_data_comp t spans n; Ok (retag_dcomp nm src d).
Proof.
  intros Hk. unfold set_data_comp. cbn [retag_tcomp tc_kind tc_value tc_response]. rewrite Hk.
  destruct (tc_response t); cbn [negb]; [|reflexivity]. destruct (tc_value t); reflexivity.
Qed.

Lemma prop_alias_eval_resp cx d c1 c2 args kw :
  In c1 prop_callees -> In c2 prop_callees ->
  eval_resp cx d (Some [CCall (LzCall c2 args kw)]) =
  do o <- eval_resp cx d (Some [CCall (LzCall c1 args kw)]);
  Ok (option_map (retag_dterm (lazy_str (LzCall c2 args kw)) (CCall (LzCall c2 args kw))) o).
Proof.
  intros H1 H2. unfold eval_resp, eval_response, set_type_term. cbn [mapM].
  rewrite (prop_alias_set_type cx d true c1 c2 args kw H1 H2).
  destruct (set_type_comp cx d true (CCall (LzCall c1 args kw))) as [t|] eqn:Et; cbn [bind]; [|reflexivity].
  pose proof (prop_set_type_kind _ _ _ _ _ _ _ H1 Et) as Hk.
  cbn [set_data_term mapM spans_for]. rewrite (set_data_comp_retag_prop t _ _ true _ Hk).
  destruct (set_data_comp t true (frame_rows d)) as [dc|]; cbn [bind]; reflexivity.
Qed.

(** The theorem, on models: the same arguments under two of the three names. *)
Theorem prop_alias_model cx D na c1 c2 args kw cs gs :
  In c1 prop_callees -> In c2 prop_callees ->
  design_of_model cx (Mod (Some [CCall (LzCall c2 args kw)]) cs gs) D na =
  do D1 <- design_of_model cx (Mod (Some [CCall (LzCall c1 args kw)]) cs gs) D na;
  Ok (retag_response (lazy_str (LzCall c2 args kw)) (CCall (LzCall c2 args kw)) D1).
Proof.
  intros H1 H2. unfold design_of_model.
  change (prepare_data D (Mod (Some [CCall (LzCall c2 args kw)]) cs gs) na)
    with (prepare_data D (Mod (Some [CCall (LzCall c1 args kw)]) cs gs) na).
  destruct (prepare_data D _ na) as [p|]; cbn [bind]; [|reflexivity].
  rewrite !eval_model_split. cbn [commons groups resp].
  destruct (eval_predictors cx _ cs gs) as [pr|]; cbn [bind]; [|reflexivity].
  rewrite (prop_alias_eval_resp cx _ c1 c2 args kw H1 H2).
  destruct (eval_resp cx _ (Some [CCall (LzCall c1 args kw)])) as [o|]; cbn [bind]; reflexivity.
Qed.

(* two calls of different names with the same argument list resolve to the same arguments *)
Lemma resolve_ecall_same_args f1 f2 args :
  (exists k, resolve (ecall f1 args) = Err k /\ resolve (ecall f2 args) = Err k) \/
  (exists pos kw, resolve (ecall f1 args) = Ok (VT [CCall (LzCall (lexeme f1) pos kw)]) /\
                  resolve (ecall f2 args) = Ok (VT [CCall (LzCall (lexeme f2) pos kw)])).
Proof.
  unfold ecall. cbn [resolve call_resolve].
  match goal with |- context [bind ?g _] => destruct g as [[pos kw]|k] end; cbn [bind fst snd].
  - right. exists pos, kw. split; reflexivity.
  - left. exists k. split; reflexivity.
Qed.

(** ... and on formulas:  p(args) ~ rhs ,  prop(args) ~ rhs ,  proportion(args) ~ rhs , any
    argument list, any right-hand side, any frame, any policy: the same result (the same error, or
    the same design up to the name and source text of the response term). *)
Theorem prop_alias_design cx D na f1 f2 args tl r :
  tkind tl = TILDE -> In (lexeme f1) prop_callees -> In (lexeme f2) prop_callees ->
  (exists k, design_matrices cx (EBinary (ecall f1 args) tl r) D na = Err k /\
             design_matrices cx (EBinary (ecall f2 args) tl r) D na = Err k) \/
  (exists nm src,
     design_matrices cx (EBinary (ecall f2 args) tl r) D na =
     do D1 <- design_matrices cx (EBinary (ecall f1 args) tl r) D na; Ok (retag_response nm src D1)).
Proof.
  intros Htl H1 H2. rewrite !design_matrices_of_model. unfold describe. cbn [resolve]. rewrite Htl.
  cbn [lookup_kind resolver_ops kind_eqb]. cbn [kind_eq_dec kind_rec kind_rect].
  destruct (resolve_ecall_same_args f1 f2 args) as [(k & E1 & E2)|(pos & kw & E1 & E2)].
  - left. exists k. change (lookup_kind TILDE resolver_ops) with (Some OpTilde). cbn iota.
    rewrite E1, E2. split; reflexivity.
  - change (lookup_kind TILDE resolver_ops) with (Some OpTilde). cbn iota. rewrite E1, E2. cbn [bind].
    destruct (resolve r) as [b|k]; cbn [bind]; [|left; exists k; split; reflexivity].
    cbn [apply_binop mk_response bind].
    destruct b as [| |t'|g|t'|o]; cbn [v_add bind]; try (left; eexists; split; reflexivity); right;
      exists (lazy_str (LzCall (lexeme f2) pos kw)), (CCall (LzCall (lexeme f2) pos kw));
      apply (prop_alias_model cx D na (lexeme f1) (lexeme f2) pos kw); assumption.
Qed.

Module PropExamples.
  Import OffsetExamples.
  Definition rhs1 : expr := EBinary (ELiteral (LInt 1) None) plus_t (evar (id "x")).
  Definition e_prop (c : string) : expr := EBinary (ecall (id c) [evar (id "s"); evar (id "n")]) tilde_t rhs1.
  Example e_prop_parsed :
    map (fun c => Driver.parse_string (c ++ "(s, n) ~ x")) prop_callees = map (fun c => Ok (e_prop c)) prop_callees.
  Proof. vm_compute. reflexivity. Qed.

  Definition trials : frame :=
    [("s", ColNum true [qq 1; qq 2; qq 0]); ("n", ColNum true [qq 3; qq 2; qq 5]); ("x", ColNum true [qq 4; qq 5; qq 6])].
  Definition trials_new : frame :=
    [("x", ColNum true [qq 1; qq 0]); ("n", ColNum true [qq 10; qq 20])].
  (* a success exceeds its trials / a success is negative / a success is a fraction *)
  Definition trials_excess : frame :=
    [("s", ColNum true [qq 1; qq 3; qq 0]); ("n", ColNum true [qq 3; qq 2; qq 5]); ("x", ColNum true [qq 4; qq 5; qq 6])].
  Definition trials_negative : frame :=
    [("s", ColNum true [qq (-1); qq 2; qq 0]); ("n", ColNum true [qq 3; qq 2; qq 5]); ("x", ColNum true [qq 4; qq 5; qq 6])].
  Lemma trials_wf : frame_wf trials. Proof. unfold frame_wf, rect. repeat constructor. Qed.

  Ltac ex_solve :=
    first [ reflexivity | exact trials_wf
          | (vm_compute; reflexivity) | (vm_compute; discriminate)
          | (vm_compute; tauto)
          | (right; vm_compute; reflexivity) ].

  (* [prop_design] applies *)
  Example prop_design_ex :
    design_matrices cx0 (e_prop "prop") trials NaDrop =
    do p <- eval_predictors cx0 trials [CI; CT [CVar (NStr "x") None]] [];
    if prop_ok [qz 1; qz 2; qz 0] [qz 3; qz 2; qz 5]
    then Ok (Design 3 (Some (prop_dterm "prop" "s" (LzVar "n") [qq 1; qq 2; qq 0] [qq 3; qq 2; qq 5] None)) (fst p) (snd p))
    else Err EValue.
  Proof.
    eapply (prop_design cx0 trials NaDrop rhs1 tilde_t (id "prop") (id "s") _ _ _ eq_refl) with (xn := id "n") (i := true) (j := true);
      ex_solve.
  Qed.

  (* accepted; the response is the two columns (s, n); no labels *)
  Example prop_design_ex_ok :
    exists Dd rt, design_matrices cx0 (e_prop "prop") trials NaDrop = Ok Dd /\ ds_response Dd = Some rt /\
      dt_name rt = "prop(s, n)" /\ dt_kind rt = "proportion" /\ dt_labels rt = None /\
      map (map cshow) (dt_rows rt) = [["1"; "3"]; ["2"; "2"]; ["0"; "5"]] /\
      map dt_name (ds_common Dd) = ["Intercept"; "x"].
  Proof. eexists. eexists. split; [vm_compute; reflexivity|]. repeat split; vm_compute; reflexivity. Qed.

  Example prop_design_ex_excess : design_matrices cx0 (e_prop "prop") trials_excess NaDrop = Err EValue.
  Proof. vm_compute. reflexivity. Qed.

  (** The clause "0 <= successes" is NOT checked (neither by the model nor by transforms.py,
      Proportion.__init__: integer successes, integer trials, successes <= trials): a negative
      number of successes is accepted. *)
  Example prop_nonnegative_refuted :
    exists Dd rt, design_matrices cx0 (e_prop "prop") trials_negative NaDrop = Ok Dd /\ ds_response Dd = Some rt /\
      map (map cshow) (dt_rows rt) = [["-1"; "3"]; ["2"; "2"]; ["0"; "5"]].
  Proof. eexists. eexists. split; [vm_compute; reflexivity|]. split; vm_compute; reflexivity. Qed.

  (* the response term on a new frame: n of the new frame; the new frame has no s *)
  Example prop_response_new_term_ex :
    exists Dd rt, design_matrices cx0 (e_prop "proportion") trials NaDrop = Ok Dd /\ ds_response Dd = Some rt /\
      new_term cx0 UError trials_new rt = Ok ([[qq 10]; [qq 20]], false).
  Proof. eexists. eexists. split; [vm_compute; reflexivity|]. split; [reflexivity|]. vm_compute. reflexivity. Qed.

  (* the spellings: equal up to the name ... *)
  Example prop_alias_design_ex :
    design_matrices cx0 (e_prop "p") trials NaDrop =
    do D1 <- design_matrices cx0 (e_prop "proportion") trials NaDrop;
    Ok (retag_response "p(s, n)" (prop_comp "p" "s" (LzVar "n")) D1).
  Proof. vm_compute. reflexivity. Qed.

  (** ... and NOT equal: the response term is named after the text of the call. *)
  Example prop_alias_literal_refuted :
    exists D1 D2, design_matrices cx0 (e_prop "p") trials NaDrop = Ok D1 /\
                  design_matrices cx0 (e_prop "prop") trials NaDrop = Ok D2 /\ D1 <> D2 /\
                  option_map dt_name (ds_response D1) = Some "p(s, n)" /\
                  option_map dt_name (ds_response D2) = Some "prop(s, n)".
  Proof.
    eexists. eexists. split; [vm_compute; reflexivity|]. split; [vm_compute; reflexivity|].
    split; [|split; reflexivity]. intros E. apply (f_equal (fun D => option_map dt_name (ds_response D))) in E.
    vm_compute in E. discriminate.
  Qed.
End PropExamples.

(* ------------------------------------------------------------------------------------------ *)
(** * 4. binary / B *)

Definition binary_callees : list string := ["binary"; "B"].

(* a numeric one-column term whose single component [c] evaluated to the series [xs]:
   as the response ([isresp], coded with spans = true) or as a predictor *)
Definition series_tcomp (c : comp) (isresp isint : bool) (xs : list cell) : tcomp :=
  TC (comp_name c) c KNumeric (PSeries isint xs) [] isresp None.
Definition series_dcomp (c : comp) (isresp isint : bool) (xs : list cell) : dcomp :=
  DC (series_tcomp c isresp isint xs) [] None (col1 xs) (Some [comp_name c]) isresp.
Definition series_dterm (c : comp) (isresp isint : bool) (xs : list cell) : dterm :=
  DT (comp_name c) "numeric" [series_dcomp c isresp isint xs] (col1 xs) (Some [comp_name c]).

Lemma series_set_data c isresp isint xs n :
  set_data_comp (series_tcomp c isresp isint xs) isresp n = Ok (series_dcomp c isresp isint xs).
Proof. reflexivity. Qed.

Lemma series_single c isint xs :
  single_dterm (series_tcomp c false isint xs) (series_dcomp c false isint xs) = series_dterm c false isint xs.
Proof. reflexivity. Qed.

(* the response of a formula whose left-hand side evaluates to a numeric series *)
Lemma eval_resp_series cx d c isint xs :
  set_type_comp cx d true c = Ok (series_tcomp c true isint xs) ->
  eval_resp cx d (Some [c]) = Ok (Some (series_dterm c true isint xs)).
Proof.
  intros H. unfold eval_resp, eval_response, set_type_term. cbn [mapM]. rewrite H. reflexivity.
Qed.

Lemma eval_resp_refused cx d c k : set_type_comp cx d true c = Err k -> eval_resp cx d (Some [c]) = Err k.
Proof. intros H. unfold eval_resp, eval_response, set_type_term. cbn [mapM]. rewrite H. reflexivity. Qed.

(** ** the component binary(y, 's') / B(y, 's') / binary(y) on a string column *)

Definition binary_comp (callee y : string) (sa : list lazy) : comp := CCall (LzCall callee (LzVar y :: sa) []).
(* the indicator of "= s", a missing value counting as "not s" *)
Definition indicator (s : string) (ys : list (option string)) : list cell := map (fun v => bit (str_hit s v)) ys.

Lemma binary_callee_known callee :
  In callee binary_callees ->
  known_callee callee = true /\ existsb (String.eqb callee) stateful_names = false /\
  (forall cx, call_function cx callee = call_function cx "binary").
Proof. intros [<-|[<-|[]]]; repeat split; reflexivity. Qed.

Lemma binary_set_type cx d r callee y s lx o ys :
  In callee binary_callees -> assoc y d = Some (ColStr o ys) ->
  let c := binary_comp callee y [LzVal (LStr s) lx] in
  set_type_comp cx d r c =
  if existsb (str_hit s) ys then Ok (series_tcomp c r true (indicator s ys)) else Err EValue.
Proof.
  intros Hc Hy c. destruct (binary_callee_known callee Hc) as (K1 & K2 & K3).
  unfold c, binary_comp, set_type_comp.
  rewrite (eval_call2 _ _ callee _ _ K1 K2).
  cbn [eval_lazy]. unfold lookup_name. cbn [e_data]. rewrite Hy. cbn [bind fst snd col_value lit_value].
  rewrite K3, binary_spec_str. destruct (existsb (str_hit s) ys); reflexivity.
Qed.

(* success omitted: the smallest value of the column *)
Lemma binary_default_set_type cx d r callee y o ys :
  In callee binary_callees -> assoc y d = Some (ColStr o ys) ->
  let c := binary_comp callee y [] in
  set_type_comp cx d r c =
  match sorted_unique_str (present ys) with
  | s :: _ => Ok (series_tcomp c r true (indicator s ys))
  | [] => Err EIndex
  end.
Proof.
  intros Hc Hy c. destruct (binary_callee_known callee Hc) as (K1 & K2 & K3).
  unfold c, binary_comp, set_type_comp.
  rewrite (eval_call1 _ _ callee _ K1 K2).
  cbn [eval_lazy]. unfold lookup_name. cbn [e_data]. rewrite Hy. cbn [bind fst snd col_value].
  rewrite K3. destruct (sorted_unique_str (present ys)) as [|s rest] eqn:E.
  - rewrite binary_default_str, E. reflexivity.
  - rewrite (binary_default_str_ok _ o ys s rest E). reflexivity.
Qed.

(* a numeric column and an integer literal:  binary(x, 3) *)
Definition indicator_num (q : Qc) (l : list Qc) : list cell := map (fun x => bit (Qc_eq_bool x q)) l.

Lemma binary_num_set_type cx d r callee x z lx i xs l :
  In callee binary_callees -> assoc x d = Some (ColNum i xs) -> all_some xs = Some l ->
  let c := binary_comp callee x [LzVal (LInt z) lx] in
  set_type_comp cx d r c =
  if existsb (fun v => Qc_eq_bool v (qz z)) l then Ok (series_tcomp c r true (indicator_num (qz z) l)) else Err EValue.
Proof.
  intros Hc Hx Hl c. destruct (binary_callee_known callee Hc) as (K1 & K2 & K3).
  unfold c, binary_comp, set_type_comp.
  rewrite (eval_call2 _ _ callee _ _ K1 K2).
  cbn [eval_lazy]. unfold lookup_name. cbn [e_data]. rewrite Hx. cbn [bind fst snd col_value lit_value].
  rewrite K3, (binary_spec_num _ i xs l true (qz z) Hl). destruct (existsb _ l); reflexivity.
Qed.

(** ** 4a. binary(y, 's') ~ rhs  and  B(y, 's') ~ rhs *)

Section BinaryResponse.
  Variables (cx : dctx) (D : frame) (na : na_action).
  Variables (r : expr) (tl f yt : token) (b : value) (cs : list cterm) (gs : list gterm).
  Hypothesis Htl : tkind tl = TILDE.
  Hypothesis Hf : In (lexeme f) binary_callees.
  Hypothesis Hr : resolve r = Ok b.
  Hypothesis Hb : rhs_terms b = Some (cs, gs).
  Hypothesis Hwf : frame_wf D.
  Hypothesis Hn : frame_rows D <> 0.

  (** The design is accepted exactly when the predictors of rhs are and s occurs in the column y;
      the response is then one column, 1 exactly where y = s. *)
  Theorem binary_response_design s lx o ys :
    let y := lexeme yt in
    let c := binary_comp (lexeme f) y [LzVal (LStr s) lx] in
    assoc y D = Some (ColStr o ys) ->
    na = NaPass \/ anyb (incomplete_mask D (Mod (Some [c]) cs gs)) = false ->
    design_matrices cx (EBinary (ecall f [evar yt; ELiteral (LStr s) lx]) tl r) D na =
    do p <- eval_predictors cx D cs gs;
    if existsb (str_hit s) ys
    then Ok (Design (frame_rows D) (Some (series_dterm c true true (indicator s ys))) (fst p) (snd p))
    else Err EValue.
  Proof.
    intros y c Hy Hna.
    rewrite design_matrices_of_model,
      (describe_tilde _ _ _ _ _ _ _ Htl (resolve_ecall_var_lit f yt (LStr s) lx) Hr Hb). cbn [bind].
    fold y. change (CCall (LzCall (lexeme f) [LzVar y; LzVal (LStr s) lx] [])) with c.
    rewrite (design_of_model_eval cx _ D na Hwf Hn); [| |exact Hna].
    - rewrite eval_model_split. cbn [commons groups resp].
      destruct (eval_predictors cx D cs gs) as [p|]; cbn [bind]; [|reflexivity].
      pose proof (binary_set_type cx D true (lexeme f) y s lx o ys Hf Hy) as Hty. cbv zeta in Hty. fold c in Hty.
      destruct (existsb (str_hit s) ys).
      + rewrite (eval_resp_series cx D c true _ Hty). reflexivity.
      + rewrite (eval_resp_refused cx D c _ Hty). reflexivity.
    - apply (assoc_used_nonempty y _ D _ Hy). unfold model_vars. cbn [resp]. apply in_or_app. right.
      apply in_or_app. right. cbn. left. reflexivity.
  Qed.

  (** success omitted: the smallest value of y is the success value *)
  Theorem binary_response_default_design o ys :
    let y := lexeme yt in
    let c := binary_comp (lexeme f) y [] in
    assoc y D = Some (ColStr o ys) ->
    na = NaPass \/ anyb (incomplete_mask D (Mod (Some [c]) cs gs)) = false ->
    design_matrices cx (EBinary (ecall f [evar yt]) tl r) D na =
    do p <- eval_predictors cx D cs gs;
    match sorted_unique_str (present ys) with
    | s :: _ => Ok (Design (frame_rows D) (Some (series_dterm c true true (indicator s ys))) (fst p) (snd p))
    | [] => Err EIndex
    end.
  Proof.
    intros y c Hy Hna.
    rewrite design_matrices_of_model,
      (describe_tilde _ _ _ _ _ _ _ Htl (resolve_ecall_var f yt) Hr Hb). cbn [bind].
    fold y. change (CCall (LzCall (lexeme f) [LzVar y] [])) with c.
    rewrite (design_of_model_eval cx _ D na Hwf Hn); [| |exact Hna].
    - rewrite eval_model_split. cbn [commons groups resp].
      destruct (eval_predictors cx D cs gs) as [p|]; cbn [bind]; [|reflexivity].
      pose proof (binary_default_set_type cx D true (lexeme f) y o ys Hf Hy) as Hty. cbv zeta in Hty. fold c in Hty.
      destruct (sorted_unique_str (present ys)) as [|s rest].
      + rewrite (eval_resp_refused cx D c _ Hty). reflexivity.
      + rewrite (eval_resp_series cx D c true _ Hty). reflexivity.
    - apply (assoc_used_nonempty y _ D _ Hy). unfold model_vars. cbn [resp]. apply in_or_app. right.
      apply in_or_app. right. cbn. left. reflexivity.
  Qed.
End BinaryResponse.

(* what the smallest value is: [binary_default_smallest] of HelpersProofs -- it occurs in the column
   and is <= every value of the column *)

(** B and binary: the same predictors, the same response column; the names differ *)
Corollary binary_alias_response cx D na r tl f1 f2 yt b cs gs s lx o ys D1 :
  tkind tl = TILDE -> lexeme f1 = "binary" -> lexeme f2 = "B" ->
  resolve r = Ok b -> rhs_terms b = Some (cs, gs) -> frame_wf D -> frame_rows D <> 0 ->
  assoc (lexeme yt) D = Some (ColStr o ys) ->
  na = NaPass \/ anyb (incomplete_mask D (Mod (Some [binary_comp "binary" (lexeme yt) [LzVal (LStr s) lx]]) cs gs)) = false ->
  design_matrices cx (EBinary (ecall f1 [evar yt; ELiteral (LStr s) lx]) tl r) D na = Ok D1 ->
  exists D2 rt1 rt2,
    design_matrices cx (EBinary (ecall f2 [evar yt; ELiteral (LStr s) lx]) tl r) D na = Ok D2 /\
    ds_common D2 = ds_common D1 /\ ds_group D2 = ds_group D1 /\ ds_nrows D2 = ds_nrows D1 /\
    ds_response D1 = Some rt1 /\ ds_response D2 = Some rt2 /\
    dt_rows rt2 = dt_rows rt1 /\ dt_rows rt1 = col1 (indicator s ys) /\ dt_kind rt2 = dt_kind rt1.
Proof.
  intros Htl H1 H2 Hr Hb Hwf Hn Hy Hna HD1.
  assert (B1 : In (lexeme f1) binary_callees) by (rewrite H1; left; reflexivity).
  assert (B2 : In (lexeme f2) binary_callees) by (rewrite H2; right; left; reflexivity).
  rewrite (binary_response_design cx D na r tl f1 yt b cs gs Htl B1 Hr Hb Hwf Hn s lx o ys Hy) in HD1
    by (rewrite H1; exact Hna).
  rewrite (binary_response_design cx D na r tl f2 yt b cs gs Htl B2 Hr Hb Hwf Hn s lx o ys Hy).
  2:{ rewrite H2. destruct Hna as [->|Hm]; [left; reflexivity|right; exact Hm]. }
  destruct (eval_predictors cx D cs gs) as [p|]; cbn [bind] in *; [|discriminate].
  destruct (existsb (str_hit s) ys); [|discriminate]. injection HD1 as <-.
  eexists. eexists. eexists. split; [reflexivity|]. repeat split.
Qed.

(** ** 4b. binary(x, 's') as the last predictor:  lhs ~ rhs + binary(x, 's') *)

(* [name_fresh] as a boolean *)
Definition name_freshb (n : string) (cs : list cterm) : bool :=
  negb (has_colon n) && negb (String.eqb n "") && negb (String.eqb n "Intercept") && cterms_avoidb n cs.

Lemma name_freshb_ok n cs : name_freshb n cs = true -> name_fresh n cs.
Proof.
  unfold name_freshb, name_fresh. rewrite !andb_true_iff, !negb_true_iff. intros [[[H1 H2] H3] H4].
  repeat split; [exact H1|apply String.eqb_neq; exact H2|apply String.eqb_neq; exact H3|exact (cterms_avoidb_ok _ _ H4)].
Qed.

Section BinaryPredictor.
  Variables (cx : dctx) (D : frame) (na : na_action).
  Variables (l r : expr) (tl pl f xt : token) (cy : comp) (b : value) (cs : list cterm) (gs : list gterm).
  Variables (s : string) (lx : option string).
  Let x := lexeme xt.
  Let c := binary_comp (lexeme f) x [LzVal (LStr s) lx].
  Hypothesis Htl : tkind tl = TILDE.
  Hypothesis Hpl : tkind pl = PLUS.
  Hypothesis Hf : In (lexeme f) binary_callees.
  Hypothesis Hl : resolve l = Ok (VT [cy]).
  Hypothesis Hr : resolve r = Ok b.
  Hypothesis Hb : rhs_main b = Some (cs, gs).
  Hypothesis Hm : cmem (CT [c]) cs = false.
  Hypothesis Hwf : frame_wf D.
  Hypothesis Hn : frame_rows D <> 0.
  Hypothesis Hu : used_cols D (Mod (Some [cy]) cs gs) <> [].
  Hypothesis Hna : na = NaPass \/ anyb (incomplete_mask D (Mod (Some [cy]) (cs ++ [CT [c]]) gs)) = false.

  (** s occurs in the training column x: the design of  lhs ~ rhs  plus one numeric term whose
      single column is 1 exactly where x = s *)
  Theorem binary_predictor_design o ys :
    assoc x D = Some (ColStr o ys) -> existsb (str_hit s) ys = true -> name_fresh (comp_name c) cs ->
    design_matrices cx (EBinary l tl (EBinary r pl (ecall f [evar xt; ELiteral (LStr s) lx]))) D na =
    do D0 <- design_matrices cx (EBinary l tl r) D na;
    Ok (add_common D0 (series_dterm c false true (indicator s ys))).
  Proof.
    intros Hx Hhit Hfresh. rewrite <- series_single.
    apply (formula_append cx D na l tl r pl _ cy b cs gs c); try assumption.
    - apply resolve_ecall_var_lit.
    - pose proof (binary_set_type cx D false (lexeme f) x s lx o ys Hf Hx) as Hty. cbv zeta in Hty.
      rewrite Hhit in Hty. exact Hty.
    - discriminate.
    - reflexivity.
  Qed.

  (** s occurs nowhere in the training column: the formula is refused *)
  Theorem binary_predictor_refused o ys :
    assoc x D = Some (ColStr o ys) -> existsb (str_hit s) ys = false ->
    is_ok (design_matrices cx (EBinary l tl (EBinary r pl (ecall f [evar xt; ELiteral (LStr s) lx]))) D na) = false.
  Proof.
    intros Hx Hhit.
    apply (formula_append_refused cx D na l tl r pl _ cy b cs gs c EValue); try assumption.
    - apply resolve_ecall_var_lit.
    - exact (used_cols_mono _ _ _ (model_vars_append _ _ _ _) Hu).
    - pose proof (binary_set_type cx D false (lexeme f) x s lx o ys Hf Hx) as Hty. cbv zeta in Hty.
      rewrite Hhit in Hty. exact Hty.
  Qed.
End BinaryPredictor.

(** ** 4c. binary at prediction *)

(** binary keeps no state: at prediction the call is evaluated again on the new frame with the
    success value WRITTEN IN THE FORMULA.  The column is the indicator of the same s on the new
    frame; but an s that does not occur in the NEW frame is refused there (finding KF-C06-2). *)
Lemma binary_new_term cx mode new callee x s lx isresp ys0 o ys :
  In callee binary_callees -> assoc x new = Some (ColStr o ys) ->
  new_term cx mode new (series_dterm (binary_comp callee x [LzVal (LStr s) lx]) isresp true ys0) =
  if existsb (str_hit s) ys then Ok (col1 (indicator s ys), false) else Err EValue.
Proof.
  intros Hc Hx. destruct (binary_callee_known callee Hc) as (K1 & K2 & K3).
  unfold new_term. cbn [series_dterm dt_kind dt_comps]. change (String.eqb "numeric" "intercept") with false.
  cbn [mapM]. unfold new_comp. cbn [series_dcomp dc_t series_tcomp tc_src binary_comp tc_kind tc_state].
  rewrite (eval_call2 _ _ callee _ _ K1 K2).
  cbn [eval_lazy]. unfold lookup_name. cbn [e_data]. rewrite Hx. cbn [bind fst snd col_value lit_value].
  rewrite K3, binary_spec_str. destruct (existsb (str_hit s) ys); reflexivity.
Qed.

Theorem binary_new_common cx mode D0 callee x s lx ys0 new o ys :
  In callee binary_callees -> assoc x new = Some (ColStr o ys) ->
  new_common cx mode (add_common D0 (series_dterm (binary_comp callee x [LzVal (LStr s) lx]) false true ys0)) new =
  do r0 <- new_common cx mode D0 new;
  if existsb (str_hit s) ys then Ok (NewRes (glue (nr_rows r0) (col1 (indicator s ys))) (nr_warned r0))
  else Err EValue.
Proof.
  intros Hc Hx. rewrite new_common_append, (binary_new_term cx mode new callee x s lx false ys0 o ys Hc Hx).
  destruct (new_common cx mode D0 new) as [r0|]; cbn [bind]; [|reflexivity].
  destruct (existsb (str_hit s) ys); cbn [bind fst snd]; [|reflexivity]. rewrite orb_false_r. reflexivity.
Qed.

(** success omitted: NOT frozen -- the smallest value of the NEW frame is used at prediction *)
Lemma binary_default_new_term cx mode new callee x isresp ys0 o ys :
  In callee binary_callees -> assoc x new = Some (ColStr o ys) ->
  new_term cx mode new (series_dterm (binary_comp callee x []) isresp true ys0) =
  match sorted_unique_str (present ys) with
  | s :: _ => Ok (col1 (indicator s ys), false)
  | [] => Err EIndex
  end.
Proof.
  intros Hc Hx. destruct (binary_callee_known callee Hc) as (K1 & K2 & K3).
  unfold new_term. cbn [series_dterm dt_kind dt_comps]. change (String.eqb "numeric" "intercept") with false.
  cbn [mapM]. unfold new_comp. cbn [series_dcomp dc_t series_tcomp tc_src binary_comp tc_kind tc_state].
  rewrite (eval_call1 _ _ callee _ K1 K2).
  cbn [eval_lazy]. unfold lookup_name. cbn [e_data]. rewrite Hx. cbn [bind fst snd col_value].
  rewrite K3. destruct (sorted_unique_str (present ys)) as [|s rest] eqn:E.
  - rewrite binary_default_str, E. reflexivity.
  - rewrite (binary_default_str_ok _ o ys s rest E). reflexivity.
Qed.

(** ** 4d. the same for a numeric column and an integer success value, and for the omitted success
       value of a predictor *)

Theorem binary_num_response_design cx D na r tl f yt b cs gs z lx i xs ql :
  tkind tl = TILDE -> In (lexeme f) binary_callees ->
  resolve r = Ok b -> rhs_terms b = Some (cs, gs) -> frame_wf D -> frame_rows D <> 0 ->
  let y := lexeme yt in
  let c := binary_comp (lexeme f) y [LzVal (LInt z) lx] in
  assoc y D = Some (ColNum i xs) -> all_some xs = Some ql ->
  na = NaPass \/ anyb (incomplete_mask D (Mod (Some [c]) cs gs)) = false ->
  design_matrices cx (EBinary (ecall f [evar yt; ELiteral (LInt z) lx]) tl r) D na =
  do p <- eval_predictors cx D cs gs;
  if existsb (fun v => Qc_eq_bool v (qz z)) ql
  then Ok (Design (frame_rows D) (Some (series_dterm c true true (indicator_num (qz z) ql))) (fst p) (snd p))
  else Err EValue.
Proof.
  intros Htl Hf Hr Hb Hwf Hn y c Hy Hl Hna.
  rewrite design_matrices_of_model,
    (describe_tilde _ _ _ _ _ _ _ Htl (resolve_ecall_var_lit f yt (LInt z) lx) Hr Hb). cbn [bind].
  fold y. change (CCall (LzCall (lexeme f) [LzVar y; LzVal (LInt z) lx] [])) with c.
  rewrite (design_of_model_eval cx _ D na Hwf Hn); [| |exact Hna].
  - rewrite eval_model_split. cbn [commons groups resp].
    destruct (eval_predictors cx D cs gs) as [p|]; cbn [bind]; [|reflexivity].
    pose proof (binary_num_set_type cx D true (lexeme f) y z lx i xs ql Hf Hy Hl) as Hty. cbv zeta in Hty. fold c in Hty.
    destruct (existsb _ ql).
    + rewrite (eval_resp_series cx D c true _ Hty). reflexivity.
    + rewrite (eval_resp_refused cx D c _ Hty). reflexivity.
  - apply (assoc_used_nonempty y _ D _ Hy). unfold model_vars. cbn [resp]. apply in_or_app. right.
    apply in_or_app. right. cbn. left. reflexivity.
Qed.

(* the indicator of "= q": 1 exactly at the cells equal to q *)
Lemma indicator_num_spec q l k v :
  nth_error l k = Some v -> nth_error (indicator_num q l) k = Some (bit (Qc_eq_bool v q)) /\
                            (Qc_eq_bool v q = true <-> v = q).
Proof.
  intros H. split.
  - unfold indicator_num. rewrite nth_error_map, H. reflexivity.
  - split; [apply Qc_eq_bool_correct|]. intros ->. unfold Qc_eq_bool. destruct (Qc_eq_dec q q); congruence.
Qed.

Lemma indicator_spec s ys k v :
  nth_error ys k = Some v -> nth_error (indicator s ys) k = Some (bit (str_hit s v)) /\
                             (str_hit s v = true <-> v = Some s).
Proof.
  intros H. split.
  - unfold indicator. rewrite nth_error_map, H. reflexivity.
  - destruct v as [w|]; cbn [str_hit]; [rewrite String.eqb_eq|]; split; intros E; try congruence; try discriminate.
Qed.

(** lhs ~ rhs + binary(x): the success value is the smallest value of the training column *)
Theorem binary_predictor_default_design cx D na l r tl pl f xt cy b cs gs o ys s rest :
  tkind tl = TILDE -> tkind pl = PLUS -> In (lexeme f) binary_callees ->
  resolve l = Ok (VT [cy]) -> resolve r = Ok b -> rhs_main b = Some (cs, gs) ->
  let x := lexeme xt in
  let c := binary_comp (lexeme f) x [] in
  cmem (CT [c]) cs = false -> name_fresh (comp_name c) cs ->
  frame_wf D -> frame_rows D <> 0 -> used_cols D (Mod (Some [cy]) cs gs) <> [] ->
  na = NaPass \/ anyb (incomplete_mask D (Mod (Some [cy]) (cs ++ [CT [c]]) gs)) = false ->
  assoc x D = Some (ColStr o ys) -> sorted_unique_str (present ys) = s :: rest ->
  design_matrices cx (EBinary l tl (EBinary r pl (ecall f [evar xt]))) D na =
  do D0 <- design_matrices cx (EBinary l tl r) D na;
  Ok (add_common D0 (series_dterm c false true (indicator s ys))).
Proof.
  intros Htl Hpl Hf Hl Hr Hb x c Hm Hfresh Hwf Hn Hu Hna Hx Hs. rewrite <- series_single.
  apply (formula_append cx D na l tl r pl _ cy b cs gs c); try assumption.
  - apply resolve_ecall_var.
  - pose proof (binary_default_set_type cx D false (lexeme f) x o ys Hf Hx) as Hty. cbv zeta in Hty.
    rewrite Hs in Hty. exact Hty.
  - discriminate.
  - reflexivity.
Qed.

(* the group-specific part of a design plays no part here: one more common term leaves [new_group] alone *)
Lemma new_group_add_common cx mode D0 t data : new_group cx mode (add_common D0 t) data = new_group cx mode D0 data.
Proof. reflexivity. Qed.

Module BinaryExamples.
  Import OffsetExamples.
  Definition rhs1 : expr := EBinary (ELiteral (LInt 1) None) plus_t (evar (id "x")).
  Definition lit_a : expr := ELiteral (LStr "a") (Some "'a'").
  Definition lit_b : expr := ELiteral (LStr "b") (Some "'b'").
  Definition lit_z : expr := ELiteral (LStr "z") (Some "'z'").
  Definition e_resp (c : string) (s : expr) : expr := EBinary (ecall (id c) [evar (id "g"); s]) tilde_t rhs1.
  Definition e_resp_default : expr := EBinary (ecall (id "binary") [evar (id "g")]) tilde_t rhs1.
  Definition e_pred (s : expr) : expr := EBinary lhs tilde_t (EBinary rhs1 plus_t (ecall (id "binary") [evar (id "g"); s])).
  Definition e_pred_default : expr := EBinary lhs tilde_t (EBinary rhs1 plus_t (ecall (id "binary") [evar (id "g")])).

  Example e_resp_parsed : Driver.parse_string "binary(g, 'a') ~ x" = Ok (e_resp "binary" lit_a) /\
                          Driver.parse_string "B(g, 'a') ~ x" = Ok (e_resp "B" lit_a) /\
                          Driver.parse_string "y ~ x + binary(g, 'b')" = Ok (e_pred lit_b) /\
                          Driver.parse_string "y ~ x + binary(g)" = Ok e_pred_default.
  Proof. repeat split; vm_compute; reflexivity. Qed.

  Definition gs_col : list (option string) := [Some "a"; Some "b"; Some "a"; Some "c"].

  Ltac ex_solve :=
    first [ reflexivity | exact train_wf
          | (vm_compute; reflexivity) | (vm_compute; discriminate)
          | (vm_compute; tauto)
          | (apply name_freshb_ok; vm_compute; reflexivity)
          | (right; vm_compute; reflexivity) ].

  Example binary_response_design_ex :
    design_matrices cx0 (e_resp "binary" lit_a) train NaDrop =
    do p <- eval_predictors cx0 train [CI; CT [CVar (NStr "x") None]] [];
    if existsb (str_hit "a") gs_col
    then Ok (Design 4 (Some (series_dterm (binary_comp "binary" "g" [LzVal (LStr "a") (Some "'a'")]) true true
                                          (indicator "a" gs_col))) (fst p) (snd p))
    else Err EValue.
  Proof.
    eapply (binary_response_design cx0 train NaDrop rhs1 tilde_t (id "binary") (id "g") _ _ _ eq_refl); ex_solve.
  Qed.

  Example binary_response_design_ex_ok :
    exists Dd rt, design_matrices cx0 (e_resp "B" lit_a) train NaDrop = Ok Dd /\ ds_response Dd = Some rt /\
      dt_name rt = "B(g, 'a')" /\ dt_labels rt = Some ["B(g, 'a')"] /\
      map (map cshow) (dt_rows rt) = [["1"]; ["0"]; ["1"]; ["0"]].
  Proof. eexists. eexists. split; [vm_compute; reflexivity|]. repeat split; vm_compute; reflexivity. Qed.

  (* an s that occurs nowhere in training: refused *)
  Example binary_response_refused_ex : design_matrices cx0 (e_resp "binary" lit_z) train NaDrop = Err EValue.
  Proof. vm_compute. reflexivity. Qed.

  (* the default is the smallest value, "a" *)
  Example binary_response_default_ex :
    exists Dd rt, design_matrices cx0 e_resp_default train NaDrop = Ok Dd /\ ds_response Dd = Some rt /\
      dt_rows rt = col1 (indicator "a" gs_col).
  Proof. eexists. eexists. split; [vm_compute; reflexivity|]. split; vm_compute; reflexivity. Qed.

  Example binary_predictor_design_ex :
    design_matrices cx0 (e_pred lit_b) train NaDrop =
    do D0 <- design_matrices cx0 (EBinary lhs tilde_t rhs1) train NaDrop;
    Ok (add_common D0 (series_dterm (binary_comp "binary" "g" [LzVal (LStr "b") (Some "'b'")]) false true
                                    (indicator "b" gs_col))).
  Proof.
    eapply (binary_predictor_design cx0 train NaDrop lhs rhs1 tilde_t plus_t (id "binary") (id "g")); ex_solve.
  Qed.

  Example binary_predictor_refused_ex : design_matrices cx0 (e_pred lit_z) train NaDrop = Err EValue.
  Proof. vm_compute. reflexivity. Qed.

  (* prediction, explicit success value "b": the indicator of "b" on the new frame ... *)
  Definition new_b : frame := [("x", ColNum true [qq 1; qq 0; qq 2]); ("g", ColStr None [Some "c"; Some "b"; Some "b"])].
  (* ... and a new frame in which "b" does not occur: refused *)
  Definition new_nob : frame := [("x", ColNum true [qq 1; qq 0]); ("g", ColStr None [Some "c"; Some "a"])].
  Definition show_new (r : res newres) : res (list (list string)) :=
    match r with Ok x => Ok (map (map cshow) (nr_rows x)) | Err k => Err k end.

  Example binary_new_common_ex :
    exists D1, design_matrices cx0 (e_pred lit_b) train NaDrop = Ok D1 /\
      show_new (new_common cx0 UError D1 new_b) = Ok [["1"; "1"; "0"]; ["1"; "0"; "1"]; ["1"; "2"; "1"]] /\
      show_new (new_common cx0 UError D1 new_nob) = Err EValue.
  Proof. eexists. split; [vm_compute; reflexivity|]. split; vm_compute; reflexivity. Qed.

  (** "Frozen success value" is FALSE of binary(x) with the success value omitted: training picks
      the smallest training value ("a"); at prediction the call is evaluated again and picks the
      smallest value of the NEW frame ("b" below).  The rows of the new frame whose g is "b" get 1,
      although "b" was coded 0 in training; with the training value frozen the column would be 0, 0, 0. *)
  Example binary_default_frozen_refuted :
    exists D1 bt,
      design_matrices cx0 e_pred_default train NaDrop = Ok D1 /\
      nth_error (ds_common D1) 2 = Some bt /\ dt_rows bt = col1 (indicator "a" gs_col) /\
      show_new (new_common cx0 UError D1 new_b) = Ok [["1"; "1"; "0"]; ["1"; "0"; "1"]; ["1"; "2"; "1"]] /\
      map (map cshow) (col1 (indicator "a" [Some "c"; Some "b"; Some "b"])) = [["0"]; ["0"]; ["0"]].
  Proof.
    eexists. eexists. split; [vm_compute; reflexivity|]. split; [reflexivity|].
    repeat split; vm_compute; reflexivity.
  Qed.
End BinaryExamples.

(* ------------------------------------------------------------------------------------------ *)
(** * 5. I(e) and {e} *)

(** ** 5a. a formula is described by the kinds of its operators and the texts of its names *)

(* [resolve] and [call_resolve] read the KIND of an operator token and the LEXEME of a name token,
   nothing else: [erase] forgets the rest *)
Definition name_tok (t : token) : token := mk IDENTIFIER (lexeme t).
Definition op_tok (t : token) : token := mk (tkind t) "".

Fixpoint erase (e : expr) : expr :=
  match e with
  | EAssign n v => EAssign (erase n) (erase v)
  | EGrouping e' => EGrouping (erase e')
  | EBinary l op r => EBinary (erase l) (op_tok op) (erase r)
  | EUnary op r => EUnary (op_tok op) (erase r)
  | ECall c args => ECall (erase c) (map erase args)
  | EVariable n lv => EVariable (name_tok n) (option_map erase lv)
  | EQuotedName t => EQuotedName (name_tok t)
  | ELiteral v lx => ELiteral v lx
  end.

Definition er_ok (e : expr) : Prop :=
  call_resolve (erase e) = call_resolve e /\ resolve (erase e) = resolve e.
Definition er_ok' (e : expr) : Prop :=
  er_ok e /\ match e with EAssign _ v => call_resolve (erase v) = call_resolve v | _ => True end.

Lemma cr_args_erase args :
  Forall er_ok' args ->
  forall pos kw, CompEq.cr_args (map erase args) pos kw = CompEq.cr_args args pos kw.
Proof.
  induction 1 as [|a r [[Ha _] Ha'] _ IH]; intros pos kw; [reflexivity|].
  cbn [map].
  assert (Hdefault : (forall n v, a <> EAssign n v) ->
            (do la <- call_resolve (erase a); CompEq.cr_args (map erase r) (pos ++ [la]) kw) =
            (do la <- call_resolve a; CompEq.cr_args r (pos ++ [la]) kw)).
  { intros _. rewrite Ha. destruct (call_resolve a); cbn [bind]; [apply IH|reflexivity]. }
  destruct a as [n v|e'|l op r'|op r'|c args'|n lv|t|v lx];
    try (cbn [erase CompEq.cr_args] in *; apply Hdefault; intros; discriminate).
  cbn [erase]. destruct n as [n1 n2|e'|l op r'|op r'|c args'|n lv|t|v0 lx]; cbn [erase CompEq.cr_args]; try reflexivity.
  cbn [name_tok mk lexeme]. rewrite Ha'. destruct (call_resolve v); cbn [bind]; [apply IH|reflexivity].
Qed.

Lemma erase_ok : forall e, er_ok' e.
Proof.
  induction e as [n v IHn IHv|e IHe|l op r IHl IHr|op r IHr|c args IHc IHargs|n lv|t|v lx]
    using CompEq.expr_ind'; unfold er_ok', er_ok; (split; [|try exact I]).
  - split; reflexivity.
  - exact (proj1 (proj1 IHv)).
  - destruct IHe as [[A B] _]. split; cbn [erase call_resolve resolve]; assumption.
  - destruct IHl as [[A1 B1] _], IHr as [[A2 B2] _]. split; cbn [erase call_resolve resolve op_tok mk tkind].
    + rewrite A1, A2. reflexivity.
    + rewrite B1, B2. reflexivity.
  - destruct IHr as [[A B] _]. split; cbn [erase call_resolve resolve op_tok mk tkind].
    + rewrite A. reflexivity.
    + rewrite B. reflexivity.
  - assert (E : call_resolve (erase (ECall c args)) = call_resolve (ECall c args)).
    { cbn [erase]. rewrite !CompEq.call_resolve_ecall, (cr_args_erase args IHargs).
      destruct c; reflexivity. }
    split; [exact E|]. change (resolve (erase (ECall c args))) with
      (do l <- call_resolve (erase (ECall c args)); Ok (VT [CCall l])). rewrite E. reflexivity.
  - split; [reflexivity|]. destruct lv as [lv|]; [|reflexivity].
    destruct lv as [n1 n2|e'|l op r'|op r'|c args'|n' lv'|t|v0 lx]; try reflexivity.
  - split; reflexivity.
  - split; reflexivity.
Qed.

Theorem describe_erase e : describe (erase e) = describe e.
Proof. unfold describe. rewrite (proj2 (proj1 (erase_ok e))). reflexivity. Qed.

Theorem design_erase cx e D na : design_matrices cx (erase e) D na = design_matrices cx e D na.
Proof. unfold design_matrices. rewrite describe_erase. reflexivity. Qed.

(** Two formulas with the same erasure have the same design, on every frame, under every policy. *)
Corollary design_same_erasure cx e1 e2 D na :
  erase e1 = erase e2 -> design_matrices cx e1 D na = design_matrices cx e2 D na.
Proof. intros E. rewrite <- (design_erase cx e1), <- (design_erase cx e2), E. reflexivity. Qed.

(** ** 5b. I(e) and {e} *)

(** The parser turns {e} into the call of the name I on e ([Parser.primary_nobracket]: the token
    [I_token]); I(e) is the call of whatever token the scanner made of "I".  In any position of any
    formula the two have the same erasure, hence the same design. *)
Lemma erase_I_braces t e : lexeme t = "I" -> erase (ecall t [e]) = erase (ecall Parser.I_token [e]).
Proof. intros H. cbn [ecall erase map option_map]. unfold name_tok. rewrite H. reflexivity. Qed.

Theorem I_braces_design cx l tl t e D na :
  lexeme t = "I" ->
  design_matrices cx (EBinary l tl (ecall t [e])) D na =
  design_matrices cx (EBinary l tl (ecall Parser.I_token [e])) D na.
Proof.
  intros H. apply design_same_erasure. cbn [erase]. f_equal. exact (erase_I_braces t e H).
Qed.

Theorem I_braces_design_plus cx l tl r pl t e D na :
  lexeme t = "I" ->
  design_matrices cx (EBinary l tl (EBinary r pl (ecall t [e]))) D na =
  design_matrices cx (EBinary l tl (EBinary r pl (ecall Parser.I_token [e]))) D na.
Proof.
  intros H. apply design_same_erasure. cbn [erase]. do 2 f_equal. exact (erase_I_braces t e H).
Qed.

(** ** 5c. I(x), x a numeric column: the column of x *)

Definition I_comp (x : string) : comp := CCall (LzCall "I" [LzVar x] []).
Definition var_comp (x : string) : comp := CVar (NStr x) None.

Lemma I_var_typed cx D r x i xs :
  assoc x D = Some (ColNum i xs) -> set_type_comp cx D r (I_comp x) = Ok (series_tcomp (I_comp x) r i xs).
Proof. intros H. unfold I_comp, set_type_comp. cbn. unfold lookup_name. cbn. rewrite H. reflexivity. Qed.

Lemma var_typed cx D r x i xs :
  assoc x D = Some (ColNum i xs) -> set_type_comp cx D r (var_comp x) = Ok (series_tcomp (var_comp x) r i xs).
Proof. intros H. unfold var_comp, set_type_comp. rewrite H. reflexivity. Qed.

Section IFormula.
  Variables (cx : dctx) (D : frame) (na : na_action).
  Variables (l r : expr) (tl pl : token) (cy : comp) (b : value) (cs : list cterm) (gs : list gterm).
  Variables (xt : token) (i : bool) (xs : list cell).
  Let x := lexeme xt.
  Hypothesis Htl : tkind tl = TILDE.
  Hypothesis Hpl : tkind pl = PLUS.
  Hypothesis Hl : resolve l = Ok (VT [cy]).
  Hypothesis Hr : resolve r = Ok b.
  Hypothesis Hb : rhs_main b = Some (cs, gs).
  Hypothesis Hwf : frame_wf D.
  Hypothesis Hn : frame_rows D <> 0.
  Hypothesis Hu : used_cols D (Mod (Some [cy]) cs gs) <> [].
  Hypothesis Hx : assoc x D = Some (ColNum i xs).

  (** lhs ~ rhs + I(x)  and  lhs ~ rhs + {x} : the design of  lhs ~ rhs  plus a numeric term named
      "I(x)" whose single column is the column x, row for row ... *)
  Theorem I_var_design t :
    lexeme t = "I" ->
    cmem (CT [I_comp x]) cs = false -> name_fresh (comp_name (I_comp x)) cs ->
    na = NaPass \/ anyb (incomplete_mask D (Mod (Some [cy]) (cs ++ [CT [I_comp x]]) gs)) = false ->
    design_matrices cx (EBinary l tl (EBinary r pl (ecall t [evar xt]))) D na =
    do D0 <- design_matrices cx (EBinary l tl r) D na;
    Ok (add_common D0 (series_dterm (I_comp x) false i xs)).
  Proof.
    intros Ht Hm Hfresh Hna. rewrite <- series_single.
    apply (formula_append cx D na l tl r pl _ cy b cs gs (I_comp x)); try assumption.
    - rewrite resolve_ecall_var, Ht. reflexivity.
    - exact (I_var_typed cx D false x i xs Hx).
    - discriminate.
    - reflexivity.
  Qed.

  (** ... and  lhs ~ rhs + x  is the same design with the term named "x": the same column. *)
  Theorem var_design :
    cmem (CT [var_comp x]) cs = false -> name_fresh x cs ->
    na = NaPass \/ anyb (incomplete_mask D (Mod (Some [cy]) (cs ++ [CT [var_comp x]]) gs)) = false ->
    design_matrices cx (EBinary l tl (EBinary r pl (evar xt))) D na =
    do D0 <- design_matrices cx (EBinary l tl r) D na;
    Ok (add_common D0 (series_dterm (var_comp x) false i xs)).
  Proof.
    intros Hm Hfresh Hna. rewrite <- series_single.
    apply (formula_append cx D na l tl r pl _ cy b cs gs (var_comp x)); try assumption.
    - reflexivity.
    - exact (var_typed cx D false x i xs Hx).
    - discriminate.
    - reflexivity.
  Qed.

  Lemma I_var_same_column :
    dt_rows (series_dterm (I_comp x) false i xs) = col1 xs /\
    dt_rows (series_dterm (var_comp x) false i xs) = col1 xs /\
    dt_labels (series_dterm (I_comp x) false i xs) = Some [("I(" ++ x ++ ")")%string] /\
    dt_labels (series_dterm (var_comp x) false i xs) = Some [x].
  Proof. repeat split. Qed.
End IFormula.

(** lhs ~ I(x)  with nothing else on the right (a syntax tree without the "1 +" the scanner adds) *)
Theorem I_only_design cx D na l tl t xt cy i xs :
  tkind tl = TILDE -> lexeme t = "I" -> resolve l = Ok (VT [cy]) ->
  frame_wf D -> frame_rows D <> 0 -> used_cols D (Mod (Some [cy]) [] []) <> [] ->
  has_colon (lexeme xt) = false -> assoc (lexeme xt) D = Some (ColNum i xs) ->
  na = NaPass \/ anyb (incomplete_mask D (Mod (Some [cy]) [CT [I_comp (lexeme xt)]] [])) = false ->
  design_matrices cx (EBinary l tl (ecall t [evar xt])) D na =
  do D0 <- design_of_model cx (Mod (Some [cy]) [] []) D na;
  Ok (add_common D0 (series_dterm (I_comp (lexeme xt)) false i xs)).
Proof.
  intros Htl Ht Hl Hwf Hn Hu Hc Hx Hna.
  rewrite design_matrices_of_model.
  rewrite (describe_tilde l tl (ecall t [evar xt]) cy (VT [I_comp (lexeme xt)]) [CT [I_comp (lexeme xt)]] [] Htl Hl);
    [|rewrite resolve_ecall_var, Ht; reflexivity|reflexivity].
  cbn [bind]. rewrite <- series_single.
  apply (design_append cx D na (Some [cy]) [] [] (I_comp (lexeme xt))); try assumption.
  - change (comp_name (I_comp (lexeme xt))) with ("I(" ++ lexeme xt ++ ")")%string.
    repeat split; try discriminate; [|constructor]. rewrite !has_colon_app, Hc. reflexivity.
  - exact (I_var_typed cx D false _ i xs Hx).
  - discriminate.
  - reflexivity.
Qed.

(* at prediction the term I(x) is the column x of the new frame *)
Lemma I_var_new_term cx mode new x i xs k xs' :
  assoc x new = Some (ColNum k xs') ->
  new_term cx mode new (series_dterm (I_comp x) false i xs) = Ok (col1 xs', false).
Proof. intros H. unfold new_term, series_dterm. cbn. unfold lookup_name. cbn. rewrite H. reflexivity. Qed.

Theorem I_var_new_common cx mode D0 x i xs new k xs' :
  assoc x new = Some (ColNum k xs') ->
  new_common cx mode (add_common D0 (series_dterm (I_comp x) false i xs)) new =
  do r0 <- new_common cx mode D0 new; Ok (NewRes (glue (nr_rows r0) (col1 xs')) (nr_warned r0)).
Proof.
  intros H. rewrite new_common_append, (I_var_new_term cx mode new x i xs k xs' H).
  destruct (new_common cx mode D0 new) as [r0|]; cbn [bind fst snd]; [|reflexivity].
  rewrite orb_false_r. reflexivity.
Qed.

Module IExamples.
  Import OffsetExamples.
  Definition rhs1 : expr := EBinary (ELiteral (LInt 1) None) plus_t (evar (id "g")).
  Definition e_I : expr := EBinary lhs tilde_t (EBinary rhs1 plus_t (ecall (id "I") [evar (id "x")])).
  Definition e_x : expr := EBinary lhs tilde_t (EBinary rhs1 plus_t (evar (id "x"))).

  (* the texts "y ~ g + I(x)" and "y ~ g + {x}" parse to the same tree; so do arbitrary bodies *)
  Example I_braces_parsed :
    Driver.parse_string "y ~ g + I(x)" = Ok e_I /\ Driver.parse_string "y ~ g + {x}" = Ok e_I /\
    Driver.parse_string "y ~ {x + 1} + {x / (v - 2)}" = Driver.parse_string "y ~ I(x + 1) + I(x / (v - 2))" /\
    is_ok (Driver.parse_string "y ~ {x + 1} + {x / (v - 2)}") = true.
  Proof. repeat split; vm_compute; reflexivity. Qed.

  Ltac ex_solve :=
    first [ reflexivity | exact train_wf
          | (vm_compute; reflexivity) | (vm_compute; discriminate)
          | (apply name_freshb_ok; vm_compute; reflexivity)
          | (right; vm_compute; reflexivity) ].

  Example I_var_design_ex :
    design_matrices cx0 e_I train NaDrop =
    do D0 <- design_matrices cx0 (EBinary lhs tilde_t rhs1) train NaDrop;
    Ok (add_common D0 (series_dterm (I_comp "x") false true [qq 4; qq 5; qq 6; qq 7])).
  Proof.
    eapply (I_var_design cx0 train NaDrop lhs rhs1 tilde_t plus_t _ _ _ _ (id "x")); ex_solve.
  Qed.

  Example var_design_ex :
    design_matrices cx0 e_x train NaDrop =
    do D0 <- design_matrices cx0 (EBinary lhs tilde_t rhs1) train NaDrop;
    Ok (add_common D0 (series_dterm (var_comp "x") false true [qq 4; qq 5; qq 6; qq 7])).
  Proof.
    eapply (var_design cx0 train NaDrop lhs rhs1 tilde_t plus_t _ _ _ _ (id "x")); ex_solve.
  Qed.

  (* a computed instance with a compound body: {x + 1} and I(x + 1) *)
  Example I_braces_design_ex :
    design_matrices cx0 (gete "y ~ {x + 1}") train NaDrop = design_matrices cx0 (gete "y ~ I(x + 1)") train NaDrop /\
    match design_matrices cx0 (gete "y ~ {x + 1}") train NaDrop with
    | Ok Dd => map (fun t => (dt_name t, map (map cshow) (dt_rows t))) (ds_common Dd)
    | Err _ => [] end
    = [("Intercept", [["1"]; ["1"]; ["1"]; ["1"]]); ("I(x + 1)", [["5"]; ["6"]; ["7"]; ["8"]])].
  Proof. split; vm_compute; reflexivity. Qed.
End IExamples.

Module MoreExamples.
  Import OffsetExamples.
  Definition rhs_g : expr := EBinary (ELiteral (LInt 1) None) plus_t (evar (id "g")).
  Definition rhs_x : expr := EBinary (ELiteral (LInt 1) None) plus_t (evar (id "x")).
  Definition e_num : expr := EBinary (ecall (id "binary") [evar (id "x"); ELiteral (LInt 5) None]) tilde_t rhs_g.
  Definition e_def : expr := EBinary lhs tilde_t (EBinary rhs_x plus_t (ecall (id "B") [evar (id "g")])).
  Definition e_const : expr := EBinary (ecall (id "p") [evar (id "s"); ELiteral (LInt 5) None]) tilde_t rhs_x.
  Definition e_str : expr := EBinary lhs tilde_t (EBinary rhs_x plus_t (ecall (id "offset") [evar (id "g")])).
  Example more_parsed :
    Driver.parse_string "binary(x, 5) ~ g" = Ok e_num /\ Driver.parse_string "y ~ x + B(g)" = Ok e_def /\
    Driver.parse_string "p(s, 5) ~ x" = Ok e_const /\ Driver.parse_string "y ~ x + offset(g)" = Ok e_str.
  Proof. repeat split; vm_compute; reflexivity. Qed.

  Ltac ex_solve :=
    first [ reflexivity | exact train_wf | exact PropExamples.trials_wf
          | (vm_compute; reflexivity) | (vm_compute; discriminate) | (vm_compute; tauto)
          | (apply name_freshb_ok; vm_compute; reflexivity)
          | (right; vm_compute; reflexivity) ].

  (* binary(x, 5) ~ g : x = 4, 5, 6, 7 *)
  Example binary_num_response_design_ex :
    design_matrices cx0 e_num train NaDrop =
    do p <- eval_predictors cx0 train [CI; CT [CVar (NStr "g") None]] [];
    if existsb (fun v => Qc_eq_bool v (qz 5)) [qz 4; qz 5; qz 6; qz 7]
    then Ok (Design 4 (Some (series_dterm (binary_comp "binary" "x" [LzVal (LInt 5) None]) true true
                                          (indicator_num (qz 5) [qz 4; qz 5; qz 6; qz 7]))) (fst p) (snd p))
    else Err EValue.
  Proof.
    eapply (binary_num_response_design cx0 train NaDrop rhs_g tilde_t (id "binary") (id "x")) with (i := true); ex_solve.
  Qed.
  Example binary_num_response_rows :
    map (map cshow) (col1 (indicator_num (qz 5) [qz 4; qz 5; qz 6; qz 7])) = [["0"]; ["1"]; ["0"]; ["0"]].
  Proof. vm_compute. reflexivity. Qed.

  (* y ~ x + B(g): the smallest value of g, "a", is the success value *)
  Example binary_predictor_default_design_ex :
    design_matrices cx0 e_def train NaDrop =
    do D0 <- design_matrices cx0 (EBinary lhs tilde_t rhs_x) train NaDrop;
    Ok (add_common D0 (series_dterm (binary_comp "B" "g" []) false true (indicator "a" BinaryExamples.gs_col))).
  Proof.
    eapply (binary_predictor_default_design cx0 train NaDrop lhs rhs_x tilde_t plus_t (id "B") (id "g")) with (rest := ["b"; "c"]);
      ex_solve.
  Qed.

  (* p(s, 5) ~ x : five trials in every row *)
  Example prop_design_const_ex :
    design_matrices cx0 e_const PropExamples.trials NaDrop =
    do p <- eval_predictors cx0 PropExamples.trials [CI; CT [CVar (NStr "x") None]] [];
    if prop_ok [qz 1; qz 2; qz 0] (repeat (qz 5) 3)
    then Ok (Design 3 (Some (prop_dterm "p" "s" (LzVal (LInt 5) None) [qq 1; qq 2; qq 0] (repeat (qq 5) 3) (Some (qz 5))))
               (fst p) (snd p))
    else Err EValue.
  Proof.
    eapply (prop_design_const cx0 PropExamples.trials NaDrop rhs_x tilde_t (id "p") (id "s") _ _ _ eq_refl)
      with (i := true) (z := 5%Z) (ss := [qq 1; qq 2; qq 0]); ex_solve.
  Qed.
  Example prop_design_const_ex_new :
    exists Dd rt, design_matrices cx0 e_const PropExamples.trials NaDrop = Ok Dd /\ ds_response Dd = Some rt /\
      new_term cx0 UError PropExamples.trials_new rt = Ok ([[qq 5]; [qq 5]], false).
  Proof. eexists. eexists. split; [vm_compute; reflexivity|]. split; [reflexivity|]. vm_compute. reflexivity. Qed.

  (* offset of a string column *)
  Example offset_str_design_refused_ex : is_ok (design_matrices cx0 e_str train NaDrop) = false.
  Proof.
    eapply (offset_str_design_refused cx0 train NaDrop lhs rhs_x tilde_t plus_t (id "offset")) with (x := id "g"); ex_solve.
  Qed.

  (* y ~ I(x) as a bare syntax tree (no "1 +") *)
  Example I_only_design_ex :
    design_matrices cx0 (EBinary lhs tilde_t (ecall (id "I") [evar (id "x")])) train NaDrop =
    do D0 <- design_of_model cx0 (Mod (Some [CVar (NStr "y") None]) [] []) train NaDrop;
    Ok (add_common D0 (series_dterm (I_comp "x") false true [qq 4; qq 5; qq 6; qq 7])).
  Proof.
    eapply (I_only_design cx0 train NaDrop lhs tilde_t (id "I") (id "x")); ex_solve.
  Qed.
End MoreExamples.

(* ------------------------------------------------------------------------------------------ *)
Print Assumptions eval_predictors_append.
Print Assumptions eval_model_append.
Print Assumptions design_append.
Print Assumptions new_common_append.
Print Assumptions formula_append.
Print Assumptions formula_append_refused.
Print Assumptions offset_var_design.
Print Assumptions offset_var_design_iff.
Print Assumptions offset_const_design.
Print Assumptions offset_str_design_refused.
Print Assumptions offset_var_new_common.
Print Assumptions offset_const_new_common.
Print Assumptions offset_var_design_drop.
Print Assumptions offset_var_design_error.
Print Assumptions prop_design.
Print Assumptions prop_design_accepted.
Print Assumptions prop_design_const.
Print Assumptions prop_ok_iff.
Print Assumptions prop_response_new_term.
Print Assumptions prop_response_new_term_missing.
Print Assumptions prop_alias_model.
Print Assumptions prop_alias_design.
Print Assumptions binary_response_design.
Print Assumptions binary_response_default_design.
Print Assumptions binary_alias_response.
Print Assumptions binary_predictor_design.
Print Assumptions binary_predictor_refused.
Print Assumptions binary_new_common.
Print Assumptions binary_default_new_term.
Print Assumptions binary_num_response_design.
Print Assumptions binary_predictor_default_design.
Print Assumptions design_same_erasure.
Print Assumptions I_braces_design.
Print Assumptions I_braces_design_plus.
Print Assumptions I_var_design.
Print Assumptions var_design.
Print Assumptions I_only_design.
Print Assumptions I_var_new_common.
Print Assumptions OffsetExamples.offset_after_group_refuted.
Print Assumptions OffsetExamples.name_fresh_needed_coding.
Print Assumptions PropExamples.prop_nonnegative_refuted.
Print Assumptions PropExamples.prop_alias_literal_refuted.
Print Assumptions BinaryExamples.binary_default_frozen_refuted.
