(* Non-vacuity examples (all by vm_compute) and assumption audit for DesignStructure / DesignCoding. *)
From Verif Require Import Base Algebra Coding Contrasts Frame Eval Design DesignStructure DesignCoding.
Local Close Scope Qc_scope.
Local Close Scope Q_scope.
Local Open Scope string_scope.
Local Open Scope list_scope.
Local Open Scope nat_scope.

Definition q (z : Z) : cell := Some (qz z).
Definition show_lrow (r : lrow) : list (string * string) := map (fun p => (fst p, cshow (snd p))) r.
Definition show_row (r : list cell) : list string := map cshow r.

(* a: strings; v: integers with a NaN; b: C(b, Treatment("q")) *)
Definition ta : tcomp :=
  TC "a" (CVar (NStr "a") None) KCategoric (PStrs None [Some "x"; Some "y"; Some "z"; Some "y"]) [] false None.
Definition tv : tcomp :=
  TC "v" (CVar (NStr "v") None) KNumeric (PSeries true [q 2; q 3; q 5; None]) [] false None.
Definition tb : tcomp :=
  TC "b" (CVar (NStr "b") None) KCategoric
     (PBox false [Some "p"; Some "r"; Some "q"; Some "r"] (Some (Treatment (Some "q"))) None) [] false None.

Definition get {T} (d : T) (r : res T) : T := match r with Ok x => x | Err _ => d end.
Definition dt0 : dterm := DT "" "" [] [] None.
Definition dc0 : dcomp := DC ta [] None [] None false.

(** A *)
Example ex_combine_kron :
  combine (label_product [["a";"b"];["u";"v";"w"]] ":") (row_kron [q 2; q 3] [q 5; q 7; None])
  = lprod ":" (combine ["a";"b"] [q 2; q 3]) (combine ["u";"v";"w"] [q 5; q 7; None])
  /\ show_lrow (lprod ":" (combine ["a";"b"] [q 2; q 3]) (combine ["u";"v";"w"] [q 5; q 7; None]))
     = [("a:u", "10"); ("a:v", "14"); ("a:w", "nan"); ("b:u", "15"); ("b:v", "21"); ("b:w", "nan")].
Proof. split; [apply combine_kron; reflexivity|vm_compute; reflexivity]. Qed.

Example ex_combine_kron_fold :
  show_lrow (combine (label_product [["a";"b"]; ["u";"v"]; ["s";"t"]] ":")
                     (fold_left row_kron [[q 5; q 7]; [q 1; q (-1)]] [q 2; q 3]))
  = [("a:u:s", "10"); ("a:u:t", "-10"); ("a:v:s", "14"); ("a:v:t", "-14");
     ("b:u:s", "15"); ("b:u:t", "-15"); ("b:v:s", "21"); ("b:v:t", "-21")].
Proof. vm_compute. reflexivity. Qed.

(* column 5 = (1*2 + 0)*2 + 1 picks b, u, t *)
Example ex_mixed_index : mixed_index 1 [0; 1] [2; 2] = 5.
Proof. reflexivity. Qed.

Example ex_lprod_fold_nth_error :
  nth_error (fold_left (lprod ":") [combine ["u";"v"] [q 5; q 7]; combine ["s";"t"] [q 1; q (-1)]]
                       (combine ["a";"b"] [q 2; q 3]))
            (mixed_index 1 [0; 1] [2; 2])
  = Some (fold_left (lmul ":") [("u", q 5); ("t", q (-1))] ("b", q 3)).
Proof.
  apply (lprod_fold_nth_error ":" [combine ["u";"v"] [q 5; q 7]; combine ["s";"t"] [q 1; q (-1)]]
                              (combine ["a";"b"] [q 2; q 3]) 1 [0; 1]).
  - reflexivity.
  - repeat constructor.
  - reflexivity.
Qed.

Definition dt_avb : dterm := get dt0 (set_data_term 4 (TTTerm "a:v:b" [ta; tv; tb]) (SpBool false)).

Example ex_term_labels_rows :
  (dt_labels dt_avb, map show_row (dt_rows dt_avb))
  = (Some ["a[y]:v:b[p]"; "a[y]:v:b[r]"; "a[z]:v:b[p]"; "a[z]:v:b[r]"],
     [["0"; "0"; "0"; "0"]; ["0"; "3"; "0"; "0"]; ["0"; "0"; "0"; "0"]; ["nan"; "nan"; "nan"; "nan"]]).
Proof. vm_compute. reflexivity. Qed.

Lemma plain_ta : plain_comp ta.
Proof. right. repeat split; [exists None; reflexivity|]. intros l H; discriminate H. Qed.
Lemma plain_tv : plain_comp tv.
Proof. left. split; [reflexivity|]. do 2 eexists; reflexivity. Qed.
Lemma plain_tb : plain_comp tb.
Proof. right. repeat split; [eexists; reflexivity|]. intros l H; discriminate H. Qed.

(* the hypotheses of set_data_term_plain_lrow are satisfiable, and its conclusion on row 1 *)
Example ex_set_data_term_plain_lrow :
  exists d0 rest labs,
    dt_comps dt_avb = d0 :: rest /\ dt_labels dt_avb = Some labs /\
    show_lrow (fold_left (lprod ":") (map (comp_lrow 1) rest) (comp_lrow 1 d0))
    = [("a[y]:v:b[p]", "0"); ("a[y]:v:b[r]", "3"); ("a[z]:v:b[p]", "0"); ("a[z]:v:b[r]", "0")] /\
    combine labs (nth 1 (dt_rows dt_avb) [])
    = fold_left (lprod ":") (map (comp_lrow 1) rest) (comp_lrow 1 d0).
Proof.
  assert (H : set_data_term 4 (TTTerm "a:v:b" [ta; tv; tb]) (SpBool false) = Ok dt_avb)
    by (vm_compute; reflexivity).
  destruct (set_data_term_plain_lrow 4 "a:v:b" [ta; tv; tb] (SpBool false) dt_avb
              (Forall_cons _ plain_ta (Forall_cons _ plain_tv (Forall_cons _ plain_tb (Forall_nil _)))) H)
    as (d0 & rest & labs & Hc & Hl & Hrow).
  exists d0, rest, labs. split; [assumption|]. split; [assumption|].
  assert (E : d0 :: rest = dt_comps dt_avb) by (symmetry; assumption).
  vm_compute in E. injection E as -> ->.
  split; [vm_compute; reflexivity|].
  apply Hrow. rewrite Hc. repeat constructor.
Qed.

(** B *)
Example ex_treatment_reduced_row :
  show_lrow (combine (drop_nth 1 ["p";"q";"r"])
                     (map zcell (nth 2 (build 3 2 (treat_entry 1)) (repeat 0%Z 2))))
  = [("p", "0"); ("r", "1")]
  /\ show_lrow (map (fun l => (l, ind "r" l)) (drop_nth 1 ["p";"q";"r"])) = [("p", "0"); ("r", "1")]
  /\ index_of "r" ["p";"q";"r"] = Some 2.
Proof. vm_compute. repeat split; reflexivity. Qed.

Example ex_treatment_full_row :
  show_lrow (combine ["p";"q";"r"] (map zcell (nth 1 (build 3 3 eye_entry) (repeat 0%Z 3))))
  = [("p", "0"); ("q", "1"); ("r", "0")]
  /\ index_of "q" ["p";"q";"r"] = Some 1.
Proof. vm_compute. split; reflexivity. Qed.

Definition dc_b : dcomp := get dc0 (set_data_comp tb false 4).

Example ex_set_data_comp_treatment :
  set_data_comp tb false 4 = Ok dc_b /\
  dc_levels dc_b = ["p";"q";"r"] /\
  dc_labels dc_b = Some ["b[p]"; "b[r]"] /\
  map show_row (dc_rows dc_b) = [["1";"0"]; ["0";"1"]; ["0";"0"]; ["0";"1"]] /\
  map show_row (map (fun ox => map (oind ox) ["p";"r"]) [Some "p"; Some "r"; Some "q"; Some "r"])
  = [["1";"0"]; ["0";"1"]; ["0";"0"]; ["0";"1"]].
Proof. vm_compute. repeat split; reflexivity. Qed.

Example ex_levels_NoDup : NoDup (dc_levels dc_b).
Proof.
  apply (set_data_comp_levels_NoDup tb false 4); [reflexivity|vm_compute; reflexivity|].
  intros l H; discriminate H.
Qed.

(* duplicated declared levels are refused (pd.Categorical(data, categories=levels) raises ValueError);
   accepting them would break "every column holds what its label says" *)
Example ex_duplicate_levels_refused :
  let t := TC "a" (CVar (NStr "a") None) KCategoric (PBox false [Some "u"] None (Some ["u";"u"])) [] false None in
  set_data_comp t false 1 = Err EValue.
Proof. vm_compute. reflexivity. Qed.

(** C *)
Example ex_onehot_kron :
  show_row (row_kron (onehot 3 1) [q 4; q 5]) = ["0";"0";"4";"5";"0";"0"] /\
  show_row (row_kron (onehot 3 1) [q 4; None]) = ["0";"nan";"4";"nan";"0";"nan"].
Proof. vm_compute. split; reflexivity. Qed.

(* (v | b): random slope of v within the groups of b *)
Definition tg_vb : tgterm := TG "v|b" (TTTerm "v" [tv]) [force_categoric tb] "b".
Definition dg0 : dgterm := DG "" "" dt0 [] [] [] [] "".
Definition dg_vb : dgterm := get dg0 (set_data_gterm 4 tg_vb true).

Example ex_set_data_gterm :
  set_data_gterm 4 tg_vb true = Ok dg_vb /\
  dg_groups dg_vb = ["p";"q";"r"] /\
  dg_labels dg_vb = ["v|b[p]"; "v|b[q]"; "v|b[r]"] /\
  map show_row (dg_rows dg_vb) = [["2";"0";"0"]; ["0";"0";"3"]; ["0";"5";"0"]; ["nan";"nan";"nan"]].
Proof. vm_compute. repeat split; reflexivity. Qed.

Definition fd_vb : dcomp := hd dc0 (dg_factor dg_vb).

(* set_data_gterm_block applies: its hypotheses hold for (v|b), and row 1 (group r, number 2 of 3)
   is zero outside the last block *)
Example ex_set_data_gterm_block :
  nth 1 (dg_rows dg_vb) [] = repeat (zcell 0) (2 * 1) ++ [q 3] ++ repeat (zcell 0) ((3 - 2 - 1) * 1).
Proof.
  assert (H : set_data_gterm 4 tg_vb true = Ok dg_vb) by (vm_compute; reflexivity).
  assert (Hf : dg_factor dg_vb = [fd_vb]) by (vm_compute; reflexivity).
  assert (Hnd : NoDup (dc_levels fd_vb)).
  { change (dc_levels fd_vb) with ["p";"q";"r"].
    repeat constructor; simpl; intuition discriminate. }
  destruct (set_data_gterm_block 4 tg_vb true dg_vb (force_categoric tb) fd_vb (Some "q")
              H eq_refl Hf eq_refl eq_refl Hnd) as (num & o & d & Hd & _ & Hrows).
  vm_compute in Hd. injection Hd as _ _ <-.
  destruct (Hrows 1 "r" eq_refl) as (_ & Hclean & _).
  apply (Hclean 2 eq_refl). repeat constructor. discriminate.
Qed.

(** D *)
Example ex_slices :
  slices_of ["1|g"; "x|g"; "1|h"] [3; 3; 2] = [("1|g", 0, 3); ("x|g", 3, 6); ("1|h", 6, 8)].
Proof. reflexivity. Qed.

Example ex_hstack :
  map show_row (hstack [[[q 1]; [q 2]]; [[q 3; q 4]; [q 5; q 6]]] 2) = [["1";"3";"4"]; ["2";"5";"6"]].
Proof. vm_compute. reflexivity. Qed.

Definition tg_1b : tgterm := TG "1|b" TTIntercept [force_categoric tb] "b".
Definition ds_ex : design :=
  Design 4 None [] [get dg0 (set_data_gterm 4 tg_1b true); dg_vb].
Definition new_frame : frame :=
  [("v", ColNum true [q 7; q 8]); ("b", ColStr None [Some "r"; Some "p"])].
Definition ng0 : newgroup := NewGroup [] [] [] false.
Definition ng_ex : newgroup := get ng0 (new_group (DCtx [] (fun x => x)) UError ds_ex new_frame).

Example ex_new_group :
  new_group (DCtx [] (fun x => x)) UError ds_ex new_frame = Ok ng_ex /\
  ng_slices ng_ex = [("1|b", 0, 3); ("v|b", 3, 6)] /\
  map show_row (ng_rows ng_ex) = [["0";"0";"1";"0";"0";"7"]; ["1";"0";"0";"8";"0";"0"]].
Proof. vm_compute. repeat split; reflexivity. Qed.

(** E *)
Example ex_rows_kron_select :
  map show_row (rows_kron (select [true; false; true] [[q 1; q 2]; [q 3; q 4]; [q 5; q 6]])
                          (select [true; false; true] [[q 1]; [q 10]; [q 100]]))
  = [["1";"2"]; ["500";"600"]].
Proof. vm_compute. reflexivity. Qed.

(** Assumptions *)
Print Assumptions combine_kron.
Print Assumptions combine_kron_fold.
Print Assumptions label_product_length_fold.
Print Assumptions lprod_fold_nth_error.
Print Assumptions lprod_fold_index_onto.
Print Assumptions set_data_term_lrow.
Print Assumptions set_data_term_plain_lrow.
Print Assumptions treatment_code_row.
Print Assumptions treatment_reduced_row.
Print Assumptions treatment_full_row.
Print Assumptions set_data_comp_treatment.
Print Assumptions set_data_comp_treatment_lrow.
Print Assumptions set_data_comp_levels_NoDup.
Print Assumptions onehot_kron_nan.
Print Assumptions onehot_kron.
Print Assumptions set_data_gterm_lrow.
Print Assumptions set_data_gterm_block.
Print Assumptions slices_contiguous.
Print Assumptions new_group_slices.
Print Assumptions new_group_slices_contiguous.
Print Assumptions hstack_length.
Print Assumptions hstack_nth.
Print Assumptions hstack_width.
Print Assumptions rows_kron_select.
Print Assumptions fold_rows_kron_select.
Print Assumptions hstack_select.
Print Assumptions code_rows_select.
Print Assumptions ex_set_data_term_plain_lrow.
Print Assumptions ex_set_data_gterm_block.
