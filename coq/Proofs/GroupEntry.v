(* C05, bridge, list side: the CELLS of a built group-specific term, one by one.

   For a built group-specific term (e|g) with one Treatment-coded grouping factor
   ([set_data_gterm nrows tg flag = Ok dg], the situation of [set_data_gterm_block]):

     gidx groups d i     the number of the group of observation i, as the model computes it: the
                         position of the label d[i] in [dg_groups dg]; [length groups] (out of range)
                         when the label is missing or is not a group (declared levels that omit it)
     ecell dg i j        cell j of row i of the effect expression e
     gcell dg i k        cell k of row i of the term

     gterm_entry         gcell dg i (l * p + j) = if l = gidx i then ecell dg i j
                                                   else nanzero (ecell dg i j)
                         for all l < G, j < p = width of effect row i   (NaN * 0 = NaN: [nanzero])
     gterm_entry_clean   if rows 0..n-1 of the term are G*p wide and hold no NaN then
                         ecell dg i j = Some q  and
                         gcell dg i (l * p + j) = Some (if l = gidx i then q else 0)

   LinAlg/GroupBridge.v turns the second statement into  M_of dg = gblock_lm grp E. *)
From Verif Require Import Base Tokens Lazy Algebra Coding Contrasts Frame Eval Design Scanner Parser Driver.
From Verif Require Import DesignStructure DesignCoding.
From Coq Require Import Lia.
Local Close Scope Qc_scope.
Local Close Scope Q_scope.
Local Open Scope string_scope.
Local Open Scope list_scope.
Local Open Scope nat_scope.

(* ------------------------------------------------------------------------------------------ *)
(** * Lists *)

Lemma nth_concat_blocks {T} (f : nat -> list T) p (dflt : T) m : forall s l j,
  (forall k, s <= k < s + m -> List.length (f k) = p) -> l < m -> j < p ->
  nth (l * p + j) (List.concat (map f (seq s m))) dflt = nth j (f (s + l)) dflt.
Proof.
  induction m as [|m IH]; intros s l j H Hl Hj; [lia|].
  cbn [seq map List.concat]. destruct l as [|l].
  - rewrite app_nth1 by (rewrite H by lia; lia). rewrite Nat.add_0_r. reflexivity.
  - rewrite app_nth2 by (rewrite H by lia; simpl; lia).
    rewrite H by lia. replace (S l * p + j - p) with (l * p + j) by (simpl; lia).
    rewrite IH; [|intros k Hk; apply H; lia|lia|assumption]. f_equal. f_equal. lia.
Qed.

Lemma nth_Forall {T} (P : T -> Prop) l k d : Forall P l -> k < List.length l -> P (nth k l d).
Proof. intros H Hk. rewrite Forall_forall in H. apply H. apply nth_In. assumption. Qed.

(* ------------------------------------------------------------------------------------------ *)
(** * The group number of an observation *)

Definition gidx (groups : list string) (d : list (option string)) (i : nat) : nat :=
  match nth i d None with
  | Some x => match index_of x groups with Some k => k | None => List.length groups end
  | None => List.length groups
  end.

Definition ecell (dg : dgterm) (i j : nat) : cell := nth j (nth i (dt_rows (dg_expr dg)) []) None.
Definition gcell (dg : dgterm) (i k : nat) : cell := nth k (nth i (dg_rows dg) []) None.

Lemma gidx_le groups d i : gidx groups d i <= List.length groups.
Proof.
  unfold gidx. destruct (nth i d None) as [x|]; [|lia].
  destruct (index_of x groups) as [k|] eqn:E; [|lia].
  destruct (index_of_Some _ _ _ "" E). lia.
Qed.

(* a group number in range is the position of the observation's label *)
Lemma gidx_lt groups d i :
  gidx groups d i < List.length groups ->
  exists x, nth i d None = Some x /\ index_of x groups = Some (gidx groups d i) /\
            nth (gidx groups d i) groups "" = x.
Proof.
  unfold gidx. destruct (nth i d None) as [x|]; [|lia].
  destruct (index_of x groups) as [k|] eqn:E; [|lia]. intros _.
  exists x. destruct (index_of_Some _ _ _ "" E). auto.
Qed.

(* the indicator row of an observation is the one-hot row at its group number; an out-of-range
   number (missing or unseen label) gives the zero row *)
Lemma oind_row_onehot lv ox :
  NoDup lv ->
  map (oind ox) lv
  = onehot (List.length lv)
      (match ox with
       | Some x => match index_of x lv with Some k => k | None => List.length lv end
       | None => List.length lv end).
Proof.
  intros Hnd.
  assert (Z : onehot (List.length lv) (List.length lv) = repeat (zcell 0) (List.length lv)).
  { unfold onehot. transitivity (repeat (zcell 0) (List.length (seq 0 (List.length lv))));
      [|rewrite seq_length; reflexivity]. apply map_const_repeat.
    intros j Hj. apply in_seq in Hj. unfold eye_entry.
    destruct (Nat.eqb_spec (List.length lv) j); [lia|reflexivity]. }
  destruct ox as [x|]; cbn [oind].
  - destruct (index_of x lv) as [k|] eqn:E.
    + apply ind_row_onehot; assumption.
    + rewrite Z. apply ind_row_unseen. apply index_of_None. assumption.
  - rewrite Z. apply map_const_repeat. reflexivity.
Qed.

(* ------------------------------------------------------------------------------------------ *)
(** * The cells of a group-specific term *)

(** Every row of the term is the row-wise Kronecker product of the one-hot row at the group number
    of the observation with the effect row (all rows: missing and unseen labels included). *)
Theorem set_data_gterm_row nrows g spans dg c fd ref :
  set_data_gterm nrows g spans = Ok dg ->
  tg_factor g = [c] -> dg_factor dg = [fd] ->
  tc_kind c = KCategoric -> comp_encoding c = Treatment ref -> NoDup (dc_levels fd) ->
  exists num o d,
    categoric_data (tc_value c) = Ok (num, o, d) /\
    dg_groups dg = dc_levels fd /\
    List.length (dg_rows dg) <= List.length d /\
    forall i, i < List.length d ->
      nth i (dg_rows dg) []
      = row_kron (onehot (List.length (dg_groups dg)) (gidx (dg_groups dg) d i))
                 (nth i (dt_rows (dg_expr dg)) []).
Proof.
  intros H Hc Hfd Hk Henc Hnd.
  destruct (set_data_gterm_inv _ _ _ _ H) as (_ & Hfs & (glabs & Hg & Hgroups) & Hrows & _).
  rewrite Hc, Hfd in Hfs. apply mapM_ok in Hfs. inversion Hfs as [|? ? ? ? Hset _]; subst.
  rewrite Hfd in Hg. simpl in Hg. destruct (dc_contrast fd) as [cm|] eqn:Hcm; [|discriminate Hg].
  simpl in Hg. injection Hg as <-.
  destruct (set_data_comp_treatment c true nrows fd cm ref Hk Hset Hcm Henc Hnd)
    as (num & o & d & Hd & _ & Hr & Hfull & _).
  specialize (Hfull eq_refl).
  assert (HG : dg_groups dg = dc_levels fd) by (rewrite Hgroups, Hfull; reflexivity).
  exists num, o, d. split; [assumption|]. split; [assumption|]. split.
  - rewrite Hrows, Hfd. cbn [factor_rows map fold_left]. unfold rows_kron.
    rewrite zip_with_length, Hr, map_length. lia.
  - intros i Hi. rewrite Hrows, rows_kron_nth, Hfd. cbn [factor_rows map fold_left]. f_equal.
    rewrite Hr, Hfull, HG.
    set (F := fun ox => map (oind ox) (dc_levels fd)).
    rewrite (nth_indep _ [] (F None)) by (rewrite map_length; assumption).
    rewrite map_nth. unfold F. rewrite (oind_row_onehot _ _ Hnd). reflexivity.
Qed.

(** The cells, with [cmul] as it is (0 * NaN = NaN). *)
Theorem gterm_entry nrows g spans dg c fd ref :
  set_data_gterm nrows g spans = Ok dg ->
  tg_factor g = [c] -> dg_factor dg = [fd] ->
  tc_kind c = KCategoric -> comp_encoding c = Treatment ref -> NoDup (dc_levels fd) ->
  exists num o d,
    categoric_data (tc_value c) = Ok (num, o, d) /\
    dg_groups dg = dc_levels fd /\
    List.length (dg_rows dg) <= List.length d /\
    forall i, i < List.length d ->
      let p := List.length (nth i (dt_rows (dg_expr dg)) []) in
      List.length (nth i (dg_rows dg) []) = List.length (dg_groups dg) * p /\
      forall l j, l < List.length (dg_groups dg) -> j < p ->
        gcell dg i (l * p + j)
        = if l =? gidx (dg_groups dg) d i then ecell dg i j else nanzero (ecell dg i j).
Proof.
  intros H Hc Hfd Hk Henc Hnd.
  destruct (set_data_gterm_row _ _ _ _ _ _ _ H Hc Hfd Hk Henc Hnd) as (num & o & d & Hd & HG & Hlen & Hrow).
  exists num, o, d. do 3 (split; [assumption|]). intros i Hi p. split.
  - rewrite (Hrow i Hi), row_kron_length. unfold onehot. rewrite map_length, seq_length. reflexivity.
  - intros l j Hl Hj. unfold gcell, ecell. rewrite (Hrow i Hi), onehot_kron_nan.
    set (e := nth i (dt_rows (dg_expr dg)) []).
    rewrite (@nth_concat_blocks cell _ p None _ 0 l j); [| |assumption|assumption].
    + cbn [Nat.add]. destruct (l =? gidx (dg_groups dg) d i); [reflexivity|].
      change (j < List.length e) in Hj. clearbody e.
      rewrite (nth_indep _ None (nanzero None)) by (rewrite map_length; exact Hj).
      apply map_nth.
    + intros k _. destruct (k =? gidx (dg_groups dg) d i); [reflexivity|apply map_length].
Qed.

(** The cells of a NaN-free block of n rows and G * p columns: the effect cell in the slots of the
    observation's own group, an exact zero elsewhere. *)
Theorem gterm_entry_clean nrows g spans dg c fd ref :
  set_data_gterm nrows g spans = Ok dg ->
  tg_factor g = [c] -> dg_factor dg = [fd] ->
  tc_kind c = KCategoric -> comp_encoding c = Treatment ref -> NoDup (dc_levels fd) ->
  exists num o d,
    categoric_data (tc_value c) = Ok (num, o, d) /\
    dg_groups dg = dc_levels fd /\
    forall n p,
      (forall i, i < n -> List.length (nth i (dg_rows dg) []) = List.length (dg_groups dg) * p /\
                          Forall (fun x => x <> None) (nth i (dg_rows dg) [])) ->
      forall i l j, i < n -> l < List.length (dg_groups dg) -> j < p ->
        exists q, ecell dg i j = Some q /\
                  gcell dg i (l * p + j) = Some (if l =? gidx (dg_groups dg) d i then q else 0%Qc).
Proof.
  intros H Hc Hfd Hk Henc Hnd.
  destruct (gterm_entry _ _ _ _ _ _ _ H Hc Hfd Hk Henc Hnd) as (num & o & d & Hd & HG & Hlen & Hent).
  exists num, o, d. do 2 (split; [assumption|]). intros n p Hclean i l j Hi Hl Hj.
  destruct (Hclean i Hi) as [Hw Hsome].
  set (G := List.length (dg_groups dg)) in *.
  assert (Hk' : l * p + j < G * p) by nia.
  assert (Hid : i < List.length d).
  { apply Nat.lt_le_trans with (List.length (dg_rows dg)); [|assumption].
    destruct (Nat.lt_ge_cases i (List.length (dg_rows dg))) as [|Hge]; [assumption|].
    rewrite (nth_overflow _ _ Hge) in Hw. simpl in Hw. lia. }
  destruct (Hent i Hid) as [Hw' Hcells]. fold G in Hw', Hcells.
  assert (Hp : List.length (nth i (dt_rows (dg_expr dg)) []) = p) by nia.
  rewrite Hp in Hcells. specialize (Hcells l j Hl Hj).
  assert (Hne : gcell dg i (l * p + j) <> None).
  { unfold gcell. apply nth_Forall; [assumption|]. rewrite Hw. assumption. }
  destruct (ecell dg i j) as [q|] eqn:Eq.
  - exists q. split; [reflexivity|]. rewrite Hcells.
    destruct (l =? gidx (dg_groups dg) d i); reflexivity.
  - exfalso. apply Hne. rewrite Hcells. destruct (l =? gidx (dg_groups dg) d i); reflexivity.
Qed.

Print Assumptions set_data_gterm_row.
Print Assumptions gterm_entry.
Print Assumptions gterm_entry_clean.

(* ------------------------------------------------------------------------------------------ *)
(** * Two terms over the same grouping factor; the intercept effect *)

(** Terms built over the same factor components share the coded factor and the groups. *)
Lemma gterm_same_factor nrows g spans dg g' spans' dg' :
  set_data_gterm nrows g spans = Ok dg -> set_data_gterm nrows g' spans' = Ok dg' ->
  tg_factor g = tg_factor g' ->
  dg_factor dg = dg_factor dg' /\ dg_groups dg = dg_groups dg'.
Proof.
  intros H H' E.
  destruct (set_data_gterm_inv _ _ _ _ H) as (_ & Hfs & (glabs & Hg & Hgroups) & _).
  destruct (set_data_gterm_inv _ _ _ _ H') as (_ & Hfs' & (glabs' & Hg' & Hgroups') & _).
  rewrite E, Hfs' in Hfs. injection Hfs as Hf. split; [symmetry; assumption|].
  rewrite <- Hf, Hg' in Hg. injection Hg as <-. congruence.
Qed.

(** The effect cells of (1|g): the constant 1 on the rows the term has. *)
Lemma gterm_intercept_ecell nrows g spans dg i :
  set_data_gterm nrows g spans = Ok dg -> tg_expr g = TTIntercept ->
  forall q, ecell dg i 0 = Some q -> q = 1%Qc.
Proof.
  intros H E q. destruct (set_data_gterm_inv _ _ _ _ H) as (He & _).
  rewrite E in He. cbn [set_data_term] in He. unfold ecell. injection He as <-. cbn [dt_rows].
  destruct (Nat.lt_ge_cases i nrows) as [Hi|Hi].
  - rewrite (nth_indep _ [] [zcell 1]) by (rewrite repeat_length; assumption).
    rewrite nth_repeat. cbn [nth]. unfold zcell. intros [= <-]. reflexivity.
  - rewrite (nth_overflow (repeat [zcell 1] nrows) []) by (rewrite repeat_length; assumption).
    discriminate.
Qed.

Print Assumptions gterm_same_factor.
Print Assumptions gterm_intercept_ecell.

(* ------------------------------------------------------------------------------------------ *)
(** * The hypotheses, packaged *)

(** [dg] is the built term of a group-specific term whose grouping factor is ONE Treatment-coded
    categoric component with duplicate-free levels, and [d] is the column of group labels of the
    observations.  (The levels are duplicate-free for every accepted input except an ordered plain
    column that declares a level twice: [set_data_comp_levels_NoDup_box].) *)
Definition treatment_gterm nrows g spans dg (d : list (option string)) : Prop :=
  exists c fd ref num o,
    set_data_gterm nrows g spans = Ok dg /\
    tg_factor g = [c] /\ dg_factor dg = [fd] /\
    tc_kind c = KCategoric /\ comp_encoding c = Treatment ref /\ NoDup (dc_levels fd) /\
    categoric_data (tc_value c) = Ok (num, o, d).

(** rows 0..n-1 of the block are m wide and hold no NaN *)
Definition clean_block (rows : list (list cell)) (n m : nat) : Prop :=
  forall i, i < n -> List.length (nth i rows []) = m /\ Forall (fun x => x <> None) (nth i rows []).

Theorem treatment_gterm_entry nrows g spans dg d n p :
  treatment_gterm nrows g spans dg d ->
  clean_block (dg_rows dg) n (List.length (dg_groups dg) * p) ->
  forall i l j, i < n -> l < List.length (dg_groups dg) -> j < p ->
    exists q, ecell dg i j = Some q /\
              gcell dg i (l * p + j) = Some (if l =? gidx (dg_groups dg) d i then q else 0%Qc).
Proof.
  intros (c & fd & ref & num & o & H & Hc & Hfd & Hk & Henc & Hnd & Hd) Hclean.
  destruct (gterm_entry_clean _ _ _ _ _ _ _ H Hc Hfd Hk Henc Hnd) as (num' & o' & d' & Hd' & _ & Hent).
  rewrite Hd in Hd'. injection Hd' as _ _ <-. apply Hent. assumption.
Qed.

Print Assumptions treatment_gterm_entry.

(* ------------------------------------------------------------------------------------------ *)
(** * A concrete run: y ~ x + (x|g), six observations, two groups *)
Module GroupEntryExample.
  Definition qc (z : Z) : cell := Some (qz z).
  Definition exD : frame :=
    [("y", ColNum false [qc 1; qc 2; qc 3; qc 4; qc 5; qc 6]);
     ("x", ColNum true [qc 0; qc 1; qc 2; qc 3; qc 4; qc 5]);
     ("g", ColStr None [Some "u"; Some "u"; Some "u"; Some "v"; Some "v"; Some "v"])].
  Definition ex_cx : dctx := DCtx [] (fun x => x).
  Definition ex_src : string := "y ~ x + (x|g)".
  Definition ex_e : expr :=
    Eval vm_compute in match parse_string ex_src with Ok e => e | Err _ => ELiteral LNone None end.
  Definition ex_ds : design :=
    Eval vm_compute in
      match design_matrices ex_cx ex_e exD NaDrop with Ok d => d | Err _ => Design 0 None [] [] end.
  (* the typed group-specific terms, as [eval_model] computes them on the way *)
  Definition ex_tgs : list tgterm := Eval vm_compute in
    match describe ex_e with
    | Ok m => match prepare_data exD m NaDrop with
              | Ok d => match mapM (set_type_gterm ex_cx d) (groups m) with Ok l => l | Err _ => [] end
              | Err _ => [] end
    | Err _ => [] end.
  Definition dg0 : dgterm := DG "" "" (DT "" "" [] [] None) [] [] [] [] "".
  Definition tg0 : tgterm := TG "" TTIntercept [] "".
  Definition dg1 : dgterm := nth 0 (ds_group ex_ds) dg0.   (* (1|g) *)
  Definition dgx : dgterm := nth 1 (ds_group ex_ds) dg0.   (* (x|g) *)
  Definition tg1 : tgterm := nth 0 ex_tgs tg0.
  Definition tgx : tgterm := nth 1 ex_tgs tg0.
  Definition exg : list (option string) := [Some "u"; Some "u"; Some "u"; Some "v"; Some "v"; Some "v"].

  Lemma ex_parsed : parse_string ex_src = Ok ex_e.
  Proof. vm_compute. reflexivity. Qed.
  Lemma ex_built : design_matrices ex_cx ex_e exD NaDrop = Ok ex_ds.
  Proof. vm_compute. reflexivity. Qed.
  Lemma ex_groups : ds_group ex_ds = [dg1; dgx] /\ map dg_name (ds_group ex_ds) = ["1|g"; "x|g"].
  Proof. split; reflexivity. Qed.

  Lemma ex_rows :
    map (map cshow) (dg_rows dg1) = [["1";"0"]; ["1";"0"]; ["1";"0"]; ["0";"1"]; ["0";"1"]; ["0";"1"]] /\
    map (map cshow) (dg_rows dgx) = [["0";"0"]; ["1";"0"]; ["2";"0"]; ["0";"3"]; ["0";"4"]; ["0";"5"]] /\
    dg_groups dg1 = ["u"; "v"] /\ dg_groups dgx = ["u"; "v"] /\
    map (gidx ["u"; "v"] exg) (seq 0 6) = [0; 0; 0; 1; 1; 1].
  Proof. vm_compute. repeat split; reflexivity. Qed.

  Lemma ex_nodup : NoDup ["u"; "v"].
  Proof. repeat constructor; simpl; intuition discriminate. Qed.

  Ltac treat_tac :=
    unfold treatment_gterm; do 5 eexists;
    split; [vm_compute; reflexivity|]; split; [vm_compute; reflexivity|];
    split; [vm_compute; reflexivity|]; split; [vm_compute; reflexivity|];
    split; [vm_compute; reflexivity|]; split; [vm_compute; exact ex_nodup|vm_compute; reflexivity].

  (* the hypotheses of the entry theorem hold of both terms *)
  Lemma ex_treatment1 : treatment_gterm 6 tg1 true dg1 exg.
  Proof. treat_tac. Qed.
  Lemma ex_treatmentx : treatment_gterm 6 tgx false dgx exg.
  Proof. treat_tac. Qed.
  Lemma ex_intercept : tg_expr tg1 = TTIntercept /\ tg_factor tg1 = tg_factor tgx.
  Proof. split; reflexivity. Qed.

  Ltac clean_tac :=
    intros i Hi; do 6 (destruct i as [|i]; [split; [reflexivity|repeat constructor; discriminate]|]); lia.
  Lemma ex_clean1 : clean_block (dg_rows dg1) 6 (List.length (dg_groups dg1) * 1).
  Proof. clean_tac. Qed.
  Lemma ex_cleanx : clean_block (dg_rows dgx) 6 (List.length (dg_groups dgx) * 1).
  Proof. clean_tac. Qed.

  Lemma ex_seen i : i < 6 -> gidx (dg_groups dgx) exg i < List.length (dg_groups dgx).
  Proof. intros Hi. do 6 (destruct i as [|i]; [vm_compute; lia|]). lia. Qed.

  (* the entry theorem, used: cell 1 = 1*1+0 of row 4 of (x|g) is the x of row 4, cell 0 is 0 *)
  Example ex_entry :
    gcell dgx 4 (1 * 1 + 0) = ecell dgx 4 0 /\ ecell dgx 4 0 = qc 4 /\ gcell dgx 4 (0 * 1 + 0) = qc 0.
  Proof.
    destruct (treatment_gterm_entry 6 tgx false dgx exg 6 1 ex_treatmentx ex_cleanx 4 1 0)
      as (q & Hq & Hg); [lia|vm_compute; lia|lia|].
    destruct (treatment_gterm_entry 6 tgx false dgx exg 6 1 ex_treatmentx ex_cleanx 4 0 0)
      as (q' & Hq' & Hg'); [lia|vm_compute; lia|lia|].
    rewrite Hg, Hg', Hq. change (gidx (dg_groups dgx) exg 4) with 1. cbn [Nat.eqb].
    split; [reflexivity|]. split; [|reflexivity]. rewrite <- Hq. reflexivity.
  Qed.

  (* x is not constant within either group *)
  Lemma ex_varies l : l < 2 ->
    exists i i' q q', i < 6 /\ i' < 6 /\ gidx (dg_groups dgx) exg i = l /\ gidx (dg_groups dgx) exg i' = l /\
                      ecell dgx i 0 = Some q /\ ecell dgx i' 0 = Some q' /\ q <> q'.
  Proof.
    intros Hl. destruct l as [|[|l]]; [| |lia].
    - exists 0, 1, (qz 0), (qz 1). repeat split; try lia; try reflexivity. discriminate.
    - exists 3, 4, (qz 3), (qz 4). repeat split; try lia; try reflexivity. discriminate.
  Qed.
End GroupEntryExample.
