(* Theorems about the scanner model (Model/Scanner.v): faithfulness of scanning a rendered token
   list, irrelevance of whitespace between tokens, rejection of malformed input, fuel. *)
From Verif Require Import Base Tokens Scanner.
From Coq Require Import Lia.
Local Open Scope char_scope.

(* ------------------------------------------------------------------------------------------ *)
(** * Vocabulary *)

(** source text of a token, as a character list *)
Definition lx (t : token) : chars := list_ascii_of_string (lexeme t).

Definition ws_char (c : ascii) : bool := mem_ascii c whitespace.
Definition ident_char (x : ascii) : bool := is_alnum x || mem_ascii x ident_extra.
Definition nonquote (x : ascii) : bool := negb (mem_ascii x quotes).
Definition nonbq (x : ascii) : bool := negb (Ascii.eqb x "`").

Lemma lx_str k cs l : lx (Tok k (str cs) l) = cs.
Proof. unfold lx, str. cbn [lexeme]. apply list_ascii_of_string_of_list_ascii. Qed.

Lemma str_lx t : str (lx t) = lexeme t.
Proof. unfold lx, str. apply string_of_list_ascii_of_string. Qed.

Lemma str_inj a b : str a = str b -> a = b.
Proof.
  intros H. rewrite <- (list_ascii_of_string_of_list_ascii a), <- (list_ascii_of_string_of_list_ascii b).
  unfold str in H. now rewrite H.
Qed.

(* ------------------------------------------------------------------------------------------ *)
(** * Character classes: the order of the tests in [scan_token] never matters, the classes are
      pairwise disjoint.  All by exhaustive computation over the 256 characters. *)

Ltac all_ascii c := destruct c as [[] [] [] [] [] [] [] []].

Lemma quote_cases c : mem_ascii c quotes = true -> c = "'" \/ c = """".
Proof. all_ascii c; vm_compute; intros H; try discriminate H; auto. Qed.

Lemma alpha_class c :
  is_alpha c = true ->
  mem_ascii c quotes = false /\ Ascii.eqb c "`" = false /\ Ascii.eqb c "." = false /\
  lookup_single c single_chars = None /\ lookup_double c double_chars = None /\
  mem_ascii c whitespace = false /\ is_digit c = false.
Proof. all_ascii c; vm_compute; intros H; try discriminate H; repeat split. Qed.

Lemma digit_class c :
  is_digit c = true ->
  mem_ascii c quotes = false /\ Ascii.eqb c "`" = false /\ Ascii.eqb c "." = false /\
  lookup_single c single_chars = None /\ lookup_double c double_chars = None /\
  mem_ascii c whitespace = false.
Proof. all_ascii c; vm_compute; intros H; try discriminate H; repeat split. Qed.

Lemma ws_class c :
  mem_ascii c whitespace = true ->
  mem_ascii c quotes = false /\ Ascii.eqb c "`" = false /\ Ascii.eqb c "." = false /\
  lookup_single c single_chars = None /\ lookup_double c double_chars = None.
Proof. all_ascii c; vm_compute; intros H; try discriminate H; repeat split. Qed.

Lemma single_class c k :
  lookup_single c single_chars = Some k ->
  mem_ascii c quotes = false /\ Ascii.eqb c "`" = false /\ Ascii.eqb c "." = false.
Proof. all_ascii c; vm_compute; intros H; try discriminate H; repeat split. Qed.

Lemma double_class c x :
  lookup_double c double_chars = Some x ->
  mem_ascii c quotes = false /\ Ascii.eqb c "`" = false /\ Ascii.eqb c "." = false /\
  lookup_single c single_chars = None.
Proof. all_ascii c; vm_compute; intros H; try discriminate H; repeat split. Qed.

Lemma ws_not_ident c : ws_char c = true -> ident_char c = false /\ is_digit c = false.
Proof. all_ascii c; vm_compute; intros H; try discriminate H; repeat split. Qed.

Lemma ws_not_op c : ws_char c = true ->
  Ascii.eqb c "*" = false /\ Ascii.eqb c "/" = false /\ Ascii.eqb c "=" = false /\ Ascii.eqb c "." = false.
Proof. all_ascii c; vm_compute; intros H; try discriminate H; repeat split. Qed.

(* ------------------------------------------------------------------------------------------ *)
(** * [span] *)

Definition head_fails (p : ascii -> bool) (b : chars) : bool :=
  match b with x :: _ => negb (p x) | [] => true end.

Lemma span_app p a b :
  forallb p a = true -> head_fails p b = true -> span p (a ++ b) = (a, b).
Proof.
  intros Ha Hb. induction a as [|x a IH]; cbn [app].
  - destruct b as [|y b]; [reflexivity|]. cbn [span]. cbn [head_fails] in Hb.
    apply negb_true_iff in Hb. now rewrite Hb.
  - cbn [forallb] in Ha. apply andb_true_iff in Ha as [Hx Ha]. cbn [span]. rewrite Hx, (IH Ha).
    reflexivity.
Qed.

Lemma span_all p a : forallb p a = true -> span p a = (a, []).
Proof. intros H. rewrite <- (app_nil_r a) at 1. now apply span_app. Qed.

Lemma span_spec p cs a b :
  span p cs = (a, b) -> cs = a ++ b /\ forallb p a = true /\ head_fails p b = true.
Proof.
  revert a b. induction cs as [|c cs IH]; intros a b H; cbn [span] in H.
  - inversion H; subst. repeat split.
  - destruct (p c) eqn:Hc.
    + destruct (span p cs) as [a' b'] eqn:Hs. inversion H; subst. destruct (IH a' b eq_refl) as (-> & Ha & Hb).
      cbn [forallb app]. rewrite Hc, Ha. repeat split. exact Hb.
    + inversion H; subst. cbn [head_fails forallb app]. rewrite Hc. repeat split.
Qed.

Lemma span_length p cs a b : span p cs = (a, b) -> (List.length b <= List.length cs)%nat.
Proof. intros H. apply span_spec in H as (-> & _). rewrite app_length. lia. Qed.

(* ------------------------------------------------------------------------------------------ *)
(** * Lexeme classes *)

(** The tokens the scanner can produce, with their source text and literal value. *)
Inductive wf_tok : token -> Prop :=
| WIdent c body :
    is_alpha c = true -> forallb ident_char body = true ->
    lookup_pylit (str (c :: body)) python_literals = None ->
    wf_tok (mk IDENTIFIER (str (c :: body)))
| WPyLit name v :
    lookup_pylit name python_literals = Some v ->
    wf_tok (Tok PYTHON_LITERAL name (Some v))
| WInt c ds :
    is_digit c = true -> forallb is_digit ds = true ->
    wf_tok (Tok NUMBER (str (c :: ds)) (Some (LInt (digits_val 0 (c :: ds)))))
| WFloat ip f fs :          (* "12.5" (ip = "12") and ".5" (ip empty) *)
    forallb is_digit ip = true -> is_digit f = true -> forallb is_digit fs = true ->
    wf_tok (Tok NUMBER (str (ip ++ "." :: f :: fs)) (Some (LFloat (str ip) (str (f :: fs)))))
| WString q1 body q2 :      (* the closing quote may be of either style *)
    mem_ascii q1 quotes = true -> forallb nonquote body = true -> mem_ascii q2 quotes = true ->
    wf_tok (Tok STRING (str (q1 :: body ++ [q2])) (Some (LStr (str body))))
| WBackquote body :
    forallb nonbq body = true ->
    wf_tok (mk BQNAME (str ("`" :: body ++ ["`"])))
| WPeriod : wf_tok (mk PERIOD ".")
| WSingle c k :
    lookup_single c single_chars = Some k -> wf_tok (mk k (str [c]))
| WDouble1 c c2 k2 k1 :
    lookup_double c double_chars = Some (c2, k2, k1) -> wf_tok (mk k1 (str [c]))
| WDouble2 c c2 k2 k1 :
    lookup_double c double_chars = Some (c2, k2, k1) -> wf_tok (mk k2 (str [c; c2])).

(** The same as a boolean. *)
Definition chars_eqb (a b : chars) : bool := list_eqb Ascii.eqb a b.
Definition kind_opt_eqb (a : option kind) (k : kind) : bool :=
  match a with Some k' => kind_eqb k' k | None => false end.
Definition lit_none (o : option lit) : bool := match o with None => true | Some _ => false end.
Definition lit_eqb (a b : lit) : bool :=
  match a, b with
  | LInt x, LInt y => Z.eqb x y
  | LFloat a1 a2, LFloat b1 b2 => String.eqb a1 b1 && String.eqb a2 b2
  | LStr x, LStr y => String.eqb x y
  | LBool x, LBool y => Bool.eqb x y
  | LNone, LNone => true
  | _, _ => false
  end.

Definition wf_lexeme (t : token) : bool :=
  let cs := lx t in
  match tkind t with
  | EOF => false
  | IDENTIFIER =>
      match cs with c :: body => is_alpha c && forallb ident_char body | [] => false end
      && match lookup_pylit (lexeme t) python_literals with None => true | Some _ => false end
      && lit_none (literal t)
  | PYTHON_LITERAL =>
      match lookup_pylit (lexeme t) python_literals, literal t with
      | Some v, Some v' => lit_eqb v v'
      | _, _ => false
      end
  | NUMBER =>
      match literal t with
      | Some (LInt z) =>
          match cs with c :: ds => is_digit c && forallb is_digit ds | [] => false end
          && Z.eqb z (digits_val 0 cs)
      | Some (LFloat ip fp) =>
          let ip := list_ascii_of_string ip in
          let fp := list_ascii_of_string fp in
          forallb is_digit ip && forallb is_digit fp && negb (Nat.eqb (List.length fp) 0)
          && chars_eqb cs (ip ++ "." :: fp)
      | _ => false
      end
  | STRING =>
      match literal t, cs with
      | Some (LStr s), q1 :: _ =>
          let body := list_ascii_of_string s in
          mem_ascii q1 quotes && forallb nonquote body
          && existsb (fun q2 => chars_eqb cs (q1 :: body ++ [q2])) quotes
      | _, _ => false
      end
  | BQNAME =>
      lit_none (literal t)
      && match cs with
         | c :: r =>
             Ascii.eqb c "`" && negb (Nat.eqb (List.length r) 0) && forallb nonbq (removelast r)
             && Ascii.eqb (last r " ") "`"
         | [] => false
         end
  | PERIOD => lit_none (literal t) && chars_eqb cs ["."]
  | k =>
      lit_none (literal t)
      && match cs with
         | [c] =>
             kind_opt_eqb (lookup_single c single_chars) k
             || match lookup_double c double_chars with
                | Some (_, _, k1) => kind_eqb k1 k
                | None => false
                end
         | [c; d] =>
             match lookup_double c double_chars with
             | Some (c2, k2, _) => Ascii.eqb d c2 && kind_eqb k2 k
             | None => false
             end
         | _ => false
         end
  end.

(** What may follow a token without changing how it is scanned. *)
Definition next_is (p : ascii -> bool) (rest : chars) : bool :=
  match rest with x :: _ => p x | [] => false end.

Definition can_follow (t : token) (rest : chars) : bool :=
  match tkind t with
  | IDENTIFIER | PYTHON_LITERAL => negb (next_is ident_char rest)
  | NUMBER =>
      match literal t with
      | Some (LInt _) =>
          (* not a digit, and not "." followed by a digit *)
          negb (next_is is_digit rest)
          && negb (next_is (fun x => Ascii.eqb x ".") rest && next_is is_digit (tl rest))
      | _ => negb (next_is is_digit rest)
      end
  | PERIOD => negb (next_is is_digit rest)
  | STAR => negb (next_is (fun x => Ascii.eqb x "*") rest)
  | SLASH => negb (next_is (fun x => Ascii.eqb x "/") rest)
  | BANG | EQUAL | LESS | GREATER => negb (next_is (fun x => Ascii.eqb x "=") rest)
  | _ => true
  end.

Lemma head_fails_next p rest : head_fails p rest = negb (next_is p rest).
Proof. destruct rest; reflexivity. Qed.

Lemma can_follow_nil t : can_follow t [] = true.
Proof. unfold can_follow. destruct (tkind t); try reflexivity. destruct (literal t) as [[]|]; reflexivity. Qed.

Lemma can_follow_ws t w rest : ws_char w = true -> can_follow t (w :: rest) = true.
Proof.
  intros H. destruct (ws_not_ident w H) as (Hi & Hd). destruct (ws_not_op w H) as (H1 & H2 & H3 & H4).
  unfold can_follow. destruct (tkind t); try reflexivity; cbn [next_is]; rewrite ?Hi, ?Hd, ?H1, ?H2, ?H3; try reflexivity.
  destruct (literal t) as [[]|]; cbn [next_is]; rewrite ?Hd, ?H4; reflexivity.
Qed.

(* ------------------------------------------------------------------------------------------ *)
(** * One call of [scan_token], class by class *)

Lemma scan_token_word c body rest :
  is_alpha c = true -> forallb ident_char body = true -> next_is ident_char rest = false ->
  scan_token c (body ++ rest) =
  match lookup_pylit (str (c :: body)) python_literals with
  | Some v => Ok (Some (Tok PYTHON_LITERAL (str (c :: body)) (Some v)), rest)
  | None => Ok (Some (mk IDENTIFIER (str (c :: body))), rest)
  end.
Proof.
  intros Hc Hb Hr. destruct (alpha_class c Hc) as (H1 & H2 & H3 & H4 & H5 & H6 & H7).
  unfold scan_token. rewrite H1, H2, H3, H4, H5, H6, H7, Hc.
  rewrite (span_app (fun x => is_alnum x || mem_ascii x ident_extra) body rest Hb)
    by (rewrite head_fails_next; fold ident_char; now rewrite Hr).
  cbv beta iota. destruct (lookup_pylit (str (c :: body)) python_literals); reflexivity.
Qed.

Lemma scan_token_int c ds rest :
  is_digit c = true -> forallb is_digit ds = true ->
  next_is is_digit rest = false ->
  next_is (fun x => Ascii.eqb x ".") rest && next_is is_digit (tl rest) = false ->
  scan_token c (ds ++ rest) =
  Ok (Some (Tok NUMBER (str (c :: ds)) (Some (LInt (digits_val 0 (c :: ds))))), rest).
Proof.
  intros Hc Hd Hr1 Hr2. destruct (digit_class c Hc) as (H1 & H2 & H3 & H4 & H5 & H6).
  unfold scan_token. rewrite H1, H2, H3, H4, H5, H6, Hc.
  rewrite (span_app is_digit ds rest Hd) by (rewrite head_fails_next; now rewrite Hr1).
  cbv beta iota. destruct rest as [|dot [|d r]]; try reflexivity.
  cbn [next_is tl] in Hr2. rewrite Hr2. reflexivity.
Qed.

Lemma scan_token_float c ds f fs rest :
  is_digit c = true -> forallb is_digit ds = true -> is_digit f = true -> forallb is_digit fs = true ->
  next_is is_digit rest = false ->
  scan_token c ((ds ++ "." :: f :: fs) ++ rest) =
  Ok (Some (Tok NUMBER (str (c :: ds ++ "." :: f :: fs)) (Some (LFloat (str (c :: ds)) (str (f :: fs))))), rest).
Proof.
  intros Hc Hd Hf Hfs Hr. destruct (digit_class c Hc) as (H1 & H2 & H3 & H4 & H5 & H6).
  unfold scan_token. rewrite H1, H2, H3, H4, H5, H6, Hc.
  rewrite <- app_assoc. rewrite (span_app is_digit ds _ Hd) by reflexivity.
  cbv beta iota. cbn [app]. rewrite Ascii.eqb_refl, Hf. cbn [andb tl].
  change (f :: fs ++ rest) with ((f :: fs) ++ rest).
  rewrite (span_app is_digit (f :: fs) rest) by
    (try (rewrite head_fails_next; now rewrite Hr); cbn [forallb]; now rewrite Hf, Hfs).
  reflexivity.
Qed.

Lemma scan_token_dotfloat f fs rest :
  is_digit f = true -> forallb is_digit fs = true -> next_is is_digit rest = false ->
  scan_token "." ((f :: fs) ++ rest) =
  Ok (Some (Tok NUMBER (str ("." :: f :: fs)) (Some (LFloat (str []) (str (f :: fs))))), rest).
Proof.
  intros Hf Hfs Hr. unfold scan_token.
  change (mem_ascii "." quotes) with false. change (Ascii.eqb "." "`") with false.
  change (Ascii.eqb "." ".") with true. cbv beta iota. cbn [app]. rewrite Hf.
  change (f :: fs ++ rest) with ((f :: fs) ++ rest).
  rewrite (span_app is_digit (f :: fs) rest) by
    (try (rewrite head_fails_next; now rewrite Hr); cbn [forallb]; now rewrite Hf, Hfs).
  reflexivity.
Qed.

Lemma scan_token_period rest :
  next_is is_digit rest = false -> scan_token "." rest = Ok (Some (mk PERIOD "."), rest).
Proof.
  intros Hr. unfold scan_token.
  change (mem_ascii "." quotes) with false. change (Ascii.eqb "." "`") with false.
  change (Ascii.eqb "." ".") with true. cbv beta iota.
  destruct rest as [|d r]; [reflexivity|]. cbn [next_is] in Hr. now rewrite Hr.
Qed.

Lemma scan_token_string q1 body q2 rest :
  mem_ascii q1 quotes = true -> forallb nonquote body = true -> mem_ascii q2 quotes = true ->
  scan_token q1 ((body ++ [q2]) ++ rest) =
  Ok (Some (Tok STRING (str (q1 :: body ++ [q2])) (Some (LStr (str body)))), rest).
Proof.
  intros H1 Hb H2. unfold scan_token. rewrite H1. rewrite <- app_assoc. cbn [app].
  rewrite (span_app (fun x => negb (mem_ascii x quotes)) body (q2 :: rest) Hb)
    by (cbn [head_fails]; now rewrite H2).
  reflexivity.
Qed.

Lemma scan_token_backquote body rest :
  forallb nonbq body = true ->
  scan_token "`" ((body ++ ["`"]) ++ rest) = Ok (Some (mk BQNAME (str ("`" :: body ++ ["`"]))), rest).
Proof.
  intros Hb. unfold scan_token.
  change (mem_ascii "`" quotes) with false. change (Ascii.eqb "`" "`") with true. cbv beta iota.
  rewrite <- app_assoc. cbn [app].
  rewrite (span_app (fun x => negb (Ascii.eqb x "`")) body ("`" :: rest) Hb) by reflexivity.
  reflexivity.
Qed.

Lemma scan_token_single c k rest :
  lookup_single c single_chars = Some k -> scan_token c rest = Ok (Some (mk k (str [c])), rest).
Proof.
  intros H. destruct (single_class c k H) as (H1 & H2 & H3).
  unfold scan_token. now rewrite H1, H2, H3, H.
Qed.

Lemma scan_token_double1 c c2 k2 k1 rest :
  lookup_double c double_chars = Some (c2, k2, k1) -> next_is (fun x => Ascii.eqb x c2) rest = false ->
  scan_token c rest = Ok (Some (mk k1 (str [c])), rest).
Proof.
  intros H Hr. destruct (double_class c _ H) as (H1 & H2 & H3 & H4).
  unfold scan_token. rewrite H1, H2, H3, H4, H. destruct rest as [|d r]; [reflexivity|].
  cbn [next_is] in Hr. now rewrite Hr.
Qed.

Lemma scan_token_double2 c c2 k2 k1 rest :
  lookup_double c double_chars = Some (c2, k2, k1) ->
  scan_token c (c2 :: rest) = Ok (Some (mk k2 (str [c; c2])), rest).
Proof.
  intros H. destruct (double_class c _ H) as (H1 & H2 & H3 & H4).
  unfold scan_token. now rewrite H1, H2, H3, H4, H, Ascii.eqb_refl.
Qed.

(** the second character and the kinds of the six entries of [double_chars] *)
Lemma double_cases c c2 k2 k1 :
  lookup_double c double_chars = Some (c2, k2, k1) ->
  (c = "/" /\ c2 = "/" /\ k2 = SLASH_SLASH /\ k1 = SLASH) \/
  (c = "*" /\ c2 = "*" /\ k2 = STAR_STAR /\ k1 = STAR) \/
  (c = "!" /\ c2 = "=" /\ k2 = BANG_EQUAL /\ k1 = BANG) \/
  (c = "=" /\ c2 = "=" /\ k2 = EQUAL_EQUAL /\ k1 = EQUAL) \/
  (c = "<" /\ c2 = "=" /\ k2 = LESS_EQUAL /\ k1 = LESS) \/
  (c = ">" /\ c2 = "=" /\ k2 = GREATER_EQUAL /\ k1 = GREATER).
Proof.
  all_ascii c; vm_compute; intros H; try discriminate H; inversion H; subst; tauto.
Qed.

(* ------------------------------------------------------------------------------------------ *)
(** * Deliverable 1: scanning the lexeme of a well-formed token gives the token back *)

Lemma negb_true_false b : negb b = true -> b = false.
Proof. now destruct b. Qed.

Theorem scan_token_wf_tok t c body rest :
  wf_tok t -> lx t = c :: body -> can_follow t rest = true ->
  scan_token c (body ++ rest) = Ok (Some t, rest).
Proof.
  intros Hwf. revert c body.
  destruct Hwf as [c0 b0 Hc Hb Hl | name v Hl | c0 ds Hc Hd | ip f fs Hip Hf Hfs
                  | q1 b0 q2 H1 Hb H2 | b0 Hb | | c0 k Hk | c0 c2 k2 k1 Hk | c0 c2 k2 k1 Hk];
    intros c body Hlx Hcf; unfold mk in *; try (rewrite lx_str in Hlx; inversion Hlx; subst c body; clear Hlx).
  - (* identifier *)
    unfold can_follow in Hcf; cbn [tkind] in Hcf. apply negb_true_false in Hcf.
    rewrite (scan_token_word c0 b0 rest Hc Hb Hcf), Hl. reflexivity.
  - (* python literal *)
    unfold can_follow in Hcf; cbn [tkind] in Hcf. apply negb_true_false in Hcf.
    assert (Hname : (name = "True" \/ name = "False" \/ name = "None")%string).
    { cbn [lookup_pylit python_literals] in Hl.
      destruct (String.eqb name "True") eqn:E1; [apply String.eqb_eq in E1; auto|].
      destruct (String.eqb name "False") eqn:E2; [apply String.eqb_eq in E2; auto|].
      destruct (String.eqb name "None") eqn:E3; [apply String.eqb_eq in E3; auto|]. discriminate. }
    destruct Hname as [ -> | [ -> | -> ] ]; cbv in Hlx; inversion Hlx; subst c body; clear Hlx;
      cbv in Hl; inversion Hl; subst v; clear Hl.
    + exact (scan_token_word "T" ["r";"u";"e"] rest eq_refl eq_refl Hcf).
    + exact (scan_token_word "F" ["a";"l";"s";"e"] rest eq_refl eq_refl Hcf).
    + exact (scan_token_word "N" ["o";"n";"e"] rest eq_refl eq_refl Hcf).
  - (* integer *)
    unfold can_follow in Hcf; cbn [tkind literal] in Hcf. apply andb_true_iff in Hcf as [Ha Hb].
    apply scan_token_int; auto using negb_true_false.
  - (* float *)
    unfold can_follow in Hcf; cbn [tkind literal] in Hcf. apply negb_true_false in Hcf.
    rewrite lx_str in Hlx. destruct ip as [|c0 ds]; cbn [app] in *; inversion Hlx; subst c body.
    + now apply scan_token_dotfloat.
    + cbn [forallb] in Hip. apply andb_true_iff in Hip as [Hc Hd]. now apply scan_token_float.
  - (* string *) now apply scan_token_string.
  - (* backquoted name *) now apply scan_token_backquote.
  - (* period *)
    cbv in Hlx. inversion Hlx; subst c body. unfold can_follow in Hcf; cbn [tkind] in Hcf.
    apply negb_true_false in Hcf. now apply scan_token_period.
  - (* single character *) now apply scan_token_single.
  - (* first character of a pair, alone *)
    cbn [app]. apply (scan_token_double1 c0 c2 k2 k1 rest Hk).
    unfold can_follow in Hcf; cbn [tkind] in Hcf.
    destruct (double_cases _ _ _ _ Hk) as [H|[H|[H|[H|[H|H]]]]]; destruct H as (-> & -> & -> & ->);
      now apply negb_true_false in Hcf.
  - (* two-character operator *) cbn [app]. now apply (scan_token_double2 c0 c2 k2 k1 rest).
Qed.

(** ** The boolean [wf_lexeme] and the inductive [wf_tok] coincide *)

Lemma chars_eqb_eq a b : chars_eqb a b = true <-> a = b.
Proof.
  unfold chars_eqb. revert b. induction a as [|x a IH]; destruct b as [|y b]; cbn [list_eqb]; split; intros H;
    try reflexivity; try discriminate H.
  - apply andb_true_iff in H as [H1 H2]. apply Ascii.eqb_eq in H1. apply IH in H2. now subst.
  - inversion H; subst. rewrite Ascii.eqb_refl. now apply IH.
Qed.

Lemma kind_eqb_eq a b : kind_eqb a b = true <-> a = b.
Proof. unfold kind_eqb. destruct (kind_eq_dec a b); split; intros; auto; discriminate. Qed.

Lemma lit_eqb_eq a b : lit_eqb a b = true <-> a = b.
Proof.
  destruct a, b; cbn [lit_eqb]; split; intros H; try discriminate H; try reflexivity.
  - apply Z.eqb_eq in H. now subst.
  - inversion H. apply Z.eqb_refl.
  - apply andb_true_iff in H as [H1 H2]. apply String.eqb_eq in H1, H2. now subst.
  - inversion H. now rewrite !String.eqb_refl.
  - apply String.eqb_eq in H. now subst.
  - inversion H. apply String.eqb_refl.
  - apply Bool.eqb_prop in H. now subst.
  - inversion H. apply Bool.eqb_reflx.
Qed.

Lemma lit_none_eq o : lit_none o = true <-> o = None.
Proof. destruct o; cbn; split; intros H; try discriminate; reflexivity. Qed.

Lemma mem_ascii_in c l : mem_ascii c l = true <-> In c l.
Proof.
  unfold mem_ascii. rewrite existsb_exists. split.
  - intros (x & Hin & Hx). apply Ascii.eqb_eq in Hx. now subst.
  - intros H. exists c. split; [exact H | apply Ascii.eqb_refl].
Qed.

Definition default_wf (k : kind) (cs : chars) (o : option lit) : bool :=
  lit_none o
  && match cs with
     | [c] =>
         kind_opt_eqb (lookup_single c single_chars) k
         || match lookup_double c double_chars with
            | Some (_, _, k1) => kind_eqb k1 k
            | None => false
            end
     | [c; d] =>
         match lookup_double c double_chars with
         | Some (c2, k2, _) => Ascii.eqb d c2 && kind_eqb k2 k
         | None => false
         end
     | _ => false
     end.

Lemma default_sound k cs o : default_wf k cs o = true -> wf_tok (Tok k (str cs) o).
Proof.
  unfold default_wf. intros H. apply andb_true_iff in H as [Ho H]. apply lit_none_eq in Ho. subst o.
  destruct cs as [|c [|d [|e r]]]; try discriminate H.
  - apply orb_true_iff in H as [H|H].
    + unfold kind_opt_eqb in H. destruct (lookup_single c single_chars) as [k'|] eqn:E; [|discriminate].
      apply kind_eqb_eq in H. subst k'. now apply WSingle.
    + destruct (lookup_double c double_chars) as [[[c2 k2] k1]|] eqn:E; [|discriminate].
      apply kind_eqb_eq in H. subst k1. now apply (WDouble1 c c2 k2 k).
  - destruct (lookup_double c double_chars) as [[[c2 k2] k1]|] eqn:E; [|discriminate].
    apply andb_true_iff in H as [H1 H2]. apply Ascii.eqb_eq in H1. apply kind_eqb_eq in H2. subst.
    now apply (WDouble2 c c2 k k1).
Qed.

Lemma wf_lexeme_sound t : wf_lexeme t = true -> wf_tok t.
Proof.
  destruct t as [k l o]. unfold wf_lexeme. cbn [tkind lexeme literal].
  assert (Hl : l = str (lx (Tok k l o))) by (symmetry; apply str_lx).
  remember (lx (Tok k l o)) as cs eqn:Hcs. clear Hcs. subst l.
  destruct k; intros H; try discriminate H; try (apply default_sound; exact H).
  - (* PERIOD *)
    apply andb_true_iff in H as [Ho H]. apply lit_none_eq in Ho. apply chars_eqb_eq in H. subst. apply WPeriod.
  - (* NUMBER *)
    destruct o as [[z|ip fp| | |]|]; try discriminate H.
    + apply andb_true_iff in H as [H Hz]. apply Z.eqb_eq in Hz. subst z.
      destruct cs as [|c ds]; [discriminate|]. apply andb_true_iff in H as [Hc Hd]. now apply WInt.
    + apply andb_true_iff in H as [H Heq]. apply andb_true_iff in H as [H Hne].
      apply andb_true_iff in H as [Hip Hfp]. apply chars_eqb_eq in Heq. subst cs.
      destruct (list_ascii_of_string fp) as [|f fs] eqn:Efp; [discriminate Hne|].
      cbn [forallb] in Hfp. apply andb_true_iff in Hfp as [Hf Hfs].
      rewrite <- (string_of_list_ascii_of_string ip) at 2.
      rewrite <- (string_of_list_ascii_of_string fp), Efp.
      now apply WFloat.
  - (* IDENTIFIER *)
    apply andb_true_iff in H as [H Ho]. apply lit_none_eq in Ho. subst o.
    apply andb_true_iff in H as [H Hl]. destruct cs as [|c body]; [discriminate|].
    apply andb_true_iff in H as [Hc Hb].
    destruct (lookup_pylit (str (c :: body)) python_literals) eqn:E; [discriminate|]. now apply WIdent.
  - (* PYTHON_LITERAL *)
    destruct (lookup_pylit (str cs) python_literals) as [v|] eqn:E; [|discriminate].
    destruct o as [v'|]; [|discriminate]. apply lit_eqb_eq in H. subst v'. now apply WPyLit.
  - (* STRING *)
    destruct o as [[| |s| |]|]; try discriminate H. destruct cs as [|q1 r] eqn:Ecs; [discriminate|].
    apply andb_true_iff in H as [H Hex]. apply andb_true_iff in H as [H1 Hb].
    apply existsb_exists in Hex as (q2 & Hin & Heq). apply chars_eqb_eq in Heq. rewrite Heq.
    remember (list_ascii_of_string s) as body eqn:Eb.
    assert (Hs : s = str body) by (subst body; symmetry; apply string_of_list_ascii_of_string).
    rewrite Hs. apply WString; auto. now apply mem_ascii_in.
  - (* BQNAME *)
    apply andb_true_iff in H as [Ho H]. apply lit_none_eq in Ho. subst o.
    destruct cs as [|c r]; [discriminate|]. apply andb_true_iff in H as [H Hlast].
    apply andb_true_iff in H as [H Hb]. apply andb_true_iff in H as [Hc Hne].
    apply Ascii.eqb_eq in Hc, Hlast. subst c.
    assert (Hr : r <> []) by (destruct r; [discriminate Hne | discriminate]).
    rewrite (app_removelast_last " " Hr), Hlast. now apply WBackquote.
Qed.

Lemma default_complete k cs :
  (match k with
   | LEFT_PAREN | RIGHT_PAREN | LEFT_BRACKET | RIGHT_BRACKET | LEFT_BRACE | RIGHT_BRACE | COMMA | PLUS
   | MINUS | SLASH | SLASH_SLASH | STAR | STAR_STAR | BANG | BANG_EQUAL | EQUAL | EQUAL_EQUAL | LESS
   | LESS_EQUAL | GREATER | GREATER_EQUAL | MODULO | TILDE | COLON | PIPE => true
   | _ => false end) = true ->
  wf_lexeme (mk k (str cs)) = default_wf k cs None.
Proof.
  intros H. unfold wf_lexeme, mk. rewrite lx_str. cbn [tkind literal].
  destruct k; try discriminate H; reflexivity.
Qed.

Lemma wf_lexeme_complete t : wf_tok t -> wf_lexeme t = true.
Proof.
  intros H. destruct H as [c0 b0 Hc Hb Hl | name v Hl | c0 ds Hc Hd | ip f fs Hip Hf Hfs
                  | q1 b0 q2 H1 Hb H2 | b0 Hb | | c0 k Hk | c0 c2 k2 k1 Hk | c0 c2 k2 k1 Hk].
  - unfold wf_lexeme, mk. rewrite lx_str. cbn [tkind lexeme literal]. now rewrite Hc, Hb, Hl.
  - unfold wf_lexeme. cbn [tkind lexeme literal]. rewrite Hl. now apply lit_eqb_eq.
  - unfold wf_lexeme. rewrite lx_str. cbn [tkind lexeme literal]. rewrite Hc, Hd. cbn [andb]. apply Z.eqb_refl.
  - unfold wf_lexeme. rewrite lx_str. cbn [tkind lexeme literal]. unfold str.
    rewrite !list_ascii_of_string_of_list_ascii. cbn [forallb List.length Nat.eqb negb].
    rewrite Hip, Hf, Hfs. cbn [andb]. now apply chars_eqb_eq.
  - unfold wf_lexeme. rewrite lx_str. cbn [tkind lexeme literal]. unfold str at 1.
    rewrite list_ascii_of_string_of_list_ascii, H1, Hb. cbn [andb].
    apply existsb_exists. exists q2. split; [now apply mem_ascii_in | ].
    unfold str. rewrite list_ascii_of_string_of_list_ascii. now apply chars_eqb_eq.
  - unfold wf_lexeme, mk. rewrite lx_str. cbn [tkind lexeme literal lit_none andb].
    rewrite removelast_last, last_last, Hb, app_length. cbn [List.length].
    replace (List.length b0 + 1)%nat with (S (List.length b0)) by lia. reflexivity.
  - reflexivity.
  - revert Hk. all_ascii c0; vm_compute; intros Hk; try discriminate Hk; inversion Hk; subst k; reflexivity.
  - destruct (double_cases _ _ _ _ Hk) as [H|[H|[H|[H|[H|H]]]]]; destruct H as (-> & -> & -> & ->); reflexivity.
  - destruct (double_cases _ _ _ _ Hk) as [H|[H|[H|[H|[H|H]]]]]; destruct H as (-> & -> & -> & ->); reflexivity.
Qed.

Theorem wf_lexeme_iff t : wf_lexeme t = true <-> wf_tok t.
Proof. split; [apply wf_lexeme_sound | apply wf_lexeme_complete]. Qed.

Lemma wf_tok_nonempty t : wf_tok t -> exists c body, lx t = c :: body.
Proof.
  intros H. destruct H as [c0 b0 Hc Hb Hl | name v Hl | c0 ds Hc Hd | ip f fs Hip Hf Hfs
                  | q1 b0 q2 H1 Hb H2 | b0 Hb | | c0 k Hk | c0 c2 k2 k1 Hk | c0 c2 k2 k1 Hk];
    unfold mk; rewrite ?lx_str; eauto.
  - cbn [lookup_pylit python_literals] in Hl.
    destruct (String.eqb name "True") eqn:E1; [apply String.eqb_eq in E1; subst; cbv; eauto|].
    destruct (String.eqb name "False") eqn:E2; [apply String.eqb_eq in E2; subst; cbv; eauto|].
    destruct (String.eqb name "None") eqn:E3; [apply String.eqb_eq in E3; subst; cbv; eauto|]. discriminate.
  - destruct ip; cbn [app]; eauto.
  - cbv; eauto.
Qed.

(** Deliverable 1, with the boolean predicate. *)
Theorem scan_token_lexeme t c body rest :
  wf_lexeme t = true -> lx t = c :: body -> can_follow t rest = true ->
  scan_token c (body ++ rest) = Ok (Some t, rest).
Proof. intros H. apply scan_token_wf_tok. now apply wf_lexeme_sound. Qed.

(* ------------------------------------------------------------------------------------------ *)
(** * Deliverable 5: fuel.  Every call of [scan_token] consumes the character it is given. *)

Theorem scan_token_consumes c rest ot r :
  scan_token c rest = Ok (ot, r) -> (List.length r <= List.length rest)%nat.
Proof.
  unfold scan_token.
  destruct (mem_ascii c quotes).
  { destruct (span _ rest) as [body r0] eqn:Es. apply span_length in Es.
    destruct r0 as [|q r']; intros H; inversion H; subst. cbn [List.length] in Es. lia. }
  destruct (Ascii.eqb c "`").
  { destruct (span _ rest) as [body r0] eqn:Es. apply span_length in Es.
    destruct r0 as [|q r']; intros H; inversion H; subst. cbn [List.length] in Es. lia. }
  destruct (Ascii.eqb c ".").
  { destruct rest as [|d rest']; [intros H; inversion H; subst; lia|].
    destruct (is_digit d).
    - destruct (span is_digit (d :: rest')) as [ds r0] eqn:Es. apply span_length in Es.
      intros H; inversion H; subst. exact Es.
    - intros H; inversion H; subst; lia. }
  destruct (lookup_single c single_chars). { intros H; inversion H; subst; lia. }
  destruct (lookup_double c double_chars) as [[[c2 k2] k1]|].
  { destruct rest as [|d r0]; [|destruct (Ascii.eqb d c2)]; intros H; inversion H; subst;
      cbn [List.length]; lia. }
  destruct (mem_ascii c whitespace). { intros H; inversion H; subst; lia. }
  destruct (is_digit c).
  { destruct (span is_digit rest) as [ds r0] eqn:Es. apply span_length in Es.
    destruct r0 as [|dot [|d r1]]; try (intros H; inversion H; subst; lia).
    destruct (Ascii.eqb dot "." && is_digit d).
    - destruct (span is_digit (tl (dot :: d :: r1))) as [fs r'] eqn:Es2. apply span_length in Es2.
      cbn [tl List.length] in *. intros H; inversion H; subst. lia.
    - intros H; inversion H; subst; lia. }
  destruct (is_alpha c).
  { destruct (span _ rest) as [body r0] eqn:Es. apply span_length in Es.
    cbv zeta. destruct (lookup_pylit _ _); intros H; inversion H; subst; lia. }
  discriminate.
Qed.

(** the only errors of [scan_token] *)
Lemma scan_token_errors c rest e : scan_token c rest = Err e -> e = EScan \/ e = EIndex.
Proof.
  unfold scan_token.
  repeat match goal with
         | |- context [match ?x with _ => _ end] => destruct x
         end; intros H; inversion H; auto.
Qed.

Theorem scan_fuel_enough_gen f : forall cs,
  (List.length cs <= f)%nat -> scan_loop f cs <> Err OutOfFuel.
Proof.
  induction f as [|f IH]; intros [|c rest] Hlen; cbn [scan_loop]; try discriminate.
  - cbn [List.length] in Hlen. lia.
  - destruct (scan_token c rest) as [[ot r]|e] eqn:E; cbn [bind].
    + apply scan_token_consumes in E. cbn [List.length] in Hlen.
      specialize (IH r ltac:(lia)). destruct (scan_loop f r) as [ts|e']; cbn [bind]; [discriminate|].
      intros H; inversion H; subst. now apply IH.
    + apply scan_token_errors in E. destruct E; subst; discriminate.
Qed.

Theorem scan_fuel_enough cs : scan_loop (List.length cs) cs <> Err OutOfFuel.
Proof. now apply scan_fuel_enough_gen. Qed.

(** any sufficient fuel gives the same result *)
Theorem scan_loop_fuel f1 : forall f2 cs,
  (List.length cs <= f1)%nat -> (List.length cs <= f2)%nat -> scan_loop f1 cs = scan_loop f2 cs.
Proof.
  induction f1 as [|f1 IH]; intros f2 [|c rest] H1 H2; cbn [List.length] in *; try lia;
    try (destruct f2; reflexivity).
  destruct f2 as [|f2]; [lia|]. cbn [scan_loop].
  destruct (scan_token c rest) as [[ot r]|e] eqn:E; cbn [bind]; [|reflexivity].
  apply scan_token_consumes in E. rewrite (IH f2 r) by lia. reflexivity.
Qed.

(* ------------------------------------------------------------------------------------------ *)
(** * Deliverable 2: whitespace is skipped *)

Theorem scan_whitespace_token w rest : ws_char w = true -> scan_token w rest = Ok (None, rest).
Proof.
  intros H. destruct (ws_class w H) as (H1 & H2 & H3 & H4 & H5). unfold ws_char in H.
  unfold scan_token. now rewrite H1, H2, H3, H4, H5, H.
Qed.

Lemma scan_loop_ws_step w rest f : ws_char w = true -> scan_loop (S f) (w :: rest) = scan_loop f rest.
Proof.
  intros H. cbn [scan_loop]. rewrite (scan_whitespace_token w rest H). cbn [bind].
  destruct (scan_loop f rest); reflexivity.
Qed.

Theorem scan_whitespace_skip ws cs f :
  forallb ws_char ws = true -> scan_loop (List.length ws + f) (ws ++ cs) = scan_loop f cs.
Proof.
  induction ws as [|c ws IH]; intros H; [reflexivity|]. cbn [forallb] in H.
  apply andb_true_iff in H as [Hc Hws]. cbn [List.length app Nat.add].
  rewrite scan_loop_ws_step by exact Hc. now apply IH.
Qed.

(** ... for any fuel that is large enough *)
Corollary scan_whitespace_skip_fuel ws cs f :
  forallb ws_char ws = true -> (List.length (ws ++ cs) <= f)%nat ->
  scan_loop f (ws ++ cs) = scan_loop (List.length cs) cs.
Proof.
  intros H Hf. rewrite app_length in Hf.
  rewrite (scan_loop_fuel f (List.length ws + List.length cs)) by (rewrite ?app_length; lia).
  now apply scan_whitespace_skip.
Qed.

Corollary scan_chars_leading_ws b ws cs :
  forallb ws_char ws = true -> cs <> [] -> scan_chars b (ws ++ cs) = scan_chars b cs.
Proof.
  intros Hws Hne. unfold scan_chars. rewrite app_length, (scan_whitespace_skip ws cs _ Hws).
  destruct cs as [|c cs]; [contradiction|]. destruct ws; reflexivity.
Qed.

(* ------------------------------------------------------------------------------------------ *)
(** * Deliverable 3: scanning a rendered token list *)

(** [render ts ws]: the lexemes of [ts] interleaved with the whitespace strings [ws]
    ([length ts + 1] of them: before the first, between consecutive ones, after the last). *)
Fixpoint render (ts : list token) (ws : list chars) {struct ws} : chars :=
  match ws with
  | [] => []
  | w :: ws' => w ++ match ts with
                     | [] => []
                     | t :: ts' => lx t ++ render ts' ws'
                     end
  end.

Definition valid_ws (ts : list token) (ws : list chars) : Prop :=
  List.length ws = S (List.length ts) /\ forallb (forallb ws_char) ws = true.

(** every token can be followed by what comes after it in the rendering (the next gap, then the next
    lexeme, ...).  [can_follow] looks at most two characters ahead, and a whitespace character can
    follow anything ([can_follow_ws]), so this only constrains EMPTY gaps: see [separated_gap]. *)
Fixpoint separated (ts : list token) (ws : list chars) : bool :=
  match ts, ws with
  | t :: ts', _ :: ws' => can_follow t (render ts' ws') && separated ts' ws'
  | _, _ => true
  end.

(** the reading of [separated] asked for: a non-empty gap always separates; an empty gap needs
    [can_follow] on what comes next *)
Lemma separated_cons t ts w0 w ws :
  forallb ws_char w = true ->
  separated (t :: ts) (w0 :: w :: ws) =
  (match w with
   | _ :: _ => true
   | [] => can_follow t (match ts with [] => [] | t' :: ts' => lx t' ++ render ts' ws end)
   end) && separated ts (w :: ws).
Proof.
  intros Hw. cbn [separated render]. destruct w as [|x w]; [reflexivity|].
  cbn [forallb] in Hw. apply andb_true_iff in Hw as [Hx _]. cbn [app].
  now rewrite (can_follow_ws t x _ Hx).
Qed.

(** if every gap between two tokens is non-empty the list is separated *)
Fixpoint inner_gaps_nonempty (ts : list token) (ws : list chars) : bool :=
  match ts, ws with
  | _ :: ((_ :: _) as ts'), _ :: ((w :: _) as ws') =>
      negb (Nat.eqb (List.length w) 0) && inner_gaps_nonempty ts' ws'
  | _, _ => true
  end.

Lemma separated_gap ts : forall ws,
  valid_ws ts ws -> inner_gaps_nonempty ts ws = true -> separated ts ws = true.
Proof.
  induction ts as [|t ts IH]; intros ws [Hlen Hws] Hg; [reflexivity|].
  destruct ws as [|w0 [|w ws]]; try discriminate Hlen. cbn [forallb] in Hws.
  apply andb_true_iff in Hws as [_ Hws]. pose proof Hws as Hws'. cbn [forallb] in Hws.
  apply andb_true_iff in Hws as [Hw _].
  rewrite separated_cons by exact Hw. destruct ts as [|t' ts'].
  - destruct ws; [|discriminate Hlen]. cbn [render separated]. rewrite andb_true_r.
    destruct w as [|x w]; [apply can_follow_nil | reflexivity].
  - cbn [inner_gaps_nonempty] in Hg. apply andb_true_iff in Hg as [Hne Hg].
    destruct w as [|x w]; [discriminate Hne|]. cbn [andb]. apply IH; [|exact Hg].
    split; [cbn [List.length] in *; lia | exact Hws'].
Qed.

Lemma scan_loop_nil f : scan_loop f [] = Ok [].
Proof. destruct f; reflexivity. Qed.

Lemma scan_loop_skip ws cs f :
  forallb ws_char ws = true -> (List.length ws <= f)%nat ->
  scan_loop f (ws ++ cs) = scan_loop (f - List.length ws) cs.
Proof.
  intros H Hf. replace f with (List.length ws + (f - List.length ws))%nat at 1 by lia.
  now apply scan_whitespace_skip.
Qed.

Lemma scan_loop_render ts : forall ws f,
  forallb wf_lexeme ts = true -> valid_ws ts ws -> separated ts ws = true ->
  (List.length (render ts ws) <= f)%nat ->
  scan_loop f (render ts ws) = Ok ts.
Proof.
  induction ts as [|t ts IH]; intros ws f Hwf [Hlen Hws] Hsep Hf.
  - destruct ws as [|w [|]]; try discriminate Hlen. cbn [render] in *. rewrite app_nil_r in *.
    cbn [forallb] in Hws. apply andb_true_iff in Hws as [Hw _].
    rewrite <- (app_nil_r w), scan_loop_skip by assumption. apply scan_loop_nil.
  - destruct ws as [|w ws]; [discriminate Hlen|]. cbn [render] in *.
    cbn [forallb] in Hws, Hwf. apply andb_true_iff in Hws as [Hw Hws]. apply andb_true_iff in Hwf as [Ht Hwf].
    cbn [separated] in Hsep. apply andb_true_iff in Hsep as [Hcf Hsep].
    rewrite app_length in Hf. rewrite scan_loop_skip by (assumption || lia).
    destruct (wf_tok_nonempty t (wf_lexeme_sound t Ht)) as (c & body & Hlx). rewrite Hlx in *.
    cbn [app List.length] in *. rewrite app_length in Hf.
    destruct (f - List.length w)%nat as [|f'] eqn:Ef; [lia|]. cbn [scan_loop].
    rewrite (scan_token_lexeme t c body _ Ht Hlx Hcf). cbn [bind].
    rewrite (IH ws f' Hwf); [reflexivity| |exact Hsep|lia].
    split; [cbn [List.length] in Hlen; lia | exact Hws].
Qed.

(** the part of [scan_chars] after the main loop *)
Definition finish (add_intercept : bool) (ts0 : list token) : res (list token) :=
  let ts := ts0 ++ [eof_tok] in
  let n := List.length (filter is_tilde ts) in
  if (1 <? n)%nat then Err EScan
  else if add_intercept then
    if (n =? 0)%nat then Ok (one_tok :: plus_tok :: ts) else Ok (insert_after_tilde ts)
  else Ok ts.

Lemma scan_chars_finish b cs :
  cs <> [] -> scan_chars b cs = (do ts0 <- scan_loop (List.length cs) cs; finish b ts0).
Proof. destruct cs; [contradiction | reflexivity]. Qed.

Definition tilde_count (ts : list token) : nat := List.length (filter is_tilde ts).

Lemma tilde_count_eof ts : List.length (filter is_tilde (ts ++ [eof_tok])) = tilde_count ts.
Proof. unfold tilde_count. rewrite filter_app, app_length. cbn. lia. Qed.

Lemma insert_after_tilde_app ts tl :
  (1 <= tilde_count ts)%nat -> insert_after_tilde (ts ++ tl) = insert_after_tilde ts ++ tl.
Proof.
  unfold tilde_count. induction ts as [|t ts IH]; cbn [filter List.length]; intros H; [lia|].
  cbn [app insert_after_tilde]. destruct (is_tilde t); [reflexivity|]. cbn [app]. now rewrite IH.
Qed.

(** where the implicit intercept goes: right after the (first) "~" *)
Lemma insert_after_tilde_split l t r :
  forallb (fun x => negb (is_tilde x)) l = true -> is_tilde t = true ->
  insert_after_tilde (l ++ t :: r) = l ++ t :: one_tok :: plus_tok :: r.
Proof.
  intros Hl Ht. induction l as [|x l IH]; cbn [app insert_after_tilde].
  - now rewrite Ht.
  - cbn [forallb] in Hl. apply andb_true_iff in Hl as [Hx Hl]. apply negb_true_iff in Hx.
    rewrite Hx. now rewrite IH.
Qed.

Lemma finish_spec b ts :
  finish b ts =
  if (1 <? tilde_count ts)%nat then Err EScan
  else if b then
    if (tilde_count ts =? 0)%nat then Ok (one_tok :: plus_tok :: ts ++ [eof_tok])
    else Ok (insert_after_tilde ts ++ [eof_tok])
  else Ok (ts ++ [eof_tok]).
Proof.
  unfold finish. cbv zeta. rewrite tilde_count_eof.
  destruct (1 <? tilde_count ts)%nat eqn:E1; [reflexivity|]. destruct b; [|reflexivity].
  destruct (tilde_count ts =? 0)%nat eqn:E0; [reflexivity|].
  apply Nat.eqb_neq in E0. rewrite insert_after_tilde_app by lia. reflexivity.
Qed.

(** Main theorem. *)
Theorem scan_loop_render_exact ts ws :
  forallb wf_lexeme ts = true -> valid_ws ts ws -> separated ts ws = true ->
  scan_loop (List.length (render ts ws)) (render ts ws) = Ok ts.
Proof. intros. now apply scan_loop_render. Qed.

Theorem scan_render b ts ws :
  forallb wf_lexeme ts = true -> valid_ws ts ws -> separated ts ws = true -> render ts ws <> [] ->
  scan_chars b (render ts ws) =
  if (1 <? tilde_count ts)%nat then Err EScan
  else if b then
    if (tilde_count ts =? 0)%nat then Ok (one_tok :: plus_tok :: ts ++ [eof_tok])
    else Ok (insert_after_tilde ts ++ [eof_tok])
  else Ok (ts ++ [eof_tok]).
Proof.
  intros Hwf Hws Hsep Hne. rewrite scan_chars_finish by exact Hne.
  rewrite scan_loop_render_exact by assumption. cbn [bind]. apply finish_spec.
Qed.

Lemma render_nonempty t ts ws : wf_lexeme t = true -> valid_ws (t :: ts) ws -> render (t :: ts) ws <> [].
Proof.
  intros Ht [Hlen _]. destruct ws as [|w ws]; [discriminate Hlen|]. cbn [render].
  destruct (wf_tok_nonempty t (wf_lexeme_sound t Ht)) as (c & body & Hlx). rewrite Hlx.
  destruct w; discriminate.
Qed.

Corollary scan_render_noint ts ws :
  forallb wf_lexeme ts = true -> valid_ws ts ws -> separated ts ws = true -> ts <> [] ->
  (tilde_count ts <= 1)%nat ->
  scan_chars false (render ts ws) = Ok (ts ++ [eof_tok]).
Proof.
  intros Hwf Hws Hsep Hne Hn. destruct ts as [|t ts]; [contradiction|].
  rewrite scan_render; auto.
  - destruct (Nat.ltb_spec 1 (tilde_count (t :: ts))); [lia | reflexivity].
  - cbn [forallb] in Hwf. apply andb_true_iff in Hwf as [Ht _]. now apply render_nonempty.
Qed.

Corollary scan_render_int_no_tilde ts ws :
  forallb wf_lexeme ts = true -> valid_ws ts ws -> separated ts ws = true -> ts <> [] ->
  tilde_count ts = 0%nat ->
  scan_chars true (render ts ws) = Ok (one_tok :: plus_tok :: ts ++ [eof_tok]).
Proof.
  intros Hwf Hws Hsep Hne Hn. destruct ts as [|t ts]; [contradiction|].
  rewrite scan_render; auto.
  - rewrite Hn. reflexivity.
  - cbn [forallb] in Hwf. apply andb_true_iff in Hwf as [Ht _]. now apply render_nonempty.
Qed.

Corollary scan_render_int_tilde l t r ws :
  let ts := l ++ t :: r in
  forallb wf_lexeme ts = true -> valid_ws ts ws -> separated ts ws = true ->
  is_tilde t = true -> tilde_count l = 0%nat -> tilde_count r = 0%nat ->
  scan_chars true (render ts ws) = Ok (l ++ t :: one_tok :: plus_tok :: r ++ [eof_tok]).
Proof.
  intros ts Hwf Hws Hsep Ht Hl Hr.
  assert (Hn : tilde_count ts = 1%nat).
  { unfold ts, tilde_count in *. rewrite filter_app, app_length. cbn [filter]. rewrite Ht.
    cbn [List.length]. lia. }
  assert (Hl' : forallb (fun x => negb (is_tilde x)) l = true).
  { clear -Hl. unfold tilde_count in Hl. induction l as [|x l IH]; [reflexivity|].
    cbn [filter] in Hl. cbn [forallb]. destruct (is_tilde x); [discriminate Hl|]. now apply IH. }
  rewrite scan_render; auto.
  - rewrite Hn. cbn [Nat.ltb Nat.leb Nat.eqb]. unfold ts.
    rewrite insert_after_tilde_split by assumption. rewrite <- app_assoc. reflexivity.
  - unfold ts in *. destruct l as [|x l]; cbn [app] in *.
    + cbn [forallb] in Hwf. apply andb_true_iff in Hwf as [Hx _]. now apply render_nonempty.
    + cbn [forallb] in Hwf. apply andb_true_iff in Hwf as [Hx _]. now apply render_nonempty.
Qed.

(** whitespace between tokens never changes the result of scanning *)
Corollary scan_whitespace_irrelevant b ts ws ws' :
  forallb wf_lexeme ts = true ->
  valid_ws ts ws -> separated ts ws = true ->
  valid_ws ts ws' -> separated ts ws' = true ->
  ts <> [] ->
  scan_chars b (render ts ws) = scan_chars b (render ts ws').
Proof.
  intros Hwf Hws Hsep Hws' Hsep' Hne. destruct ts as [|t ts]; [contradiction|].
  assert (Ht : wf_lexeme t = true) by (cbn [forallb] in Hwf; now apply andb_true_iff in Hwf as [Ht _]).
  rewrite !scan_render; auto using render_nonempty.
Qed.

(** in particular: any spacing with all inner gaps non-empty *)
Corollary scan_whitespace_irrelevant_spaced b ts ws ws' :
  forallb wf_lexeme ts = true ->
  valid_ws ts ws -> inner_gaps_nonempty ts ws = true ->
  valid_ws ts ws' -> inner_gaps_nonempty ts ws' = true ->
  ts <> [] ->
  scan_chars b (render ts ws) = scan_chars b (render ts ws').
Proof. intros. apply scan_whitespace_irrelevant; auto using separated_gap. Qed.

(* ------------------------------------------------------------------------------------------ *)
(** * A rendered prefix followed by arbitrary text *)

Fixpoint separated_before (ts : list token) (ws : list chars) (tail : chars) : bool :=
  match ts, ws with
  | t :: ts', _ :: ws' => can_follow t (render ts' ws' ++ tail) && separated_before ts' ws' tail
  | _, _ => true
  end.

Lemma separated_before_nil ts : forall ws, separated_before ts ws [] = separated ts ws.
Proof.
  induction ts as [|t ts IH]; intros [|w ws]; try reflexivity. cbn [separated_before separated].
  now rewrite app_nil_r, IH.
Qed.

Lemma can_follow_app t R tail :
  can_follow t R = true -> (forall t', can_follow t' tail = true) -> can_follow t (R ++ tail) = true.
Proof.
  intros HR Htail. destruct R as [|x [|y R']]; cbn [app].
  - apply Htail.
  - pose proof (Htail (mk PERIOD ".")) as Hp. unfold can_follow in Hp; cbn [tkind mk] in Hp.
    apply negb_true_false in Hp.
    revert HR. unfold can_follow. destruct (tkind t); cbn [next_is tl]; auto.
    destruct (literal t) as [[]|]; cbn [next_is tl]; auto. rewrite Hp. now rewrite !andb_false_r.
  - revert HR. unfold can_follow. destruct (tkind t); cbn [next_is tl]; auto.
Qed.

Lemma separated_before_any ts : forall ws tail,
  separated ts ws = true -> (forall t, can_follow t tail = true) -> separated_before ts ws tail = true.
Proof.
  induction ts as [|t ts IH]; intros [|w ws] tail Hs Ht; try reflexivity. cbn [separated_before separated] in *.
  apply andb_true_iff in Hs as [H1 H2]. rewrite can_follow_app, IH; auto.
Qed.

Lemma can_follow_quote t q rest : mem_ascii q quotes = true -> can_follow t (q :: rest) = true.
Proof.
  intros H. apply quote_cases in H. unfold can_follow.
  destruct H; subst q; destruct (tkind t); try reflexivity; destruct (literal t) as [[]|]; reflexivity.
Qed.

Lemma scan_loop_render_app ts : forall ws tail f,
  forallb wf_lexeme ts = true -> valid_ws ts ws -> separated_before ts ws tail = true ->
  (List.length (render ts ws ++ tail) <= f)%nat ->
  scan_loop f (render ts ws ++ tail) = (do ts' <- scan_loop (List.length tail) tail; Ok (ts ++ ts')).
Proof.
  induction ts as [|t ts IH]; intros ws tail f Hwf [Hlen Hws] Hsep Hf.
  - destruct ws as [|w [|]]; try discriminate Hlen. cbn [render] in *. rewrite app_nil_r in *.
    cbn [forallb] in Hws. apply andb_true_iff in Hws as [Hw _]. rewrite app_length in Hf.
    rewrite scan_loop_skip by (assumption || lia).
    rewrite (scan_loop_fuel _ (List.length tail)) by lia.
    destruct (scan_loop (List.length tail) tail); reflexivity.
  - destruct ws as [|w ws]; [discriminate Hlen|]. cbn [render] in *.
    cbn [forallb] in Hws, Hwf. apply andb_true_iff in Hws as [Hw Hws]. apply andb_true_iff in Hwf as [Ht Hwf].
    cbn [separated_before] in Hsep. apply andb_true_iff in Hsep as [Hcf Hsep].
    rewrite <- !app_assoc in *. rewrite app_length in Hf. rewrite scan_loop_skip by (assumption || lia).
    destruct (wf_tok_nonempty t (wf_lexeme_sound t Ht)) as (c & body & Hlx). rewrite Hlx in *.
    cbn [app List.length] in *. rewrite app_length in Hf.
    destruct (f - List.length w)%nat as [|f'] eqn:Ef; [lia|]. cbn [scan_loop].
    rewrite (scan_token_lexeme t c body _ Ht Hlx Hcf). cbn [bind].
    rewrite (IH ws tail f' Hwf); [| |exact Hsep|lia].
    + destruct (scan_loop (List.length tail) tail); reflexivity.
    + split; [cbn [List.length] in Hlen; lia | exact Hws].
Qed.

(** an error of [scan_token] after a well-formed prefix is the error of the whole scan *)
Theorem scan_error_after b ts ws c rest e :
  forallb wf_lexeme ts = true -> valid_ws ts ws -> separated_before ts ws (c :: rest) = true ->
  scan_token c rest = Err e ->
  scan_chars b (render ts ws ++ c :: rest) = Err e.
Proof.
  intros Hwf Hws Hsep He. rewrite scan_chars_finish by (destruct (render ts ws); discriminate).
  rewrite scan_loop_render_app by (assumption || lia). cbn [List.length scan_loop]. now rewrite He.
Qed.

(* ------------------------------------------------------------------------------------------ *)
(** * Deliverable 4: rejections *)

Theorem scan_empty b : scan_chars b [] = Err EScan.
Proof. reflexivity. Qed.

Theorem scan_two_tildes b ts ws :
  forallb wf_lexeme ts = true -> valid_ws ts ws -> separated ts ws = true ->
  (2 <= tilde_count ts)%nat ->
  scan_chars b (render ts ws) = Err EScan.
Proof.
  intros Hwf Hws Hsep Hn. destruct ts as [|t ts]; [cbn in Hn; lia|].
  assert (Ht : wf_lexeme t = true) by (cbn [forallb] in Hwf; now apply andb_true_iff in Hwf as [Ht _]).
  rewrite scan_render; auto using render_nonempty.
  destruct (Nat.ltb_spec 1 (tilde_count (t :: ts))); [reflexivity | lia].
Qed.

Theorem scan_unterminated_string_token q body :
  mem_ascii q quotes = true -> forallb nonquote body = true -> scan_token q body = Err EScan.
Proof.
  intros Hq Hb. unfold scan_token. rewrite Hq.
  now rewrite (span_all (fun x => negb (mem_ascii x quotes)) body Hb).
Qed.

Theorem scan_unterminated_string b q body :
  mem_ascii q quotes = true -> forallb nonquote body = true -> scan_chars b (q :: body) = Err EScan.
Proof.
  intros Hq Hb. unfold scan_chars. cbn [List.length scan_loop].
  now rewrite scan_unterminated_string_token.
Qed.

(** ... also after any well-formed prefix (a quote can follow every token) *)
Theorem scan_unterminated_string_after b ts ws q body :
  forallb wf_lexeme ts = true -> valid_ws ts ws -> separated ts ws = true ->
  mem_ascii q quotes = true -> forallb nonquote body = true ->
  scan_chars b (render ts ws ++ q :: body) = Err EScan.
Proof.
  intros Hwf Hws Hsep Hq Hb. apply scan_error_after; auto using scan_unterminated_string_token.
  apply separated_before_any; auto. intros t. now apply can_follow_quote.
Qed.

Theorem scan_unterminated_backquote_token body :
  forallb nonbq body = true -> scan_token "`" body = Err EIndex.
Proof.
  intros Hb. unfold scan_token.
  change (mem_ascii "`" quotes) with false. change (Ascii.eqb "`" "`") with true. cbv beta iota.
  now rewrite (span_all (fun x => negb (Ascii.eqb x "`")) body Hb).
Qed.

Theorem scan_unterminated_backquote b body :
  forallb nonbq body = true -> scan_chars b ("`" :: body) = Err EIndex.
Proof.
  intros Hb. unfold scan_chars. cbn [List.length scan_loop].
  now rewrite scan_unterminated_backquote_token.
Qed.

Definition unexpected_char (c : ascii) : bool :=
  negb (mem_ascii c whitespace) && negb (mem_ascii c quotes) && negb (Ascii.eqb c "`")
  && negb (Ascii.eqb c ".")
  && match lookup_single c single_chars with None => true | Some _ => false end
  && match lookup_double c double_chars with None => true | Some _ => false end
  && negb (is_digit c) && negb (is_alpha c).

Theorem scan_unexpected_char_token c rest : unexpected_char c = true -> scan_token c rest = Err EScan.
Proof.
  unfold unexpected_char. intros H. repeat (apply andb_true_iff in H as [H ?]).
  repeat match goal with H : negb _ = true |- _ => apply negb_true_false in H end.
  unfold scan_token.
  destruct (lookup_single c single_chars); [discriminate|].
  destruct (lookup_double c double_chars); [discriminate|].
  repeat match goal with H : _ = false |- _ => rewrite H; clear H end. reflexivity.
Qed.

Theorem scan_unexpected_char b c rest : unexpected_char c = true -> scan_chars b (c :: rest) = Err EScan.
Proof.
  intros H. unfold scan_chars. cbn [List.length scan_loop]. now rewrite scan_unexpected_char_token.
Qed.

Theorem scan_unexpected_char_after b ts ws c rest :
  forallb wf_lexeme ts = true -> valid_ws ts ws -> separated_before ts ws (c :: rest) = true ->
  unexpected_char c = true ->
  scan_chars b (render ts ws ++ c :: rest) = Err EScan.
Proof. intros. apply scan_error_after; auto using scan_unexpected_char_token. Qed.

Theorem scan_unterminated_backquote_after b ts ws body :
  forallb wf_lexeme ts = true -> valid_ws ts ws -> separated ts ws = true ->
  forallb nonbq body = true ->
  scan_chars b (render ts ws ++ "`" :: body) = Err EIndex.
Proof.
  intros Hwf Hws Hsep Hb. apply scan_error_after; auto using scan_unterminated_backquote_token.
  apply separated_before_any; auto. intros t. unfold can_follow.
  destruct (tkind t); try reflexivity; destruct (literal t) as [[]|]; reflexivity.
Qed.

(* ------------------------------------------------------------------------------------------ *)
(** * Converse: [wf_tok] / [render] describe exactly what the scanner accepts *)

Lemma single_kind_follow c k l o rest :
  lookup_single c single_chars = Some k -> can_follow (Tok k l o) rest = true.
Proof. intros H. all_ascii c; vm_compute in H; try discriminate H; inversion H; reflexivity. Qed.

Lemma span_nonempty p d rest' a b : p d = true -> span p (d :: rest') = (a, b) -> exists f fs, a = f :: fs.
Proof.
  intros Hd H. cbn [span] in H. rewrite Hd in H. destruct (span p rest') as [a' b']. inversion H; eauto.
Qed.

Lemma ok_some_inv {a t : token} {b r : chars} : Ok (Some a, b) = Ok (Some t, r) -> a = t /\ b = r.
Proof. intros H; inversion H; auto. Qed.

Ltac ok_inv H := first [discriminate H | apply ok_some_inv in H as [<- <-]].

Theorem scan_token_sound c rest t r :
  scan_token c rest = Ok (Some t, r) ->
  wf_tok t /\ c :: rest = lx t ++ r /\ can_follow t r = true.
Proof.
  unfold scan_token.
  destruct (mem_ascii c quotes) eqn:Hq.
  { destruct (span _ rest) as [body r0] eqn:Es. apply span_spec in Es as (-> & Hb & Hh).
    destruct r0 as [|q r']; intros H; ok_inv H. cbn [head_fails] in Hh.
    rewrite negb_involutive in Hh. rewrite lx_str. split; [now apply WString|].
    split; [cbn [app]; now rewrite <- app_assoc | reflexivity]. }
  destruct (Ascii.eqb c "`") eqn:Hbq.
  { apply Ascii.eqb_eq in Hbq. subst c.
    destruct (span _ rest) as [body r0] eqn:Es. apply span_spec in Es as (-> & Hb & Hh).
    destruct r0 as [|q r']; intros H; ok_inv H. cbn [head_fails] in Hh.
    rewrite negb_involutive in Hh. apply Ascii.eqb_eq in Hh. subst q. unfold mk. rewrite lx_str.
    split; [now apply WBackquote|]. split; [cbn [app]; now rewrite <- app_assoc | reflexivity]. }
  destruct (Ascii.eqb c ".") eqn:Hdot.
  { apply Ascii.eqb_eq in Hdot. subst c.
    destruct rest as [|d rest'].
    { intros H; ok_inv H. split; [apply WPeriod|]. split; reflexivity. }
    destruct (is_digit d) eqn:Hd.
    - destruct (span is_digit (d :: rest')) as [ds r0] eqn:Es.
      destruct (span_nonempty _ _ _ _ _ Hd Es) as (f & fs & ->).
      apply span_spec in Es as (Heq & Hds & Hh). cbn [forallb] in Hds. apply andb_true_iff in Hds as [Hf Hfs].
      intros H; ok_inv H. rewrite lx_str. split; [now apply (WFloat [] f fs)|].
      split; [cbn [app] in *; now rewrite Heq|]. unfold can_follow; cbn [tkind literal].
      now rewrite <- head_fails_next.
    - intros H; ok_inv H. split; [apply WPeriod|]. split; [reflexivity|].
      unfold can_follow; cbn [tkind mk next_is]. now rewrite Hd. }
  destruct (lookup_single c single_chars) as [k|] eqn:Hs.
  { intros H; ok_inv H. unfold mk. rewrite lx_str. split; [now apply WSingle|].
    split; [reflexivity|]. now apply (single_kind_follow c). }
  destruct (lookup_double c double_chars) as [[[c2 k2] k1]|] eqn:Hdb.
  { destruct rest as [|d r0].
    { intros H; ok_inv H. unfold mk. rewrite lx_str. split; [now apply (WDouble1 c c2 k2 k1)|].
      split; [reflexivity | apply can_follow_nil]. }
    destruct (Ascii.eqb d c2) eqn:Hd; intros H; ok_inv H; unfold mk; rewrite lx_str.
    - apply Ascii.eqb_eq in Hd. subst d. split; [now apply (WDouble2 c c2 k2 k1)|]. split; [reflexivity|].
      destruct (double_cases _ _ _ _ Hdb) as [H|[H|[H|[H|[H|H]]]]]; destruct H as (-> & -> & -> & ->); reflexivity.
    - split; [now apply (WDouble1 c c2 k2 k1)|]. split; [reflexivity|].
      destruct (double_cases _ _ _ _ Hdb) as [H|[H|[H|[H|[H|H]]]]]; destruct H as (-> & -> & -> & ->);
        unfold can_follow; cbn [tkind next_is]; now rewrite Hd. }
  destruct (mem_ascii c whitespace). { intros H; discriminate H. }
  destruct (is_digit c) eqn:Hc.
  { destruct (span is_digit rest) as [ds r0] eqn:Es. apply span_spec in Es as (-> & Hds & Hh).
    rewrite head_fails_next in Hh. apply negb_true_false in Hh.
    assert (Hint : forall r1, next_is is_digit r1 = false ->
              next_is (fun x => Ascii.eqb x ".") r1 && next_is is_digit (tl r1) = false ->
              wf_tok (Tok NUMBER (str (c :: ds)) (Some (LInt (digits_val 0 (c :: ds))))) /\
              c :: ds ++ r1 = lx (Tok NUMBER (str (c :: ds)) (Some (LInt (digits_val 0 (c :: ds))))) ++ r1 /\
              can_follow (Tok NUMBER (str (c :: ds)) (Some (LInt (digits_val 0 (c :: ds))))) r1 = true).
    { intros r1 H1 H2. rewrite lx_str. split; [now apply WInt|]. split; [reflexivity|].
      unfold can_follow; cbn [tkind literal]. now rewrite H1, H2. }
    destruct r0 as [|dot [|d r1]].
    - intros H; ok_inv H. now apply Hint.
    - intros H; ok_inv H. apply Hint; [exact Hh|]. cbn [next_is tl]. apply andb_false_r.
    - destruct (Ascii.eqb dot "." && is_digit d) eqn:Hcond.
      + apply andb_true_iff in Hcond as [Hdot' Hd]. apply Ascii.eqb_eq in Hdot'. subst dot. cbn [tl].
        destruct (span is_digit (d :: r1)) as [fs0 r'] eqn:Es2.
        destruct (span_nonempty _ _ _ _ _ Hd Es2) as (f & fs & ->).
        apply span_spec in Es2 as (Heq & Hfs & Hh2). cbn [forallb] in Hfs. apply andb_true_iff in Hfs as [Hf Hfs].
        intros H; ok_inv H. rewrite lx_str.
        split; [apply (WFloat (c :: ds) f fs); cbn [forallb]; now rewrite ?Hc, ?Hds|].
        split; [cbn [app] in *; rewrite Heq, <- app_assoc; reflexivity|].
        unfold can_follow; cbn [tkind literal]. now rewrite <- head_fails_next.
      + intros H; ok_inv H. apply Hint; [exact Hh | exact Hcond]. }
  destruct (is_alpha c) eqn:Ha; [|discriminate].
  destruct (span _ rest) as [body r0] eqn:Es. apply span_spec in Es as (-> & Hb & Hh).
  rewrite head_fails_next in Hh. cbv zeta.
  destruct (lookup_pylit (str (c :: body)) python_literals) as [v|] eqn:Hl;
    intros H; ok_inv H; unfold mk; rewrite lx_str.
  - split; [now apply WPyLit|]. split; [reflexivity|]. exact Hh.
  - split; [now apply WIdent|]. split; [reflexivity|]. exact Hh.
Qed.

Theorem scan_token_none c rest r :
  scan_token c rest = Ok (None, r) -> ws_char c = true /\ r = rest.
Proof.
  unfold scan_token, ws_char.
  repeat match goal with
         | |- context [match ?x with _ => _ end] => destruct x eqn:?
         end; intros H; inversion H; auto.
Qed.

(** every successful scan is the scan of a rendering of its own output *)
Theorem scan_loop_is_render f : forall cs ts,
  scan_loop f cs = Ok ts ->
  exists ws, forallb wf_lexeme ts = true /\ valid_ws ts ws /\ separated ts ws = true /\ cs = render ts ws.
Proof.
  induction f as [|f IH]; intros [|c rest] ts H; cbn [scan_loop] in H; try discriminate H.
  1,2: inversion H; subst; exists [[]]; repeat split.
  destruct (scan_token c rest) as [[[t|] r]|e] eqn:E; cbn [bind] in H; [| |discriminate H].
  - destruct (scan_loop f r) as [ts'|] eqn:E'; cbn [bind] in H; [|discriminate H]. inversion H; subst; clear H.
    destruct (IH r ts' E') as (ws & Hwf & [Hlen Hws] & Hsep & ->).
    destruct (scan_token_sound _ _ _ _ E) as (Ht & Heq & Hcf).
    exists ([] :: ws). split; [cbn [forallb]; now rewrite (wf_lexeme_complete t Ht), Hwf|].
    split; [split; [cbn [List.length]; lia | exact Hws]|].
    split; [cbn [separated]; now rewrite Hcf, Hsep | exact Heq].
  - destruct (scan_loop f r) as [ts'|] eqn:E'; cbn [bind] in H; [|discriminate H]. inversion H; subst; clear H.
    destruct (scan_token_none _ _ _ E) as (Hc & ->).
    destruct (IH rest ts E') as (ws & Hwf & [Hlen Hws] & Hsep & ->).
    destruct ws as [|w ws]; [discriminate Hlen|]. exists ((c :: w) :: ws).
    split; [exact Hwf|]. split; [split; [exact Hlen|]|].
    + cbn [forallb] in *. now rewrite Hc.
    + split; [|reflexivity]. destruct ts; [reflexivity | exact Hsep].
Qed.

(** The two directions together: [scan_loop] succeeds with [ts] exactly on the separated renderings of
    well-formed [ts]. *)
Corollary scan_loop_iff cs ts :
  scan_loop (List.length cs) cs = Ok ts <->
  exists ws, forallb wf_lexeme ts = true /\ valid_ws ts ws /\ separated ts ws = true /\ cs = render ts ws.
Proof.
  split; [apply scan_loop_is_render|]. intros (ws & Hwf & Hws & Hsep & ->). now apply scan_loop_render_exact.
Qed.

(* ------------------------------------------------------------------------------------------ *)
(** * Examples (non-vacuity), all by computation *)

Definition chs (s : string) : chars := list_ascii_of_string s.
Definition drop_eof (r : res (list token)) : list token :=
  match r with Ok ts => removelast ts | Err _ => [] end.

(** a formula with every class of token; the string is opened by ' and closed by the other quote *)
Definition ex_ts : list token :=
  drop_eof (scan_noint "y ~ a*b + log(x.1, 2.50) - .5 + `my var` + 'lvl"" + (p != None) // 3").

Example ex_ts_wf : forallb wf_lexeme ex_ts = true. Proof. vm_compute. reflexivity. Qed.
Example ex_ts_kinds :
  map tkind ex_ts =
  [IDENTIFIER; TILDE; IDENTIFIER; STAR; IDENTIFIER; PLUS; IDENTIFIER; LEFT_PAREN; IDENTIFIER; COMMA; NUMBER;
   RIGHT_PAREN; MINUS; NUMBER; PLUS; BQNAME; PLUS; STRING; PLUS; LEFT_PAREN; IDENTIFIER; BANG_EQUAL;
   PYTHON_LITERAL; RIGHT_PAREN; SLASH_SLASH; NUMBER].
Proof. vm_compute. reflexivity. Qed.

Definition ws_tight : list chars := repeat [] 27.
Definition ws_wide : list chars := repeat [" "; ch_tab; ch_nl; ch_cr] 27.

Example ex_render_tight :
  render ex_ts ws_tight = chs "y~a*b+log(x.1,2.50)-.5+`my var`+'lvl""+(p!=None)//3".
Proof. vm_compute. reflexivity. Qed.
Example ex_valid_tight : valid_ws ex_ts ws_tight. Proof. split; vm_compute; reflexivity. Qed.
Example ex_valid_wide : valid_ws ex_ts ws_wide. Proof. split; vm_compute; reflexivity. Qed.
Example ex_sep_tight : separated ex_ts ws_tight = true. Proof. vm_compute. reflexivity. Qed.
Example ex_sep_wide : separated ex_ts ws_wide = true.
Proof. apply separated_gap; [exact ex_valid_wide | vm_compute; reflexivity]. Qed.

(** the hypotheses of the main theorem are satisfiable, and its conclusion agrees with computation *)
Example ex_scan_render_tight :
  scan_chars false (render ex_ts ws_tight) = Ok (ex_ts ++ [eof_tok]).
Proof.
  apply (scan_render_noint ex_ts ws_tight ex_ts_wf ex_valid_tight ex_sep_tight).
  - vm_compute. discriminate.
  - vm_compute. lia.
Qed.
Example ex_scan_render_tight_computed :
  scan_chars false (render ex_ts ws_tight) = Ok (ex_ts ++ [eof_tok]).
Proof. vm_compute. reflexivity. Qed.
Example ex_irrelevant b : scan_chars b (render ex_ts ws_tight) = scan_chars b (render ex_ts ws_wide).
Proof.
  apply (scan_whitespace_irrelevant b ex_ts ws_tight ws_wide ex_ts_wf ex_valid_tight ex_sep_tight
           ex_valid_wide ex_sep_wide).
  vm_compute. discriminate.
Qed.
Example ex_intercept :
  option_map (map lexeme) (match scan "y ~ x" with Ok ts => Some ts | Err _ => None end)
  = Some ["y"; "~"; "1"; "+"; "x"; ""]%string.
Proof. vm_compute. reflexivity. Qed.
Example ex_intercept_thm :
  let y := mk IDENTIFIER "y" in let x := mk IDENTIFIER "x" in let tl := mk TILDE "~" in
  scan_chars true (render ([y] ++ tl :: [x]) [[]; [" "]; [" "]; []])
  = Ok ([y] ++ tl :: one_tok :: plus_tok :: [x] ++ [eof_tok]).
Proof.
  cbv zeta. apply scan_render_int_tilde; try (vm_compute; reflexivity). split; vm_compute; reflexivity.
Qed.

(** [separated] is needed: with an empty gap these token lists scan to something else *)
Definition tk (s : string) : token :=
  match scan_noint s with Ok (t :: _) => t | _ => eof_tok end.
Example ex_unsep_ident :
  separated [tk "a"; tk "b"] [[]; []; []] = false /\ separated [tk "a"; tk "b"] [[]; [" "]; []] = true /\
  drop_eof (scan_chars false (render [tk "a"; tk "b"] [[]; []; []])) = [tk "ab"].
Proof. vm_compute. repeat split. Qed.
Example ex_unsep_float :
  separated [tk "1"; tk "."; tk "5"] [[]; []; []; []] = false /\
  drop_eof (scan_chars false (render [tk "1"; tk "."; tk "5"] [[]; []; []; []])) = [tk "1.5"] /\
  separated [tk "1"; tk "."] [[]; []; []] = true /\
  separated [tk "1"; tk "."; tk "a"] [[]; []; []; []] = true /\
  separated [tk "1.5"; tk ".5"] [[]; []; []] = true /\
  separated [tk "."; tk "5"] [[]; []; []] = false.
Proof. vm_compute. repeat split. Qed.
Example ex_unsep_ops :
  separated [tk "*"; tk "*"] [[]; []; []] = false /\ separated [tk "/"; tk "/"] [[]; []; []] = false /\
  separated [tk "<"; tk "="] [[]; []; []] = false /\ separated [tk "!"; tk "="] [[]; []; []] = false /\
  separated [tk "="; tk "=="] [[]; []; []] = false /\ separated [tk "=="; tk "="] [[]; []; []] = true /\
  separated [tk "*"; tk "/"] [[]; []; []] = true /\ separated [tk "+"; tk "+"] [[]; []; []] = true /\
  separated [tk "x"; tk "'s'"] [[]; []; []] = true /\ separated [tk "'s'"; tk "x"] [[]; []; []] = true.
Proof. vm_compute. repeat split. Qed.

(** [wf_lexeme] accepts and rejects *)
Example ex_wf_yes :
  forallb wf_lexeme
    [mk IDENTIFIER "x.1_b"; Tok PYTHON_LITERAL "None" (Some LNone); Tok NUMBER "007" (Some (LInt 7));
     Tok NUMBER "2.50" (Some (LFloat "2" "50")); Tok NUMBER ".5" (Some (LFloat "" "5"));
     Tok STRING "'a b""" (Some (LStr "a b")); mk BQNAME "`a 'b`"; mk PERIOD "."; mk TILDE "~";
     mk STAR "*"; mk STAR_STAR "**"; mk BANG "!"; mk GREATER_EQUAL ">="] = true.
Proof. vm_compute. reflexivity. Qed.
Example ex_wf_no :
  existsb wf_lexeme
    [eof_tok; mk IDENTIFIER "True"; mk IDENTIFIER "1a"; mk IDENTIFIER "_a"; mk IDENTIFIER "a b";
     Tok PYTHON_LITERAL "True" (Some (LBool false)); Tok NUMBER "12" (Some (LInt 13));
     Tok NUMBER "1." (Some (LFloat "1" "")); Tok NUMBER "1.5" (Some (LInt 1)); mk NUMBER "1";
     Tok STRING "'a'b'" (Some (LStr "a'b")); Tok STRING "'ab'" (Some (LStr "a")); mk BQNAME "`a`b`";
     mk BQNAME "`"; mk STAR "+"; mk STAR "**"; mk PLUS "++"; mk PERIOD ".."] = false.
Proof. vm_compute. reflexivity. Qed.

Example ex_scan_token_lexeme :
  scan_token "2" (chs ".50" ++ chs ")") = Ok (Some (Tok NUMBER "2.50" (Some (LFloat "2" "50"))), chs ")").
Proof. apply scan_token_lexeme; vm_compute; reflexivity. Qed.

(** rejections *)
Example ex_reject :
  scan_noint "y ~ x ~ z" = Err EScan /\ scan "a + 'bc" = Err EScan /\ scan "a + `bc" = Err EIndex /\
  scan "a $ b" = Err EScan /\ scan "a _b" = Err EScan /\ scan "" = Err EScan /\
  unexpected_char "_" = true /\ unexpected_char "$" = true /\ unexpected_char "a" = false.
Proof. vm_compute. repeat split. Qed.
Example ex_reject_after :
  scan_chars true (render [tk "a"; tk "+"] [[]; [" "]; [" "]] ++ "'" :: chs "bc") = Err EScan.
Proof.
  apply scan_unterminated_string_after; try (vm_compute; reflexivity). split; vm_compute; reflexivity.
Qed.

Print Assumptions scan_token_lexeme.
Print Assumptions wf_lexeme_iff.
Print Assumptions scan_whitespace_token.
Print Assumptions scan_whitespace_skip.
Print Assumptions scan_whitespace_skip_fuel.
Print Assumptions scan_loop_render_exact.
Print Assumptions scan_render.
Print Assumptions scan_render_noint.
Print Assumptions scan_render_int_no_tilde.
Print Assumptions scan_render_int_tilde.
Print Assumptions scan_whitespace_irrelevant.
Print Assumptions scan_whitespace_irrelevant_spaced.
Print Assumptions scan_two_tildes.
Print Assumptions scan_unterminated_string.
Print Assumptions scan_unterminated_string_after.
Print Assumptions scan_unexpected_char.
Print Assumptions scan_unexpected_char_after.
Print Assumptions scan_empty.
Print Assumptions scan_unterminated_backquote.
Print Assumptions scan_unterminated_backquote_after.
Print Assumptions scan_token_consumes.
Print Assumptions scan_fuel_enough.
Print Assumptions scan_loop_fuel.
Print Assumptions scan_token_sound.
Print Assumptions scan_loop_iff.
