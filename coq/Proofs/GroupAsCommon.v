(* C05, second sentence, list-model layer: a group-specific term IS a common interaction term.

   For a built group-specific term  (e|g)  ([set_data_gterm nrows tg flag = Ok dg])
     - the components of the grouping factor g are coded in FULL ([set_data_comp c true nrows]),
     - the components of the effect expression e are coded with the one flag [flag],
     - the rows of the term are the rows of the interaction term whose component list is
         (components of g) ++ (components of e)
       i.e. [factor_rows (dg_factor dg ++ dt_comps (dg_expr dg))]
            = fold_left rows_kron (map dc_rows rest) (dc_rows first);
       for the intercept effect (1|g) they are the rows of the factor g alone (cut to nrows rows,
       because the intercept column has nrows entries),
     - [set_data_term] applied to the common term  g:e  (factor first, factor spans = true, effect
       spans = flag) succeeds with exactly these rows -- PROVIDED no component has an empty label
       list: an empty product makes the common interaction raise ValueError
       (np.column_stack of nothing) while the group-specific term is built with zero columns
       ([gterm_as_common_empty_refused]),
     - the label  lv|gr  of the group-specific term sits at the position of the label  gr:lv
       of the common term.

   The algebra underneath: [cmul], [row_kron], [rows_kron] and [label_step] are associative
   (NaN = None is absorbing for [cmul], so associativity holds for all cells). *)
From Verif Require Import Base Tokens Lazy Algebra Coding Contrasts Frame Eval Design Scanner Parser Driver.
From Verif Require Import DesignStructure DesignCoding DesignSum GroupCoding.
From Coq Require Import Lia.
Local Close Scope Qc_scope.
Local Close Scope Q_scope.
Local Open Scope string_scope.
Local Open Scope list_scope.
Local Open Scope nat_scope.

(* ------------------------------------------------------------------------------------------ *)
(** * Associativity of the row product *)

Lemma cmul_assoc a b c : cmul (cmul a b) c = cmul a (cmul b c).
Proof.
  destruct a as [x|], b as [y|], c as [z|]; simpl; try reflexivity.
  f_equal. symmetry. apply Qcmult_assoc.
Qed.

Lemma cmul_one_r c : cmul c (zcell 1) = c.
Proof.
  destruct c as [y|]; [|reflexivity]. unfold zcell, cmul. f_equal.
  change (qz 1) with 1%Qc. apply Qcmult_1_r.
Qed.

Lemma row_kron_app_l x x' y : row_kron (x ++ x') y = row_kron x y ++ row_kron x' y.
Proof. unfold row_kron. apply flat_map_app. Qed.

Lemma row_kron_map_l a y z :
  row_kron (map (fun b => cmul a b) y) z = map (fun c => cmul a c) (row_kron y z).
Proof.
  induction y as [|b y IH]; [reflexivity|].
  cbn [map]. change (row_kron (cmul a b :: map (fun b0 => cmul a b0) y) z)
    with (map (fun c => cmul (cmul a b) c) z ++ row_kron (map (fun b0 => cmul a b0) y) z).
  change (row_kron (b :: y) z) with (map (fun c => cmul b c) z ++ row_kron y z).
  rewrite map_app, IH, map_map. f_equal. apply map_ext. intros c. apply cmul_assoc.
Qed.

(** [row_kron] is associative, for all rows (any widths, NaN anywhere). *)
Theorem row_kron_assoc x y z : row_kron (row_kron x y) z = row_kron x (row_kron y z).
Proof.
  induction x as [|a x IH]; [reflexivity|].
  change (row_kron (a :: x) y) with (map (fun b => cmul a b) y ++ row_kron x y).
  change (row_kron (a :: x) (row_kron y z))
    with (map (fun c => cmul a c) (row_kron y z) ++ row_kron x (row_kron y z)).
  rewrite row_kron_app_l, IH, row_kron_map_l. reflexivity.
Qed.

Lemma row_kron_one_r x : row_kron x [zcell 1] = x.
Proof.
  induction x as [|a x IH]; [reflexivity|].
  change (row_kron (a :: x) [zcell 1]) with (cmul a (zcell 1) :: row_kron x [zcell 1]).
  rewrite IH, cmul_one_r. reflexivity.
Qed.

Lemma row_kron_one_l x : row_kron [zcell 1] x = x.
Proof.
  unfold row_kron. cbn [flat_map]. rewrite app_nil_r.
  rewrite <- (map_id x) at 2. apply map_ext. apply cmul_one.
Qed.

(** [rows_kron] is associative, for all blocks (any numbers of rows: all three are cut to the
    shortest). *)
Theorem rows_kron_assoc a b c : rows_kron (rows_kron a b) c = rows_kron a (rows_kron b c).
Proof.
  unfold rows_kron. revert b c. induction a as [|x a IH]; intros b c; [reflexivity|].
  destruct b as [|y b]; [reflexivity|]. destruct c as [|z c].
  - rewrite !zip_with_nil_r. reflexivity.
  - rewrite !zip_with_cons, IH, row_kron_assoc. reflexivity.
Qed.

Lemma rows_kron_fold a es : forall e0,
  rows_kron a (fold_left rows_kron es e0) = fold_left rows_kron es (rows_kron a e0).
Proof.
  induction es as [|e es IH]; intros e0; [reflexivity|].
  cbn [fold_left]. rewrite IH, rows_kron_assoc. reflexivity.
Qed.

Lemma rows_kron_ones a n : rows_kron a (repeat [zcell 1] n) = firstn n a.
Proof.
  unfold rows_kron. revert a. induction n as [|n IH]; intros a.
  - cbn [repeat]. rewrite zip_with_nil_r. reflexivity.
  - destruct a as [|x a]; [reflexivity|]. cbn [repeat firstn].
    rewrite zip_with_cons, IH, row_kron_one_r. reflexivity.
Qed.

(** The rows of an interaction over a concatenated component list: the product of the rows of the
    two parts. *)
Theorem factor_rows_app fs es :
  fs <> [] -> es <> [] -> factor_rows (fs ++ es) = rows_kron (factor_rows fs) (factor_rows es).
Proof.
  destruct fs as [|f0 fr]; [congruence|]. destruct es as [|e0 er]; [congruence|]. intros _ _.
  cbn [factor_rows app]. rewrite map_app, fold_left_app. cbn [map fold_left].
  rewrite rows_kron_fold. reflexivity.
Qed.

(* ------------------------------------------------------------------------------------------ *)
(** * Associativity of the label product *)

Lemma sappend_assoc (a b c : string) : ((a ++ b) ++ c)%string = (a ++ (b ++ c))%string.
Proof. induction a as [|ch a IH]; simpl; [reflexivity|]. rewrite IH. reflexivity. Qed.

Lemma label_step_app_l sep a a' l : label_step sep (a ++ a') l = label_step sep a l ++ label_step sep a' l.
Proof. unfold label_step. apply flat_map_app. Qed.

Lemma label_step_map_l sep x b c :
  label_step sep (map (fun y => (x ++ sep ++ y)%string) b) c
  = map (fun y => (x ++ sep ++ y)%string) (label_step sep b c).
Proof.
  induction b as [|y b IH]; [reflexivity|].
  cbn [map]. unfold label_step in *. cbn [flat_map]. rewrite map_app, IH, map_map. f_equal.
  apply map_ext. intros z. rewrite !sappend_assoc. reflexivity.
Qed.

Theorem label_step_assoc sep a b c :
  label_step sep (label_step sep a b) c = label_step sep a (label_step sep b c).
Proof.
  induction a as [|x a IH]; [reflexivity|].
  change (label_step sep (x :: a) b) with (map (fun y => (x ++ sep ++ y)%string) b ++ label_step sep a b).
  change (label_step sep (x :: a) (label_step sep b c))
    with (map (fun y => (x ++ sep ++ y)%string) (label_step sep b c) ++ label_step sep a (label_step sep b c)).
  rewrite label_step_app_l, IH, label_step_map_l. reflexivity.
Qed.

Lemma label_step_fold sep a es : forall e0,
  label_step sep a (fold_left (label_step sep) es e0) = fold_left (label_step sep) es (label_step sep a e0).
Proof.
  induction es as [|e es IH]; intros e0; [reflexivity|].
  cbn [fold_left]. rewrite IH, label_step_assoc. reflexivity.
Qed.

Theorem label_product_app fs es sep :
  fs <> [] -> es <> [] ->
  label_product (fs ++ es) sep = label_step sep (label_product fs sep) (label_product es sep).
Proof.
  destruct fs as [|f0 fr]; [congruence|]. destruct es as [|e0 er]; [congruence|]. intros _ _.
  change ((f0 :: fr) ++ e0 :: er) with (f0 :: (fr ++ e0 :: er)).
  rewrite !label_product_cons, fold_left_app. cbn [fold_left]. rewrite label_step_fold. reflexivity.
Qed.

(* ------------------------------------------------------------------------------------------ *)
(** * What [set_data_term] returns, without well-formedness hypotheses *)

Definition nonempty_labels (d : dcomp) : Prop := dc_labs d <> [].

Lemma existsb_nil_false (labs : list (list string)) :
  existsb (fun l => match l with [] => true | _ => false end) labs = false <-> Forall (fun l => l <> []) labs.
Proof.
  induction labs as [|l labs IH]; simpl; [split; [constructor|reflexivity]|].
  destruct l; simpl.
  - split; [discriminate|]. intros H. inversion H; congruence.
  - rewrite IH. split; intros H; [constructor; [discriminate|assumption]|inversion H; assumption].
Qed.

(** Rows, components and labels of a built common term: the rows are [factor_rows] of the
    components; with at least two components every component has labels, none has an empty label
    list, and the labels are the label product. *)
Theorem set_data_term_shape nrows name cs s dt :
  set_data_term nrows (TTTerm name cs) s = Ok dt ->
  mapM (fun c => set_data_comp c (spans_for s (tc_name c)) nrows) cs = Ok (dt_comps dt) /\
  dt_comps dt <> [] /\
  dt_name dt = name /\
  dt_rows dt = factor_rows (dt_comps dt) /\
  ((exists d, dt_comps dt = [d] /\ dt_labels dt = dc_labels d) \/
   (2 <= List.length (dt_comps dt) /\
    Forall (fun d => exists l, dc_labels d = Some l /\ l <> []) (dt_comps dt) /\
    dt_labels dt = Some (label_product (map dc_labs (dt_comps dt)) ":") /\
    dt_kind dt = "interaction")).
Proof.
  intros H. pose proof (set_data_term_comps _ _ _ _ _ H) as Hc. split; [exact Hc|].
  unfold set_data_term in H. apply bind_ok in H as (ds & Hds & H).
  destruct ds as [|d0 [|d1 rest]]; [discriminate| |].
  - injection H as <-. cbn. split; [discriminate|]. split; [reflexivity|]. split; [reflexivity|].
    left. eexists. split; reflexivity.
  - apply bind_ok in H as (labs & Hlabs & H).
    destruct (existsb _ labs) eqn:Hex; [discriminate|]. injection H as <-.
    cbn [dt_comps dt_rows dt_labels dt_name dt_kind].
    split; [discriminate|]. split; [reflexivity|]. split; [reflexivity|]. right.
    split; [cbn; lia|]. pose proof (mapM_labels _ _ Hlabs) as El.
    apply existsb_nil_false in Hex. split; [|split; [rewrite El; reflexivity|reflexivity]].
    apply mapM_ok in Hlabs. clear - Hlabs Hex.
    induction Hlabs as [|d l ds ls Hd _ IH]; constructor.
    + inversion Hex; subst. destruct (dc_labels d) as [l'|]; [|discriminate Hd].
      injection Hd as ->. eauto.
    + inversion Hex; subst. apply IH; assumption.
Qed.

(** Conversely, [set_data_term] on at least two components succeeds as soon as the components are
    built, all have labels and none has an empty label list; and it fails with ValueError when a
    label list is empty. *)
Lemma mapM_labels_ok ds :
  Forall (fun d => exists l, dc_labels d = Some l) ds ->
  mapM (fun x => match dc_labels x with Some l => Ok l | None => Err EType end) ds = Ok (map dc_labs ds).
Proof.
  induction 1 as [|d ds (l & Hl) _ IH]; [reflexivity|].
  cbn [mapM map]. rewrite Hl, IH. unfold dc_labs. rewrite Hl. reflexivity.
Qed.

Lemma set_data_term_build nrows name cs s ds :
  mapM (fun c => set_data_comp c (spans_for s (tc_name c)) nrows) cs = Ok ds ->
  2 <= List.length ds ->
  Forall (fun d => exists l, dc_labels d = Some l) ds ->
  set_data_term nrows (TTTerm name cs) s
  = if existsb (fun l => match l with [] => true | _ => false end) (map dc_labs ds) then Err EValue
    else Ok (DT name "interaction" ds (factor_rows ds) (Some (label_product (map dc_labs ds) ":"))).
Proof.
  intros Hds Hlen Hl. unfold set_data_term. rewrite Hds. cbn [bind].
  destruct ds as [|d0 [|d1 rest]]; [cbn in Hlen; lia|cbn in Hlen; lia|].
  rewrite (mapM_labels_ok _ Hl). cbn [bind]. reflexivity.
Qed.

(* ------------------------------------------------------------------------------------------ *)
(** * The rows of a group-specific term *)

Lemma mapM_spans_true nrows cs ds :
  mapM (fun c => set_data_comp c true nrows) cs = Ok ds -> Forall (fun d => dc_spans d = true) ds.
Proof.
  intros H. apply mapM_ok in H. induction H as [|c d cs ds Hcd _ IH]; constructor; [|assumption].
  apply set_data_comp_spans in Hcd as [Hs _]. exact Hs.
Qed.

Lemma mapM_nonnil {A B} (f : A -> res B) l ys : mapM f l = Ok ys -> l <> [] -> ys <> [].
Proof.
  intros H Hl Hy. apply mapM_length in H. subst ys. destruct l; [congruence|discriminate H].
Qed.

(** MAIN THEOREM (rows).  The grouping factor is coded in full, the effect with the flag, and the
    rows of the group-specific term are the rows of the interaction over the concatenated
    component list, the factor first.  For (1|g): the rows of the factor, cut to nrows rows. *)
Theorem gterm_rows_as_interaction nrows tg flag dg :
  set_data_gterm nrows tg flag = Ok dg ->
  mapM (fun c => set_data_comp c true nrows) (tg_factor tg) = Ok (dg_factor dg) /\
  set_data_term nrows (tg_expr tg) (SpBool flag) = Ok (dg_expr dg) /\
  Forall (fun d => dc_spans d = true) (dg_factor dg) /\
  Forall (fun d => dc_spans d = flag) (dt_comps (dg_expr dg)) /\
  match tg_expr tg with
  | TTIntercept =>
      dt_comps (dg_expr dg) = [] /\
      dg_rows dg = firstn nrows (factor_rows (dg_factor dg))
  | TTTerm _ _ =>
      dt_comps (dg_expr dg) <> [] /\
      (tg_factor tg <> [] ->
       dg_rows dg = factor_rows (dg_factor dg ++ dt_comps (dg_expr dg)))
  end.
Proof.
  intros H. destruct (set_data_gterm_inv _ _ _ _ H) as (He & Hfs & _ & Hrows & _).
  split; [exact Hfs|]. split; [exact He|]. split; [eapply mapM_spans_true; eassumption|].
  split; [eapply set_data_term_flag; eassumption|].
  destruct (tg_expr tg) as [|ename cs] eqn:Ee.
  - cbn in He. injection He as He. rewrite <- He in *. cbn [dt_comps dt_rows] in *.
    split; [reflexivity|]. rewrite Hrows. apply rows_kron_ones.
  - destruct (set_data_term_shape _ _ _ _ _ He) as (_ & Hne & _ & Hr & _).
    split; [exact Hne|]. intros Hf. rewrite Hrows, Hr. symmetry. apply factor_rows_app; [|exact Hne].
    eapply mapM_nonnil; eassumption.
Qed.

(** With as many factor rows as observations the cut disappears. *)
Corollary gterm_intercept_rows nrows tg flag dg :
  set_data_gterm nrows tg flag = Ok dg -> tg_expr tg = TTIntercept ->
  List.length (factor_rows (dg_factor dg)) <= nrows ->
  dg_rows dg = factor_rows (dg_factor dg).
Proof.
  intros H He Hn. pose proof (gterm_rows_as_interaction _ _ _ _ H) as (_ & _ & _ & _ & Hm).
  rewrite He in Hm. destruct Hm as [_ ->]. apply firstn_all2. exact Hn.
Qed.

(** Without a grouping factor component (not reachable from a parsed description: the factor of a
    group-specific term is a term) there is no row at all. *)
Remark gterm_no_factor_rows nrows tg flag dg :
  set_data_gterm nrows tg flag = Ok dg -> tg_factor tg = [] -> dg_rows dg = [].
Proof.
  intros H Hf. destruct (set_data_gterm_inv _ _ _ _ H) as (_ & Hfs & _ & Hrows & _).
  rewrite Hf in Hfs. injection Hfs as Hfs. rewrite Hrows, <- Hfs. reflexivity.
Qed.

(* ------------------------------------------------------------------------------------------ *)
(** * The labels *)

(* label  lv|gr  of the group-specific term against label  gr:lv  of the common term *)
Definition label_corr (gl cl : string) : Prop :=
  exists gr lv, gl = (lv ++ "|" ++ gr)%string /\ cl = (gr ++ ":" ++ lv)%string.

Lemma Forall2_flat_map_map {A B C D} (R : C -> D -> Prop) (f : A -> B -> C) (g : A -> B -> D) bs : forall xs,
  (forall a b, R (f a b) (g a b)) ->
  Forall2 R (flat_map (fun a => map (fun b => f a b) bs) xs) (flat_map (fun a => map (fun b => g a b) bs) xs).
Proof.
  intros xs HR. induction xs as [|a xs IH]; [constructor|].
  cbn [flat_map]. apply Forall2_app; [|exact IH].
  clear IH. induction bs as [|b bs IHb]; constructor; auto.
Qed.

(* the labels of the grouping factor, and the labels ("levels") of the effect *)
Definition gfactor_labels (dg : dgterm) : list string := label_product (map dc_labs (dg_factor dg)) ":".

(** The labels of a group-specific term, by shape. *)
Theorem gterm_labels nrows tg flag dg :
  set_data_gterm nrows tg flag = Ok dg ->
  match tg_expr tg with
  | TTIntercept => dg_labels dg = map (fun gr => ("1|" ++ gr)%string) (gfactor_labels dg)
  | TTTerm _ _ =>
      exists levels, dt_labels (dg_expr dg) = Some levels /\
        dg_labels dg = flat_map (fun gr => map (fun lv => (lv ++ "|" ++ gr)%string) levels) (gfactor_labels dg)
  end.
Proof.
  intros H. destruct (set_data_gterm_inv _ _ _ _ H) as (He & _ & _ & _ & levels & Hlev & Hlabs).
  destruct (tg_expr tg) as [|ename cs] eqn:Ee.
  - cbn in He. injection He as He. rewrite <- He in Hlev. cbn in Hlev. injection Hlev as <-.
    rewrite Hlabs. unfold gfactor_labels.
    induction (label_product (map dc_labs (dg_factor dg)) ":") as [|x l IH]; [reflexivity|].
    simpl. f_equal; exact IH.
  - assert (Hk : String.eqb (dt_kind (dg_expr dg)) "intercept" = false).
    { unfold set_data_term in He. apply bind_ok in He as (ds & _ & He).
      destruct ds as [|d0 [|d1 rest]]; [discriminate| |].
      - injection He as <-. cbn [dt_kind]. destruct (tc_kind (dc_t d0)); reflexivity.
      - apply bind_ok in He as (labs & _ & He). destruct (existsb _ labs); [discriminate|].
        injection He as <-. reflexivity. }
    rewrite Hk in Hlev. destruct (dt_labels (dg_expr dg)) as [l|]; [|discriminate Hlev].
    injection Hlev as ->. exists levels. split; [reflexivity|exact Hlabs].
Qed.

(* ------------------------------------------------------------------------------------------ *)
(** * The group-specific term as a common term *)

(* the common term: the components of the grouping factor, then those of the effect *)
Definition as_common (tg : tgterm) : tterm :=
  match tg_expr tg with
  | TTIntercept => TTTerm (tg_factor_name tg) (tg_factor tg)
  | TTTerm en cs => TTTerm (tg_factor_name tg ++ ":" ++ en) (tg_factor tg ++ cs)
  end.

(* the spans argument codes the factor in full and the effect with the flag *)
Definition spans_factor_full (s : spans_arg) (tg : tgterm) (flag : bool) : Prop :=
  (forall c, In c (tg_factor tg) -> spans_for s (tc_name c) = true) /\
  match tg_expr tg with
  | TTIntercept => True
  | TTTerm _ cs => forall c, In c cs -> spans_for s (tc_name c) = flag
  end.

(* full coding of the effect: the plain flag does it *)
Lemma spans_factor_full_true tg : spans_factor_full (SpBool true) tg true.
Proof. split; [reflexivity|]. destruct (tg_expr tg); [exact I|reflexivity]. Qed.

(* reduced coding of the effect: the dict that names the factor components, when no effect
   component bears the name of a factor component *)
Definition factor_dict (tg : tgterm) : subterm := map (fun c => (tc_name c, true)) (tg_factor tg).

Lemma assoc_factor_dict_in tg c : In c (tg_factor tg) -> assoc (tc_name c) (factor_dict tg) = Some true.
Proof.
  unfold factor_dict. induction (tg_factor tg) as [|c' l IH]; [contradiction|].
  intros Hin. cbn [map assoc fst snd]. destruct (String.eqb_spec (tc_name c) (tc_name c')) as [E|E].
  - reflexivity.
  - destruct Hin as [->|Hin]; [congruence|auto].
Qed.

Lemma assoc_factor_dict_out tg n :
  ~ In n (map tc_name (tg_factor tg)) -> assoc n (factor_dict tg) = None.
Proof.
  unfold factor_dict. induction (tg_factor tg) as [|c' l IH]; [reflexivity|].
  intros Hn. cbn [map assoc fst snd]. destruct (String.eqb_spec n (tc_name c')) as [E|E].
  - exfalso. apply Hn. left. auto.
  - apply IH. intros Hin. apply Hn. right. exact Hin.
Qed.

Lemma spans_factor_full_dict tg :
  match tg_expr tg with
  | TTIntercept => True
  | TTTerm _ cs => forall c, In c cs -> ~ In (tc_name c) (map tc_name (tg_factor tg))
  end ->
  spans_factor_full (SpDict (factor_dict tg)) tg false.
Proof.
  intros H. split.
  - intros c Hc. cbn [spans_for]. rewrite (assoc_factor_dict_in _ _ Hc). reflexivity.
  - destruct (tg_expr tg) as [|en cs]; [exact I|]. intros c Hc. cbn [spans_for].
    rewrite (assoc_factor_dict_out _ _ (H c Hc)). reflexivity.
Qed.

Lemma mapM_ext_in {A B} (f g : A -> res B) l :
  (forall x, In x l -> f x = g x) -> mapM f l = mapM g l.
Proof.
  induction l as [|x l IH]; intros H; [reflexivity|].
  cbn [mapM]. rewrite (H x (or_introl eq_refl)), IH; [reflexivity|]. intros y Hy. apply H. right. exact Hy.
Qed.

Lemma mapM_app {A B} (f : A -> res B) l l' ys ys' :
  mapM f l = Ok ys -> mapM f l' = Ok ys' -> mapM f (l ++ l') = Ok (ys ++ ys').
Proof.
  revert ys. induction l as [|x l IH]; intros ys H H'; cbn [mapM app] in *.
  - injection H as <-. exact H'.
  - apply bind_ok in H as (y & Hy & H). apply bind_ok in H as (yr & Hyr & H). injection H as <-.
    rewrite Hy. cbn [bind]. rewrite (IH _ Hyr H'). reflexivity.
Qed.

(* every component of the factor of a built group-specific term has labels *)
Lemma gterm_factor_has_labels nrows tg flag dg :
  set_data_gterm nrows tg flag = Ok dg -> Forall (fun d => exists l, dc_labels d = Some l) (dg_factor dg).
Proof.
  unfold set_data_gterm. intros H.
  apply bind_ok in H as (e & He & H). apply bind_ok in H as (fs & Hfs & H).
  apply bind_ok in H as (glabs & Hg & H). apply bind_ok in H as (flabs & Hf & H).
  apply bind_ok in H as (levels & Hl & H). injection H as <-. cbn [dg_factor].
  apply mapM_ok in Hf. clear - Hf. induction Hf as [|d l ds ls Hd _ IH]; constructor; [|assumption].
  destruct (dc_labels d); [eauto|discriminate].
Qed.

(** (1|g) as the common term g.  The common term is built, its components are those of the
    factor, its rows are the rows of the group-specific term, and the labels correspond:
    1|gr  against  gr.  Hypotheses: a grouping factor (always so for parsed descriptions); the
    spans argument codes it in full; the factor has no more rows than observations; and, for a
    factor of several components, no component without a column. *)
Theorem gterm_intercept_as_common nrows tg flag dg s :
  set_data_gterm nrows tg flag = Ok dg -> tg_expr tg = TTIntercept ->
  tg_factor tg <> [] -> spans_factor_full s tg flag ->
  List.length (factor_rows (dg_factor dg)) <= nrows ->
  (List.length (tg_factor tg) = 1 \/ Forall nonempty_labels (dg_factor dg)) ->
  exists dt,
    set_data_term nrows (as_common tg) s = Ok dt /\
    dt_comps dt = dg_factor dg /\
    dt_rows dt = dg_rows dg /\
    dt_labels dt = Some (gfactor_labels dg) /\
    dg_labels dg = map (fun gr => ("1|" ++ gr)%string) (gfactor_labels dg).
Proof.
  intros H He Hne [Hsp _] Hn Hlab.
  pose proof (gterm_intercept_rows _ _ _ _ H He Hn) as Hrows.
  pose proof (gterm_labels _ _ _ _ H) as Hl. rewrite He in Hl.
  pose proof (gterm_factor_has_labels _ _ _ _ H) as Hhas.
  destruct (set_data_gterm_inv _ _ _ _ H) as (_ & Hfs & _).
  assert (Hfs' : mapM (fun c => set_data_comp c (spans_for s (tc_name c)) nrows) (tg_factor tg)
                 = Ok (dg_factor dg)).
  { rewrite <- Hfs. apply mapM_ext_in. intros c Hc. rewrite (Hsp c Hc). reflexivity. }
  unfold as_common. rewrite He.
  pose proof (mapM_length _ _ _ Hfs) as Hlen.
  destruct (dg_factor dg) as [|d0 [|d1 rest]] eqn:Efs.
  - exfalso. destruct (tg_factor tg); [congruence|discriminate Hlen].
  - eexists. split; [unfold set_data_term; rewrite Hfs'; cbn [bind]; reflexivity|].
    cbn [dt_comps dt_rows dt_labels]. split; [reflexivity|]. split; [rewrite Hrows; reflexivity|].
    split; [|exact Hl]. unfold gfactor_labels. rewrite Efs. cbn. inversion Hhas as [|? ? (l & El) _]; subst.
    unfold dc_labs. rewrite El. reflexivity.
  - destruct Hlab as [Hone|Hlab]; [rewrite <- Hlen in Hone; discriminate Hone|].
    rewrite (set_data_term_build nrows _ _ s _ Hfs'); [|cbn; lia|exact Hhas].
    assert (Hex : existsb (fun l => match l with [] => true | _ => false end)
                          (map dc_labs (d0 :: d1 :: rest)) = false).
    { apply existsb_nil_false. clear - Hlab. induction Hlab; constructor; assumption. }
    rewrite Hex. eexists. split; [reflexivity|]. cbn [dt_comps dt_rows dt_labels].
    split; [reflexivity|]. split; [rewrite Hrows; reflexivity|]. split; [|exact Hl].
    unfold gfactor_labels. rewrite Efs. reflexivity.
Qed.

(** (e|g), e not the intercept, as the common term g:e. *)
Theorem gterm_as_common_term nrows tg flag dg s ename cs :
  set_data_gterm nrows tg flag = Ok dg -> tg_expr tg = TTTerm ename cs ->
  tg_factor tg <> [] -> spans_factor_full s tg flag ->
  Forall nonempty_labels (dg_factor dg ++ dt_comps (dg_expr dg)) ->
  exists dt levels labs,
    set_data_term nrows (as_common tg) s = Ok dt /\
    dt_comps dt = dg_factor dg ++ dt_comps (dg_expr dg) /\
    dt_rows dt = dg_rows dg /\
    dt_labels (dg_expr dg) = Some levels /\
    dt_labels dt = Some labs /\
    labs = flat_map (fun gr => map (fun lv => (gr ++ ":" ++ lv)%string) levels) (gfactor_labels dg) /\
    dg_labels dg = flat_map (fun gr => map (fun lv => (lv ++ "|" ++ gr)%string) levels) (gfactor_labels dg) /\
    Forall2 label_corr (dg_labels dg) labs.
Proof.
  intros H He Hne [Hspf Hspe] Hlab. rewrite He in Hspe.
  pose proof (gterm_rows_as_interaction _ _ _ _ H) as (Hfs & Hexpr & _ & _ & Hm).
  rewrite He in Hm, Hexpr. destruct Hm as [Hene Hrows]. specialize (Hrows Hne).
  pose proof (gterm_labels _ _ _ _ H) as Hl. rewrite He in Hl. destruct Hl as (levels & Hlev & Hgl).
  pose proof (gterm_factor_has_labels _ _ _ _ H) as Hhas.
  destruct (set_data_term_shape _ _ _ _ _ Hexpr) as (Hecs & _ & _ & _ & Hshape).
  assert (Hfs' : mapM (fun c => set_data_comp c (spans_for s (tc_name c)) nrows) (tg_factor tg)
                 = Ok (dg_factor dg)).
  { rewrite <- Hfs. apply mapM_ext_in. intros c Hc. rewrite (Hspf c Hc). reflexivity. }
  assert (Hes' : mapM (fun c => set_data_comp c (spans_for s (tc_name c)) nrows) cs
                 = Ok (dt_comps (dg_expr dg))).
  { rewrite <- Hecs. apply mapM_ext_in. intros c Hc. rewrite (Hspe c Hc). reflexivity. }
  pose proof (mapM_app _ _ _ _ _ Hfs' Hes') as Hall.
  assert (Hfne : dg_factor dg <> []) by (eapply mapM_nonnil; eassumption).
  assert (Hehas : Forall (fun d => exists l, dc_labels d = Some l) (dt_comps (dg_expr dg))).
  { destruct Hshape as [(d & Ed & El)|(_ & Hall' & _)].
    - rewrite Ed. constructor; [|constructor]. rewrite <- El, Hlev. eauto.
    - clear - Hall'. induction Hall' as [|d l (lab & El & _) _ IH]; constructor; eauto. }
  assert (Helabs : label_product (map dc_labs (dt_comps (dg_expr dg))) ":" = levels).
  { destruct Hshape as [(d & Ed & El)|(_ & _ & El & _)].
    - rewrite Ed. cbn. unfold dc_labs. rewrite <- El, Hlev. reflexivity.
    - rewrite Hlev in El. injection El as ->. reflexivity. }
  unfold as_common. rewrite He.
  rewrite (set_data_term_build nrows _ _ s _ Hall).
  2:{ rewrite app_length. destruct (dg_factor dg); [congruence|].
      destruct (dt_comps (dg_expr dg)); [congruence|]. cbn. lia. }
  2:{ apply Forall_app. split; assumption. }
  assert (Hex : existsb (fun l => match l with [] => true | _ => false end)
                        (map dc_labs (dg_factor dg ++ dt_comps (dg_expr dg))) = false).
  { apply existsb_nil_false. clear - Hlab. induction Hlab; constructor; assumption. }
  rewrite Hex. eexists. exists levels. eexists. split; [reflexivity|]. cbn [dt_comps dt_rows dt_labels].
  split; [reflexivity|]. split; [symmetry; exact Hrows|]. split; [exact Hlev|]. split; [reflexivity|].
  assert (Hprod : label_product (map dc_labs (dg_factor dg ++ dt_comps (dg_expr dg))) ":"
                  = flat_map (fun gr => map (fun lv => (gr ++ ":" ++ lv)%string) levels) (gfactor_labels dg)).
  { rewrite map_app, label_product_app.
    - rewrite Helabs. reflexivity.
    - destruct (dg_factor dg); [congruence|discriminate].
    - destruct (dt_comps (dg_expr dg)); [congruence|discriminate]. }
  split; [exact Hprod|]. split; [exact Hgl|].
  rewrite Hprod, Hgl.
  apply (Forall2_flat_map_map label_corr (fun gr lv => (lv ++ "|" ++ gr)%string)
                              (fun gr lv => (gr ++ ":" ++ lv)%string)).
  intros gr lv. exists gr, lv. split; reflexivity.
Qed.

(** The hypothesis on the labels cannot be dropped: with a component that has no column the
    common term is refused (np.column_stack of an empty product) although the group-specific
    term was built (with zero columns). *)
Theorem gterm_as_common_empty_refused nrows tg flag dg s ename cs :
  set_data_gterm nrows tg flag = Ok dg -> tg_expr tg = TTTerm ename cs ->
  tg_factor tg <> [] -> spans_factor_full s tg flag ->
  ~ Forall nonempty_labels (dg_factor dg ++ dt_comps (dg_expr dg)) ->
  set_data_term nrows (as_common tg) s = Err EValue.
Proof.
  intros H He Hne [Hspf Hspe] Hlab. rewrite He in Hspe.
  pose proof (gterm_rows_as_interaction _ _ _ _ H) as (Hfs & Hexpr & _ & _ & Hm).
  rewrite He in Hm, Hexpr. destruct Hm as [Hene _].
  pose proof (gterm_labels _ _ _ _ H) as Hl. rewrite He in Hl. destruct Hl as (levels & Hlev & _).
  pose proof (gterm_factor_has_labels _ _ _ _ H) as Hhas.
  destruct (set_data_term_shape _ _ _ _ _ Hexpr) as (Hecs & _ & _ & _ & Hshape).
  assert (Hfs' : mapM (fun c => set_data_comp c (spans_for s (tc_name c)) nrows) (tg_factor tg)
                 = Ok (dg_factor dg)).
  { rewrite <- Hfs. apply mapM_ext_in. intros c Hc. rewrite (Hspf c Hc). reflexivity. }
  assert (Hes' : mapM (fun c => set_data_comp c (spans_for s (tc_name c)) nrows) cs
                 = Ok (dt_comps (dg_expr dg))).
  { rewrite <- Hecs. apply mapM_ext_in. intros c Hc. rewrite (Hspe c Hc). reflexivity. }
  pose proof (mapM_app _ _ _ _ _ Hfs' Hes') as Hall.
  assert (Hfne : dg_factor dg <> []) by (eapply mapM_nonnil; eassumption).
  assert (Hehas : Forall (fun d => exists l, dc_labels d = Some l) (dt_comps (dg_expr dg))).
  { destruct Hshape as [(d & Ed & El)|(_ & Hall' & _)].
    - rewrite Ed. constructor; [|constructor]. rewrite <- El, Hlev. eauto.
    - clear - Hall'. induction Hall' as [|d l (lab & El & _) _ IH]; constructor; eauto. }
  unfold as_common. rewrite He.
  rewrite (set_data_term_build nrows _ _ s _ Hall).
  2:{ rewrite app_length. destruct (dg_factor dg); [congruence|].
      destruct (dt_comps (dg_expr dg)); [congruence|]. cbn. lia. }
  2:{ apply Forall_app. split; assumption. }
  destruct (existsb _ _) eqn:Hex; [reflexivity|]. exfalso. apply Hlab.
  apply existsb_nil_false in Hex. clear - Hex.
  induction (dg_factor dg ++ dt_comps (dg_expr dg)) as [|d l IH]; constructor.
  - inversion Hex; assumption.
  - inversion Hex; auto.
Qed.

(* ------------------------------------------------------------------------------------------ *)
(** * Concrete instance: a 2 x 3 crossing, one observation per cell *)

Definition gx_D : frame :=
  [("y", ColNum false [gc_q 1; gc_q 2; gc_q 3; gc_q 4; gc_q 5; gc_q 6]);
   ("f", ColStr None [Some "a"; Some "b"; Some "c"; Some "a"; Some "b"; Some "c"]);
   ("g", ColStr None [Some "p"; Some "p"; Some "p"; Some "q"; Some "q"; Some "q"])].
Definition gx_tg0 : tgterm := TG "" TTIntercept [] "".
Definition gx_tgs (s : string) : list tgterm :=
  gc_get [] (mapM (set_type_gterm gc_cx gx_D) (groups (gc_mdl s))).
Definition gx_show (r : res dterm) : option (list (list string) * option (list string)) :=
  match r with Ok dt => Some (map (map cshow) (dt_rows dt), dt_labels dt) | Err _ => None end.

(* (1|g) of y ~ (f|g): the common term g, coded in full *)
Example gterm_intercept_as_common_instance :
  let tg := nth 0 (gx_tgs "y ~ (f|g)") gx_tg0 in
  exists dg,
    set_data_gterm 6 tg true = Ok dg /\ tg_expr tg = TTIntercept /\ tg_factor tg <> [] /\
    spans_factor_full (SpBool true) tg true /\
    List.length (factor_rows (dg_factor dg)) <= 6 /\ List.length (tg_factor tg) = 1 /\
    map (map cshow) (dg_rows dg)
    = [["1"; "0"]; ["1"; "0"]; ["1"; "0"]; ["0"; "1"]; ["0"; "1"]; ["0"; "1"]] /\
    dg_labels dg = ["1|g[p]"; "1|g[q]"] /\
    gx_show (set_data_term 6 (as_common tg) (SpBool true))
    = Some ([["1"; "0"]; ["1"; "0"]; ["1"; "0"]; ["0"; "1"]; ["0"; "1"]; ["0"; "1"]],
            Some ["g[p]"; "g[q]"]).
Proof.
  cbv zeta. eexists. split; [vm_compute; reflexivity|]. split; [vm_compute; reflexivity|].
  split; [vm_compute; discriminate|]. split; [apply spans_factor_full_true|].
  split; [vm_compute; lia|]. repeat split; vm_compute; reflexivity.
Qed.

(* (f|g) of y ~ (f|g): reduced f inside full g = the common term g:f with g coded in full *)
Example gterm_as_common_instance :
  let tg := nth 1 (gx_tgs "y ~ (f|g)") gx_tg0 in
  let s := SpDict (factor_dict tg) in
  exists dg ename cs,
    set_data_gterm 6 tg false = Ok dg /\ tg_expr tg = TTTerm ename cs /\ tg_factor tg <> [] /\
    spans_factor_full s tg false /\
    Forall nonempty_labels (dg_factor dg ++ dt_comps (dg_expr dg)) /\
    map (map cshow) (dg_rows dg)
    = [["0"; "0"; "0"; "0"]; ["1"; "0"; "0"; "0"]; ["0"; "1"; "0"; "0"];
       ["0"; "0"; "0"; "0"]; ["0"; "0"; "1"; "0"]; ["0"; "0"; "0"; "1"]] /\
    dg_labels dg = ["f[b]|g[p]"; "f[c]|g[p]"; "f[b]|g[q]"; "f[c]|g[q]"] /\
    gx_show (set_data_term 6 (as_common tg) s)
    = Some ([["0"; "0"; "0"; "0"]; ["1"; "0"; "0"; "0"]; ["0"; "1"; "0"; "0"];
             ["0"; "0"; "0"; "0"]; ["0"; "0"; "1"; "0"]; ["0"; "0"; "0"; "1"]],
            Some ["g[p]:f[b]"; "g[p]:f[c]"; "g[q]:f[b]"; "g[q]:f[c]"]).
Proof.
  cbv zeta. eexists. eexists. eexists. split; [vm_compute; reflexivity|].
  split; [vm_compute; reflexivity|]. split; [vm_compute; discriminate|].
  split.
  { apply spans_factor_full_dict. vm_compute. intros c [<-|[]]. cbn. intros [E|[]]. discriminate E. }
  split; [vm_compute; repeat constructor; discriminate|].
  repeat split; vm_compute; reflexivity.
Qed.

(* (0 + f|g): full f inside full g = the common term g:f with both coded in full *)
Example gterm_as_common_full_instance :
  let tg := nth 0 (gx_tgs "y ~ (0 + f|g)") gx_tg0 in
  exists dg ename cs,
    set_data_gterm 6 tg true = Ok dg /\ tg_expr tg = TTTerm ename cs /\ tg_factor tg <> [] /\
    spans_factor_full (SpBool true) tg true /\
    Forall nonempty_labels (dg_factor dg ++ dt_comps (dg_expr dg)) /\
    map (map cshow) (dg_rows dg)
    = [["1"; "0"; "0"; "0"; "0"; "0"]; ["0"; "1"; "0"; "0"; "0"; "0"]; ["0"; "0"; "1"; "0"; "0"; "0"];
       ["0"; "0"; "0"; "1"; "0"; "0"]; ["0"; "0"; "0"; "0"; "1"; "0"]; ["0"; "0"; "0"; "0"; "0"; "1"]] /\
    dg_labels dg = ["f[a]|g[p]"; "f[b]|g[p]"; "f[c]|g[p]"; "f[a]|g[q]"; "f[b]|g[q]"; "f[c]|g[q]"] /\
    gx_show (set_data_term 6 (as_common tg) (SpBool true))
    = Some (map (map cshow) (dg_rows dg),
            Some ["g[p]:f[a]"; "g[p]:f[b]"; "g[p]:f[c]"; "g[q]:f[a]"; "g[q]:f[b]"; "g[q]:f[c]"]).
Proof.
  cbv zeta. eexists. eexists. eexists. split; [vm_compute; reflexivity|].
  split; [vm_compute; reflexivity|]. split; [vm_compute; discriminate|].
  split; [apply spans_factor_full_true|].
  split; [vm_compute; repeat constructor; discriminate|].
  repeat split; vm_compute; reflexivity.
Qed.

(* the refusal is real: a one-level effect under reduced coding has no column; the group-specific
   term is built with zero columns, the common term g:f raises *)
Example gterm_as_common_empty_instance :
  let D := [("y", ColNum false [gc_q 1; gc_q 2]);
            ("f", ColStr None [Some "a"; Some "a"]);
            ("g", ColStr None [Some "p"; Some "q"])] in
  let tg := nth 1 (gc_get [] (mapM (set_type_gterm gc_cx D) (groups (gc_mdl "y ~ (f|g)")))) gx_tg0 in
  exists dg, set_data_gterm 2 tg false = Ok dg /\ dg_rows dg = [[]; []] /\ dg_labels dg = [] /\
             set_data_term 2 (as_common tg) (SpDict (factor_dict tg)) = Err EValue.
Proof. cbv zeta. eexists. split; [vm_compute; reflexivity|]. repeat split; vm_compute; reflexivity. Qed.

(* ------------------------------------------------------------------------------------------ *)
(** * End to end: every group-specific term of a built design *)

Lemma set_type_gterm_factor cx data g tg :
  set_type_gterm cx data g = Ok tg ->
  exists f, gfactor g = CT f /\ List.length (tg_factor tg) = List.length f.
Proof.
  unfold set_type_gterm. destruct (gfactor g) as [| |f]; try discriminate.
  intros H. apply bind_ok in H as (fs & Hfs & H). apply bind_ok in H as (e & _ & H).
  apply bind_ok in H as (nm & _ & H). injection H as <-. cbn [tg_factor].
  exists f. split; [reflexivity|]. rewrite map_length. eapply mapM_length. eassumption.
Qed.

(** Every group-specific term (e|g) of a design built by [eval_model]: the components of g are
    coded in full, those of e with the flag [group_spans] (full iff e is the intercept or (1|g)
    is absent), and the rows are those of the interaction  g:e  (of g alone for the intercept). *)
Theorem group_term_is_common_interaction cx data m ds :
  eval_model cx data m = Ok ds ->
  forall dg, In dg (ds_group ds) ->
  exists g tg,
    In g (groups m) /\ set_type_gterm cx data g = Ok tg /\
    let flag := group_spans (groups m) g in
    set_data_gterm (ds_nrows ds) tg flag = Ok dg /\
    Forall (fun d => dc_spans d = true) (dg_factor dg) /\
    Forall (fun d => dc_spans d = flag) (dt_comps (dg_expr dg)) /\
    match gexpr g with
    | CI => dg_rows dg = firstn (ds_nrows ds) (factor_rows (dg_factor dg))
    | _ => gfactor g <> CT [] -> dg_rows dg = factor_rows (dg_factor dg ++ dt_comps (dg_expr dg))
    end.
Proof.
  intros H dg Hin.
  destruct (group_effect_coding_rule _ _ _ _ H dg Hin) as (g & tg & Hg & Hty & Hset & _).
  cbv zeta in Hset. exists g, tg. split; [exact Hg|]. split; [exact Hty|]. cbv zeta.
  split; [exact Hset|].
  pose proof (gterm_rows_as_interaction _ _ _ _ Hset) as (_ & _ & Hf & He & Hm).
  split; [exact Hf|]. split; [exact He|].
  pose proof (set_type_gterm_effect _ _ _ _ Hty) as Heff.
  destruct (set_type_gterm_factor _ _ _ _ Hty) as (f & Egf & Hlen).
  assert (Hne : gfactor g <> CT [] -> tg_factor tg <> []).
  { intros Hn E. rewrite E in Hlen. rewrite Egf in Hn. destruct f; [congruence|discriminate Hlen]. }
  destruct (gexpr g) as [| |t]; cbn [type_effect] in Heff.
  - injection Heff as Heff. rewrite <- Heff in Hm. apply Hm.
  - discriminate Heff.
  - unfold set_type_term in Heff. apply bind_ok in Heff as (cs & _ & Heff). injection Heff as Heff.
    rewrite <- Heff in Hm. intros Hn. apply Hm. apply Hne. exact Hn.
Qed.

(* ------------------------------------------------------------------------------------------ *)
(** * The 2 x 3 crossing, by computation: the columns of the grouping factor g in y ~ (f|g) form
      an invertible 6 x 6 matrix (independent, and spanning all g-by-f cell means) *)

Definition mx_col (j : nat) (m : list (list cell)) : list cell := map (fun r => nth j r None) m.
Definition mx_dot (r c : list cell) : cell := fold_left cadd (zip_with cmul r c) (zcell 0).
Definition mx_mul (a b : list (list cell)) : list (list cell) :=
  map (fun r => map (fun j => mx_dot r (mx_col j b)) (seq 0 (width b))) a.
Definition mx_z (m : list (list Z)) : list (list cell) := map (map zcell) m.

(* the block of the grouping factor: the columns of 1|g and of f|g side by side *)
Definition gx_block (s : string) : list (list cell) :=
  let ds := gc_get gc_design0 (eval_model gc_cx gx_D (gc_mdl s)) in
  hstack (map dg_rows (ds_group ds)) 6.

Example crossing_block_intercept_effect :
  map (map cshow) (gx_block "y ~ (f|g)")
  = [["1"; "0"; "0"; "0"; "0"; "0"];
     ["1"; "0"; "1"; "0"; "0"; "0"];
     ["1"; "0"; "0"; "1"; "0"; "0"];
     ["0"; "1"; "0"; "0"; "0"; "0"];
     ["0"; "1"; "0"; "0"; "1"; "0"];
     ["0"; "1"; "0"; "0"; "0"; "1"]].
Proof. vm_compute. reflexivity. Qed.

(* the coefficients are read off the cell means: 1|g[k] = mean(k, a), f[l]|g[k] = mean(k, l) - mean(k, a) *)
Definition gx_inverse : list (list cell) :=
  mx_z [[ 1; 0; 0; 0; 0; 0];
        [ 0; 0; 0; 1; 0; 0];
        [-1; 1; 0; 0; 0; 0];
        [-1; 0; 1; 0; 0; 0];
        [ 0; 0; 0;-1; 1; 0];
        [ 0; 0; 0;-1; 0; 1]]%Z.
Definition gx_identity : list (list string) :=
  [["1"; "0"; "0"; "0"; "0"; "0"]; ["0"; "1"; "0"; "0"; "0"; "0"]; ["0"; "0"; "1"; "0"; "0"; "0"];
   ["0"; "0"; "0"; "1"; "0"; "0"]; ["0"; "0"; "0"; "0"; "1"; "0"]; ["0"; "0"; "0"; "0"; "0"; "1"]].

Example crossing_block_invertible :
  map (map cshow) (mx_mul gx_inverse (gx_block "y ~ (f|g)")) = gx_identity /\
  map (map cshow) (mx_mul (gx_block "y ~ (f|g)") gx_inverse) = gx_identity.
Proof. split; vm_compute; reflexivity. Qed.

(* (0 + f|g): the block is the identity: one indicator per cell *)
Example crossing_block_full_effect : map (map cshow) (gx_block "y ~ (0 + f|g)") = gx_identity.
Proof. vm_compute. reflexivity. Qed.

(* (1|g) alone: the two group indicators *)
Example crossing_block_intercept :
  map (map cshow) (gx_block "y ~ (1|g)")
  = [["1"; "0"]; ["1"; "0"]; ["1"; "0"]; ["0"; "1"]; ["0"; "1"]; ["0"; "1"]].
Proof. vm_compute. reflexivity. Qed.

Print Assumptions row_kron_assoc.
Print Assumptions rows_kron_assoc.
Print Assumptions factor_rows_app.
Print Assumptions label_product_app.
Print Assumptions set_data_term_shape.
Print Assumptions gterm_rows_as_interaction.
Print Assumptions gterm_intercept_rows.
Print Assumptions gterm_labels.
Print Assumptions gterm_intercept_as_common.
Print Assumptions gterm_as_common_term.
Print Assumptions gterm_as_common_empty_refused.
Print Assumptions group_term_is_common_interaction.
Print Assumptions gterm_as_common_instance.
Print Assumptions crossing_block_invertible.
Print Assumptions gterm_as_common_empty_instance.
