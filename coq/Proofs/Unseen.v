(* Property C10: unseen levels and new groups when a design is evaluated on new data.
   - [unseen_error_iff], [warns_iff], [new_categoric_rows], [unseen_zero_rows]: what
     [new_categoric] does with a value that is not a level of the (frozen) component;
   - [row_kron_zero_left]/[row_kron_zero_right]/[fold_row_kron_zero]: a zero row annihilates every
     column of an interaction (for NaN-free other factors; NaN stays NaN otherwise);
   - [new_group_block], [extend_zero_rows_spec]: the trailing "new group" column of [new_gterm];
   - [new_group_new_factors]: which factors [new_group] reports;
   - [config_validates]: the three accepted configuration strings. *)
From Verif Require Import Base Coding Contrasts Frame Eval Design History DesignStructure DesignCoding.
From Coq Require Import Lia.
Local Close Scope Qc_scope.
Local Close Scope Q_scope.
Local Open Scope string_scope.
Local Open Scope list_scope.
Local Open Scope nat_scope.

(* ------------------------------------------------------------------------------------------ *)
(** * Unseen values *)

(* a value is unseen when it is missing or not one of the levels *)
Definition unseen_val (lv : list string) (x : option string) : bool :=
  match x with Some s => negb (existsb (String.eqb s) lv) | None => true end.

Lemma existsb_eqb_In s lv : existsb (String.eqb s) lv = true <-> In s lv.
Proof.
  rewrite existsb_exists. split.
  - intros (y & Hy & E). apply String.eqb_eq in E. subst. assumption.
  - intros H. exists s. split; [assumption|apply String.eqb_refl].
Qed.

Lemma unseen_val_spec lv x :
  unseen_val lv x = true <-> x = None \/ exists s, x = Some s /\ ~ In s lv.
Proof.
  destruct x as [s|]; simpl.
  - rewrite negb_true_iff. split.
    + intros H. right. exists s. split; [reflexivity|]. intros Hin.
      apply existsb_eqb_In in Hin. congruence.
    + intros [H|(s' & E & H)]; [discriminate|]. injection E as <-.
      destruct (existsb (String.eqb s) lv) eqn:E; [|reflexivity].
      apply existsb_eqb_In in E. contradiction.
  - split; auto.
Qed.

(* the row a value is coded with: it only depends on the frozen levels and contrast matrix *)
Definition cat_row (cm : contrast) (lv : list string) (x : option string) : list cell :=
  code_row (cmatrix cm) (contrast_width cm)
           (match x with Some s => index_of s lv | None => None end).

Lemma new_categoric_unfold mode d cm xs :
  dc_contrast d = Some cm ->
  new_categoric mode d xs =
  (if negb (existsb (unseen_val (dc_levels d)) xs) then Ok (map (cat_row cm (dc_levels d)) xs, false)
   else match mode with
        | UError => Err EValue
        | UWarning => Ok (map (cat_row cm (dc_levels d)) xs, true)
        | USilent => Ok (map (cat_row cm (dc_levels d)) xs, false)
        end).
Proof.
  intros Hc. unfold new_categoric. rewrite Hc.
  assert (R : code_rows (cmatrix cm) (contrast_width cm) (level_codes (dc_levels d) xs)
              = map (cat_row cm (dc_levels d)) xs).
  { rewrite code_rows_map. unfold level_codes. rewrite map_map. reflexivity. }
  rewrite R. reflexivity.
Qed.

(** In mode "error" evaluation fails with a ValueError exactly when some value is unseen. *)
Theorem unseen_error_iff d cm xs :
  dc_contrast d = Some cm ->
  (new_categoric UError d xs = Err EValue <->
   exists x, In x xs /\ unseen_val (dc_levels d) x = true).
Proof.
  intros Hc. rewrite (new_categoric_unfold _ _ _ _ Hc).
  destruct (existsb (unseen_val (dc_levels d)) xs) eqn:E; simpl.
  - split; [intros _|reflexivity]. apply existsb_exists in E. exact E.
  - split; [discriminate|]. intros H. apply existsb_exists in H. congruence.
Qed.

Corollary unseen_error_iff_In d cm xs :
  dc_contrast d = Some cm ->
  (new_categoric UError d xs = Err EValue <->
   exists x, In x xs /\ (x = None \/ exists s, x = Some s /\ ~ In s (dc_levels d))).
Proof.
  intros Hc. rewrite (unseen_error_iff _ _ _ Hc).
  split; intros (x & Hx & H); exists x; (split; [assumption|]); apply unseen_val_spec; assumption.
Qed.

(* in mode "error" any other outcome is a success, and without a contrast it is an AttributeError *)
Theorem unseen_error_other d cm xs :
  dc_contrast d = Some cm ->
  new_categoric UError d xs = Err EValue \/
  new_categoric UError d xs = Ok (map (cat_row cm (dc_levels d)) xs, false).
Proof.
  intros Hc. rewrite (new_categoric_unfold _ _ _ _ Hc).
  destruct (existsb (unseen_val (dc_levels d)) xs); simpl; auto.
Qed.

(** Whatever the mode, when [new_categoric] succeeds row i is [cat_row] of value i: the same
    function of the value in every mode. *)
Theorem new_categoric_rows mode d cm xs rows w :
  dc_contrast d = Some cm ->
  new_categoric mode d xs = Ok (rows, w) ->
  rows = map (cat_row cm (dc_levels d)) xs.
Proof.
  intros Hc. rewrite (new_categoric_unfold _ _ _ _ Hc).
  destruct (negb _); [intros H; injection H as <- <-; reflexivity|].
  destruct mode; intros H; try discriminate H; injection H as <- <-; reflexivity.
Qed.

(** The modes "warning" and "silent" never fail (given a contrast). *)
Theorem lenient_modes_succeed mode d cm xs :
  dc_contrast d = Some cm -> mode <> UError ->
  exists w, new_categoric mode d xs = Ok (map (cat_row cm (dc_levels d)) xs, w).
Proof.
  intros Hc Hm. rewrite (new_categoric_unfold _ _ _ _ Hc).
  destruct (negb _); [eauto|]. destruct mode; [contradiction| |]; eauto.
Qed.

Lemma cat_row_unseen cm lv x :
  unseen_val lv x = true -> cat_row cm lv x = repeat (zcell 0) (contrast_width cm).
Proof.
  intros H. unfold cat_row. destruct x as [s|]; [|reflexivity].
  simpl in H. apply negb_true_iff in H.
  destruct (index_of s lv) as [k|] eqn:E; [|reflexivity].
  destruct (index_of_Some _ _ _ "" E) as [Hk Hs].
  assert (existsb (String.eqb s) lv = true); [|congruence].
  apply existsb_eqb_In. rewrite <- Hs. apply nth_In. assumption.
Qed.

Lemma cat_row_seen cm lv s :
  In s lv -> exists k, index_of s lv = Some k /\ k < List.length lv /\ nth k lv "" = s /\
                       cat_row cm lv (Some s) = map zcell (nth k (cmatrix cm) (repeat 0%Z (contrast_width cm))).
Proof.
  intros H. destruct (index_of_In _ _ H) as (k & E). exists k.
  destruct (index_of_Some _ _ _ "" E) as [Hk Hs].
  repeat split; auto. unfold cat_row. rewrite E. reflexivity.
Qed.

(** In the modes "warning" and "silent": the row of an unseen value is all zeros, the row of a seen
    value is the row that mode "error" produces for it (on any data on which mode "error"
    succeeds, in particular on the single value). *)
Theorem unseen_zero_rows mode d cm xs rows w :
  dc_contrast d = Some cm ->
  new_categoric mode d xs = Ok (rows, w) ->
  List.length rows = List.length xs /\
  forall i x, nth_error xs i = Some x ->
    (unseen_val (dc_levels d) x = true ->
       nth i rows [] = repeat (zcell 0) (contrast_width cm)) /\
    (unseen_val (dc_levels d) x = false ->
       new_categoric UError d [x] = Ok ([nth i rows []], false)).
Proof.
  intros Hc H. pose proof (new_categoric_rows _ _ _ _ _ _ Hc H) as ->.
  split; [apply map_length|]. intros i x Hi.
  assert (Hlt : i < List.length xs) by (apply nth_error_Some; congruence).
  assert (Hrow : nth i (map (cat_row cm (dc_levels d)) xs) [] = cat_row cm (dc_levels d) x).
  { rewrite (nth_indep _ [] (cat_row cm (dc_levels d) x)) by (rewrite map_length; assumption).
    rewrite map_nth. f_equal. apply nth_error_nth. assumption. }
  rewrite Hrow. split.
  - apply cat_row_unseen.
  - intros Hs. rewrite (new_categoric_unfold _ _ _ _ Hc). simpl. rewrite Hs. reflexivity.
Qed.

(** The flag: a warning is issued exactly in mode "warning" when some value is unseen. *)
Theorem warns_iff mode d xs rows w :
  new_categoric mode d xs = Ok (rows, w) ->
  (w = true <-> mode = UWarning /\ exists x, In x xs /\ unseen_val (dc_levels d) x = true).
Proof.
  unfold new_categoric. destruct (dc_contrast d) as [cm|]; [|discriminate].
  fold (unseen_val (dc_levels d)).
  change (fun x : option string => match x with
                                   | Some s => negb (existsb (String.eqb s) (dc_levels d))
                                   | None => true end) with (unseen_val (dc_levels d)).
  destruct (existsb (unseen_val (dc_levels d)) xs) eqn:E; simpl.
  - apply existsb_exists in E.
    destruct mode; intros H; try discriminate H; injection H as <- <-.
    + split; auto.
    + split; [discriminate|]. intros [Hm _]; discriminate.
  - intros H; injection H as <- <-. split; [discriminate|].
    intros [_ Hex]. apply existsb_exists in Hex. congruence.
Qed.

(* ------------------------------------------------------------------------------------------ *)
(** * A zero row annihilates an interaction *)

Definition zero_row (r : list cell) : Prop := Forall (fun c => c = zcell 0) r.
Definition clean_row (r : list cell) : Prop := Forall (fun c => c <> None) r.

Lemma zero_row_repeat n : zero_row (repeat (zcell 0) n).
Proof. apply Forall_forall. intros c Hc. apply repeat_spec in Hc. assumption. Qed.

Lemma zero_row_eq r : zero_row r -> r = repeat (zcell 0) (List.length r).
Proof. induction 1 as [|c r Hc _ IH]; simpl; [reflexivity|]. rewrite Hc at 1. f_equal. exact IH. Qed.

Lemma zero_row_clean r : zero_row r -> clean_row r.
Proof. apply Forall_impl. intros c ->. discriminate. Qed.

Lemma cmul_zero_r c : cmul c (zcell 0) = nanzero c.
Proof.
  destruct c as [y|]; [|reflexivity]. unfold nanzero, cmul, zcell. f_equal.
  change (qz 0) with 0%Qc. apply Qcmult_0_r.
Qed.

Lemma cmul_clean a b : a <> None -> b <> None -> cmul a b <> None.
Proof. destruct a, b; simpl; congruence. Qed.

(** exact form, with NaN: a zero row on the left gives [nanzero] of the other row, repeated *)
Lemma row_kron_zero_left_nan n y :
  row_kron (repeat (zcell 0) n) y = List.concat (repeat (map nanzero y) n).
Proof.
  unfold row_kron. induction n as [|n IH]; simpl; [reflexivity|].
  rewrite IH. f_equal. apply map_ext. apply cmul_zero.
Qed.

Theorem row_kron_zero_left x y :
  zero_row x -> clean_row y -> zero_row (row_kron x y).
Proof.
  intros Hx Hy. unfold row_kron, zero_row. apply Forall_forall. intros c Hc.
  apply in_flat_map in Hc as (a & Ha & Hc). apply in_map_iff in Hc as (b & <- & Hb).
  unfold zero_row, clean_row in Hx, Hy. rewrite Forall_forall in Hx, Hy. rewrite (Hx a Ha), cmul_zero.
  specialize (Hy b Hb). destruct b; [reflexivity|congruence].
Qed.

Theorem row_kron_zero_right x y :
  clean_row x -> zero_row y -> zero_row (row_kron x y).
Proof.
  intros Hx Hy. unfold row_kron, zero_row. apply Forall_forall. intros c Hc.
  apply in_flat_map in Hc as (a & Ha & Hc). apply in_map_iff in Hc as (b & <- & Hb).
  unfold zero_row, clean_row in Hx, Hy. rewrite Forall_forall in Hx, Hy. rewrite (Hy b Hb), cmul_zero_r.
  specialize (Hx a Ha). destruct a; [reflexivity|congruence].
Qed.

Lemma row_kron_clean x y : clean_row x -> clean_row y -> clean_row (row_kron x y).
Proof.
  intros Hx Hy. unfold row_kron, clean_row. apply Forall_forall. intros c Hc.
  apply in_flat_map in Hc as (a & Ha & Hc). apply in_map_iff in Hc as (b & <- & Hb).
  unfold clean_row in Hx, Hy. rewrite Forall_forall in Hx, Hy. apply cmul_clean; auto.
Qed.

Lemma fold_row_kron_zero_acc rs : forall r0,
  zero_row r0 -> Forall clean_row rs -> zero_row (fold_left row_kron rs r0).
Proof.
  induction rs as [|r rs IH]; intros r0 H0 H; simpl; [assumption|].
  inversion H; subst. apply IH; [|assumption]. apply row_kron_zero_left; assumption.
Qed.

(** n-ary: in the row of an interaction (the fold of [row_kron] over the rows of its components),
    if one component row is zero and all the component rows are NaN-free then every column of the
    interaction is zero on that row. *)
Theorem fold_row_kron_zero rs : forall r0,
  Forall clean_row (r0 :: rs) -> Exists zero_row (r0 :: rs) ->
  zero_row (fold_left row_kron rs r0).
Proof.
  induction rs as [|r rs IH]; intros r0 Hc He.
  - simpl. inversion He as [? ? H|? ? H]; [assumption|inversion H].
  - simpl. inversion Hc as [|? ? Hc0 Hc']; subst. inversion Hc' as [|? ? Hcr Hcs]; subst.
    inversion He as [? ? H0|? ? He']; subst.
    + apply fold_row_kron_zero_acc; [|assumption]. apply row_kron_zero_left; assumption.
    + inversion He' as [? ? Hr|? ? Hrs]; subst.
      * apply fold_row_kron_zero_acc; [|assumption]. apply row_kron_zero_right; assumption.
      * apply IH.
        -- constructor; [apply row_kron_clean; assumption|assumption].
        -- apply Exists_cons_tl. assumption.
Qed.

(** On [new_term]: the row of an interaction term at an observation where one categoric component
    has an unseen value is zero, provided the rows of the components at that observation are
    NaN-free. *)
Theorem new_term_unseen_row cx mode data t rows w parts i :
  String.eqb (dt_kind t) "intercept" = false ->
  mapM (new_comp cx mode data) (dt_comps t) = Ok parts ->
  new_term cx mode data t = Ok (rows, w) ->
  Forall (fun p => clean_row (nth i (fst p) [])) parts ->
  Exists (fun p => zero_row (nth i (fst p) [])) parts ->
  zero_row (nth i rows []).
Proof.
  unfold new_term. intros -> -> H Hc He. cbn [bind] in H.
  destruct parts as [|p rest]; [discriminate|]. injection H as <- <-.
  rewrite fold_rows_kron_nth, map_map.
  apply fold_row_kron_zero.
  - inversion Hc; subst. constructor; [assumption|]. apply Forall_map. assumption.
  - inversion He; subst; [apply Exists_cons_hd; assumption|].
    apply Exists_cons_tl. apply Exists_exists. rewrite Exists_exists in H0.
    destruct H0 as (q & Hq & Hz). exists (nth i (fst q) []). split; [|assumption].
    apply in_map_iff. exists q. auto.
Qed.

(* ------------------------------------------------------------------------------------------ *)
(** * New groups: the trailing column of [new_gterm] *)

(* what new_gterm does to the factor matrix *)
Definition extend_zero_rows (j : list (list cell)) : list (list cell) :=
  let zero := map all_zero j in
  if existsb (fun b => b) zero
  then zip_with (fun r z => (r ++ [if z : bool then zcell 1 else zcell 0])%list) j zero
  else j.

Lemma extend_zero_rows_spec j :
  (Forall (fun r => all_zero r = false) j -> extend_zero_rows j = j) /\
  (Exists (fun r => all_zero r = true) j ->
     extend_zero_rows j = map (fun r => r ++ [if all_zero r then zcell 1 else zcell 0]) j).
Proof.
  unfold extend_zero_rows. split.
  - intros H. destruct (existsb (fun b => b) (map all_zero j)) eqn:E; [|reflexivity].
    apply existsb_exists in E as (b & Hb & ->). apply in_map_iff in Hb as (r & Hr & Hin).
    rewrite Forall_forall in H. rewrite (H r Hin) in Hr. discriminate.
  - intros H. destruct (existsb (fun b => b) (map all_zero j)) eqn:E.
    + rewrite <- (map_id j) at 1. rewrite zip_with_map. reflexivity.
    + exfalso. apply Exists_exists in H as (r & Hin & Hr).
      assert (existsb (fun b => b) (map all_zero j) = true); [|congruence].
      apply existsb_exists. exists true. split; [|reflexivity].
      apply in_map_iff. exists r. auto.
Qed.

Lemma all_zero_spec r : all_zero r = true <-> zero_row r.
Proof.
  unfold all_zero, zero_row. rewrite forallb_forall, Forall_forall.
  split; intros H c Hc; specialize (H c Hc).
  - destruct c as [q|]; [|discriminate]. apply Qc_eq_bool_correct in H. subst. reflexivity.
  - subst. reflexivity.
Qed.

(** The factor block of a group-specific term evaluated on new data.
    [j] is the factor matrix (the row-wise product of the coded factor components); when no row of
    [j] is all-zero the block is [rows_kron j x]; otherwise exactly one column is appended to [j]:
    1 on the all-zero rows (the observations of an unseen group), 0 elsewhere; the earlier columns
    are unchanged. *)
Theorem new_group_block cx mode data g rows w :
  new_gterm cx mode data g = Ok (rows, w) ->
  exists x p rest,
    new_term cx mode data (dg_expr g) = Ok x /\
    mapM (new_comp cx mode data) (dg_factor g) = Ok (p :: rest) /\
    let j := fold_left rows_kron (map fst rest) (fst p) in
    rows = rows_kron (extend_zero_rows j) (fst x) /\
    w = (snd x || existsb (fun q => snd q) (p :: rest)) /\
    List.length (extend_zero_rows j) = List.length j /\
    (Forall (fun r => ~ zero_row r) j -> extend_zero_rows j = j) /\
    (Exists zero_row j ->
       forall i, i < List.length j ->
         nth i (extend_zero_rows j) [] =
         nth i j [] ++ [if all_zero (nth i j []) then zcell 1 else zcell 0]).
Proof.
  unfold new_gterm. intros H.
  apply bind_ok in H as (x & Hx & H). apply bind_ok in H as (fparts & Hf & H).
  destruct fparts as [|p rest]; [discriminate|]. injection H as <- <-.
  exists x, p, rest. split; [assumption|]. split; [assumption|].
  cbv zeta. set (j := fold_left rows_kron (map fst rest) (fst p)).
  split; [reflexivity|]. split; [reflexivity|].
  destruct (extend_zero_rows_spec j) as [H1 H2]. split; [|split].
  - unfold extend_zero_rows. destruct (existsb _ _); [|reflexivity].
    rewrite zip_with_length, map_length. lia.
  - intros Hnz. apply H1. eapply Forall_impl; [|exact Hnz]. intros r Hr.
    destruct (all_zero r) eqn:E; [|reflexivity]. apply all_zero_spec in E. contradiction.
  - intros Hz i Hi. rewrite H2.
    + set (F := fun r => r ++ [if all_zero r then zcell 1 else zcell 0]).
      rewrite (nth_indep _ [] (F [])) by (rewrite map_length; assumption).
      rewrite (map_nth F). reflexivity.
    + eapply Exists_impl; [|exact Hz]. intros r Hr. apply all_zero_spec. assumption.
Qed.

(** the appended column times the effect row: on a new-group row the block is zero (or NaN where
    the effect is NaN) everywhere except in the trailing slot, which carries the effect row *)
Theorem new_group_row r e :
  zero_row r ->
  row_kron (r ++ [zcell 1]) e = List.concat (repeat (map nanzero e) (List.length r)) ++ e.
Proof.
  intros Hz. rewrite (zero_row_eq r Hz) at 1. unfold row_kron. rewrite flat_map_app.
  fold (row_kron (repeat (zcell 0) (List.length r)) e). rewrite row_kron_zero_left_nan.
  f_equal. simpl. rewrite app_nil_r. rewrite <- (map_id e) at 2. apply map_ext. apply cmul_one.
Qed.

Theorem old_group_row r e :
  row_kron (r ++ [zcell 0]) e = row_kron r e ++ map nanzero e.
Proof.
  unfold row_kron. rewrite flat_map_app. f_equal. simpl. rewrite app_nil_r.
  apply map_ext. apply cmul_zero.
Qed.

(* ------------------------------------------------------------------------------------------ *)
(** * The factors [new_group] reports as having new groups *)

(* first occurrences, in order *)
Fixpoint first_occ (l : list string) : list string :=
  match l with
  | [] => []
  | x :: r => x :: filter (fun y => negb (String.eqb x y)) (first_occ r)
  end.

Lemma first_occ_In l y : In y (first_occ l) <-> In y l.
Proof.
  induction l as [|x l IH]; simpl; [tauto|]. split.
  - intros [->|H]; [auto|]. apply filter_In in H as [H _]. right. apply IH. assumption.
  - intros [->|H]; [auto|]. destruct (String.eqb_spec x y) as [->|Hne]; [auto|].
    right. apply filter_In. split; [apply IH; assumption|].
    apply negb_true_iff. apply String.eqb_neq. assumption.
Qed.

Lemma NoDup_filter {T} (f : T -> bool) l : NoDup l -> NoDup (filter f l).
Proof.
  induction 1 as [|x l Hx _ IH]; simpl; [constructor|].
  destruct (f x); [|assumption]. constructor; [|assumption].
  intros H. apply filter_In in H as [H _]. contradiction.
Qed.

Lemma first_occ_NoDup l : NoDup (first_occ l).
Proof.
  induction l as [|x l IH]; simpl; constructor.
  - intros H. apply filter_In in H as [_ H]. rewrite String.eqb_refl in H. discriminate.
  - apply NoDup_filter. assumption.
Qed.

Lemma filter_filter {T} (f g : T -> bool) l : filter f (filter g l) = filter (fun x => g x && f x) l.
Proof.
  induction l as [|x l IH]; simpl; [reflexivity|].
  destruct (g x); simpl; [destruct (f x)|]; rewrite IH; reflexivity.
Qed.

(* the accumulation loop of new_group on the names of the changed terms *)
Definition add_new (acc : list string) (x : string) : list string :=
  if existsb (String.eqb x) acc then acc else acc ++ [x].

Lemma fold_add_new l : forall acc,
  fold_left add_new l acc
  = acc ++ filter (fun y => negb (existsb (String.eqb y) acc)) (first_occ l).
Proof.
  induction l as [|x l IH]; intros acc; simpl; [rewrite app_nil_r; reflexivity|].
  rewrite IH. unfold add_new. destruct (existsb (String.eqb x) acc) eqn:E; simpl.
  - f_equal. rewrite filter_filter. apply filter_ext_in. intros y _.
    destruct (String.eqb_spec x y) as [->|Hne]; simpl; [rewrite E; reflexivity|reflexivity].
  - rewrite <- app_assoc. simpl. f_equal. f_equal. rewrite filter_filter.
    apply filter_ext_in. intros y _. rewrite existsb_app. simpl. rewrite orb_false_r.
    rewrite negb_orb. rewrite (String.eqb_sym y x). apply andb_comm.
Qed.

(* a group-specific term whose block changed width *)
Definition width_changed (p : dgterm * (list (list cell) * bool)) : bool :=
  negb (width (fst (snd p)) =? width (dg_rows (fst p))).

Lemma new_factors_fold
      (l : list (dgterm * (list (list cell) * bool))) : forall (acc : nat * list (string * nat * nat) * list string),
  snd (fold_left
         (fun (acc : nat * list (string * nat * nat) * list string) (p : dgterm * (list (list cell) * bool)) =>
            let start := fst (fst acc) in
            let g := fst p in
            let w := width (fst (snd p)) in
            let nf := if negb (w =? width (dg_rows g)) &&
                         negb (existsb (String.eqb (dg_factor_name g)) (snd acc))
                      then snd acc ++ [dg_factor_name g] else snd acc in
            (start + w, snd (fst acc) ++ [(dg_name g, start, start + w)], nf)) l acc)
  = fold_left add_new (map (fun p => dg_factor_name (fst p)) (filter width_changed l)) (snd acc).
Proof.
  induction l as [|p l IH]; intros acc; [reflexivity|].
  cbn [fold_left]. rewrite IH. cbn [snd fst]. cbn [filter]. unfold width_changed at 2.
  destruct (negb (width (fst (snd p)) =? width (dg_rows (fst p)))); cbn [andb map fold_left].
  - f_equal. unfold add_new. destruct (existsb _ (snd acc)); reflexivity.
  - reflexivity.
Qed.

(** [ng_new_factors] is the list of the factor names of the group-specific terms whose block
    changed width (i.e. got the trailing new-group column), each name once, in the order of the
    first such term of the design. *)
Theorem new_group_new_factors cx mode ds data ng :
  new_group cx mode ds data = Ok ng ->
  exists parts,
    mapM (new_gterm cx mode data) (ds_group ds) = Ok parts /\
    ng_new_factors ng
    = first_occ (map (fun p => dg_factor_name (fst p))
                     (filter width_changed (combine (ds_group ds) parts))) /\
    NoDup (ng_new_factors ng) /\
    (forall f, In f (ng_new_factors ng) <->
               exists g p, In (g, p) (combine (ds_group ds) parts) /\
                           width (fst p) <> width (dg_rows g) /\ dg_factor_name g = f) /\
    ng_warned ng = existsb (fun x => snd x) parts.
Proof.
  unfold new_group. intros H. apply bind_ok in H as (parts & Hp & H). exists parts.
  split; [assumption|]. injection H as <-. cbn [ng_new_factors ng_warned].
  rewrite new_factors_fold, fold_add_new. cbn [snd app].
  assert (F : forall l, filter (fun y => negb (existsb (String.eqb y) [])) l = l).
  { intros l. induction l as [|a l IHl]; [reflexivity|]. cbn [filter existsb negb]. f_equal. exact IHl. }
  rewrite F. split; [reflexivity|]. split; [apply first_occ_NoDup|]. split; [|reflexivity].
  intros f. rewrite first_occ_In, in_map_iff. split.
  - intros ([g p] & <- & Hin). apply filter_In in Hin as [Hin Hc]. exists g, p.
    split; [assumption|]. split; [|reflexivity].
    unfold width_changed in Hc. cbn [fst snd] in Hc. apply negb_true_iff in Hc.
    apply Nat.eqb_neq. assumption.
  - intros (g & p & Hin & Hw & <-). exists (g, p). split; [reflexivity|].
    apply filter_In. split; [assumption|]. unfold width_changed. cbn [fst snd].
    apply negb_true_iff. apply Nat.eqb_neq. assumption.
Qed.

(* ------------------------------------------------------------------------------------------ *)
(** * Configuration values *)

Theorem config_validates v m :
  parse_mode v = Some m <->
  (v = "error" /\ m = UError) \/ (v = "warning" /\ m = UWarning) \/ (v = "silent" /\ m = USilent).
Proof.
  unfold parse_mode. split.
  - destruct (String.eqb_spec v "error") as [->|]; [intros H; injection H as <-; auto|].
    destruct (String.eqb_spec v "warning") as [->|]; [intros H; injection H as <-; auto|].
    destruct (String.eqb_spec v "silent") as [->|]; [intros H; injection H as <-; auto|].
    discriminate.
  - intros [ [-> ->] | [ [-> ->] | [-> ->] ] ]; reflexivity.
Qed.

Corollary config_accepts_iff v :
  (exists m, parse_mode v = Some m) <-> v = "error" \/ v = "warning" \/ v = "silent".
Proof.
  split.
  - intros (m & H). apply config_validates in H. tauto.
  - intros [-> | [-> | ->] ]; eexists; reflexivity.
Qed.

(* ------------------------------------------------------------------------------------------ *)
(** * Non-vacuity *)

Module UnseenExamples.
  (* a component with levels a, b, c, reduced Treatment coding *)
  Definition cm3 : contrast := Contrast (build 3 2 (treat_entry 0)) ["b"; "c"].
  Definition tc0 : tcomp := TC "f" (Algebra.CVar (Algebra.NStr "f") None) KCategoric (PStrs None []) [] false None.
  Definition d3 : dcomp := DC tc0 ["a"; "b"; "c"] (Some cm3) [] None false.

  Example unseen_error_ex : new_categoric UError d3 [Some "a"; Some "z"] = Err EValue.
  Proof. vm_compute. reflexivity. Qed.
  Example seen_error_ex :
    new_categoric UError d3 [Some "a"; Some "c"] = Ok ([[zcell 0; zcell 0]; [zcell 0; zcell 1]], false).
  Proof. vm_compute. reflexivity. Qed.
  Example unseen_warning_ex :
    new_categoric UWarning d3 [Some "c"; Some "z"; None]
    = Ok ([[zcell 0; zcell 1]; [zcell 0; zcell 0]; [zcell 0; zcell 0]], true).
  Proof. vm_compute. reflexivity. Qed.
  Example unseen_silent_ex :
    new_categoric USilent d3 [Some "c"; Some "z"]
    = Ok ([[zcell 0; zcell 1]; [zcell 0; zcell 0]], false).
  Proof. vm_compute. reflexivity. Qed.
  (* the hypotheses of unseen_error_iff hold *)
  Example unseen_error_iff_ex :
    exists x, In x [Some "a"; Some "z"] /\ unseen_val (dc_levels d3) x = true.
  Proof. exists (Some "z"). split; [right; left; reflexivity|reflexivity]. Qed.

  Example extend_ex :
    extend_zero_rows [[zcell 1; zcell 0]; [zcell 0; zcell 0]; [zcell 0; zcell 1]]
    = [[zcell 1; zcell 0; zcell 0]; [zcell 0; zcell 0; zcell 1]; [zcell 0; zcell 1; zcell 0]].
  Proof. vm_compute. reflexivity. Qed.
  Example extend_none_ex :
    extend_zero_rows [[zcell 1; zcell 0]; [zcell 0; zcell 1]] = [[zcell 1; zcell 0]; [zcell 0; zcell 1]].
  Proof. vm_compute. reflexivity. Qed.
  Example new_group_row_ex :
    row_kron ([zcell 0; zcell 0] ++ [zcell 1]) [zcell 1; zcell 7]
    = [zcell 0; zcell 0; zcell 0; zcell 0; zcell 1; zcell 7].
  Proof. vm_compute. reflexivity. Qed.
  Example first_occ_ex : first_occ ["g"; "h"; "g"; "k"; "h"] = ["g"; "h"; "k"].
  Proof. vm_compute. reflexivity. Qed.
  Example config_ex : parse_mode "warning" = Some UWarning /\ parse_mode "Warning" = None.
  Proof. split; reflexivity. Qed.
End UnseenExamples.
