(* C03 / C13 -- numeric-categorical interactions at the design level: what the two codings give,
   and why the widened rule ("the numeric part counts as present when its variables are main
   effects") is wrong. *)
From Coq Require Import Lia.
From Verif Require Import Base Algebra Coding Contrasts Frame Eval Design Driver DesignCoding NumericPart.
Local Close Scope Qc_scope.
Local Close Scope Q_scope.
Local Open Scope string_scope.
Local Open Scope list_scope.
Local Open Scope nat_scope.

(* ---------- 1. Model.eval with the coding analysis as a parameter ---------- *)
Definition eval_model_with (eb : list tinfo -> res (list (string * list subterm)))
           (cx : dctx) (data : frame) (m : model) : res design :=
  let n := frame_rows data in
  do tcs <- mapM (type_common cx data) (commons m);
  do tgs <- mapM (set_type_gterm cx data) (groups m);
  do enc1 <- eb (map term_kind_info tcs);
  do tcs2 <- add_extra_terms cx data enc1 tcs;
  do enc2 <- eb (map term_kind_info tcs2);
  do dcs <- mapM (fun t => do s <- common_spans enc2 t; set_data_term n t s) tcs2;
  do dgs <- mapM (fun p => set_data_gterm n (fst p) (group_spans (groups m) (snd p)))
                 (combine tgs (groups m));
  do r <- match resp m with
          | None => Ok None
          | Some t => do ty <- set_type_term cx data true t;
                      do d <- set_data_term n ty (SpBool true); Ok (Some d)
          end;
  Ok (Design n r
        (map snd (fold_left (fun acc t => dict_set (dt_name t) t acc) dcs []))
        (map snd (fold_left (fun acc g => dict_set (dg_name g) g acc) dgs []))).

Lemma eval_model_with_model : eval_model_with encoding_bools = eval_model.
Proof. reflexivity. Qed.

(* ---------- 2. the widened rule ---------- *)
Definition present_w (d : list (string * tinfo)) (num : list string) : bool :=
  (if dict_get (concat_with ":" num) d then true else false) ||
  forallb (fun n => match dict_get n d with Some (TMain _ KNumeric) => true | _ => false end) num.

Definition numeric_groups_w (d : list (string * tinfo))
  : list (list string * list (string * list factor)) :=
  fold_left
    (fun (acc : list (list string * list (string * list factor))) kv =>
       match snd kv with
       | TInter n comps =>
           let cat := map fst (filter (fun c => ckind_eqb (snd c) KCategoric) comps) in
           let num := map fst (filter (fun c => ckind_eqb (snd c) KNumeric) comps) in
           match cat, num with
           | _ :: _, _ :: _ =>
               let numeric_part := concat_with ":" num in
               let acc1 :=
                 match index_where (fun g => str_set_eqb (fst g) num) acc 0 with
                 | Some _ => acc
                 | None => (acc ++ [(num, [])])%list
                 end in
               map (fun g =>
                      if str_set_eqb (fst g) num then
                        let g1 := if present_w d num
                                  then dict_set numeric_part [] (snd g) else snd g in
                        (fst g, dict_set (fst kv) cat g1)
                      else g) acc1
           | _, _ => acc
           end
       | _ => acc
       end) d [].

Definition encoding_bools_w (ts : list tinfo) : res (list (string * list subterm)) :=
  let d := components_dict (intercept_first ts) in
  do per <- mapM pick_contrasts (categoric_group d :: map snd (numeric_groups_w d));
  Ok (fold_left (fun acc d => fold_left (fun a kv => dict_set (fst kv) (snd kv) a) d acc) per []).


(* ---------- 3. a 6-row frame ---------- *)
Definition np_q (z : Z) : cell := Some (qz z).
Definition np_get {T} (d : T) (r : res T) : T := match r with Ok x => x | Err _ => d end.
Definition np_mdl (s : string) : model := np_get (Mod None [] []) (describe_string s).
Definition np_cx : dctx := DCtx [] (fun x => x).
Definition np_D : frame :=
  [("y", ColNum false [np_q 1; np_q 2; np_q 3; np_q 4; np_q 5; np_q 6]);
   ("x", ColNum true [np_q 0; np_q 1; np_q 0; np_q 1; np_q 2; np_q 3]);
   ("z", ColNum true [np_q 0; np_q 0; np_q 1; np_q 1; np_q 1; np_q 2]);
   ("f", ColStr None [Some "a"; Some "a"; Some "a"; Some "a"; Some "b"; Some "b"])].

Definition np_infos (s : string) : list tinfo :=
  map term_kind_info (np_get [] (mapM (type_common np_cx np_D) (commons (np_mdl s)))).
Definition np_flag (eb : list tinfo -> res (list (string * list subterm))) (s : string)
  : option (list subterm) :=
  match eb (np_infos s) with Ok r => dict_get "f:x:z" r | Err _ => None end.

(* labels and rows (shown) of the common part of the design under a coding analysis *)
Definition np_common eb (s : string) : list dterm :=
  ds_common (np_get (Design 0 None [] []) (eval_model_with eb np_cx np_D (np_mdl s))).
Definition np_labels eb s : list string :=
  flat_map (fun t => match dt_labels t with Some l => l | None => [] end) (np_common eb s).
Definition np_matrix eb s : list (list cell) := hstack (map dt_rows (np_common eb s)) 6.
Definition np_show (m : list (list cell)) : list (list string) := map (map cshow) m.

(* the model: full / reduced / full *)
Example flag_main_effects : np_flag encoding_bools "y ~ x + z + f:x:z" = Some [[("f", true)]].
Proof. vm_compute. reflexivity. Qed.
Example flag_numeric_part : np_flag encoding_bools "y ~ x:z + f:x:z" = Some [[("f", false)]].
Proof. vm_compute. reflexivity. Qed.
Example flag_alone : np_flag encoding_bools "y ~ f:x:z" = Some [[("f", true)]].
Proof. vm_compute. reflexivity. Qed.
Example flag_all : np_flag encoding_bools "y ~ x + z + x:z + f:x:z" = Some [[("f", false)]].
Proof. vm_compute. reflexivity. Qed.
Example flag_main_effects_0 : np_flag encoding_bools "y ~ 0 + x + z + f:x:z" = Some [[("f", true)]].
Proof. vm_compute. reflexivity. Qed.

(* the typed terms of the text are the instance of the general theorem *)
Example infos_main_effects :
  np_infos "y ~ x + z + f:x:z" = [TIntercept; Tx "x"; Tz "z"; Taxz "f" "x" "z"].
Proof. vm_compute. reflexivity. Qed.

(* the widened rule gives another flag on the first text, the same on the others *)
Theorem widened_rule_differs :
  exists s, np_flag encoding_bools s <> np_flag encoding_bools_w s /\
            np_flag encoding_bools_w s = Some [[("f", false)]] /\
            ~ In "x:z" (map tinfo_name (np_infos s)).
Proof.
  exists "y ~ x + z + f:x:z". split; [|split].
  - vm_compute. discriminate.
  - vm_compute. reflexivity.
  - vm_compute. intuition discriminate.
Qed.
Example widened_same_elsewhere :
  np_flag encoding_bools_w "y ~ x:z + f:x:z" = np_flag encoding_bools "y ~ x:z + f:x:z" /\
  np_flag encoding_bools_w "y ~ f:x:z" = np_flag encoding_bools "y ~ f:x:z".
Proof. split; vm_compute; reflexivity. Qed.

(* the designs *)
Example design_model :
  (np_labels encoding_bools "y ~ x + z + f:x:z", np_show (np_matrix encoding_bools "y ~ x + z + f:x:z")) =
  (["Intercept"; "x"; "z"; "f[a]:x:z"; "f[b]:x:z"],
   [["1";"0";"0";"0";"0"]; ["1";"1";"0";"0";"0"]; ["1";"0";"1";"0";"0"];
    ["1";"1";"1";"1";"0"]; ["1";"2";"1";"0";"2"]; ["1";"3";"2";"0";"6"]]).
Proof. vm_compute. reflexivity. Qed.

Example design_widened :
  (np_labels encoding_bools_w "y ~ x + z + f:x:z", np_show (np_matrix encoding_bools_w "y ~ x + z + f:x:z")) =
  (["Intercept"; "x"; "z"; "f[b]:x:z"],
   [["1";"0";"0";"0"]; ["1";"1";"0";"0"]; ["1";"0";"1";"0"];
    ["1";"1";"1";"0"]; ["1";"2";"1";"2"]; ["1";"3";"2";"6"]]).
Proof. vm_compute. reflexivity. Qed.

Example design_reduced :
  (np_labels encoding_bools "y ~ x:z + f:x:z", np_show (np_matrix encoding_bools "y ~ x:z + f:x:z")) =
  (["Intercept"; "x:z"; "f[b]:x:z"],
   [["1";"0";"0"]; ["1";"0";"0"]; ["1";"0";"0"]; ["1";"1";"0"]; ["1";"2";"2"]; ["1";"6";"6"]]).
Proof. vm_compute. reflexivity. Qed.

(* ---------- 4. x*z is not in the span of the widened design ---------- *)
Definition cdot (w v : list cell) : cell :=
  fold_left cadd (zip_with cmul w v) (np_q 0).
Definition column (j : nat) (m : list (list cell)) : list cell := map (fun r => nth j r None) m.
Definition columns (k : nat) (m : list (list cell)) : list (list cell) := map (fun j => column j m) (seq 0 k).
Definition np_w : list cell := map np_q [1; -1; -1; 1; 0; 0]%Z.
Definition np_xz : list cell := zip_with cmul (column 1 (np_matrix encoding_bools "y ~ x + z + f:x:z"))
                                               (column 2 (np_matrix encoding_bools "y ~ x + z + f:x:z")).

(* the functional w vanishes on every column of the widened design (hence on their span, by
   linearity) and not on x*z: the x*z direction is lost; the column count drops from 5 to 4
   although no term x:z is present *)
Theorem widened_rule_loses_xz :
  map (fun c => cshow (cdot np_w c)) (columns 4 (np_matrix encoding_bools_w "y ~ x + z + f:x:z"))
  = ["0"; "0"; "0"; "0"] /\
  cshow (cdot np_w np_xz) = "1" /\
  List.length (np_labels encoding_bools_w "y ~ x + z + f:x:z") = 4 /\
  List.length (np_labels encoding_bools "y ~ x + z + f:x:z") = 5.
Proof. repeat split; vm_compute; reflexivity. Qed.

(* in the model's designs x*z IS in the span: the sum of the block columns (full case), the
   separate column x:z (reduced case) *)
Theorem model_keeps_xz :
  zip_with cadd (column 3 (np_matrix encoding_bools "y ~ x + z + f:x:z"))
                (column 4 (np_matrix encoding_bools "y ~ x + z + f:x:z")) = np_xz /\
  column 1 (np_matrix encoding_bools "y ~ x:z + f:x:z") = np_xz.
Proof. split; vm_compute; reflexivity. Qed.

(* ---------- 5. the full block sums to the numeric part, for every level list ---------- *)
(* a row of the full block is  indicator(level) * c  over the levels (DesignCoding.onehot_kron);
   its sum is c when the observed level is one of the (distinct) levels *)
Definition rsum (r : list cell) : cell := fold_right cadd (np_q 0) r.

Lemma cadd_zero_l c : cadd (np_q 0) c = c.
Proof.
  destruct c as [q|]; cbn; auto. f_equal. unfold qz. change (Q2Qc (inject_Z 0)) with 0%Qc.
  apply Qcplus_0_l.
Qed.
Lemma cadd_zero_r c : cadd c (np_q 0) = c.
Proof.
  destruct c as [q|]; cbn; auto. f_equal. unfold qz. change (Q2Qc (inject_Z 0)) with 0%Qc.
  apply Qcplus_0_r.
Qed.

Theorem full_block_row_sum (lv : list string) (x : string) (q : Qc) :
  NoDup lv -> In x lv -> rsum (map (fun l => cmul (ind x l) (Some q)) lv) = Some q.
Proof.
  induction lv as [|l r IH]; [intros _ []|]. intros Hnd Hin. inversion Hnd; subst. cbn [map rsum fold_right].
  unfold ind at 1. destruct (String.eqb x l) eqn:E.
  - apply String.eqb_eq in E. subst l. rewrite cmul_one.
    assert (Hz : fold_right cadd (np_q 0) (map (fun l => cmul (ind x l) (Some q)) r) = np_q 0).
    { clear IH Hin Hnd H2. induction r as [|l r IH]; auto. cbn [map fold_right].
      unfold ind at 1. destruct (String.eqb x l) eqn:E; [apply String.eqb_eq in E; subst; exfalso; apply H1; left; auto|].
      rewrite cmul_zero. cbn [nanzero]. rewrite IH; [reflexivity|]. intros H. apply H1. right. exact H. }
    rewrite Hz. apply cadd_zero_r.
  - rewrite cmul_zero. cbn [nanzero]. fold (rsum (map (fun l0 => cmul (ind x l0) (Some q)) r)).
    rewrite IH; auto; [apply cadd_zero_l|].
    destruct Hin as [->|H]; auto. rewrite String.eqb_refl in E. discriminate.
Qed.

Print Assumptions widened_rule_differs.
Print Assumptions widened_rule_loses_xz.
Print Assumptions model_keeps_xz.
Print Assumptions full_block_row_sum.
Print Assumptions eval_model_with_model.
