From Coq Require Extraction.
From Coq Require Import ExtrOcamlBasic ExtrOcamlString.
From Verif Require Import Base Driver.
Extraction Language OCaml.
Separate Extraction Driver.run.
