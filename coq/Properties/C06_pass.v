(* C06 under na_action = "pass" (and "drop" evaluated on the rows it dropped) -- evaluating new data
   never drops a row, and on rows of the training frame (rows with missing values included) it
   reproduces the training encoding.  Proofs: Proofs/PredictionPass.v.
   Model: Model/Design.v new_comp / new_term / new_common / new_gterm / new_group. *)
From Verif Require Import Base Tokens Lazy Algebra Frame Eval Design DesignStructure FrameStructure Prediction PredictionGroups
                          Containers PassPolicy PredictionPass.
Local Close Scope Qc_scope.
Local Close Scope Q_scope.

(* ---- prediction never drops a row: EVERY design value, every mode, every rectangular frame ---- *)

Theorem C06_new_common_row_count :
  forall cx mode ds F r,
    frame_wf F -> extras_shape (frame_rows F) cx ->
    new_common cx mode ds F = Ok r ->
    List.length (nr_rows r) = frame_rows F.
Proof. exact new_common_row_count. Qed.

Theorem C06_new_group_row_count :
  forall cx mode ds F ng,
    frame_wf F -> extras_shape (frame_rows F) cx ->
    new_group cx mode ds F = Ok ng ->
    List.length (ng_rows ng) = frame_rows F.
Proof. exact new_group_row_count. Qed.

(* with a namespace of scalars (what the driver decodes) *)
Theorem C06_new_common_row_count_scalar :
  forall cx mode ds F r,
    frame_wf F -> scalar_extras cx -> new_common cx mode ds F = Ok r ->
    List.length (nr_rows r) = frame_rows F.
Proof. exact new_common_row_count_scalar. Qed.

Theorem C06_new_group_row_count_scalar :
  forall cx mode ds F ng,
    frame_wf F -> scalar_extras cx -> new_group cx mode ds F = Ok ng ->
    List.length (ng_rows ng) = frame_rows F.
Proof. exact new_group_row_count_scalar. Qed.

(* ---- "pass": any rows of the training frame, rows with missing values included ---- *)

(* the decidable class implies the premises of C06_new_rows_are_training_rows *)
Theorem C06_pass_class :
  forall cx D m,
    frame_unordered D -> scalar_extras cx -> pass_modelb D m = true ->
    model_ok [] cx D m /\ (groups_nonempty m -> model_ok_groups [] cx D m).
Proof.
  intros cx D m Hun Hex Hs. split; [apply pass_model_ok; assumption|].
  intros Hne. apply pass_model_ok_groups; assumption.
Qed.

Theorem C06_pass_new_rows_are_training_rows :
  forall cx e D m ds idx mode,
    describe e = Ok m -> frame_wf D -> frame_rows D <> 0%nat -> used_cols D m <> [] ->
    frame_unordered D -> scalar_extras cx -> pass_modelb D m = true ->
    Forall (fun i => (i < frame_rows D)%nat) idx ->
    design_matrices cx e D NaPass = Ok ds ->
    new_common cx mode ds (frame_pick idx D)
    = Ok (NewRes (map (fun i => nth i (common_matrix ds) []) idx) false).
Proof. exact pass_new_common_rows_nth. Qed.

Theorem C06_pass_new_rows_count :
  forall cx e D m ds idx mode,
    describe e = Ok m -> frame_wf D -> frame_rows D <> 0%nat -> used_cols D m <> [] ->
    frame_unordered D -> scalar_extras cx -> pass_modelb D m = true ->
    Forall (fun i => (i < frame_rows D)%nat) idx ->
    design_matrices cx e D NaPass = Ok ds ->
    exists r, new_common cx mode ds (frame_pick idx D) = Ok r /\
              List.length (nr_rows r) = List.length idx /\ nr_warned r = false.
Proof. exact pass_new_common_length. Qed.

Theorem C06_pass_new_group_rows_are_training_rows :
  forall cx e D m ds idx mode,
    describe e = Ok m -> frame_wf D -> frame_rows D <> 0%nat -> used_cols D m <> [] ->
    frame_unordered D -> scalar_extras cx -> pass_modelb D m = true ->
    idx <> [] -> Forall (fun i => (i < frame_rows D)%nat) idx ->
    design_matrices cx e D NaPass = Ok ds ->
    new_group cx mode ds (frame_pick idx D)
    = Ok (NewGroup (map (fun i => nth i (group_matrix ds) []) idx) (group_slices ds) [] false).
Proof. exact pass_new_group_rows_nth. Qed.

(* ---- "drop", evaluated on rows of the original frame, dropped rows included ---- *)

(* a design cut down to some of its rows predicts like the design it was cut from, on ANY frame *)
Theorem C06_restricted_design_predicts_alike :
  forall cx mode keep ds F,
    new_common cx mode (design_select keep ds) F = new_common cx mode ds F /\
    (design_shape ds -> List.length keep = ds_nrows ds -> count_true keep <> 0%nat ->
     new_group cx mode (design_select keep ds) F = new_group cx mode ds F).
Proof.
  intros cx mode keep ds F. split; [apply new_common_design_select|apply new_group_design_select].
Qed.

Theorem C06_drop_new_rows_all_rows :
  forall cx e D m dsP dsD idx mode,
    describe e = Ok m -> frame_wf D -> frame_rows D <> 0%nat -> used_cols D m <> [] ->
    frame_unordered D -> scalar_extras cx ->
    count_true (complete_mask D m) <> 0%nat ->
    simple_modelb D m = true -> frame_coveredb (complete_mask D m) D m = true ->
    str_completeb D = true ->
    design_matrices cx e D NaPass = Ok dsP ->
    design_matrices cx e D NaDrop = Ok dsD ->
    new_common cx mode dsD (frame_pick idx D) = Ok (NewRes (pick idx (common_matrix dsP)) false).
Proof. exact drop_new_common_all_rows. Qed.

Theorem C06_drop_new_group_all_rows :
  forall cx e D m dsP dsD idx mode,
    describe e = Ok m -> frame_wf D -> frame_rows D <> 0%nat -> used_cols D m <> [] ->
    frame_unordered D -> scalar_extras cx ->
    count_true (complete_mask D m) <> 0%nat ->
    simple_modelb D m = true -> frame_coveredb (complete_mask D m) D m = true ->
    str_completeb D = true ->
    (exists i, In i idx /\ (i < frame_rows D)%nat) ->
    design_matrices cx e D NaPass = Ok dsP ->
    design_matrices cx e D NaDrop = Ok dsD ->
    new_group cx mode dsD (frame_pick idx D)
    = Ok (NewGroup (pick idx (group_matrix dsP)) (group_slices dsP) [] false).
Proof. exact drop_new_group_all_rows. Qed.

(* one row of the original frame, complete or dropped at training: one row comes back; per common
   term its block is all NaN iff the term reads a numeric variable missing on that row *)
Theorem C06_drop_dropped_row_cells :
  forall cx e D m dsD i mode,
    describe e = Ok m -> frame_wf D -> frame_rows D <> 0%nat -> used_cols D m <> [] ->
    frame_unordered D -> scalar_extras cx ->
    count_true (complete_mask D m) <> 0%nat ->
    simple_modelb D m = true -> frame_coveredb (complete_mask D m) D m = true ->
    str_completeb D = true ->
    (i < frame_rows D)%nat ->
    design_matrices cx e D NaDrop = Ok dsD ->
    forall dsP, design_matrices cx e D NaPass = Ok dsP ->
    exists blocks,
      new_common cx mode dsD (frame_pick [i] D) = Ok (NewRes [List.concat blocks] false) /\
      Forall2 (fun t b => row_spec D i (dterm_reads t) b) (ds_common dsP) blocks /\
      map dt_name (ds_common dsD) = map dt_name (ds_common dsP).
Proof. exact drop_dropped_row_cells. Qed.

(* ---- boundaries ---- *)

Theorem C06_pass_new_group_empty_refuted :
  exists cx e D m ds ng,
    describe e = Ok m /\ frame_wf D /\ frame_unordered D /\ scalar_extras cx /\
    pass_modelb D m = true /\ design_matrices cx e D NaPass = Ok ds /\
    new_group cx UError ds (frame_pick [] D) = Ok ng /\
    ng_new_factors ng = ["g"%string] /\ ng_slices ng <> group_slices ds.
Proof. exact PredictionPassExamples.pass_new_group_empty_refuted. Qed.

Theorem C06_pass_box_of_incomplete_numeric_refuted :
  exists cx e D m ds r,
    describe e = Ok m /\ frame_wf D /\ frame_unordered D /\ scalar_extras cx /\
    pass_modelb D m = false /\
    design_matrices cx e D NaPass = Ok ds /\
    new_common cx UError ds (frame_pick [0; 1]%nat D) = Err EValue /\
    new_common cx UWarning ds (frame_pick [0; 1]%nat D) = Ok r /\ nr_warned r = true /\
    nr_rows r = pick [0; 1]%nat (common_matrix ds).
Proof. exact PredictionPassExamples.pass_box_of_incomplete_numeric_refuted. Qed.

Theorem C06_row_count_ragged_refuted :
  exists cx mode ds F r,
    ~ frame_wf F /\ scalar_extras cx /\ new_common cx mode ds F = Ok r /\
    frame_rows F = 3%nat /\ List.length (nr_rows r) = 2%nat.
Proof. exact PredictionPassExamples.row_count_ragged_refuted. Qed.

Theorem C06_row_count_namespace_refuted :
  exists cx mode e D ds r,
    frame_wf D /\ ~ extras_shape (frame_rows D) cx /\
    design_matrices cx e D NaPass = Ok ds /\ new_common cx mode ds D = Ok r /\
    frame_rows D = 6%nat /\ List.length (nr_rows r) = 2%nat.
Proof. exact PredictionPassExamples.row_count_namespace_refuted. Qed.

Print Assumptions C06_new_common_row_count.
Print Assumptions C06_new_group_row_count.
Print Assumptions C06_pass_class.
Print Assumptions C06_pass_new_rows_are_training_rows.
Print Assumptions C06_pass_new_rows_count.
Print Assumptions C06_pass_new_group_rows_are_training_rows.
Print Assumptions C06_restricted_design_predicts_alike.
Print Assumptions C06_drop_new_rows_all_rows.
Print Assumptions C06_drop_new_group_all_rows.
Print Assumptions C06_drop_dropped_row_cells.
Print Assumptions C06_pass_new_group_empty_refuted.
Print Assumptions C06_pass_box_of_incomplete_numeric_refuted.
Print Assumptions C06_row_count_ragged_refuted.
Print Assumptions C06_row_count_namespace_refuted.
