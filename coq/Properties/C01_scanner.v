(* C01, scanner part -- "nothing silently ignored" starts at the characters: the scanner model
   (Model/Scanner.v, tied to scanner.py by Generated/Tie.v for its tables and by the C01 correspondence for
   its procedure) accepts exactly the separated renderings of well-formed lexemes, whitespace between
   tokens never matters, and malformed text is rejected.  Only final statements; proofs live in
   Proofs/ScannerProofs.v. *)
From Verif Require Import Base Tokens Scanner Parser Grammar ScannerProofs Driver FrontEnd.
From Verif Require Tie.

(* The token loop succeeds with ts exactly on the texts w0 t1 w1 ... tn wn made of well-formed lexemes,
   whitespace gaps, and gaps that may be empty only where the next characters cannot extend the token:
   every character of an accepted text is either whitespace or part of exactly one token. *)
Theorem C01_scan_accepts_exactly_renderings : forall cs ts,
  scan_loop (List.length cs) cs = Ok ts <->
  exists ws, forallb wf_lexeme ts = true /\ valid_ws ts ws /\ separated ts ws = true /\ cs = render ts ws.
Proof. exact scan_loop_iff. Qed.

(* What scanning a rendering returns, including the implicit intercept (inserted after the tilde, or in
   front when there is none) and the rejection of two tildes. *)
Theorem C01_scan_render : forall b ts ws,
  forallb wf_lexeme ts = true -> valid_ws ts ws -> separated ts ws = true -> render ts ws <> [] ->
  scan_chars b (render ts ws) =
  if (1 <? tilde_count ts)%nat then Err EScan
  else if b then
    if (tilde_count ts =? 0)%nat then Ok (one_tok :: plus_tok :: ts ++ [eof_tok])
    else Ok (insert_after_tilde ts ++ [eof_tok])
  else Ok (ts ++ [eof_tok]).
Proof. exact scan_render. Qed.

(* Whitespace (space, tab, newline, carriage return; any amount, anywhere between tokens, in front or at
   the end) never changes the result. *)
Theorem C01_whitespace_irrelevant : forall b ts ws ws',
  forallb wf_lexeme ts = true ->
  valid_ws ts ws -> separated ts ws = true ->
  valid_ws ts ws' -> separated ts ws' = true ->
  ts <> [] ->
  scan_chars b (render ts ws) = scan_chars b (render ts ws').
Proof. exact scan_whitespace_irrelevant. Qed.

(* A token that is returned is a well-formed lexeme, it is a prefix of the text, and it is maximal. *)
Theorem C01_scan_token_sound : forall c rest t r,
  scan_token c rest = Ok (Some t, r) ->
  wf_tok t /\ c :: rest = lx t ++ r /\ can_follow t r = true.
Proof. exact scan_token_sound. Qed.

(* Rejections: empty text, a second tilde, an unterminated string or backquoted name (also after any
   accepted prefix), a character outside the alphabet. *)
Theorem C01_scan_rejects_empty : forall b, scan_chars b [] = Err EScan.
Proof. exact scan_empty. Qed.

Theorem C01_scan_rejects_two_tildes : forall b ts ws,
  forallb wf_lexeme ts = true -> valid_ws ts ws -> separated ts ws = true ->
  (2 <= tilde_count ts)%nat ->
  scan_chars b (render ts ws) = Err EScan.
Proof. exact scan_two_tildes. Qed.

Theorem C01_scan_rejects_unterminated_string : forall b ts ws q body,
  forallb wf_lexeme ts = true -> valid_ws ts ws -> separated ts ws = true ->
  mem_ascii q quotes = true -> forallb nonquote body = true ->
  scan_chars b (render ts ws ++ q :: body) = Err EScan.
Proof. exact scan_unterminated_string_after. Qed.

Theorem C01_scan_rejects_unterminated_backquote : forall b ts ws body,
  forallb wf_lexeme ts = true -> valid_ws ts ws -> separated ts ws = true ->
  forallb nonbq body = true ->
  scan_chars b (render ts ws ++ "`"%char :: body) = Err EIndex.
Proof. exact scan_unterminated_backquote_after. Qed.

Theorem C01_scan_rejects_unexpected_char : forall b ts ws c rest,
  forallb wf_lexeme ts = true -> valid_ws ts ws -> separated_before ts ws (c :: rest) = true ->
  unexpected_char c = true ->
  scan_chars b (render ts ws ++ c :: rest) = Err EScan.
Proof. exact scan_unexpected_char_after. Qed.

(* The fuel the model passes is never exhausted. *)
Theorem C01_scan_fuel_enough : forall cs, scan_loop (List.length cs) cs <> Err OutOfFuel.
Proof. exact scan_fuel_enough. Qed.

(* Strings: scanning followed by parsing accepts a text exactly when it is a separated rendering of
   well-formed lexemes whose token list (implicit intercept inserted, end marker appended) is a sentence
   of the precedence grammar, and then returns the grammar's tree. *)
Theorem C01_parse_string_iff : forall s e,
  parse_string s = Ok e <->
  exists ts ws toks,
    chars_of s = render ts ws /\ chars_of s <> [] /\
    forallb wf_lexeme ts = true /\ valid_ws ts ws /\ separated ts ws = true /\
    finish true ts = Ok toks /\ Sentence toks e.
Proof. exact parse_string_iff. Qed.

Theorem C01_parse_string_whitespace_irrelevant : forall s s' ts ws ws',
  chars_of s = render ts ws -> chars_of s' = render ts ws' -> ts <> [] ->
  forallb wf_lexeme ts = true ->
  valid_ws ts ws -> separated ts ws = true ->
  valid_ws ts ws' -> separated ts ws' = true ->
  parse_string s = parse_string s'.
Proof. exact parse_string_whitespace_irrelevant. Qed.

(* Non-vacuity: a 26-token formula with every token class; tight and wide spacing scan alike. *)
Example C01_scanner_example : forall b,
  forallb wf_lexeme ex_ts = true /\ valid_ws ex_ts ws_tight /\ separated ex_ts ws_tight = true /\
  List.length ex_ts = 26%nat /\
  scan_chars b (render ex_ts ws_tight) = scan_chars b (render ex_ts ws_wide).
Proof.
  intros b. split; [exact ex_ts_wf|]. split; [exact ex_valid_tight|]. split; [exact ex_sep_tight|].
  split; [vm_compute; reflexivity | exact (ex_irrelevant b)].
Qed.

Print Assumptions C01_scan_accepts_exactly_renderings.
Print Assumptions C01_scan_render.
Print Assumptions C01_whitespace_irrelevant.
Print Assumptions C01_scan_token_sound.
Print Assumptions C01_scan_rejects_empty.
Print Assumptions C01_scan_rejects_two_tildes.
Print Assumptions C01_scan_rejects_unterminated_string.
Print Assumptions C01_scan_rejects_unterminated_backquote.
Print Assumptions C01_scan_rejects_unexpected_char.
Print Assumptions C01_scan_fuel_enough.
Print Assumptions C01_scanner_example.
Print Assumptions C01_parse_string_iff.
Print Assumptions C01_parse_string_whitespace_irrelevant.
