(* C02 -- identity of CALL atoms: a call f(x, a=1, b=2) is compared by callee, positional arguments
   in order, and keyword arguments as a dictionary.  Keyword ORDER never matters -- for the equality
   of calls, components, terms, for every operator of the term algebra, from the text to the model --
   and the spelling that survives is the one written first.  Proofs: Proofs/KeywordOrder.v,
   Proofs/KeywordOrderText.v.  Statements only; every proof is [exact]. *)
From Verif Require Import Base Tokens Scanner Parser Lazy Algebra Driver Wilkinson CompEq ListSet AlgebraRefines.
From Verif Require Import KeywordOrder KeywordOrderText.
From Coq Require Import Permutation.
Local Open Scope string_scope.
Local Open Scope list_scope.

(* ---- 1. an equivalence on well-formed calls (distinct keyword names, at every depth) ---- *)
Theorem C02kw_call_eq_refl : forall c args kw,
  call_ok c args kw -> lazy_eqb (LzCall c args kw) (LzCall c args kw) = true.
Proof. exact call_eqb_refl. Qed.
Theorem C02kw_call_eq_sym : forall c args kw c' args' kw',
  call_ok c args kw -> call_ok c' args' kw' ->
  lazy_eqb (LzCall c args kw) (LzCall c' args' kw') = true ->
  lazy_eqb (LzCall c' args' kw') (LzCall c args kw) = true.
Proof. exact call_eqb_sym. Qed.
Theorem C02kw_call_eq_trans : forall c args kw c' args' kw' c'' args'' kw'',
  lazy_eqb (LzCall c args kw) (LzCall c' args' kw') = true ->
  lazy_eqb (LzCall c' args' kw') (LzCall c'' args'' kw'') = true ->
  lazy_eqb (LzCall c args kw) (LzCall c'' args'' kw'') = true.
Proof. exact call_eqb_trans. Qed.
Theorem C02kw_lazy_equivalence : eqv lazy_eqb lazy_ok.
Proof. exact lazy_eqb_equivalence. Qed.
(* without distinct names reflexivity and symmetry fail *)
Theorem C02kw_refl_needs_distinct_names_refuted :
  exists c args kw, lazy_eqb (LzCall c args kw) (LzCall c args kw) = false.
Proof. exact call_eqb_refl_refuted_without_distinct_keys. Qed.
Theorem C02kw_sym_needs_distinct_names_refuted :
  exists c args kw kw', NoDup (map fst kw') /\
    lazy_eqb (LzCall c args kw) (LzCall c args kw') = true /\
    lazy_eqb (LzCall c args kw') (LzCall c args kw) = false.
Proof. exact call_eqb_sym_refuted_without_distinct_keys. Qed.
(* the resolver never rejects a repeated keyword (kwargs[name] = value: the last value wins), so
   every call it builds has distinct keyword names *)
Theorem C02kw_resolved_calls_are_well_formed : forall e c args kw,
  call_resolve e = Ok (LzCall c args kw) -> call_ok c args kw.
Proof. exact resolved_call_ok. Qed.
Theorem C02kw_resolved_calls_have_distinct_names : forall e c args kw,
  call_resolve e = Ok (LzCall c args kw) -> NoDup (map fst kw).
Proof. exact resolved_call_distinct_keys. Qed.
Example C02kw_repeated_keyword_accepted :
  names "y ~ h(x, k=1, m=3, k=2)" = Some (Some "y", ["Intercept"; "h(x, k=2, m=3)"], []).
Proof. exact text_repeated_keyword. Qed.

(* ---- 2. what the equality depends on ---- *)
Theorem C02kw_call_eq_characterised : forall c1 a1 k1 c2 a2 k2,
  NoDup (map fst k1) -> NoDup (map fst k2) ->
  (lazy_eqb (LzCall c1 a1 k1) (LzCall c2 a2 k2) = true <->
   c1 = c2 /\ Forall2 (fun p q => lazy_eqb p q = true) a1 a2 /\ kw_agree k1 k2).
Proof. exact call_eqb_spec. Qed.
Theorem C02kw_keyword_order_irrelevant : forall c args kw kw',
  call_ok c args kw -> Permutation kw kw' ->
  lazy_eqb (LzCall c args kw) (LzCall c args kw') = true /\
  lazy_eqb (LzCall c args kw') (LzCall c args kw) = true.
Proof. exact keyword_order_irrelevant. Qed.
(* at any depth *)
Theorem C02kw_keyword_order_irrelevant_deep : forall a b,
  lazy_ok a -> kwp a b -> lazy_ok b /\ lazy_eqb a b = true.
Proof. exact kwp_eqb. Qed.
Theorem C02kw_callee_relevant : forall c1 a1 k1 c2 a2 k2,
  c1 <> c2 -> lazy_eqb (LzCall c1 a1 k1) (LzCall c2 a2 k2) = false.
Proof. exact callee_relevant. Qed.
Theorem C02kw_positional_relevant : forall c1 a1 k1 c2 a2 k2,
  ~ Forall2 (fun p q => lazy_eqb p q = true) a1 a2 ->
  lazy_eqb (LzCall c1 a1 k1) (LzCall c2 a2 k2) = false.
Proof. exact positional_relevant. Qed.
Theorem C02kw_keyword_names_relevant : forall c1 a1 k1 c2 a2 k2 k,
  In k (map fst k1) -> ~ In k (map fst k2) ->
  lazy_eqb (LzCall c1 a1 k1) (LzCall c2 a2 k2) = false.
Proof. exact keyword_names_relevant. Qed.
Theorem C02kw_keyword_values_relevant : forall c1 a1 k1 c2 a2 k2 k v v',
  NoDup (map fst k1) -> NoDup (map fst k2) -> In (k, v) k1 -> In (k, v') k2 -> lazy_eqb v v' = false ->
  lazy_eqb (LzCall c1 a1 k1) (LzCall c2 a2 k2) = false.
Proof. exact keyword_values_relevant. Qed.
Example C02kw_positional_order_witness :
  lazy_eqb (LzCall "f" [vx; vz] [("a", one)]) (LzCall "f" [vz; vx] [("a", one)]) = false.
Proof. exact positional_order_matters. Qed.
Example C02kw_keyword_value_witness :
  lazy_eqb (LzCall "f" [vx] [("a", one); ("b", two)]) (LzCall "f" [vx] [("a", one); ("b", one)]) = false.
Proof. exact keyword_value_matters. Qed.
Example C02kw_keyword_name_witness :
  lazy_eqb (LzCall "f" [vx] [("a", one); ("b", two)]) (LzCall "f" [vx] [("a", one); ("c", two)]) = false.
Proof. exact keyword_name_matters. Qed.
Example C02kw_callee_witness :
  lazy_eqb (LzCall "f" [vx] [("a", one)]) (LzCall "g" [vx] [("a", one)]) = false.
Proof. exact callee_matters. Qed.

(* ---- 3. components, terms, operators ---- *)
Theorem C02kw_terms_pairwise : forall t t', goodt t -> goodt t' ->
  Forall2 (fun c c' => comp_eqb c c' = true) t t' -> term_eqb t t' = true.
Proof. exact term_eqb_pairwise. Qed.
Theorem C02kw_terms_up_to_keyword_order : forall t t', goodt t -> term_kwp t t' ->
  goodt t' /\ term_eqb t t' = true /\ term_eqb t' t = true.
Proof. exact term_kwp_eqb. Qed.
(* the operand relation of Properties/C02.v does not see keyword order: every law there holds with
   either spelling *)
Theorem C02kw_operands_up_to_keyword_order : forall v L L', Rp v L -> terms_kwp L L' -> Rp v L'.
Proof. exact Rp_keyword_order. Qed.
Theorem C02kw_add_collapses : forall a b L L', Rp a L -> Rp b L' -> terms_kwp L L' ->
  exists v, v_add a b = Ok v /\ Rp v L.
Proof. exact C02kw_add. Qed.
Theorem C02kw_add_then_sub : forall a u b L U L', Rp a L -> Rp u U -> Rp b L' -> terms_kwp L L' ->
  exists v w, v_add a u = Ok v /\ v_sub v b = Ok w /\ Rp w (diff fset_eqb U L).
Proof. exact C02kw_sub. Qed.
Theorem C02kw_sub_cancels : forall a b L L', Rp a L -> Rp b L' -> terms_kwp L L' ->
  exists v, v_sub a b = Ok v /\ Rp v [].
Proof. exact C02kw_sub_same. Qed.
Theorem C02kw_sub_either_spelling : forall a b A L L', Rp a A -> Rp b L' -> Forall goodt L -> terms_kwp L L' ->
  exists v, v_sub a b = Ok v /\ Rp v (diff fset_eqb A L).
Proof. exact C02kw_sub_general. Qed.
Theorem C02kw_colon_collapses : forall a b t t', Rp a [t] -> Rp b [t'] -> term_kwp t t' ->
  exists v, v_matmul a b = Ok v /\ Rp v [t].
Proof. exact C02kw_colon. Qed.
Theorem C02kw_model_add_present : forall m t t',
  Forall goodc (commons m) -> goodt t -> term_kwp t t' ->
  cmem (CT t) (commons m) = true -> add_term m (AC (CT t')) = Ok m.
Proof. exact add_term_common_present. Qed.
Theorem C02kw_model_add_group_present : forall m g g',
  Forall goodg (groups m) -> goodg g -> gterm_kwp g g' ->
  gmem g (groups m) = true -> add_term m (AG g') = Ok m.
Proof. exact add_term_group_present. Qed.
Theorem C02kw_model_sub : forall m t t',
  Forall goodc (commons m) -> goodt t -> term_kwp t t' -> model_sub m (VT t') = model_sub m (VT t).
Proof. exact model_sub_keyword_order. Qed.

(* ---- 5. the first spelling survives ---- *)
Theorem C02kw_first_operand_returned : forall t t', goodt t -> term_kwp t t' ->
  v_add (VT t) (VT t') = Ok (VT t) /\ v_add (VT t') (VT t) = Ok (VT t') /\
  v_matmul (VT t) (VT t') = Ok (VT t) /\ v_mul (VT t) (VT t') = Ok (VT t) /\ v_div (VT t) (VT t') = Ok (VT t) /\
  v_sub (VT t) (VT t') = Ok (VM empty_model).
Proof.
  exact (fun t t' G K => conj (add_collapses t t' G K) (conj (add_collapses_rev t t' G K)
           (conj (colon_collapses t t' G K) (conj (star_collapses t t' G K)
              (conj (slash_collapses t t' G K) (sub_cancels t t' G K)))))).
Qed.
Theorem C02kw_first_factor_kept : forall l1 c l2 c' l3,
  goodt l1 -> good c -> goodt l2 -> comp_kwp c c' ->
  mk_term (l1 ++ c :: l2 ++ c' :: l3) = mk_term (l1 ++ c :: l2 ++ l3).
Proof. exact mk_term_first_spelling. Qed.
Theorem C02kw_first_term_kept : forall l1 c l2 c' l3 r,
  Forall goodc l1 -> goodc c -> Forall goodc l2 -> cterm_kwp c c' ->
  mk_model (map AC (l1 ++ c :: l2 ++ c' :: l3)) r = mk_model (map AC (l1 ++ c :: l2 ++ l3)) r.
Proof. exact mk_model_commons_first_spelling. Qed.
Theorem C02kw_first_group_term_kept : forall l1 g l2 g' l3 r,
  Forall goodg l1 -> goodg g -> Forall goodg l2 -> gterm_kwp g g' ->
  mk_model (map AG (l1 ++ g :: l2 ++ g' :: l3)) r = mk_model (map AG (l1 ++ g :: l2 ++ l3)) r.
Proof. exact mk_model_groups_first_spelling. Qed.

(* ---- 4. end to end ---- *)
(* syntax trees: any callee, positional arguments, any number of keywords with distinct names, in
   two orders;  y ~ 1 + e + e'  (the scanner writes the "1 +") *)
Theorem C02kw_tree_add : forall f lv lv' pos lpos kws kws',
  Forall2 (fun e l => call_resolve e = Ok l) pos lpos -> Forall kw_resolves kws ->
  NoDup (map kw_name kws) -> Permutation kws kws' ->
  forall y tilde p1 p2, tkind tilde = TILDE -> tkind p1 = PLUS -> tkind p2 = PLUS ->
  describe (EBinary (EVariable y None) tilde
              (EBinary (EBinary (ELiteral (LInt 1) None) p1 (call_expr f lv pos kws)) p2
                       (call_expr f lv' pos kws'))) =
  Ok (Mod (Some [CVar (NStr (lexeme y)) None]) [CI; CT [CCall (call_lazy f lpos kws)]] []).
Proof. exact family_formula_add. Qed.
Theorem C02kw_tree_sub : forall f lv lv' pos lpos kws kws',
  Forall2 (fun e l => call_resolve e = Ok l) pos lpos -> Forall kw_resolves kws ->
  NoDup (map kw_name kws) -> Permutation kws kws' ->
  forall y tilde p1, tkind tilde = TILDE -> tkind p1 = PLUS -> forall mi, tkind mi = MINUS ->
  describe (EBinary (EVariable y None) tilde
              (EBinary (EBinary (ELiteral (LInt 1) None) p1 (call_expr f lv pos kws)) mi
                       (call_expr f lv' pos kws'))) =
  Ok (Mod (Some [CVar (NStr (lexeme y)) None]) [CI] []).
Proof. exact family_formula_sub. Qed.
Theorem C02kw_tree_colon : forall f lv lv' pos lpos kws kws',
  Forall2 (fun e l => call_resolve e = Ok l) pos lpos -> Forall kw_resolves kws ->
  NoDup (map kw_name kws) -> Permutation kws kws' ->
  forall y tilde p1, tkind tilde = TILDE -> tkind p1 = PLUS -> forall co, tkind co = COLON ->
  describe (EBinary (EVariable y None) tilde
              (EBinary (ELiteral (LInt 1) None) p1
                 (EBinary (call_expr f lv pos kws) co (call_expr f lv' pos kws')))) =
  Ok (Mod (Some [CVar (NStr (lexeme y)) None]) [CI; CT [CCall (call_lazy f lpos kws)]] []).
Proof. exact family_formula_colon. Qed.
Theorem C02kw_tree_group : forall f lv lv' pos lpos kws kws',
  Forall2 (fun e l => call_resolve e = Ok l) pos lpos -> Forall kw_resolves kws ->
  NoDup (map kw_name kws) -> Permutation kws kws' ->
  forall y tilde p1 p2, tkind tilde = TILDE -> tkind p1 = PLUS -> tkind p2 = PLUS ->
  forall g pipe1 pipe2, tkind pipe1 = PIPE -> tkind pipe2 = PIPE ->
  describe (EBinary (EVariable y None) tilde
              (EBinary (EBinary (ELiteral (LInt 1) None) p1
                          (EGrouping (EBinary (call_expr f lv pos kws) pipe1 (EVariable g None)))) p2
                       (EGrouping (EBinary (call_expr f lv' pos kws') pipe2 (EVariable g None))))) =
  Ok (Mod (Some [CVar (NStr (lexeme y)) None]) [CI]
          [GT CI (CT [CVar (NStr (lexeme g)) None]);
           GT (CT [CCall (call_lazy f lpos kws)]) (CT [CVar (NStr (lexeme g)) None])]).
Proof. exact family_formula_group. Qed.

(* texts, for ALL identifiers and integer literals, through scanner, parser and resolver *)
Theorem C02kw_text_add : forall y f x a b va vb za zb,
  ident_ok y -> ident_ok f -> ident_ok x -> ident_ok a -> ident_ok b -> int_ok va za -> int_ok vb zb ->
  a <> b ->
  describe_string (y ++ " ~ " ++ call_text f x a va b vb ++ " + " ++ call_text f x b vb a va) =
  Ok (Mod (Some [CVar (NStr y) None]) [CI; CT [CCall (call_lz f x a b za zb)]] []).
Proof. exact text_family_add. Qed.
Theorem C02kw_text_sub : forall y f x a b va vb za zb,
  ident_ok y -> ident_ok f -> ident_ok x -> ident_ok a -> ident_ok b -> int_ok va za -> int_ok vb zb ->
  a <> b ->
  describe_string (y ++ " ~ " ++ call_text f x a va b vb ++ " - " ++ call_text f x b vb a va) =
  Ok (Mod (Some [CVar (NStr y) None]) [CI] []).
Proof. exact text_family_sub. Qed.
Theorem C02kw_text_colon : forall y f x a b va vb za zb,
  ident_ok y -> ident_ok f -> ident_ok x -> ident_ok a -> ident_ok b -> int_ok va za -> int_ok vb zb ->
  a <> b ->
  describe_string (y ++ " ~ " ++ call_text f x a va b vb ++ " : " ++ call_text f x b vb a va) =
  Ok (Mod (Some [CVar (NStr y) None]) [CI; CT [CCall (call_lz f x a b za zb)]] []).
Proof. exact text_family_colon. Qed.

(* concrete texts *)
Example C02kw_ex_add : names "y ~ h(x, k=1, m=2) + h(x, m=2, k=1)" = Some (Some "y", ["Intercept"; "h(x, k=1, m=2)"], []).
Proof. exact text_add. Qed.
Example C02kw_ex_add_other_first : names "y ~ h(x, m=2, k=1) + h(x, k=1, m=2)" = Some (Some "y", ["Intercept"; "h(x, m=2, k=1)"], []).
Proof. exact text_add_other_first. Qed.
Example C02kw_ex_sub : names "y ~ h(x, k=1, m=2) - h(x, m=2, k=1)" = Some (Some "y", ["Intercept"], []).
Proof. exact text_sub. Qed.
Example C02kw_ex_add_sub :
  names "y ~ a + h(x, k=1, m=2) + h(x, m=2, k=1) - h(x, k=1, m=2)" = Some (Some "y", ["Intercept"; "a"], []).
Proof. exact text_add_sub. Qed.
Example C02kw_ex_colon : names "y ~ h(x, k=1, m=2):h(x, m=2, k=1)" = Some (Some "y", ["Intercept"; "h(x, k=1, m=2)"], []).
Proof. exact text_colon. Qed.
Example C02kw_ex_group :
  names "y ~ (h(x, k=1, m=2) | g) + (h(x, m=2, k=1) | g)" = Some (Some "y", ["Intercept"], ["1|g"; "h(x, k=1, m=2)|g"]).
Proof. exact text_group. Qed.
Example C02kw_ex_nested :
  names "y ~ h(g(x, p=1, q=2), k=1, m=2) + h(g(x, q=2, p=1), m=2, k=1)"
  = Some (Some "y", ["Intercept"; "h(g(x, p=1, q=2), k=1, m=2)"], []).
Proof. exact text_nested. Qed.
Example C02kw_ex_positional_kept_apart :
  names "y ~ h(x, z, k=1) + h(z, x, k=1)" = Some (Some "y", ["Intercept"; "h(x, z, k=1)"; "h(z, x, k=1)"], []).
Proof. exact text_positional. Qed.

Print Assumptions C02kw_lazy_equivalence.
Print Assumptions C02kw_call_eq_characterised.
Print Assumptions C02kw_keyword_order_irrelevant_deep.
Print Assumptions C02kw_operands_up_to_keyword_order.
Print Assumptions C02kw_add_then_sub.
Print Assumptions C02kw_first_operand_returned.
Print Assumptions C02kw_first_group_term_kept.
Print Assumptions C02kw_tree_group.
Print Assumptions C02kw_text_add.
Print Assumptions C02kw_text_sub.
Print Assumptions C02kw_text_colon.
