(* C08 -- row equivariance and independence from irrelevant frame structure.
   The model's frames are association lists of columns: the pandas index is not an input at all.
   Not proved: row permutation for designs WITH group-specific terms (statement kept as
   Prediction.perm_rows_full_statement); decided by the correspondence and the oracle. *)
From Verif Require Import Base Tokens Algebra Frame Eval Design FrameStructure PermKernel Prediction.
From Coq Require Import Permutation.
From Verif Require Tie.
Local Close Scope Qc_scope.
Local Close Scope Q_scope.

(* column order, unused columns (whatever they contain): irrelevant *)
Theorem C08_design_frame_agree :
  forall cx e d1 d2 na,
    NoDup (map fst d1) -> NoDup (map fst d2) -> frame_wf d1 -> frame_wf d2 ->
    frame_rows d1 = frame_rows d2 ->
    (forall m, describe e = Ok m -> forall k, In k (model_vars m) -> assoc k d1 = assoc k d2) ->
    design_matrices cx e d1 na = design_matrices cx e d2 na.
Proof. exact design_frame_agree. Qed.

(* permuting the rows permutes the rows of the response and of every common term, and changes
   nothing else: names, kinds, labels, levels, contrasts, fitted transform parameters *)
Theorem C08_perm_rows :
  forall idx D ex0 sq m ds,
    frame_wf D -> frame_unordered D ->
    (forall k w, assoc k ex0 = Some w -> is_scalar w = true) ->
    Permutation idx (seq 0 (frame_rows D)) ->
    groups m = [] ->
    (forall t, In (CT t) (commons m) -> Forall (comp_safe []) t) ->
    (forall t, resp m = Some t -> Forall (comp_safe []) t) ->
    eval_model (DCtx ex0 sq) D m = Ok ds ->
    exists ds',
      eval_model (DCtx ex0 sq) (frame_pick idx D) m = Ok ds' /\
      ds_nrows ds' = frame_rows D /\
      map dt_name (ds_common ds') = map dt_name (ds_common ds) /\
      map dt_kind (ds_common ds') = map dt_kind (ds_common ds) /\
      map dt_labels (ds_common ds') = map dt_labels (ds_common ds) /\
      map dt_rows (ds_common ds') = map (pick idx) (map dt_rows (ds_common ds)) /\
      map (fun t => map dc_levels (dt_comps t)) (ds_common ds') =
      map (fun t => map dc_levels (dt_comps t)) (ds_common ds) /\
      map (fun t => map dc_contrast (dt_comps t)) (ds_common ds') =
      map (fun t => map dc_contrast (dt_comps t)) (ds_common ds) /\
      map (fun t => map (fun d => tc_state (dc_t d)) (dt_comps t)) (ds_common ds') =
      map (fun t => map (fun d => tc_state (dc_t d)) (dt_comps t)) (ds_common ds) /\
      option_map dt_rows (ds_response ds') = option_map (pick idx) (option_map dt_rows (ds_response ds)) /\
      option_map dt_labels (ds_response ds') = option_map dt_labels (ds_response ds).
Proof. exact perm_rows. Qed.

(* the kernels a fit uses are permutation invariant *)
Theorem C08_mean_perm : forall l l', Permutation l l' -> mean l = mean l'.
Proof. exact mean_perm. Qed.
Theorem C08_levels_perm : forall num l l', Permutation l l' -> sort_levels num l = sort_levels num l'.
Proof. exact sort_levels_perm. Qed.

Print Assumptions C08_design_frame_agree.
Print Assumptions C08_perm_rows.
