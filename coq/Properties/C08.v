(* C08 -- row equivariance and independence from irrelevant frame structure.
   The model's frames are association lists of columns: the pandas index is not an input at all.
   Row permutation is proved for whole designs, group-specific terms and bs / poly included. *)
From Verif Require Import Base Tokens Algebra Frame Eval Design FrameStructure PermKernel Prediction PredictionGroups PermSpline.
From Coq Require Import Permutation.
From Verif Require Tie.
Local Close Scope Qc_scope.
Local Close Scope Q_scope.

(* column order, unused columns (whatever they contain): irrelevant *)
Theorem C08_design_frame_agree :
  forall cx e d1 d2 na,
    NoDup (map fst d1) -> NoDup (map fst d2) -> frame_wf d1 -> frame_wf d2 ->
    frame_rows d1 = frame_rows d2 ->
    (forall m, describe e = Ok m -> forall k, In k (model_vars m) -> assoc k d1 = assoc k d2) ->
    design_matrices cx e d1 na = design_matrices cx e d2 na.
Proof. exact design_frame_agree. Qed.

(* permuting the rows permutes the rows of the response and of every common term, and changes
   nothing else: names, kinds, labels, levels, contrasts, fitted transform parameters *)
Theorem C08_perm_rows :
  forall idx D ex0 sq m ds,
    frame_wf D -> frame_unordered D ->
    (forall k w, assoc k ex0 = Some w -> is_scalar w = true) ->
    Permutation idx (seq 0 (frame_rows D)) ->
    groups m = [] ->
    (forall t, In (CT t) (commons m) -> Forall (comp_safe []) t) ->
    (forall t, resp m = Some t -> Forall (comp_safe []) t) ->
    eval_model (DCtx ex0 sq) D m = Ok ds ->
    exists ds',
      eval_model (DCtx ex0 sq) (frame_pick idx D) m = Ok ds' /\
      ds_nrows ds' = frame_rows D /\
      map dt_name (ds_common ds') = map dt_name (ds_common ds) /\
      map dt_kind (ds_common ds') = map dt_kind (ds_common ds) /\
      map dt_labels (ds_common ds') = map dt_labels (ds_common ds) /\
      map dt_rows (ds_common ds') = map (pick idx) (map dt_rows (ds_common ds)) /\
      map (fun t => map dc_levels (dt_comps t)) (ds_common ds') =
      map (fun t => map dc_levels (dt_comps t)) (ds_common ds) /\
      map (fun t => map dc_contrast (dt_comps t)) (ds_common ds') =
      map (fun t => map dc_contrast (dt_comps t)) (ds_common ds) /\
      map (fun t => map (fun d => tc_state (dc_t d)) (dt_comps t)) (ds_common ds') =
      map (fun t => map (fun d => tc_state (dc_t d)) (dt_comps t)) (ds_common ds) /\
      option_map dt_rows (ds_response ds') = option_map (pick idx) (option_map dt_rows (ds_response ds)) /\
      option_map dt_labels (ds_response ds') = option_map dt_labels (ds_response ds).
Proof. exact perm_rows. Qed.

(* the same for whole designs with group-specific terms and with poly / bs among the transforms:
   training on the permuted frame gives the permuted design and changes nothing else *)
Theorem C08_perm_rows_groups :
  forall idx D ex sq m ds,
    frame_wf D -> frame_unordered D -> frame_rows D <> 0%nat ->
    (forall k w, assoc k ex = Some w -> is_scalar w = true) ->
    Permutation idx (seq 0 (frame_rows D)) ->
    (forall t, In (CT t) (commons m) -> Forall (comp_safe ["poly"%string; "bs"%string]) t) ->
    (forall t, resp m = Some t -> Forall (comp_safe ["poly"%string; "bs"%string]) t) ->
    (forall g, In g (groups m) -> gsafe ["poly"%string; "bs"%string] g) ->
    eval_model (DCtx ex sq) D m = Ok ds ->
    eval_model (DCtx ex sq) (frame_pick idx D) m = Ok (design_sel_groups (sel_pick idx) (frame_rows D) ds) /\
    ds_nrows (design_sel_groups (sel_pick idx) (frame_rows D) ds) = frame_rows D.
Proof. exact perm_rows_groups_bs. Qed.

(* what [design_sel_groups] is: every row matrix permuted, everything else untouched *)
Theorem C08_permuted_design_spec :
  forall idx n ds,
    let ds' := design_sel_groups (sel_pick idx) n ds in
    map dt_name (ds_common ds') = map dt_name (ds_common ds) /\
    map dt_kind (ds_common ds') = map dt_kind (ds_common ds) /\
    map dt_labels (ds_common ds') = map dt_labels (ds_common ds) /\
    map dt_rows (ds_common ds') = map (pick idx) (map dt_rows (ds_common ds)) /\
    map dg_name (ds_group ds') = map dg_name (ds_group ds) /\
    map dg_kind (ds_group ds') = map dg_kind (ds_group ds) /\
    map dg_groups (ds_group ds') = map dg_groups (ds_group ds) /\
    map dg_labels (ds_group ds') = map dg_labels (ds_group ds) /\
    map dg_factor_name (ds_group ds') = map dg_factor_name (ds_group ds) /\
    map dg_rows (ds_group ds') = map (pick idx) (map dg_rows (ds_group ds)) /\
    map (fun g => map dc_levels (dg_factor g)) (ds_group ds') = map (fun g => map dc_levels (dg_factor g)) (ds_group ds) /\
    map (fun g => map dc_contrast (dg_factor g)) (ds_group ds') = map (fun g => map dc_contrast (dg_factor g)) (ds_group ds) /\
    option_map dt_rows (ds_response ds') = option_map (pick idx) (option_map dt_rows (ds_response ds)) /\
    option_map dt_labels (ds_response ds') = option_map dt_labels (ds_response ds).
Proof. exact design_sel_groups_spec. Qed.

(* the kernels a fit uses are permutation invariant *)
Theorem C08_mean_perm : forall l l', Permutation l l' -> mean l = mean l'.
Proof. exact mean_perm. Qed.
Theorem C08_levels_perm : forall num l l', Permutation l l' -> sort_levels num l = sort_levels num l'.
Proof. exact sort_levels_perm. Qed.

Print Assumptions C08_design_frame_agree.
Print Assumptions C08_perm_rows.
Print Assumptions C08_perm_rows_groups.
