(* C12 (numeric literals) and C01 (scanner): integer and decimal literals are exact at every size.
   Restatements only.  Proofs: Proofs/LiteralsExact.v.
   [dec_value ds] is the usual decimal value of the digit characters [ds] (a left fold, in Z);
   [all_digits ds] says every character is '0'..'9'; [no_leading_zero ds] says ds is "0" or does not
   start with '0'; [str] turns a list of characters into a string, [chars_of] is its inverse.
   [call_int n] is the tree of the call  f(x, n). *)
From Coq Require Import QArith.
From Verif Require Import Base Tokens Scanner Parser Lazy Algebra ScannerProofs PyRoundtrip LiteralsExact.
Local Open Scope Z_scope.
Local Open Scope string_scope.
Local Open Scope list_scope.

(* ---- 1. scanning: any number of digits, exact value, through the real scanner ---- *)
Theorem C12_scan_formula_int :
  forall ds, ds <> [] -> all_digits ds ->
    scan ("y ~ f(x, " ++ str ds ++ ")")%string =
    Ok [tk_y; tk_tilde; one_tok; plus_tok; tk_f; tk_lp; tk_x; tk_comma;
        Tok NUMBER (str ds) (Some (LInt (dec_value ds))); tk_rp; eof_tok].
Proof. exact scan_formula_int. Qed.

Theorem C12_scan_token_int :
  forall c ds rest, all_digits (c :: ds) ->
    next_is is_digit rest = false ->
    next_is (fun x => Ascii.eqb x "."%char) rest && next_is is_digit (tl rest) = false ->
    scan_token c (ds ++ rest) = Ok (Some (Tok NUMBER (str (c :: ds)) (Some (LInt (dec_value (c :: ds))))), rest).
Proof. exact scan_token_int_exact. Qed.

(* in every successful scan of any text, every integer literal token carries the decimal value of its
   own lexeme, which is non-negative *)
Theorem C12_scan_int_tokens_exact :
  forall b cs ts t z, scan_chars b cs = Ok ts -> In t ts -> literal t = Some (LInt z) ->
    tkind t = NUMBER /\ z = dec_value (lx t) /\ 0 <= z.
Proof. exact scan_int_tokens_exact. Qed.

Theorem C12_scan_float_tokens_exact :
  forall b cs ts t ip fp, scan_chars b cs = Ok ts -> In t ts -> literal t = Some (LFloat ip fp) ->
    tkind t = NUMBER /\ lexeme t = (ip ++ "." ++ fp)%string /\
    all_digits (chars_of ip) /\ all_digits (chars_of fp) /\ fp <> ""%string.
Proof. exact scan_float_tokens_exact. Qed.

(* ---- 2. printing, round trips, injectivity, distinct terms ---- *)
Theorem C12_zshow_dec_value :
  forall ds, ds <> [] -> all_digits ds -> zshow (dec_value ds) = strip_leading_zeros (str ds).
Proof. exact zshow_dec_value. Qed.

Theorem C12_dec_value_zshow : forall z, 0 <= z -> dec_value (chars_of (zshow z)) = z.
Proof. exact dec_value_zshow. Qed.

Theorem C12_zshow_canonical : forall z, 0 <= z -> no_leading_zero (chars_of (zshow z)) = true.
Proof. exact zshow_canonical. Qed.

Theorem C12_dec_value_inj :
  forall ds1 ds2, all_digits ds1 -> all_digits ds2 ->
    no_leading_zero ds1 = true -> no_leading_zero ds2 = true ->
    dec_value ds1 = dec_value ds2 -> ds1 = ds2.
Proof. exact dec_value_inj. Qed.

Theorem C12_arg_tree_call_int :
  forall ds, ds <> [] -> all_digits ds ->
    arg_tree ("f(x, " ++ str ds ++ ")")%string = Ok (call_int (dec_value ds)).
Proof. exact arg_tree_call_int. Qed.

Theorem C12_describe_formula_int :
  forall ds, ds <> [] -> all_digits ds ->
    Driver.describe_string ("y ~ f(x, " ++ str ds ++ ")")%string =
    Ok (Mod (Some [CVar (NStr "y") None]) [CI; CT [CCall (call_int (dec_value ds))]] []).
Proof. exact describe_formula_int. Qed.

Theorem C12_text_name_call_int :
  forall ds, ds <> [] -> all_digits ds ->
    text_name ("f(x, " ++ str ds ++ ")")%string = Ok ("f(x, " ++ strip_leading_zeros (str ds) ++ ")")%string.
Proof. exact text_name_call_int. Qed.

Theorem C12_call_int_eqb : forall n1 n2, lazy_eqb (call_int n1) (call_int n2) = Z.eqb n1 n2.
Proof. exact call_int_eqb. Qed.

Theorem C12_call_int_differ : forall n1 n2, n1 <> n2 -> lazy_eqb (call_int n1) (call_int n2) = false.
Proof. exact call_int_differ. Qed.

Theorem C12_call_literal_position_differ :
  forall f1 f2 pre1 pre2 post1 post2 kw1 kw2 lx1 lx2 n1 n2,
    List.length pre1 = List.length pre2 -> n1 <> n2 ->
    lazy_eqb (LzCall f1 (pre1 ++ LzVal (LInt n1) lx1 :: post1) kw1)
             (LzCall f2 (pre2 ++ LzVal (LInt n2) lx2 :: post2) kw2) = false.
Proof. exact call_literal_position_differ. Qed.

Theorem C12_call_int_name_inj : forall n1 n2, lazy_str (call_int n1) = lazy_str (call_int n2) -> n1 = n2.
Proof. exact call_int_name_inj. Qed.

Theorem C12_texts_differ :
  forall ds1 ds2, all_digits ds1 -> all_digits ds2 ->
    no_leading_zero ds1 = true -> no_leading_zero ds2 = true -> ds1 <> ds2 ->
    exists t1 t2,
      arg_tree ("f(x, " ++ str ds1 ++ ")")%string = Ok t1 /\ arg_tree ("f(x, " ++ str ds2 ++ ")")%string = Ok t2 /\
      lazy_eqb t1 t2 = false /\ lazy_str t1 <> lazy_str t2 /\
      lazy_str t1 = ("f(x, " ++ str ds1 ++ ")")%string /\ lazy_str t2 = ("f(x, " ++ str ds2 ++ ")")%string.
Proof. exact texts_differ. Qed.

Theorem C12_texts_same_iff :
  forall ds1 ds2, ds1 <> [] -> ds2 <> [] -> all_digits ds1 -> all_digits ds2 ->
    exists t1 t2,
      arg_tree ("f(x, " ++ str ds1 ++ ")")%string = Ok t1 /\ arg_tree ("f(x, " ++ str ds2 ++ ")")%string = Ok t2 /\
      (lazy_eqb t1 t2 = true <-> strip_leading_zeros (str ds1) = strip_leading_zeros (str ds2)).
Proof. exact texts_same_iff. Qed.

(* ---- 3. decimal literals ---- *)
Theorem C12_arg_tree_call_float :
  forall ip fp, all_digits ip -> all_digits fp -> fp <> [] ->
    arg_tree ("f(x, " ++ str ip ++ "." ++ str fp ++ ")")%string =
    Ok (LzCall "f" [LzVar "x"; LzVal (LFloat (str ip) (str fp)) None] []).
Proof. exact arg_tree_call_float. Qed.

Theorem C12_trailing_dot_rejected :
  forall ds, ds <> [] -> all_digits ds -> parse_text (str ds ++ ".")%string = Err EParse.
Proof. exact trailing_dot_rejected. Qed.

Theorem C12_float_value :
  forall ip fp, exists q, lit_q (LFloat (str ip) (str fp)) = Some q /\
    (q == inject_Z (dec_value ip) + inject_Z (dec_value fp) / inject_Z (10 ^ Z.of_nat (List.length fp)))%Q.
Proof. exact float_value. Qed.

Theorem C12_lit_eqb_exact :
  forall a b qa qb, lit_q a = Some qa -> lit_q b = Some qb -> (Lazy.lit_eqb a b = true <-> (qa == qb)%Q).
Proof. exact lit_eqb_exact. Qed.

Theorem C12_float_repr_digits :
  forall ip fp, all_digits ip ->
    float_repr (str ip) (str fp) = (zshow (dec_value ip) ++ "." ++ str (frac_norm fp))%string.
Proof. exact float_repr_digits. Qed.

Theorem C12_float_name_iff_value :
  forall ip1 fp1 ip2 fp2, all_digits ip1 -> all_digits fp1 -> all_digits ip2 -> all_digits fp2 ->
    (float_repr (str ip1) (str fp1) = float_repr (str ip2) (str fp2) <->
     Lazy.lit_eqb (LFloat (str ip1) (str fp1)) (LFloat (str ip2) (str fp2)) = true).
Proof. exact float_name_iff_value. Qed.

Theorem C12_call_float_same_iff_name :
  forall ip1 fp1 ip2 fp2,
    all_digits ip1 -> all_digits fp1 -> fp1 <> [] -> all_digits ip2 -> all_digits fp2 -> fp2 <> [] ->
    exists t1 t2,
      arg_tree ("f(x, " ++ str ip1 ++ "." ++ str fp1 ++ ")")%string = Ok t1 /\
      arg_tree ("f(x, " ++ str ip2 ++ "." ++ str fp2 ++ ")")%string = Ok t2 /\
      (lazy_eqb t1 t2 = true <-> lazy_str t1 = lazy_str t2).
Proof. exact call_float_same_iff_name. Qed.

(* the name does not keep the digits as typed ("1.50" is named "1.5") *)
Theorem C12_float_name_typed_digits_refuted :
  exists ip fp, all_digits ip /\ all_digits fp /\ fp <> [] /\
    text_name ("f(x, " ++ str ip ++ "." ++ str fp ++ ")")%string <> Ok ("f(x, " ++ str ip ++ "." ++ str fp ++ ")")%string.
Proof. exact float_name_typed_digits_refuted. Qed.

(* ---- 4. no negative literals ---- *)
Theorem C12_arg_tree_negative :
  forall ds, ds <> [] -> all_digits ds ->
    arg_tree ("-" ++ str ds)%string = Ok (LzOp "-" [LzVal (LInt (dec_value ds)) None]).
Proof. exact arg_tree_negative. Qed.

Theorem C12_arg_tree_subtraction :
  forall tight ds, ds <> [] -> all_digits ds ->
    arg_tree ("x -" ++ gap tight ++ str ds)%string = Ok (LzOp "-" [LzVar "x"; LzVal (LInt (dec_value ds)) None]).
Proof. exact arg_tree_subtraction. Qed.

Print Assumptions C12_scan_formula_int.
Print Assumptions C12_scan_token_int.
Print Assumptions C12_scan_int_tokens_exact.
Print Assumptions C12_scan_float_tokens_exact.
Print Assumptions C12_zshow_dec_value.
Print Assumptions C12_dec_value_zshow.
Print Assumptions C12_zshow_canonical.
Print Assumptions C12_dec_value_inj.
Print Assumptions C12_arg_tree_call_int.
Print Assumptions C12_describe_formula_int.
Print Assumptions C12_text_name_call_int.
Print Assumptions C12_call_int_eqb.
Print Assumptions C12_call_int_differ.
Print Assumptions C12_call_literal_position_differ.
Print Assumptions C12_call_int_name_inj.
Print Assumptions C12_texts_differ.
Print Assumptions C12_texts_same_iff.
Print Assumptions C12_arg_tree_call_float.
Print Assumptions C12_trailing_dot_rejected.
Print Assumptions C12_float_value.
Print Assumptions C12_lit_eqb_exact.
Print Assumptions C12_float_repr_digits.
Print Assumptions C12_float_name_iff_value.
Print Assumptions C12_call_float_same_iff_name.
Print Assumptions C12_float_name_typed_digits_refuted.
Print Assumptions C12_arg_tree_negative.
Print Assumptions C12_arg_tree_subtraction.
