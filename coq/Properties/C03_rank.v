(* C03 (second file, MathComp style) -- from the interval partition to full column rank and the
   right column space on complete-factorial data (LinAlg/Tensor.v, LinAlg/TensorPick.v).
   Setting: F any field; I any finite type of categorical factors; factor f has (n f).+1 levels;
   a cell chooses one level per factor; one observation per cell (replication: replicate_free /
   replicate_span in Tensor.v); C f is a contrast matrix for f such that [1 | C f] is invertible
   (treatment coding with any reference; sum coding over numeric fields: C13, treat_valid,
   sum_valid_num).  A coding (R, Fl) contributes the block of columns
   prod_{f in R} (contrast column of f) * prod_{f in Fl} (level indicator of f);  M C U is the model
   space of a down-closed family U of factor sets (= span of the complete indicator coding of every
   term, term_span / terms_span).
   Still outside the theorems: numeric covariates "in general position" (each numeric part
   multiplies an independent copy of this structure) and the caller's one-coding-per-term
   restriction (KF-C03-2); the exact-rank oracle of the C03 check decides those per input. *)
From Coq Require ZArith List.
From Verif Require Base Contrasts ContrastsPartition.
From mathcomp Require Import all_ssreflect all_algebra.
From Verif Require Import Contrast Tensor TensorPick.
From Verif Require Tie.

Set Implicit Arguments.
Unset Strict Implicit.
Local Open Scope ring_scope.

(* codings whose intervals partition U: all columns linearly independent, span = model space of U *)
Theorem C03_tensor_bridge (F : fieldType) (I : finType) (n : I -> nat)
        (C : forall f : I, 'M[F]_((n f).+1, n f)) :
  valid_contrasts C ->
  forall (cs : seq (coding I)) (U : {set {set I}}),
    all (@wf_coding I) cs -> partitions cs U ->
    free (design C cs) /\ (<<design C cs>> = M C U)%VS.
Proof. exact: tensor_bridge. Qed.

(* end to end: the codings the redundancy analysis (Model/Contrasts.v = formulae/contrasts.py)
   returns for ANY group of terms give a design of full column rank whose column space is exactly
   the space of the complete indicator coding of every term *)
Theorem C03_pick_contrasts_full_rank (I : finType) (name : I -> String.string) :
  injective name ->
  forall (F : fieldType) (n : I -> nat) (C : forall f : I, 'M[F]_((n f).+1, n f)),
    valid_contrasts C ->
    forall group : seq (String.string * seq Contrasts.factor),
      List.NoDup (List.map fst group) ->
      List.Forall (fun g => List.NoDup g.2) group ->
      (forall g f, List.In g group -> List.In f g.2 -> exists i : I, f = name i) ->
      exists result,
        Contrasts.pick_contrasts group = Base.Ok result /\
        (let cs := [seq coding_of name s | s <- ContrastsPartition.all_codings result] in
         let ts := [seq set_of name g.2 | g <- group] in
         [/\ free (design C cs),
             (<<design C cs>> = M C (down_closure ts))%VS,
             (<<design C cs>> = \sum_(T <- ts) <<block C (set0, T)>>)%VS
           & \rank (design_mx C cs) = size (design C cs)]).
Proof. exact: pick_contrasts_full_rank. Qed.

(* conversely, a factor set covered twice makes the columns linearly dependent *)
Theorem C03_overlap_is_rank_deficient (F : fieldType) (I : finType) (n : I -> nat)
        (C : forall f : I, 'M[F]_((n f).+1, n f)) :
  valid_contrasts C ->
  forall (cs : seq (coding I)) (S0 : {set I}),
    all (@wf_coding I) cs -> (forall f, f \in S0 -> (0 < n f)%N) ->
    (1 < count (fun c => S0 \in ivl c) cs)%N -> ~~ free (design C cs).
Proof. exact: design_overlap_dependent. Qed.

Print Assumptions C03_tensor_bridge.
Print Assumptions C03_pick_contrasts_full_rank.
Print Assumptions C03_overlap_is_rank_deficient.
