(* C14 (invariance) -- stateful transforms do not depend on the unit or the origin the variable
   is measured in:  v |-> c * v + a  applied to the training data AND to the later data.
     center      : learnt mean moves like the data, output is multiplied by c (shift removed);
     scale       : output unchanged for c > 0, sign flipped for c < 0;
     poly (orth.): every column unchanged for c > 0; the column of degree j is multiplied by
                   (-1)^j for c < 0; alpha moves like the data, norms2[k] scales by c^(2k);
     poly (raw)  : NOT invariant (witness);
     bs          : basis unchanged for c > 0 when explicit knots / bounds are moved alike; default
                   quantile knots and default bounds move by themselves; c < 0 refuted.
   The square root is the model's function argument [ksqrt]; it is only assumed to return the
   non-negative root at the values where the model calls it (a total rational square root does not
   exist, so a global assumption would make the theorems vacuous).
   Proofs: Proofs/TransformsAffine.v, Proofs/TransformsAffineSpline.v. *)
From Coq Require Import List QArith Qcanon ZArith.
From Verif Require Import Base Transforms Spline Poly TransformsPoly TransformsAffine
  TransformsAffineSpline.
Import ListNotations.
Local Open Scope Qc_scope.

(* s is the non-negative root of v *)
Definition nn_root (s v : Qc) : Prop := 0 <= s /\ s * s = v.

(* ---- the lemma on ksqrt: a consequence of the root specification, not an assumption ---- *)
Theorem C14_ksqrt_scale :
  forall (ksqrt : Qc -> Qc) c v,
    0 <= c -> nn_root (ksqrt v) v -> nn_root (ksqrt (c * c * v)) (c * c * v) ->
    ksqrt (c * c * v) = c * ksqrt v.
Proof. exact ksqrt_scale. Qed.

(* ---- center ---- *)
Theorem C14_center_shift_train :
  forall a xs,
    map (center_apply (center_fit (map (fun v => v + a) xs))) (map (fun v => v + a) xs)
    = map (center_apply (center_fit xs)) xs.
Proof. exact center_shift_train. Qed.

Theorem C14_center_shift_mean :
  forall a xs, xs <> [] -> center_fit (map (fun v => v + a) xs) = center_fit xs + a.
Proof. exact center_shift_fit. Qed.

Theorem C14_center_shift_later :
  forall a xs ys, xs <> [] ->
    map (center_apply (center_fit (map (fun v => v + a) xs))) (map (fun v => v + a) ys)
    = map (center_apply (center_fit xs)) ys.
Proof. exact center_shift_later. Qed.

Theorem C14_center_mult :
  forall c xs ys,
    map (center_apply (center_fit (map (fun v => c * v) xs))) (map (fun v => c * v) ys)
    = map (fun v => c * v) (map (center_apply (center_fit xs)) ys).
Proof. exact center_mult. Qed.

Theorem C14_center_call_affine :
  forall c a xs ys, xs <> [] ->
    let '(mu, out_xs, out_ys) := center_call xs ys in
    center_call (map (fun v => c * v + a) xs) (map (fun v => c * v + a) ys)
    = (c * mu + a, map (fun v => c * v) out_xs, map (fun v => c * v) out_ys).
Proof. exact center_call_affine. Qed.

(* ---- scale ---- *)
Theorem C14_scale_affine :
  forall (ksqrt : Qc -> Qc) c a xs,
    xs <> [] ->
    nn_root (ksqrt (var xs)) (var xs) ->
    nn_root (ksqrt (var (map (fun v => c * v + a) xs))) (var (map (fun v => c * v + a) xs)) ->
    forall ys, 0 < c ->
      map (scale_apply (scale_fit ksqrt (map (fun v => c * v + a) xs)))
          (map (fun v => c * v + a) ys)
      = map (scale_apply (scale_fit ksqrt xs)) ys.
Proof. exact scale_affine_later. Qed.

Theorem C14_scale_affine_neg :
  forall (ksqrt : Qc -> Qc) c a xs,
    xs <> [] ->
    nn_root (ksqrt (var xs)) (var xs) ->
    nn_root (ksqrt (var (map (fun v => c * v + a) xs))) (var (map (fun v => c * v + a) xs)) ->
    forall ys, c < 0 ->
      map (scale_apply (scale_fit ksqrt (map (fun v => c * v + a) xs)))
          (map (fun v => c * v + a) ys)
      = map Qcopp (map (scale_apply (scale_fit ksqrt xs)) ys).
Proof. exact scale_affine_later_neg. Qed.

Theorem C14_scale_call_affine :
  forall (ksqrt : Qc -> Qc) c a xs,
    xs <> [] ->
    nn_root (ksqrt (var xs)) (var xs) ->
    nn_root (ksqrt (var (map (fun v => c * v + a) xs))) (var (map (fun v => c * v + a) xs)) ->
    forall ys, 0 < c ->
      let '(p, out_xs, out_ys) := scale_call ksqrt xs ys in
      scale_call ksqrt (map (fun v => c * v + a) xs) (map (fun v => c * v + a) ys)
      = ((c * fst p + a, c * snd p), out_xs, out_ys).
Proof. exact scale_call_affine. Qed.

(* ---- poly, orthonormal ---- *)
(* ksqrt returns the non-negative root at norms2[1..d] of a fit *)
Definition nn_roots (ksqrt : Qc -> Qc) (p : poly_params) (d : nat) : Prop :=
  forall m, (1 <= m)%nat -> (m <= d)%nat ->
    let v := nth m (poly_norms2 p) 0 in nn_root (ksqrt v) v.

(* multiply the column of degree j (1-based position j) by c^j *)
Definition cols_times_powers (c : Qc) (row : list Qc) : list Qc :=
  map (fun p => c ^ fst p * snd p) (combine (seq 1 (List.length row)) row).

Theorem C14_poly_affine :
  forall (ksqrt : Qc -> Qc) c a xs d ys,
    (d < List.length (nodup Qc_eq_dec xs))%nat ->
    nn_roots ksqrt (poly_fit xs d) d ->
    nn_roots ksqrt (poly_fit (map (fun v => c * v + a) xs) d) d ->
    (0 < c ->
       poly_apply ksqrt (poly_fit (map (fun v => c * v + a) xs) d) (map (fun v => c * v + a) ys)
       = poly_apply ksqrt (poly_fit xs d) ys) /\
    (c < 0 ->
       poly_apply ksqrt (poly_fit (map (fun v => c * v + a) xs) d) (map (fun v => c * v + a) ys)
       = map (cols_times_powers (- (1))) (poly_apply ksqrt (poly_fit xs d) ys)) /\
    (c <> 0 ->
       poly_alpha (poly_fit (map (fun v => c * v + a) xs) d)
       = map (fun v => c * v + a) (poly_alpha (poly_fit xs d)) /\
       poly_norms2 (poly_fit (map (fun v => c * v + a) xs) d)
       = map (fun p => c ^ fst p * c ^ fst p * snd p)
             (combine (seq 0 (List.length (poly_norms2 (poly_fit xs d))))
                      (poly_norms2 (poly_fit xs d))) /\
       forall m, (m <= d)%nat ->
         nth m (poly_norms2 (poly_fit (map (fun v => c * v + a) xs) d)) 0 <> 0).
Proof. exact poly_affine_distinct. Qed.

(* the recurrence quantities, every k: P_k scales by c^k, norms2 by c^(2k), alpha is a location,
   beta a squared length *)
Theorem C14_poly_recurrence_affine :
  forall c a xs, c <> 0 -> forall k,
    (forall m, (m < k)%nat -> n2 xs m <> 0) ->
    let xs' := map (fun v => c * v + a) xs in
    (forall y, P xs' k (c * y + a) = c ^ k * P xs k y) /\
    n2 xs' k = c ^ k * c ^ k * n2 xs k /\
    (n2 xs k <> 0 -> alpha xs' k = c * alpha xs k + a) /\
    bet xs' k = c * c * bet xs k.
Proof. exact poly_rec_affine. Qed.

(* unnormalised columns (no square root involved) *)
Theorem C14_poly_point_affine :
  forall c a xs d y,
    c <> 0 ->
    (forall m, (m < d)%nat -> nth m (poly_norms2 (poly_fit xs d)) 0 <> 0) ->
    poly_point (poly_fit (map (fun v => c * v + a) xs) d) (c * y + a)
    = cols_times_powers c (poly_point (poly_fit xs d) y).
Proof. exact poly_point_affine. Qed.

(* ---- poly, raw: not invariant ---- *)
Theorem C14_poly_raw_not_invariant :
  exists ksqrt c a xs d ys,
    0 < c /\ (d < List.length (nodup Qc_eq_dec xs))%nat /\
    poly_eval ksqrt true d (poly_fit (map (fun v => c * v + a) xs) d) (map (fun v => c * v + a) ys)
    <> poly_eval ksqrt true d (poly_fit xs d) ys.
Proof. exact poly_raw_affine_refuted. Qed.

(* ---- bs ---- *)
Theorem C14_bs_affine :
  forall c a, 0 < c ->
  forall x df knots degree intercept lower upper ys,
    let f := fun v => c * v + a in
    (do p <- bs_init (map f x) df (option_map (map f) knots) degree intercept
                     (option_map f lower) (option_map f upper);
     bs_apply p (map f ys))
    = (do p <- bs_init x df knots degree intercept lower upper; bs_apply p ys).
Proof. exact bs_affine. Qed.

Theorem C14_bs_affine_negative_refuted :
  exists c a x df degree intercept ys,
    c < 0 /\
    (do p <- bs_init (map (fun v => c * v + a) x) (Some df) None degree intercept None None;
     bs_apply p (map (fun v => c * v + a) ys))
    <> (do p <- bs_init x (Some df) None degree intercept None None; bs_apply p ys).
Proof. exact bs_affine_neg_refuted. Qed.

Print Assumptions C14_ksqrt_scale.
Print Assumptions C14_center_call_affine.
Print Assumptions C14_scale_affine.
Print Assumptions C14_scale_affine_neg.
Print Assumptions C14_poly_affine.
Print Assumptions C14_poly_recurrence_affine.
Print Assumptions C14_poly_raw_not_invariant.
Print Assumptions C14_bs_affine.
Print Assumptions C14_bs_affine_negative_refuted.
