(* C13, "contrast codings honour their options" -- a coded factor coded AGAIN: C(C(..)), C(T(..)), C(S(..)).
   formulae.transforms.C inherits the inner box's contrast when the outer call gives none and, INDEPENDENTLY, the
   inner box's levels when the outer call gives none.  Only final statements; proofs live in Proofs/CodingRebox.v.
   Vocabulary (Proofs/CodingRebox.v):
     merge outer inner  = outer if it is given (Some _), else inner;
     Cbox x c lv        = C(x, c, lv) on decoded options (C_sem x e l = do c <- as_encoding e; do lv <- as_levels l;
                          Cbox x c lv, for every way of passing the arguments: CodingOptions.call_C / C_call_shapes);
     run .. lz          = set_type_comp + set_data_comp of the call term lz;
     renamed_to lz r    = r with the typed component (name, source) of lz and the labels lz-name[l]. *)
From Verif Require Import Base Tokens Lazy Algebra Coding Contrasts Frame Eval Design.
From Verif Require Import DesignStructure DesignCoding DesignSum FrameStructure HelpersProofs CodingOptions CodingRebox.
From Coq Require Import Permutation.
Local Close Scope Qc_scope.
Local Close Scope Q_scope.
Local Open Scope string_scope.
Local Open Scope list_scope.

(* 1. the re-boxing law: four cases in one; refused exactly when the resulting levels are not the values present *)
Theorem C13_rebox_law : forall num d ci li co lo,
  Cbox (PBox num d ci li) co lo = mk_box num None d (merge co ci) (merge lo li) /\
  (levels_valid (merge lo li) d ->
   Cbox (PBox num d ci li) co lo = Ok (PBox num d (merge co ci) (merge lo li))) /\
  (~ levels_valid (merge lo li) d -> Cbox (PBox num d ci li) co lo = Err EValue).
Proof. exact rebox_law. Qed.

(* ... as calls, however the options are passed *)
Theorem C13_rebox_law_call : forall cx num d ci li e l co lo,
  as_encoding e = Ok co -> as_levels l = Ok lo ->
  let b := PBox num d ci li in
  let r := mk_box num None d (merge co ci) (merge lo li) in
  C_sem b e l = r /\
  call_function cx "C" [b; e; l] [] = r /\
  call_function cx "C" [b; e] [("levels", l)] = r /\
  call_function cx "C" [b] [("contrast", e); ("levels", l)] = r /\
  call_function cx "C" [b] [("levels", l); ("contrast", e)] = r /\
  call_function cx "C" [] [("data", b); ("contrast", e); ("levels", l)] = r.
Proof. exact rebox_law_call. Qed.

Theorem C13_rebox_law_call_absent : forall cx num d ci li e l co lo,
  as_encoding e = Ok co -> as_levels l = Ok lo ->
  let b := PBox num d ci li in
  call_function cx "C" [b] [] = mk_box num None d ci li /\
  call_function cx "C" [b; e] [] = mk_box num None d (merge co ci) li /\
  call_function cx "C" [b] [("contrast", e)] = mk_box num None d (merge co ci) li /\
  call_function cx "C" [b] [("levels", l)] = mk_box num None d ci (merge lo li).
Proof. exact rebox_law_call_absent. Qed.

(* idempotence: C(box) = box; C(C(x, c, lv)) = C(x, c, lv) *)
Theorem C13_rebox_idempotent : forall v, is_box v -> wf_box v -> Cbox v None None = Ok v.
Proof. exact rebox_idem. Qed.
Theorem C13_C_of_C : forall x c lv, (do b <- Cbox x c lv; Cbox b None None) = Cbox x c lv.
Proof. exact C_of_C. Qed.

(* composition: an accepted inner call followed by an outer one is the flat call with the merged options *)
Theorem C13_rebox_compose : forall x c1 l1 b c2 l2,
  Cbox x c1 l1 = Ok b -> Cbox b c2 l2 = Cbox x (merge c2 c1) (merge l2 l1).
Proof. exact rebox_compose. Qed.
Theorem C13_rebox_compose_always : forall x c1 l1 c2 l2,
  (do b <- Cbox x c1 l1; Cbox b c2 l2) = (do _ <- Cbox x c1 l1; Cbox x (merge c2 c1) (merge l2 l1)).
Proof. exact rebox_compose_bind. Qed.
Theorem C13_rebox_compose3 : forall x c1 l1 b1 c2 l2 b2 c3 l3,
  Cbox x c1 l1 = Ok b1 -> Cbox b1 c2 l2 = Ok b2 ->
  Cbox b2 c3 l3 = Cbox x (merge c3 (merge c2 c1)) (merge l3 (merge l2 l1)).
Proof. exact rebox_compose3. Qed.
Theorem C13_rebox_chain : forall opts x c1 l1 b,
  rebox_chain x ((c1, l1) :: opts) = Ok b ->
  Cbox x (fst (merged_options c1 l1 opts)) (snd (merged_options c1 l1 opts)) = Ok b.
Proof. exact rebox_chain_merged. Qed.

(* the named shapes, with the resulting boxes spelt out, for a column of plain strings *)
Theorem C13_rebox_shapes : forall xs lv,
  let x := PStrs None xs in
  levels_valid (Some lv) xs ->
  (do b <- Cbox x None (Some lv); Cbox b (Some (Sum None)) None)
    = Ok (PBox false xs (Some (Sum None)) (Some lv)) /\
  (forall r, (do b <- Cbox x (Some (Treatment r)) None; Cbox b None (Some lv))
    = Ok (PBox false xs (Some (Treatment r)) (Some lv))) /\
  (forall o, (do b <- Cbox x (Some (Sum o)) None; Cbox b None (Some lv))
    = Ok (PBox false xs (Some (Sum o)) (Some lv))) /\
  (do b <- Cbox x None None; Cbox b None None) = Ok (PBox false xs None None).
Proof. exact rebox_shapes_strs. Qed.

(* 2. design level.  Two calls with the same value give the same component up to the name *)
Theorem C13_design_up_to_name : forall cx data resp f1 args1 kw1 f2 args2 kw2 spans nrows,
  In f1 CTS -> forallb stateless args1 = true -> forallb (fun kv => stateless (snd kv)) kw1 = true ->
  In f2 CTS -> forallb stateless args2 = true -> forallb (fun kv => stateless (snd kv)) kw2 = true ->
  let E := ECtx data (d_extra cx) (d_sqrt cx) true in
  let lz1 := LzCall f1 args1 kw1 in
  let lz2 := LzCall f2 args2 kw2 in
  value E lz1 = value E lz2 ->
  run cx data resp spans nrows lz1 =
  res_map (fun dc => retag (TC (lazy_str lz1) (CCall lz1) KCategoric (tc_value (dc_t dc)) [] resp None) dc)
          (run cx data resp spans nrows lz2).
Proof. exact design_up_to_name. Qed.
Theorem C13_retag_keeps : forall t dc,
  dc_levels (retag t dc) = dc_levels dc /\ dc_contrast (retag t dc) = dc_contrast dc /\
  dc_rows (retag t dc) = dc_rows dc /\ dc_spans (retag t dc) = dc_spans dc /\ dc_t (retag t dc) = t.
Proof. exact retag_keeps. Qed.

(* C(f(q, a), levels=lv), e.g. C(T(q, 'b'), levels=lv): everything, in closed form *)
Theorem C13_nested_levels_over_coded : forall cx data resp f xn col a va enc lvn l num o d spans nrows,
  In f CTS -> stateless a = true ->
  let E := ECtx data (d_extra cx) (d_sqrt cx) true in
  assoc xn data = Some col -> series_strings (col_value col) = Ok (num, o, d) ->
  value E a = Ok va -> second_arg_encoding f va = Ok enc ->
  lookup_name E lvn = Ok (PStrList l) ->
  levels_valid o d ->
  let lz := LzCall "C" [LzCall f [LzVar xn; a] []] [("levels", LzVar lvn)] in
  let e := box_comp_encoding enc in
  (levels_valid (Some l) d -> NoDup l -> option_ok e spans l ->
   exists dc cm,
     run cx data resp spans nrows lz = Ok dc /\ tc_value (dc_t dc) = PBox num d enc (Some l) /\
     dc_levels dc = l /\ dc_contrast dc = Some cm /\ code e spans l = Ok cm /\
     clabels cm = contrast_labels e spans l /\
     dc_labels dc = Some (map (fun s => (lazy_str lz ++ "[" ++ s ++ "]")%string) (contrast_labels e spans l)) /\
     (entries_premise e spans l -> dc_rows dc = map (ocoded_row e spans l) d)) /\
  (~ (levels_valid (Some l) d /\ NoDup l /\ option_ok e spans l) ->
   run cx data resp spans nrows lz = Err EValue).
Proof. exact nested_levels_over_coded. Qed.

(* C(f(q, levels=lv), a), e.g. C(C(q, levels=lv), Sum) *)
Theorem C13_nested_coded_over_levels : forall cx data resp f xn col a va enc0 c2 lvn l num o d spans nrows,
  In f CTS -> stateless a = true ->
  let E := ECtx data (d_extra cx) (d_sqrt cx) true in
  assoc xn data = Some col -> series_strings (col_value col) = Ok (num, o, d) ->
  second_arg_encoding f PNoneV = Ok enc0 ->
  value E a = Ok va -> as_encoding va = Ok c2 ->
  lookup_name E lvn = Ok (PStrList l) ->
  let lz := LzCall "C" [LzCall f [LzVar xn] [("levels", LzVar lvn)]; a] [] in
  let e := box_comp_encoding (merge c2 enc0) in
  (levels_valid (Some l) d -> NoDup l -> option_ok e spans l ->
   exists dc cm,
     run cx data resp spans nrows lz = Ok dc /\ tc_value (dc_t dc) = PBox num d (merge c2 enc0) (Some l) /\
     dc_levels dc = l /\ dc_contrast dc = Some cm /\ code e spans l = Ok cm /\
     clabels cm = contrast_labels e spans l /\
     dc_labels dc = Some (map (fun s => (lazy_str lz ++ "[" ++ s ++ "]")%string) (contrast_labels e spans l)) /\
     (entries_premise e spans l -> dc_rows dc = map (ocoded_row e spans l) d)) /\
  (~ (levels_valid (Some l) d /\ NoDup l /\ option_ok e spans l) ->
   run cx data resp spans nrows lz = Err EValue).
Proof. exact nested_coded_over_levels. Qed.

(* the general form: any stateless inner call whose value is the boxing of a series *)
Theorem C13_nested_design : forall cx data resp inner rest kw spans nrows x num o d c1 l1 pos' kws e2 l2 c2 lo2,
  let E := ECtx data (d_extra cx) (d_sqrt cx) true in
  stateless inner = true -> forallb stateless rest = true ->
  forallb (fun kv => stateless (snd kv)) kw = true ->
  value E inner = Cbox x c1 l1 -> series_strings x = Ok (num, o, d) ->
  mapM (value E) rest = Ok pos' -> mapM (kwvalue E) kw = Ok kws ->
  (forall b, call_function E "C" (b :: pos') kws = C_sem b e2 l2) ->
  as_encoding e2 = Ok c2 -> as_levels l2 = Ok lo2 ->
  let lz := LzCall "C" (inner :: rest) kw in
  (levels_valid (box_levels o l1) d ->
   coded_as (run cx data resp spans nrows lz) (lazy_str lz) num o d (merge c2 c1) (merge lo2 l1) spans) /\
  (~ levels_valid (box_levels o l1) d -> run cx data resp spans nrows lz = Err EValue).
Proof. exact nested_design. Qed.

(* C(inner) is inner under another name *)
Theorem C13_bare_C_wrapper : forall cx data resp f args kw spans nrows,
  In f CTS -> forallb stateless args = true -> forallb (fun kv => stateless (snd kv)) kw = true ->
  let inner := LzCall f args kw in
  let lz := LzCall "C" [inner] [] in
  run cx data resp spans nrows lz =
  res_map (fun dc => retag (TC (lazy_str lz) (CCall lz) KCategoric (tc_value (dc_t dc)) [] resp None) dc)
          (run cx data resp spans nrows inner).
Proof. exact bare_C_wrapper. Qed.

(* nested = flat up to the name: C(T(q,'b'), levels=lv) ~ C(q, Treatment('b'), levels=lv) ~ T(q,'b',levels=lv), ... *)
Theorem C13_nested_A_is_flat : forall cx data resp f1 a1 va1 f2 a2 va2 enc xn col lvn l num o d spans nrows,
  In f1 CTS -> stateless a1 = true -> In f2 CTS -> stateless a2 = true ->
  let E := ECtx data (d_extra cx) (d_sqrt cx) true in
  assoc xn data = Some col -> series_strings (col_value col) = Ok (num, o, d) ->
  value E a1 = Ok va1 -> second_arg_encoding f1 va1 = Ok enc ->
  value E a2 = Ok va2 -> second_arg_encoding f2 va2 = Ok enc ->
  lookup_name E lvn = Ok (PStrList l) ->
  levels_valid o d ->
  let nested := LzCall "C" [LzCall f1 [LzVar xn; a1] []] [("levels", LzVar lvn)] in
  let flat := LzCall f2 [LzVar xn; a2] [("levels", LzVar lvn)] in
  run cx data resp spans nrows nested = renamed_to nested resp (run cx data resp spans nrows flat).
Proof. exact nested_A_is_flat. Qed.

(* ... C(C(q, levels=lv), Sum) ~ C(q, Sum, levels=lv), ... *)
Theorem C13_nested_B_is_flat : forall cx data resp f1 enc0 a1 va1 c1 f2 a2 va2 xn col lvn l num o d spans nrows,
  In f1 CTS -> stateless a1 = true -> In f2 CTS -> stateless a2 = true ->
  let E := ECtx data (d_extra cx) (d_sqrt cx) true in
  assoc xn data = Some col -> series_strings (col_value col) = Ok (num, o, d) ->
  second_arg_encoding f1 PNoneV = Ok enc0 ->
  value E a1 = Ok va1 -> as_encoding va1 = Ok c1 ->
  value E a2 = Ok va2 -> second_arg_encoding f2 va2 = Ok (merge c1 enc0) ->
  lookup_name E lvn = Ok (PStrList l) ->
  let nested := LzCall "C" [LzCall f1 [LzVar xn] [("levels", LzVar lvn)]; a1] [] in
  let flat := LzCall f2 [LzVar xn; a2] [("levels", LzVar lvn)] in
  run cx data resp spans nrows nested = renamed_to nested resp (run cx data resp spans nrows flat).
Proof. exact nested_B_is_flat. Qed.

(* the columns under reduced Treatment coding with reference r: indicators of the other levels in the order of lv;
   the rows of the reference (and missing rows) are zero *)
Theorem C13_treatment_reduced_columns : forall r lv,
  contrast_labels (Treatment (Some r)) false lv = without r lv /\
  (forall l, In l (without r lv) <-> In l lv /\ l <> r) /\
  (forall ox, ocoded_row (Treatment (Some r)) false lv ox = map (oind ox) (without r lv)) /\
  (forall ox, combine (without r lv) (ocoded_row (Treatment (Some r)) false lv ox)
              = map (fun l => (l, oind ox l)) (without r lv)) /\
  ocoded_row (Treatment (Some r)) false lv (Some r) = repeat (zcell 0) (List.length (without r lv)) /\
  ocoded_row (Treatment (Some r)) false lv None = repeat (zcell 0) (List.length (without r lv)).
Proof. exact treatment_reduced_columns. Qed.

(* 3. validation is that of the merged options, i.e. of the un-nested call *)
Theorem C13_nested_accepted_iff : forall cx data resp f xn col a va enc lvn l num o d spans nrows,
  In f CTS -> stateless a = true ->
  let E := ECtx data (d_extra cx) (d_sqrt cx) true in
  assoc xn data = Some col -> series_strings (col_value col) = Ok (num, o, d) ->
  value E a = Ok va -> second_arg_encoding f va = Ok enc ->
  lookup_name E lvn = Ok (PStrList l) ->
  let nested := LzCall "C" [LzCall f [LzVar xn; a] []] [("levels", LzVar lvn)] in
  let flat := LzCall f [LzVar xn; a] [("levels", LzVar lvn)] in
  let e := box_comp_encoding enc in
  (levels_valid o d ->
   ((exists dc, run cx data resp spans nrows nested = Ok dc)
      <-> levels_valid (Some l) d /\ NoDup l /\ option_ok e spans l) /\
   ((exists dc, run cx data resp spans nrows nested = Ok dc)
      <-> (exists dc, run cx data resp spans nrows flat = Ok dc))) /\
  (~ levels_valid o d -> run cx data resp spans nrows nested = Err EValue) /\
  (forall k, run cx data resp spans nrows nested = Err k -> k = EValue).
Proof. exact nested_A_accepted_iff. Qed.

Theorem C13_nested_reference_checked : forall cx data resp xn xs a r lvn l nrows,
  stateless a = true ->
  let E := ECtx data (d_extra cx) (d_sqrt cx) true in
  assoc xn data = Some (ColStr None xs) -> value E a = Ok (PStr r) ->
  lookup_name E lvn = Ok (PStrList l) ->
  let nT := LzCall "C" [LzCall "T" [LzVar xn; a] []] [("levels", LzVar lvn)] in
  let nS := LzCall "C" [LzCall "S" [LzVar xn; a] []] [("levels", LzVar lvn)] in
  ((exists dc, run cx data resp false nrows nT = Ok dc)
     <-> Permutation l (sort_levels false (present xs)) /\ In r l) /\
  (forall spans, (exists dc, run cx data resp spans nrows nS = Ok dc)
     <-> Permutation l (sort_levels false (present xs)) /\ In r l) /\
  (~ In r l -> run cx data resp false nrows nT = Err EValue /\
               forall spans, run cx data resp spans nrows nS = Err EValue).
Proof. exact nested_reference_checked_against_outer_levels. Qed.

(* 4. the merged fall-back (inherit only when BOTH options are absent) is NOT what the model does *)
Theorem C13_refuted_merged_fallback :
  (exists x e l, C_sem x e l <> C_sem_merged x e l) /\
  (exists b, value Examples.E Examples.inner1 = Ok b /\
     let lz := LzCall "C" [Examples.inner1; LzVar "Sum"] [] in
     value Examples.E lz = C_sem b (PEncClass true) PNoneV /\
     C_sem b (PEncClass true) PNoneV
       = Ok (PBox false Examples.qcol (Some (Sum None)) (Some ["c"; "a"; "b"])) /\
     C_sem_merged b (PEncClass true) PNoneV = Ok (PBox false Examples.qcol (Some (Sum None)) None) /\
     Examples.dlevels lz (C_sem b (PEncClass true) PNoneV) = Ok (["c"; "a"; "b"], ["c"; "a"]) /\
     Examples.dlevels lz (C_sem_merged b (PEncClass true) PNoneV) = Ok (["a"; "b"; "c"], ["a"; "b"])) /\
  (exists b, value Examples.E Examples.inner2 = Ok b /\
     let lz := LzCall "C" [Examples.inner2] Examples.lvkw in
     value Examples.E lz = C_sem b PNoneV (PStrList ["c"; "a"; "b"]) /\
     C_sem b PNoneV (PStrList ["c"; "a"; "b"])
       = Ok (PBox false Examples.qcol (Some (Treatment (Some "b"))) (Some ["c"; "a"; "b"])) /\
     C_sem_merged b PNoneV (PStrList ["c"; "a"; "b"])
       = Ok (PBox false Examples.qcol None (Some ["c"; "a"; "b"])) /\
     Examples.dlevels lz (C_sem b PNoneV (PStrList ["c"; "a"; "b"])) = Ok (["c"; "a"; "b"], ["c"; "a"]) /\
     Examples.dlevels lz (C_sem_merged b PNoneV (PStrList ["c"; "a"; "b"])) = Ok (["c"; "a"; "b"], ["a"; "b"])).
Proof. exact Examples.merged_fallback_refuted. Qed.

Print Assumptions C13_rebox_law.
Print Assumptions C13_rebox_law_call.
Print Assumptions C13_rebox_law_call_absent.
Print Assumptions C13_rebox_idempotent.
Print Assumptions C13_C_of_C.
Print Assumptions C13_rebox_compose.
Print Assumptions C13_rebox_compose_always.
Print Assumptions C13_rebox_compose3.
Print Assumptions C13_rebox_chain.
Print Assumptions C13_rebox_shapes.
Print Assumptions C13_design_up_to_name.
Print Assumptions C13_retag_keeps.
Print Assumptions C13_nested_levels_over_coded.
Print Assumptions C13_nested_coded_over_levels.
Print Assumptions C13_nested_design.
Print Assumptions C13_bare_C_wrapper.
Print Assumptions C13_nested_A_is_flat.
Print Assumptions C13_nested_B_is_flat.
Print Assumptions C13_treatment_reduced_columns.
Print Assumptions C13_nested_accepted_iff.
Print Assumptions C13_nested_reference_checked.
Print Assumptions C13_refuted_merged_fallback.
