(* C04 -- every design-matrix column holds exactly what its label says, continued: numeric components
   whose value is a matrix (the results of bs(...) and poly(...)), offsets, and the link with C14
   (the widths the transforms produce).
   Model: Model/Design.v set_data_comp, KNumeric/PMatrix and KOffset branches (Call.set_data /
   Call.labels of formulae/terms/call.py); proofs in Proofs/DesignMatrixComp.v. *)
From Verif Require Import Base Tokens Lazy Algebra Coding Contrasts Frame Eval Design.
From Verif Require Import DesignStructure DesignCoding DesignSum FrameStructure Containers DesignMatrixComp.
From Verif Require Spline.
From Verif Require Tie.
From Coq Require Import ZArith.
Local Close Scope Qc_scope.
Local Close Scope Q_scope.
Local Open Scope list_scope.
Local Open Scope nat_scope.

(* a matrix-valued numeric component: rows unchanged, labels name[0] .. name[w-1] read off the first
   row when its width w exceeds 1, the bare name otherwise (w = 1, and also w = 0) *)
Theorem C04_matrix_component : forall t spans nrows rows,
  tc_kind t = KNumeric -> tc_value t = PMatrix rows ->
  set_data_comp t spans nrows
  = Ok (DC t [] None rows (Some (matrix_labels (tc_name t) (width rows))) spans).
Proof. exact set_data_comp_matrix. Qed.

(* labels and columns agree in number exactly for regular matrices that are not zero-width *)
Theorem C04_matrix_component_wf_iff : forall t spans nrows rows dc,
  tc_kind t = KNumeric -> tc_value t = PMatrix rows -> set_data_comp t spans nrows = Ok dc ->
  (dcomp_wf dc <-> regular rows /\ (rows = [] \/ 1 <= width rows)).
Proof. exact set_data_comp_matrix_wf_iff. Qed.

(* an offset among the predictors: one column, labelled by the name, holding the offset values *)
Theorem C04_offset_component : forall t spans nrows o xs,
  tc_kind t = KOffset -> tc_response t = false -> tc_value t = POffset o xs ->
  set_data_comp t spans nrows
  = Ok (DC t [] None (map (fun x => [x]) (offset_values nrows o xs)) (Some [tc_name t]) spans).
Proof. exact set_data_comp_offset. Qed.

(* closed form for terms made of coded, matrix-valued and offset components: column j = (j0, js) in
   mixed radix carries the pieces' labels joined by ":" and holds, on row i, the product of what the
   pieces denote on that row (column k of a matrix-valued component: entry k of its row) *)
Theorem C04_every_column_holds_what_its_label_says_matrix :
  forall nrows name c0 crest s dt i j0 js p0 ps,
  Forall coded_comp' (c0 :: crest) ->
  set_data_term nrows (TTTerm name (c0 :: crest)) s = Ok dt ->
  Forall (fun c => i < comp_nrows' nrows c) (c0 :: crest) ->
  let sp c := spans_for s (tc_name c) in
  nth_error (comp_pieces' c0 (sp c0)) j0 = Some p0 ->
  Forall2 (fun jc p => nth_error (comp_pieces' (snd jc) (sp (snd jc))) (fst jc) = Some p)
          (combine js crest) ps ->
  List.length js = List.length crest ->
  let j := mixed_index j0 js (map (fun c => List.length (comp_pieces' c (sp c))) crest) in
  exists labs,
    dt_labels dt = Some labs /\
    nth_error labs j
    = Some (fold_left (fun a b => (a ++ ":" ++ b)%string)
                      (map (fun cp => piece_label' (tc_name (fst cp)) (snd cp)) (combine crest ps))
                      (piece_label' (tc_name c0) p0)) /\
    nth_error (nth i (dt_rows dt) []) j
    = Some (fold_left cmul
                      (map (fun cp => denote_piece' (snd cp) (comp_datum' (fst cp) i)) (combine crest ps))
                      (denote_piece' p0 (comp_datum' c0 i))).
Proof. exact set_data_term_coded'_entry. Qed.

(* C14 link: whatever call yields a matrix, on a rectangular frame the matrix is regular ... *)
Theorem C04_typed_matrix_regular : forall cx D n r c t rows,
  rect n D -> extras_shape n cx -> set_type_comp cx D r c = Ok t -> tc_value t = PMatrix rows ->
  tc_kind t = KNumeric /\ List.length rows = n /\ regular rows.
Proof. exact typed_matrix_shape. Qed.

(* ... poly(x, d) always gives a component the closed form applies to, with d >= 1 columns ... *)
Theorem C04_typed_poly : forall cx D n r args kw t,
  rect n D -> extras_shape n cx ->
  set_type_comp cx D r (CCall (LzCall "poly" args kw)) = Ok t ->
  matrix_comp t /\
  exists rows raw deg p pre,
    tc_value t = PMatrix rows /\ List.length rows = n /\ 1 <= deg /\
    Forall (fun row => List.length row = deg) rows /\
    tc_state t = pre ++ [TPPoly raw deg p].
Proof. exact typed_poly_matrix_comp. Qed.

(* ... and bs(x, df=d, ...) gives one exactly when d >= 1 (degree (+ 1 with intercept) <= d) *)
Theorem C04_typed_bs : forall cx D n r args kw t,
  rect n D -> extras_shape n cx ->
  set_type_comp cx D r (CCall (LzCall "bs" args kw)) = Ok t ->
  exists rows p pre d,
    tc_kind t = KNumeric /\ tc_value t = PMatrix rows /\ List.length rows = n /\ rows <> [] /\
    regular rows /\ Z.of_nat (width rows) = d /\ bs_width p = width rows /\
    tc_state t = pre ++ [TPBs p] /\
    (exists l deg ic lo hi,
       Spline.bs_init l (Some d) None deg ic lo hi = Ok p /\ (0 <= deg)%Z /\
       (deg + (if ic then 1 else 0) <= d)%Z) /\
    (matrix_comp t <-> (1 <= d)%Z).
Proof. exact typed_bs_matrix_comp. Qed.

Print Assumptions C04_matrix_component.
Print Assumptions C04_matrix_component_wf_iff.
Print Assumptions C04_offset_component.
Print Assumptions C04_every_column_holds_what_its_label_says_matrix.
Print Assumptions C04_typed_matrix_regular.
Print Assumptions C04_typed_poly.
Print Assumptions C04_typed_bs.
