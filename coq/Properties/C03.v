(* C03 -- the common-effects matrix has full column rank and spans exactly the model space.
   The statement factors into (a) WHICH coding each term receives -- a combinatorial analysis
   (Model/Contrasts.v, mirroring formulae/contrasts.py) -- and (b) what a coding spans
   (LinAlg/Contrast.v, see C13).  In the tensor basis (constant | contrast) per factor, a block
   coded with reduced factors R and full factors F spans exactly the coordinate subspaces whose
   support S satisfies R <= S <= R + F (its interval, [inI]); the columns of a model are linearly
   independent and span the space of the complete indicator coding iff the intervals of all
   codings PARTITION the union of the down-closures of the terms.  That partition is proved here
   for every group of terms, in every order, of any size.
   Not proved in Coq (named gap): the tensor bridge "interval partition => row_free and equal
   column space" for the Kronecker construction, and the caller's restriction to ONE coding per
   term (Model.eval takes encodings[name][0]); the correspondence and the exact-rank oracle of
   the C03 check cover those on complete-factorial data. *)
From Verif Require Import Base Contrasts ContrastsPartition.
From Verif Require Tie.

Theorem C03_pick_contrasts_partition :
  forall group : list (string * list factor),
    NoDup (map fst group) ->
    Forall (fun g => NoDup (snd g)) group ->
    exists result,
      pick_contrasts group = Ok result /\
      map fst result = map fst group /\
      terms_spec [] group result /\
      (forall S0, cnt (all_codings result) S0 =
                  (if existsb (subsetb S0) (map snd group) then 1 else 0)) /\
      ForallOrdPairs disjI (all_codings result).
Proof. exact pick_contrasts_partition. Qed.

(* every subset of every term's factors is covered by exactly one coding *)
Theorem C03_covered_exactly_once :
  forall group result S,
    NoDup (map fst group) ->
    Forall (fun g => NoDup (snd g)) group ->
    pick_contrasts group = Ok result ->
    existsb (subsetb S) (map snd group) = true ->
    exists l1 c l2,
      all_codings result = (l1 ++ c :: l2)%list /\ inI c S = true /\
      (forall d, In d l1 \/ In d l2 -> inI d S = false).
Proof. exact pick_contrasts_exists_unique. Qed.

(* the Python assertions inside Subterm.absorb can never fail, and the fuel is enough *)
Theorem C03_absorb_never_fails :
  forall long short,
    wf long -> wf short -> can_absorb long short = true ->
    (forall S, inI short S && inI long S = false) -> absorb long short <> None.
Proof. exact absorb_never_fails. Qed.

Theorem C03_simplify_preserves :
  forall fuel l,
    Forall wf l -> (forall S0, cnt l S0 <= 1) -> List.length l <= S fuel ->
    exists l', simplify fuel l = Ok l' /\ Forall wf l' /\
               (forall S, cnt l' S = cnt l S) /\ simplify_step [] l' = None.
Proof. exact simplify_preserves. Qed.

(* Non-vacuity and the known limitation: with an intercept, f:g:h receives FOUR codings; the
   caller (Model.eval) applies only the first one (finding KF-C03-2). *)
Example C03_example_two_factor :
  pick_contrasts [("Intercept"%string, []); ("f"%string, ["f"%string]);
                  ("f:g"%string, ["f"%string; "g"%string])]
  = Ok [("Intercept"%string, [[]]); ("f"%string, [[("f"%string, false)]]);
        ("f:g"%string, [[("g"%string, false); ("f"%string, true)]])].
Proof. vm_compute. reflexivity. Qed.

Example C03_refuted_single_coding :
  exists r cods, pick_contrasts [("Intercept"%string, []);
                                 ("f:g:h"%string, ["f"%string; "g"%string; "h"%string])] = Ok r /\
                 dict_get "f:g:h"%string r = Some cods /\ List.length cods = 4.
Proof. eexists. eexists. repeat split; vm_compute; reflexivity. Qed.

Print Assumptions C03_pick_contrasts_partition.
Print Assumptions C03_covered_exactly_once.
Print Assumptions C03_absorb_never_fails.
Print Assumptions C03_simplify_preserves.
