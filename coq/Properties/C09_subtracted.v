(* C09, clause "missing values in unused columns are ignored": a term (variable, interaction,
   parenthesised model, group term) that is added and removed again by "-" is NOT used.
   y ~ r + t - t  describes as the very same model as  y ~ r  (Model/Algebra.v [describe]: same
   response, same common terms in the same order, same group terms), hence the same used columns,
   the same missing-value mask and the same design for EVERY frame and every na_action.
   Proofs: Proofs/SubtractedVars.v.  Trees: any tokens of the right kinds; [r] any right-hand side
   that does not resolve to a BARE group term (hand-built trees only: the scanner writes "1 +";
   there  (1|g) + z  raises TypeError in the library and in the model, witness below). *)
From Verif Require Import Base Tokens Lazy Algebra Coding Contrasts Frame Eval Design AlgebraRefines KeywordOrder FrameStructure SubtractedVars.
Local Close Scope Qc_scope.
Local Close Scope Q_scope.

(* t: any operand resolving to ONE term that is not a common term of the model *)
Theorem C09_add_sub_describes_same :
  forall y tl r pl te mi m t,
    tkind tl = TILDE -> tkind pl = PLUS -> tkind mi = MINUS ->
    describe (EBinary y tl r) = Ok m ->
    (forall g, resolve r <> Ok (VG g)) ->
    resolve te = Ok (VT t) ->
    cmem (CT t) (commons m) = false ->
    describe (EBinary y tl (EBinary (EBinary r pl te) mi te)) = Ok m.
Proof. exact describe_add_sub. Qed.

(* the parser's trees: the right-hand side is a sum, no side condition *)
Theorem C09_add_sub_describes_same_sum :
  forall y tl l p0 r0 pl te mi m t,
    tkind tl = TILDE -> tkind p0 = PLUS -> tkind pl = PLUS -> tkind mi = MINUS ->
    describe (EBinary y tl (EBinary l p0 r0)) = Ok m ->
    resolve te = Ok (VT t) ->
    cmem (CT t) (commons m) = false ->
    describe (EBinary y tl (EBinary (EBinary (EBinary l p0 r0) pl te) mi te)) = Ok m.
Proof. exact describe_add_sub_sum. Qed.

(* a variable that no common term reads *)
Theorem C09_add_sub_variable :
  forall y tl r pl n mi m,
    tkind tl = TILDE -> tkind pl = PLUS -> tkind mi = MINUS ->
    describe (EBinary y tl r) = Ok m ->
    (forall g, resolve r <> Ok (VG g)) ->
    ~ In (lexeme n) (common_vars m) ->
    describe (EBinary y tl (EBinary (EBinary r pl (evar n)) mi (evar n))) = Ok m.
Proof. exact describe_add_sub_var. Qed.

(* an interaction v:f of such a variable *)
Theorem C09_add_sub_interaction :
  forall y tl r pl n co f mi m,
    tkind tl = TILDE -> tkind pl = PLUS -> tkind mi = MINUS -> tkind co = COLON ->
    describe (EBinary y tl r) = Ok m ->
    (forall g, resolve r <> Ok (VG g)) ->
    (exists t, resolve (EBinary (evar n) co f) = Ok (VT t)) ->
    ~ In (lexeme n) (common_vars m) ->
    let te := EBinary (evar n) co f in
    describe (EBinary y tl (EBinary (EBinary r pl te) mi te)) = Ok m.
Proof. exact describe_add_sub_interaction. Qed.

(* a parenthesised model / a group term (z|g), none of whose terms is in the model *)
Theorem C09_add_sub_model :
  forall y tl r pl te mi m o,
    tkind tl = TILDE -> tkind pl = PLUS -> tkind mi = MINUS ->
    describe (EBinary y tl r) = Ok m ->
    (forall g, resolve r <> Ok (VG g)) ->
    resolve te = Ok (VM o) ->
    fresh_for m o ->
    describe (EBinary y tl (EBinary (EBinary r pl te) mi te)) = Ok m.
Proof. exact describe_add_sub_model. Qed.

(* consequences for the data *)
Theorem C09_add_sub_same_used_columns :
  forall y r te tl pl mi m t,
    tkind tl = TILDE -> tkind pl = PLUS -> tkind mi = MINUS ->
    describe (EBinary y tl r) = Ok m -> (forall g, resolve r <> Ok (VG g)) ->
    resolve te = Ok (VT t) -> cmem (CT t) (commons m) = false ->
    forall data m0 m1,
      describe (EBinary y tl r) = Ok m0 ->
      describe (EBinary y tl (EBinary (EBinary r pl te) mi te)) = Ok m1 ->
      used_cols data m1 = used_cols data m0 /\ incomplete_mask data m1 = incomplete_mask data m0 /\
      forall na, prepare_data data m1 na = prepare_data data m0 na.
Proof. exact used_cols_add_sub. Qed.

Theorem C09_add_sub_same_design :
  forall y r te tl pl mi m t,
    tkind tl = TILDE -> tkind pl = PLUS -> tkind mi = MINUS ->
    describe (EBinary y tl r) = Ok m -> (forall g, resolve r <> Ok (VG g)) ->
    resolve te = Ok (VT t) -> cmem (CT t) (commons m) = false ->
    forall cx data na,
      design_matrices cx (EBinary y tl (EBinary (EBinary r pl te) mi te)) data na =
      design_matrices cx (EBinary y tl r) data na.
Proof. exact design_add_sub. Qed.

(* whatever column v holds (all missing, another type, ...) *)
Theorem C09_add_sub_column_content_irrelevant :
  forall cx y tl r pl n mi m kv0 a b c c' na,
    tkind tl = TILDE -> tkind pl = PLUS -> tkind mi = MINUS ->
    describe (EBinary y tl r) = Ok m ->
    (forall g, resolve r <> Ok (VG g)) ->
    ~ In (lexeme n) (model_vars m) ->
    let e1 := EBinary y tl (EBinary (EBinary r pl (evar n)) mi (evar n)) in
    design_matrices cx e1 (kv0 :: a ++ (lexeme n, c) :: b)%list na =
    design_matrices cx e1 (kv0 :: a ++ (lexeme n, c') :: b)%list na.
Proof. exact design_add_sub_var_any_column. Qed.

(* the excluded right-hand side *)
Theorem C09_add_sub_refuted_for_bare_group :
  exists y tl r pl te mi m t,
    tkind tl = TILDE /\ tkind pl = PLUS /\ tkind mi = MINUS /\
    describe (EBinary y tl r) = Ok m /\ resolve te = Ok (VT t) /\ cmem (CT t) (commons m) = false /\
    (exists g, resolve r = Ok (VG g)) /\
    describe (EBinary y tl (EBinary (EBinary r pl te) mi te)) = Err EType.
Proof. exact bare_group_refuted. Qed.

(* the contrast: x*z - z keeps x:z, so z IS used *)
Theorem C09_star_minus_still_uses :
  forall yn tl x st z mi,
    tkind tl = TILDE -> tkind st = STAR -> tkind mi = MINUS -> lexeme x <> lexeme z ->
    let e := EBinary (evar yn) tl (EBinary (EBinary (evar x) st (evar z)) mi (evar z)) in
    let m := Mod (Some [cvar (lexeme yn)]) [CT [cvar (lexeme x)]; CT [cvar (lexeme x); cvar (lexeme z)]] [] in
    describe e = Ok m /\ In (lexeme z) (model_vars m) /\
    forall data c, In (lexeme z, c) data -> In (lexeme z, c) (used_cols data m).
Proof. exact star_minus_keeps. Qed.

Theorem C09_remaining_term_reads :
  forall m t v, In (CT t) (commons m) -> In v (term_vars t) ->
    In v (model_vars m) /\ forall data c, In (v, c) data -> In (v, c) (used_cols data m).
Proof. exact remaining_term_reads. Qed.

(* texts *)
Example C09_text_variable : describe (ast "y ~ x + z - z") = describe (ast "y ~ x")
  /\ names "y ~ x + z - z" = Some (Some "y", ["Intercept"; "x"], [])%string.
Proof. exact text_var. Qed.
Example C09_text_interaction : describe (ast "y ~ x + g + z:g - z:g") = describe (ast "y ~ x + g")
  /\ names "y ~ x + g + z:g - z:g" = Some (Some "y", ["Intercept"; "x"; "g"], [])%string.
Proof. exact text_interaction. Qed.
Example C09_text_group : describe (ast "y ~ x + (z|g) - (z|g) - (1|g)") = describe (ast "y ~ x")
  /\ describe (ast "y ~ x + (z|g) - (z|g)") = describe (ast "y ~ x")
  /\ names "y ~ x + (z|g)" = Some (Some "y", ["Intercept"; "x"], ["1|g"; "z|g"])%string
  /\ names "y ~ x + (z|g) - (1|g)" = Some (Some "y", ["Intercept"; "x"], ["z|g"])%string.
Proof. exact text_group. Qed.
Example C09_text_missing_column_ignored :
  forall na, prepare_data frame_z_missing (model_of "y ~ x + z - z") na =
             Ok [("y", ColNum false [qc 1; qc 2; qc 3]); ("x", ColNum false [qc 4; qc 5; qc 7])]%string.
Proof. exact missing_z_ignored. Qed.
Example C09_text_star_minus :
  names "y ~ x*z - z" = Some (Some "y", ["Intercept"; "x"; "x:z"], [])%string /\
  In "z"%string (model_vars (model_of "y ~ x*z - z")) /\
  prepare_data frame_z_missing (model_of "y ~ x*z - z") NaError = Err EValue /\
  prepare_data frame_z_missing (model_of "y ~ x*z - z") NaDrop =
    Ok [("y", ColNum false []); ("x", ColNum false []); ("z", ColNum false [])]%string.
Proof. exact star_minus_text. Qed.

Print Assumptions C09_add_sub_describes_same.
Print Assumptions C09_add_sub_model.
Print Assumptions C09_add_sub_same_design.
Print Assumptions C09_add_sub_column_content_irrelevant.
Print Assumptions C09_add_sub_refuted_for_bare_group.
Print Assumptions C09_star_minus_still_uses.
