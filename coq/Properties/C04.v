(* C04 -- every design-matrix column holds exactly what its label says.
   Model: Model/Design.v (set_data_comp / set_data_term / set_data_gterm mirror Variable / Call /
   Term / GroupSpecificTerm .set_data and .labels; row_kron mirrors get_interaction_matrix).
   A labelled row pairs each column label with the entry of that column on one observation. *)
From Verif Require Import Base Coding Contrasts Frame Eval Design DesignStructure DesignCoding DesignSum.
From Verif Require Tie.
Local Close Scope Qc_scope.
Local Close Scope Q_scope.

(* the spec-level product of two labelled rows: labels are joined, entries multiplied,
   the LEFT factor varies slowest *)
Definition lprod_spec (sep : string) (a b : list (string * cell)) : list (string * cell) :=
  flat_map (fun p => map (fun q => ((fst p ++ sep ++ fst q)%string, cmul (snd p) (snd q))) b) a.

Lemma lprod_is_spec sep a b : lprod sep a b = lprod_spec sep a b.
Proof.
  unfold lprod, lprod_spec. induction a as [|[la va] a IH]; simpl; [reflexivity|].
  f_equal; [|exact IH]. apply map_ext. intros [lb vb]. reflexivity.
Qed.

(* interaction of any arity, any column counts: labels and entries stay aligned; in particular
   labels and columns are equal in number *)
Theorem C04_labelled_product :
  forall sep (ls : list (list string)) (xs : list (list cell)) l0 x0,
    List.length l0 = List.length x0 ->
    Forall2 (fun l x => List.length l = List.length x) ls xs ->
    combine (label_product (l0 :: ls) sep) (fold_left row_kron xs x0) =
    fold_left (lprod sep) (zip_with (@combine string cell) ls xs) (combine l0 x0).
Proof. exact combine_kron_fold. Qed.

Theorem C04_labels_columns_count :
  forall sep (ls : list (list string)) (xs : list (list cell)) l0 x0,
    List.length l0 = List.length x0 ->
    Forall2 (fun l x => List.length l = List.length x) ls xs ->
    List.length (label_product (l0 :: ls) sep) = List.length (fold_left row_kron xs x0).
Proof. exact label_product_length_fold. Qed.

(* a treatment-coded categorical component: the column labelled name[l] is 1 exactly on the rows
   whose value is l (reference row: all zeros; full coding: one column per level) *)
Theorem C04_treatment_indicator :
  forall t spans nrows dc cm ref,
    tc_kind t = KCategoric ->
    set_data_comp t spans nrows = Ok dc ->
    dc_contrast dc = Some cm ->
    comp_encoding t = Treatment ref ->
    NoDup (dc_levels dc) ->
    exists num o d,
      categoric_data (tc_value t) = Ok (num, o, d) /\
      forall i ox, nth_error d i = Some ox ->
                   comp_lrow i dc = map (fun l => (comp_label t l, oind ox l)) (clabels cm).
Proof. exact set_data_comp_treatment_lrow. Qed.

(* a whole term of numeric and treatment-coded components: on every row the labelled row of the
   term is the left-to-right labelled product of the labelled rows of its components *)
Theorem C04_term_labels_columns :
  forall nrows name cs s dt,
    Forall plain_comp cs ->
    set_data_term nrows (TTTerm name cs) s = Ok dt ->
    exists d0 rest labs,
      dt_comps dt = d0 :: rest /\ dt_labels dt = Some labs /\
      forall i, Forall (fun d => i < List.length (dc_rows d)) (dt_comps dt) ->
        combine labs (nth i (dt_rows dt) []) =
        fold_left (lprod ":") (map (comp_lrow i) rest) (comp_lrow i d0) /\
        List.length labs = List.length (nth i (dt_rows dt) []).
Proof. exact set_data_term_plain_lrow. Qed.

(* Sum coding: over duplicate-free levels lv with omitted level o (the given one, the LAST level by
   default) the reduced columns are labelled by the levels other than o and hold 1 at the own level, -1 at
   o, 0 elsewhere; the full coding adds a first column [mean]. *)
Theorem C04_sum_code_row : forall omit spans lv cm x,
  NoDup lv -> code (Sum omit) spans lv = Ok cm -> (spans = true -> lv <> []) ->
  let o := sum_omitted omit lv in
  clabels cm = sum_labels spans (without o lv) /\
  code_row (cmatrix cm) (contrast_width cm) (index_of x lv) = sum_row spans lv o x (without o lv) /\
  (lv <> [] -> In o lv).
Proof. exact sum_code_row. Qed.

(* a term made of numeric, Treatment-coded or Sum-coded components: the labelled row of the term is the
   labelled product (left factor slowest) of the labelled rows of its components ... *)
Theorem C04_coded_term_labels_columns : forall nrows name cs s dt,
  Forall coded_comp cs ->
  set_data_term nrows (TTTerm name cs) s = Ok dt ->
  exists d0 rest labs,
    dt_comps dt = d0 :: rest /\ dt_labels dt = Some labs /\
    forall i, Forall (fun d => i < List.length (dc_rows d)) (dt_comps dt) ->
      combine labs (nth i (dt_rows dt) [])
      = fold_left (lprod ":") (map (comp_lrow i) rest) (comp_lrow i d0)
      /\ List.length labs = List.length (nth i (dt_rows dt) []).
Proof. exact set_data_term_coded_lrow. Qed.

(* ... and in closed form: column j = (j0, js) in mixed radix carries the label made of the pieces'
   labels joined by ":" and holds, on row i, the product of what the pieces denote on that row (numeric
   value / level indicator / sum contrast value / [mean]). *)
Theorem C04_every_column_holds_what_its_label_says : forall nrows name c0 crest s dt i j0 js p0 ps,
  Forall coded_comp (c0 :: crest) ->
  set_data_term nrows (TTTerm name (c0 :: crest)) s = Ok dt ->
  Forall (fun c => i < comp_nrows c) (c0 :: crest) ->
  let sp c := spans_for s (tc_name c) in
  nth_error (comp_pieces c0 (sp c0)) j0 = Some p0 ->
  Forall2 (fun jc p => nth_error (comp_pieces (snd jc) (sp (snd jc))) (fst jc) = Some p)
          (combine js crest) ps ->
  List.length js = List.length crest ->
  let j := mixed_index j0 js (map (fun c => List.length (comp_pieces c (sp c))) crest) in
  exists labs,
    dt_labels dt = Some labs /\
    nth_error labs j
    = Some (fold_left (fun a b => (a ++ ":" ++ b)%string)
                      (map (fun cp => piece_label (tc_name (fst cp)) (snd cp)) (combine crest ps))
                      (piece_label (tc_name c0) p0)) /\
    nth_error (nth i (dt_rows dt) []) j
    = Some (fold_left cmul
                      (map (fun cp => denote_piece (snd cp) (comp_datum (fst cp) i)) (combine crest ps))
                      (denote_piece p0 (comp_datum c0 i))).
Proof. exact set_data_term_coded_entry. Qed.

(* levels of unordered data are sorted and duplicate-free, declared orders are kept *)
Theorem C04_levels_nodup : forall num l, NoDup (sort_levels num l).
Proof. exact sort_levels_NoDup. Qed.

Print Assumptions C04_labelled_product.
Print Assumptions C04_treatment_indicator.
Print Assumptions C04_term_labels_columns.
Print Assumptions C04_sum_code_row.
Print Assumptions C04_coded_term_labels_columns.
Print Assumptions C04_every_column_holds_what_its_label_says.
